open Model
open Common
(* see harness/report.go *)
let names = [| "a"; "b"; "clean"; "default"; "e" |]
let vnames = [| "ALPHA"; "BETA"; "DELTA"; "GAMMA" |]
let nm n = names.(int_of_nat n)
let ints s = if s = "" then [] else List.map (fun x -> nat_of_int (int_of_string x)) (split_on '.' s)
let parse_cmd (e : string) : cmdres =
  let shape = e.[0] in
  let rest = String.sub e 1 (String.length e - 1) in
  let marker, status = match split_on '.' rest with [m; s] -> (m, int_of_string s) | _ -> failwith "bad cmd" in
  let body = match shape with
    | 'o' -> "echo " ^ marker | 'e' -> "echo " ^ marker ^ " >&2"
    | 'x' -> Printf.sprintf "echo %s; exit %d" marker status | 'k' -> Printf.sprintf "exit %d" status
    | 'i' -> "echo mk-" ^ marker
    | 'c' -> ""
    | _ -> Printf.sprintf "echo %s; echo %s >&2" marker marker in
  let text = if shape = 'c' then "" else "echo " ^ marker ^ " >>\"$T\"; " ^ body in
  let out = if shape = 'i' then "mk-" ^ marker ^ "\n" else if shape = 'o' || shape = 'x' || shape = 'b' then marker ^ "\n" else "" in
  let err = if shape = 'e' || shape = 'b' then marker ^ "\n" else "" in
  { c_cmd = bytes_of_string text; c_out = bytes_of_string out; c_err = bytes_of_string err; c_status = nat_of_int status }
let hexs b = hex b
let canon rs = "[" ^ String.concat "," (List.map (fun r ->
  Printf.sprintf "%s:%s:%s" (nm r.tr_name) (if r.tr_skipped then "s" else "r")
    (String.concat ";" (List.map (fun c -> Printf.sprintf "%s|%s|%s|%d" (hexs c.c_cmd) (hexs c.c_out) (hexs c.c_err) (int_of_nat c.c_status)) r.tr_cmds))) rs) ^ "]"
let run_report ic =
  iter_lines ic (fun line ->
    match split_on '|' line with
    | [vs; tds; invs] ->
      let vars = if vs = "" then [] else List.map (fun v ->
        match split_on '=' v with
        | [n; h] -> (nat_of_int (int_of_string n), bytes_of_hex h)
        | _ -> failwith "bad var") (split_on ',' vs) in
      let defs = List.map (fun t ->
        match split_on ':' t with
        | [n; deps; lit; cmds] ->
          { td_name = nat_of_int (int_of_string n); td_deps = ints deps; td_lits = (if lit = "1" then [O] else []); td_globs = [];
            td_cmds = (if cmds = "" then [] else List.map parse_cmd (split_on ',' cmds)) }
        | _ -> failwith "bad taskdef") (split_on ';' tds) in
      let st = ref (apply_op_i (init_i (fun _ -> None)) (Edit (O, Some O))) in
      let outs = List.map (fun inv ->
        match split_on ':' inv with
        | [fl; req; ed] ->
          if ed <> "-" then st := apply_op_i !st (Edit (O, Some (nat_of_int (int_of_string (String.sub ed 1 (String.length ed - 1))))));
          let has c = String.contains fl c in
          let f = { f_quiet = has 'q'; f_json = has 'j'; f_force = has 'f'; f_show = has 's'; f_vars = has 'v'; f_clean = has 'c'; f_debug = has 'd' } in
          let req = if req = "-" then [] else ints req in
          let (s', ob) = invoke (fun _ l -> l) defs vars !st f req in
          st := s';
          let errs = match ob.ob_error with
            | None -> "none"
            | Some (ECommandFailed (t, _, s)) -> if (not f.f_vars) && (not f.f_clean) && (not f.f_show) && List.length req > 1 then "cmdfail" else Printf.sprintf "cmdfail:%s:%d" (nm t) (int_of_nat s)
            | Some _ -> "other" in
          let exit = int_of_nat ob.ob_exit in
          let has_t k = List.exists (fun d -> d.td_name = nat_of_int k) defs in
          let usage = f.f_quiet && f.f_debug in
          let listing = not usage && not f.f_vars && not f.f_clean && (f.f_show || (req = [] && not (has_t 3))) in
          let many = (not f.f_vars) && (not f.f_clean) && (not f.f_show) && List.length req > 1 in
          let by_name rs = if many then List.sort (fun a b -> compare (nm a.tr_name) (nm b.tr_name)) rs else rs in
          let outs =
            if usage then (match ob.ob_stdout with SDNothing -> "empty" | _ -> "nonempty")
            else if exit <> 0 && not f.f_quiet then "unconstrained"
            else if f.f_vars then
              (match ob.ob_stdout with
               | SDVars l -> "vars=" ^ String.concat "," (List.map (fun (n, v) -> vnames.(int_of_nat n) ^ "=" ^ hexs v) l)
               | SDNothing -> "empty" | _ -> "vars=?")
            else if f.f_clean && not (has_t 2) then
              (match ob.ob_stdout with SDNothing -> "empty" | SDCleaned -> "cleaned" | _ -> "?")
            else if listing && not f.f_quiet && not f.f_json then
              (match ob.ob_stdout with SDListing l -> "list=" ^ String.concat "," (List.map nm l) | _ -> "list=?")
            else if (f.f_quiet && not f.f_json) || listing then
              (match ob.ob_stdout with SDNothing -> "empty" | _ -> "nonempty")
            else if f.f_json && exit = 0 then
              (match ob.ob_stdout with SDJson rs -> "json=" ^ canon (by_name rs) | _ -> "json=?")
            else if f.f_json then "unconstrained"
            else
              (match ob.ob_stdout with
               | SDText ms ->
                 let l = List.map (function MSkipped n -> nm n ^ ":s" | MCompleted n -> nm n ^ ":c") ms in
                 if many && exit <> 0 then "msgs=?" else "msgs=" ^ String.concat "," (if many then List.sort compare l else l)
               | _ -> "msgs=") in
          Printf.sprintf "exit=%d err=%s out=%s" exit errs outs
        | _ -> failwith "bad inv") (split_on ';' invs) in
      print_endline (String.concat " ; " outs)
    | _ -> print_endline "BADCASE")
