open Model
let rec pos_of_int n = if n = 1 then XH else if n land 1 = 0 then XO (pos_of_int (n lsr 1)) else XI (pos_of_int (n lsr 1))
let n_of_int n = if n = 0 then N0 else Npos (pos_of_int n)
let rec int_of_pos = function XH -> 1 | XO p -> 2 * int_of_pos p | XI p -> 2 * int_of_pos p + 1
let int_of_n = function N0 -> 0 | Npos p -> int_of_pos p
let rec int_of_nat = function O -> 0 | S n -> 1 + int_of_nat n
let rec nat_of_int n = if n <= 0 then O else S (nat_of_int (n - 1))
let bytes_of_hex h =
  let n = String.length h / 2 in
  List.init n (fun i -> n_of_int (int_of_string ("0x" ^ String.sub h (2*i) 2)))
let hex l =
  let b = Buffer.create 64 in
  List.iter (fun x -> Buffer.add_string b (Printf.sprintf "%02x" (int_of_n x))) l; Buffer.contents b
let bytes_of_string s = List.init (String.length s) (fun i -> n_of_int (Char.code s.[i]))
let string_of_bytes l = String.concat "" (List.map (fun b -> String.make 1 (Char.chr (int_of_n b))) l)
let split_on c s = String.split_on_char c s
let iter_lines ic f = try while true do f (input_line ic) done with End_of_file -> ()
