open Model
open Common
(* case: <defs>|<req>|<fails>|<single>|<observed> *)
let ints s = if s = "" || s = "-" then [] else List.map (fun x -> nat_of_int (int_of_string x)) (split_on '.' s)
let rec rotate n l = match n, l with 0, _ | _, [] -> l | n, x :: t -> rotate (n - 1) (t @ [x])
let picks = [
  (fun _ l -> l);
  (fun _ l -> List.rev l);
  (fun k l -> rotate (int_of_nat k mod (1 + List.length l)) l);
  (fun k l -> if int_of_nat k mod 2 = 0 then List.rev l else rotate 1 l) ]
let cls = function
  | EUndefinedRequested _ -> "undefined-requested" | EUndefinedDep _ -> "undefined-dep" | EDuplicate -> "duplicate"
  | ECycle -> "cycle" | EOutOfFuel -> "MODEL-OUT-OF-FUEL"
let run_graph ic =
  iter_lines ic (fun line ->
    match split_on '|' line with
    | [defs; req; fails; single; obs] ->
      let ds = if defs = "" then [] else List.map (fun d ->
        match split_on ':' d with
        | [n; deps] -> (nat_of_int (int_of_string n), ints deps)
        | _ -> failwith "bad def") (split_on ';' defs) in
      let req = ints req and fails = ints fails and obs = ints obs in
      let results = List.map (fun p -> run_order p ds req) picks in
      (* the set of selected tasks is the model's own order (proved to be exactly the reachable set) *)
      let sel = match List.hd results with GOk o -> o | GErr _ -> [] in
      let show r = match r with
        | GOk o -> if valid_order ds sel o then "OK" else "MODEL-INVALID-ORDER"
        | GErr e -> if single = "1" || cls e = "MODEL-OUT-OF-FUEL" then "ERR " ^ cls e else "ERR" in
      let shown = List.map show results in
      let first = List.hd shown in
      if List.exists (fun s -> s <> first) shown then print_endline "MODEL-PICKS-DISAGREE"
      else if first = "OK" then
        (* the implementation's observed order must be one the specification allows *)
        let ok = if fails = [] then valid_order ds sel obs else valid_partial ds sel obs in
        print_endline (if ok then "OK" else "OK-BUT-OBSERVED-ORDER-INVALID")
      else print_endline first
    | _ -> print_endline "BADCASE")
