open Model
open Common
(* decoder of harness/cst.go's encoding into Model.cfile; runs render, parse, erase and cst_wf_b *)
let hb = bytes_of_hex
let dec_arg s = match split_on '.' s with
  | ["s"; h] -> AString (hb h) | ["i"; h] -> AIdent (hb h) | _ -> failwith ("arg " ^ s)
let dec_item s = match split_on '.' s with
  | [k; h; w; c] ->
    let a = if k = "s" then AString (hb h) else AIdent (hb h) in
    let comma = if c = "n" then None else Some (hb (String.sub c 1 (String.length c - 1))) in
    { ci_arg = a; ci_ws = hb w; ci_comma = comma }
  | _ -> failwith ("item " ^ s)
let dec_args s = match split_on '/' s with
  | [w; items] -> { ca_ws = hb w; ca_items = if items = "" then [] else List.map dec_item (split_on ',' items) }
  | _ -> failwith ("args " ^ s)
let dec_outs s =
  if s = "N" then ONone else
  match split_on '/' s with
  | ["B"; w1; w2; a] -> OBare (hb w1, dec_arg a, hb w2)
  | ["P"; w1; w2; aw; items] -> OParen (hb w1, dec_args (aw ^ "/" ^ items), hb w2)
  | _ -> failwith ("outs " ^ s)
let dec_body s = match split_on '/' s with
  | [w; cmds; last] ->
    let cs = if cmds = "" then [] else List.map (fun x -> match split_on '.' x with [c; w] -> (hb c, hb w) | _ -> failwith "cmd") (split_on ',' cmds) in
    let l = if last = "n" then None else
      (match split_on '.' (String.sub last 1 (String.length last - 1)) with
       | [c; sp] -> Some (hb c, sp = "1") | _ -> failwith "last") in
    { cb_ws = hb w; cb_cmds = cs; cb_last = l }
  | _ -> failwith ("body " ^ s)
let dec_stmt s = match split_on '~' s with
  | ["C"; t; g] -> (CComment (hb t), hb g)
  | ["S"; n; w1; w2; v; g] -> (CAssignS (hb n, hb w1, hb w2, hb v), hb g)
  | ["F"; n; w1; w2; f; w3; a; g] -> (CAssignF (hb n, hb w1, hb w2, hb f, hb w3, dec_args a), hb g)
  | ["I"; n; w1; w2; i; g] -> (CAssignI (hb n, hb w1, hb w2, hb i), hb g)
  | ["T"; doc; wt; n; wn; deps; wd; outs; body; g] ->
    let d = if doc = "n" then None else
      (match split_on '.' (String.sub doc 1 (String.length doc - 1)) with
       | [d; w] -> Some (hb d, hb w) | _ -> failwith "doc") in
    (CTask (d, hb wt, hb n, hb wn, dec_args deps, hb wd, dec_outs outs, dec_body body), hb g)
  | _ -> failwith ("stmt " ^ s)
let dec_file line = match split_on '|' line with
  | w :: stmts -> (hb w, List.map dec_stmt stmts)
  | [] -> failwith "file"
let run_cst ic =
  iter_lines ic (fun line ->
    match (try Some (dec_file line) with Failure _ -> None) with
    | None -> print_endline "BADCASE ## - ## -"
    | Some f ->
      let text = render f in
      let wf = cst_wf_b f in
      let p = (match parse text with
        | PTree t -> "T " ^ Syntax.show_tree t
        | PErr (l, Some c) -> Printf.sprintf "E %d %s" (int_of_nat l) (hex c)
        | _ -> "PANIC") in
      (* a layout outside the admissible class is a defect of the generator, reported as such *)
      print_endline ((if wf then "" else "NOTWF:") ^ hex text ^ " ## " ^ p ^ " ## T " ^ Syntax.show_tree (erase f)))
