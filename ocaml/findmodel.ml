open Model
open Common
let ints s = if s = "" then [] else List.map (fun x -> nat_of_int (int_of_string x)) (split_on '.' s)
let run_find ic =
  iter_lines ic (fun line ->
    match split_on '|' line with
    | [dirs; start; stop] ->
      let tbl = Hashtbl.create 16 in
      List.iter (fun d ->
        match split_on ':' d with
        | [p; ents] ->
          let es = if ents = "" then [] else List.map (fun e ->
            match split_on '/' e with
            | [n; k] -> (nat_of_int (int_of_string n), (if k = "f" then KFile else KDir))
            | _ -> failwith "bad entry") (split_on ',' ents) in
          Hashtbl.replace tbl (List.rev (ints p)) es
        | _ -> failwith "bad dir") (split_on ';' dirs);
      let fs p = Hashtbl.find_opt tbl p in
      (match find_spokfile fs (List.rev (ints stop)) (List.rev (ints start)) with
       | Found d -> print_endline ("F " ^ String.concat "." (List.map (fun n -> string_of_int (int_of_nat n)) (List.rev d)))
       | NotFound -> print_endline "N"
       | ReadError _ -> print_endline "E")
    | _ -> print_endline "BADCASE")
