open Model
open Common
(* see harness/load.go *)
let hexs l = String.concat "," (List.map hex l)
(* what `echo <words>` prints: the words separated by single blanks, then a newline; anything else fails *)
let exec_oracle (c : n list) : n list option =
  let s = string_of_bytes c in
  if String.length s >= 5 && String.sub s 0 5 = "echo " then
    let ws = List.filter (fun w -> w <> "") (String.split_on_char ' ' (String.sub s 5 (String.length s - 5))) in
    Some (bytes_of_string (String.concat " " ws ^ "\n"))
  else None
let run_load ic =
  iter_lines ic (fun line ->
    match split_on '|' line with
    | [src; root; cwd] ->
      (match parse (bytes_of_hex src) with
       | PTree nodes ->
         (match load (bytes_of_hex cwd) (fun _ c -> exec_oracle c) (bytes_of_hex root) nodes with
          | LErr _ -> print_endline "ERR"
          | LOk (vs, ts) ->
            let vs = List.sort (fun (a, _) (b, _) -> compare (string_of_bytes a) (string_of_bytes b)) vs in
            let ts = List.sort (fun a b -> compare (string_of_bytes a.lt_name) (string_of_bytes b.lt_name)) ts in
            let v = "V " ^ String.concat "," (List.map (fun (n, x) -> string_of_bytes n ^ "=" ^ hex x) vs) in
            let t = List.map (fun t -> " ## T " ^ String.concat "|" [hex t.lt_name; hex t.lt_doc; hexs t.lt_taskdeps; hexs t.lt_filedeps; hexs t.lt_globdeps;
                                                                   hexs t.lt_cmds; hexs t.lt_named; hexs t.lt_fileouts; hexs t.lt_globouts]) ts in
            print_endline (v ^ String.concat "" t))
       | _ -> print_endline "PARSEERR")
    | _ -> print_endline "BADCASE")
