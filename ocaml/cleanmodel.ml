open Model
open Common
(* see harness/clean.go *)
let segs p = if p = "" || p = "." then [] else List.map bytes_of_string (split_on '/' p)
let run_clean ic =
  iter_lines ic (fun line ->
    match split_on '|' line with
    | [fsl; cwd; vars; outs; hasclean] ->
      let entries = if fsl = "" then [] else List.map (fun e -> (e.[0], String.sub e 2 (String.length e - 2))) (split_on ',' fsl) in
      let h = bytes_of_string "h" in
      let fs = List.map (fun (_, p) -> h :: segs p) entries in
      let root = [h; bytes_of_string "proj"] in
      let cwdp = h :: segs cwd in
      let cwds = bytes_of_string ("/h/" ^ cwd) in
      let vs = if vars = "" then [] else List.map (fun v ->
        match split_on ':' v with
        | [n; "S"; value] -> (bytes_of_string n, bytes_of_hex value)
        | [n; "J"; parts] -> (bytes_of_string n, join_builtin cwds (if parts = "" then [] else List.map bytes_of_hex (split_on ',' parts)))
        | _ -> failwith "bad var") (split_on ';' vars) in
      (* the project tree, for output globs *)
      let troot = { Globmodel.kids = []; isdir = true } in
      List.iter (fun (k, p) ->
        if String.length p > 5 && String.sub p 0 5 = "proj/" then
          Globmodel.insert troot (split_on '/' (String.sub p 5 (String.length p - 5))) (k = 'd')) entries;
      let tree = Globmodel.to_node troot in
      let os = if outs = "" then [] else List.map (fun o ->
        let body = String.sub o 1 (String.length o - 1) in
        match o.[0] with
        | 'F' -> OFile (bytes_of_hex body)
        | 'N' -> ONamed (bytes_of_string body)
        | _ ->
          let pat = List.map (fun s -> if s = "**" then SDouble else SPat (bytes_of_string s)) (split_on '/' (string_of_bytes (bytes_of_hex body))) in
          OGlob (List.map (fun p -> root @ p) (expand tree pat))) (split_on ';' outs) in
      let show fs' =
        let l = List.sort_uniq compare (List.map (fun p -> String.concat "/" (List.map string_of_bytes (List.tl p))) fs') in
        String.concat "," l in
      if hasclean = "1" then begin
        let sp = root @ [bytes_of_string ".spok"] in
        let extra = [sp; sp @ [bytes_of_string "cache.json"]; sp @ [bytes_of_string ".gitignore"]; sp @ [bytes_of_string "CACHEDIR.TAG"]] in
        (* the clean task runs like any task: the cache is initialised unless a cache file is already there *)
        let has_cache = List.mem (sp @ [bytes_of_string "cache.json"]) fs in
        print_endline ("0 " ^ show (if has_cache then fs else fs @ extra))
      end else
        match clean_fs root cwdp vs os fs with
        | None -> print_endline ("1 " ^ show fs)
        | Some fs' -> print_endline ("0 " ^ show fs')
    | _ -> print_endline "BADCASE")
