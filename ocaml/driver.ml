let () =
  let mode = Sys.argv.(1) in
  let ic = if Array.length Sys.argv > 2 then open_in Sys.argv.(2) else stdin in
  match mode with
  | "syntax" -> Syntax.run_syntax ic
  | "ser" -> Syntax.run_ser ic
  | "hash" -> Hashmodel.run_hash ic
  | "graph" -> Graphmodel.run_graph ic
  | "runcache" -> Runcachemodel.run_runcache ic
  | "find" -> Findmodel.run_find ic
  | "glob" -> Globmodel.run_glob ic
  | "load" -> Loadmodel.run_load ic
  | "report" -> Reportmodel.run_report ic
  | "vars" -> Varsmodel.run_vars ic
  | "clean" -> Cleanmodel.run_clean ic
  | "effects" -> Effectsmodel.run_effects ic
  | "cst" -> Cstmodel.run_cst ic
  | m -> prerr_endline ("unknown mode " ^ m); exit 2
