open Model
open Common
(* see harness/vars.go *)
let run_vars ic =
  iter_lines ic (fun line ->
    match split_on '|' line with
    | [cwd; vars; cmds; amb; envf] ->
      let cwd = bytes_of_hex cwd in
      let failed = ref false in
      let vs = List.map (fun v ->
        match split_on ':' v with
        | [n; "S"; value] -> (bytes_of_string n, bytes_of_hex value)
        | [n; "J"; parts] -> (bytes_of_string n, join_builtin cwd (if parts = "" then [] else List.map bytes_of_hex (split_on ',' parts)))
        | [n; "J"] -> (bytes_of_string n, join_builtin cwd [])
        | [n; "X"; out; status] -> if status <> "0" then failed := true; (bytes_of_string n, trim (bytes_of_hex out))
        | _ -> failwith ("bad var " ^ v)) (split_on ';' vars) in
      if !failed then print_endline "ERR" else begin
        let names l = if l = "" then [] else split_on ',' l in
        let ambient = List.map (fun n -> (bytes_of_string n, bytes_of_string ("ambient-" ^ n))) (names amb)
                      @ List.map (fun n -> (bytes_of_string n, bytes_of_string ("dotenv-" ^ n))) (names envf) in
        let cm = List.map (fun c ->
          let segs = List.map (fun s ->
            let body = bytes_of_hex (String.sub s 1 (String.length s - 1)) in
            if s.[0] = 'R' then Ref body else Lit body) (split_on '+' c) in
          match expand_vars vs (render_cmd segs) with
          | TOk o -> hex o
          | TUnsupported -> "UNSUPPORTED") (split_on ';' cmds) in
        let ev = List.map (fun (n, _) ->
          string_of_bytes n ^ "=" ^ (match env_lookup (cmd_env vs ambient) n with Some v -> hex v | None -> "UNSET")) vs in
        print_endline ("cmds=" ^ String.concat "," cm ^ " env=" ^ String.concat "," ev)
      end
    | _ -> print_endline "BADCASE")
