open Model
open Common
(* case: <k>:<path>,...|<pattern> *)
type tn = { mutable kids : (string * tn) list; mutable isdir : bool }
let rec insert (t : tn) (segs : string list) (dir : bool) =
  match segs with
  | [] -> ()
  | [s] -> if not (List.mem_assoc s t.kids) then t.kids <- (s, { kids = []; isdir = dir }) :: t.kids
  | s :: r ->
    (if not (List.mem_assoc s t.kids) then t.kids <- (s, { kids = []; isdir = true }) :: t.kids);
    insert (List.assoc s t.kids) r dir
let rec to_node (t : tn) : gnode =
  if t.isdir then GDir (List.map (fun (n, c) -> (bytes_of_string n, to_node c)) (List.sort (fun (a, _) (b, _) -> compare a b) t.kids))
  else GFile
let run_glob ic =
  iter_lines ic (fun line ->
    match split_on '|' line with
    | [tree; pattern] ->
      let root = { kids = []; isdir = true } in
      if tree <> "" then List.iter (fun e ->
        let k = e.[0] and p = String.sub e 2 (String.length e - 2) in
        insert root (split_on '/' p) (k = 'd')) (split_on ',' tree);
      let t = to_node root in
      let pat = bytes_of_string pattern in
      let show l = let l = List.sort_uniq compare (List.map (fun p -> String.concat "/" (List.map string_of_bytes p)) l) in
        if l = [] then "-" else String.concat "," l in
      let a = show (expand_pat t pat) and b = show (glob_spec_pat t pat) in
      print_endline (if a = b then a else "MODEL-WALKER-DISAGREES-WITH-SPEC " ^ a ^ " vs " ^ b)
    | _ -> print_endline "BADCASE")
