open Model
open Common
let tname = function EOF -> "EOF" | ERROR -> "ERROR" | COMMENT -> "COMMENT" | HASH -> "#" | LPAREN -> "(" | RPAREN -> ")"
  | LBRACE -> "{" | RBRACE -> "}" | QUOTE -> "\"" | COMMA -> "," | TASK -> "task" | STRING -> "STRING" | COMMAND -> "COMMAND"
  | OUTPUT -> "->" | IDENT -> "IDENT" | DECLARE -> ":=" | LINTERP -> "{{" | RINTERP -> "}}"
let show_lex s =
  let (fl, toks) = lex s in
  let b = Buffer.create 256 in
  Buffer.add_string b (match fl with FOk -> "ok" | FPanic -> "PANIC" | FFuel -> "FUEL");
  List.iter (fun t ->
    match t.ty with
    | ERROR -> Buffer.add_string b (Printf.sprintf " ERROR:%d:%d:%d:%s" (int_of_nat t.tpos) (int_of_nat t.tline) (int_of_nat t.eline)
                 (match t.ectx with Some c -> hex c | None -> "NONE"))
    | ty -> Buffer.add_string b (Printf.sprintf " %s:%s:%d:%d" (tname ty) (hex t.val0) (int_of_nat t.tpos) (int_of_nat t.tline))) toks;
  Buffer.contents b
let arg = function AString s -> "s." ^ hex s | AIdent s -> "i." ^ hex s
let args l = String.concat "," (List.map arg l)
let node = function
  | NComment t -> "C:" ^ hex t
  | NAssign (n, RString s) -> "A:" ^ hex n ^ ":S:" ^ hex s
  | NAssign (n, RIdent s) -> "A:" ^ hex n ^ ":I:" ^ hex s
  | NAssign (n, RFunc (f, a)) -> "A:" ^ hex n ^ ":F:" ^ hex f ^ "(" ^ args a ^ ")"
  | NTask (d, n, deps, outs, cmds) -> "T:" ^ hex d ^ ":" ^ hex n ^ ":" ^ args deps ^ ":" ^ args outs ^ ":" ^ String.concat "," (List.map hex cmds)
let show_tree t = String.concat ";" (List.map node t)
let show_parse s =
  match parse s with
  | PTree t -> "T " ^ show_tree t ^ " ## " ^ hex (fmt t) ^ " ## " ^ (if cst_wf_b (layout t) then "1" else "0")
  | PErr (l, Some c) -> Printf.sprintf "E %d %s ## - ## -" (int_of_nat l) (hex c)
  | PErr (_, None) -> "PANIC ## - ## -"
  | PErrRaw m -> "R " ^ hex m ^ " ## - ## -"
  | PPanic -> "PANIC ## - ## -" | PFuel -> "FUEL ## - ## -"
let run_syntax ic =
  iter_lines ic (fun line ->
    let s = bytes_of_hex line in
    print_string (show_lex s); print_string " ## "; print_endline (show_parse s))

(* thorough tier: the serialised result of everything the syntax models compute, to be compared with vm_compute inside Coq *)
let run_ser ic = iter_lines ic (fun line -> print_endline (hex (ser_result (bytes_of_hex line))))
