open Model
open Common
(* see harness/effects.go *)
let segs p = if p = "" || p = "." then [] else List.map bytes_of_string (split_on '/' p)
let run_effects ic =
  iter_lines ic (fun line ->
    match split_on '|' line with
    | [letters; ntasks; pj; root; cwd; changed; ctargets] ->
      let has c = String.contains letters c in
      let o = { o_init = has 'i'; o_fmt = has 'f'; o_vars = has 'v'; o_clean = has 'c'; o_show = has 's'; o_quiet = has 'q'; o_debug = has 'd' } in
      let bit i = pj.[i] = '1' in
      let p = { p_found = bit 0; p_loads = bit 1; p_has_clean = bit 2; p_has_default = bit 3; p_cwd_has_spokfile = bit 4 } in
      let h = bytes_of_string "h" in
      let k = write_kind o p (nat_of_int (int_of_string ntasks)) in
      let rootp = h :: segs root and cwdp = h :: segs cwd in
      let ts = if ctargets = "" then [] else List.map (fun t -> h :: segs t) (split_on ';' ctargets) in
      let ch = if changed = "" then [] else split_on ';' changed in
      let bad = List.filter (fun c -> not (may_change k rootp cwdp ts (h :: segs c))) ch in
      print_endline (if bad = [] then "ok" else "UNEXPECTED:" ^ String.concat ";" bad)
    | _ -> print_endline "BADCASE")
