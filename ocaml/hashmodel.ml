open Model
open Common
(* case: <ncpu>|<schedseed>|<k>:<pathhex>:<contenthex>,... *)
let sha_cache : (n list, n list) Hashtbl.t = Hashtbl.create 1024
let sha_memo (m : n list) : n list =
  match Hashtbl.find_opt sha_cache m with
  | Some d -> d
  | None -> let d = sha256 m in Hashtbl.replace sha_cache m d; d
let run_hash ic =
  iter_lines ic (fun line ->
    match split_on '|' line with
    | [ncpu; ss; ents] ->
      let ncpu = int_of_string ncpu and ss = int_of_string ss in
      let entries = if ents = "" then [] else List.map (fun e ->
        match split_on ':' e with
        | [k; p; c] -> (k, bytes_of_hex p, bytes_of_hex c)
        | _ -> failwith ("bad entry " ^ e)) (split_on ',' ents) in
      let tbl = Hashtbl.create 16 in
      List.iter (fun (k, p, c) -> Hashtbl.replace tbl p (match k with "f" -> Regular c | "d" -> Directory | _ -> Unreadable)) entries;
      let fs p = try Hashtbl.find tbl p with Not_found -> Unreadable in
      let files = List.map (fun (_, p, _) -> p) entries in
      let show = function Digest h -> "D " ^ string_of_bytes h | HashError -> "ERR" in
      let spec = hash_spec sha_memo fs files in
      let ok = ref true in
      if List.length files <= 300 then
        List.iter (fun (a, b) ->
          let sched k = nat_of_int ((int_of_nat k * a + b + ss) mod 9973) in
          match hash_run sha_memo fs (nat_of_int ncpu) files sched with
          | Done o -> if o <> spec then ok := false
          | Deadlock | OutOfFuel -> ok := false) [(0, 0); (7, 3); (13, 1); (1, 0)];
      print_endline (if !ok then show spec else "MODEL-SCHEDULES-DISAGREE")
    | _ -> print_endline "BADCASE")
