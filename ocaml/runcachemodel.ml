open Model
open Common
(* see harness/runcache.go for the case format *)
let ints s = if s = "" then [] else List.map (fun x -> nat_of_int (int_of_string x)) (split_on '.' s)
let nm n = String.make 1 (Char.chr (Char.code 'a' + int_of_nat n))
let parse_tasks s =
  List.map (fun t ->
    match split_on ':' t with
    | [n; lits; globs] ->
      { tname = nat_of_int (int_of_string n); lits = ints lits;
        globs = (if globs = "" then [] else List.map ints (split_on '+' globs)) }
    | _ -> failwith ("bad task " ^ t)) (split_on ';' s)
let disk_summary tasks s =
  match s.disk with
  | Missing -> "M" | Corrupt -> "X"
  | Good m -> "G" ^ String.concat "" (List.map (fun t -> match m t.tname with None -> "0" | Some _ -> "1") tasks)
let show_names l = String.concat "." l
let run_runcache ic =
  iter_lines ic (fun line ->
    match split_on '|' line with
    | [ts; ops] ->
      let tasks = parse_tasks ts in
      let find n = List.find (fun t -> t.tname = n) tasks in
      let st = ref (init_i (fun _ -> None)) in
      let outs = List.map (fun o ->
        let res =
          match o.[0] with
          | 'E' ->
            (match split_on '=' (String.sub o 1 (String.length o - 1)) with
             | [p; c] ->
               let c = if c = "-" then None else Some (nat_of_int (int_of_string c)) in
               st := apply_op_i !st (Edit (nat_of_int (int_of_string p), c)); "-"
             | _ -> failwith "bad edit")
          | 'S' -> "-"     (* the spokfile grows by its last task: nothing the model's state knows about *)
          | 'X' -> st := apply_op_i !st RemoveCache; "-"
          | 'T' -> st := apply_op_i !st TearCache; "-"
          | ('R' | 'C') as k ->
            (match split_on ':' (String.sub o 1 (String.length o - 1)) with
             | [f; order; beh; last] ->
               let force = f = "1" in
               let order = ints order in
               let bmap = List.mapi (fun i n -> (n, beh.[i])) order in
               let b n = match List.assoc_opt n bmap with Some 'F' -> BFail | Some 'A' -> BAbort | _ -> BSucc in
               let otasks = List.map find order in
               let r = run_i force b !st otasks in
               let sorted = k = 'R' && last = "1" in
               let srt l = if sorted then List.sort compare l else l in
               let exs l = show_names (srt (List.map nm l)) in
               let normal () =
                 st := apply_op_i !st (RunOp (force, b, otasks));
                 (match r.rr_out with
                  | RunOk rs -> "ok " ^ String.concat "," (srt (List.map (fun x -> nm x.r_task ^ "=" ^ (if x.r_skipped then "s" else "r")) rs))
                              ^ " ex=" ^ exs r.rr_exec
                  | RunErr e -> "err " ^ (match e with CacheError -> "cache" | HashFailed -> "hash" | TaskAbort -> "abort") ^ " ex=" ^ exs r.rr_exec) in
               if k = 'R' then normal ()
               else begin
                 let t = nat_of_int (int_of_string last) in
                 let is_start l = (match l with LExecStart x -> x = t | _ -> false) in
                 if List.exists (fun (l, _) -> is_start l) r.rr_trace then begin
                   st := state_at_i is_start !st r.rr_trace;
                   let rec upto = function [] -> [] | x :: rest -> if x = t then [x] else x :: upto rest in
                   "crash ex=" ^ exs (upto r.rr_exec)
                 end else normal ()
               end
             | _ -> failwith "bad run")
          | _ -> failwith ("bad op " ^ o) in
        res ^ " " ^ disk_summary tasks !st) (split_on ';' ops) in
      print_endline (String.concat " ; " outs)
    | _ -> print_endline "BADCASE")
