(* C14 — --force runs every selected task regardless of the cache, and does not damage the cache.
   Statements + `exact` + Print Assumptions only. *)
From Spok Require Import Base Graph RunCache RunCacheProofs RunCacheInst App AppProofs.

Section C14.
Variable D : Type.
Variable deqb : D -> D -> bool.
Variable dempty : D.
Variable digest : inputs -> D.
Hypothesis deqb_spec : forall a b, deqb a b = true <-> a = b.
Hypothesis digest_ne : forall F, digest F <> dempty.

(* whatever the cache holds: a forced run that reports results reports none as skipped and has executed every selected task *)
Theorem C14_force : forall b s order rs, rr_out D (run D deqb dempty digest true b s order) = RunOk rs ->
  (forall r, In r rs -> r_skipped r = false) /\ rr_exec D (run D deqb dempty digest true b s order) = map tname order.
Proof. exact (force_runs_everything D deqb dempty digest deqb_spec digest_ne). Qed.

(* a forced run is an ordinary operation of the history: the cache invariant survives it (RunOp true ...), hence later
   unforced runs still skip soundly (C01_skip_sound applies to the state after any history) *)
Theorem C14_cache_intact : forall fs ops, Inv D dempty digest (history_state D deqb dempty digest fs ops).
Proof. exact (reachable_inv D deqb dempty digest deqb_spec). Qed.
End C14.
Print Assumptions C14_force.
Print Assumptions C14_cache_intact.

(* at the level of a whole `spok --force ...` invocation - tasks named on the command line, the default task when none is
   named, or --clean with a task named clean: the report has no skipped task and every reported task was executed *)
Theorem C14_invocation : forall pick defs vars s f req s' ob rs,
  invoke pick defs vars s f req = (s', ob) -> f_force f = true -> ob_stdout ob = SDJson rs ->
  (forall r, In r rs -> tr_skipped r = false) /\ ob_executed ob = map tr_name rs.
Proof. exact forced_invocation. Qed.
Print Assumptions C14_invocation.

Definition ta := {| tname := 0; lits := [0]; globs := [] |}.
Definition all_ok : name -> beh := fun _ => BSucc.
(* run a; forced run a on an edited file; revert; unforced run: NOT skipped (the forced success is what counts) *)
Example C14_nonvacuous :
  let s := fold_left apply_op_i [Edit 0 (Some 1); RunOp false all_ok [ta]; Edit 0 (Some 2); RunOp true all_ok [ta]; Edit 0 (Some 1)] (init_i (fun _ => None)) in
  rr_out DI (run_i false all_ok s [ta]) = RunOk [{| r_task := 0; r_skipped := false |}]
  /\ rr_out DI (run_i true all_ok (apply_op_i s (RunOp false all_ok [ta])) [ta]) = RunOk [{| r_task := 0; r_skipped := false |}].
Proof. split; vm_compute; reflexivity. Qed.
Print Assumptions C14_nonvacuous.

(* `spok --force --json` with no task name and a task named default (3) that is up to date: it runs *)
Definition okc := {| c_cmd := [101%N]; c_out := []; c_err := []; c_status := 0 |}.
Definition defs14 := [ {| td_name := 3; td_deps := []; td_lits := [0]; td_globs := []; td_cmds := [okc] |} ].
Definition fl (force : bool) := {| f_quiet := false; f_json := true; f_force := force; f_show := false; f_vars := false; f_clean := false; f_debug := false |}.
Example C14_default_task_forced :
  let s0 := apply_op_i (init_i (fun _ => None)) (Edit 0 (Some 1)) in
  let '(s1, o1) := invoke (fun _ l => l) defs14 [] s0 (fl false) [] in
  let '(s2, o2) := invoke (fun _ l => l) defs14 [] s1 (fl false) [] in
  let '(_, o3) := invoke (fun _ l => l) defs14 [] s2 (fl true) [] in
  ob_executed o1 = [3] /\ ob_executed o2 = [] /\ ob_executed o3 = [3].
Proof. vm_compute. repeat split; reflexivity. Qed.
Print Assumptions C14_default_task_forced.
