(* C05 — A glob denotes exactly the matching non-hidden files under the spokfile dir.
   Statements + `exact` + Print Assumptions only.  Patterns: alternation {a,b} (nested too), then segments separated by '/', each
   made of literal bytes, '*', '?' and character classes [..], [!..], [^..] with ranges, or the segment "**".  Outside: backslash
   escapes (a segment containing one matches nothing in the model) and empty segments. *)
From Spok Require Import Base Glob GlobProofs Lexer Parser Vars Load LoadProofs.

(* For every well-formed directory tree (no name listed twice in a directory) and every non-empty pattern of the
   fragment, the model of doublestar's GlobWalk driven by spok's callback reports an entry iff the reference matcher
   accepts its relative path and that path does not begin with a dot - whatever other files, hidden files or
   directories are present.  Nothing matching is omitted, nothing else is included. *)
Theorem C05_exact : forall root pat x, wf root -> pat <> [] ->
  (In x (expand root pat) <-> tmatch pat root x = true /\ hidden x = false).
Proof. exact (fun root pat x W NE => expand_spec root W pat x NE). Qed.
Print Assumptions C05_exact.

(* for a pattern as written in the spokfile (alternation included): an entry is reported iff some alternative of the pattern
   matches its relative path and the path does not begin with a dot *)
Theorem C05_pattern : forall root p x, wf root ->
  (In x (expand_pat root p) <->
   exists q, In q (expand_alts (S (length p)) p) /\ tmatch (parse_pattern q) root x = true /\ hidden x = false).
Proof. exact expand_pat_spec. Qed.
Print Assumptions C05_pattern.

Theorem C05_pattern_same_as_full_walk : forall root p, wf root -> forall x, In x (expand_pat root p) <-> In x (glob_spec_pat root p).
Proof. exact expand_pat_exact. Qed.
Print Assumptions C05_pattern_same_as_full_walk.

(* which strings are patterns at all (task.New): a dependency string containing '*' is kept as a pattern of the task, every one
   of them; a string without '*' is a file below the spokfile's directory, whatever other characters it contains *)
Theorem C05_patterns_recognised : forall root vs doc name deps outs cmds t s,
  load_task root vs doc name deps outs cmds = Some t -> In (AString s) deps ->
  (is_glob s = true -> In s (lt_globdeps t)) /\
  (is_glob s = false -> In (Paths.join [root; s]) (lt_filedeps t) /\ ~ In s (lt_globdeps t)).
Proof.
  exact (fun root vs doc name deps outs cmds t s H Hin =>
           conj (every_pattern_is_kept root vs doc name deps outs cmds t s H Hin)
                (string_without_star_is_a_file root vs doc name deps outs cmds t s H Hin)).
Qed.
Print Assumptions C05_patterns_recognised.

(* the same, against the executable specification "filter a full walk of the tree with the reference matcher" *)
Theorem C05_same_as_full_walk : forall root pat, wf root -> pat <> [] ->
  forall x, In x (expand root pat) <-> In x (glob_spec root pat).
Proof. exact expand_exact. Qed.
Print Assumptions C05_same_as_full_walk.

(* the general fact about the walker: with any callback that never returns SkipDir it calls the callback on exactly the
   entries matching the pattern (directories only for the non-final segments) *)
Theorem C05_walker : forall root, wf root -> forall rpat fn first, NoSkip fn -> rpat <> [] ->
  (first = true \/ lits (rev rpat) = None) -> forall x,
  In x (do_glob_walk root rpat first fn) <->
  exists p c, lookup root p = Some c /\ tmatch (rev rpat) root p = true /\ (first = true \/ is_dir c = true) /\
              In x (fst (fn p (is_dir c))).
Proof. exact do_glob_walk_spec. Qed.
Print Assumptions C05_walker.

(* non-vacuity, and the defect that was repaired: with a.js, z.js and .eslintrc.js, "*.js" is {a.js, z.js};
   the callback that returned SkipDir for hidden files yields nothing *)
Definition b (s : list N) := s.
Definition ex_tree : gnode := GDir [ ([46; 101], GFile); ([97; 46; 106; 115], GFile); ([115; 114; 99], GDir [([98; 46; 106; 115], GFile)]); ([122; 46; 106; 115], GFile) ].
Example C05_nonvacuous :
  expand ex_tree [SPat [42; 46; 106; 115]] = [[[97; 46; 106; 115]]; [[122; 46; 106; 115]]]
  /\ expand ex_tree [SDouble; SPat [42; 46; 106; 115]] = [[[97; 46; 106; 115]]; [[122; 46; 106; 115]]; [[115; 114; 99]; [98; 46; 106; 115]]]
  /\ expand_with old_spok_cb ex_tree [SPat [42]] = []
  (* "{src,lib}/[a-c].{js,txt}" and "?.j[!x]" *)
  /\ expand_pat ex_tree [123;115;114;99;44;108;105;98;125;47;91;97;45;99;93;46;123;106;115;44;116;120;116;125] = [[[115; 114; 99]; [98; 46; 106; 115]]]
  /\ expand_pat ex_tree [63;46;106;91;33;120;93] = [[[97; 46; 106; 115]]; [[122; 46; 106; 115]]].
Proof. repeat split; vm_compute; reflexivity. Qed.
Print Assumptions C05_nonvacuous.
