(* C04 — The digest is a deterministic, change-sensitive function of the file set.
   Statements + `exact` + Print Assumptions only.  `sha` is universally quantified everywhere:
   nothing about SHA-256 is assumed, "up to collisions" is the explicit disjunct `collision sha`. *)
From Spok Require Import Base Sha256 Hash HashProofs.
From Coq Require Import Permutation.

(* same digest for every ordering of the list *)
Theorem C04_order : forall sha fs l l', Permutation l l' -> hash_spec sha fs l = hash_spec sha fs l'.
Proof. exact hash_spec_perm. Qed.
Print Assumptions C04_order.

(* same digest for every number of CPUs (>= 1) and every interleaving of feeder, workers, closer and collector;
   the run never deadlocks or runs out of steps *)
Theorem C04_schedule : forall sha fs ncpu files sched, (1 <= ncpu)%nat ->
  hash_run sha fs ncpu files sched = Done (hash_spec sha fs files).
Proof. exact hash_run_spec. Qed.
Print Assumptions C04_schedule.

(* directories in the list are ignored *)
Theorem C04_dirs : forall sha fs l, hash_spec sha fs (filter (not_dir fs) l) = hash_spec sha fs l.
Proof. exact hash_spec_dirs. Qed.
Print Assumptions C04_dirs.

(* adding / removing a regular file changes the digest, unless SHA-256 collides *)
Theorem C04_add_remove : forall sha fs p c l d, fs p = Regular c -> (0 < length p)%nat ->
  hash_spec sha fs (p :: l) = Digest d -> hash_spec sha fs l = Digest d -> collision sha.
Proof. exact add_file_changes. Qed.
Print Assumptions C04_add_remove.

(* equal digests mean equal multisets of (content hash ++ path) items - i.e. same paths with same content
   hashes - unless SHA-256 collides, for item sets that are uniquely decodable (prefix-free, see DESIGN C04:
   the hypothesis is necessary for the code as written) *)
Theorem C04_injective : forall sha a b d,
  prefix_free (map item a ++ map item b) -> Forall (fun x : bytes => x <> []) (map item a ++ map item b) ->
  finish sha a = Digest d -> finish sha b = Digest d -> Permutation (map item a) (map item b) \/ collision sha.
Proof. exact digest_injective. Qed.
Print Assumptions C04_injective.

(* non-vacuity: a concrete file system, list with a duplicate and a directory, 2 CPUs, a non-trivial schedule *)
Definition ex_fs : fsys := fun p =>
  match p with
  | [47; 97] => Regular [104; 105]          (* /a  -> "hi" *)
  | [47; 97; 98] => Regular []              (* /ab -> ""   *)
  | [47; 100] => Directory                  (* /d *)
  | _ => Unreadable
  end.
Example C04_nonvacuous :
  exists d, hash_run sha256 ex_fs 2 [[47; 97]; [47; 100]; [47; 97; 98]; [47; 97]] (fun k => (k * 7 + 3)%nat) = Done (Digest d)
         /\ hash_spec sha256 ex_fs [[47; 97; 98]; [47; 97]; [47; 97]] = Digest d.
Proof. eexists. split; vm_compute; reflexivity. Qed.
Print Assumptions C04_nonvacuous.
