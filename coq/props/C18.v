(* C18 — Hashing any path list returns cleanly: no crash, deadlock or leak (race freedom is outside the model).
   Statements + `exact` + Print Assumptions only. *)
From Spok Require Import Base Sha256 Hash HashProofs RunCache RunCacheProofs RunCacheInst.
Open Scope N_scope.

(* For every file system, list (any length, duplicates, directories, unreadable entries), CPU count >= 1 and
   schedule: the pool reaches, within the step bound, a state with no enabled transition in which the feeder,
   every worker, the closer and the collecting loop have all finished (is_final - nothing is left behind),
   and the value returned is the specified one.  `Done` excludes Deadlock and OutOfFuel. *)
Theorem C18_clean : forall sha fs ncpu files sched, (1 <= ncpu)%nat ->
  hash_run sha fs ncpu files sched = Done (hash_spec sha fs files).
Proof. exact hash_run_spec. Qed.
Print Assumptions C18_clean.

(* a file that cannot be opened or read yields an error, never a digest *)
Theorem C18_error : forall sha fs l p, In p l -> fs p = Unreadable -> hash_spec sha fs l = HashError.
Proof. exact hash_spec_error. Qed.
Print Assumptions C18_error.

(* and without such a file the result is a digest *)
Theorem C18_digest : forall sha fs l, (forall p, In p l -> fs p <> Unreadable) -> exists d, hash_spec sha fs l = Digest d.
Proof. exact hash_spec_digest. Qed.
Print Assumptions C18_digest.

Definition ex_fs : fsys := fun p =>
  match p with [47; 97] => Regular [104; 105] | [47; 100] => Directory | _ => Unreadable end.
Example C18_nonvacuous :
  hash_run sha256 ex_fs 4 [[47; 97]; [47; 120]; [47; 100]] (fun k => (k * 5 + 1)%nat) = Done HashError
  /\ hash_run sha256 ex_fs 1 [] (fun k => k) = Done (hash_spec sha256 ex_fs []).
Proof. split; vm_compute; reflexivity. Qed.
Print Assumptions C18_nonvacuous.

Close Scope N_scope.
(* "... so spok stops with a message": where the digest meets the run.  If a task selected for the run names a file that
   cannot be read, the run - forced or not, whatever the cache holds and whatever the other tasks do - ends with an error,
   and (task names being distinct, as file.New guarantees) none of that task's commands is started. *)
Theorem C18_stops_the_run : forall (D : Type) (deqb : D -> D -> bool) (dempty : D) (digest : inputs -> D)
  (force : bool) (b : name -> beh) (s : st D) (order : list task) (t : task),
  In t order -> inputs_of (files D s) t = None ->
  (exists e : errk, rr_out D (run D deqb dempty digest force b s order) = RunErr e) /\
  (NoDup (map tname order) -> ~ In (tname t) (rr_exec D (run D deqb dempty digest force b s order))).
Proof. exact unreadable_dependency_stops_the_run. Qed.
Print Assumptions C18_stops_the_run.

(* a forced run of a(f0) then b(f1) where f1 does not exist: a runs, then the run stops; b is never started *)
Definition t18a := {| tname := 0; lits := [0]; globs := [] |}.
Definition t18b := {| tname := 1; lits := [1]; globs := [] |}.
Example C18_run_nonvacuous :
  let s := apply_op_i (init_i (fun _ => None)) (Edit 0 (Some 1)) in
  inputs_of (files DI s) t18b = None
  /\ rr_out DI (run_i true (fun _ => BSucc) s [t18a; t18b]) = RunErr HashFailed
  /\ rr_exec DI (run_i true (fun _ => BSucc) s [t18a; t18b]) = [0].
Proof. repeat split; vm_compute; reflexivity. Qed.
Print Assumptions C18_run_nonvacuous.
