(* C18 — Hashing any path list returns cleanly: no crash, deadlock or leak (race freedom is outside the model).
   Statements + `exact` + Print Assumptions only. *)
From Spok Require Import Base Sha256 Hash HashProofs.

(* For every file system, list (any length, duplicates, directories, unreadable entries), CPU count >= 1 and
   schedule: the pool reaches, within the step bound, a state with no enabled transition in which the feeder,
   every worker, the closer and the collecting loop have all finished (is_final - nothing is left behind),
   and the value returned is the specified one.  `Done` excludes Deadlock and OutOfFuel. *)
Theorem C18_clean : forall sha fs ncpu files sched, (1 <= ncpu)%nat ->
  hash_run sha fs ncpu files sched = Done (hash_spec sha fs files).
Proof. exact hash_run_spec. Qed.
Print Assumptions C18_clean.

(* a file that cannot be opened or read yields an error, never a digest *)
Theorem C18_error : forall sha fs l p, In p l -> fs p = Unreadable -> hash_spec sha fs l = HashError.
Proof. exact hash_spec_error. Qed.
Print Assumptions C18_error.

(* and without such a file the result is a digest *)
Theorem C18_digest : forall sha fs l, (forall p, In p l -> fs p <> Unreadable) -> exists d, hash_spec sha fs l = Digest d.
Proof. exact hash_spec_digest. Qed.
Print Assumptions C18_digest.

Definition ex_fs : fsys := fun p =>
  match p with [47; 97] => Regular [104; 105] | [47; 100] => Directory | _ => Unreadable end.
Example C18_nonvacuous :
  hash_run sha256 ex_fs 4 [[47; 97]; [47; 120]; [47; 100]] (fun k => (k * 5 + 1)%nat) = Done HashError
  /\ hash_run sha256 ex_fs 1 [] (fun k => k) = Done (hash_spec sha256 ex_fs []).
Proof. split; vm_compute; reflexivity. Qed.
Print Assumptions C18_nonvacuous.
