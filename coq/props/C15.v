(* C15 — Formatting keeps every comment and every task's docstring.  Statements + `exact` + Print Assumptions only.
   mark n = what node n carries: a free-standing comment (its text as the tools show it, i.e. trimmed), a docstring, or nothing. *)
From Spok Require Import Base Lexer Parser Cst RoundTripL RoundTrip CstWf TrimProofs Layout FmtProofs ParserWf.

(* The full statement: for EVERY input that parses, the formatted text parses to a tree with the same number of nodes, the
   same kind of node at every position (so no comment is lost, duplicated, moved past a statement or absorbed as a docstring),
   the same comment/docstring text at every position, and emptiness of comments/docstrings unchanged. *)
Theorem C15_format_keeps_comments : forall s t, parse s = PTree t ->
  exists t', parse (fmt t) = PTree t' /\ map mark t' = map mark t /\ length t' = length t /\
    Forall2 (fun n n' => match n, n' with
                         | NComment c, NComment c' => (c' = [] <-> c = [])
                         | NTask d _ _ _ _, NTask d' _ _ _ _ => (d' = [] <-> d = [])
                         | NAssign _ _, NAssign _ _ => True
                         | _, _ => False end) t t'.
Proof. exact format_keeps_comments_all. Qed.
Print Assumptions C15_format_keeps_comments.

(* the parser never yields a non-empty comment directly above an undocumented task (it would be that task's docstring),
   which is why printing the comment above the task cannot change ownership *)
Theorem C15_parser_output_shape : forall s t, parse s = PTree t -> tree_wf t.
Proof. exact parse_tree_wf. Qed.
Print Assumptions C15_parser_output_shape.

(* the normalisation of comment text is invisible to the tools: the trimmed text is unchanged *)
Theorem C15_trimmed_text_unchanged : forall c, trim (ctext c) = trim c.
Proof. exact trim_ctext. Qed.
Print Assumptions C15_trimmed_text_unchanged.

Example C15_nonvacuous :
  let s := [35;32;97;10; 35;10; 35;32;100;111;99;10; 116;97;115;107;32;98;40;41;123;125;10; 35;32;122]%N in
  match parse s with
  | PTree t => map mark t = [MComment [97]; MComment []; MDoc [100;111;99]; MComment [122]]%N
  | _ => False
  end.
Proof. vm_compute. reflexivity. Qed.
Print Assumptions C15_nonvacuous.
