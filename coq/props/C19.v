(* C19 — Spok writes only where the chosen action says it may.
   Statements + `exact` + Print Assumptions only.  write_kind is App.Run's dispatch reduced to "what may this
   invocation write"; the table of write sites it rests on is compared with a census of the source on every run. *)
From Spok Require Import Base Paths Glob Effects EffectsProofs.

(* --fmt rewrites only the spokfile, and only when a spokfile is found, parses and loads *)
Theorem C19_fmt_guard : forall o p n, write_kind o p n = WSpokfileOnly ->
  o_fmt o = true /\ p_found p = true /\ p_loads p = true /\ o_init o = false.
Proof. exact fmt_guard. Qed.
Print Assumptions C19_fmt_guard.

(* --init never overwrites an existing spokfile, and writes nothing but the new spokfile and .gitignore *)
Theorem C19_init_no_overwrite : forall o p n, o_init o = true -> p_cwd_has_spokfile p = true -> write_kind o p n = WNothing.
Proof. exact init_never_overwrites. Qed.
Print Assumptions C19_init_no_overwrite.
Theorem C19_init_only : forall o p n, o_init o = true -> write_kind o p n = WNothing \/ write_kind o p n = WInit.
Proof. exact init_writes_only_init. Qed.
Print Assumptions C19_init_only.

(* listing tasks, showing variables and running tasks change nothing outside the cache directory *)
Theorem C19_readonly : forall o p n, o_init o = false -> o_fmt o = false -> o_clean o = false ->
  write_kind o p n = WNothing \/ write_kind o p n = WCacheOnly.
Proof. exact readonly_actions. Qed.
Print Assumptions C19_readonly.
Theorem C19_show_vars : forall o p n, o_init o = false -> o_fmt o = false -> o_clean o = false ->
  (o_vars o = true \/ o_show o = true) -> write_kind o p n = WNothing.
Proof. exact show_and_vars_write_nothing. Qed.
Print Assumptions C19_show_vars.
Theorem C19_cache_frame : forall root cwd ts q, may_change WCacheOnly root cwd ts q = true -> seg_prefix (root ++ [cache_dir_name]) q = true.
Proof. exact cache_only_frame. Qed.
Print Assumptions C19_cache_frame.

Example C19_nonvacuous :
  write_kind {| o_init := false; o_fmt := true; o_vars := false; o_clean := false; o_show := false; o_quiet := false; o_debug := false |}
             {| p_found := true; p_loads := false; p_has_clean := false; p_has_default := false; p_cwd_has_spokfile := true |} 0 = WNothing
  /\ may_change WSpokfileOnly [[104]] [[104]; [115]] [] [[104]; spokfile_name] = true
  /\ may_change WCacheOnly [[104]] [[104]] [] [[104]; spokfile_name] = false.
Proof. repeat split; vm_compute; reflexivity. Qed.
Print Assumptions C19_nonvacuous.
