(* C09 — A failing command fails the invocation and is never recorded as success.
   Statements + `exact` + Print Assumptions only. *)
From Spok Require Import Base Graph RunCache RunCacheProofs RunCacheInst App AppProofs.

(* whatever the flags (--quiet, --json, --force) and however many other tasks succeeded: the invocation exits 1
   exactly when some command of some executed task exited non-zero *)
Theorem C09_fails : forall f rs ex, ob_exit (run_tasks_obs f rs ex) = 1 <-> has_failure rs.
Proof. exact failing_command_fails. Qed.
Print Assumptions C09_fails.

(* and the error identifies a task, command and non-zero status that really occurred *)
Theorem C09_names_task : forall f rs ex t c s, ob_error (run_tasks_obs f rs ex) = Some (ECommandFailed t c s) ->
  s <> 0 /\ exists r x, In r rs /\ tr_name r = t /\ In x (tr_cmds r) /\ c_cmd x = c /\ c_status x = s.
Proof. exact failure_is_named. Qed.
Print Assumptions C09_names_task.

(* a task whose commands did not all succeed leaves the record of its last success untouched, so (C01) a later
   run can only skip it if it had already succeeded on the same inputs before *)
Theorem C09_not_recorded : forall D deqb dempty digest,
  (forall a b : D, deqb a b = true <-> a = b) -> (forall F, digest F <> dempty) ->
  forall force b s order, NoDup (map tname order) -> forall t, In t order -> b (tname t) <> BSucc ->
  last_ok D (final D s (run D deqb dempty digest force b s order)) (tname t) = last_ok D s (tname t).
Proof. exact failure_not_recorded. Qed.
Print Assumptions C09_not_recorded.

(* the same for a whole invocation, whatever the flags and whichever way the tasks were selected (named, the default task,
   --clean with a task named clean): an executed task with a failing command makes the invocation exit 1, and unless the run
   was cut short by an unreadable dependency or a runner error the error names an executed task, one of its commands and
   that command's non-zero status *)
Theorem C09_invocation : forall pick defs vars s f req s' ob n d,
  invoke pick defs vars s f req = (s', ob) ->
  In n (ob_executed ob) -> find_def defs n = Some d -> cmds_ok (td_cmds d) = false ->
  ob_exit ob = 1 /\
  ((exists e, ob_error ob = Some (ERun e)) \/
   exists t c st d' x, ob_error ob = Some (ECommandFailed t c st) /\ st <> 0 /\ In t (ob_executed ob) /\
     find_def defs t = Some d' /\ In x (td_cmds d') /\ c_cmd x = c /\ c_status x = st).
Proof. exact invocation_fails. Qed.
Print Assumptions C09_invocation.

(* non-vacuity: task 0 fails with status 3 under --json --quiet-less invocation; the next plain run executes it again *)
Definition bad := {| c_cmd := [101%N]; c_out := []; c_err := []; c_status := 3 |}.
Definition defs := [ {| td_name := 0; td_deps := []; td_lits := [0]; td_globs := []; td_cmds := [bad] |} ].
Definition s0 := apply_op_i (init_i (fun _ => None)) (Edit 0 (Some 1)).
Example C09_nonvacuous :
  let '(s1, o1) := invoke (fun _ l => l) defs [] s0 {| f_quiet := false; f_json := true; f_force := false; f_show := false; f_vars := false; f_clean := false; f_debug := false |} [0] in
  let '(_, o2) := invoke (fun _ l => l) defs [] s1 {| f_quiet := true; f_json := false; f_force := false; f_show := false; f_vars := false; f_clean := false; f_debug := false |} [0] in
  ob_exit o1 = 1 /\ ob_error o1 = Some (ECommandFailed 0 [101%N] 3) /\ ob_exit o2 = 1 /\ ob_executed o2 = [0].
Proof. vm_compute. repeat split; reflexivity. Qed.
Print Assumptions C09_nonvacuous.

(* `spok --clean a` when the spokfile has its own task clean (2) whose command fails: that task is run, the invocation fails *)
Definition defs_c := [ {| td_name := 2; td_deps := []; td_lits := []; td_globs := []; td_cmds := [bad] |};
                       {| td_name := 0; td_deps := []; td_lits := []; td_globs := []; td_cmds := [] |} ].
Example C09_clean_task_fails :
  let '(_, o) := invoke (fun _ l => l) defs_c [] (init_i (fun _ => None))
                   {| f_quiet := true; f_json := false; f_force := false; f_show := false; f_vars := false; f_clean := true; f_debug := false |} [0] in
  ob_exit o = 1 /\ ob_error o = Some (ECommandFailed 2 [101%N] 3) /\ ob_executed o = [2].
Proof. vm_compute. repeat split; reflexivity. Qed.
Print Assumptions C09_clean_task_fails.
