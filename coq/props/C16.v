(* C16 — Tokens tile the input with exact offsets and line numbers.
   This file contains only statements, `exact` and Print Assumptions. *)
From Spok Require Import Base Lexer DecodeSpec LexInv.

(* What a finished scan looks like (LexInv.Final): no fault, the stream ends in ERROR or EOF, the tokens
   before it tile the input (LexInv.Tiled: value = slice at the recorded offset, increasing offsets,
   whitespace-only gaps, line = 1 + newlines before the offset), and a final EOF sits at |input|. *)

(* PARTIAL (work in progress): the invariant framework and the step lemmas of the states proved so far.
   The full statement `forall s, Final (run (fuel s) SStart (init s))` is the target. *)
Theorem C16_partial_lexStart : forall l done e g, Inv l done e g -> Pre SStart l ->
  StepOK (fst (lexStart l)) (snd (lexStart l)).
Proof. exact lexStart_ok. Qed.
Print Assumptions C16_partial_lexStart.

Theorem C16_partial_lexComment : forall l done e g, Inv l done e g -> Pre SComment l ->
  StepOK (fst (lexComment l)) (snd (lexComment l)).
Proof. exact lexComment_ok. Qed.
Print Assumptions C16_partial_lexComment.
