(* C16 — Tokens tile the input with exact offsets and line numbers.
   Statements + `exact` + Print Assumptions only.

   `lex s` is the byte-level model of lexer.New(s) read up to its first EOF or ERROR token (every helper and every
   state function of lexer.go transliterated, slice faults and fuel exhaustion as explicit flags).
   `Tiled s e toks` (LexInv.v) says: the tokens toks, in order, cover s[0..e) - each is not an ERROR, its value is the
   slice of s at its recorded offset, it starts after the previous one with only whitespace runes (sp_run) in between,
   its line is 1 + the number of newlines before its offset, and an EOF token sits at offset |s|. *)
From Spok Require Import Base Lexer DecodeSpec LexInv LexSteps.

(* For EVERY byte string: no fault, no fuel exhaustion (the stream is finite), the stream ends in ERROR or EOF, everything
   before a final ERROR tiles a prefix of the input, and a stream ending in EOF tiles the whole input with EOF at the end. *)
Theorem C16_tiling : forall s,
  fst (lex s) = FOk /\
  exists front t, snd (lex s) = front ++ [t] /\
    ((ty t = ERROR /\ (exists e, Tiled s e front) /\ err_located s t) \/ (ty t = EOF /\ exists e, Tiled s e (front ++ [t]))).
Proof. exact lex_tiles. Qed.
Print Assumptions C16_tiling.

(* what tiling gives for each token ... *)
Theorem C16_each_token : forall s e toks, Tiled s e toks -> forall t, In t toks ->
  ty t <> ERROR /\ val t = firstn (length (val t)) (skipn (tpos t) s) /\ tpos t + length (val t) <= length s /\
  tline t = S (nl (firstn (tpos t) s)) /\ (ty t = EOF -> tpos t = length s) /\ tpos t + length (val t) <= e.
Proof. exact Tiled_each. Qed.
Print Assumptions C16_each_token.

(* ... and for neighbours: increasing, non-overlapping offsets with nothing but whitespace in between *)
Theorem C16_between_tokens : forall s e toks, Tiled s e toks -> forall a t u b, toks = a ++ t :: u :: b ->
  exists g, tpos u = tpos t + length (val t) + g /\ sp_run (skipn (tpos t + length (val t)) s) g.
Proof. exact Tiled_gap. Qed.
Print Assumptions C16_between_tokens.

(* every state function keeps the invariant, never faults, and hands over a state whose precondition holds *)
Theorem C16_every_state : forall s l d e g, Inv l d e g -> Pre s l -> s <> SDone -> StepOK s l (step s l).
Proof. exact step_ok. Qed.
Print Assumptions C16_every_state.

(* non-vacuity: CRLF line ends, a multi-byte name, a one-line body, a comment - tokens with offsets and lines *)
Example C16_nonvacuous :
  let s := [35; 32; 100; 13; 10; 116; 97; 115; 107; 32; 195; 169; 40; 41; 32; 123; 32; 108; 115; 32; 125; 13; 10]%N in
  map (fun t => (ty t, tpos t, tline t)) (snd (lex s))
  = [(HASH, 0, 1); (COMMENT, 1, 1); (TASK, 5, 2); (IDENT, 10, 2); (LPAREN, 12, 2); (RPAREN, 13, 2); (LBRACE, 15, 2);
     (COMMAND, 17, 2); (RBRACE, 20, 2); (EOF, 23, 3)]%nat.
Proof. vm_compute. reflexivity. Qed.
Print Assumptions C16_nonvacuous.
