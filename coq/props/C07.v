(* C07 — Formatting never changes what a spokfile does, and its output always parses.
   Statements + `exact` + Print Assumptions only.

   parse = lexer + parser model, fmt = model of ast.Tree.String (Parser.v).  sem t = the variables (name, value) and tasks
   (name, dependencies, outputs, command lines) of a tree in order - everything except comments and docstrings. *)
From Spok Require Import Base Lexer Parser Cst RoundTripL RoundTrip CstWf TrimProofs Layout FmtProofs.

(* The full statement: for EVERY input that parses, the formatted text parses and means the same. *)
Definition C07_full_statement : Prop := forall s t, parse s = PTree t ->
  exists t', parse (fmt t) = PTree t' /\ sem t' = sem t.

(* PARTIAL: proved for the trees whose canonical layout is admissible (tree_wf, decidable; checked on every tree the real
   parser returns in the correspondence run).  Missing for the full statement: that every parser output satisfies tree_wf. *)
Theorem C07_format_preserves_meaning_partial : forall s t, parse s = PTree t -> tree_wf t ->
  exists t', parse (fmt t) = PTree t' /\ sem t' = sem t.
Proof. exact format_preserves_meaning. Qed.
Print Assumptions C07_format_preserves_meaning_partial.

(* how: the formatter's output is one admissible layout of the tree with normalised comment text ... *)
Theorem C07_fmt_is_a_layout : forall t, fmt t = render (layout t).
Proof. exact fmt_is_a_layout. Qed.
Print Assumptions C07_fmt_is_a_layout.

(* ... and admissible layouts parse back to their structure (C06) *)
Theorem C07_formatted_text_parses : forall t, tree_wf t -> parse (fmt t) = PTree (canon t).
Proof. exact fmt_parses. Qed.
Print Assumptions C07_formatted_text_parses.

Theorem C07_canon_keeps_meaning : forall t, sem (canon t) = sem t.
Proof. exact sem_canon. Qed.
Print Assumptions C07_canon_keeps_meaning.

(* non-vacuity: a file with CRLF, odd spacing, a parenthesised single output and a one-line body *)
Example C07_nonvacuous :
  let s := [88;58;61;34;118;34;13;10; 35;32;100;32;13;10; 116;97;115;107;32;98;40;34;42;34;44;41;45;62;40;34;111;34;41;123;32;108;115;32;125]%N in
  match parse s with
  | PTree t => parse (fmt t) = PTree (canon t) /\ length t = 2%nat
  | _ => False
  end.
Proof. vm_compute. split; reflexivity. Qed.
Print Assumptions C07_nonvacuous.
