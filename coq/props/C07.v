(* C07 — Formatting never changes what a spokfile does, and its output always parses.
   Statements + `exact` + Print Assumptions only.

   parse = lexer + parser model, fmt = model of ast.Tree.String (Parser.v).  sem t = the variables (name, value) and tasks
   (name, dependencies, outputs, command lines) of a tree in order - everything except comments and docstrings. *)
From Spok Require Import Base Lexer Parser Cst RoundTripL RoundTrip CstWf TrimProofs Layout FmtProofs ParserWf.

(* The full statement: for EVERY input that parses, the formatted text parses and means the same. *)
Theorem C07_format_preserves_meaning : forall s t, parse s = PTree t ->
  exists t', parse (fmt t) = PTree t' /\ sem t' = sem t.
Proof. exact format_preserves_meaning_all. Qed.
Print Assumptions C07_format_preserves_meaning.

(* how: the formatter's output is one admissible layout of the tree with normalised comment text ... *)
Theorem C07_fmt_is_a_layout : forall t, fmt t = render (layout t).
Proof. exact fmt_is_a_layout. Qed.
Print Assumptions C07_fmt_is_a_layout.

(* ... every tree the parser returns has an admissible canonical layout ... *)
Theorem C07_parser_output_is_formattable : forall s t, parse s = PTree t -> tree_wf t.
Proof. exact parse_tree_wf. Qed.
Print Assumptions C07_parser_output_is_formattable.

(* ... and admissible layouts parse back to their structure (C06) *)
Theorem C07_formatted_text_parses : forall t, tree_wf t -> parse (fmt t) = PTree (canon t).
Proof. exact fmt_parses. Qed.
Print Assumptions C07_formatted_text_parses.

Theorem C07_canon_keeps_meaning : forall t, sem (canon t) = sem t.
Proof. exact sem_canon. Qed.
Print Assumptions C07_canon_keeps_meaning.

(* non-vacuity: a file with CRLF, odd spacing, a parenthesised single output and a one-line body *)
Example C07_nonvacuous :
  let s := [88;58;61;34;118;34;13;10; 35;32;100;32;13;10; 116;97;115;107;32;98;40;34;42;34;44;41;45;62;40;34;111;34;41;123;32;108;115;32;125]%N in
  match parse s with
  | PTree t => parse (fmt t) = PTree (canon t) /\ length t = 2%nat
  | _ => False
  end.
Proof. vm_compute. split; reflexivity. Qed.
Print Assumptions C07_nonvacuous.
