(* C02 — A task whose inputs are unchanged since its last success is skipped.
   Statements + `exact` + Print Assumptions only. *)
From Spok Require Import Base RunCache RunCacheProofs RunCacheInst.

Section C02.
Variable D : Type.
Variable deqb : D -> D -> bool.
Variable dempty : D.
Variable digest : inputs -> D.
Hypothesis deqb_spec : forall a b, deqb a b = true <-> a = b.
Hypothesis digest_ne : forall F, digest F <> dempty.

(* After any crash-free history (edits, cache removals, runs of any kind) the converse invariant holds:
   a last success on a non-empty file set is what the cache records. *)
Theorem C02_invariant : forall fs ops, Forall crash_free ops -> Inv2' D digest (history_state D deqb dempty digest fs ops).
Proof. exact (reachable_inv2 D deqb dempty digest). Qed.

(* From such a state, in an unforced run: a task with at least one matching file whose last success was on exactly
   its current inputs executes none of its commands, and is reported skipped whenever the run reports anything -
   whatever the other tasks of the run do (run, skip, fail, have no file dependencies). *)
Theorem C02_skip_complete : forall b s order, Inv2' D digest s -> NoDup (map tname order) ->
  forall t F, In t order -> inputs_of (files D s) t = Some F -> F <> [] -> last_ok D s (tname t) = Some F ->
  let R := run D deqb dempty digest false b s order in
  ~ In (tname t) (rr_exec D R) /\ (forall rs, rr_out D R = RunOk rs -> In (skipped_res t) rs).
Proof. exact (skip_complete D deqb dempty digest deqb_spec digest_ne). Qed.

(* Tasks without any (matching) file dependency always run: a skip needs a non-empty input set. *)
Theorem C02_nodeps_always_run : forall force b m s t tr ex r m' s',
  iter D deqb dempty digest force b m s t = ICont D tr ex r m' s' -> r_skipped r = true ->
  exists F, inputs_of (files D s) t = Some F /\ F <> [].
Proof. exact (skip_needs_inputs D deqb dempty digest deqb_spec digest_ne). Qed.
End C02.
Print Assumptions C02_invariant.
Print Assumptions C02_skip_complete.
Print Assumptions C02_nodeps_always_run.

Definition ta := {| tname := 0; lits := [0]; globs := [] |}.
Definition tn := {| tname := 2; lits := []; globs := [[5; 6]] |}.   (* glob matching nothing *)
Definition bf : name -> beh := fun n => if Nat.eqb n 2 then BFail else BSucc.
Example C02_nonvacuous :
  let s := fold_left apply_op_i [Edit 0 (Some 1); RunOp false bf [ta; tn]] (init_i (fun _ => None)) in
  rr_out DI (run_i false bf s [tn; ta]) = RunOk [{| r_task := 2; r_skipped := false |}; {| r_task := 0; r_skipped := true |}].
Proof. vm_compute. reflexivity. Qed.
Print Assumptions C02_nonvacuous.
