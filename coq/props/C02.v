(* C02 — A task whose inputs are unchanged since its last success is skipped.
   Statements + `exact` + Print Assumptions only. *)
From Spok Require Import Base Graph GraphProofs RunCache RunCacheProofs RunCacheInst App AppProofs.
From Coq Require Import Permutation.

Section C02.
Variable D : Type.
Variable deqb : D -> D -> bool.
Variable dempty : D.
Variable digest : inputs -> D.
Hypothesis deqb_spec : forall a b, deqb a b = true <-> a = b.
Hypothesis digest_ne : forall F, digest F <> dempty.

(* After any crash-free history (edits, cache removals, runs of any kind) the converse invariant holds:
   a last success on a non-empty file set is what the cache records. *)
Theorem C02_invariant : forall fs ops, Forall crash_free ops -> Inv2' D digest (history_state D deqb dempty digest fs ops).
Proof. exact (reachable_inv2 D deqb dempty digest). Qed.

(* From such a state, in an unforced run: a task with at least one matching file whose last success was on exactly
   its current inputs executes none of its commands, and is reported skipped whenever the run reports anything -
   whatever the other tasks of the run do (run, skip, fail, have no file dependencies). *)
Theorem C02_skip_complete : forall b s order, Inv2' D digest s -> NoDup (map tname order) ->
  forall t F, In t order -> inputs_of (files D s) t = Some F -> F <> [] -> last_ok D s (tname t) = Some F ->
  let R := run D deqb dempty digest false b s order in
  ~ In (tname t) (rr_exec D R) /\ (forall rs, rr_out D R = RunOk rs -> In (skipped_res t) rs).
Proof. exact (skip_complete D deqb dempty digest deqb_spec digest_ne). Qed.

(* Tasks without any (matching) file dependency always run: a skip needs a non-empty input set. *)
Theorem C02_nodeps_always_run : forall force b m s t tr ex r m' s',
  iter D deqb dempty digest force b m s t = ICont D tr ex r m' s' -> r_skipped r = true ->
  exists F, inputs_of (files D s) t = Some F /\ F <> [].
Proof. exact (skip_needs_inputs D deqb dempty digest deqb_spec digest_ne). Qed.
End C02.
Print Assumptions C02_invariant.
Print Assumptions C02_skip_complete.
Print Assumptions C02_nodeps_always_run.

(* the same at the command line (selection + cache protocol + reporting composed): invocations keep the crash-free invariant, and
   an unforced invocation reports every selected task with at least one dependency file whose last successful completion was on
   exactly its current inputs as skipped, and does not execute it - whatever the other tasks of the invocation do *)
Theorem C02_invocations_keep_invariant : forall pick defs vars s f req s' ob,
  Inv2_i s -> invoke pick defs vars s f req = (s', ob) -> Inv2_i s'.
Proof. exact invoke_keeps_invariant2. Qed.
Print Assumptions C02_invocations_keep_invariant.

Theorem C02_invocation : forall pick defs vars s f req s' ob rs r d F,
  (forall k l, Permutation (pick k l) l) -> Inv2_i s -> f_force f = false ->
  invoke pick defs vars s f req = (s', ob) -> ob_stdout ob = SDJson rs -> In r rs ->
  find_def defs (tr_name r) = Some d -> inputs_of (files DI s) (to_task d) = Some F -> F <> [] -> last_ok DI s (tr_name r) = Some F ->
  tr_skipped r = true /\ ~ In (tr_name r) (ob_executed ob).
Proof. exact invocation_skip_complete. Qed.
Print Assumptions C02_invocation.

Definition ta := {| tname := 0; lits := [0]; globs := [] |}.
Definition tn := {| tname := 2; lits := []; globs := [[5; 6]] |}.   (* glob matching nothing *)
Definition bf : name -> beh := fun n => if Nat.eqb n 2 then BFail else BSucc.
Example C02_nonvacuous :
  let s := fold_left apply_op_i [Edit 0 (Some 1); RunOp false bf [ta; tn]] (init_i (fun _ => None)) in
  rr_out DI (run_i false bf s [tn; ta]) = RunOk [{| r_task := 2; r_skipped := false |}; {| r_task := 0; r_skipped := true |}].
Proof. vm_compute. reflexivity. Qed.
Print Assumptions C02_nonvacuous.
