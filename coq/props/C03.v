(* C03 — Requested tasks and their transitive dependencies run once, dependencies first.
   Statements + `exact` + Print Assumptions only.  `pick` is Go's unspecified map/set iteration order inside
   dag.Sort: the theorems hold for every pick that returns a permutation of what it is given. *)
From Spok Require Import Base Graph GraphProofs Lexer Parser Vars Load LoadProofs RunCache RunCacheInst App AppProofs.
Close Scope N_scope.
From Coq Require Import Permutation.

(* If spok computes a run order at all, it is one C03 allows: every task reachable from the request through
   task dependencies exactly once (Reach), nothing else, each dependency strictly before its dependant.
   (The tasks are then executed sequentially in that order.) *)
Theorem C03_sound : forall pick, (forall k l, Permutation (pick k l) l) -> forall ds req o,
  run_order pick ds req = GOk o -> valid_run ds req o.
Proof. exact run_order_sound. Qed.
Print Assumptions C03_sound.

(* Every error is justified, and the bounded recursion never runs out of fuel: a duplicate definition, an
   undefined requested name, an undefined dependency of a reachable task, or no admissible order at all
   (a dependency cycle among the selected tasks). *)
Theorem C03_errors : forall pick, (forall k l, Permutation (pick k l) l) -> forall ds req e,
  run_order pick ds req = GErr e -> err_ok ds req e.
Proof. exact run_order_errors. Qed.
Print Assumptions C03_errors.

(* Nothing is silently left out or rejected: if names are defined once, every reachable name is defined, and an
   admissible order exists (no cycle), spok finds one. *)
Theorem C03_complete : forall pick, (forall k l, Permutation (pick k l) l) -> forall ds req o',
  NoDup (map fst ds) -> req <> [] -> (forall x, Reach ds req x -> lookup ds x <> None) -> valid_run ds req o' ->
  exists o, run_order pick ds req = GOk o.
Proof. exact run_order_complete. Qed.
Print Assumptions C03_complete.

(* the boolean checker the correspondence check applies to the order observed on the real spok *)
Theorem C03_checker : forall ds sel o, valid_order ds sel o = true <->
  NoDup o /\ (forall x, In x o <-> In x sel) /\
  (forall t, In t o -> exists deps, lookup ds t = Some deps /\ forall d, In d deps -> before o d t = true).
Proof. exact valid_order_spec. Qed.
Print Assumptions C03_checker.

(* what the graph is built from: a name in a dependency list is a dependency on the task of that name - whatever variables
   exist, whatever they are called (task.New) *)
Theorem C03_names_are_tasks : forall root vs doc name deps outs cmds t n,
  load_task root vs doc name deps outs cmds = Some t -> In (AIdent n) deps -> In n (lt_taskdeps t).
Proof. exact ident_is_task_dependency. Qed.
Print Assumptions C03_names_are_tasks.

(* at the command line (selection composed with the run loop and the report): the tasks `spok [flags] [names]` reports, one entry per
   task in execution order, are exactly the tasks reachable from the request (the names, or the default task, or the task clean
   under --clean), each once, every dependency before its dependant; and no task outside that list had its commands started *)
Theorem C03_invocation : forall pick defs vars s f req s' ob rs,
  (forall k l, Permutation (pick k l) l) ->
  invoke pick defs vars s f req = (s', ob) -> ob_stdout ob = SDJson rs ->
  valid_run (gdefs defs) (effective_request defs f req) (map tr_name rs) /\
  (forall n, In n (ob_executed ob) -> In n (map tr_name rs)).
Proof. exact invocation_runs_the_closure. Qed.
Print Assumptions C03_invocation.

(* non-vacuity: c(b) b(a) a() d(): request c under a reversing iteration order; x(y) y(x) is a cycle *)
Example C03_nonvacuous :
  run_order (fun _ l => rev l) [(0, []); (1, [0]); (2, [1]); (3, [])] [2] = GOk [0; 1; 2]
  /\ run_order (fun _ l => l) [(0, [1]); (1, [0])] [0] = GErr ECycle
  /\ run_order (fun _ l => l) [(0, [7])] [0] = GErr (EUndefinedDep 0 7)
  /\ (forall (k : nat) (l : list name), Permutation (rev l) l).
Proof. repeat split; try (vm_compute; reflexivity). intros _ l. apply Permutation_sym, Permutation_rev. Qed.
Print Assumptions C03_nonvacuous.
