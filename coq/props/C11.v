(* C11 — Formatting is idempotent.  Statements + `exact` + Print Assumptions only.
   format x := fmt t where parse x = PTree t. *)
From Spok Require Import Base Lexer Parser Cst RoundTripL RoundTrip CstWf TrimProofs Layout FmtProofs ParserWf.

(* The full statement: for EVERY input x that parses to t, format x parses (to some t') and format (format x) = format x. *)
Theorem C11_format_idempotent : forall s t, parse s = PTree t ->
  exists t', parse (fmt t) = PTree t' /\ fmt t' = fmt t.
Proof. exact format_idempotent_all. Qed.
Print Assumptions C11_format_idempotent.

(* the two ingredients: printing the normalised tree prints the same text (for ALL trees) ... *)
Theorem C11_fmt_canon : forall t, fmt (canon t) = fmt t.
Proof. exact fmt_canon. Qed.
Print Assumptions C11_fmt_canon.

(* ... because trimming "# text" again gives the same text: strings.TrimSpace on the model's bytes *)
Theorem C11_trim_space_trim : forall x, trim (32%N :: trim x) = trim x.
Proof. exact trim_space_trim. Qed.
Print Assumptions C11_trim_space_trim.

Example C11_nonvacuous :
  let s := [35;9;32;104;105;32;32;13;10; 35;10; 116;97;115;107;32;98;40;41;123;13;10;32;108;115;32;45;108;32;32;13;10;125]%N in
  match parse s with
  | PTree t => match parse (fmt t) with PTree t' => fmt t' = fmt t /\ fmt t <> s | _ => False end
  | _ => False
  end.
Proof. vm_compute. split; [reflexivity|discriminate]. Qed.
Print Assumptions C11_nonvacuous.
