(* C20 — Reports and listings are a faithful, complete account of spokfile and run.
   Statements + `exact` + Print Assumptions only. *)
From Spok Require Import Base Graph GraphProofs RunCache RunCacheProofs RunCacheInst App AppProofs.
From Coq Require Import Permutation Sorted.

(* --json, no failing command: standard output is exactly one JSON document, the results *)
Theorem C20_json : forall f rs ex, f_json f = true -> ~ has_failure rs -> ob_stdout (run_tasks_obs f rs ex) = SDJson rs.
Proof. exact json_report. Qed.
Print Assumptions C20_json.

(* that document lists the tasks of the run (one entry per selected task, in execution order), skipped ones without commands *)
Theorem C20_json_is_the_run : forall pick defs vars s f req s' ob rs,
  invoke pick defs vars s f req = (s', ob) -> ob_stdout ob = SDJson rs ->
  ob_exit ob = 0 /\ exists order, map tr_name rs = order /\
    (forall r, In r rs -> tr_skipped r = true -> tr_cmds r = []) /\ ~ has_failure rs.
Proof. exact json_lists_the_run. Qed.
Print Assumptions C20_json_is_the_run.

(* the JSON document in full: exit 0; the entries are the closure of the (effective) request in an order in which every
   dependency precedes its dependant; skipped entries carry no commands; every other entry carries exactly the commands of
   its task's definition; no entry records a failure *)
Theorem C20_json_in_full : forall pick defs vars s f req s' ob rs,
  (forall k l, Permutation (pick k l) l) ->
  invoke pick defs vars s f req = (s', ob) -> ob_stdout ob = SDJson rs ->
  ob_exit ob = 0 /\
  valid_run (gdefs defs) (effective_request defs f req) (map tr_name rs) /\
  (forall r, In r rs -> tr_skipped r = true -> tr_cmds r = []) /\
  (forall r, In r rs -> tr_skipped r = false -> exists d, find_def defs (tr_name r) = Some d /\ tr_cmds r = td_cmds d) /\
  ~ has_failure rs.
Proof. exact json_is_the_run. Qed.
Print Assumptions C20_json_in_full.

Theorem C20_results_per_task : forall D deqb dempty digest force b s order rs, rr_out D (run D deqb dempty digest force b s order) = RunOk rs -> map r_task rs = map tname order.
Proof. exact run_results_names. Qed.
Print Assumptions C20_results_per_task.

(* --quiet (without --json): standard output is empty *)
Theorem C20_quiet : forall f rs ex, f_quiet f = true -> f_json f = false -> ob_stdout (run_tasks_obs f rs ex) = SDNothing.
Proof. exact quiet_report. Qed.
Print Assumptions C20_quiet.

(* the listing: every defined task once, sorted *)
Theorem C20_show : forall l, StronglySorted le (sort_names l) /\ Permutation l (sort_names l).
Proof. exact listing_sorted. Qed.
Print Assumptions C20_show.

(* --vars: every variable once with its evaluated value, sorted by name (and nothing is run) *)
Theorem C20_vars : forall pick defs vars s f req,
  f_vars f = true -> f_quiet f = false -> f_json f = false ->
  invoke pick defs vars s f req = (s, {| ob_exit := 0; ob_error := None; ob_stdout := SDVars (sort_vars vars); ob_executed := [] |})
  /\ Permutation vars (sort_vars vars) /\ StronglySorted (fun a b => fst a <= fst b) (sort_vars vars).
Proof. exact vars_listing. Qed.
Print Assumptions C20_vars.

(* no task names: run the task named default if there is one, list the tasks otherwise *)
Definition ok1 := {| c_cmd := [101%N]; c_out := [109%N; 10%N]; c_err := []; c_status := 0 |}.
Definition defs_d := [ {| td_name := 3; td_deps := []; td_lits := []; td_globs := []; td_cmds := [ok1] |};
                       {| td_name := 1; td_deps := []; td_lits := []; td_globs := []; td_cmds := [] |} ].
Definition plain := {| f_quiet := false; f_json := false; f_force := false; f_show := false; f_vars := false; f_clean := false; f_debug := false |}.
Example C20_default :
  ob_stdout (snd (invoke (fun _ l => l) defs_d [] (init_i (fun _ => None)) plain [])) = SDText [MCompleted 3]
  /\ ob_stdout (snd (invoke (fun _ l => l) (tl defs_d) [] (init_i (fun _ => None)) plain [])) = SDListing [1]
  /\ ob_stdout (snd (invoke (fun _ l => l) defs_d [] (init_i (fun _ => None)) {| f_quiet := false; f_json := true; f_force := false; f_show := false; f_vars := false; f_clean := false; f_debug := false |} [3]))
     = SDJson [{| tr_name := 3; tr_skipped := false; tr_cmds := [ok1] |}].
Proof. repeat split; vm_compute; reflexivity. Qed.
Print Assumptions C20_default.
