(* C13 — Variables reach commands with their spokfile value, by template and environment.
   Statements + `exact` + Print Assumptions only. *)
From Spok Require Import Base Paths Vars VarsProofs Lexer Parser Load LoadProofs.

(* In a command written as literal text (without '{') and {{.NAME}} references (names of ASCII letters, digits, '_'),
   every reference is replaced by the variable's value - whatever bytes the value contains - and all other text reaches
   the shell unchanged; a name that is not defined becomes "<no value>". *)
Theorem C13_template : forall vs segs,
  (forall s, In (Lit s) segs -> brace_free s) -> (forall n, In (Ref n) segs -> valid_name n) ->
  expand_vars vs (render_cmd segs) = TOk (subst_cmd vs segs).
Proof. exact template_substitutes. Qed.
Print Assumptions C13_template.

(* Every variable is in each command's environment with its spokfile value, whatever the ambient environment or the
   .env file contains (the interpreter keeps the last duplicate; spok's variables come last). *)
Theorem C13_env : forall vs ambient n v, NoDup (map fst vs) -> In (n, v) vs -> env_lookup (cmd_env vs ambient) n = Some v.
Proof. exact env_has_spok_value. Qed.
Print Assumptions C13_env.

(* join(...) is an absolute cleaned path: "/" followed by components none of which is empty, "." or ".." *)
Theorem C13_join : forall cwd parts, is_rooted cwd = true ->
  exists out, join_builtin cwd parts = slash :: join_slash out /\ Forall plain out.
Proof. exact join_is_absolute_clean. Qed.
Print Assumptions C13_join.

(* "defined earlier": whatever else the spokfile holds, a task is built by task.New's rules with exactly the variables that the
   part of the file before it defines (so a reference to a variable assigned only later is not that variable), and its
   commands are the template expansions of the commands as written *)
Theorem C13_defined_earlier : forall cwd exec root pre doc name deps outs cmds post vs ts,
  load cwd exec root (pre ++ NTask doc name deps outs cmds :: post) = LOk vs ts ->
  exists vs0 ts0 t, load cwd exec root pre = LOk vs0 ts0 /\ load_task root vs0 doc name deps outs cmds = Some t /\
                    In t ts /\ has_ltask ts0 name = false.
Proof. exact task_sees_earlier_vars. Qed.
Print Assumptions C13_defined_earlier.
(* "evaluated in file order", for exec: `exec` is indexed by the statement at which it is called, so nothing is assumed about
   two calls with the same text printing the same thing; the variable defined at statement number k holds the (trimmed)
   output of the execution made at that statement *)
Theorem C13_exec_is_its_own_execution : forall cwd (exec : nat -> bytes -> option bytes) root pre n c vs ts,
  load cwd exec root (pre ++ [NAssign n (RFunc k_exec [AString c])]) = LOk vs ts ->
  exists o, exec (length pre) c = Some o /\ lookup_var vs n = Some (trim o).
Proof. exact exec_var_is_its_own_execution. Qed.
Print Assumptions C13_exec_is_its_own_execution.
(* a command that counts its own runs: ONE := exec("c") ; TWO := exec("c") gives 1 and 2 *)
Example C13_same_text_twice :
  load [47] (fun k _ => Some [N.of_nat (49 + k)]) [47]
       [NAssign [79] (RFunc k_exec [AString [99]]); NAssign [84] (RFunc k_exec [AString [99]])]
  = LOk [([79], [49%N]); ([84], [50%N])] [].
Proof. vm_compute. reflexivity. Qed.
Print Assumptions C13_same_text_twice.
Theorem C13_commands_expanded : forall root vs doc name deps outs cmds t,
  load_task root vs doc name deps outs cmds = Some t -> Forall2 (fun c o => expand_vars vs c = TOk o) cmds (lt_cmds t).
Proof. exact commands_expanded. Qed.
Print Assumptions C13_commands_expanded.

(* non-vacuity: FOO := "a$b" ; "echo {{.FOO}} {{ .NOPE }}" ; ambient FOO=x ; join("a","..","b/./c") under /p *)
Example C13_nonvacuous :
  expand_vars [([70; 79; 79], [97; 36; 98])] [101; 32; 123; 123; 46; 70; 79; 79; 125; 125; 32; 123; 123; 32; 46; 78; 32; 125; 125]
    = TOk ([101; 32; 97; 36; 98; 32] ++ no_value)
  /\ env_lookup (cmd_env [([70; 79; 79], [97; 36; 98])] [([70; 79; 79], [120])]) [70; 79; 79] = Some [97; 36; 98]
  /\ join_builtin [47; 112] [[97]; [46; 46]; [98; 47; 46; 47; 99]] = [47; 112; 47; 98; 47; 99].
Proof. repeat split; vm_compute; reflexivity. Qed.
Print Assumptions C13_nonvacuous.
