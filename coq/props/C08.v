(* C08 — Parsing any input terminates, deterministically, with a tree or located error.
   Statements + `exact` + Print Assumptions only.

   `parse s` is the byte-level model of parser.New(s).Parse(): the lexer model of C16 run to its first EOF/ERROR, then
   parser.go transliterated over that token list (one-token pushback, the zero token a closed channel would yield,
   getLine's slice index as an explicit panic outcome PPanic, every loop on explicit fuel with PFuel when it runs out).
   Determinism is by construction (parse is a function; the correspondence check runs the implementation twice per input and
   against this function).  What needs proof is that for EVERY byte string none of the escape hatches is taken. *)
From Spok Require Import Base Lexer Parser LexInv LexSteps LexProtocol ParseTotal.

(* For every byte string: the result is a tree, or an error citing a line in [1, number of lines] and quoting exactly that
   line (whitespace-trimmed, as the implementation prints it).  Not a panic, not fuel exhaustion, not an unlocated error. *)
Theorem C08_total_and_located : forall s,
  match parse s with
  | PTree _ => True
  | PErr line (Some ctx) => 1 <= line <= S (nl s) /\ nth_error (map trim (split_nl [] s)) (Nat.pred line) = Some ctx
  | _ => False
  end.
Proof. exact parse_total. Qed.
Print Assumptions C08_total_and_located.

Theorem C08_never_panics_or_hangs : forall s, parse s <> PPanic /\ parse s <> PFuel.
Proof. exact parse_never_panics. Qed.
Print Assumptions C08_never_panics_or_hangs.

(* the lexer half: for every byte string the token stream is finite, fault-free, and ends in EOF or a located ERROR *)
Theorem C08_lexer_total : forall s,
  fst (lex s) = FOk /\
  exists front t, snd (lex s) = front ++ [t] /\
    ((ty t = ERROR /\ (exists e, Tiled s e front) /\ err_located s t) \/ (ty t = EOF /\ exists e, Tiled s e (front ++ [t]))).
Proof. exact lex_tiles. Qed.
Print Assumptions C08_lexer_total.

(* the token protocol the parser relies on: kinds arrive in an order the monitor automaton accepts, so the parser never
   reads past the end of the stream (it would read zero tokens with line 0 and cite "line 0") and its command loop ends *)
Theorem C08_token_protocol : forall s, fst (lex s) = FOk -> mrun MTop (map ty (snd (lex s))) = MDone.
Proof. exact lex_protocol. Qed.
Print Assumptions C08_token_protocol.

(* the parser half, for ANY token list with those three properties (not only the lexer's) *)
Theorem C08_parser_on_any_stream : forall s toks,
  (forall x, In x toks -> ty x <> ERROR -> 1 <= tline x <= length (map trim (split_nl [] s))) ->
  (forall x, In x toks -> ty x = ERROR -> 1 <= eline x <= length (map trim (split_nl [] s)) /\
                                        ectx x = nth_error (map trim (split_nl [] s)) (Nat.pred (eline x))) ->
  mrun MTop (map ty toks) = MDone ->
  forall fuel next acc p, In next toks -> Q s toks p (mon MTop (ty next)) -> length (stream p) < fuel ->
  PSpec s (parse_loop fuel next acc p).
Proof. exact parse_loop_ok. Qed.
Print Assumptions C08_parser_on_any_stream.

(* non-vacuity: a missing ')' on line 2; a non-UTF-8 byte in a task name; CRLF input truncated inside a body *)
Example C08_nonvacuous :
  parse [88;32;58;61;32;34;49;34;10; 116;97;115;107;32;97;40;34;98;34;32;123;10]%N
    = PErr 2 (Some [116; 97; 115; 107; 32; 97; 40; 34; 98; 34; 32; 123]%N) /\
  parse [116;97;115;107;32;255;40]%N = PErr 1 (Some [116; 97; 115; 107; 32; 255; 40]%N) /\
  parse [10;10;32;32;116;97;115;107;32;97;40;41;32;123;13;10;32;108;115]%N = PErr 4 (Some [108; 115]%N).
Proof. vm_compute. repeat split. Qed.
Print Assumptions C08_nonvacuous.
