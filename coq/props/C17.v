(* C17 — Spokfile discovery terminates and finds the nearest enclosing spokfile.
   Statements + `exact` + Print Assumptions only.  Paths are lists of segments, innermost first. *)
From Spok Require Import Base Find FindProofs.

(* `find_spokfile` is a total function defined by structural recursion on the start path (each iteration replaces the
   directory by its parent and the climb ends at the root): termination for every file system, start and stop -
   including a start that is not below stop and empty directories - is part of its definition.
   What it returns, for every file system, start and stop:
   - Found d:     d is start or an ancestor of it, holds a non-directory entry named spokfile, is not above the
                  stop directory, and no directory nearer to start holds one;
   - NotFound:    no directory at or above start that is not above stop holds a spokfile (whatever else is in them,
                  in whatever order);
   - ReadError d: only for a directory that cannot be listed. *)
Theorem C17_nearest : forall fs stop start,
  match find_spokfile fs stop start with
  | Found d => In d (ups start) /\ has fs d /\ eligible stop d /\ (forall d', nearer start d' d -> ~ has fs d')
  | NotFound => forall d, In d (ups start) -> eligible stop d -> ~ has fs d
  | ReadError d => In d (ups start) /\ eligible stop d /\ fs d = None
  end.
Proof. exact find_spec. Qed.
Print Assumptions C17_nearest.

Theorem C17_no_error : forall fs stop start, (forall d, In d (ups start) -> eligible stop d -> fs d <> None) ->
  forall d, find_spokfile fs stop start <> ReadError d.
Proof. exact find_no_error. Qed.
Print Assumptions C17_no_error.

(* non-vacuity: /a/b/c with a spokfile in /a next to a file sorting before it; stop = /a (found there);
   stop = an unrelated /x (found: /a is not above /x); start /a, stop /a/b (start above stop: nothing) *)
Definition ex_fs : fsys := fun p =>
  match p with
  | [] => Some [(11, KDir); (20, KDir)]
  | [11] => Some [(1, KFile); (0, KFile); (12, KDir)]
  | [12; 11] => Some [(13, KDir)]
  | [13; 12; 11] => Some []
  | [20] => Some []
  | _ => None
  end.
Example C17_nonvacuous :
  find_spokfile ex_fs [11] [13; 12; 11] = Found [11] /\ find_spokfile ex_fs [20] [13; 12; 11] = Found [11] /\
  find_spokfile ex_fs [12; 11] [11] = NotFound /\ find_spokfile ex_fs [12; 11] [13; 12; 11] = NotFound.
Proof. repeat split; vm_compute; reflexivity. Qed.
Print Assumptions C17_nonvacuous.
