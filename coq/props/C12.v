(* C12 — --clean removes exactly the declared outputs and the cache, never the project.
   Statements + `exact` + Print Assumptions only.  Paths are absolute cleaned paths as component lists; the file
   system is the list of existing paths; os.RemoveAll(t) removes t and everything below it. *)
From Spok Require Import Base Paths Glob Effects EffectsProofs Lexer Parser Vars Load LoadProofs.

(* exactly: a path survives iff it existed and is not at or below an unguarded target, the targets being the declared
   literal outputs (joined to the spokfile's directory), the values of named outputs (made absolute), the files
   matched by output globs, and the cache directory *)
Theorem C12_exact : forall root cwd vs outs fs fs', clean_fs root cwd vs outs fs = Some fs' ->
  exists ts, targets root cwd vs outs = Some ts /\
  forall q, In q fs' <-> In q fs /\ forall t, In t (ts ++ [root ++ [cache_dir_name]]) -> guarded root t = false -> seg_prefix t q = false.
Proof. exact clean_exact. Qed.
Print Assumptions C12_exact.

(* never the spokfile, the directory containing it, or anything above - whatever the outputs evaluate to *)
Theorem C12_safe : forall root cwd vs outs fs fs' q, clean_fs root cwd vs outs fs = Some fs' ->
  seg_prefix q (root ++ [spokfile_name]) = true -> In q fs -> In q fs'.
Proof. exact clean_safe. Qed.
Print Assumptions C12_safe.

(* nothing is created or modified *)
Theorem C12_frame : forall root cwd vs outs fs fs' q, clean_fs root cwd vs outs fs = Some fs' -> In q fs' -> In q fs.
Proof. exact clean_frame. Qed.
Print Assumptions C12_frame.

(* a task named clean: spok runs it instead and removes nothing itself (only the cache directory may change) *)
Theorem C12_user_clean : forall o p n, o_init o = false -> o_fmt o = false -> o_vars o = false -> o_clean o = true ->
  p_found p = true -> p_loads p = true -> p_has_clean p = true -> (o_quiet o && o_debug o) = false ->
  write_kind o p n = WCacheOnly.
Proof. exact user_clean_cache_only. Qed.
Print Assumptions C12_user_clean.

(* non-vacuity: /h/proj with EMPTY := "" and UP := ".." as named outputs, a literal "bin" and a glob match:
   the project survives, bin and the match and .spok go *)
Definition s (l : list N) := l.
(* what --clean starts from: a task's outputs sorted into names of variables, file paths below the root and patterns (task.New) *)
Theorem C12_outputs_classified : forall root vs doc name deps outs cmds t,
  load_task root vs doc name deps outs cmds = Some t ->
  lt_named t = idents_of outs /\ lt_fileouts t = files_of root outs /\ lt_globouts t = globs_of outs /\
  lt_taskdeps t = idents_of deps /\ lt_filedeps t = files_of root deps /\ lt_globdeps t = globs_of deps.
Proof. exact outputs_classified. Qed.
Print Assumptions C12_outputs_classified.

Definition P := [[104]; [112]].                                   (* /h/p *)
Definition fs0 := [[[104]]; P; P ++ [spokfile_name]; P ++ [[98]]; P ++ [[98]; [120]]; P ++ [[107]]; P ++ [cache_dir_name]; P ++ [[103]; [99]]].
Example C12_nonvacuous :
  clean_fs P P [([69], []); ([85], [46; 46])] [ONamed [69]; ONamed [85]; OFile [98]; OGlob [P ++ [[103]; [99]]]] fs0
  = Some [[[104]]; P; P ++ [spokfile_name]; P ++ [[107]]]
  /\ clean_fs P P [] [ONamed [90]] fs0 = None.
Proof. split; vm_compute; reflexivity. Qed.
Print Assumptions C12_nonvacuous.
