(* C01 — A task is never skipped unless its inputs equal those of its last success.
   Statements + `exact` + Print Assumptions only.  The digest function is universally quantified
   (D, deqb, dempty, digest) with the two facts spok relies on: equality of digests is decidable and a
   digest is never the empty string. *)
From Spok Require Import Base Graph GraphProofs RunCache RunCacheProofs RunCacheInst App AppProofs.
From Coq Require Import Permutation.

Section C01.
Variable D : Type.
Variable deqb : D -> D -> bool.
Variable dempty : D.
Variable digest : inputs -> D.
Hypothesis deqb_spec : forall a b, deqb a b = true <-> a = b.
Hypothesis digest_ne : forall F, digest F <> dempty.

(* After ANY history of edits, cache removals, runs (forced or not, with failing or erroring commands), kills
   after any number of micro-steps and torn cache files, the invariant "a recorded digest is the digest of the
   inputs of the task's last successful completion since the cache was created" holds ... *)
Theorem C01_invariant : forall fs ops, Inv D dempty digest (history_state D deqb dempty digest fs ops).
Proof. exact (reachable_inv D deqb dempty digest deqb_spec). Qed.

(* ... and from any state satisfying it, whatever a run reports as skipped has, as the inputs of its last
   successful completion, a file set with the digest of its current inputs (for every run order without
   repeated task names, every --force setting and every behaviour of the commands). *)
Theorem C01_skip_sound : forall force b s order, Inv D dempty digest s -> NoDup (map tname order) ->
  let R := run D deqb dempty digest force b s order in
  forall rs, rr_out D R = RunOk rs -> forall t, In t order -> In (skipped_res t) rs ->
  uptodate D digest (final D s R) t.
Proof. exact (skip_sound D deqb dempty digest deqb_spec digest_ne). Qed.

(* With digest equality meaning input equality (C04, up to SHA-256 collisions): the files named by the task's
   dependencies - paths and contents - are exactly those of its last success. *)
Theorem C01_inputs : forall s t, (forall F F', digest F = digest F' -> F = F') -> uptodate D digest s t ->
  exists F, inputs_of (files D s) t = Some F /\ last_ok D s (tname t) = Some F.
Proof. exact (uptodate_inputs D digest). Qed.
End C01.
Print Assumptions C01_invariant.
Print Assumptions C01_skip_sound.
Print Assumptions C01_inputs.

(* non-vacuity, on the executable instance: a("f0") b("f1"); run a b; edit f0; run a b; revert f0; run a
   => a is NOT skipped (the defect repaired in /repo), and running a again IS skipped. *)
(* the same at the command line, with selection (C03), the cache protocol and reporting composed: every invocation keeps the cache
   invariant, and a task that `spok [flags] [tasks]` reports as skipped - whatever the flags, whether it was named, pulled in as
   a dependency, the default task or the task clean of --clean - has in the state the invocation leaves exactly the inputs of its
   last successful completion.  (pick is the map iteration order inside the topological sort; the digest here is the injective
   one: "up to SHA-256 collisions", C04.) *)
Theorem C01_invocations_keep_invariant : forall pick defs vars s f req s' ob,
  Inv_i s -> invoke pick defs vars s f req = (s', ob) -> Inv_i s'.
Proof. exact invoke_keeps_invariant. Qed.
Print Assumptions C01_invocations_keep_invariant.

Theorem C01_invocation : forall pick defs vars s f req s' ob rs r,
  (forall k l, Permutation (pick k l) l) -> Inv_i s ->
  invoke pick defs vars s f req = (s', ob) -> ob_stdout ob = SDJson rs -> In r rs -> tr_skipped r = true ->
  exists d F, find_def defs (tr_name r) = Some d /\
              inputs_of (files DI s') (to_task d) = Some F /\ last_ok DI s' (tr_name r) = Some F.
Proof. exact invocation_skip_sound. Qed.
Print Assumptions C01_invocation.

Definition ta := {| tname := 0; lits := [0]; globs := [] |}.
Definition tb := {| tname := 1; lits := [1]; globs := [] |}.
Definition all_ok : name -> beh := fun _ => BSucc.
Definition hist := [Edit 0 (Some 1); Edit 1 (Some 1); RunOp false all_ok [ta; tb]; Edit 0 (Some 2);
                    RunOp false all_ok [ta; tb]; Edit 0 (Some 1)].
Example C01_nonvacuous :
  let s := fold_left apply_op_i hist (init_i (fun _ => None)) in
  rr_out DI (run_i false all_ok s [ta]) = RunOk [{| r_task := 0; r_skipped := false |}]
  /\ rr_out DI (run_i false all_ok (apply_op_i s (RunOp false all_ok [ta])) [ta; tb])
     = RunOk [{| r_task := 0; r_skipped := true |}; {| r_task := 1; r_skipped := true |}].
Proof. split; vm_compute; reflexivity. Qed.
Print Assumptions C01_nonvacuous.
