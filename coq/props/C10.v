(* C10 — Killing spok at any point never leads to a wrongly skipped task later.
   Statements + `exact` + Print Assumptions only.  Every disk write of the model is two micro-steps (the file is
   first left without valid JSON, then complete); CrashOp k stops a run after any number k of micro-steps;
   TearCache cuts the cache file short. *)
From Spok Require Import Base Graph GraphProofs RunCache RunCacheProofs RunCacheInst App AppProofs.
From Coq Require Import Permutation.

Section C10.
Variable D : Type.
Variable deqb : D -> D -> bool.
Variable dempty : D.
Variable digest : inputs -> D.
Hypothesis deqb_spec : forall a b, deqb a b = true <-> a = b.
Hypothesis digest_ne : forall F, digest F <> dempty.

(* every micro-step of every run keeps the cache invariant, so it holds wherever the run is killed *)
Theorem C10_every_crash_point : forall force b s order, Inv D dempty digest s ->
  tr_ok D (Inv D dempty digest) (rr_trace D (run D deqb dempty digest force b s order)).
Proof. exact (run_inv D deqb dempty digest deqb_spec). Qed.

(* hence after any history with kills and torn cache files ... *)
Theorem C10_invariant : forall fs ops, Inv D dempty digest (history_state D deqb dempty digest fs ops).
Proof. exact (reachable_inv D deqb dempty digest deqb_spec). Qed.

(* ... a later invocation either skips soundly (as after a normal run) ... *)
Theorem C10_later_runs_sound : forall force b s order, Inv D dempty digest s -> NoDup (map tname order) ->
  let R := run D deqb dempty digest force b s order in
  forall rs, rr_out D R = RunOk rs -> forall t, In t order -> In (skipped_res t) rs ->
  uptodate D digest (final D s R) t.
Proof. exact (skip_sound D deqb dempty digest deqb_spec digest_ne). Qed.

(* ... or, when the cache file is damaged, stops with an explicit cache error before executing or writing anything *)
Theorem C10_damaged_cache : forall force b s order, disk D s = Corrupt D ->
  run D deqb dempty digest force b s order = {| rr_trace := []; rr_exec := []; rr_out := RunErr CacheError |}.
Proof. exact (corrupt_cache_is_an_error D deqb dempty digest). Qed.
End C10.
Print Assumptions C10_every_crash_point.
Print Assumptions C10_invariant.
Print Assumptions C10_later_runs_sound.
Print Assumptions C10_damaged_cache.

(* the property as a user meets it: take ANY history mixing file edits, removal of the cache, a cache file cut short, runs killed
   after any number of micro-steps (CrashOp) and complete `spok [flags] [names]` invocations; whatever a later invocation reports
   as skipped has exactly the inputs of its last successful completion *)
Theorem C10_after_any_history : forall pick defs vars fs hs f req s' ob rs r,
  (forall k l, Permutation (pick k l) l) ->
  invoke pick defs vars (mixed_history pick defs vars fs hs) f req = (s', ob) -> ob_stdout ob = SDJson rs -> In r rs -> tr_skipped r = true ->
  exists d F, find_def defs (tr_name r) = Some d /\
              inputs_of (files DI s') (to_task d) = Some F /\ last_ok DI s' (tr_name r) = Some F.
Proof. exact skip_sound_after_any_history. Qed.
Print Assumptions C10_after_any_history.

Definition ta := {| tname := 0; lits := [0]; globs := [] |}.
Definition all_ok : name -> beh := fun _ => BSucc.
(* success on content 1; edit to 2; run killed after 3 micro-steps (entry blanked, command running); revert to 1: must run again *)
Example C10_nonvacuous :
  let s := fold_left apply_op_i [Edit 0 (Some 1); RunOp false all_ok [ta]; Edit 0 (Some 2); CrashOp false all_ok [ta] 3; Edit 0 (Some 1)] (init_i (fun _ => None)) in
  rr_out DI (run_i false all_ok s [ta]) = RunOk [{| r_task := 0; r_skipped := false |}]
  /\ rr_out DI (run_i false all_ok (apply_op_i s TearCache) [ta]) = RunErr CacheError.
Proof. split; vm_compute; reflexivity. Qed.
Print Assumptions C10_nonvacuous.

(* the hypotheses of C10_after_any_history are met by a real history: edit, a complete invocation, a run killed after three micro-steps (its entry blanked, its command started),
   then an invocation that reports task 0 as skipped (its file is as it was at its last success) *)
Definition okc10 := {| c_cmd := [101%N]; c_out := []; c_err := []; c_status := 0 |}.
Definition defs10 := [ {| td_name := 0; td_deps := []; td_lits := [0]; td_globs := []; td_cmds := [okc10] |} ].
Definition fj := {| f_quiet := false; f_json := true; f_force := false; f_show := false; f_vars := false; f_clean := false; f_debug := false |}.
Example C10_history_nonvacuous :
  let hs := [HOp (Edit 0 (Some 1)); HInvoke fj [0]; HOp (Edit 0 (Some 2)); HOp (CrashOp false all_ok [ta] 3); HOp (Edit 0 (Some 1))] in
  ob_stdout (snd (invoke (fun _ l => l) defs10 [] (mixed_history (fun _ l => l) defs10 [] (fun _ => None) hs) fj [0]))
  = SDJson [{| tr_name := 0; tr_skipped := false; tr_cmds := [okc10] |}]
  /\ ob_stdout (snd (invoke (fun _ l => l) defs10 [] (mixed_history (fun _ l => l) defs10 [] (fun _ => None) (firstn 2 hs)) fj [0]))
  = SDJson [{| tr_name := 0; tr_skipped := true; tr_cmds := [] |}].
Proof. split; vm_compute; reflexivity. Qed.
Print Assumptions C10_history_nonvacuous.
