(* C10 — Killing spok at any point never leads to a wrongly skipped task later.
   Statements + `exact` + Print Assumptions only.  Every disk write of the model is two micro-steps (the file is
   first left without valid JSON, then complete); CrashOp k stops a run after any number k of micro-steps;
   TearCache cuts the cache file short. *)
From Spok Require Import Base RunCache RunCacheProofs RunCacheInst.

Section C10.
Variable D : Type.
Variable deqb : D -> D -> bool.
Variable dempty : D.
Variable digest : inputs -> D.
Hypothesis deqb_spec : forall a b, deqb a b = true <-> a = b.
Hypothesis digest_ne : forall F, digest F <> dempty.

(* every micro-step of every run keeps the cache invariant, so it holds wherever the run is killed *)
Theorem C10_every_crash_point : forall force b s order, Inv D dempty digest s ->
  tr_ok D (Inv D dempty digest) (rr_trace D (run D deqb dempty digest force b s order)).
Proof. exact (run_inv D deqb dempty digest deqb_spec). Qed.

(* hence after any history with kills and torn cache files ... *)
Theorem C10_invariant : forall fs ops, Inv D dempty digest (history_state D deqb dempty digest fs ops).
Proof. exact (reachable_inv D deqb dempty digest deqb_spec). Qed.

(* ... a later invocation either skips soundly (as after a normal run) ... *)
Theorem C10_later_runs_sound : forall force b s order, Inv D dempty digest s -> NoDup (map tname order) ->
  let R := run D deqb dempty digest force b s order in
  forall rs, rr_out D R = RunOk rs -> forall t, In t order -> In (skipped_res t) rs ->
  uptodate D digest (final D s R) t.
Proof. exact (skip_sound D deqb dempty digest deqb_spec digest_ne). Qed.

(* ... or, when the cache file is damaged, stops with an explicit cache error before executing or writing anything *)
Theorem C10_damaged_cache : forall force b s order, disk D s = Corrupt D ->
  run D deqb dempty digest force b s order = {| rr_trace := []; rr_exec := []; rr_out := RunErr CacheError |}.
Proof. exact (corrupt_cache_is_an_error D deqb dempty digest). Qed.
End C10.
Print Assumptions C10_every_crash_point.
Print Assumptions C10_invariant.
Print Assumptions C10_later_runs_sound.
Print Assumptions C10_damaged_cache.

Definition ta := {| tname := 0; lits := [0]; globs := [] |}.
Definition all_ok : name -> beh := fun _ => BSucc.
(* success on content 1; edit to 2; run killed after 3 micro-steps (entry blanked, command running); revert to 1: must run again *)
Example C10_nonvacuous :
  let s := fold_left apply_op_i [Edit 0 (Some 1); RunOp false all_ok [ta]; Edit 0 (Some 2); CrashOp false all_ok [ta] 3; Edit 0 (Some 1)] (init_i (fun _ => None)) in
  rr_out DI (run_i false all_ok s [ta]) = RunOk [{| r_task := 0; r_skipped := false |}]
  /\ rr_out DI (run_i false all_ok (apply_op_i s TearCache) [ta]) = RunErr CacheError.
Proof. split; vm_compute; reflexivity. Qed.
Print Assumptions C10_nonvacuous.
