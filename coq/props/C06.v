(* C06 — Parsing recovers exactly the structure written, in every admissible layout.
   Statements + `exact` + Print Assumptions only.

   A concrete syntax tree (Cst.v) is a spokfile's structure together with every layout choice: the whitespace run at each
   position (spaces, tabs, LF, CRLF, lone CR, blank lines), trailing commas, bare or parenthesised outputs, one-line or
   multi-line bodies.  `render` writes the text, `erase` forgets the layout.  `cst_wf` is the admissible class: what the
   lexer's state machine accepts at each position (RoundTripL.v, stmt_wf) and "a non-empty comment directly above an
   undocumented task is that task's docstring" (seq_ok).  Names and strings are arbitrary byte strings subject to: names are
   runs of runes that are letters or '_' (any script), strings contain no double quote and no LF. *)
From Spok Require Import Base Lexer Parser Cst ParseTotal RoundTripP LexInv LexSteps LexFwd RoundTripL RoundTrip CstWf.

(* For EVERY well-formed concrete syntax tree: the parser (lexer included) returns exactly its structure. *)
Theorem C06_parse_recovers_structure : forall f : cfile, cst_wf f -> parse (render f) = PTree (erase f).
Proof. exact parse_render. Qed.
Print Assumptions C06_parse_recovers_structure.

(* the lexer half: no fault, and exactly the expected (kind, text) pairs ending in EOF *)
Theorem C06_lexer_tokens : forall f : cfile, file_wf f ->
  fst (lex (render f)) = FOk /\ map tv_of (snd (lex (render f))) = toks f.
Proof. exact lex_render. Qed.
Print Assumptions C06_lexer_tokens.

(* the parser half, for ANY token list with those kinds and texts (positions and lines are irrelevant) *)
Theorem C06_parser_inverts_tokens : forall (c : cfile) (tl : list token) (s : bytes),
  Forall (fun sg => stmt_ok (fst sg)) (snd c) -> seq_ok (snd c) -> map tv_of tl = toks c ->
  let p0 := {| buf := zero_tok; pending := false; rest := tl; pinp := s |} in
  (let '(n, p1) := pnext p0 in parse_loop (S (S (length tl))) n [] p1) = PTree (erase c).
Proof. exact parse_tokens_rt. Qed.
Print Assumptions C06_parser_inverts_tokens.

(* the admissible class is decidable: the executable check used on every generated layout is sound *)
Theorem C06_class_is_checked : forall f, cst_wf_b f = true -> cst_wf f.
Proof. exact cst_wf_sound. Qed.
Print Assumptions C06_class_is_checked.

(* non-vacuity: CRLF, tabs, a trailing comma, a parenthesised single output, interpolation, a one-line body, non-ASCII names,
   an empty task name, an identifier value on the last line without newline *)
Definition C06_it a w c := {| ci_arg := a; ci_ws := w; ci_comma := c |}.
Definition C06_example : cfile := ([10; 32],
  [ (CComment [32; 104; 105], [13;10;13;10]);
    (CAssignS [88] [32] [9] [118; 195; 169], [10]);
    (CAssignF [89] [] [] [106] [32] {| ca_ws := [32]; ca_items := [C06_it (AString [97]) [32] (Some [32]); C06_it (AIdent [88]) [10] (Some [10;32])] |}, [32;10]);
    (CComment [], [10]);
    (CTask (Some ([32;100], [13;10;9])) [32] [98; 195; 169] [] {| ca_ws := []; ca_items := [C06_it (AString [42]) [] None] |} [32]
        (OParen [32] {| ca_ws := []; ca_items := [C06_it (AString [111]) [] None] |} [32])
        {| cb_ws := [13;10;32;32]; cb_cmds := [([108;115;32;45;108], [13;10;10;32]); ([45;120;32;123;123;46;88;125;125], [10])]; cb_last := None |}, [10;10]);
    (CTask None [9] [99] [32] {| ca_ws := [32]; ca_items := [] |} [] (OBare [] (AIdent [88]) [32])
        {| cb_ws := [32]; cb_cmds := []; cb_last := Some ([108;115], true) |}, []);
    (CTask None [32] [] [] {| ca_ws := []; ca_items := [C06_it (AIdent [99]) [] None] |} [32] (OBare [32] (AString [111]) [32])
        {| cb_ws := []; cb_cmds := []; cb_last := None |}, [10]);
    (CAssignI [90] [32] [32] [88], []) ])%N.
Example C06_nonvacuous : cst_wf_b C06_example = true /\ length (snd C06_example) = 8%nat.
Proof. vm_compute. split; reflexivity. Qed.
Print Assumptions C06_nonvacuous.
