(* Extraction of the executable models. Only the directives of ExtrOcamlBasic are in force:
   bool, option, unit, list, prod, sumbool, sumor as OCaml natives; andb/orb inlined.
   N, positive, nat, Z stay as extracted inductives. *)
From Spok Require Import Base Lexer Parser Sha256 Hash Graph RunCache RunCacheInst Find Glob App Paths Vars Effects Cst CstWf Layout Ser Load.
Require Extraction.
Require Import ExtrOcamlBasic.
Extraction "model.ml" lex parse fmt is_space is_letter is_punct
  sha256 hash_spec hash_run
  run_order valid_order valid_partial
  run_i apply_op_i init_i state_at_i
  find_spokfile expand glob_spec expand_with old_spok_cb expand_pat glob_spec_pat invoke load
  trim join_builtin expand_vars render_cmd env_lookup cmd_env clean
  clean_fs write_kind may_change
  render erase cst_wf_b layout ser_result.
