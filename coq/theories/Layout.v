(* The formatter's output is one particular layout of a (normalised) tree: fmt t = render (layout t). *)
From Spok Require Import Base Lexer Parser Cst ParseTotal RoundTripP LexInv LexSteps LexFwd RoundTripL RoundTrip CstWf TrimProofs.
From Coq Require Import Lia.
Open Scope N_scope.

(* what a comment's text becomes when it is printed and read back: "# " ++ trim text *)
Definition ctext (text : bytes) : bytes := match text with [] => [] | _ => 32 :: trim text end.

Definition canon_node (n : node) : node :=
  match n with
  | NComment t => NComment (ctext t)
  | NTask doc name deps outs cmds => NTask (ctext doc) name deps outs cmds
  | n => n
  end.
Definition canon (t : list node) : list node := map canon_node t.

Fixpoint l_items (args : list arg) : list citem :=
  match args with
  | [] => []
  | [a] => [{| ci_arg := a; ci_ws := []; ci_comma := None |}]
  | a :: tl => {| ci_arg := a; ci_ws := []; ci_comma := Some [32] |} :: l_items tl
  end.
Definition l_args (args : list arg) : cargs := {| ca_ws := []; ca_items := l_items args |}.
Definition l_outs (outs : list arg) : couts :=
  match outs with
  | [] => ONone
  | [o] => OBare [32] o [32]
  | _ => OParen [32] (l_args outs) [32]
  end.
Fixpoint l_cmds (cmds : list bytes) : list (bytes * ws) :=
  match cmds with
  | [] => []
  | [c] => [(c, [10])]
  | c :: tl => (c, [10; 32; 32; 32; 32]) :: l_cmds tl
  end.
Definition l_body (cmds : list bytes) : cbody :=
  {| cb_ws := match cmds with [] => [10] | _ => [10; 32; 32; 32; 32] end; cb_cmds := l_cmds cmds; cb_last := None |}.
Definition l_node (n : node) : cstmt * ws :=
  match n with
  | NComment t => (CComment (ctext t), [10])
  | NAssign name (RString s) => (CAssignS name [32] [32] s, [10])
  | NAssign name (RIdent i) => (CAssignI name [32] [32] i, [10])
  | NAssign name (RFunc f args) => (CAssignF name [32] [32] f [] (l_args args), [10])
  | NTask doc name deps outs cmds =>
    (CTask (match doc with [] => None | _ => Some (ctext doc, [10]) end) [32] name [] (l_args deps) [32] (l_outs outs) (l_body cmds), [10; 10])
  end.
Definition layout (t : list node) : cfile := ([], map l_node t).

(* ---- fmt = render . layout ---- *)
Lemma l_items_render args : concat (map r_item (l_items args)) = join_sep comma_sp (map arg_str args).
Proof.
  induction args as [|a [|b tl] IH]; [reflexivity| |].
  - cbn [l_items map concat join_sep]. unfold r_item. cbn [ci_arg ci_ws ci_comma comma_text app]. rewrite !app_nil_r. reflexivity.
  - cbn [l_items map concat join_sep] in *. rewrite IH. unfold r_item. cbn [ci_arg ci_ws ci_comma comma_text app]. unfold comma_sp. rewrite <- !app_assoc. reflexivity.
Qed.
Lemma l_args_render args : r_args (l_args args) = [40] ++ join_sep comma_sp (map arg_str args) ++ [41].
Proof. unfold r_args, l_args. cbn [ca_ws ca_items app]. rewrite l_items_render. reflexivity. Qed.

Lemma l_cmds_text c tl : concat (map (fun cw => fst cw ++ snd cw) (l_cmds (c :: tl))) =
  c ++ [10] ++ concat (map (fun d => [32; 32; 32; 32] ++ d ++ [10]) tl).
Proof.
  revert c. induction tl as [|d tl IH]; intros c.
  - cbn [l_cmds map concat fst snd]. rewrite !app_nil_r. reflexivity.
  - change (l_cmds (c :: d :: tl)) with ((c, [10; 32; 32; 32; 32]) :: l_cmds (d :: tl)). cbn [map concat fst snd]. rewrite IH.
    repeat (rewrite <- app_assoc; cbn [app]). reflexivity.
Qed.

Lemma l_cmds_render cmds : r_body (l_body cmds) = [123; 10] ++ concat (map (fun c => [32; 32; 32; 32] ++ c ++ [10]) cmds) ++ [125].
Proof.
  unfold r_body, l_body. cbn [cb_ws cb_cmds cb_last]. rewrite app_nil_l.
  destruct cmds as [|c tl]; [reflexivity|]. rewrite l_cmds_text. cbn [map concat]. repeat (rewrite <- app_assoc; cbn [app]). reflexivity.
Qed.

Lemma comment_render t : [35] ++ ctext t ++ [10] = comment_str t.
Proof. unfold ctext, comment_str. destruct t; reflexivity. Qed.

Lemma l_node_render n : r_stmt (fst (l_node n)) ++ snd (l_node n) = node_str n.
Proof.
  destruct n as [t|name [s|i|f args]|doc name deps outs cmds]; cbn [l_node fst snd r_stmt node_str rhs_str].
  - rewrite <- app_assoc. apply comment_render.
  - unfold k_declare, b_quote. rewrite <- !app_assoc. reflexivity.
  - unfold k_declare. rewrite <- !app_assoc. reflexivity.
  - rewrite l_args_render. unfold k_declare. rewrite <- !app_assoc. reflexivity.
  - rewrite l_args_render, l_cmds_render. unfold k_task, doc_str.
    destruct doc as [|d0 doc]; cbn [app]; [|rewrite <- comment_render];
      (destruct outs as [|o [|o2 outs]]; cbn [l_outs r_outs]; rewrite ?l_args_render; unfold k_output; repeat (rewrite <- app_assoc; cbn [app]); reflexivity).
Qed.

Theorem fmt_is_a_layout t : fmt t = render (layout t).
Proof.
  unfold fmt, render, layout. cbn [fst snd app]. induction t as [|n t IH]; [reflexivity|].
  cbn [map concat]. rewrite IH, l_node_render. reflexivity.
Qed.

(* ---- what the layout erases to ---- *)
Lemma l_items_erase args : map ci_arg (l_items args) = args.
Proof. induction args as [|a [|b tl] IH]; [reflexivity|reflexivity|]. cbn [l_items map] in *. rewrite IH. reflexivity. Qed.
Lemma l_cmds_erase cmds : map fst (l_cmds cmds) = cmds.
Proof. induction cmds as [|a [|b tl] IH]; [reflexivity|reflexivity|]. cbn [l_cmds map fst] in *. rewrite IH. reflexivity. Qed.

Lemma l_node_erase n : e_stmt (fst (l_node n)) = canon_node n.
Proof.
  destruct n as [t|name [s|i|f args]|doc name deps outs cmds]; cbn [l_node fst e_stmt canon_node]; try reflexivity.
  - unfold e_args, l_args. cbn [ca_items]. rewrite l_items_erase. reflexivity.
  - unfold e_args, l_args, e_body, l_body. cbn [ca_items cb_cmds cb_last]. rewrite l_items_erase, l_cmds_erase, app_nil_r. f_equal.
    + destruct doc; reflexivity.
    + destruct outs as [|o [|o2 outs]]; cbn [l_outs e_outs]; [reflexivity|reflexivity|]. unfold e_args, l_args. cbn [ca_items]. apply l_items_erase.
Qed.
Theorem layout_erase t : erase (layout t) = canon t.
Proof. unfold erase, layout, canon. cbn [snd]. rewrite map_map. apply map_ext. intros n. apply l_node_erase. Qed.

(* ---- which trees the canonical layout is admissible for ---- *)
Definition arg_wf (a : arg) : Prop := match a with AString s => Str s | AIdent s => Ident s /\ s <> [] end.
Definition cmds_wf (cmds : list bytes) : Prop := match cmds with [] => True | c :: tl => Cmd1 c /\ Forall CmdN tl end.
Definition node_wf (n : node) (islast : Prop) : Prop :=
  match n with
  | NComment t => no_byte 10 t = true
  | NAssign name (RString s) => name_ok name /\ Str s
  | NAssign name (RIdent i) => name_ok name /\ Ident i /\ i <> [] /\ islast
  | NAssign name (RFunc f args) => name_ok name /\ Ident f /\ f <> [] /\ Forall arg_wf args
  | NTask doc name deps outs cmds => no_byte 10 doc = true /\ Ident name /\ Forall arg_wf deps /\ Forall arg_wf outs /\ cmds_wf cmds
  end.
Definition undoc_task (l : list node) : bool := match l with NTask [] _ _ _ _ :: _ => true | _ => false end.
Fixpoint tree_wf (t : list node) : Prop :=
  match t with
  | [] => True
  | n :: tl => node_wf n (tl = []) /\ match n with NComment c => undoc_task tl = true -> c = [] | _ => True end /\ tree_wf tl
  end.

Lemma last_not_cons b x s : s <> [] -> last_not b (x :: s) = last_not b s.
Proof. intros H. unfold last_not. cbn [rev]. destruct (rev s) as [|y r] eqn:E; [|reflexivity]. apply (f_equal (@rev N)) in E. rewrite rev_involutive in E. cbn in E. congruence. Qed.

Lemma ctext_ok t : no_byte 10 t = true -> comment_ok (ctext t).
Proof.
  intros H. unfold ctext. destruct t as [|b t]; [split; reflexivity|]. split.
  - cbn [no_byte forallb N.eqb Pos.eqb negb andb]. apply (trim_no_byte 10 (b :: t) H).
  - destruct (trim (b :: t)) as [|c r] eqn:E; [reflexivity|]. rewrite last_not_cons by discriminate. rewrite <- E. apply trim_last_not; [lia|reflexivity].
Qed.

Lemma l_items_ok args : Forall arg_wf args -> items_ok (l_items args).
Proof.
  intros H. split.
  - induction H as [|a tl Ha Htl IH]; [constructor|]. destruct tl as [|b tl].
    + constructor; [|constructor]. split; [exact I|]. destruct a; cbn [ci_arg ci_ws]; [split; [exact Ha|reflexivity]|destruct Ha; repeat split; auto].
    + change (l_items (a :: b :: tl)) with ({| ci_arg := a; ci_ws := []; ci_comma := Some [32] |} :: l_items (b :: tl)).
      constructor; [|exact IH]. split; [reflexivity|]. destruct a; cbn [ci_arg ci_ws]; [split; [exact Ha|reflexivity]|destruct Ha; repeat split; auto].
  - clear H. induction args as [|a [|b tl] IH]; [exact I|exact I|].
    change (l_items (a :: b :: tl)) with ({| ci_arg := a; ci_ws := []; ci_comma := Some [32] |} :: l_items (b :: tl)).
    cbn [commas_ok]. destruct (l_items (b :: tl)) eqn:E; [destruct tl; discriminate|]. split; [discriminate|exact IH].
Qed.
Lemma l_args_ok args : Forall arg_wf args -> cargs_ok (l_args args).
Proof. intros H. split; [reflexivity|apply l_items_ok; exact H]. Qed.

Lemma l_cmds_ok tl : Forall CmdN tl -> Forall line_ok (l_cmds tl).
Proof.
  induction 1 as [|c tl Hc Htl IH]; [constructor|]. destruct tl as [|d tl].
  - constructor; [|constructor]. split; [exact Hc|split; reflexivity].
  - change (l_cmds (c :: d :: tl)) with ((c, [10; 32; 32; 32; 32]) :: l_cmds (d :: tl)). constructor; [|exact IH]. split; [exact Hc|split; reflexivity].
Qed.
Lemma l_body_ok cmds : cmds_wf cmds -> body_ok (l_body cmds).
Proof.
  unfold body_ok, l_body. cbn [cb_ws cb_cmds cb_last]. destruct cmds as [|c tl]; [intros _; split; [reflexivity|exact I]|].
  intros [Hc Htl]. split; [reflexivity|]. destruct tl as [|d tl].
  - cbn [l_cmds]. repeat split; auto.
  - change (l_cmds (c :: d :: tl)) with ((c, [10; 32; 32; 32; 32]) :: l_cmds (d :: tl)). split; [exact Hc|]. split; [reflexivity|]. split; [reflexivity|].
    split; [apply l_cmds_ok; exact Htl|exact I].
Qed.
Lemma l_outs_ok outs : Forall arg_wf outs -> outs_wf (l_outs outs).
Proof.
  intros H. destruct outs as [|o [|o2 outs]]; cbn [l_outs outs_wf]; [exact I| |].
  - inversion H as [|? ? Ho _]; subst. destruct o; [split; [reflexivity|split; [exact Ho|reflexivity]]|destruct Ho; repeat split; auto].
  - split; [reflexivity|]. split; [apply l_args_ok; exact H|reflexivity].
Qed.

Lemma l_node_wf n REST : node_wf n (REST = []) -> stmt_wf (fst (l_node n)) (snd (l_node n)) REST.
Proof.
  destruct n as [t|name [s|i|f args]|doc name deps outs cmds]; cbn [node_wf l_node fst snd stmt_wf].
  - intros H. split; [apply ctext_ok; exact H|]. split; [reflexivity|left; reflexivity].
  - intros [Hn Hs]. split; [exact Hn|]. split; [reflexivity|]. split; [reflexivity|]. split; [exact Hs|]. split; [reflexivity|left; reflexivity].
  - intros (Hn & Hi & Hine & Hl). split; [exact Hn|]. split; [reflexivity|]. split; [reflexivity|]. split; [exact Hi|]. split; [exact Hine|]. split; [reflexivity|exact Hl].
  - intros (Hn & Hf & Hfne & Ha). split; [exact Hn|]. split; [reflexivity|]. split; [reflexivity|]. split; [exact Hf|]. split; [exact Hfne|]. split; [reflexivity|].
    split; [apply l_args_ok; exact Ha|reflexivity].
  - intros (Hd & Hn & Hdeps & Houts & Hc). split.
    { destruct doc as [|d0 doc]; [exact I|]. split; [apply ctext_ok; exact Hd|]. split; [discriminate|split; reflexivity]. }
    split; [reflexivity|]. split; [exact Hn|]. split; [intros _; discriminate|]. split; [reflexivity|]. split; [apply l_args_ok; exact Hdeps|].
    split; [reflexivity|]. split; [apply l_outs_ok; exact Houts|]. split; [apply l_body_ok; exact Hc|reflexivity].
Qed.

Lemma stmts_text_nil l : stmts_text (map l_node l) = [] -> l = [].
Proof.
  destruct l as [|n l]; [reflexivity|]. unfold stmts_text. cbn [map concat]. intros E. apply app_eq_nil in E. destruct E as [E _].
  apply app_eq_nil in E. destruct E as [_ E]. destruct n as [t|name [s|i|f args]|doc name deps outs cmds]; discriminate.
Qed.

Theorem layout_wf t : tree_wf t -> cst_wf (layout t).
Proof.
  intros H. split; [split; [reflexivity|]|]; unfold layout; cbn [snd].
  - induction t as [|n tl IH]; [exact I|]. destruct H as (Hn & _ & Htl). cbn [map stmts_wf]. destruct (l_node n) as [st g] eqn:E.
    split; [|apply IH; exact Htl]. pose proof (l_node_wf n (stmts_text (map l_node tl))) as W. rewrite E in W. cbn [fst snd] in W. apply W.
    destruct n as [t0|name [s|i|f args]|doc name deps outs cmds]; try exact Hn. cbn [node_wf] in Hn |- *.
    destruct Hn as (A & B & C & Dl). split; [exact A|]. split; [exact B|]. split; [exact C|]. rewrite Dl. reflexivity.
  - induction t as [|n tl IH]; [exact I|]. destruct H as (_ & Hs & Htl). cbn [map seq_ok]. destruct (l_node n) as [st g] eqn:E. split; [|apply IH; exact Htl].
    destruct n as [t0|name [s|i|f args]|doc name deps outs cmds]; cbn [l_node] in E; injection E as <- <-; try exact I.
    intros Hu. assert (Hu' : undoc_task tl = true).
    { destruct tl as [|m tl']; [discriminate|]. cbn [map undoc_task_head] in Hu. destruct m as [?|? [?|?|? ?]|doc ? ? ? ?]; cbn [l_node] in Hu; try discriminate.
      destruct doc; [reflexivity|discriminate]. }
    rewrite (Hs Hu'). reflexivity.
Qed.
