(* Concrete syntax trees: a spokfile as a structure PLUS every layout choice the syntax admits
   (whitespace runs, LF/CRLF line ends, trailing commas, bare or parenthesised single outputs, one-line bodies).
   render writes the text, erase forgets the layout, toks is the token stream the lexer must produce.
   RoundTrip.v proves  parse (render c) = PTree (erase c)  for every well-formed c (C06), and that the formatter's
   output is one particular layout (C07, C11, C15). *)
From Spok Require Import Base Lexer Parser.
Open Scope N_scope.

Definition ws := bytes.

Record citem := { ci_arg : arg; ci_ws : ws; ci_comma : option ws }.   (* arg, whitespace, then optionally "," whitespace *)
Record cargs := { ca_ws : ws; ca_items : list citem }.                (* "(" whitespace items ")" *)

Inductive couts :=
  | ONone
  | OBare (w1 : ws) (a : arg) (w2 : ws)          (* "->" w1 arg w2 *)
  | OParen (w1 : ws) (args : cargs) (w2 : ws).   (* "->" w1 "(" ... ")" w2 *)

(* body: "{" w0 (cmd eolws)* [lastcmd [" "]] "}"   (eolws starts with a line end) *)
Record cbody := { cb_ws : ws; cb_cmds : list (bytes * ws); cb_last : option (bytes * bool) }.

Inductive cstmt :=
  | CComment (text : bytes)
  | CAssignS (name : bytes) (w1 w2 : ws) (s : bytes)
  | CAssignF (name : bytes) (w1 w2 : ws) (f : bytes) (w3 : ws) (args : cargs)
  | CAssignI (name : bytes) (w1 w2 : ws) (i : bytes)
  | CTask (doc : option (bytes * ws)) (wt : ws) (name : bytes) (wn : ws) (deps : cargs) (wd : ws) (outs : couts) (body : cbody).

Definition cfile := (ws * list (cstmt * ws))%type.    (* leading whitespace, then statements each followed by a gap *)

(* ---- render ---- *)
Definition comma_text (c : option ws) : bytes := match c with Some w => 44 :: w | None => [] end.
Definition r_item (i : citem) : bytes := arg_str (ci_arg i) ++ ci_ws i ++ comma_text (ci_comma i).
Definition r_args (a : cargs) : bytes := [40] ++ ca_ws a ++ concat (map r_item (ca_items a)) ++ [41].
Definition r_outs (o : couts) : bytes :=
  match o with
  | ONone => []
  | OBare w1 a w2 => k_output ++ w1 ++ arg_str a ++ w2
  | OParen w1 args w2 => k_output ++ w1 ++ r_args args ++ w2
  end.
Definition r_body (b : cbody) : bytes :=
  [123] ++ cb_ws b ++ concat (map (fun cw => fst cw ++ snd cw) (cb_cmds b))
  ++ match cb_last b with Some (c, sp) => c ++ (if sp : bool then [32] else []) | None => [] end ++ [125].
Definition r_stmt (s : cstmt) : bytes :=
  match s with
  | CComment text => [35] ++ text
  | CAssignS name w1 w2 s => name ++ w1 ++ k_declare ++ w2 ++ b_quote ++ s ++ b_quote
  | CAssignF name w1 w2 f w3 args => name ++ w1 ++ k_declare ++ w2 ++ f ++ w3 ++ r_args args
  | CAssignI name w1 w2 i => name ++ w1 ++ k_declare ++ w2 ++ i
  | CTask doc wt name wn deps wd outs body =>
    match doc with Some (d, w) => [35] ++ d ++ w | None => [] end
    ++ k_task ++ wt ++ name ++ wn ++ r_args deps ++ wd ++ r_outs outs ++ r_body body
  end.
Definition render (f : cfile) : bytes := fst f ++ concat (map (fun sg => r_stmt (fst sg) ++ snd sg) (snd f)).

(* ---- erase ---- *)
Definition e_args (a : cargs) : list arg := map ci_arg (ca_items a).
Definition e_outs (o : couts) : list arg :=
  match o with ONone => [] | OBare _ a _ => [a] | OParen _ args _ => e_args args end.
Definition e_body (b : cbody) : list bytes :=
  map fst (cb_cmds b) ++ match cb_last b with Some (c, _) => [c] | None => [] end.
Definition e_stmt (s : cstmt) : node :=
  match s with
  | CComment text => NComment text
  | CAssignS name _ _ s => NAssign name (RString s)
  | CAssignF name _ _ f _ args => NAssign name (RFunc f (e_args args))
  | CAssignI name _ _ i => NAssign name (RIdent i)
  | CTask doc _ name _ deps _ outs body =>
    NTask (match doc with Some (d, _) => d | None => [] end) name (e_args deps) (e_outs outs) (e_body body)
  end.
Definition erase (f : cfile) : list node := map (fun sg => e_stmt (fst sg)) (snd f).

(* ---- the token stream (kind, text) ---- *)
Definition tv := (ttype * bytes)%type.
Definition tv_of (t : token) : tv := (ty t, val t).
Definition t_arg (a : arg) : tv := match a with AString s => (STRING, b_quote ++ s ++ b_quote) | AIdent s => (IDENT, s) end.
Definition t_item (i : citem) : list tv := t_arg (ci_arg i) :: match ci_comma i with Some _ => [(COMMA, [44])] | None => [] end.
Definition t_args (a : cargs) : list tv := (LPAREN, [40]) :: concat (map t_item (ca_items a)) ++ [(RPAREN, [41])].
Definition t_outs (o : couts) : list tv :=
  match o with
  | ONone => []
  | OBare _ a _ => [(OUTPUT, k_output); t_arg a]
  | OParen _ args _ => (OUTPUT, k_output) :: t_args args
  end.
Definition t_body (b : cbody) : list tv :=
  (LBRACE, [123]) :: map (fun c => (COMMAND, c)) (e_body b) ++ [(RBRACE, [125])].
Definition t_stmt (s : cstmt) : list tv :=
  match s with
  | CComment text => [(HASH, [35]); (COMMENT, text)]
  | CAssignS name _ _ s => [(IDENT, name); (DECLARE, k_declare); (STRING, b_quote ++ s ++ b_quote)]
  | CAssignF name _ _ f _ args => (IDENT, name) :: (DECLARE, k_declare) :: (IDENT, f) :: t_args args
  | CAssignI name _ _ i => [(IDENT, name); (DECLARE, k_declare); (IDENT, i)]
  | CTask doc _ name _ deps _ outs body =>
    match doc with Some (d, _) => [(HASH, [35]); (COMMENT, d)] | None => [] end
    ++ (TASK, k_task) :: (IDENT, name) :: t_args deps ++ t_outs outs ++ t_body body
  end.
Definition toks (f : cfile) : list tv := concat (map (fun sg => t_stmt (fst sg)) (snd f)) ++ [(EOF, [])].

(* ---- well-formedness: which trees and layouts the syntax admits ---- *)
Definition is_ws_byte (b : N) : bool := (b =? 32) || (b =? 9) || (b =? 10) || (b =? 13).
Definition WS (w : ws) : Prop := forallb is_ws_byte w = true.
(* does not begin with a line end (LF or CRLF); a lone CR is fine *)
Definition no_eol_start (w : ws) : bool :=
  match w with 10 :: _ => false | 13 :: 10 :: _ => false | _ => true end.
Definition eol_start (w : ws) : bool := negb (no_eol_start w).

(* an identifier: a sequence of complete runes each a letter or '_' *)
Fixpoint ident_runes (fuel : nat) (s : bytes) : bool :=
  match fuel with
  | O => false
  | S f => match s with
           | [] => true
           | _ => let '(r, w) := decode s in is_ident r && ident_runes f (skipn w s)
           end
  end.
Definition Ident (s : bytes) : Prop := ident_runes (S (length s)) s = true.

Definition no_byte (b : N) (s : bytes) : bool := forallb (fun x => negb (x =? b)) s.
(* a string: no quote; no LF except as its very first byte (the lexer checks for a line end only AFTER each rune it reads) *)
Definition Str (s : bytes) : Prop := no_byte 34 s = true /\ no_byte 10 (tl s) = true.

(* the command scanner of lexTaskCommands, rune by rune exactly as the loop decides: a rune is never LF; if the text after it
   starts with "{{" or "}}" those two bytes are swallowed without looking at the rune; otherwise the rune is ASCII and neither
   '}' nor '#' *)
Fixpoint cmd_scan (fuel : nat) (s : bytes) : bool :=
  match fuel with
  | O => false
  | S f => match s with
           | [] => true
           | _ =>
             let '(r, w) := decode s in
             let rest := skipn w s in
             negb (r =? 10)
             && (if has_prefix k_linterp rest || has_prefix k_rinterp rest then cmd_scan f (skipn 2 rest)
                 else negb (r =? 125) && negb (r =? 35) && (r <=? 127) && cmd_scan f rest)
           end
  end.
Definition last_not (b : N) (s : bytes) : bool := match rev s with x :: _ => negb (x =? b) | [] => true end.
(* first command of a body: first rune a letter (any script), the rest scanned *)
Definition Cmd1 (c : bytes) : Prop :=
  let '(r, w) := decode c in is_letter r = true /\ cmd_scan (S (length c)) (skipn w c) = true /\ last_not 13 c = true.
(* later commands: scanned from their first byte; must not begin with whitespace *)
Definition CmdN (c : bytes) : Prop :=
  c <> [] /\ cmd_scan (S (length c)) c = true /\ last_not 13 c = true /\ is_space (fst (decode c)) = false.
