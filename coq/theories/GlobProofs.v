(* Proofs about glob expansion (C05): doublestar's walker, driven by a callback that never asks to skip,
   reports exactly the entries the reference matcher accepts. *)
From Spok Require Import Base Glob.
Open Scope N_scope.

Lemma bytes_eqb_spec a : forall b, bytes_eqb a b = true <-> a = b.
Proof.
  induction a as [|x a IH]; intros [|y b]; cbn [bytes_eqb]; try (split; [discriminate|congruence]); try tauto.
  rewrite andb_true_iff, N.eqb_eq, IH. split; [intros [-> ->]; reflexivity|intros H; inversion H; auto].
Qed.
Lemma bytes_eqb_refl a : bytes_eqb a a = true. Proof. apply bytes_eqb_spec. reflexivity. Qed.

(* well-formed trees: no directory lists a name twice (as os.ReadDir guarantees) *)
Inductive wf : gnode -> Prop :=
| wf_file : wf GFile
| wf_dir cs : NoDup (map fst cs) -> (forall n c, In (n, c) cs -> wf c) -> wf (GDir cs).

Lemma child_In cs n c : NoDup (map fst cs) -> (child cs n = Some c <-> In (n, c) cs).
Proof.
  induction cs as [|[m d] cs IH]; intros ND; cbn [child In]; [split; [discriminate|tauto]|].
  cbn [map fst] in ND. apply NoDup_cons_iff in ND. destruct ND as [Nin ND].
  destruct (bytes_eqb m n) eqn:E.
  - apply bytes_eqb_spec in E. subst m. split.
    + intros H. inversion H. left. reflexivity.
    + intros [H|H]; [inversion H; reflexivity|]. exfalso. apply Nin. apply (in_map fst) in H. exact H.
  - rewrite (IH ND). split; [tauto|]. intros [H|H]; [|exact H]. inversion H; subst. rewrite bytes_eqb_refl in E. discriminate.
Qed.

(* induction over trees *)
Fixpoint gnode_ind2 (P : gnode -> Prop) (Hf : P GFile)
  (Hd : forall cs, (forall n c, In (n, c) cs -> P c) -> P (GDir cs)) (t : gnode) : P t :=
  match t with
  | GFile => Hf
  | GDir cs =>
    Hd cs ((fix go (l : list (sname * gnode)) : forall n c, In (n, c) l -> P c :=
              match l with
              | [] => fun n c H => match H with end
              | (m, d) :: r => fun n c H =>
                  match H with
                  | or_introl E => match E in _ = y return P (snd y) with eq_refl => gnode_ind2 P Hf Hd d end
                  | or_intror H' => go r n c H'
                  end
              end) cs)
  end.

Lemma lookup_app t : forall a b, lookup t (a ++ b) = match lookup t a with Some c => lookup c b | None => None end.
Proof.
  intros a. revert t. induction a as [|n a IH]; intros t b; cbn [app lookup]; [reflexivity|].
  destruct t as [|cs]; [reflexivity|]. destruct (child cs n); [apply IH|reflexivity].
Qed.

Definition NoSkip (fn : cbk) : Prop := forall p d, snd (fn p d) = false.

Section Walk.
Variable fn : cbk.
Hypothesis noskip : NoSkip fn.

Lemma fn_eta p d : fn p d = (fst (fn p d), false).
Proof. specialize (noskip p d). destruct (fn p d) as [o s]. cbn in *. subst. reflexivity. Qed.

(* the listing loop *)
Lemma dir_loop_spec pat cf dir es x :
  In x (dir_loop pat cf dir fn es) <->
  exists n c, In (n, c) es /\ segmatch pat n = true /\ (cf = true \/ is_dir c = true) /\ In x (fst (fn (dir ++ [n]) (is_dir c))).
Proof.
  induction es as [|[n c] es IH]; cbn [dir_loop].
  - split; [intros []|intros (n & c & [] & _)].
  - destruct (segmatch pat n && (cf || is_dir c)) eqn:E.
    + rewrite (fn_eta (dir ++ [n]) (is_dir c)). rewrite in_app_iff, IH. apply andb_true_iff in E. destruct E as [E1 E2].
      apply orb_true_iff in E2. split.
      * intros [H|(n' & c' & H1 & H2)]; [exists n, c; repeat split; auto; left; reflexivity|exists n', c'; split; [right; exact H1|exact H2]].
      * intros (n' & c' & [H|H] & H2); [inversion H; subst; left; apply H2|right; exists n', c'; split; [exact H|exact H2]].
    + rewrite IH. split.
      * intros (n' & c' & H1 & H2). exists n', c'. split; [right; exact H1|exact H2].
      * intros (n' & c' & [H|H] & H2 & H3 & H4); [|exists n', c'; auto]. inversion H; subst. exfalso.
        rewrite H2 in E. cbn [andb] in E. destruct H3 as [H3|H3]; rewrite H3 in E; [discriminate|rewrite orb_true_r in E; discriminate].
Qed.

(* the recursive ** walk: everything strictly below t (files only if canFiles) *)
Lemma ds_walk_spec cf t : wf t -> forall dir x,
  In x (ds_walk cf fn dir t) <->
  exists q c, q <> [] /\ lookup t q = Some c /\ (cf = true \/ is_dir c = true) /\ In x (fst (fn (dir ++ q) (is_dir c))).
Proof.
  induction t as [|cs IHc] using gnode_ind2; intros W dir x.
  - cbn [ds_walk]. split; [intros []|]. intros (q & c & Hq & L & _). destruct q; [congruence|discriminate].
  - inversion W as [|? ND Wc]; subst. cbn [ds_walk].
    (* generalise over the part of the listing still to be visited *)
    assert (G : forall l, incl l cs ->
      (In x (ds_loop (fun p c => ds_walk cf fn p c) cf fn dir l) <->
       exists n c, In (n, c) l /\
         ((cf = true \/ is_dir c = true) /\ In x (fst (fn (dir ++ [n]) (is_dir c))) \/
          exists q c', q <> [] /\ lookup c q = Some c' /\ (cf = true \/ is_dir c' = true) /\ In x (fst (fn ((dir ++ [n]) ++ q) (is_dir c')))))).
    { induction l as [|[n c] l IHl]; intros Hl; cbn [ds_loop].
      - split; [intros []|intros (n & c & [] & _)].
      - assert (Hin : In (n, c) cs) by (apply Hl; left; reflexivity).
        assert (Hl' : incl l cs) by (intros y Hy; apply Hl; right; exact Hy).
        specialize (IHl Hl').
        destruct (is_dir c) eqn:Dc.
        + rewrite (fn_eta (dir ++ [n]) true). rewrite !in_app_iff, IHl, (IHc n c Hin (Wc n c Hin)). split.
          * intros [H|[H|(n' & c' & H1 & H2)]].
            -- exists n, c. split; [left; reflexivity|]. left. rewrite Dc. auto.
            -- exists n, c. split; [left; reflexivity|]. right. exact H.
            -- exists n', c'. split; [right; exact H1|exact H2].
          * intros (n' & c' & [H|H] & H2).
            -- inversion H; subst n' c'. rewrite Dc in H2. destruct H2 as [[_ H2]|H2]; [left; exact H2|right; left; exact H2].
            -- right. right. exists n', c'. auto.
        + destruct cf eqn:Cf.
          * rewrite (fn_eta (dir ++ [n]) false). rewrite in_app_iff, IHl. split.
            -- intros [H|(n' & c' & H1 & H2)]; [exists n, c; split; [left; reflexivity|]; left; rewrite Dc; auto|exists n', c'; split; [right; exact H1|exact H2]].
            -- intros (n' & c' & [H|H] & H2); [|right; exists n', c'; auto]. inversion H; subst n' c'. rewrite Dc in H2.
               destruct H2 as [[_ H2]|(q & c' & Hq & L & _)]; [left; exact H2|]. destruct c; [|discriminate]. destruct q; [congruence|discriminate].
          * rewrite IHl. split.
            -- intros (n' & c' & H1 & H2). exists n', c'. split; [right; exact H1|exact H2].
            -- intros (n' & c' & [H|H] & H2); [|exists n', c'; auto]. inversion H; subst n' c'. exfalso. rewrite Dc in H2.
               destruct H2 as [[[H2|H2] _]|(q & c' & Hq & L & _)]; try discriminate. destruct c; [|discriminate]. destruct q; [congruence|discriminate]. }
    rewrite (G cs (incl_refl cs)). split.
    + intros (n & c & Hin & [[H1 H2]|(q & c' & Hq & L & H1 & H2)]).
      * exists [n], c. split; [discriminate|]. cbn [lookup]. rewrite (proj2 (child_In cs n c ND) Hin). auto.
      * exists (n :: q), c'. split; [discriminate|]. cbn [lookup]. rewrite (proj2 (child_In cs n c ND) Hin).
        rewrite <- app_assoc in H2. auto.
    + intros (q & c' & Hq & L & H1 & H2). destruct q as [|n q]; [congruence|]. cbn [lookup] in L.
      destruct (child cs n) as [c|] eqn:Ec; [|discriminate]. apply (child_In cs n c ND) in Ec.
      exists n, c. split; [exact Ec|]. destruct q as [|m q].
      * left. cbn [lookup] in L. inversion L; subst c'. auto.
      * right. exists (m :: q), c'. split; [discriminate|]. rewrite <- app_assoc. auto.
Qed.

End Walk.

(* ---------- the reference matcher ---------- *)
Lemma tmatch_double ps t p : tmatch (SDouble :: ps) t p =
  match t with
  | GFile => false
  | GDir cs =>
    tmatch ps t p ||
    match p with
    | [] => false
    | n :: r => match child cs n with
                | Some c => if is_nil_b ps && is_nil_b r then true else tmatch (SDouble :: ps) c r
                | None => false
                end
    end
  end.
Proof. destruct p; destruct t; reflexivity. Qed.

Lemma tmatch_pat a ps t p : tmatch (SPat a :: ps) t p =
  match p, t with
  | n :: r, GDir cs => segmatch a n && match child cs n with Some c => tmatch ps c r | None => false end
  | _, _ => false
  end.
Proof. reflexivity. Qed.

Opaque tmatch.

Lemma tmatch_nil t p : tmatch [] t p = is_nil_b p.
Proof. Transparent tmatch. reflexivity. Opaque tmatch. Qed.

(* whatever matches exists *)
Lemma tmatch_lookup pat : forall t p, tmatch pat t p = true -> exists c, lookup t p = Some c.
Proof.
  induction pat as [|s ps IH]; intros t p H.
  - rewrite tmatch_nil in H. destruct p; [|discriminate]. exists t. reflexivity.
  - destruct s as [a|].
    + rewrite tmatch_pat in H. destruct p as [|n r]; [discriminate|]. destruct t as [|cs]; [discriminate|].
      apply andb_true_iff in H. destruct H as [_ H]. cbn [lookup]. destruct (child cs n) as [c|]; [|discriminate]. apply IH. exact H.
    + revert t H. induction p as [|n r IHp]; intros t H; rewrite tmatch_double in H; destruct t as [|cs]; try discriminate.
      * exists (GDir cs). reflexivity.
      * apply orb_true_iff in H. destruct H as [H|H]; [apply IH; exact H|]. cbn [lookup].
        destruct (child cs n) as [c|]; [|discriminate].
        destruct (is_nil_b ps && is_nil_b r) eqn:E; [|apply IHp; exact H].
        apply andb_true_iff in E. destruct E as [_ E]. destruct r; [|discriminate]. exists c. reflexivity.
Qed.

(* a lone ** accepts everything below a directory, the directory itself included *)
Lemma tmatch_double_only : forall q t, tmatch [SDouble] t q = true <-> is_dir t = true /\ exists c, lookup t q = Some c.
Proof.
  induction q as [|n r IH]; intros t; rewrite tmatch_double; destruct t as [|cs]; cbn [is_dir lookup].
  - split; [discriminate|intros [H _]; discriminate].
  - rewrite tmatch_nil. cbn. split; eauto.
  - split; [discriminate|intros [H _]; discriminate].
  - rewrite tmatch_nil. cbn [is_nil_b orb andb]. destruct (child cs n) as [c|]; [|split; [discriminate|intros [_ [c H]]; discriminate]].
    destruct r as [|m r]; cbn [is_nil_b].
    + split; [intros _; split; [reflexivity|exists c; reflexivity]|reflexivity].
    + rewrite IH. split; [intros [_ H]; auto|intros [_ (c' & H)]]. split; [|eauto].
      cbn [lookup] in H. destruct c; [discriminate|reflexivity].
Qed.

(* splitting off the last segment of a pattern *)
Lemma tmatch_snoc s : forall pre t p,
  tmatch (pre ++ [s]) t p = true <->
  exists d q cs, p = d ++ q /\ tmatch pre t d = true /\ lookup t d = Some (GDir cs) /\ tmatch [s] (GDir cs) q = true.
Proof.
  assert (Single : forall t p, tmatch [s] t p = true -> exists cs, t = GDir cs).
  { intros t p H. destruct s; [rewrite tmatch_pat in H; destruct p; [discriminate|]; destruct t; [discriminate|eauto]
                             |rewrite tmatch_double in H; destruct t; [discriminate|eauto]]. }
  induction pre as [|a pre IH]; intros t p; cbn [app].
  - split.
    + intros H. destruct (Single t p H) as (cs & ->). exists [], p, cs. rewrite tmatch_nil. auto.
    + intros (d & q & cs & -> & Hd & L & H). rewrite tmatch_nil in Hd. destruct d; [|discriminate]. cbn [lookup] in L. inversion L; subst. exact H.
  - destruct a as [a|].
    + rewrite tmatch_pat. split.
      * intros H. destruct p as [|n r]; [discriminate|]. destruct t as [|cs0]; [discriminate|].
        apply andb_true_iff in H. destruct H as [Hs H]. destruct (child cs0 n) as [c|] eqn:Ec; [|discriminate].
        apply IH in H. destruct H as (d & q & cs & -> & Hd & L & H). exists (n :: d), q, cs. split; [reflexivity|].
        rewrite tmatch_pat, Hs, Ec. cbn [lookup]. rewrite Ec. auto.
      * intros (d & q & cs & -> & Hd & L & H). rewrite tmatch_pat in Hd. destruct d as [|n d]; [discriminate|]. destruct t as [|cs0]; [discriminate|].
        apply andb_true_iff in Hd. destruct Hd as [Hs Hd]. cbn [app]. rewrite Hs. cbn [andb].
        destruct (child cs0 n) as [c|] eqn:Ec; [|discriminate]. cbn [lookup] in L. rewrite Ec in L.
        apply IH. exists d, q, cs. auto.
    + (* ** in front: induction along the path *)
      assert (NN : is_nil_b (pre ++ [s]) = false) by (destruct pre; reflexivity).
      revert t. induction p as [|n r IHp]; intros t; rewrite tmatch_double; destruct t as [|cs0].
      * split; [discriminate|]. intros (d & q & cs & _ & Hd & _). rewrite tmatch_double in Hd. discriminate.
      * rewrite orb_false_r. split.
        -- intros H. apply IH in H. destruct H as (d & q & cs & E & Hd & L & H). exists d, q, cs. split; [exact E|].
           split; [rewrite tmatch_double, Hd; reflexivity|auto].
        -- intros (d & q & cs & E & Hd & L & H). symmetry in E. apply app_eq_nil in E. destruct E as [-> ->].
           apply IH. exists [], [], cs. rewrite tmatch_double in Hd. rewrite orb_false_r in Hd. auto.
      * split; [discriminate|]. intros (d & q & cs & _ & Hd & _). rewrite tmatch_double in Hd. discriminate.
      * rewrite NN. cbn [andb]. split.
        -- intros H. apply orb_true_iff in H. destruct H as [H|H].
           ++ apply IH in H. destruct H as (d & q & cs & E & Hd & L & H). exists d, q, cs. split; [exact E|].
              split; [rewrite tmatch_double, Hd; reflexivity|auto].
           ++ destruct (child cs0 n) as [c|] eqn:Ec; [|discriminate]. apply IHp in H.
              destruct H as (d & q & cs & -> & Hd & L & H). exists (n :: d), q, cs. split; [reflexivity|].
              split; [|split; [cbn [lookup]; rewrite Ec; exact L|exact H]].
              rewrite tmatch_double, Ec. destruct (is_nil_b pre && is_nil_b d); [apply orb_true_r|]. rewrite Hd. apply orb_true_r.
        -- intros (d & q & cs & E & Hd & L & H). rewrite tmatch_double in Hd. apply orb_true_iff in Hd. destruct Hd as [Hd|Hd].
           ++ apply orb_true_iff. left. apply IH. exists d, q, cs. auto.
           ++ destruct d as [|m d]; [discriminate|]. cbn [app] in E. inversion E; subst m r. clear E.
              apply orb_true_iff. right. destruct (child cs0 n) as [c|] eqn:Ec; [|discriminate].
              cbn [lookup] in L. rewrite Ec in L. apply IHp. exists d, q, cs. split; [reflexivity|]. split; [|auto].
              destruct (is_nil_b pre && is_nil_b d) eqn:Sp; [|exact Hd].
              apply andb_true_iff in Sp. destruct Sp as [Sp1 Sp2]. destruct pre; [|discriminate]. destruct d; [|discriminate].
              cbn [lookup] in L. inversion L; subst c. apply tmatch_double_only. split; [reflexivity|exists (GDir cs); reflexivity].
Qed.

(* ---------- literal segments ---------- *)
Lemma ptoks_f_nometa a : has_meta a = false -> forall fuel, (length a < fuel)%nat -> ptoks_f fuel a = Some (map PLit a).
Proof.
  induction a as [|c a IH]; intros Hm fuel Hf; (destruct fuel as [|fuel]; [inversion Hf|]); cbn [ptoks_f map]; [reflexivity|].
  cbn [has_meta existsb] in Hm. apply orb_false_iff in Hm. destruct Hm as [Hc Hm].
  unfold is_meta in Hc. rewrite !orb_false_iff in Hc. destruct Hc as ((((C1 & C2) & C3) & C4) & C5).
  cbn [length] in Hf. rewrite (IH Hm fuel) by (apply Nat.succ_lt_mono; exact Hf).
  rewrite C1, C2, C3, C4, C5. reflexivity.
Qed.
Lemma tokmatch_lits a : forall n, tokmatch (map PLit a) n = true <-> n = a.
Proof.
  induction a as [|c a IH]; intros n; cbn [map tokmatch].
  - destruct n; cbn; split; congruence.
  - destruct n as [|x n]; [split; [discriminate|congruence]|].
    rewrite andb_true_iff, N.eqb_eq, IH. split; [intros [-> ->]; reflexivity|intros H; inversion H; auto].
Qed.
Lemma segmatch_nometa a : has_meta a = false -> forall n, segmatch a n = true <-> n = a.
Proof.
  intros Hm n. unfold segmatch, ptoks. rewrite (ptoks_f_nometa a Hm) by (apply Nat.lt_succ_diag_r). apply tokmatch_lits.
Qed.

Lemma tmatch_lits : forall pre dir, lits pre = Some dir -> forall t d,
  tmatch pre t d = true <-> d = dir /\ exists c, lookup t dir = Some c.
Proof.
  induction pre as [|s pre IH]; intros dir HL t d; cbn [lits] in HL.
  - inversion HL; subst. rewrite tmatch_nil. destruct d; cbn; split; try discriminate; eauto; intros [H _]; discriminate.
  - destruct s as [a|]; [|discriminate]. destruct (has_meta a) eqn:Hm; [discriminate|].
    destruct (lits pre) as [q|] eqn:Lq; [|discriminate]. inversion HL; subst dir. rewrite tmatch_pat.
    destruct d as [|n r]; [split; [discriminate|intros [H _]; discriminate]|].
    destruct t as [|cs]; [split; [discriminate|intros [_ (c & H)]; discriminate]|].
    rewrite andb_true_iff, (segmatch_nometa a Hm). cbn [lookup]. split.
    + intros [-> H]. destruct (child cs a) as [c|]; [|discriminate]. apply (IH q eq_refl) in H. destruct H as [-> H]. auto.
    + intros [E (c & H)]. inversion E; subst n r. split; [reflexivity|]. destruct (child cs a) as [c'|]; [|discriminate].
      apply (IH q eq_refl). eauto.
Qed.

Lemma lits_snoc : forall pre dir a, lits pre = Some dir -> has_meta a = false -> lits (pre ++ [SPat a]) = Some (dir ++ [a]).
Proof.
  induction pre as [|s pre IH]; intros dir a HL Hm; cbn [lits app] in *.
  - inversion HL; subst. rewrite Hm. reflexivity.
  - destruct s as [b|]; [|discriminate]. destruct (has_meta b); [discriminate|]. destruct (lits pre) as [q|]; [|discriminate].
    inversion HL; subst. rewrite (IH q a eq_refl Hm). reflexivity.
Qed.

Lemma wf_lookup : forall p t c, wf t -> lookup t p = Some c -> wf c.
Proof.
  induction p as [|n r IH]; intros t c W L; cbn [lookup] in L; [inversion L; subst; exact W|].
  destruct t as [|cs]; [discriminate|]. destruct (child cs n) as [c'|] eqn:Ec; [|discriminate].
  inversion W as [|? ND Wc]; subst. apply (child_In cs n c' ND) in Ec. apply (IH c' c (Wc n c' Ec) L).
Qed.

Section Walk2.
Variable root : gnode.
Hypothesis wf_root : wf root.

(* globDirWalk: one pattern segment applied below the directory `dir` *)
Lemma glob_dir_walk_spec fn (NS : NoSkip fn) dir s cf x :
  In x (glob_dir_walk root dir s cf fn) <->
  exists cs q c, lookup root dir = Some (GDir cs) /\ lookup (GDir cs) q = Some c /\ tmatch [s] (GDir cs) q = true /\
                 (cf = true \/ is_dir c = true) /\ In x (fst (fn (dir ++ q) (is_dir c))).
Proof.
  unfold glob_dir_walk. destruct (lookup root dir) as [[|cs]|] eqn:L.
  - split; [intros []|intros (cs & q & c & H & _); discriminate].
  - assert (W : wf (GDir cs)) by (eapply wf_lookup; eauto). inversion W as [|? ND Wc]; subst.
    destruct s as [a|].
    + rewrite (dir_loop_spec fn NS). split.
      * intros (n & c & Hin & Hs & Hc & Hx). exists cs, [n], c. split; [reflexivity|]. cbn [lookup].
        rewrite (proj2 (child_In cs n c ND) Hin). split; [reflexivity|]. rewrite tmatch_pat, Hs, (proj2 (child_In cs n c ND) Hin), tmatch_nil. auto.
      * intros (cs' & q & c & E & Lq & Hm & Hc & Hx). inversion E; subst cs'. rewrite tmatch_pat in Hm.
        destruct q as [|n r]; [discriminate|]. apply andb_true_iff in Hm. destruct Hm as [Hs Hm].
        cbn [lookup] in Lq. destruct (child cs n) as [c'|] eqn:Ec; [|discriminate]. rewrite tmatch_nil in Hm. destruct r; [|discriminate].
        cbn [lookup] in Lq. inversion Lq; subst c'. exists n, c. split; [apply (child_In cs n c ND); exact Ec|auto].
    + rewrite (fn_eta fn NS dir true). rewrite in_app_iff, (ds_walk_spec fn NS cf (GDir cs) W). split.
      * intros [H|(q & c & Hq & Lq & Hc & Hx)].
        -- exists cs, [], (GDir cs). rewrite app_nil_r. split; [reflexivity|]. split; [reflexivity|].
           split; [apply tmatch_double_only; split; [reflexivity|exists (GDir cs); reflexivity]|]. split; [right; reflexivity|exact H].
        -- exists cs, q, c. split; [reflexivity|]. split; [exact Lq|].
           split; [apply tmatch_double_only; split; [reflexivity|eauto]|]. split; [exact Hc|exact Hx].
      * intros (cs' & q & c & E & Lq & Hm & Hc & Hx). inversion E; subst cs'. destruct q as [|n r].
        -- cbn [lookup] in Lq. inversion Lq; subst c. rewrite app_nil_r in Hx. left. exact Hx.
        -- right. exists (n :: r), c. split; [discriminate|auto].
  - split; [intros []|intros (cs & q & c & H & _); discriminate].
Qed.

(* doGlobWalk: the whole pattern, given last segment first *)
Lemma do_glob_walk_spec : forall rpat fn first, NoSkip fn -> rpat <> [] -> (first = true \/ lits (rev rpat) = None) -> forall x,
  In x (do_glob_walk root rpat first fn) <->
  exists p c, lookup root p = Some c /\ tmatch (rev rpat) root p = true /\ (first = true \/ is_dir c = true) /\ In x (fst (fn p (is_dir c))).
Proof.
  induction rpat as [|last rdir IH]; intros fn first NS NE HF x; [congruence|]. cbn [do_glob_walk rev].
  destruct (lits (rev rdir)) as [dir|] eqn:Ld.
  - destruct (match last with SPat p => if has_meta p then None else Some p | SDouble => None end) as [name|] eqn:Ename.
    + (* no meta character anywhere *)
      destruct last as [a|]; [|discriminate]. destruct (has_meta a) eqn:Hm; [discriminate|]. inversion Ename; subst name.
      assert (F : first = true).
      { destruct HF as [H|H]; [exact H|]. cbn [rev] in H. rewrite (lits_snoc _ _ _ Ld Hm) in H. discriminate. }
      split.
      * intros H. destruct (lookup root (dir ++ [a])) as [c|] eqn:L; [|contradiction]. exists (dir ++ [a]), c.
        split; [exact L|]. split; [|auto]. apply (tmatch_lits _ _ (lits_snoc _ _ _ Ld Hm)). eauto.
      * intros (p & c & L & Hm' & _ & Hx). apply (tmatch_lits _ _ (lits_snoc _ _ _ Ld Hm)) in Hm'. destruct Hm' as [-> _].
        rewrite L. exact Hx.
    + rewrite (glob_dir_walk_spec fn NS). split.
      * intros (cs & q & c & L & Lq & Hm & Hc & Hx). exists (dir ++ q), c. split; [rewrite lookup_app, L; exact Lq|].
        split; [|auto]. apply tmatch_snoc. exists dir, q, cs. repeat split; auto. apply (tmatch_lits _ _ Ld). eauto.
      * intros (p & c & L & Hm & Hc & Hx). apply tmatch_snoc in Hm. destruct Hm as (d & q & cs & -> & Hd & Ldd & Hq).
        apply (tmatch_lits _ _ Ld) in Hd. destruct Hd as [-> _]. exists cs, q, c. rewrite lookup_app, Ldd in L. auto.
  - (* the directory part has meta characters: walk it first, directories only *)
    assert (NEd : rdir <> []) by (intros ->; cbn in Ld; discriminate).
    set (fn' := fun (p : gpath) (_ : bool) => (glob_dir_walk root p last first fn, false)).
    assert (NS' : NoSkip fn') by (intros p d; reflexivity).
    rewrite (IH fn' false NS' NEd (or_intror eq_refl)). split.
    + intros (d & cd & L & Hd & Hdir & Hx). destruct Hdir as [Hdir|Hdir]; [discriminate|]. cbn [fn' fst] in Hx.
      apply (glob_dir_walk_spec fn NS) in Hx. destruct Hx as (cs & q & c & Ld' & Lq & Hq & Hc & Hx).
      exists (d ++ q), c. split; [rewrite lookup_app, Ld'; exact Lq|]. split; [|auto]. apply tmatch_snoc. exists d, q, cs. auto.
    + intros (p & c & L & Hm & Hc & Hx). apply tmatch_snoc in Hm. destruct Hm as (d & q & cs & -> & Hd & Ldd & Hq).
      exists d, (GDir cs). split; [exact Ldd|]. split; [exact Hd|]. split; [right; reflexivity|]. cbn [fn' fst].
      apply (glob_dir_walk_spec fn NS). exists cs, q, c. rewrite lookup_app, Ldd in L. auto.
Qed.

(* spok's (repaired) callback never asks to skip *)
Lemma spok_cb_noskip : NoSkip spok_cb.
Proof. intros p d. unfold spok_cb. destruct (hidden p); reflexivity. Qed.

(* C05: the expansion consists of exactly the entries accepted by the reference matcher whose path does not begin with a dot *)
Theorem expand_spec pat x : pat <> [] ->
  In x (expand root pat) <-> tmatch pat root x = true /\ hidden x = false.
Proof.
  intros NE. unfold expand, expand_with.
  assert (NEr : rev pat <> []) by (intros H; apply NE; rewrite <- (rev_involutive pat), H; reflexivity).
  rewrite (do_glob_walk_spec (rev pat) spok_cb true spok_cb_noskip NEr (or_introl eq_refl)). rewrite rev_involutive. split.
  - intros (p & c & L & Hm & _ & Hx). unfold spok_cb in Hx. destruct (hidden p) eqn:Hh; [contradiction|].
    destruct Hx as [<-|[]]. auto.
  - intros [Hm Hh]. destruct (tmatch_lookup pat root x Hm) as (c & L). exists x, c. repeat split; auto.
    unfold spok_cb. rewrite Hh. left. reflexivity.
Qed.

End Walk2.

(* the list of all paths of a tree *)
Lemma all_paths_spec t : wf t -> forall p, In p (all_paths t) <-> exists c, lookup t p = Some c.
Proof.
  induction t as [|cs IHc] using gnode_ind2; intros W p.
  - cbn [all_paths In]. split; [intros [<-|[]]; exists GFile; reflexivity|]. intros (c & L). destruct p; [left; reflexivity|discriminate].
  - inversion W as [|? ND Wc]; subst. cbn [all_paths In].
    assert (G : forall l, incl l cs -> forall q,
      In q ((fix go (cs0 : list (sname * gnode)) : list gpath :=
               match cs0 with [] => [] | (n, c) :: rest => map (cons n) (all_paths c) ++ go rest end) l) <->
      exists n r c, q = n :: r /\ In (n, c) l /\ In r (all_paths c)).
    { induction l as [|[n c] l IHl]; intros Hl q.
      - split; [intros []|intros (n & r & c & _ & [] & _)].
      - rewrite in_app_iff, in_map_iff, (IHl (fun y Hy => Hl y (or_intror Hy))). split.
        + intros [(r & <- & Hr)|(n' & r & c' & -> & Hin & Hr)]; [exists n, r, c; split; [reflexivity|split; [left; reflexivity|exact Hr]]
                                                             |exists n', r, c'; split; [reflexivity|split; [right; exact Hin|exact Hr]]].
        + intros (n' & r & c' & -> & [H|H] & Hr); [inversion H; subst; left; exists r; auto|right; exists n', r, c'; auto]. }
    rewrite (G cs (incl_refl cs)). split.
    + intros [<-|(n & r & c & -> & Hin & Hr)]; [exists (GDir cs); reflexivity|].
      apply (IHc n c Hin (Wc n c Hin)) in Hr. destruct Hr as (c' & L). exists c'. cbn [lookup].
      rewrite (proj2 (child_In cs n c ND) Hin). exact L.
    + intros (c' & L). destruct p as [|n r]; [left; reflexivity|right]. cbn [lookup] in L.
      destruct (child cs n) as [c|] eqn:Ec; [|discriminate]. apply (child_In cs n c ND) in Ec.
      exists n, r, c. split; [reflexivity|]. split; [exact Ec|]. apply (IHc n c Ec (Wc n c Ec)). eauto.
Qed.

(* C05, in terms of the executable specification: same members as "filter the full walk with the reference matcher" *)
Theorem expand_exact root pat : wf root -> pat <> [] -> forall x, In x (expand root pat) <-> In x (glob_spec root pat).
Proof.
  intros W NE x. rewrite (expand_spec root W pat x NE). unfold glob_spec. rewrite filter_In, andb_true_iff, negb_true_iff, (all_paths_spec root W).
  split; [intros [H1 H2]; split; [apply (tmatch_lookup pat root x H1)|auto]|tauto].
Qed.

(* ---------- whole patterns: alternation expanded, then split into segments ---------- *)
Lemma split_slash_nonempty cur p : split_slash cur p <> [].
Proof. revert cur; induction p as [|c r IH]; intros cur; cbn [split_slash]; [discriminate|]. destruct (c =? 47); [discriminate|apply IH]. Qed.
Lemma parse_pattern_nonempty p : parse_pattern p <> [].
Proof. unfold parse_pattern. pose proof (split_slash_nonempty [] p). destruct (split_slash [] p); [contradiction|discriminate]. Qed.

(* C05 for a pattern as written in the spokfile: an entry is reported iff one of the alternatives of the pattern matches its
   relative path (reference matcher) and the path does not begin with a dot *)
Theorem expand_pat_spec root p x : wf root ->
  (In x (expand_pat root p) <->
   exists q, In q (expand_alts (S (length p)) p) /\ tmatch (parse_pattern q) root x = true /\ hidden x = false).
Proof.
  intros W. unfold expand_pat. rewrite in_flat_map. split.
  - intros (q & Hq & Hx). exists q. split; [exact Hq|]. apply (expand_spec root W (parse_pattern q) x (parse_pattern_nonempty q)). exact Hx.
  - intros (q & Hq & Hx). exists q. split; [exact Hq|]. apply (expand_spec root W (parse_pattern q) x (parse_pattern_nonempty q)). exact Hx.
Qed.

Theorem expand_pat_exact root p : wf root -> forall x, In x (expand_pat root p) <-> In x (glob_spec_pat root p).
Proof.
  intros W x. unfold expand_pat, glob_spec_pat. rewrite !in_flat_map. split; intros (q & Hq & Hx); exists q; (split; [exact Hq|]);
    apply (expand_exact root (parse_pattern q) W (parse_pattern_nonempty q)); exact Hx.
Qed.

(* a pattern without braces is its own only alternative *)
Lemma find_open_none p : forall pre, existsb (fun c => c =? 123) p = false -> find_open p pre = None.
Proof. induction p as [|c r IH]; intros pre H; cbn [find_open]; [reflexivity|]. cbn [existsb] in H. apply orb_false_iff in H. destruct H as [-> H]. apply IH. exact H. Qed.
Lemma expand_alts_plain p fuel : existsb (fun c => c =? 123) p = false -> expand_alts (S fuel) p = [p].
Proof. intros H. cbn [expand_alts]. rewrite (find_open_none p [] H). reflexivity. Qed.
