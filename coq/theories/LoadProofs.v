(* Proofs about loading (file.New / task.New): classification of dependencies and outputs, variables in file order,
   no duplicate tasks. *)
From Spok Require Import Base Lexer Parser Paths Vars Load.
Open Scope N_scope.

(* ---- classification: every dependency (output) lands in exactly one list, by its kind, in order ---- *)
Theorem classify_complete root l a : In a l ->
  match a with
  | AIdent n => In n (idents_of l)
  | AString s => if is_glob s then In s (globs_of l) else In (join [root; s]) (files_of root l)
  end.
Proof.
  intros H. destruct a as [s|n].
  - destruct (is_glob s) eqn:G; unfold globs_of, files_of; apply in_flat_map; exists (AString s); (split; [exact H|]); rewrite G; left; reflexivity.
  - unfold idents_of. apply in_flat_map. exists (AIdent n). split; [exact H|left; reflexivity].
Qed.

Theorem classify_sound root l :
  (forall n, In n (idents_of l) -> In (AIdent n) l) /\
  (forall p, In p (globs_of l) -> In (AString p) l /\ is_glob p = true) /\
  (forall f, In f (files_of root l) -> exists s, In (AString s) l /\ is_glob s = false /\ f = join [root; s]).
Proof.
  unfold idents_of, globs_of, files_of. split; [|split].
  - intros n H. apply in_flat_map in H. destruct H as ([s|m] & Hin & Hx); [destruct Hx|]. destruct Hx as [<-|[]]. exact Hin.
  - intros p H. apply in_flat_map in H. destruct H as ([s|m] & Hin & Hx); [|destruct Hx]. destruct (is_glob s) eqn:G; [|destruct Hx].
    destruct Hx as [<-|[]]. split; [exact Hin|exact G].
  - intros f H. apply in_flat_map in H. destruct H as ([s|m] & Hin & Hx); [|destruct Hx]. destruct (is_glob s) eqn:G; [destruct Hx|].
    destruct Hx as [<-|[]]. exists s. auto.
Qed.

(* a name in a dependency list is a task dependency whatever variables exist; a string without '*' is a file whatever
   other characters it contains *)
Theorem ident_is_task_dependency root vs doc name deps outs cmds t n :
  load_task root vs doc name deps outs cmds = Some t -> In (AIdent n) deps -> In n (lt_taskdeps t).
Proof.
  unfold load_task. destruct (expand_all vs cmds); [|discriminate]. intros H Hin. inversion H; subst; cbn [lt_taskdeps].
  exact (classify_complete root deps (AIdent n) Hin).
Qed.
Theorem string_without_star_is_a_file root vs doc name deps outs cmds t s :
  load_task root vs doc name deps outs cmds = Some t -> In (AString s) deps -> is_glob s = false ->
  In (join [root; s]) (lt_filedeps t) /\ ~ In s (lt_globdeps t).
Proof.
  unfold load_task. destruct (expand_all vs cmds); [|discriminate]. intros H Hin G. inversion H; subst; cbn [lt_filedeps lt_globdeps].
  split.
  - pose proof (classify_complete root deps (AString s) Hin) as C. cbn in C. rewrite G in C. exact C.
  - intros X. destruct (classify_sound root deps) as (_ & S & _). destruct (S s X) as [_ Y]. congruence.
Qed.
Theorem every_pattern_is_kept root vs doc name deps outs cmds t s :
  load_task root vs doc name deps outs cmds = Some t -> In (AString s) deps -> is_glob s = true -> In s (lt_globdeps t).
Proof.
  unfold load_task. destruct (expand_all vs cmds); [|discriminate]. intros H Hin G. inversion H; subst; cbn [lt_globdeps].
  pose proof (classify_complete root deps (AString s) Hin) as C. cbn in C. rewrite G in C. exact C.
Qed.

(* ---- variables ---- *)
Lemma lookup_set_same vs n v : lookup_var (set_var vs n v) n = Some v.
Proof.
  induction vs as [|[k x] r IH]; cbn [set_var lookup_var].
  - assert (E : bytes_eqb n n = true) by (clear; induction n as [|c n IH]; cbn; [reflexivity|rewrite N.eqb_refl; exact IH]). rewrite E. reflexivity.
  - destruct (bytes_eqb k n) eqn:E; cbn [lookup_var].
    + assert (E2 : bytes_eqb n n = true) by (clear; induction n as [|c n IH]; cbn; [reflexivity|rewrite N.eqb_refl; exact IH]). rewrite E2. reflexivity.
    + rewrite E. exact IH.
Qed.

Section L.
Variable cwd : bytes.
Variable exec : nat -> bytes -> option bytes.

Lemma load_nodes_app root a : forall k vs ts b,
  load_nodes cwd exec root k vs ts (a ++ b) =
  match load_nodes cwd exec root k vs ts a with LOk vs' ts' => load_nodes cwd exec root (k + length a)%nat vs' ts' b | LErr e => LErr e end.
Proof.
  induction a as [|n a IH]; intros k vs ts b; cbn [app load_nodes length]; [rewrite Nat.add_0_r; reflexivity|].
  replace (k + S (length a))%nat with (S k + length a)%nat by (rewrite Nat.add_succ_r; reflexivity).
  destruct n as [c|nm v|doc name deps outs cmds].
  - apply IH.
  - destruct (eval_rhs cwd exec k v); [apply IH|reflexivity].
  - destruct (load_task root vs doc name deps outs cmds); [|reflexivity]. destruct (has_ltask ts name); [reflexivity|apply IH].
Qed.

(* tasks already loaded stay, in order, as a prefix *)
Lemma load_nodes_grows root nodes : forall k vs ts vs' ts', load_nodes cwd exec root k vs ts nodes = LOk vs' ts' -> exists more, ts' = ts ++ more.
Proof.
  induction nodes as [|n r IH]; intros k vs ts vs' ts' H; cbn [load_nodes] in H.
  - inversion H. exists []. rewrite app_nil_r. reflexivity.
  - destruct n as [c|nm v|doc name deps outs cmds].
    + eapply IH; exact H.
    + destruct (eval_rhs cwd exec k v); [eapply IH; exact H|discriminate].
    + destruct (load_task root vs doc name deps outs cmds) as [t|]; [|discriminate]. destruct (has_ltask ts name); [discriminate|].
      destruct (IH _ _ _ _ _ H) as (more & ->). exists (t :: more). rewrite <- app_assoc. reflexivity.
Qed.

(* C13 "defined earlier": a task is built with exactly the variables that the part of the file before it defines, and
   it is built by task.New's rules *)
Theorem task_sees_earlier_vars root pre doc name deps outs cmds post vs ts :
  load cwd exec root (pre ++ NTask doc name deps outs cmds :: post) = LOk vs ts ->
  exists vs0 ts0 t, load cwd exec root pre = LOk vs0 ts0 /\ load_task root vs0 doc name deps outs cmds = Some t /\
                    In t ts /\ has_ltask ts0 name = false.
Proof.
  unfold load. rewrite load_nodes_app. destruct (load_nodes cwd exec root 0 [] [] pre) as [vs0 ts0|e]; [|discriminate].
  cbn [load_nodes]. destruct (load_task root vs0 doc name deps outs cmds) as [t|] eqn:Et; [|discriminate].
  destruct (has_ltask ts0 name) eqn:Hd; [discriminate|]. intros H. exists vs0, ts0, t. repeat split; auto.
  destruct (load_nodes_grows _ _ _ _ _ _ _ H) as (more & ->). apply in_or_app. left. apply in_or_app. right. left. reflexivity.
Qed.

(* C13 "evaluated in file order", for exec: the variable defined by statement number k through exec("c") holds the trimmed
   output of the execution made AT that statement - its own execution, whatever other statements with the same text printed *)
Theorem exec_var_is_its_own_execution root pre n c vs ts :
  load cwd exec root (pre ++ [NAssign n (RFunc k_exec [AString c])]) = LOk vs ts ->
  exists o, exec (length pre) c = Some o /\ lookup_var vs n = Some (trim o).
Proof.
  unfold load. rewrite load_nodes_app. destruct (load_nodes cwd exec root 0 [] [] pre) as [vs0 ts0|e]; [|discriminate].
  cbn [load_nodes eval_rhs string_args Nat.add]. change (bytes_eqb k_exec k_join) with false. change (bytes_eqb k_exec k_exec) with true. cbn iota.
  destruct (exec (length pre) c) as [o|] eqn:E; [|discriminate].
  intros H. inversion H; subst. exists o. split; [reflexivity|apply lookup_set_same].
Qed.

(* no two loaded tasks share a name *)
Lemma has_ltask_app ts t n : has_ltask (ts ++ [t]) n = has_ltask ts n || bytes_eqb (lt_name t) n.
Proof. unfold has_ltask. rewrite existsb_app. cbn [existsb]. rewrite orb_false_r. reflexivity. Qed.
Lemma bytes_eqb_eq a : forall b, bytes_eqb a b = true <-> a = b.
Proof.
  induction a as [|x a IH]; intros [|y b]; cbn [bytes_eqb]; try (split; [discriminate|congruence]); try tauto.
  rewrite andb_true_iff, N.eqb_eq, IH. split; [intros [-> ->]; reflexivity|intros H; inversion H; auto].
Qed.
Lemma has_ltask_false ts n : has_ltask ts n = false <-> ~ In n (map lt_name ts).
Proof.
  unfold has_ltask. split.
  - intros H Hin. apply in_map_iff in Hin. destruct Hin as (t & <- & Ht).
    assert (existsb (fun t0 => bytes_eqb (lt_name t0) (lt_name t)) ts = true) by (apply existsb_exists; exists t; split; [exact Ht|apply bytes_eqb_eq; reflexivity]).
    congruence.
  - intros H. destruct (existsb (fun t => bytes_eqb (lt_name t) n) ts) eqn:E; [|reflexivity].
    exfalso. apply H. apply existsb_exists in E. destruct E as (t & Ht & Eq). apply bytes_eqb_eq in Eq. subst n. apply in_map. exact Ht.
Qed.
Lemma load_task_name root vs doc name deps outs cmds t : load_task root vs doc name deps outs cmds = Some t -> lt_name t = name.
Proof. unfold load_task. destruct (expand_all vs cmds); [|discriminate]. intros H. inversion H. reflexivity. Qed.

Lemma NoDup_snoc (l : list bytes) x : NoDup l -> ~ In x l -> NoDup (l ++ [x]).
Proof.
  induction l as [|y l IH]; intros ND Hx; cbn [app]; [constructor; [intros []|constructor]|].
  inversion ND as [|? ? Hy ND']; subst. constructor.
  - intros Hin. apply in_app_or in Hin. destruct Hin as [Hin|[<-|[]]]; [exact (Hy Hin)|apply Hx; left; reflexivity].
  - apply IH; [exact ND'|]. intros Hin. apply Hx. right. exact Hin.
Qed.

Theorem loaded_tasks_distinct root nodes : forall k vs ts vs' ts',
  NoDup (map lt_name ts) -> load_nodes cwd exec root k vs ts nodes = LOk vs' ts' -> NoDup (map lt_name ts').
Proof.
  induction nodes as [|n r IH]; intros k vs ts vs' ts' ND H; cbn [load_nodes] in H.
  - inversion H; subst. exact ND.
  - destruct n as [c|nm v|doc name deps outs cmds].
    + eapply IH; eauto.
    + destruct (eval_rhs cwd exec k v); [eapply IH; eauto|discriminate].
    + destruct (load_task root vs doc name deps outs cmds) as [t|] eqn:Et; [|discriminate]. destruct (has_ltask ts name) eqn:Hd; [discriminate|].
      eapply IH; [|exact H]. rewrite map_app. cbn [map]. apply NoDup_snoc; [exact ND|].
      rewrite (load_task_name _ _ _ _ _ _ _ _ Et). apply has_ltask_false. exact Hd.
Qed.
End L.

(* outputs are sorted the same way: names of variables, file paths below the root, patterns *)
Theorem outputs_classified root vs doc name deps outs cmds t :
  load_task root vs doc name deps outs cmds = Some t ->
  lt_named t = idents_of outs /\ lt_fileouts t = files_of root outs /\ lt_globouts t = globs_of outs /\
  lt_taskdeps t = idents_of deps /\ lt_filedeps t = files_of root deps /\ lt_globdeps t = globs_of deps.
Proof. unfold load_task. destruct (expand_all vs cmds); [|discriminate]. intros H. inversion H. cbn. repeat split. Qed.

(* the commands of a loaded task are the template expansions of the written commands *)
Lemma expand_all_spec vs cmds cs : expand_all vs cmds = Some cs -> Forall2 (fun c o => expand_vars vs c = TOk o) cmds cs.
Proof.
  revert cs; induction cmds as [|c r IH]; intros cs H; cbn [expand_all] in H.
  - inversion H. constructor.
  - destruct (expand_vars vs c) as [o|] eqn:E; [|discriminate]. destruct (expand_all vs r) as [os|]; [|discriminate]. inversion H; subst.
    constructor; [exact E|apply IH; reflexivity].
Qed.
Theorem commands_expanded root vs doc name deps outs cmds t :
  load_task root vs doc name deps outs cmds = Some t -> Forall2 (fun c o => expand_vars vs c = TOk o) cmds (lt_cmds t).
Proof.
  unfold load_task. destruct (expand_all vs cmds) as [cs|] eqn:E; [|discriminate]. intros H. inversion H. cbn. apply expand_all_spec. exact E.
Qed.
