(* Go's lexical path functions on Unix (path/filepath): Clean, Join, Abs, as used by builtins.join,
   task.New and app.clean.  A path string is a list of bytes; '/' is 47, '.' is 46. *)
From Spok Require Import Base.
Open Scope N_scope.

Definition slash : N := 47.
Definition dot : bytes := [46].
Definition dotdot : bytes := [46; 46].

(* strings.Split(s, "/") *)
Fixpoint split_slash (acc : bytes) (s : bytes) : list bytes :=
  match s with
  | [] => [rev acc]
  | c :: r => if c =? slash then rev acc :: split_slash [] r else split_slash (c :: acc) r
  end.
Definition comps (s : bytes) : list bytes := split_slash [] s.

Definition is_rooted (s : bytes) : bool := match s with c :: _ => c =? slash | [] => false end.

(* the component loop of Clean; `stack` holds the output components, last first *)
Fixpoint clean_loop (rooted : bool) (stack : list bytes) (cs : list bytes) : list bytes :=
  match cs with
  | [] => rev stack
  | c :: r =>
    if is_nil_b c || bytes_eqb c dot then clean_loop rooted stack r
    else if bytes_eqb c dotdot then
      match stack with
      | top :: rest =>
        if bytes_eqb top dotdot then clean_loop rooted (c :: stack) r     (* only possible when not rooted *)
        else clean_loop rooted rest r
      | [] => if rooted then clean_loop rooted [] r else clean_loop rooted [c] r
      end
    else clean_loop rooted (c :: stack) r
  end.

Fixpoint join_slash (l : list bytes) : bytes :=
  match l with
  | [] => []
  | [x] => x
  | x :: r => x ++ [slash] ++ join_slash r
  end.

(* filepath.Clean *)
Definition clean (s : bytes) : bytes :=
  match s with
  | [] => dot
  | _ =>
    let rooted := is_rooted s in
    let out := clean_loop rooted [] (comps s) in
    if rooted then slash :: join_slash out
    else match out with [] => dot | _ => join_slash out end
  end.

(* filepath.Join: Clean of the elements from the first non-empty one on, joined by "/" ; "" if all are empty *)
Fixpoint join (elems : list bytes) : bytes :=
  match elems with
  | [] => []
  | e :: r => if is_nil_b e then join r else clean (join_slash elems)
  end.

(* filepath.Abs with the working directory as a parameter *)
Definition abs (cwd : bytes) (p : bytes) : bytes :=
  if is_rooted p then clean p else join [cwd; p].

(* builtins.join *)
Definition join_builtin (cwd : bytes) (parts : list bytes) : bytes := abs cwd (join parts).

(* a component list in normal form: no empty, "." or ".." component *)
Definition plain_comp (c : bytes) : bool := negb (is_nil_b c) && negb (bytes_eqb c dot) && negb (bytes_eqb c dotdot).
