(* Proofs about spokfile discovery (C17). *)
From Spok Require Import Base Find.
Open Scope nat_scope.

Lemma rpath_eqb_spec a : forall b, rpath_eqb a b = true <-> a = b.
Proof.
  induction a as [|x a IH]; intros [|y b]; cbn [rpath_eqb]; try (split; [discriminate|congruence]); try tauto.
  rewrite andb_true_iff, Nat.eqb_eq, IH. split; [intros [-> ->]; reflexivity|intros H; inversion H; auto].
Qed.

(* d is an ancestor-or-self of p: p = pre ++ d *)
Lemma in_ups d p : In d (ups p) <-> exists pre, p = pre ++ d.
Proof.
  induction p as [|x p IH]; cbn [ups In].
  - split; [intros [<-|[]]; exists []; reflexivity|]. intros ([|y pre] & E); [left; cbn in E; auto|discriminate].
  - rewrite IH. split.
    + intros [<-|(pre & ->)]; [exists []; reflexivity|exists (x :: pre); reflexivity].
    + intros ([|y pre] & E); [left; cbn in E; auto|]. right. inversion E; subst. exists pre. reflexivity.
Qed.

(* d is a proper ancestor of p *)
Lemma is_above_spec d p : is_above d p = true <-> exists y pre, p = (y :: pre) ++ d.
Proof.
  induction p as [|x p IH]; cbn [is_above]; [split; [discriminate|intros (y & pre & E); discriminate]|].
  rewrite orb_true_iff, rpath_eqb_spec, IH. split.
  - intros [->|(y & pre & ->)]; [exists x, []; reflexivity|exists x, (y :: pre); reflexivity].
  - intros (y & [|z pre] & E); inversion E; subst; [left; reflexivity|right; exists z, pre; reflexivity].
Qed.

Lemma above_ancestors d p stop : is_above p stop = true -> In d (ups p) -> is_above d stop = true.
Proof.
  intros H1 H2. apply is_above_spec in H1. destruct H1 as (y & pre & ->). apply in_ups in H2. destruct H2 as (pre' & ->).
  apply is_above_spec. exists y, (pre ++ pre'). cbn [app]. rewrite <- app_assoc. reflexivity.
Qed.

Lemma parent_ancestors_above d x p : In d (ups p) -> is_above d (x :: p) = true.
Proof. intros H. apply in_ups in H. destruct H as (pre & ->). apply is_above_spec. exists x, pre. reflexivity. Qed.

Section Find.
Variable fs : fsys.
Variable stop : rpath.

Definition has (d : rpath) : Prop := exists es, fs d = Some es /\ has_spokfile es = true.
Definition eligible (d : rpath) : Prop := is_above d stop = false.       (* d is not above the stop directory *)

(* "d' is strictly nearer to start than d" *)
Definition nearer (start d' d : rpath) : Prop := exists pre post, ups start = pre ++ d :: post /\ In d' pre.

Lemma nearer_cons x p d' d : nearer p d' d -> nearer (x :: p) d' d.
Proof. intros (pre & post & E & H). exists ((x :: p) :: pre), post. cbn [ups app]. rewrite E. split; [reflexivity|right; exact H]. Qed.

Theorem find_spec start :
  match find_spokfile fs stop start with
  | Found d => In d (ups start) /\ has d /\ eligible d /\ (forall d', nearer start d' d -> ~ has d')
  | NotFound => forall d, In d (ups start) -> eligible d -> ~ has d
  | ReadError d => In d (ups start) /\ eligible d /\ fs d = None
  end.
Proof.
  induction start as [|x parent IH]; cbn [find_spokfile].
  - unfold look. destruct (is_above [] stop) eqn:A.
    + intros d [<-|[]] E. unfold eligible in E. congruence.
    + destruct (fs []) as [es|] eqn:F; [|split; [left; reflexivity|split; [exact A|exact F]]].
      destruct (has_spokfile es) eqn:H.
      * split; [left; reflexivity|]. split; [exists es; auto|]. split; [exact A|].
        intros d' (pre & post & E & Hin). cbn [ups] in E. destruct pre as [|a pre]; [contradiction|]. destruct pre; discriminate.
      * assert (N : forall d, In d (ups []) -> eligible d -> ~ has d).
        { intros d [<-|[]] _ (es' & F' & H'). rewrite F in F'. inversion F'; subst. congruence. }
        destruct (rpath_eqb [] stop); exact N.
  - unfold look at 1. destruct (is_above (x :: parent) stop) eqn:A.
    + intros d Hd E. unfold eligible in E. rewrite (above_ancestors d _ _ A Hd) in E. discriminate.
    + destruct (fs (x :: parent)) as [es|] eqn:F; [|split; [left; reflexivity|split; [exact A|exact F]]].
      destruct (has_spokfile es) eqn:H.
      * split; [left; reflexivity|]. split; [exists es; auto|]. split; [exact A|].
        intros d' (pre & post & E & Hin). cbn [ups] in E. destruct pre as [|a pre]; [contradiction|].
        exfalso. inversion E as [[E1 E2]]. subst a.
        (* x :: parent would occur among its own proper ancestors *)
        assert (In (x :: parent) (ups parent)) by (rewrite E2; apply in_or_app; right; left; reflexivity).
        apply in_ups in H0. destruct H0 as (pre' & E'). apply (f_equal (@length seg)) in E'. rewrite app_length in E'. cbn [length] in E'. lia.
      * assert (Nh : ~ has (x :: parent)).
        { intros (es' & F' & H'). rewrite F in F'. inversion F'; subst. congruence. }
        destruct (rpath_eqb (x :: parent) stop) eqn:S.
        -- apply rpath_eqb_spec in S. intros d [<-|Hd] E; [exact Nh|].
           unfold eligible in E. rewrite <- S in E. rewrite (parent_ancestors_above d x parent Hd) in E. discriminate.
        -- destruct (find_spokfile fs stop parent) as [d0| |d0].
           ++ destruct IH as (I1 & I2 & I3 & I4). split; [right; exact I1|]. split; [exact I2|]. split; [exact I3|].
              intros d' (pre & post & E & Hin). cbn [ups] in E. destruct pre as [|a pre].
              ** contradiction.
              ** inversion E as [[E1 E2]]. subst a. destruct Hin as [<-|Hin]; [exact Nh|].
                 apply I4. exists pre, post. split; assumption.
           ++ intros d [<-|Hd] E; [exact Nh|apply IH; assumption].
           ++ destruct IH as (I1 & I2 & I3). split; [right; exact I1|]. split; assumption.
Qed.

(* no ReadError when every eligible directory at or above start can be listed *)
Corollary find_no_error start : (forall d, In d (ups start) -> eligible d -> fs d <> None) ->
  forall d, find_spokfile fs stop start <> ReadError d.
Proof.
  intros R d E. pose proof (find_spec start) as S. rewrite E in S. destruct S as (A & B & C). exact (R d A B C).
Qed.

End Find.
