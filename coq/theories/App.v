(* Model of one `spok [flags] [tasks]` invocation as far as reports are concerned (cli/app/app.go: Run's
   dispatch, runTasks, showTasks; task.Result / Results.JSON), composed from the models of task selection
   (Graph), the cache protocol (RunCache, executable instance) and the outcome of each command, which is
   an input: the embedded shell interpreter is not modelled. *)
From Spok Require Import Base Graph RunCache RunCacheInst Hash.
Open Scope nat_scope.

(* a command together with what running it produces *)
Record cmdres := { c_cmd : bytes; c_out : bytes; c_err : bytes; c_status : nat }.

Record taskdef := {
  td_name : name;
  td_deps : list name;             (* task dependencies *)
  td_lits : list path;             (* literal file dependencies *)
  td_globs : list (list path);     (* glob dependencies, as candidate paths *)
  td_cmds : list cmdres
}.

Record taskres := { tr_name : name; tr_skipped : bool; tr_cmds : list cmdres }.

Record flags := { f_quiet : bool; f_json : bool; f_force : bool; f_show : bool; f_vars : bool; f_clean : bool; f_debug : bool }.

Definition cmd_ok (c : cmdres) : bool := Nat.eqb (c_status c) 0.
Definition cmds_ok (l : list cmdres) : bool := forallb cmd_ok l.
Definition res_ok (r : taskres) : bool := cmds_ok (tr_cmds r).

(* what runTasks reports on the app's stream for each result, in order *)
Inductive msg := MSkipped (n : name) | MCompleted (n : name).

(* the first command that did not exit 0: (task, command text, status) *)
Fixpoint first_bad_cmd (l : list cmdres) : option (bytes * nat) :=
  match l with
  | [] => None
  | c :: r => if cmd_ok c then first_bad_cmd r else Some (c_cmd c, c_status c)
  end.

(* the loop of runTasks: messages printed before the first failing result, and that failure *)
Fixpoint report (rs : list taskres) : list msg * option (name * bytes * nat) :=
  match rs with
  | [] => ([], None)
  | r :: rest =>
    if res_ok r then
      let '(ms, f) := report rest in
      ((if tr_skipped r then MSkipped (tr_name r) else MCompleted (tr_name r)) :: ms, f)
    else
      ([], match first_bad_cmd (tr_cmds r) with Some (c, s) => Some (tr_name r, c, s) | None => None end)
  end.

Inductive stdout_doc :=
| SDNothing                                   (* standard output is empty *)
| SDJson (rs : list taskres)                  (* exactly one JSON document: the results *)
| SDText (ms : list msg)                      (* echoed commands, their output, and these messages in this order *)
| SDListing (names : list name)               (* the task table of --show / of a default-less invocation *)
| SDVars (vs : list (name * bytes))           (* the variable table of --vars: every variable with its evaluated value *)
| SDCleaned.                                  (* the messages of the built-in --clean (their text is not modelled) *)

Inductive err_kind := ECommandFailed (t : name) (cmd : bytes) (status : nat) | ESelection (e : gerr) | ERun (e : errk)
  | EUsage.                                    (* --debug together with --quiet is refused before anything is looked at *)

Record observation := {
  ob_exit : nat;                               (* process exit status: 0 or 1 *)
  ob_error : option err_kind;                  (* the error reported on standard error *)
  ob_stdout : stdout_doc;
  ob_executed : list name                      (* tasks whose commands were run, in order *)
}.

Definition find_def (defs : list taskdef) (n : name) : option taskdef :=
  find (fun d => Nat.eqb (td_name d) n) defs.

Definition to_task (d : taskdef) : task := {| tname := td_name d; lits := td_lits d; globs := td_globs d |}.
Definition beh_of (defs : list taskdef) (n : name) : beh :=
  match find_def defs n with
  | Some d => if cmds_ok (td_cmds d) then BSucc else BFail
  | None => BSucc
  end.

Definition mk_res (defs : list taskdef) (r : result) : taskres :=
  {| tr_name := r_task r; tr_skipped := r_skipped r;
     tr_cmds := if r_skipped r then [] else match find_def defs (r_task r) with Some d => td_cmds d | None => [] end |}.

(* the stream the app writes messages to is discarded under --quiet and under --json *)
Definition visible (f : flags) : bool := negb (f_quiet f) && negb (f_json f).

(* runTasks on the given results *)
Definition run_tasks_obs (f : flags) (rs : list taskres) (executed : list name) : observation :=
  let '(ms, bad) := report rs in
  match bad with
  | Some (t, c, s) =>
    {| ob_exit := 1; ob_error := Some (ECommandFailed t c s);
       ob_stdout := if visible f then SDText ms else SDNothing; ob_executed := executed |}
  | None =>
    {| ob_exit := 0; ob_error := None;
       ob_stdout := if f_json f then SDJson rs else if visible f then SDText ms else SDNothing;
       ob_executed := executed |}
  end.

(* names sorted as sort.Strings does; task names are small numbers here, so by value *)
Fixpoint insert_n (x : name) (l : list name) : list name :=
  match l with [] => [x] | y :: t => if Nat.leb x y then x :: l else y :: insert_n x t end.
Definition sort_names (l : list name) : list name := fold_right insert_n [] l.

Definition default_name : name := 3.           (* the task called "default" (the harness maps names to numbers) *)
Definition clean_name : name := 2.             (* the task called "clean" *)
Definition has_task (defs : list taskdef) (n : name) : bool := existsb (fun d => Nat.eqb (td_name d) n) defs.

(* variables sorted by name, as showVariables prints them *)
Fixpoint insert_v (x : name * bytes) (l : list (name * bytes)) : list (name * bytes) :=
  match l with [] => [x] | y :: t => if Nat.leb (fst x) (fst y) then x :: l else y :: insert_v x t end.
Definition sort_vars (l : list (name * bytes)) : list (name * bytes) := fold_right insert_v [] l.

Section Invoke.
Variable pick : nat -> list name -> list name.  (* Go's map iteration order in dag.Sort *)

(* App.runTasks(spokfile, runner, req...) *)
Definition run_req (defs : list taskdef) (s : st DI) (f : flags) (req : list name) : st DI * observation :=
  match run_order pick (map (fun d => (td_name d, td_deps d)) defs) req with
  | GErr e => (s, {| ob_exit := 1; ob_error := Some (ESelection e); ob_stdout := SDNothing; ob_executed := [] |})
  | GOk order =>
    let otasks := flat_map (fun n => match find_def defs n with Some d => [to_task d] | None => [] end) order in
    let r := run_i (f_force f) (beh_of defs) s otasks in
    let s' := apply_op_i s (RunOp (f_force f) (beh_of defs) otasks) in
    match rr_out DI r with
    | RunErr e => (s', {| ob_exit := 1; ob_error := Some (ERun e); ob_stdout := SDNothing; ob_executed := rr_exec DI r |})
    | RunOk rs => (s', run_tasks_obs f (map (mk_res defs) rs) (rr_exec DI r))
    end
  end.

(* one invocation `spok [flags] req...`: the dispatch of App.Run after the spokfile has been loaded, in its order
   (--vars, --clean, --show, then the requested tasks or the default action).  --init and --fmt are in Effects.v. *)
Definition invoke (defs : list taskdef) (vars : list (name * bytes)) (s : st DI) (f : flags) (req : list name) : st DI * observation :=
  let hidden := f_quiet f || f_json f in     (* the stream the listings and messages go to is discarded *)
  let quiet_ok d := {| ob_exit := 0; ob_error := None; ob_stdout := if hidden then SDNothing else d; ob_executed := [] |} in
  if f_quiet f && f_debug f then (s, {| ob_exit := 1; ob_error := Some EUsage; ob_stdout := SDNothing; ob_executed := [] |})
  else if f_vars f then (s, quiet_ok (SDVars (sort_vars vars)))
  else if f_clean f then
    (* a task named clean replaces the built-in clean (task names given on the command line play no part);
       the built-in one removes the cache directory (and the declared outputs: Effects.v) *)
    if has_task defs clean_name then run_req defs s f [clean_name]
    else (apply_op_i s RemoveCache, quiet_ok SDCleaned)
  else if f_show f then (s, quiet_ok (SDListing (sort_names (map td_name defs))))
  else
    match req with
    | [] => if has_task defs default_name then run_req defs s f [default_name]
            else (s, quiet_ok (SDListing (sort_names (map td_name defs))))
    | _ => run_req defs s f req
    end.
End Invoke.
