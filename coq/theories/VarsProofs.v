(* Proofs about variables reaching commands (C13). *)
From Spok Require Import Base Paths Vars GlobProofs.
From Coq Require Import ZArith ZifyN ZifyNat ZifyBool.
Open Scope N_scope.

Arguments N.eqb : simpl never.

(* ---------- environment ---------- *)
Lemma lookup_var_In vs n v : NoDup (map fst vs) -> (lookup_var vs n = Some v <-> In (n, v) vs).
Proof.
  induction vs as [|[k w] vs IH]; intros ND; cbn [lookup_var In]; [split; [discriminate|tauto]|].
  cbn [map fst] in ND. apply NoDup_cons_iff in ND. destruct ND as [Nin ND].
  destruct (bytes_eqb k n) eqn:E.
  - apply bytes_eqb_spec in E. subst k. split.
    + intros H. inversion H. left. reflexivity.
    + intros [H|H]; [inversion H; reflexivity|]. exfalso. apply Nin. apply (in_map fst) in H. exact H.
  - rewrite (IH ND). split; [tauto|]. intros [H|H]; [|exact H]. inversion H; subst. rewrite bytes_eqb_refl in E. discriminate.
Qed.

Lemma env_lookup_app a b n : env_lookup (a ++ b) n = match env_lookup b n with Some v => Some v | None => env_lookup a n end.
Proof.
  induction a as [|[k v] a IH]; cbn [app env_lookup]; [destruct (env_lookup b n); reflexivity|].
  rewrite IH. destruct (env_lookup b n); [reflexivity|]. reflexivity.
Qed.

Lemma env_lookup_some vs n : forall v, env_lookup vs n = Some v -> In n (map fst vs).
Proof.
  induction vs as [|[k w] vs IH]; intros v E; [discriminate|]. cbn [env_lookup] in E. cbn [map fst In].
  destruct (env_lookup vs n) as [v'|]; [right; apply (IH v'); reflexivity|]. destruct (bytes_eqb k n) eqn:B; [|discriminate].
  apply bytes_eqb_spec in B. left. exact B.
Qed.

Lemma env_lookup_unique vs n v : NoDup (map fst vs) -> In (n, v) vs -> env_lookup vs n = Some v.
Proof.
  induction vs as [|[k w] vs IH]; intros ND Hin; [contradiction|]. cbn [env_lookup].
  cbn [map fst] in ND. apply NoDup_cons_iff in ND. destruct ND as [Nin ND]. destruct Hin as [H|H].
  - inversion H; subst k w. destruct (env_lookup vs n) as [v'|] eqn:E; [|rewrite bytes_eqb_refl; reflexivity].
    exfalso. apply Nin. apply (env_lookup_some vs n v' E).
  - rewrite (IH ND H). reflexivity.
Qed.

(* C13: every spokfile variable is in each command's environment with its spokfile value, whatever the ambient
   environment (or .env file) contains *)
Theorem env_has_spok_value vs ambient n v : NoDup (map fst vs) -> In (n, v) vs -> env_lookup (cmd_env vs ambient) n = Some v.
Proof. intros ND Hin. unfold cmd_env. rewrite env_lookup_app, (env_lookup_unique vs n v ND Hin). reflexivity. Qed.

(* ---------- templates ---------- *)
Definition brace_free (s : bytes) : Prop := Forall (fun c => c <> 123) s.
Definition valid_name (n : bytes) : Prop := n <> [] /\ Forall (fun c => is_name_char c = true) n.

Lemma lit_pass vs s : brace_free s -> forall f rest,
  expand_tmpl (length s + f) vs (s ++ rest) =
  match expand_tmpl f vs rest with TOk o => TOk (s ++ o) | TUnsupported => TUnsupported end.
Proof.
  induction 1 as [|c s Hc Hs IH]; intros f rest; cbn [length app Nat.add]; [destruct (expand_tmpl f vs rest); reflexivity|].
  cbn [expand_tmpl]. unfold open_braces. cbn [has_prefix].
  assert (E : (123 =? c) = false) by (apply N.eqb_neq; congruence). rewrite E. cbn [andb].
  rewrite IH. destruct (expand_tmpl f vs rest); reflexivity.
Qed.

Lemma take_name_app n : Forall (fun c => is_name_char c = true) n -> forall acc rest,
  (match rest with c :: _ => is_name_char c = false | [] => True end) ->
  take_name acc (n ++ rest) = (rev acc ++ n, rest).
Proof.
  induction 1 as [|c n Hc Hn IH]; intros acc rest Hr; cbn [app].
  - rewrite app_nil_r. destruct rest as [|c r]; cbn [take_name]; [reflexivity|]. rewrite Hr. reflexivity.
  - cbn [take_name]. rewrite Hc. rewrite (IH (c :: acc) rest Hr). cbn [rev]. rewrite <- app_assoc. reflexivity.
Qed.

Lemma ref_pass vs n : valid_name n -> forall f rest,
  expand_tmpl (S f) vs (render_seg (Ref n) ++ rest) =
  match expand_tmpl f vs rest with TOk o => TOk (subst_seg vs (Ref n) ++ o) | TUnsupported => TUnsupported end.
Proof.
  intros [NE Hn] f rest. cbn [render_seg app expand_tmpl]. unfold open_braces. cbn [has_prefix skipn].
  rewrite !N.eqb_refl. cbn [andb].
  assert (A : action vs (46 :: (n ++ [125; 125]) ++ rest) = Some (subst_seg vs (Ref n), rest)).
  { unfold action. cbn [skip_blank]. replace (is_blank 46) with false by reflexivity. cbn [has_prefix skipn]. rewrite N.eqb_refl. cbn [andb].
    rewrite <- app_assoc. rewrite (take_name_app n Hn [] ([125; 125] ++ rest)) by reflexivity. cbn [rev app].
    destruct n as [|c n']; [congruence|]. cbn [is_nil_b skip_blank]. replace (is_blank 125) with false by reflexivity.
    unfold close_braces. cbn [has_prefix skipn]. rewrite !N.eqb_refl. reflexivity. }
  rewrite A. reflexivity.
Qed.

(* C13: every {{.NAME}} is replaced by the variable's value and all other text reaches the shell unchanged *)
Theorem template_substitutes vs segs :
  (forall s, In (Lit s) segs -> brace_free s) -> (forall n, In (Ref n) segs -> valid_name n) ->
  expand_vars vs (render_cmd segs) = TOk (subst_cmd vs segs).
Proof.
  intros HL HR. unfold expand_vars.
  assert (G : forall f, (length (render_cmd segs) < f)%nat -> expand_tmpl f vs (render_cmd segs) = TOk (subst_cmd vs segs)); [|apply G; lia].
  induction segs as [|c segs IH]; intros f Hf.
  - destruct f; [lia|]. reflexivity.
  - unfold render_cmd, subst_cmd in *. cbn [map concat] in *. rewrite app_length in Hf.
    assert (IH' := IH (fun s H => HL s (or_intror H)) (fun n H => HR n (or_intror H))).
    destruct c as [s|n].
    + cbn [render_seg subst_seg] in *. replace f with (length s + (f - length s))%nat by lia.
      rewrite (lit_pass vs s (HL s (or_introl eq_refl))). rewrite IH' by lia. reflexivity.
    + destruct f as [|f]; [lia|]. rewrite (ref_pass vs n (HR n (or_introl eq_refl))).
      rewrite IH'; [reflexivity|]. cbn [render_seg] in Hf. rewrite !app_length in Hf. cbn [length] in Hf. lia.
Qed.

(* ---------- join(...) ---------- *)
Definition plain (c : bytes) : Prop := plain_comp c = true.

Lemma clean_loop_plain cs : forall stack, Forall plain stack -> Forall plain (clean_loop true stack cs).
Proof.
  induction cs as [|c cs IH]; intros stack Hs; cbn [clean_loop].
  - apply Forall_rev. exact Hs.
  - destruct (is_nil_b c || bytes_eqb c dot) eqn:E1; [apply IH; exact Hs|].
    destruct (bytes_eqb c dotdot) eqn:E2.
    + destruct stack as [|top rest]; [apply IH; constructor|].
      inversion Hs as [|? ? Ht Hr]; subst.
      destruct (bytes_eqb top dotdot) eqn:E3; [|apply IH; exact Hr].
      exfalso. unfold plain, plain_comp in Ht. rewrite E3 in Ht. rewrite !andb_false_r in Ht. discriminate.
    + apply IH. constructor; [|exact Hs]. unfold plain, plain_comp. apply orb_false_iff in E1. destruct E1 as [A B].
      rewrite A, B, E2. reflexivity.
Qed.

Lemma clean_rooted s : is_rooted s = true ->
  exists out, clean s = slash :: join_slash out /\ Forall plain out.
Proof.
  intros R. destruct s as [|c s]; [discriminate|]. unfold clean. rewrite R.
  eexists. split; [reflexivity|]. apply clean_loop_plain. constructor.
Qed.

Lemma is_rooted_app a b : is_rooted a = true -> is_rooted (a ++ b) = true.
Proof. destruct a; [discriminate|]. intros H. exact H. Qed.

(* C13: join(...) is an absolute, cleaned path: "/" followed by components none of which is empty, "." or ".." *)
Theorem join_is_absolute_clean cwd parts : is_rooted cwd = true ->
  exists out, join_builtin cwd parts = slash :: join_slash out /\ Forall plain out.
Proof.
  intros R. unfold join_builtin, abs. destruct (is_rooted (join parts)) eqn:E; [apply clean_rooted; exact E|].
  cbn [join]. destruct cwd as [|c cwd]; [discriminate|]. cbn [is_nil_b]. apply clean_rooted.
  cbn [join_slash]. apply is_rooted_app. exact R.
Qed.
