(* A byte serialisation of everything the syntax models compute for an input (token stream, parse result, formatted text).
   Used only to compare two ways of RUNNING the same definitions: the extracted OCaml program and vm_compute inside Coq
   (thorough tier), which takes extraction and the OCaml runtime out of the trusted base for the sampled cases. *)
From Spok Require Import Base Lexer Parser Cst CstWf Layout.
Open Scope N_scope.

Definition ser_nat (n : nat) : bytes := let x := N.of_nat n in [x / 65536 mod 256; x / 256 mod 256; x mod 256].
Definition ser_bytes (b : bytes) : bytes := ser_nat (length b) ++ b.
Definition ty_code (t : ttype) : N :=
  match t with EOF => 0 | ERROR => 1 | COMMENT => 2 | HASH => 3 | LPAREN => 4 | RPAREN => 5 | LBRACE => 6 | RBRACE => 7 | QUOTE => 8 | COMMA => 9
  | TASK => 10 | STRING => 11 | COMMAND => 12 | OUTPUT => 13 | IDENT => 14 | DECLARE => 15 | LINTERP => 16 | RINTERP => 17 end.
Definition ek_code (k : option ekind) : N :=
  match k with None => 0 | Some EUnexpected => 1 | Some EMissingArrow => 2 | Some ENoOutput => 3 | Some EPunctIdent => 4 | Some EUnterminated => 5
  | Some ETaskParen => 6 | Some EIdentPunct => 7 | Some EIdentIdent => 8 | Some EInvalidChar => 9 | Some EStringQuote => 10 | Some ETaskKeyword => 11 end.
Definition ser_opt (o : option bytes) : bytes := match o with None => [0] | Some b => 1 :: ser_bytes b end.
Definition ser_token (t : token) : bytes :=
  ty_code (ty t) :: ser_bytes (val t) ++ ser_nat (tpos t) ++ ser_nat (tline t) ++ [ek_code (ek t)] ++ ser_nat (eline t) ++ ser_opt (ectx t).
Definition ser_arg (a : arg) : bytes := match a with AString s => 1 :: ser_bytes s | AIdent s => 2 :: ser_bytes s end.
Definition ser_list {A} (f : A -> bytes) (l : list A) : bytes := ser_nat (length l) ++ concat (map f l).
Definition ser_rhs (v : rhs) : bytes :=
  match v with RString s => 1 :: ser_bytes s | RIdent s => 2 :: ser_bytes s | RFunc f a => 3 :: ser_bytes f ++ ser_list ser_arg a end.
Definition ser_node (n : node) : bytes :=
  match n with
  | NComment t => 1 :: ser_bytes t
  | NAssign n v => 2 :: ser_bytes n ++ ser_rhs v
  | NTask d n deps outs cmds => 3 :: ser_bytes d ++ ser_bytes n ++ ser_list ser_arg deps ++ ser_list ser_arg outs ++ ser_list ser_bytes cmds
  end.
Definition ser_flag (f : flag) : N := match f with FOk => 0 | FPanic => 1 | FFuel => 2 end.
Definition ser_presult (r : presult) : bytes :=
  match r with
  | PTree t => 1 :: ser_list ser_node t ++ ser_bytes (fmt t) ++ [if cst_wf_b (layout t) then 1 else 0]
  | PErr l c => 2 :: ser_nat l ++ ser_opt c
  | PErrRaw m => 3 :: ser_bytes m
  | PPanic => [4]
  | PFuel => [5]
  end.
Definition ser_result (s : bytes) : bytes :=
  let '(f, toks) := lex s in ser_flag f :: ser_list ser_token toks ++ ser_presult (parse s).

(* the same for the concrete-syntax component *)
Definition ser_cst (f : cfile) : bytes :=
  ser_bytes (render f) ++ [if cst_wf_b f then 1 else 0] ++ ser_presult (parse (render f)) ++ ser_list ser_node (erase f).

Fixpoint mismatches (cases : list (bytes * bytes)) : list bytes :=
  match cases with
  | [] => []
  | (i, e) :: tl => if bytes_eqb (ser_result i) e then mismatches tl else i :: mismatches tl
  end.
