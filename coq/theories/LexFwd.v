(* Forward (completeness-direction) reasoning about the lexer: what each helper and each state function does on
   an input that begins with a known piece of text.  Used by RoundTripL.v to show lex (render c) = toks c. *)
From Spok Require Import Base Lexer DecodeSpec LexInv LexSteps Cst.
From Coq Require Import Lia.
Open Scope N_scope.

(* the part of the lexer state that control flow depends on: pending text, remaining input, emitted (kind, text) pairs *)
Definition VP (l : lx) (p s : bytes) (o : list tv) : Prop :=
  pre l = p /\ suf l = s /\ map tv_of (out l) = o /\ exists d e g, Inv l d e g.

Definition ns (s : bytes) : Prop := is_space (fst (decode s)) = false.

Lemma has_prefix_app a s : has_prefix a (a ++ s) = true.
Proof. induction a as [|x a IH]; [reflexivity|]. cbn. rewrite N.eqb_refl. exact IH. Qed.

Lemma next_vp l p s o r w : VP l p s o -> decode s = (r, w) ->
  exists l', next l = (r, l') /\ VP l' (rev (firstn w s) ++ p) (skipn w s) o.
Proof.
  intros (Hp & Hs & Ho & d & e & g & HI) Hd. destruct (next_spec l) as (bs & N). pose proof (next_inv l d e g HI) as HI1.
  destruct (next l) as [r' l'] eqn:En. cbn [fst snd] in *. destruct N as [Ndec Nsuf Npre Nlen _ _ _ _ _ _ _ Nout].
  rewrite Hs, Hd in Ndec. injection Ndec as -> Hw. exists l'. split; [reflexivity|].
  assert (Hb : firstn w s = bs /\ skipn w s = suf l').
  { rewrite <- Hs, Nsuf, Hw, <- Nlen. split; [apply firstn_app_len|apply skipn_app_len]. }
  destruct Hb as [-> ->]. split; [rewrite Npre, Hp; reflexivity|]. split; [reflexivity|]. split; [rewrite Nout; exact Ho|eauto].
Qed.

Lemma decode_ascii_cons b s : b < 128 -> decode (b :: s) = (b, 1%nat).
Proof. intros H. unfold decode. assert ((b <? 128) = true) as -> by lia. reflexivity. Qed.

Lemma next_vp_ascii l p b s o : VP l p (b :: s) o -> b < 128 ->
  exists l', next l = (b, l') /\ VP l' (b :: p) s o.
Proof. intros H Hb. destruct (next_vp l p (b :: s) o b 1 H (decode_ascii_cons b s Hb)) as (l' & E & V). exists l'. split; [exact E|exact V]. Qed.

Lemma backup_vp l p s o : VP l p s o -> VP (backup (snd (next l))) p s o.
Proof.
  intros (Hp & Hs & Ho & d & e & g & HI). destruct (next_backup l d e g HI) as (_ & IB & PB & SB & OB & _).
  split; [congruence|]. split; [congruence|]. split; [rewrite OB; exact Ho|eauto].
Qed.

Lemma peek_vp l p s o : VP l p s o -> exists l', peek l = (fst (decode s), l') /\ VP l' p s o.
Proof.
  intros (Hp & Hs & Ho & d & e & g & HI). rewrite (peek_ok l d e g HI), Hs. eexists. split; [reflexivity|].
  split; [exact Hp|]. split; [exact Hs|]. split; [exact Ho|]. exists d, e, g. apply with_width_inv. exact HI.
Qed.

Definition eolb (s : bytes) : bool := (fst (decode s) =? 10) || has_prefix crlf s.

Lemma atEOL_vp l p s o : VP l p s o -> exists l', atEOL l = (eolb s, l') /\ VP l' p s o.
Proof.
  intros (Hp & Hs & Ho & d & e & g & HI). rewrite (atEOL_ok l d e g HI), Hs. eexists. split; [reflexivity|].
  split; [exact Hp|]. split; [exact Hs|]. split; [exact Ho|]. exists d, e, g. apply with_width_inv. exact HI.
Qed.

Lemma absorb_vp l p a s o : VP l p (a ++ s) o -> nl a = 0%nat -> VP (absorb (length a) l) (rev a ++ p) s o.
Proof.
  intros (Hp & Hs & Ho & d & e & g & HI) Hnl.
  destruct (absorb_inv (length a) l d e g a HI ltac:(rewrite Hs; apply has_prefix_app) eq_refl Hnl) as (I1 & P1 & S1 & O1).
  split; [rewrite P1, Hp; reflexivity|]. split; [rewrite S1, Hs; apply skipn_app_len|]. split; [rewrite O1; exact Ho|eauto].
Qed.

Lemma emit_vp t l p s o : VP l p s o -> t <> ERROR -> t <> EOF -> VP (emit t l) [] s ((t, rev p) :: o).
Proof.
  intros (Hp & Hs & Ho & d & e & g & HI) H1 H2.
  pose proof (emit_inv t l d e g HI H1 (fun E => match H2 E with end)) as I1.
  split; [reflexivity|]. split; [exact Hs|]. split; [|eauto]. cbn [emit out map]. unfold tv_of at 1. cbn [ty val mk_tok]. rewrite Hp, Ho. reflexivity.
Qed.

Lemma emit_eof_vp l o : VP l [] [] o -> VP (emit EOF l) [] [] ((EOF, []) :: o).
Proof.
  intros (Hp & Hs & Ho & d & e & g & HI).
  pose proof (emit_inv EOF l d e g HI ltac:(discriminate) (fun _ => conj Hp Hs)) as I1.
  split; [reflexivity|]. split; [exact Hs|]. split; [|eauto]. cbn [emit out map]. unfold tv_of at 1. cbn [ty val mk_tok]. rewrite Hp, Ho. reflexivity.
Qed.

Lemma WS_asp w : WS w -> Forall asp w.
Proof.
  unfold WS. induction w as [|b w IH]; intros H; [constructor|]. cbn [forallb] in H. apply andb_prop in H. destruct H as [Hb Hw].
  constructor; [|apply IH; exact Hw]. unfold is_ws_byte in Hb. unfold asp.
  destruct (b =? 32) eqn:E1; [apply N.eqb_eq in E1; subst; split; [lia|reflexivity]|].
  destruct (b =? 9) eqn:E2; [apply N.eqb_eq in E2; subst; split; [lia|reflexivity]|].
  destruct (b =? 10) eqn:E3; [apply N.eqb_eq in E3; subst; split; [lia|reflexivity]|].
  destruct (b =? 13) eqn:E4; [apply N.eqb_eq in E4; subst; split; [lia|reflexivity]|]. discriminate.
Qed.

Lemma skipws_vp l w s o : VP l [] (w ++ s) o -> WS w -> ns s -> VP (skipWhitespace l) [] s o.
Proof.
  intros (Hp & Hs & Ho & d & e & g & HI) Hw Hn.
  destruct (skipWhitespace_ok l d e g HI Hp) as ((d' & g' & I1) & P1 & O1 & _ & _).
  split; [exact P1|]. split; [|split; [rewrite O1; exact Ho|eauto]].
  unfold skipWhitespace. apply (skipWS_exact w (WS_asp w Hw) _ l s Hs); [lia|exact Hn].
Qed.

(* ---- identifiers ---- *)
Lemma decode_app a s r w : decode a = (r, w) -> r <> RuneError -> decode (a ++ s) = (r, w).
Proof.
  unfold decode. destruct a as [|a0 t]; [intros E; injection E as <- _; congruence|]. cbn [app].
  destruct (a0 <? 128); [auto|]. destruct (a0 <? 194); [intros E; injection E as <- _; congruence|].
  destruct (a0 <? 224).
  { destruct t as [|a1 t]; [intros E; injection E as <- _; congruence|]. cbn [app]. auto. }
  destruct (a0 <? 240).
  { destruct t as [|a1 [|a2 t]]; try (intros E; injection E as <- _; congruence). cbn [app]. auto. }
  destruct (a0 <? 245).
  { destruct t as [|a1 [|a2 [|a3 t]]]; try (intros E; injection E as <- _; congruence). cbn [app]. auto. }
  intros E; injection E as <- _; congruence.
Qed.

Lemma is_ident_not_err r : is_ident r = true -> r <> RuneError.
Proof. intros H E. subst r. vm_compute in H. discriminate. Qed.

Lemma ident_runes_step fuel s : s <> [] -> ident_runes (S fuel) s = true ->
  exists r w, decode s = (r, w) /\ is_ident r = true /\ (0 < w <= length s)%nat /\ ident_runes fuel (skipn w s) = true.
Proof.
  intros Hne H. cbn [ident_runes] in H. destruct s as [|b s]; [congruence|].
  pose proof (decode_spec (b :: s)) as D. destruct (decode (b :: s)) as [r w] eqn:E.
  apply andb_prop in H. destruct H as [H1 H2]. exists r, w. split; [reflexivity|]. split; [exact H1|]. split; [|exact H2].
  destruct D as (_ & Dl & D0 & _). split; [|exact Dl]. destruct w; [|lia]. destruct D0 as [D0 _]. specialize (D0 eq_refl). discriminate.
Qed.

Lemma ident_runes_mono fuel : forall s, ident_runes fuel s = true -> ident_runes (S fuel) s = true.
Proof.
  induction fuel as [|f IH]; intros s H; [discriminate|]. cbn [ident_runes] in H |- *. destruct s as [|b s]; [reflexivity|].
  destruct (decode (b :: s)) as [r w]. apply andb_prop in H. destruct H as [H1 H2]. rewrite H1. cbn [andb]. apply IH. exact H2.
Qed.

Lemma identloop_vp : forall fuel n l p s o, VP l p (n ++ s) o -> ident_runes fuel n = true ->
  is_ident (fst (decode s)) = false -> (length (n ++ s) < fuel)%nat -> VP (identLoop fuel l) (rev n ++ p) s o.
Proof.
  induction fuel as [|f IH]; intros n l p s o HV Hn Hs Hf; [lia|]. cbn [identLoop].
  destruct n as [|b n].
  - cbn [app rev] in *. destruct (decode s) as [r w] eqn:Ed. destruct (next_vp l p s o r w HV Ed) as (l1 & En & V1).
    pose proof (backup_vp l p s o HV) as VB. rewrite En in VB |- *. cbn [fst snd] in *. rewrite Hs. exact VB.
  - destruct (ident_runes_step f (b :: n) ltac:(discriminate) Hn) as (r & w & Ed & Hr & Hw & Hrest).
    pose proof (decode_app (b :: n) s r w Ed (is_ident_not_err r Hr)) as Ed'.
    destruct (next_vp l p _ o r w HV Ed') as (l1 & En & V1). rewrite En, Hr.
    assert (Hsplit : (b :: n) ++ s = firstn w (b :: n) ++ (skipn w (b :: n) ++ s)) by (rewrite app_assoc, firstn_skipn; reflexivity).
    assert (F : firstn w ((b :: n) ++ s) = firstn w (b :: n)) by (rewrite firstn_app; replace (w - length (b :: n))%nat with 0%nat by lia; cbn [firstn]; apply app_nil_r).
    assert (K : skipn w ((b :: n) ++ s) = skipn w (b :: n) ++ s) by (rewrite skipn_app; replace (w - length (b :: n))%nat with 0%nat by lia; reflexivity).
    rewrite F, K in V1.
    pose proof (IH (skipn w (b :: n)) l1 _ s o V1 Hrest Hs) as R.
    assert (L : (length (skipn w (b :: n) ++ s) < f)%nat).
    { rewrite app_length, skipn_length. rewrite app_length in Hf. lia. }
    specialize (R L). rewrite app_assoc, <- rev_app_distr, firstn_skipn in R. exact R.
Qed.

(* ---- multi-step runs ---- *)
Inductive Steps : st -> lx -> st -> lx -> Prop :=
  | Steps_refl s l : Steps s l s l
  | Steps_step s l s1 l1 s2 l2 : s <> SDone -> step s l = (s1, l1) -> fl l1 = FOk -> Steps s1 l1 s2 l2 -> Steps s l s2 l2.

Lemma Steps_trans a la b lb c lc : Steps a la b lb -> Steps b lb c lc -> Steps a la c lc.
Proof. induction 1; intros HH; [exact HH|]. econstructor; eauto. Qed.

Lemma Steps_one s l s1 l1 : s <> SDone -> step s l = (s1, l1) -> fl l1 = FOk -> Steps s l s1 l1.
Proof. intros. econstructor; eauto. constructor. Qed.

Lemma run_steps s l l' : Steps s l SDone l' -> forall fuel, fl (run fuel s l) = FOk -> run fuel s l = l'.
Proof.
  intros H. remember SDone as sd eqn:Esd. induction H as [s l|s l s1 l1 s2 l2 Hne Est Hfl _ IH]; intros fuel Hok.
  - subst s. destruct fuel; reflexivity.
  - specialize (IH Esd). destruct s; try congruence; (destruct fuel as [|f]; [cbn in Hok; discriminate|]);
      cbn [run is_done] in Hok |- *; rewrite Est in Hok |- *; rewrite Hfl in Hok |- *; cbn [is_ok] in Hok |- *; apply IH; exact Hok.
Qed.

Lemma VP_fl l p s o : VP l p s o -> fl l = FOk.
Proof. intros (_ & _ & _ & d & e & g & HI). destruct HI. assumption. Qed.
