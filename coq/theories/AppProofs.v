(* Proofs about reports (C09, C20). *)
From Spok Require Import Base Graph GraphProofs RunCache RunCacheProofs RunCacheInst App.
From Coq Require Import Permutation Sorted.
Open Scope nat_scope.

Definition has_failure (rs : list taskres) : Prop :=
  exists r c, In r rs /\ In c (tr_cmds r) /\ c_status c <> 0.

Lemma first_bad_cmd_spec l : match first_bad_cmd l with
  | Some (c, s) => s <> 0 /\ exists x, In x l /\ c_cmd x = c /\ c_status x = s
  | None => cmds_ok l = true end.
Proof.
  induction l as [|x l IH]; cbn [first_bad_cmd]; [reflexivity|].
  destruct (cmd_ok x) eqn:E.
  - destruct (first_bad_cmd l) as [[c s]|].
    + destruct IH as (A & y & B & C). split; [exact A|exists y; split; [right; exact B|exact C]].
    + unfold cmds_ok in *. cbn [forallb]. rewrite E. exact IH.
  - unfold cmd_ok in E. apply Nat.eqb_neq in E. split; [exact E|exists x; split; [left; reflexivity|auto]].
Qed.

Lemma cmds_ok_false l : cmds_ok l = false <-> exists c, In c l /\ c_status c <> 0.
Proof.
  unfold cmds_ok. split.
  - intros H. induction l as [|x l IH]; [discriminate|]. cbn [forallb] in H. unfold cmd_ok at 1 in H.
    destruct (Nat.eqb (c_status x) 0) eqn:E; [destruct (IH H) as (c & A & B); exists c; split; [right; exact A|exact B]|].
    apply Nat.eqb_neq in E. exists x. split; [left; reflexivity|exact E].
  - intros (c & Hin & Hs). destruct (forallb cmd_ok l) eqn:E; [|reflexivity]. rewrite forallb_forall in E.
    specialize (E c Hin). unfold cmd_ok in E. apply Nat.eqb_eq in E. contradiction.
Qed.

(* the failure runTasks reports is a real one: that task, that command, that non-zero status, and it is the first in run order *)
Lemma report_spec rs : match snd (report rs) with
  | Some (t, c, s) => s <> 0 /\ exists pre r post, rs = pre ++ r :: post /\ forallb res_ok pre = true /\ tr_name r = t /\
                      exists x, In x (tr_cmds r) /\ c_cmd x = c /\ c_status x = s
  | None => forallb res_ok rs = true end.
Proof.
  induction rs as [|r rs IH]; cbn [report]; [reflexivity|].
  destruct (res_ok r) eqn:E.
  - destruct (report rs) as [ms f]. cbn [snd] in *. destruct f as [[[t c] s]|]; cbn [forallb]; [|rewrite E; exact IH].
    destruct IH as (A & pre & r0 & post & -> & B & C & Dd). split; [exact A|]. exists (r :: pre), r0, post.
    split; [reflexivity|]. split; [cbn [forallb]; rewrite E; exact B|auto].
  - cbn [snd]. pose proof (first_bad_cmd_spec (tr_cmds r)) as F. unfold res_ok in E.
    destruct (first_bad_cmd (tr_cmds r)) as [[c s]|]; [|congruence].
    destruct F as (A & x & B & C). split; [exact A|]. exists [], r, rs. split; [reflexivity|]. split; [reflexivity|]. split; [reflexivity|eauto].
Qed.

Lemma forallb_res_ok rs : forallb res_ok rs = true <-> ~ has_failure rs.
Proof.
  split.
  - intros H (r & c & Hr & Hc & Hs). rewrite forallb_forall in H. specialize (H r Hr). unfold res_ok in H.
    assert (cmds_ok (tr_cmds r) = false) by (apply cmds_ok_false; eauto). congruence.
  - intros H. apply forallb_forall. intros r Hr. unfold res_ok. destruct (cmds_ok (tr_cmds r)) eqn:E; [reflexivity|].
    exfalso. apply H. apply cmds_ok_false in E. destruct E as (c & A & B). exists r, c. auto.
Qed.

(* C09: the invocation fails iff some command of some executed task exited non-zero - whatever the flags *)
Theorem failing_command_fails f rs ex : ob_exit (run_tasks_obs f rs ex) = 1 <-> has_failure rs.
Proof.
  unfold run_tasks_obs. pose proof (report_spec rs) as R. destruct (report rs) as [ms bad]. cbn [snd] in R.
  destruct bad as [[[t c] s]|]; cbn [ob_exit].
  - split; [intros _|reflexivity]. destruct R as (A & pre & r & post & -> & _ & _ & x & B & _ & C).
    exists r, x. split; [apply in_or_app; right; left; reflexivity|]. split; [exact B|]. rewrite C. exact A.
  - split; [discriminate|]. intros H. apply forallb_res_ok in R. contradiction.
Qed.

(* C09: the error names the failing task, its command and status *)
Theorem failure_is_named f rs ex t c s : ob_error (run_tasks_obs f rs ex) = Some (ECommandFailed t c s) ->
  s <> 0 /\ exists r x, In r rs /\ tr_name r = t /\ In x (tr_cmds r) /\ c_cmd x = c /\ c_status x = s.
Proof.
  unfold run_tasks_obs. pose proof (report_spec rs) as R. destruct (report rs) as [ms bad]. cbn [snd] in R.
  destruct bad as [[[t' c'] s']|]; cbn [ob_error]; [|discriminate]. intros H. inversion H; subst.
  destruct R as (A & pre & r & post & -> & _ & B & x & C). split; [exact A|]. exists r, x. split; [apply in_or_app; right; left; reflexivity|auto].
Qed.

(* C20: with --json and no failing command, standard output is exactly the JSON document of the results *)
Theorem json_report f rs ex : f_json f = true -> ~ has_failure rs -> ob_stdout (run_tasks_obs f rs ex) = SDJson rs.
Proof.
  intros J NF. unfold run_tasks_obs. pose proof (report_spec rs) as R. destruct (report rs) as [ms bad]. cbn [snd] in R.
  destruct bad as [[[t c] s]|]; cbn [ob_stdout]; [|rewrite J; reflexivity].
  exfalso. apply NF. destruct R as (A & pre & r & post & -> & _ & _ & x & B & _ & C).
  exists r, x. split; [apply in_or_app; right; left; reflexivity|]. split; [exact B|]. rewrite C. exact A.
Qed.

(* C20: with --quiet (and not --json) standard output is empty *)
Theorem quiet_report f rs ex : f_quiet f = true -> f_json f = false -> ob_stdout (run_tasks_obs f rs ex) = SDNothing.
Proof.
  intros Q J. unfold run_tasks_obs, visible. destruct (report rs) as [ms bad]. rewrite Q, J.
  destruct bad as [[[t c] s]|]; reflexivity.
Qed.

(* C20: the listing is sorted and lists every defined task once *)
Lemma insert_n_perm x l : Permutation (x :: l) (insert_n x l).
Proof. induction l as [|y l IH]; cbn [insert_n]; [reflexivity|]. destruct (Nat.leb x y); [reflexivity|]. rewrite perm_swap. constructor. exact IH. Qed.
Lemma sort_names_perm l : Permutation l (sort_names l).
Proof. induction l as [|x l IH]; cbn [sort_names fold_right]; [reflexivity|]. etransitivity; [|apply insert_n_perm]. constructor. exact IH. Qed.
Lemma insert_n_sorted x l : StronglySorted le l -> StronglySorted le (insert_n x l).
Proof.
  induction 1 as [|y l Hs IH Hy]; cbn [insert_n]; [repeat constructor|].
  destruct (Nat.leb x y) eqn:E.
  - apply Nat.leb_le in E. constructor; [constructor; assumption|]. constructor; [exact E|].
    eapply Forall_impl; [|exact Hy]. intros z Hz. lia.
  - apply Nat.leb_gt in E. constructor; [exact IH|].
    eapply Permutation_Forall; [apply insert_n_perm|]. constructor; [lia|exact Hy].
Qed.
Theorem listing_sorted l : StronglySorted le (sort_names l) /\ Permutation l (sort_names l).
Proof. split; [|apply sort_names_perm]. induction l as [|x l IH]; cbn [sort_names fold_right]; [constructor|apply insert_n_sorted; exact IH]. Qed.

(* ---- whole invocations (the dispatch of App.Run) ---- *)

(* what runTasks can produce *)
Lemma run_req_cases pick defs s f req s' ob : run_req pick defs s f req = (s', ob) ->
  (ob_executed ob = [] /\ ob_exit ob = 1 /\ ob_stdout ob = SDNothing /\ exists e, ob_error ob = Some (ESelection e)) \/
  (exists order e, rr_out DI (run_i (f_force f) (beh_of defs) s order) = RunErr e /\
     ob_exit ob = 1 /\ ob_stdout ob = SDNothing /\ ob_error ob = Some (ERun e)) \/
  (exists order rs, rr_out DI (run_i (f_force f) (beh_of defs) s order) = RunOk rs /\
     ob = run_tasks_obs f (map (mk_res defs) rs) (rr_exec DI (run_i (f_force f) (beh_of defs) s order))).
Proof.
  unfold run_req. destruct (run_order pick _ req) as [order|e].
  - match goal with |- context [run_i _ _ _ ?o] => set (otasks := o) end. destruct (rr_out DI (run_i (f_force f) (beh_of defs) s otasks)) as [rs|e] eqn:Eo; intros H; inversion H; subst.
    + right. right. exists otasks, rs. split; [exact Eo|reflexivity].
    + right. left. exists otasks, e. cbn. auto.
  - intros H; inversion H; subst. left. cbn. eauto.
Qed.

(* what an invocation can be: a listing that runs nothing, or runTasks on some request *)
Lemma invoke_cases pick defs vars s f req s' ob : invoke pick defs vars s f req = (s', ob) ->
  (ob_executed ob = [] /\ forall rs, ob_stdout ob <> SDJson rs) \/
  (exists req', run_req pick defs s f req' = (s', ob)).
Proof.
  unfold invoke. intros H.
  destruct (f_quiet f && f_debug f) eqn:QD; [inversion H; subst; left; cbn; split; [reflexivity|discriminate]|].
  assert (L : forall d x, (forall rs, d <> SDJson rs) -> (x, {| ob_exit := 0; ob_error := None; ob_stdout := if f_quiet f || f_json f then SDNothing else d; ob_executed := [] |}) = (s', ob) ->
     ob_executed ob = [] /\ forall rs, ob_stdout ob <> SDJson rs).
  { intros d x Hd E. inversion E; subst. cbn. split; [reflexivity|]. intros rs. destruct (f_quiet f || f_json f); [discriminate|apply Hd]. }
  destruct (f_vars f); [left; eapply L; [|exact H]; discriminate|].
  destruct (f_clean f).
  { destruct (has_task defs clean_name); [right; eauto|left; eapply L; [|exact H]; discriminate]. }
  destruct (f_show f); [left; eapply L; [|exact H]; discriminate|].
  destruct req as [|r0 req].
  - destruct (has_task defs default_name); [right; eauto|left; eapply L; [|exact H]; discriminate].
  - right. eauto.
Qed.

Lemma mk_res_cmds defs r x : In x (tr_cmds (mk_res defs r)) ->
  r_skipped r = false /\ exists d, find_def defs (r_task r) = Some d /\ In x (td_cmds d).
Proof.
  unfold mk_res. cbn [tr_cmds]. destruct (r_skipped r); [intros []|]. destruct (find_def defs (r_task r)) as [d|]; [|intros []].
  intros H. split; [reflexivity|]. exists d. auto.
Qed.

Lemma in_unskipped n (rs : list result) : In n (map r_task (filter (fun r => negb (r_skipped r)) rs)) <->
  exists r, In r rs /\ r_task r = n /\ r_skipped r = false.
Proof.
  rewrite in_map_iff. split.
  - intros (r & E & Hr). apply filter_In in Hr. destruct Hr as [A B]. exists r. repeat split; auto. destruct (r_skipped r); [discriminate|reflexivity].
  - intros (r & A & B & C). exists r. split; [exact B|]. apply filter_In. split; [exact A|]. rewrite C. reflexivity.
Qed.

(* C09 for a whole invocation, whatever the flags (--quiet, --json, --force, --clean with a task named clean, the default
   task): if a task whose commands were run has a command with a non-zero status, the invocation exits 1; and unless the
   run itself was cut short by an unreadable dependency or a runner error, the error names an executed task, one of its
   commands and that command's non-zero status *)
Theorem invocation_fails pick defs vars s f req s' ob n d :
  invoke pick defs vars s f req = (s', ob) ->
  In n (ob_executed ob) -> find_def defs n = Some d -> cmds_ok (td_cmds d) = false ->
  ob_exit ob = 1 /\
  ((exists e, ob_error ob = Some (ERun e)) \/
   exists t c st d' x, ob_error ob = Some (ECommandFailed t c st) /\ st <> 0 /\ In t (ob_executed ob) /\
     find_def defs t = Some d' /\ In x (td_cmds d') /\ c_cmd x = c /\ c_status x = st).
Proof.
  intros H Hin Hd Hbad. destruct (invoke_cases _ _ _ _ _ _ _ _ H) as [(E & _)|(req' & R)]; [rewrite E in Hin; destruct Hin|].
  destruct (run_req_cases _ _ _ _ _ _ _ R) as [(E & _)|[(order & e & _ & Ex & _ & Er)|(order & rs & Eo & ->)]].
  - rewrite E in Hin. destruct Hin.
  - split; [exact Ex|left; eauto].
  - pose proof (executed_are_the_unskipped DI deqb_i None digest_i (f_force f) (beh_of defs) s order rs Eo) as EX. fold run_i in EX.
    assert (Hex : forall g a b, ob_executed (run_tasks_obs g a b) = b).
    { intros g a b0. unfold run_tasks_obs. destruct (report a) as [ms [[[t c] s0]|]]; reflexivity. }
    rewrite Hex in *. rewrite EX in Hin. apply in_unskipped in Hin. destruct Hin as (r & Hr & Hn & Hs).
    assert (HF : has_failure (map (mk_res defs) rs)).
    { apply cmds_ok_false in Hbad. destruct Hbad as (c & Hc & Hst). exists (mk_res defs r), c. split; [apply in_map; exact Hr|].
      split; [|exact Hst]. unfold mk_res. cbn [tr_cmds]. rewrite Hs, Hn, Hd. exact Hc. }
    split; [apply failing_command_fails; exact HF|]. right.
    destruct (ob_error (run_tasks_obs f (map (mk_res defs) rs) (rr_exec DI (run_i (f_force f) (beh_of defs) s order)))) as [e|] eqn:Ee.
    + destruct e as [t c st|e|e|].
      4: { exfalso. unfold run_tasks_obs in Ee. destruct (report (map (mk_res defs) rs)) as [ms [[[t c] s0]|]]; cbn in Ee; discriminate. }
      * destruct (failure_is_named _ _ _ _ _ _ Ee) as (Hst & r' & x & Hr' & Ht & Hx & Hc & Hs').
        apply in_map_iff in Hr'. destruct Hr' as (r0 & <- & Hr0). destruct (mk_res_cmds _ _ _ Hx) as (Sk & d' & Hd' & Hxd).
        cbn [mk_res tr_name] in Ht. exists t, c, st, d', x. rewrite <- Ht. repeat split; auto.
        rewrite EX. apply in_unskipped. exists r0. auto.
      * exfalso. unfold run_tasks_obs in Ee. destruct (report (map (mk_res defs) rs)) as [ms [[[t c] s0]|]]; cbn in Ee; discriminate.
      * exfalso. unfold run_tasks_obs in Ee. destruct (report (map (mk_res defs) rs)) as [ms [[[t c] s0]|]]; cbn in Ee; discriminate.
    + exfalso. apply failing_command_fails with (f := f) (ex := rr_exec DI (run_i (f_force f) (beh_of defs) s order)) in HF.
      unfold run_tasks_obs in *. destruct (report (map (mk_res defs) rs)) as [ms [[[t c] s0]|]]; cbn in *; discriminate.
Qed.

(* C14 for a whole invocation: under --force no task of the run is reported skipped, whether the tasks were named, come
   from the default task or from --clean with a task named clean *)
Theorem forced_invocation pick defs vars s f req s' ob rs :
  invoke pick defs vars s f req = (s', ob) -> f_force f = true -> ob_stdout ob = SDJson rs ->
  (forall r, In r rs -> tr_skipped r = false) /\ ob_executed ob = map tr_name rs.
Proof.
  intros H Hf HS. destruct (invoke_cases _ _ _ _ _ _ _ _ H) as [(_ & N)|(req' & R)]; [exfalso; exact (N rs HS)|].
  destruct (run_req_cases _ _ _ _ _ _ _ R) as [(_ & _ & E & _)|[(order & e & _ & _ & E & _)|(order & rs0 & Eo & ->)]]; try congruence.
  rewrite Hf in Eo. destruct (force_runs_everything DI deqb_i None digest_i deqb_i_spec digest_i_ne (beh_of defs) s order rs0 Eo) as [A B].
  fold run_i in B. pose proof (run_results_names DI deqb_i None digest_i true (beh_of defs) s order rs0 Eo) as Nn.
  unfold run_tasks_obs in *. destruct (report (map (mk_res defs) rs0)) as [ms [[[t c] s0]|]]; cbn [ob_stdout ob_executed] in *.
  - destruct (visible f); discriminate.
  - destruct (f_json f); [|destruct (visible f); discriminate]. inversion HS; subst rs. rewrite Hf. split.
    + intros r Hr. apply in_map_iff in Hr. destruct Hr as (r0 & <- & Hr0). cbn [mk_res tr_skipped]. apply A. exact Hr0.
    + rewrite B, map_map. cbn [mk_res tr_name]. symmetry. exact Nn.
Qed.

(* C20: --vars lists every variable once with its value, sorted by name *)
Lemma insert_v_perm x l : Permutation (x :: l) (insert_v x l).
Proof. induction l as [|y l IH]; cbn [insert_v]; [reflexivity|]. match goal with |- context [if ?c then _ else _] => destruct c end; [reflexivity|]. rewrite perm_swap. constructor. exact IH. Qed.
Lemma sort_vars_perm l : Permutation l (sort_vars l).
Proof. induction l as [|x l IH]; cbn [sort_vars fold_right]; [reflexivity|]. etransitivity; [|apply insert_v_perm]. constructor. exact IH. Qed.
Lemma insert_v_sorted x l : StronglySorted (fun a b => fst a <= fst b) l -> StronglySorted (fun a b => fst a <= fst b) (insert_v x l).
Proof.
  induction 1 as [|y l Hs IH Hy]; cbn [insert_v]; [repeat constructor|].
  match goal with |- context [if ?c then _ else _] => destruct c eqn:E end.
  - apply Nat.leb_le in E. constructor; [constructor; assumption|]. constructor; [exact E|].
    eapply Forall_impl; [|exact Hy]. intros z Hz. cbn beta in *. exact (Nat.le_trans _ _ _ E Hz).
  - apply Nat.leb_gt in E. constructor; [exact IH|].
    eapply Permutation_Forall; [apply insert_v_perm|]. constructor; [cbn beta; exact (Nat.lt_le_incl _ _ E)|exact Hy].
Qed.
Theorem vars_listing pick defs vars s f req :
  f_vars f = true -> f_quiet f = false -> f_json f = false ->
  invoke pick defs vars s f req = (s, {| ob_exit := 0; ob_error := None; ob_stdout := SDVars (sort_vars vars); ob_executed := [] |})
  /\ Permutation vars (sort_vars vars) /\ StronglySorted (fun a b => fst a <= fst b) (sort_vars vars).
Proof.
  intros V Q J. unfold invoke. rewrite V, Q, J. cbn [orb andb]. split; [reflexivity|]. split; [apply sort_vars_perm|].
  induction vars as [|x l IH]; cbn [sort_vars fold_right]; [constructor|apply insert_v_sorted; exact IH].
Qed.

(* C20: the JSON document lists exactly the tasks of the run in execution order, executed commands for the ones that ran *)
Theorem json_lists_the_run pick defs vars s f req s' ob rs :
  invoke pick defs vars s f req = (s', ob) -> ob_stdout ob = SDJson rs ->
  ob_exit ob = 0 /\ exists order, map tr_name rs = order /\
    (forall r, In r rs -> tr_skipped r = true -> tr_cmds r = []) /\ ~ has_failure rs.
Proof.
  intros H HS. destruct (invoke_cases _ _ _ _ _ _ _ _ H) as [(_ & N)|(req' & R)]; [exfalso; exact (N rs HS)|].
  destruct (run_req_cases _ _ _ _ _ _ _ R) as [(_ & _ & E & _)|[(order & e & _ & _ & E & _)|(order & rs0 & Eo & ->)]]; try congruence.
  unfold run_tasks_obs in *.
  pose proof (report_spec (map (mk_res defs) rs0)) as Rp. destruct (report (map (mk_res defs) rs0)) as [ms bad]. cbn [snd] in Rp.
  destruct bad as [[[t c] s0]|]; cbn [ob_stdout ob_exit] in *.
  - destruct (visible f); discriminate.
  - destruct (f_json f); [|destruct (visible f); discriminate]. inversion HS; subst rs. split; [reflexivity|].
    exists (map tr_name (map (mk_res defs) rs0)). split; [reflexivity|]. split.
    + intros r Hr Sk. apply in_map_iff in Hr. destruct Hr as (r1 & <- & _). unfold mk_res in *. cbn [tr_skipped tr_cmds] in *. rewrite Sk. reflexivity.
    + apply forallb_res_ok. exact Rp.
Qed.

(* ---- C01 for a whole invocation: selection (Graph) + cache protocol (RunCache) + reporting (App) composed ---- *)
Definition Inv_i := Inv DI None digest_i.
Definition uptodate_i := uptodate DI digest_i.

Lemma find_def_name defs n d : find_def defs n = Some d -> td_name d = n.
Proof. unfold find_def. intros H. apply find_some in H. destruct H as [_ H]. apply Nat.eqb_eq in H. exact H. Qed.

Lemma otasks_names defs order :
  map tname (flat_map (fun n => match find_def defs n with Some d => [to_task d] | None => [] end) order)
  = filter (fun n => match find_def defs n with Some _ => true | None => false end) order.
Proof.
  induction order as [|n r IH]; cbn [flat_map filter map]; [reflexivity|].
  destruct (find_def defs n) as [d|] eqn:E; cbn [app map]; [|exact IH].
  rewrite IH. unfold to_task. cbn [tname]. rewrite (find_def_name _ _ _ E). reflexivity.
Qed.

Lemma NoDup_filter_nat (f : nat -> bool) l : NoDup l -> NoDup (filter f l).
Proof.
  induction 1 as [|x l Hx ND IH]; cbn [filter]; [constructor|]. destruct (f x); [|exact IH].
  constructor; [|exact IH]. intros H. apply filter_In in H. destruct H as [H _]. exact (Hx H).
Qed.

(* every invocation keeps the cache invariant: what the cache file says about a task was true when it was written *)
Theorem invoke_keeps_invariant pick defs vars s f req s' ob : Inv_i s -> invoke pick defs vars s f req = (s', ob) -> Inv_i s'.
Proof.
  intros HI. unfold invoke.
  assert (R : forall req0 x, run_req pick defs s f req0 = x -> Inv_i (fst x)).
  { intros req0 x <-. unfold run_req. destruct (run_order pick _ req0) as [order|e]; [|exact HI].
    match goal with |- context [run_i _ _ _ ?o] => set (otasks := o) end.
    assert (X : Inv_i (apply_op_i s (RunOp (f_force f) (beh_of defs) otasks))) by (apply (apply_op_inv DI deqb_i None digest_i deqb_i_spec); exact HI).
    destruct (rr_out DI (run_i (f_force f) (beh_of defs) s otasks)); exact X. }
  destruct (f_quiet f && f_debug f); [intros H; inversion H; subst; exact HI|].
  destruct (f_vars f); [intros H; inversion H; subst; exact HI|].
  destruct (f_clean f).
  { destruct (has_task defs clean_name); intros H; [exact (R _ _ H)|].
    assert (E : s' = apply_op_i s RemoveCache) by (inversion H; reflexivity). rewrite E.
    apply (apply_op_inv DI deqb_i None digest_i deqb_i_spec). exact HI. }
  destruct (f_show f); [intros H; inversion H; subst; exact HI|].
  destruct req as [|r0 req].
  - destruct (has_task defs default_name); intros H; [exact (R _ _ H)|inversion H; subst; exact HI].
  - intros H. exact (R _ _ H).
Qed.

(* C01 at the command line: whatever the flags and however the tasks were selected, a task that an invocation reports as
   skipped has - in the state the invocation leaves - exactly the inputs of its last successful completion *)
Theorem invocation_skip_sound pick defs vars s f req s' ob rs r :
  (forall k l, Permutation (pick k l) l) -> Inv_i s ->
  invoke pick defs vars s f req = (s', ob) -> ob_stdout ob = SDJson rs -> In r rs -> tr_skipped r = true ->
  exists d F, find_def defs (tr_name r) = Some d /\
              inputs_of (files DI s') (to_task d) = Some F /\ last_ok DI s' (tr_name r) = Some F.
Proof.
  intros Hpick HI H HS Hr Hsk.
  assert (R : forall req0, run_req pick defs s f req0 = (s', ob) -> exists d F, find_def defs (tr_name r) = Some d /\
              inputs_of (files DI s') (to_task d) = Some F /\ last_ok DI s' (tr_name r) = Some F).
  { clear H. intros req0. unfold run_req. destruct (run_order pick _ req0) as [order|e] eqn:Eo; [|intros X; inversion X; subst; discriminate].
    match goal with |- context [run_i _ _ _ ?o] => set (otasks := o) end.
    destruct (rr_out DI (run_i (f_force f) (beh_of defs) s otasks)) as [rs0|e] eqn:Er; [|intros X; inversion X; subst; discriminate].
    intros X. inversion X; subst s' ob. clear X.
    assert (Ers : rs = map (mk_res defs) rs0).
    { unfold run_tasks_obs in HS. destruct (report (map (mk_res defs) rs0)) as [ms [[[t c] s0]|]]; cbn [ob_stdout] in HS.
      - destruct (visible f); discriminate.
      - destruct (f_json f); [inversion HS; reflexivity|destruct (visible f); discriminate]. }
    subst rs. apply in_map_iff in Hr. destruct Hr as (r0 & <- & Hr0). cbn [mk_res tr_skipped tr_name] in *.
    pose proof (run_results_names DI deqb_i None digest_i (f_force f) (beh_of defs) s otasks rs0 Er) as Nn.
    assert (Hn : In (r_task r0) (map tname otasks)) by (rewrite <- Nn; apply in_map; exact Hr0).
    apply in_map_iff in Hn. destruct Hn as (t & Et & Ht).
    assert (ND : NoDup (map tname otasks)).
    { unfold otasks. rewrite otasks_names. apply NoDup_filter_nat.
      destruct (run_order_sound pick Hpick _ _ _ Eo) as (ND & _). exact ND. }
    assert (Hs : In (skipped_res t) rs0) by (unfold skipped_res; rewrite Et; destruct r0 as [n sk]; cbn in *; subst sk; exact Hr0).
    destruct (skip_sound DI deqb_i None digest_i deqb_i_spec digest_i_ne (f_force f) (beh_of defs) s otasks HI ND rs0 Er t Ht Hs) as (F & F' & A & B & C).
    apply digest_i_inj in C. subst F'.
    unfold otasks in Ht. apply in_flat_map in Ht. destruct Ht as (n & _ & Ht). destruct (find_def defs n) as [d|] eqn:Ed; [|destruct Ht].
    destruct Ht as [<-|[]]. pose proof Et as Et0. cbn [to_task tname] in Et. rewrite (find_def_name _ _ _ Ed) in Et. subst n.
    exists d, F. split; [exact Ed|]. split; [exact A|]. rewrite <- Et0. exact B. }
  destruct (invoke_cases _ _ _ _ _ _ _ _ H) as [(_ & N)|(req' & X)]; [exfalso; exact (N rs HS)|exact (R req' X)].
Qed.

(* ---- C02 for a whole invocation ---- *)
Definition Inv2_i := Inv2' DI digest_i.

Theorem invoke_keeps_invariant2 pick defs vars s f req s' ob : Inv2_i s -> invoke pick defs vars s f req = (s', ob) -> Inv2_i s'.
Proof.
  intros HI. unfold invoke.
  assert (R : forall req0 x, run_req pick defs s f req0 = x -> Inv2_i (fst x)).
  { intros req0 x <-. unfold run_req. destruct (run_order pick _ req0) as [order|e]; [|exact HI].
    match goal with |- context [run_i _ _ _ ?o] => set (otasks := o) end.
    assert (X : Inv2_i (apply_op_i s (RunOp (f_force f) (beh_of defs) otasks))) by (apply (apply_op_inv2 DI deqb_i None digest_i); [exact I|exact HI]).
    destruct (rr_out DI (run_i (f_force f) (beh_of defs) s otasks)); exact X. }
  destruct (f_quiet f && f_debug f); [intros H; inversion H; subst; exact HI|].
  destruct (f_vars f); [intros H; inversion H; subst; exact HI|].
  destruct (f_clean f).
  { destruct (has_task defs clean_name); intros H; [exact (R _ _ H)|].
    assert (E : s' = apply_op_i s RemoveCache) by (inversion H; reflexivity). rewrite E.
    apply (apply_op_inv2 DI deqb_i None digest_i); [exact I|exact HI]. }
  destruct (f_show f); [intros H; inversion H; subst; exact HI|].
  destruct req as [|r0 req].
  - destruct (has_task defs default_name); intros H; [exact (R _ _ H)|inversion H; subst; exact HI].
  - intros H. exact (R _ _ H).
Qed.

Lemma same_name_same_elt {A} (g : A -> nat) (l : list A) a b : NoDup (map g l) -> In a l -> In b l -> g a = g b -> a = b.
Proof.
  induction l as [|x l IH]; intros ND Ha Hb E; [destruct Ha|]. cbn [map] in ND. inversion ND as [|? ? Hx ND']; subst.
  destruct Ha as [<-|Ha], Hb as [<-|Hb]; try reflexivity.
  - exfalso. apply Hx. rewrite E. apply in_map. exact Hb.
  - exfalso. apply Hx. rewrite <- E. apply in_map. exact Ha.
  - apply IH; assumption.
Qed.

(* C02 at the command line: in a history without kills or torn cache files, an unforced invocation reports every selected
   task that has at least one dependency file, and whose last successful completion was on exactly its current inputs, as
   skipped, and does not execute it - whatever the other tasks of the invocation do *)
Theorem invocation_skip_complete pick defs vars s f req s' ob rs r d F :
  (forall k l, Permutation (pick k l) l) -> Inv2_i s -> f_force f = false ->
  invoke pick defs vars s f req = (s', ob) -> ob_stdout ob = SDJson rs -> In r rs ->
  find_def defs (tr_name r) = Some d -> inputs_of (files DI s) (to_task d) = Some F -> F <> [] -> last_ok DI s (tr_name r) = Some F ->
  tr_skipped r = true /\ ~ In (tr_name r) (ob_executed ob).
Proof.
  intros Hpick HI Hf H HS Hr Hd HF Hne HL.
  assert (R : forall req0, run_req pick defs s f req0 = (s', ob) -> tr_skipped r = true /\ ~ In (tr_name r) (ob_executed ob)).
  { clear H. intros req0. unfold run_req. destruct (run_order pick _ req0) as [order|e] eqn:Eo; [|intros X; inversion X; subst; discriminate].
    match goal with |- context [run_i _ _ _ ?o] => set (otasks := o) end. rewrite Hf.
    destruct (rr_out DI (run_i false (beh_of defs) s otasks)) as [rs0|e] eqn:Er; [|intros X; inversion X; subst; discriminate].
    intros X. inversion X; subst s' ob. clear X.
    assert (Hex : forall g a b, ob_executed (run_tasks_obs g a b) = b).
    { intros g a b0. unfold run_tasks_obs. destruct (report a) as [ms [[[t c] s0]|]]; reflexivity. }
    rewrite Hex.
    assert (Ers : rs = map (mk_res defs) rs0).
    { unfold run_tasks_obs in HS. destruct (report (map (mk_res defs) rs0)) as [ms [[[t c] s0]|]]; cbn [ob_stdout] in HS.
      - destruct (visible f); discriminate.
      - destruct (f_json f); [inversion HS; reflexivity|destruct (visible f); discriminate]. }
    subst rs. apply in_map_iff in Hr. destruct Hr as (r0 & <- & Hr0). cbn [mk_res tr_skipped tr_name] in *.
    pose proof (run_results_names DI deqb_i None digest_i false (beh_of defs) s otasks rs0 Er) as Nn.
    assert (Hn : In (r_task r0) (map tname otasks)) by (rewrite <- Nn; apply in_map; exact Hr0).
    apply in_map_iff in Hn. destruct Hn as (t & Et & Ht).
    assert (ND : NoDup (map tname otasks)).
    { unfold otasks. rewrite otasks_names. apply NoDup_filter_nat.
      destruct (run_order_sound pick Hpick _ _ _ Eo) as (ND & _). exact ND. }
    assert (Etd : t = to_task d).
    { unfold otasks in Ht. apply in_flat_map in Ht. destruct Ht as (n & _ & Ht). destruct (find_def defs n) as [d'|] eqn:Ed; [|destruct Ht].
      destruct Ht as [<-|[]]. cbn [to_task tname] in Et. rewrite (find_def_name _ _ _ Ed) in Et. subst n. rewrite Ed in Hd. inversion Hd. reflexivity. }
    subst t.
    destruct (skip_complete DI deqb_i None digest_i deqb_i_spec digest_i_ne (beh_of defs) s otasks HI ND (to_task d) F Ht HF Hne) as [NE SK].
    { rewrite Et. exact HL. }
    specialize (SK rs0 Er). split.
    - assert (E : r0 = skipped_res (to_task d)).
      { assert (ND2 : NoDup (map r_task rs0)) by (rewrite Nn; exact ND).
        apply (same_name_same_elt r_task rs0 r0 (skipped_res (to_task d)) ND2 Hr0 SK). unfold skipped_res. cbn [r_task]. symmetry. exact Et. }
      rewrite E. reflexivity.
    - rewrite <- Et. exact NE. }
  destruct (invoke_cases _ _ _ _ _ _ _ _ H) as [(_ & N)|(req' & X)]; [exfalso; exact (N rs HS)|exact (R req' X)].
Qed.

(* ---- C03 for a whole invocation ---- *)
Definition gdefs (defs : list taskdef) : Graph.defs := map (fun d => (td_name d, td_deps d)) defs.

Lemma lookup_find_def defs n : Graph.lookup (gdefs defs) n <> None -> find_def defs n <> None.
Proof.
  unfold gdefs, find_def. induction defs as [|d r IH]; cbn [map Graph.lookup find]; [intros H; exfalso; apply H; reflexivity|].
  rewrite (Nat.eqb_sym n (td_name d)). destruct (Nat.eqb (td_name d) n); [discriminate|exact IH].
Qed.

Lemma filter_all_true (f : nat -> bool) l : (forall x, In x l -> f x = true) -> filter f l = l.
Proof.
  induction l as [|x l IH]; intros H; cbn [filter]; [reflexivity|]. rewrite (H x (or_introl eq_refl)). f_equal. apply IH. intros y Hy. apply H. right. exact Hy.
Qed.

(* the request an invocation acts on: the names given, or the default task, or the task clean under --clean *)
Definition effective_request (defs : list taskdef) (f : flags) (req : list name) : list name :=
  if f_clean f then [clean_name] else match req with [] => [default_name] | _ => req end.

(* C03 at the command line: the tasks an invocation reports (one entry per task, in execution order) are exactly the tasks
   reachable from the request through task dependencies, each once, every dependency before its dependant; and every task
   whose commands were started is one of them *)
Theorem invocation_runs_the_closure pick defs vars s f req s' ob rs :
  (forall k l, Permutation (pick k l) l) ->
  invoke pick defs vars s f req = (s', ob) -> ob_stdout ob = SDJson rs ->
  valid_run (gdefs defs) (effective_request defs f req) (map tr_name rs) /\
  (forall n, In n (ob_executed ob) -> In n (map tr_name rs)).
Proof.
  intros Hpick H HS.
  assert (R : forall req0, run_req pick defs s f req0 = (s', ob) ->
              valid_run (gdefs defs) req0 (map tr_name rs) /\ (forall n, In n (ob_executed ob) -> In n (map tr_name rs))).
  { intros req0. unfold run_req. fold (gdefs defs). destruct (run_order pick (gdefs defs) req0) as [order|e] eqn:Eo; [|intros X; inversion X; subst; discriminate].
    match goal with |- context [run_i _ _ _ ?o] => set (otasks := o) end.
    destruct (rr_out DI (run_i (f_force f) (beh_of defs) s otasks)) as [rs0|e] eqn:Er; [|intros X; inversion X; subst; discriminate].
    intros X. inversion X; subst s' ob. clear X.
    assert (Hex : forall g a b, ob_executed (run_tasks_obs g a b) = b).
    { intros g a b0. unfold run_tasks_obs. destruct (report a) as [ms [[[t c] s0]|]]; reflexivity. }
    rewrite Hex.
    assert (Ers : rs = map (mk_res defs) rs0).
    { unfold run_tasks_obs in HS. destruct (report (map (mk_res defs) rs0)) as [ms [[[t c] s0]|]]; cbn [ob_stdout] in HS.
      - destruct (visible f); discriminate.
      - destruct (f_json f); [inversion HS; reflexivity|destruct (visible f); discriminate]. }
    subst rs.
    assert (Names : map tr_name (map (mk_res defs) rs0) = order).
    { rewrite map_map. rewrite (map_ext _ r_task) by (intros a; reflexivity).
      rewrite (run_results_names DI deqb_i None digest_i (f_force f) (beh_of defs) s otasks rs0 Er). unfold otasks. rewrite otasks_names.
      apply filter_all_true. intros x Hx. pose proof (lookup_find_def defs x (run_order_defined pick Hpick _ _ _ Eo x Hx)) as D.
      destruct (find_def defs x); [reflexivity|contradiction]. }
    rewrite Names. split; [exact (run_order_sound pick Hpick _ _ _ Eo)|].
    intros n Hn. unfold run_i in Hn.
    rewrite (executed_are_the_unskipped DI deqb_i None digest_i (f_force f) (beh_of defs) s otasks rs0 Er) in Hn.
    apply in_map_iff in Hn. destruct Hn as (r0 & <- & Hr0). apply filter_In in Hr0. destruct Hr0 as [Hr0 _].
    rewrite <- Names, map_map. rewrite (map_ext _ r_task) by (intros a; reflexivity). apply (in_map r_task). exact Hr0. }
  unfold invoke in H. unfold effective_request.
  destruct (f_quiet f && f_debug f); [inversion H; subst; discriminate|].
  destruct (f_vars f); [inversion H; subst; cbn in HS; destruct (f_quiet f || f_json f); discriminate|].
  destruct (f_clean f).
  { destruct (has_task defs clean_name); [exact (R _ H)|inversion H; subst; cbn in HS; destruct (f_quiet f || f_json f); discriminate]. }
  destruct (f_show f); [inversion H; subst; cbn in HS; destruct (f_quiet f || f_json f); discriminate|].
  destruct req as [|r0 req].
  - destruct (has_task defs default_name); [exact (R _ H)|inversion H; subst; cbn in HS; destruct (f_quiet f || f_json f); discriminate].
  - exact (R _ H).
Qed.

(* ---- C10 / C01 over mixed histories: file edits, cache removal, torn cache files, runs killed at any micro-step, and complete
   invocations with any flags ---- *)
Inductive hstep := HOp (o : op) | HInvoke (f : flags) (req : list name).

Section Histories.
Variable pick : nat -> list name -> list name.
Variable defs : list taskdef.
Variable vars : list (name * bytes).

Definition hstep_apply (s : st DI) (h : hstep) : st DI :=
  match h with
  | HOp o => apply_op_i s o
  | HInvoke f req => fst (invoke pick defs vars s f req)
  end.
Definition mixed_history (fs : path -> option content) (hs : list hstep) : st DI := fold_left hstep_apply hs (init_i fs).

Theorem mixed_history_inv fs hs : Inv_i (mixed_history fs hs).
Proof.
  unfold mixed_history. assert (H0 : Inv_i (init_i fs)) by (apply (reachable_inv DI deqb_i None digest_i deqb_i_spec fs [])).
  revert H0. generalize (init_i fs). induction hs as [|h hs IH]; intros s H; cbn [fold_left]; [exact H|].
  apply IH. destruct h as [o|f req]; cbn [hstep_apply].
  - apply (apply_op_inv DI deqb_i None digest_i deqb_i_spec). exact H.
  - destruct (invoke pick defs vars s f req) as [s' ob] eqn:E. cbn [fst]. exact (invoke_keeps_invariant pick defs vars s f req s' ob H E).
Qed.

(* after ANY such history, an invocation that reports a task as skipped is right about it *)
Theorem skip_sound_after_any_history fs hs f req s' ob rs r :
  (forall k l, Permutation (pick k l) l) ->
  invoke pick defs vars (mixed_history fs hs) f req = (s', ob) -> ob_stdout ob = SDJson rs -> In r rs -> tr_skipped r = true ->
  exists d F, find_def defs (tr_name r) = Some d /\
              inputs_of (files DI s') (to_task d) = Some F /\ last_ok DI s' (tr_name r) = Some F.
Proof. intros Hp. apply invocation_skip_sound; [exact Hp|apply mixed_history_inv]. Qed.
End Histories.

(* C20: the JSON document of an invocation, in full: exit 0; one entry per task of the request's closure, in an order in which
   every dependency precedes its dependant; skipped entries carry no commands; the others carry exactly the commands of their
   definition with their outputs and statuses, all of them 0 *)
Lemma run_req_json_cmds pick defs s f req0 s' ob rs :
  (forall k l, Permutation (pick k l) l) ->
  run_req pick defs s f req0 = (s', ob) -> ob_stdout ob = SDJson rs ->
  forall r, In r rs -> tr_skipped r = false -> exists d, find_def defs (tr_name r) = Some d /\ tr_cmds r = td_cmds d.
Proof.
  intros Hpick. unfold run_req. fold (gdefs defs). destruct (run_order pick (gdefs defs) req0) as [order|e] eqn:Eo; [|intros X; inversion X; subst; discriminate].
  match goal with |- context [run_i _ _ _ ?o] => set (otasks := o) end.
  destruct (rr_out DI (run_i (f_force f) (beh_of defs) s otasks)) as [rs0|e] eqn:Er; [|intros X; inversion X; subst; discriminate].
  intros X HS r Hr Hns. inversion X; subst s' ob. clear X.
  assert (Ers : rs = map (mk_res defs) rs0).
  { unfold run_tasks_obs in HS. destruct (report (map (mk_res defs) rs0)) as [ms [[[t c] s0]|]]; cbn [ob_stdout] in HS.
    - destruct (visible f); discriminate.
    - destruct (f_json f); [inversion HS; reflexivity|destruct (visible f); discriminate]. }
  subst rs. apply in_map_iff in Hr. destruct Hr as (r0 & <- & Hr0). cbn [mk_res tr_skipped tr_name tr_cmds] in *. rewrite Hns.
  assert (Hin : In (r_task r0) (map tname otasks)).
  { rewrite <- (run_results_names DI deqb_i None digest_i (f_force f) (beh_of defs) s otasks rs0 Er). apply (in_map r_task). exact Hr0. }
  unfold otasks in Hin. rewrite otasks_names in Hin. apply filter_In in Hin. destruct Hin as [_ Hd].
  destruct (find_def defs (r_task r0)) as [d|]; [exists d; split; reflexivity|discriminate].
Qed.

Theorem json_is_the_run pick defs vars s f req s' ob rs :
  (forall k l, Permutation (pick k l) l) ->
  invoke pick defs vars s f req = (s', ob) -> ob_stdout ob = SDJson rs ->
  ob_exit ob = 0 /\
  valid_run (gdefs defs) (effective_request defs f req) (map tr_name rs) /\
  (forall r, In r rs -> tr_skipped r = true -> tr_cmds r = []) /\
  (forall r, In r rs -> tr_skipped r = false -> exists d, find_def defs (tr_name r) = Some d /\ tr_cmds r = td_cmds d) /\
  ~ has_failure rs.
Proof.
  intros Hpick H HS.
  destruct (json_lists_the_run pick defs vars s f req s' ob rs H HS) as (E0 & order0 & _ & Sk & NF).
  destruct (invocation_runs_the_closure pick defs vars s f req s' ob rs Hpick H HS) as (VR & _).
  split; [exact E0|]. split; [exact VR|]. split; [exact Sk|]. split; [|exact NF].
  destruct (invoke_cases _ _ _ _ _ _ _ _ H) as [(_ & N)|(req' & X)]; [exfalso; exact (N rs HS)|].
  exact (run_req_json_cmds pick defs s f req' s' ob rs Hpick X HS).
Qed.
