(* Proofs about reports (C09, C20). *)
From Spok Require Import Base Graph RunCache RunCacheProofs RunCacheInst App.
From Coq Require Import Permutation Sorted.
Open Scope nat_scope.

Definition has_failure (rs : list taskres) : Prop :=
  exists r c, In r rs /\ In c (tr_cmds r) /\ c_status c <> 0.

Lemma first_bad_cmd_spec l : match first_bad_cmd l with
  | Some (c, s) => s <> 0 /\ exists x, In x l /\ c_cmd x = c /\ c_status x = s
  | None => cmds_ok l = true end.
Proof.
  induction l as [|x l IH]; cbn [first_bad_cmd]; [reflexivity|].
  destruct (cmd_ok x) eqn:E.
  - destruct (first_bad_cmd l) as [[c s]|].
    + destruct IH as (A & y & B & C). split; [exact A|exists y; split; [right; exact B|exact C]].
    + unfold cmds_ok in *. cbn [forallb]. rewrite E. exact IH.
  - unfold cmd_ok in E. apply Nat.eqb_neq in E. split; [exact E|exists x; split; [left; reflexivity|auto]].
Qed.

Lemma cmds_ok_false l : cmds_ok l = false <-> exists c, In c l /\ c_status c <> 0.
Proof.
  unfold cmds_ok. split.
  - intros H. induction l as [|x l IH]; [discriminate|]. cbn [forallb] in H. unfold cmd_ok at 1 in H.
    destruct (Nat.eqb (c_status x) 0) eqn:E; [destruct (IH H) as (c & A & B); exists c; split; [right; exact A|exact B]|].
    apply Nat.eqb_neq in E. exists x. split; [left; reflexivity|exact E].
  - intros (c & Hin & Hs). destruct (forallb cmd_ok l) eqn:E; [|reflexivity]. rewrite forallb_forall in E.
    specialize (E c Hin). unfold cmd_ok in E. apply Nat.eqb_eq in E. contradiction.
Qed.

(* the failure runTasks reports is a real one: that task, that command, that non-zero status, and it is the first in run order *)
Lemma report_spec rs : match snd (report rs) with
  | Some (t, c, s) => s <> 0 /\ exists pre r post, rs = pre ++ r :: post /\ forallb res_ok pre = true /\ tr_name r = t /\
                      exists x, In x (tr_cmds r) /\ c_cmd x = c /\ c_status x = s
  | None => forallb res_ok rs = true end.
Proof.
  induction rs as [|r rs IH]; cbn [report]; [reflexivity|].
  destruct (res_ok r) eqn:E.
  - destruct (report rs) as [ms f]. cbn [snd] in *. destruct f as [[[t c] s]|]; cbn [forallb]; [|rewrite E; exact IH].
    destruct IH as (A & pre & r0 & post & -> & B & C & Dd). split; [exact A|]. exists (r :: pre), r0, post.
    split; [reflexivity|]. split; [cbn [forallb]; rewrite E; exact B|auto].
  - cbn [snd]. pose proof (first_bad_cmd_spec (tr_cmds r)) as F. unfold res_ok in E.
    destruct (first_bad_cmd (tr_cmds r)) as [[c s]|]; [|congruence].
    destruct F as (A & x & B & C). split; [exact A|]. exists [], r, rs. split; [reflexivity|]. split; [reflexivity|]. split; [reflexivity|eauto].
Qed.

Lemma forallb_res_ok rs : forallb res_ok rs = true <-> ~ has_failure rs.
Proof.
  split.
  - intros H (r & c & Hr & Hc & Hs). rewrite forallb_forall in H. specialize (H r Hr). unfold res_ok in H.
    assert (cmds_ok (tr_cmds r) = false) by (apply cmds_ok_false; eauto). congruence.
  - intros H. apply forallb_forall. intros r Hr. unfold res_ok. destruct (cmds_ok (tr_cmds r)) eqn:E; [reflexivity|].
    exfalso. apply H. apply cmds_ok_false in E. destruct E as (c & A & B). exists r, c. auto.
Qed.

(* C09: the invocation fails iff some command of some executed task exited non-zero - whatever the flags *)
Theorem failing_command_fails f rs ex : ob_exit (run_tasks_obs f rs ex) = 1 <-> has_failure rs.
Proof.
  unfold run_tasks_obs. pose proof (report_spec rs) as R. destruct (report rs) as [ms bad]. cbn [snd] in R.
  destruct bad as [[[t c] s]|]; cbn [ob_exit].
  - split; [intros _|reflexivity]. destruct R as (A & pre & r & post & -> & _ & _ & x & B & _ & C).
    exists r, x. split; [apply in_or_app; right; left; reflexivity|]. split; [exact B|]. rewrite C. exact A.
  - split; [discriminate|]. intros H. apply forallb_res_ok in R. contradiction.
Qed.

(* C09: the error names the failing task, its command and status *)
Theorem failure_is_named f rs ex t c s : ob_error (run_tasks_obs f rs ex) = Some (ECommandFailed t c s) ->
  s <> 0 /\ exists r x, In r rs /\ tr_name r = t /\ In x (tr_cmds r) /\ c_cmd x = c /\ c_status x = s.
Proof.
  unfold run_tasks_obs. pose proof (report_spec rs) as R. destruct (report rs) as [ms bad]. cbn [snd] in R.
  destruct bad as [[[t' c'] s']|]; cbn [ob_error]; [|discriminate]. intros H. inversion H; subst.
  destruct R as (A & pre & r & post & -> & _ & B & x & C). split; [exact A|]. exists r, x. split; [apply in_or_app; right; left; reflexivity|auto].
Qed.

(* C20: with --json and no failing command, standard output is exactly the JSON document of the results *)
Theorem json_report f rs ex : f_json f = true -> ~ has_failure rs -> ob_stdout (run_tasks_obs f rs ex) = SDJson rs.
Proof.
  intros J NF. unfold run_tasks_obs. pose proof (report_spec rs) as R. destruct (report rs) as [ms bad]. cbn [snd] in R.
  destruct bad as [[[t c] s]|]; cbn [ob_stdout]; [|rewrite J; reflexivity].
  exfalso. apply NF. destruct R as (A & pre & r & post & -> & _ & _ & x & B & _ & C).
  exists r, x. split; [apply in_or_app; right; left; reflexivity|]. split; [exact B|]. rewrite C. exact A.
Qed.

(* C20: with --quiet (and not --json) standard output is empty *)
Theorem quiet_report f rs ex : f_quiet f = true -> f_json f = false -> ob_stdout (run_tasks_obs f rs ex) = SDNothing.
Proof.
  intros Q J. unfold run_tasks_obs, visible. destruct (report rs) as [ms bad]. rewrite Q, J.
  destruct bad as [[[t c] s]|]; reflexivity.
Qed.

(* C20: the listing is sorted and lists every defined task once *)
Lemma insert_n_perm x l : Permutation (x :: l) (insert_n x l).
Proof. induction l as [|y l IH]; cbn [insert_n]; [reflexivity|]. destruct (Nat.leb x y); [reflexivity|]. rewrite perm_swap. constructor. exact IH. Qed.
Lemma sort_names_perm l : Permutation l (sort_names l).
Proof. induction l as [|x l IH]; cbn [sort_names fold_right]; [reflexivity|]. etransitivity; [|apply insert_n_perm]. constructor. exact IH. Qed.
Lemma insert_n_sorted x l : StronglySorted le l -> StronglySorted le (insert_n x l).
Proof.
  induction 1 as [|y l Hs IH Hy]; cbn [insert_n]; [repeat constructor|].
  destruct (Nat.leb x y) eqn:E.
  - apply Nat.leb_le in E. constructor; [constructor; assumption|]. constructor; [exact E|].
    eapply Forall_impl; [|exact Hy]. intros z Hz. lia.
  - apply Nat.leb_gt in E. constructor; [exact IH|].
    eapply Permutation_Forall; [apply insert_n_perm|]. constructor; [lia|exact Hy].
Qed.
Theorem listing_sorted l : StronglySorted le (sort_names l) /\ Permutation l (sort_names l).
Proof. split; [|apply sort_names_perm]. induction l as [|x l IH]; cbn [sort_names fold_right]; [constructor|apply insert_n_sorted; exact IH]. Qed.

(* C20: the JSON document lists exactly the tasks of the run in execution order, executed commands for the ones that ran *)
Theorem json_lists_the_run pick defs s f req s' ob rs :
  invoke pick defs s f req = (s', ob) -> ob_stdout ob = SDJson rs ->
  ob_exit ob = 0 /\ exists order, map tr_name rs = order /\
    (forall r, In r rs -> tr_skipped r = true -> tr_cmds r = []) /\ ~ has_failure rs.
Proof.
  unfold invoke. intros H HS.
  destruct (f_show f).
  { inversion H; subst. cbn [ob_stdout] in HS. destruct (f_quiet f || f_json f); discriminate. }
  set (req' := match req with [] => _ | _ => req end) in H. destruct req' as [|r0 req'].
  { inversion H; subst. cbn [ob_stdout] in HS. destruct (f_quiet f || f_json f); discriminate. }
  destruct (run_order pick _ (r0 :: req')) as [order|e]; [|inversion H; subst; discriminate].
  destruct (rr_out DI (run_i (f_force f) (beh_of defs) s _)) as [rs0|e] eqn:Eo; [|inversion H; subst; discriminate].
  inversion H; subst ob. clear H. unfold run_tasks_obs in *.
  pose proof (report_spec (map (mk_res defs) rs0)) as R. destruct (report (map (mk_res defs) rs0)) as [ms bad]. cbn [snd] in R.
  destruct bad as [[[t c] s0]|]; cbn [ob_stdout ob_exit] in *.
  - destruct (visible f); discriminate.
  - destruct (f_json f); [|destruct (visible f); discriminate]. inversion HS; subst rs. split; [reflexivity|].
    exists (map tr_name (map (mk_res defs) rs0)). split; [reflexivity|]. split.
    + intros r Hr Sk. apply in_map_iff in Hr. destruct Hr as (r1 & <- & _). unfold mk_res in *. cbn [tr_skipped tr_cmds] in *. rewrite Sk. reflexivity.
    + apply forallb_res_ok. exact R.
Qed.
