From Spok Require Import Base.
From Coq Require Import ZArith ZifyN ZifyNat ZifyBool.
Ltac Zify.zify_post_hook ::= Z.div_mod_to_equations.
Open Scope N_scope.

Lemma inr_spec lo hi x : inr lo hi x = true <-> lo <= x /\ x <= hi.
Proof. unfold inr. lia. Qed.

Definition dspec (s : bytes) (r : N) (w : nat) : Prop :=
  (w <= 4)%nat /\ (w <= length s)%nat /\ (w = 0%nat <-> s = []) /\
  (r = 10 -> w = 1%nat /\ exists t, s = 10 :: t) /\
  (r < 128 -> w = 1%nat /\ exists t, s = r :: t) /\
  (forall b t, s = b :: t -> b < 128 -> r = b /\ w = 1%nat) /\
  ((w >= 2)%nat -> Forall (fun b => 128 <= b) (firstn w s)).

Lemma dspec_err1 s0 t : 128 <= s0 -> dspec (s0 :: t) RuneError 1.
Proof.
  intros H. unfold dspec, RuneError. simpl. repeat split; try lia; try discriminate;
  intros; match goal with E : _ :: _ = _ :: _ |- _ => inversion E; subst; lia end.
Qed.

Ltac fin := unfold dspec; cbn [length firstn]; repeat split; try lia; try discriminate;
            try (intros; exfalso; lia); try (intros _; repeat constructor; lia);
            try (intros; match goal with E : _ :: _ = _ :: _ |- _ => inversion E; subst; lia end).

Lemma decode_spec s : let '(r, w) := decode s in dspec s r w.
Proof.
  unfold decode.
  destruct s as [|s0 t].
  { unfold dspec, RuneError. simpl. repeat split; try lia; try discriminate; intros; try lia; try discriminate. }
  destruct (s0 <? 128) eqn:E0.
  { unfold dspec. simpl. repeat split; try lia; try discriminate; eauto; try (subst s0; eauto; fail);
    intros; match goal with E : _ :: _ = _ :: _ |- _ => inversion E; subst; lia end. }
  destruct (s0 <? 194) eqn:E1; [apply dspec_err1; lia|].
  destruct (s0 <? 224) eqn:E2.
  { destruct t as [|s1 t]; [apply dspec_err1; lia|].
    destruct (inr 128 191 s1) eqn:I1; [|apply dspec_err1; lia].
    apply inr_spec in I1. fin. }
  destruct (s0 <? 240) eqn:E3.
  { destruct t as [|s1 [|s2 t]]; try (apply dspec_err1; lia).
    destruct (inr _ _ s1) eqn:I1; [|apply dspec_err1; lia].
    destruct (inr 128 191 s2) eqn:I2; [|apply dspec_err1; lia].
    apply inr_spec in I1, I2.
    destruct (s0 =? 224) eqn:E224; destruct (s0 =? 237) eqn:E237; fin. }
  destruct (s0 <? 245) eqn:E4; [|apply dspec_err1; lia].
  destruct t as [|s1 [|s2 [|s3 t]]]; try (apply dspec_err1; lia).
  destruct (inr _ _ s1) eqn:I1; [|apply dspec_err1; lia].
  destruct (inr 128 191 s2) eqn:I2; [|apply dspec_err1; lia].
  destruct (inr 128 191 s3) eqn:I3; [|apply dspec_err1; lia].
  apply inr_spec in I1, I2, I3.
  destruct (s0 =? 240) eqn:E240; destruct (s0 =? 244) eqn:E244; fin.
Qed.
Print Assumptions decode_spec.
