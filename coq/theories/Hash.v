(* Model of /repo/hash/hash.go: Concurrent.Hash as (a) a schedule-independent specification
   hash_spec and (b) a labelled transition system for the feeder / worker pool / closer / collector,
   run under an arbitrary scheduler.  SHA-256 is a Section variable: nothing is assumed about it
   except where a theorem says so. *)
From Spok Require Import Base.
Open Scope N_scope.


(* what a path is, as far as os.Open / Stat / io.Copy can tell *)
Inductive fnode := Regular (content : bytes) | Directory | Unreadable.
Definition fsys := bytes -> fnode.

Inductive res := ROk (path : bytes) (h : bytes) | RErr (path : bytes).
Definition is_err (r : res) : bool := match r with RErr _ => true | ROk _ _ => false end.
(* bytes.Join([r.hash, []byte(r.file)], "") -- r.hash is nil for an error result *)
Definition item (r : res) : bytes := match r with ROk p h => h ++ p | RErr p => p end.

(* bytes.Compare(a, b) == -1 *)
Fixpoint blt (a b : bytes) : bool :=
  match a, b with
  | [], [] => false
  | [], _ :: _ => true
  | _ :: _, [] => false
  | x :: a', y :: b' => if x <? y then true else if y <? x then false else blt a' b'
  end.
Definition ble (a b : bytes) : bool := negb (blt b a).

Fixpoint insert (x : bytes) (l : list bytes) : list bytes :=
  match l with
  | [] => [x]
  | y :: t => if ble x y then x :: l else y :: insert x t
  end.
Definition bsort (l : list bytes) : list bytes := fold_right insert [] l.

Inductive outcome := Digest (hex : bytes) | HashError.

Section WithSha.
Variable sha : bytes -> bytes.

(* one iteration of the worker loop on one path *)
Definition proc (fs : fsys) (p : bytes) : option res :=
  match fs p with
  | Regular c => Some (ROk p (sha c))
  | Directory => None
  | Unreadable => Some (RErr p)
  end.

Definition preimage (acc : list res) : bytes := concat (bsort (map item acc)).

(* the tail of Concurrent.Hash, after the results channel was drained into acc *)
Definition finish (acc : list res) : outcome :=
  if existsb is_err acc then HashError else Digest (hex_encode (sha (preimage acc))).

Definition results (fs : fsys) (files : list bytes) : list res :=
  flat_map (fun p => match proc fs p with Some r => [r] | None => [] end) files.

(* the specification: what every schedule must produce *)
Definition hash_spec (fs : fsys) (files : list bytes) : outcome := finish (results fs files).

(* ---- the worker pool as a transition system ---- *)
Inductive wst := Idle | Hold (r : res) | Exited.

Record pool := {
  todo : list bytes;     (* files the feeder has not sent yet *)
  jclosed : bool;        (* close(jobs) done, feeder goroutine finished *)
  ws : list wst;         (* the workers *)
  rclosed : bool;        (* wg.Wait() returned and close(results) done: closer goroutine finished *)
  acc : list res;        (* accumulator of the collecting loop (main goroutine) *)
  fin : bool             (* the `for r := range results` loop has ended *)
}.

Inductive tr := Send (i : nat) | CloseJobs | Exit (i : nat) | Collect (i : nat) | CloseResults | Finish.

Definition wst_idle (w : wst) : bool := match w with Idle => true | _ => false end.
Definition wst_exited (w : wst) : bool := match w with Exited => true | _ => false end.
Definition wst_hold (w : wst) : bool := match w with Hold _ => true | _ => false end.

Definition enabled_b (st : pool) (t : tr) : bool :=
  match t with
  | Send i => negb (is_nil_b (todo st)) && match nth_error (ws st) i with Some Idle => true | _ => false end
  | CloseJobs => is_nil_b (todo st) && negb (jclosed st)
  | Exit i => jclosed st && match nth_error (ws st) i with Some Idle => true | _ => false end
  | Collect i => negb (fin st) && match nth_error (ws st) i with Some (Hold _) => true | _ => false end
  | CloseResults => forallb wst_exited (ws st) && negb (rclosed st)
  | Finish => rclosed st && negb (fin st)
  end.

Fixpoint set_nth {A} (i : nat) (x : A) (l : list A) : list A :=
  match l, i with
  | [], _ => []
  | _ :: t, O => x :: t
  | y :: t, S i' => y :: set_nth i' x t
  end.

Definition step (fs : fsys) (st : pool) (t : tr) : pool :=
  match t with
  | Send i =>
    match todo st with
    | [] => st
    | p :: rest =>
      {| todo := rest; jclosed := jclosed st;
         ws := set_nth i (match proc fs p with Some r => Hold r | None => Idle end) (ws st);
         rclosed := rclosed st; acc := acc st; fin := fin st |}
    end
  | CloseJobs => {| todo := todo st; jclosed := true; ws := ws st; rclosed := rclosed st; acc := acc st; fin := fin st |}
  | Exit i => {| todo := todo st; jclosed := jclosed st; ws := set_nth i Exited (ws st); rclosed := rclosed st; acc := acc st; fin := fin st |}
  | Collect i =>
    match nth_error (ws st) i with
    | Some (Hold r) => {| todo := todo st; jclosed := jclosed st; ws := set_nth i Idle (ws st); rclosed := rclosed st;
                          acc := acc st ++ [r]; fin := fin st |}
    | _ => st
    end
  | CloseResults => {| todo := todo st; jclosed := jclosed st; ws := ws st; rclosed := true; acc := acc st; fin := fin st |}
  | Finish => {| todo := todo st; jclosed := jclosed st; ws := ws st; rclosed := rclosed st; acc := acc st; fin := true |}
  end.

Definition all_trs (st : pool) : list tr :=
  let idx := seq 0 (length (ws st)) in
  map Send idx ++ [CloseJobs] ++ map Exit idx ++ map Collect idx ++ [CloseResults; Finish].

Definition enabled (st : pool) : list tr := filter (enabled_b st) (all_trs st).

(* every goroutine has run to completion *)
Definition is_final (st : pool) : bool :=
  is_nil_b (todo st) && jclosed st && forallb wst_exited (ws st) && rclosed st && fin st.

Fixpoint repeat_w (n : nat) : list wst := match n with O => [] | S n' => Idle :: repeat_w n' end.

(* nWorkers := min(runtime.NumCPU(), len(files)) *)
Definition init_pool (ncpu : nat) (files : list bytes) : pool :=
  {| todo := files; jclosed := false; ws := repeat_w (Nat.min ncpu (length files)); rclosed := false; acc := []; fin := false |}.

Inductive run_result := Done (o : outcome) | Deadlock | OutOfFuel.

(* sched k = the scheduler's k-th choice among the enabled transitions *)
Fixpoint run_pool (fs : fsys) (fuel : nat) (sched : nat -> nat) (k : nat) (st : pool) : run_result :=
  match enabled st with
  | [] => if is_final st then Done (finish (acc st)) else Deadlock
  | t0 :: ts =>
    match fuel with
    | O => OutOfFuel
    | S f => run_pool fs f sched (S k) (step fs st (nth (sched k mod length (t0 :: ts)) (t0 :: ts) t0))
    end
  end.

Definition pool_fuel (ncpu : nat) (files : list bytes) : nat := 3 * length files + Nat.min ncpu (length files) + 4.

Definition hash_run (fs : fsys) (ncpu : nat) (files : list bytes) (sched : nat -> nat) : run_result :=
  run_pool fs (pool_fuel ncpu files) sched 0 (init_pool ncpu files).

End WithSha.
