(* Every fault-free token stream of the lexer is accepted by the value-aware monitor. *)
From Spok Require Import Base Lexer Parser DecodeSpec LexInv LexSteps LexProtocol Cst LexFwd RoundTripL CstWf TrimProofs ValueProtocol ValueCommands.
From Coq Require Import Lia.
Open Scope N_scope.

Lemma lexTaskCommands_v l : Follows2 STaskCommands l (lexTaskCommands l).
Proof.
  intros d e g HI _ (r & Ed & Hr & Hne) HR. cbn [R2] in HR. unfold lexTaskCommands.
  apply (lexTaskCommandsLoop_v _ l d e g true (rev (pre l)) [] HI).
  - rewrite app_nil_r, rev_involutive. reflexivity.
  - cbn [FirstOK]. split; [exact HR|]. exists r. rewrite rev_length. split; [exact Ed|]. split; [exact Hr|].
    intros E. apply (f_equal (@rev N)) in E. rewrite rev_involutive in E. cbn in E. congruence.
  - apply K_nil.
Qed.

Lemma lexString_v0 l : Follows2 SString l (lexString l).
Proof.
  intros d e g HI _ HP2 HR. cbn [Pre2 R2] in *. unfold lexString.
  apply (lexString_v _ l d e g [] HI HR); [rewrite HP2; reflexivity|reflexivity|reflexivity|congruence].
Qed.

Lemma lexComment_v0 l : Follows2 SComment l (lexComment l).
Proof.
  intros d e g HI HP _ HR. cbn [Pre R2] in *. unfold lexComment.
  destruct (lexComment_v (S (length (suf l))) l d e g HI HR ltac:(rewrite HP; reflexivity)) as [H|[Hs Hm]]; [left; exact H|].
  right. rewrite Hs. cbn [Pre2 R2]. split; [exact I|left; exact Hm].
Qed.

Lemma step_v s l : Follows2 s l (step s l).
Proof.
  destruct s; cbn [step].
  - apply lexStart_v.
  - apply lexHash_v.
  - apply lexComment_v0.
  - apply lexTaskKeyword_v.
  - apply lexLeftParen_v.
  - apply lexRightParen_v.
  - apply lexOutputOperator_v.
  - apply lexLeftBrace_v.
  - apply lexRightBrace_v.
  - apply lexTaskBody_v.
  - apply lexTaskCommands_v.
  - apply lexTaskName_v.
  - apply lexIdent_v.
  - apply lexArgs_v.
  - apply lexComma_v.
  - apply lexDeclare_v.
  - apply lexString_v0.
  - apply unexpected_v.
  - intros d e g _ _ _ HR. right. split; [exact I|exact HR].
Qed.

Lemma run_v : forall fuel s l d e g, Inv l d e g -> Pre s l -> Pre2 s l -> R2 s l (mst l) ->
  fl (run fuel s l) <> FOk \/ mst (run fuel s l) = M2Done.
Proof.
  induction fuel as [|fuel IH]; intros s l d e g HI HP HP2 HR.
  - destruct s; cbn [run is_done]; try (left; cbn; discriminate). right. exact HR.
  - destruct (st_eq_dec s SDone) as [->|Hs]; [right; exact HR|].
    assert (E : run (S fuel) s l = let '(s', l') := step s l in if is_ok (fl l') then run fuel s' l' else l') by (destruct s; try congruence; reflexivity).
    rewrite E. pose proof (step_v s l d e g HI HP HP2 HR) as F. pose proof (step_ok s l d e g HI HP Hs) as [[_ G] _].
    destruct (step s l) as [s' l']. cbn [fst snd] in *.
    destruct (fl l') eqn:Efl; cbn [is_ok]; [|left; congruence|left; congruence].
    destruct F as [F|[F2 FR]]; [congruence|].
    destruct s'; try (destruct G as (d' & e' & g' & I' & P'); apply (IH _ l' d' e' g' I' P' F2 FR)).
    destruct fuel; right; exact FR.
Qed.

(* chronological tokens of a fault-free scan drive the monitor from Top to Done, never to Reject *)
Theorem lex_accept2 s : fst (lex s) = FOk -> mrun2 M2Top (snd (lex s)) = M2Done.
Proof.
  unfold lex. cbn [fst snd]. intros Hf.
  destruct (run_v (6 * length s + 8) SStart (init s) [] 0%nat 0%nat (init_inv s) eq_refl I (or_introl eq_refl)) as [H|H]; [congruence|exact H].
Qed.
