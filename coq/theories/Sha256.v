(* SHA-256 (FIPS 180-4) over lists of bytes, 32-bit words as N reduced mod 2^32.
   Executable (vm_compute / extraction); compared with Go's crypto/sha256 by the correspondence check.
   Nothing is proved about it: the digest theorems quantify over an arbitrary `sha`. *)
From Spok Require Import Base.
Open Scope N_scope.

Definition mask32 : N := 4294967295.
Definition add32 (a b : N) : N := N.land (a + b) mask32.
Definition rotr (n x : N) : N := N.lor (N.shiftr x n) (N.land (N.shiftl x (32 - n)) mask32).
Definition not32 (x : N) : N := N.lxor x mask32.
Definition ch (x y z : N) : N := N.lxor (N.land x y) (N.land (not32 x) z).
Definition maj (x y z : N) : N := N.lxor (N.lxor (N.land x y) (N.land x z)) (N.land y z).
Definition bsig0 (x : N) : N := N.lxor (N.lxor (rotr 2 x) (rotr 13 x)) (rotr 22 x).
Definition bsig1 (x : N) : N := N.lxor (N.lxor (rotr 6 x) (rotr 11 x)) (rotr 25 x).
Definition ssig0 (x : N) : N := N.lxor (N.lxor (rotr 7 x) (rotr 18 x)) (N.shiftr x 3).
Definition ssig1 (x : N) : N := N.lxor (N.lxor (rotr 17 x) (rotr 19 x)) (N.shiftr x 10).

Definition kconst : list N := [
 1116352408; 1899447441; 3049323471; 3921009573; 961987163; 1508970993; 2453635748; 2870763221;
 3624381080; 310598401; 607225278; 1426881987; 1925078388; 2162078206; 2614888103; 3248222580;
 3835390401; 4022224774; 264347078; 604807628; 770255983; 1249150122; 1555081692; 1996064986;
 2554220882; 2821834349; 2952996808; 3210313671; 3336571891; 3584528711; 113926993; 338241895;
 666307205; 773529912; 1294757372; 1396182291; 1695183700; 1986661051; 2177026350; 2456956037;
 2730485921; 2820302411; 3259730800; 3345764771; 3516065817; 3600352804; 4094571909; 275423344;
 430227734; 506948616; 659060556; 883997877; 958139571; 1322822218; 1537002063; 1747873779;
 1955562222; 2024104815; 2227730452; 2361852424; 2428436474; 2756734187; 3204031479; 3329325298].

Definition h0 : list N := [1779033703; 3144134277; 1013904242; 2773480762; 1359893119; 2600822924; 528734635; 1541459225].

(* big-endian 32-bit words from bytes *)
Fixpoint words (bs : bytes) : list N :=
  match bs with
  | a :: b :: c :: d :: r => (a * 16777216 + b * 65536 + c * 256 + d) :: words r
  | _ => []
  end.

Definition word_bytes (w : N) : bytes :=
  [(w / 16777216) mod 256; (w / 65536) mod 256; (w / 256) mod 256; w mod 256].

Fixpoint zeros (n : nat) : bytes := match n with O => [] | S n' => 0 :: zeros n' end.

Definition len64 (n : N) : bytes :=
  [(n / 72057594037927936) mod 256; (n / 281474976710656) mod 256; (n / 1099511627776) mod 256; (n / 4294967296) mod 256;
   (n / 16777216) mod 256; (n / 65536) mod 256; (n / 256) mod 256; n mod 256].

Definition pad (m : bytes) : bytes :=
  let l := length m in
  let k := ((119 - (l mod 64)) mod 64)%nat in   (* zero bytes so that l + 1 + k + 8 is a multiple of 64 *)
  m ++ [128] ++ zeros k ++ len64 (N.of_nat l * 8).

(* message schedule: rw holds W[t-1], W[t-2], ... (most recent first) *)
Fixpoint extend (n : nat) (rw : list N) : list N :=
  match n with
  | O => rw
  | S n' =>
    let w := add32 (add32 (ssig1 (nth 1 rw 0)) (nth 6 rw 0)) (add32 (ssig0 (nth 14 rw 0)) (nth 15 rw 0)) in
    extend n' (w :: rw)
  end.

Definition round (st : list N) (kw : N * N) : list N :=
  match st with
  | [a; b; c; d; e; f; g; h] =>
    let t1 := add32 (add32 (add32 h (bsig1 e)) (add32 (ch e f g) (fst kw))) (snd kw) in
    let t2 := add32 (bsig0 a) (maj a b c) in
    [add32 t1 t2; a; b; c; add32 d t1; e; f; g]
  | _ => st
  end.

Fixpoint add_vec (a b : list N) : list N :=
  match a, b with
  | x :: a', y :: b' => add32 x y :: add_vec a' b'
  | _, _ => []
  end.

Definition compress (h : list N) (block : list N) : list N :=
  let w := rev (extend 48 (rev block)) in
  add_vec h (fold_left round (combine kconst w) h).

Fixpoint blocks (fuel : nat) (ws : list N) (h : list N) : list N :=
  match fuel with
  | O => h
  | S f =>
    match ws with
    | [] => h
    | _ => blocks f (skipn 16 ws) (compress h (firstn 16 ws))
    end
  end.

Definition sha256 (m : bytes) : bytes :=
  let ws := words (pad m) in
  concat (map word_bytes (blocks (S (length ws)) ws h0)).


(* FIPS 180-4 test vectors *)
Example sha256_abc : sha256 [97; 98; 99] = [186; 120; 22; 191; 143; 1; 207; 234; 65; 65; 64; 222; 93; 174; 34; 35; 176; 3; 97; 163; 150; 23; 122; 156; 180; 16; 255; 97; 242; 0; 21; 173].
Proof. vm_compute. reflexivity. Qed.
Example sha256_empty : sha256 [] = [227; 176; 196; 66; 152; 252; 28; 20; 154; 251; 244; 200; 153; 111; 185; 36; 39; 174; 65; 228; 100; 155; 147; 76; 164; 149; 153; 27; 120; 82; 184; 85].
Proof. vm_compute. reflexivity. Qed.
Example sha256_two_blocks : sha256 (zeros 70) = [130; 252; 253; 82; 21; 23; 93; 169; 230; 92; 167; 196; 251; 146; 122; 31; 176; 230; 31; 9; 213; 73; 135; 195; 104; 232; 225; 110; 189; 156; 41; 105].
Proof. vm_compute. reflexivity. Qed.
Example hex_encode_ex : hex_encode [0; 171; 255] = [48; 48; 97; 98; 102; 102].
Proof. vm_compute. reflexivity. Qed.
