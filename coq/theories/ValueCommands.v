(* The command-line loop of the lexer emits only commands that the scanner of Cst.v accepts (Cmd1 for the first command
   of a body, CmdN for the others): the converse of RoundTripL.scan_fwd. *)
From Spok Require Import Base Lexer Parser DecodeSpec LexInv LexSteps LexProtocol Cst LexFwd RoundTripL CstWf TrimProofs ValueProtocol.
From Coq Require Import Lia.
Open Scope N_scope.

Arguments N.eqb : simpl never.
Arguments N.ltb : simpl never.
Arguments N.leb : simpl never.

Definition cmd_ok (x : bytes) : Prop := cmd_scan (S (length x)) x = true.

Lemma cmd_scan_unfold f s : s <> [] -> cmd_scan (S f) s =
  (let '(r, w) := decode s in let rest := skipn w s in
   negb (r =? 10) && (if has_prefix k_linterp rest || has_prefix k_rinterp rest then cmd_scan f (skipn 2 rest)
                      else negb (r =? 125) && negb (r =? 35) && (r <=? 127) && cmd_scan f rest)).
Proof. destruct s; [congruence|reflexivity]. Qed.

Lemma cmd_scan_mono : forall f s, cmd_scan f s = true -> cmd_scan (S f) s = true.
Proof.
  induction f as [|f IH]; intros s H; [discriminate|]. destruct s as [|b s]; [reflexivity|].
  rewrite cmd_scan_unfold in H |- * by discriminate. destruct (decode (b :: s)) as [r w]. cbn zeta in *.
  apply andb_prop in H. destruct H as [H1 H2]. rewrite H1. cbn [andb].
  destruct (has_prefix k_linterp (skipn w (b :: s)) || has_prefix k_rinterp (skipn w (b :: s)))%bool; [apply IH; exact H2|].
  apply andb_prop in H2. destruct H2 as [H2 H3]. rewrite H2. cbn [andb]. apply IH. exact H3.
Qed.
Lemma cmd_scan_ge a b s : cmd_scan a s = true -> (a <= b)%nat -> cmd_scan b s = true.
Proof. intros H L. induction L as [|b L IH]; [exact H|]. apply cmd_scan_mono. exact IH. Qed.

Lemma cmd_scan_min : forall f s, cmd_scan f s = true -> cmd_ok s.
Proof.
  induction f as [|f IH]; intros s H; [discriminate|]. unfold cmd_ok. destruct s as [|b s]; [reflexivity|].
  rewrite cmd_scan_unfold in H |- * by discriminate. destruct (decode (b :: s)) as [r w] eqn:Ed. cbn zeta in *.
  destruct (decode_w_pos_l (b :: s) r w Ed ltac:(discriminate)) as [Hw0 Hw].
  apply andb_prop in H. destruct H as [H1 H2]. rewrite H1. cbn [andb].
  destruct (has_prefix k_linterp (skipn w (b :: s)) || has_prefix k_rinterp (skipn w (b :: s)))%bool.
  - apply (cmd_scan_ge _ _ _ (IH _ H2)). rewrite !skipn_length. lia.
  - apply andb_prop in H2. destruct H2 as [H2 H3]. rewrite H2. cbn [andb]. apply (cmd_scan_ge _ _ _ (IH _ H3)). rewrite skipn_length. lia.
Qed.

(* ---- removing trailing spaces / carriage returns keeps a command scannable ---- *)
Lemma hp_single k rest b : (k = k_linterp \/ k = k_rinterp) -> b <> 123 -> b <> 125 -> has_prefix k (rest ++ [b]) = has_prefix k rest.
Proof.
  intros Hk H1 H2. destruct rest as [|x [|y rest]]; cbn [app].
  - destruct Hk as [-> | ->]; cbn [k_linterp k_rinterp has_prefix]; rewrite andb_false_r; reflexivity.
  - destruct Hk as [-> | ->]; cbn [k_linterp k_rinterp has_prefix]; rewrite ?andb_false_r;
      [destruct (N.eqb_spec 123 b); [congruence|]|destruct (N.eqb_spec 125 b); [congruence|]]; rewrite ?andb_false_r; reflexivity.
  - destruct Hk as [-> | ->]; reflexivity.
Qed.

Lemma has_prefix2_len k rest : (k = k_linterp \/ k = k_rinterp) -> has_prefix k rest = true -> (2 <= length rest)%nat.
Proof. intros [-> | ->] H; apply has_prefix_split in H; rewrite H; cbn; lia. Qed.

Lemma cmd_ok_strip1 : forall f x b, cmd_scan f (x ++ [b]) = true -> b < 128 -> b <> 123 -> b <> 125 -> cmd_ok x.
Proof.
  induction f as [|f IH]; intros x b H Hb H1 H2; [discriminate|]. destruct x as [|c x]; [reflexivity|].
  rewrite cmd_scan_unfold in H by (destruct x; discriminate).
  rewrite decode_app_ascii in H by (discriminate || exact Hb).
  destruct (decode (c :: x)) as [r w] eqn:Ed. cbn zeta in H.
  destruct (decode_w_pos_l (c :: x) r w Ed ltac:(discriminate)) as [Hw0 Hw].
  assert (Hs : skipn w ((c :: x) ++ [b]) = skipn w (c :: x) ++ [b]) by (rewrite skipn_app; replace (w - length (c :: x))%nat with 0%nat by lia; reflexivity).
  rewrite Hs in H. rewrite !hp_single in H by auto.
  unfold cmd_ok. rewrite cmd_scan_unfold by discriminate. rewrite Ed. cbn zeta.
  apply andb_prop in H. destruct H as [Ha Hrest]. rewrite Ha. cbn [andb].
  destruct (has_prefix k_linterp (skipn w (c :: x)) || has_prefix k_rinterp (skipn w (c :: x)))%bool eqn:Hp.
  - assert (L2 : (2 <= length (skipn w (c :: x)))%nat).
    { apply orb_prop in Hp. destruct Hp as [Hp|Hp]; [apply (has_prefix2_len k_linterp)|apply (has_prefix2_len k_rinterp)]; auto. }
    assert (Hs2 : skipn 2 (skipn w (c :: x) ++ [b]) = skipn 2 (skipn w (c :: x)) ++ [b]) by (rewrite skipn_app; replace (2 - length (skipn w (c :: x)))%nat with 0%nat by lia; reflexivity).
    rewrite Hs2 in Hrest. apply (cmd_scan_ge _ _ _ (IH _ _ Hrest Hb H1 H2)). rewrite !skipn_length. lia.
  - apply andb_prop in Hrest. destruct Hrest as [Hc Hrest]. rewrite Hc. cbn [andb].
    apply (cmd_scan_ge _ _ _ (IH _ _ Hrest Hb H1 H2)). rewrite skipn_length. lia.
Qed.

Definition strippable (tail : bytes) : Prop := Forall (fun b => b = 13 \/ b = 32) tail.

Lemma cmd_ok_strip tail : strippable tail -> forall x, cmd_ok (x ++ tail) -> cmd_ok x.
Proof.
  induction tail as [|b tail IH] using rev_ind; intros Ht x H.
  - rewrite app_nil_r in H. exact H.
  - apply Forall_app in Ht. destruct Ht as [Ht Hb]. inversion Hb as [|? ? Hb' _]; subst. rewrite app_assoc in H. apply (IH Ht).
    apply (cmd_ok_strip1 _ _ b H); destruct Hb' as [-> | ->]; lia.
Qed.

(* ---- what stripping does to the pending text ---- *)
Lemma strip_cr_pre p : forall s, exists k, fst (strip_cr p s) = skipn k p /\ p = repeat 13 k ++ skipn k p /\ head_not 13 (skipn k p) /\ snd (strip_cr p s) = repeat 13 k ++ s.
Proof.
  induction p as [|b p IH]; intros s; [exists 0%nat; cbn; auto|].
  destruct (N.eq_dec b 13) as [->|Hb].
  - cbn [strip_cr]. destruct (IH (13 :: s)) as (k & A & B & C & Dd). exists (S k). cbn [skipn repeat app]. split; [exact A|]. split; [f_equal; exact B|]. split; [exact C|].
    rewrite Dd. clear. induction k as [|k IHk]; [reflexivity|]. cbn [repeat app]. f_equal. exact IHk.
  - exists 0%nat. rewrite (strip_cr_no (b :: p) s Hb). cbn. auto.
Qed.

Lemma rev_repeat {A} (x : A) k : rev (repeat x k) = repeat x k.
Proof.
  induction k as [|k IH]; [reflexivity|]. cbn [repeat rev]. rewrite IH. clear. induction k as [|k IH]; [reflexivity|]. cbn [repeat app]. f_equal. exact IH.
Qed.

Lemma strippable_repeat13 k : strippable (repeat 13 k).
Proof. induction k; constructor; auto. Qed.

Lemma drop_cr_value l d e g : Inv l d e g ->
  Inv (drop_cr l) d e g /\ out (drop_cr l) = out l /\
  exists tail, strippable tail /\ rev (pre l) = rev (pre (drop_cr l)) ++ tail /\ head_not 13 (pre (drop_cr l)).
Proof.
  intros HI. destruct (drop_cr_ok l d e g HI) as (I1 & O1 & _). split; [exact I1|]. split; [exact O1|].
  destruct (strip_cr_pre (pre l) (suf l)) as (k & A & B & C & _).
  assert (Ep : pre (drop_cr l) = skipn k (pre l)) by (unfold drop_cr; destruct (strip_cr (pre l) (suf l)); exact A).
  exists (repeat 13 k). split; [apply strippable_repeat13|]. rewrite Ep. split; [|exact C].
  rewrite B at 1. rewrite rev_app_distr, rev_repeat. reflexivity.
Qed.

Lemma strip_space_value l d e g : Inv l d e g ->
  let l' := match pre l with 32 :: _ => pos_dec l | _ => l end in
  Inv l' d e g /\ out l' = out l /\ exists tail, strippable tail /\ rev (pre l) = rev (pre l') ++ tail.
Proof.
  intros HI. destruct (strip_space_ok l d e g HI) as (I1 & O1 & _). cbn zeta in *. split; [exact I1|]. split; [exact O1|].
  destruct (pre l) as [|b p] eqn:Ep; [exists []; split; [constructor|rewrite Ep, app_nil_r; reflexivity]|].
  destruct (N.eq_dec b 32) as [->|Hb].
  - exists [32]. split; [constructor; [right; reflexivity|constructor]|]. unfold pos_dec. rewrite Ep. reflexivity.
  - exists []. split; [constructor|]. rewrite app_nil_r.
    assert (E : match b with 32 => pos_dec l | _ => l end = l).
    { destruct b as [|pb]; [reflexivity|]. repeat (destruct pb as [pb|pb|]; try reflexivity). congruence. }
    rewrite E, Ep. reflexivity. 
Qed.

(* ---- value facts ---- *)
Lemma rune_bytes_not_space lb r : decode lb = (r, length lb) -> is_space r = false -> Forall (fun b => b <> 13 /\ b <> 32) lb.
Proof.
  intros Ed Hr. pose proof (decode_spec lb) as D. rewrite Ed in D. destruct D as (_ & _ & _ & _ & _ & D1 & Dhi).
  destruct (Nat.le_gt_cases 2 (length lb)) as [H2|H1].
  - specialize (Dhi H2). rewrite firstn_all in Dhi. eapply Forall_impl; [|exact Dhi]. intros b Hb. cbn in Hb. lia.
  - destruct lb as [|b [|c lb]]; [constructor| |cbn in H1; lia]. constructor; [|constructor].
    destruct (N.lt_ge_cases b 128) as [Hb|Hb]; [|lia]. destruct (D1 b [] eq_refl Hb) as [-> _].
    split; intros ->; vm_compute in Hr; discriminate.
Qed.

Lemma app_strip_prefix lb : forall c0 v tail, Forall (fun b => b <> 13 /\ b <> 32) lb -> lb ++ c0 = v ++ tail -> strippable tail ->
  exists c0', v = lb ++ c0' /\ c0 = c0' ++ tail.
Proof.
  induction lb as [|b lb IH]; intros c0 v tail Hlb E Ht; [exists v; auto|].
  inversion Hlb as [|? ? Hb Hlb']; subst. destruct v as [|b' v].
  - cbn [app] in E. destruct tail as [|t0 tail]; [discriminate|]. injection E as <- _. inversion Ht as [|? ? Ht0 _]; subst. destruct Hb. destruct Ht0; congruence.
  - cbn [app] in E. injection E as <- E. destruct (IH c0 v tail Hlb' E Ht) as (c0' & -> & ->). exists c0'. auto.
Qed.

Lemma letter_not_space r : is_letter r = true -> is_space r = false.
Proof. intros H. destruct (is_space r) eqn:E; [|reflexivity]. apply space_not_ident in E. unfold is_ident in E. rewrite H in E. discriminate. Qed.

Lemma head_not_last b v : head_not b (rev v) -> last_not b v = true.
Proof. unfold head_not, last_not. destruct (rev v) as [|x r]; [reflexivity|]. intros H. apply negb_true_iff. apply N.eqb_neq. exact H. Qed.

Lemma cmd1_value lb c0 v tail r : decode lb = (r, length lb) -> is_letter r = true -> lb <> [] ->
  lb ++ c0 = v ++ tail -> strippable tail -> cmd_ok c0 -> last_not 13 v = true -> cmd1_b v = true.
Proof.
  intros Ed Hr Hne E Ht Hc H13.
  destruct (app_strip_prefix lb c0 v tail (rune_bytes_not_space lb r Ed (letter_not_space r Hr)) E Ht) as (c0' & -> & ->).
  unfold cmd1_b. assert (Hid : is_ident r = true) by (unfold is_ident; rewrite Hr; reflexivity).
  rewrite (decode_app lb c0' r (length lb) Ed (is_ident_not_err r Hid)). rewrite Hr, H13, skipn_app_len. cbn [andb]. rewrite andb_true_r.
  apply (cmd_scan_ge _ _ _ (cmd_ok_strip tail Ht c0' Hc)). rewrite app_length. lia.
Qed.

Lemma cmdn_value c0 s v tail r0 w0 : decode (c0 ++ s) = (r0, w0) -> (0 < w0 <= length c0)%nat -> is_space r0 = false ->
  c0 = v ++ tail -> strippable tail -> cmd_ok c0 -> last_not 13 v = true -> cmdn_b v = true.
Proof.
  intros Ed Hw Hr E Ht Hc H13.
  assert (Edf : decode (firstn w0 c0) = (r0, length (firstn w0 c0))).
  { rewrite firstn_length. replace (Nat.min w0 (length c0)) with w0 by lia.
    replace (firstn w0 c0) with (firstn w0 (c0 ++ s)) by (rewrite firstn_app; replace (w0 - length c0)%nat with 0%nat by lia; cbn [firstn]; apply app_nil_r).
    apply (decode_firstn _ _ _ _ Ed). lia. }
  assert (E' : firstn w0 c0 ++ skipn w0 c0 = v ++ tail) by (rewrite firstn_skipn; exact E).
  destruct (app_strip_prefix _ _ v tail (rune_bytes_not_space _ r0 Edf Hr) E' Ht) as (c' & Ev & _).
  assert (Hvne : v <> []).
  { rewrite Ev. intros E0. apply app_eq_nil in E0. destruct E0 as [E0 _]. apply (f_equal (@length N)) in E0. rewrite firstn_length in E0. cbn in E0. lia. }
  assert (Hvl : (w0 <= length v)%nat) by (rewrite Ev, app_length, firstn_length; lia).
  assert (Edv : decode v = (r0, w0)).
  { replace v with (firstn (length v) (c0 ++ s)) by (rewrite E, <- app_assoc, firstn_app_len; reflexivity). apply (decode_firstn _ _ _ _ Ed). exact Hvl. }
  unfold cmdn_b, nonnil_b. rewrite Edv. cbn [fst]. rewrite Hr, H13. cbn [negb andb]. rewrite !andb_true_r. rewrite E in Hc.
  pose proof (cmd_ok_strip tail Ht v Hc) as Hv. unfold cmd_ok in Hv. rewrite Hv. destruct v; [congruence|reflexivity].
Qed.

(* ---- the loop ---- *)
Definition K (c0 s : bytes) : Prop := forall z y, s = z ++ y -> cmd_ok z -> cmd_ok (c0 ++ z).

Lemma K_nil s : K [] s. Proof. intros z y _ H. exact H. Qed.

(* one more rune (and possibly a swallowed pair) extends the scanned prefix *)
Lemma K_step c0 s bs rr pair s' : K c0 s -> s = bs ++ pair ++ s' -> decode s = (rr, length bs) -> bs <> [] -> (rr =? 10) = false ->
  ((pair = k_linterp \/ pair = k_rinterp) \/
   (pair = [] /\ has_prefix k_linterp s' = false /\ has_prefix k_rinterp s' = false /\ (rr =? 125) = false /\ (rr =? 35) = false /\ (rr <=? 127) = true)) ->
  K (c0 ++ bs ++ pair) s'.
Proof.
  intros HK Es Ed Hne H10 Hcase z y Ey Hz. rewrite <- !app_assoc. apply (HK (bs ++ pair ++ z) y); [rewrite Es, Ey, <- !app_assoc; reflexivity|].
  unfold cmd_ok. rewrite cmd_scan_unfold by (destruct bs; [congruence|discriminate]).
  assert (Edz : decode (bs ++ pair ++ z) = (rr, length bs)).
  { replace (bs ++ pair ++ z) with (firstn (length (bs ++ pair ++ z)) s) by (rewrite Es, Ey, !app_assoc, firstn_app_len; reflexivity).
    apply (decode_firstn _ _ _ _ Ed). rewrite app_length. lia. }
  rewrite Edz. cbn zeta. rewrite skipn_app_len, H10. cbn [negb andb].
  destruct Hcase as [Hp|(-> & Hl & Hr & H125 & H35 & H127)].
  - assert (Hpre : (has_prefix k_linterp (pair ++ z) || has_prefix k_rinterp (pair ++ z))%bool = true).
    { destruct Hp as [-> | ->]; rewrite has_prefix_app; [reflexivity|apply orb_true_r]. }
    rewrite Hpre. assert (Hsk : skipn 2 (pair ++ z) = z) by (destruct Hp as [-> | ->]; reflexivity). rewrite Hsk.
    apply (cmd_scan_ge _ _ _ Hz). rewrite !app_length. destruct bs; [congruence|]. cbn [length]. lia.
  - cbn [app] in *.
    assert (Hl' : has_prefix k_linterp z = false).
    { destruct (has_prefix k_linterp z) eqn:E; [|reflexivity]. apply has_prefix_split in E. rewrite Ey, E, <- app_assoc, has_prefix_app in Hl. discriminate. }
    assert (Hr' : has_prefix k_rinterp z = false).
    { destruct (has_prefix k_rinterp z) eqn:E; [|reflexivity]. apply has_prefix_split in E. rewrite Ey, E, <- app_assoc, has_prefix_app in Hr. discriminate. }
    rewrite Hl', Hr', H125, H35, H127. cbn [negb andb orb].
    apply (cmd_scan_ge _ _ _ Hz). rewrite !app_length. destruct bs; [congruence|]. cbn [length]. lia.
Qed.

Definition FirstOK (first : bool) (lb c0 : bytes) (l : lx) : Prop :=
  if first then mst l = M2Body1 /\ exists r, decode lb = (r, length lb) /\ is_letter r = true /\ lb <> []
  else mst l = M2BodyN /\ lb = [] /\
       (c0 <> [] -> exists r0 w0, decode (c0 ++ suf l) = (r0, w0) /\ (0 < w0 <= length c0)%nat /\ is_space r0 = false) /\
       (c0 = [] -> is_space (fst (decode (suf l))) = false).

Lemma body_mst first lb c0 l : FirstOK first lb c0 l -> mst l = M2Body1 \/ mst l = M2BodyN.
Proof. destruct first; intros H; [left|right]; apply H. Qed.

(* emitting the pending text (after stripping) as a COMMAND is accepted by the monitor *)
Lemma emit_command_ok first lb c0 l l3 tail : FirstOK first lb c0 l -> cmd_ok c0 ->
  mst l3 = mst l -> lb ++ c0 = rev (pre l3) ++ tail -> strippable tail -> head_not 13 (pre l3) -> pre l3 <> [] ->
  mst (emit COMMAND l3) = M2BodyN.
Proof.
  intros HF Hc M3 E Ht H13 Hne. rewrite mst_emit, M3. set (v := rev (pre l3)) in *.
  assert (Hl13 : last_not 13 v = true) by (apply head_not_last; unfold v; rewrite rev_involutive; exact H13).
  assert (Hvne : v <> []) by (unfold v; intros E0; apply (f_equal (@rev N)) in E0; rewrite rev_involutive in E0; cbn in E0; congruence).
  destruct first; cbn [FirstOK] in HF.
  - destruct HF as (Hm & r & Ed & Hr & Hlb). rewrite Hm. cbn [mon2 ty val mk_tok]. rewrite (cmd1_value lb c0 v tail r Ed Hr Hlb E Ht Hc Hl13). reflexivity.
  - destruct HF as (Hm & -> & HFI & _). cbn [app] in E. rewrite Hm. cbn [mon2 ty val mk_tok].
    assert (Hc0 : c0 <> []) by (rewrite E; destruct v; [congruence|discriminate]).
    destruct (HFI Hc0) as (r0 & w0 & Ed & Hw & Hr).
    rewrite (cmdn_value c0 (suf l) v tail r0 w0 Ed Hw Hr E Ht Hc Hl13). reflexivity.
Qed.

Lemma strippable_app a b : strippable a -> strippable b -> strippable (a ++ b).
Proof. intros. apply Forall_app. auto. Qed.

Lemma lexTaskCommandsLoop_v fuel : forall l d e g first lb c0, Inv l d e g -> pre l = rev (lb ++ c0) -> FirstOK first lb c0 l -> K c0 (suf l) ->
  let r := lexTaskCommandsLoop fuel l in
  fl (snd r) <> FOk \/ (Pre2 (fst r) (snd r) /\ R2 (fst r) (snd r) (mst (snd r))).
Proof.
  induction fuel as [|fuel IH]; intros l d e g first lb c0 HI Hpre HF HK; cbn zeta; cbn [lexTaskCommandsLoop]; [left; cbn; discriminate|].
  pose proof (body_mst _ _ _ _ HF) as Hbm.
  pose proof (out_next l) as O2. take_next_tac HI l rr l2.
  assert (M2l : mst l2 = mst l) by (apply mst_same; exact O2).
  assert (MB : mst (backup l2) = mst l) by (rewrite (mst_same _ _ (out_backup l2)); exact M2l).
  assert (Ed0 : decode (suf l) = (rr, length bs)) by (destruct (decode (suf l)) as [r0 w0]; cbn [fst snd] in *; rewrite Er, Hl; reflexivity).
  assert (Hc0 : cmd_ok c0) by (rewrite <- (app_nil_r c0); apply (HK [] (suf l) eq_refl); reflexivity).
  assert (Erev : rev (pre l) = lb ++ c0) by (rewrite Hpre, rev_involutive; reflexivity).
  destruct (rr =? 10) eqn:E10.
  - (* end of line: strip CRs, emit, skip whitespace, go on with the next command *)
    destruct (drop_cr_value (backup l2) d e g IB) as (I3 & O3 & tail & Ht & Ev & H13). set (l3 := drop_cr (backup l2)) in *.
    rewrite PB, Erev in Ev.
    assert (M3 : mst l3 = mst l) by (rewrite (mst_same _ _ O3); exact MB).
    assert (Hne3 : pre l3 <> []).
    { intros E0. rewrite E0 in Ev. cbn [rev app] in Ev. destruct first; cbn [FirstOK] in HF.
      - destruct HF as (_ & r & Ed & Hr & Hlb). destruct (app_strip_prefix lb c0 [] tail (rune_bytes_not_space lb r Ed (letter_not_space r Hr)) Ev Ht) as (c' & Ec & _).
        symmetry in Ec. apply app_eq_nil in Ec. destruct Ec. congruence.
      - destruct HF as (_ & -> & HFI & Hsp). cbn [app] in Ev. destruct c0 as [|b0 c0'].
        + specialize (Hsp eq_refl). rewrite Ed0 in Hsp. cbn [fst] in Hsp. apply N.eqb_eq in E10. rewrite E10 in Hsp. discriminate.
        + destruct (HFI ltac:(discriminate)) as (r0 & w0 & Ed & Hw & Hr).
          assert (Edf : decode (firstn w0 (b0 :: c0')) = (r0, length (firstn w0 (b0 :: c0')))).
          { rewrite firstn_length. replace (Nat.min w0 (length (b0 :: c0'))) with w0 by lia.
            replace (firstn w0 (b0 :: c0')) with (firstn w0 ((b0 :: c0') ++ suf l)) by (rewrite firstn_app; replace (w0 - length (b0 :: c0'))%nat with 0%nat by lia; cbn [firstn]; apply app_nil_r).
            apply (decode_firstn _ _ _ _ Ed). lia. }
          assert (E' : firstn w0 (b0 :: c0') ++ skipn w0 (b0 :: c0') = [] ++ tail) by (rewrite firstn_skipn; exact Ev).
          destruct (app_strip_prefix _ _ [] tail (rune_bytes_not_space _ r0 Edf Hr) E' Ht) as (c' & Ec & _).
          symmetry in Ec. apply app_eq_nil in Ec. destruct Ec as [Ec _]. apply (f_equal (@length N)) in Ec. rewrite firstn_length in Ec. cbn [length] in Ec. lia. }
    pose proof (emit_command_ok first lb c0 l l3 tail HF Hc0 M3 Ev Ht H13 Hne3) as Me.
    pose proof (emit_inv COMMAND l3 d e g I3 ltac:(discriminate) ltac:(discriminate)) as Ie.
    destruct (skipws_facts (emit COMMAND l3) _ _ _ Ie eq_refl) as ((d' & g' & I4) & P4 & O4 & M4 & _ & Sp4).
    apply (IH _ d' _ g' false [] [] I4).
    + rewrite P4. reflexivity.
    + cbn [FirstOK]. split; [rewrite M4; exact Me|]. split; [reflexivity|]. split; [congruence|]. intros _. exact Sp4.
    + apply K_nil.
  - destruct (suf l) as [|x0 xs0] eqn:Esl.
    { (* end of input inside a body *)
      symmetry in Hs. apply app_eq_nil in Hs. destruct Hs as [_ Hs2]. rewrite Hs2. cbn [has_prefix k_linterp k_rinterp].
      cbn in Ed0. injection Ed0 as <- _. assert ((RuneError =? 125) = false) as -> by reflexivity.
      unfold atEOF. rewrite Hs2. cbn [orb fst snd]. apply error_done0. rewrite M2l. destruct Hbm as [-> | ->]; auto. }
    rewrite <- Esl in *.
    assert (Hbs : bs <> []).
    { intros ->. cbn [length] in Ed0. pose proof (decode_w_pos_l (suf l) rr 0%nat Ed0 ltac:(rewrite Esl; discriminate)). lia. }
    (* the new FirstOK after consuming bs (and possibly a swallowed pair) *)
    assert (HF' : forall pair l', suf l2 = pair ++ suf l' -> mst l' = mst l -> FirstOK first lb (c0 ++ bs ++ pair) l').
    { intros pair l' Es' Ml'. destruct first; cbn [FirstOK] in HF |- *.
      - destruct HF as (Hm & Hx). split; [rewrite Ml'; exact Hm|exact Hx].
      - destruct HF as (Hm & Hlb & HFI & Hsp). split; [rewrite Ml'; exact Hm|]. split; [exact Hlb|]. split.
        + intros _. assert (Eall : (c0 ++ bs ++ pair) ++ suf l' = c0 ++ suf l) by (rewrite Hs, Es', <- !app_assoc; reflexivity).
          rewrite Eall. destruct c0 as [|b0 c0'].
          * cbn [app]. exists rr, (length bs). split; [exact Ed0|]. split; [|specialize (Hsp eq_refl); rewrite Ed0 in Hsp; exact Hsp].
            rewrite !app_length. destruct bs; [congruence|]. cbn [length]. lia.
          * destruct (HFI ltac:(discriminate)) as (r0 & w0 & Ed & Hw & Hr). exists r0, w0. split; [exact Ed|]. split; [|exact Hr]. rewrite !app_length. lia.
        + intros E0. apply app_eq_nil in E0. destruct E0 as [_ E0]. apply app_eq_nil in E0. destruct E0. congruence. }
    assert (Hpre2 : forall pair, rev pair ++ pre l2 = rev (lb ++ c0 ++ bs ++ pair)).
    { intros pair. rewrite Hp, Hpre, !rev_app_distr, <- !app_assoc. reflexivity. }
    destruct (has_prefix k_linterp (suf l2)) eqn:Hpl.
    { destruct (absorb_inv 2 l2 d e g k_linterp In2 Hpl eq_refl eq_refl) as (I3 & P3 & S3 & O3).
      apply (IH _ d e g first lb (c0 ++ bs ++ k_linterp) I3).
      - rewrite P3, Hpre2. reflexivity.
      - apply HF'; [rewrite S3; apply has_prefix_split; exact Hpl|rewrite (mst_same _ _ O3); exact M2l].
      - apply (K_step c0 (suf l) bs rr k_linterp (suf (absorb 2 l2)) HK); auto.
        rewrite S3, Hs. f_equal. apply has_prefix_split. exact Hpl. }
    destruct (has_prefix k_rinterp (suf l2)) eqn:Hpr.
    { destruct (absorb_inv 2 l2 d e g k_rinterp In2 Hpr eq_refl eq_refl) as (I3 & P3 & S3 & O3).
      apply (IH _ d e g first lb (c0 ++ bs ++ k_rinterp) I3).
      - rewrite P3, Hpre2. reflexivity.
      - apply HF'; [rewrite S3; apply has_prefix_split; exact Hpr|rewrite (mst_same _ _ O3); exact M2l].
      - apply (K_step c0 (suf l) bs rr k_rinterp (suf (absorb 2 l2)) HK); auto.
        rewrite S3, Hs. f_equal. apply has_prefix_split. exact Hpr. }
    destruct (rr =? 125) eqn:E125.
    { (* the closing brace: strip one space and CRs, emit what is left (if anything) *)
      destruct (strip_space_value (backup l2) d e g IB) as (Ia & Oa & ta & Hta & Eva). set (la := match pre (backup l2) with 32 :: _ => pos_dec (backup l2) | _ => backup l2 end) in *.
      destruct (drop_cr_value la d e g Ia) as (I3 & O3 & tb & Htb & Evb & H13). set (l3 := drop_cr la) in *.
      assert (Ev : lb ++ c0 = rev (pre l3) ++ (tb ++ ta)) by (rewrite <- Erev, <- PB, Eva, Evb, <- app_assoc; reflexivity).
      assert (M3 : mst l3 = mst l) by (rewrite (mst_same _ _ O3), (mst_same _ _ Oa); exact MB).
      right. cbn [fst snd Pre2 R2]. split; [exact I|]. rewrite (mst_same _ _ (out_skipWhitespace _)).
      destruct (pre l3) as [|x p3] eqn:Ep3.
      - rewrite M3. exact Hbm.
      - right. rewrite <- Ep3 in *. apply (emit_command_ok first lb c0 l l3 (tb ++ ta) HF Hc0 M3 Ev (strippable_app _ _ Htb Hta) H13). rewrite Ep3. discriminate. }
    destruct (atEOF l2 || (rr =? 35))%bool eqn:Eerr.
    { cbn [fst snd]. apply error_done0. rewrite M2l. destruct Hbm as [-> | ->]; auto. }
    apply orb_false_elim in Eerr. destruct Eerr as [_ E35].
    destruct (rr <=? 127) eqn:E127.
    { apply (IH _ d e g first lb (c0 ++ bs ++ []) In2).
      - rewrite <- (Hpre2 []). reflexivity.
      - apply HF'; [reflexivity|exact M2l].
      - apply (K_step c0 (suf l) bs rr [] (suf l2) HK); auto. right. auto 10. }
    right. cbn [fst snd Pre2 R2]. split; [exact I|]. rewrite MB. destruct Hbm as [-> | ->]; auto.
Qed.
