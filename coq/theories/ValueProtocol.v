(* A value-aware token protocol: a monitor automaton over (kind, text) that accepts every token stream the lexer produces
   and checks, at the places where the parser will use them, that identifiers are identifier runes, strings are quoted and
   free of quotes/line ends, comments are single lines, the first command of a body starts with a letter, and a ":=" follows
   only a name other than "task".  ParserWf.v reads tree well-formedness off this. *)
From Spok Require Import Base Lexer Parser DecodeSpec LexInv LexSteps LexProtocol Cst LexFwd RoundTripL CstWf TrimProofs.
From Coq Require Import Lia.
Open Scope N_scope.

Arguments N.eqb : simpl never.
Arguments N.ltb : simpl never.
Arguments N.leb : simpl never.

Definition unquote (v : bytes) : option bytes :=
  match v with
  | 34 :: x => match rev x with 34 :: rb => Some (rev rb) | _ => None end
  | _ => None
  end.
Definition vstr (v : bytes) : bool := match unquote v with Some b => str_b b | None => false end.
Definition vident (v : bytes) : bool := ident_b v.
Definition vname (v : bytes) : bool := ident_b v && nonnil_b v.

Inductive m2 := M2Top | M2AfterHash | M2AfterTask | M2AfterName | M2AfterIdent (nt : bool) | M2Body1 | M2BodyN | M2Done | M2Reject.

Definition mon2 (m : m2) (t : token) : m2 :=
  match m, ty t with
  | M2Top, HASH => M2AfterHash
  | M2Top, TASK => M2AfterTask
  | M2Top, LBRACE => M2Body1
  | M2Top, (EOF | ERROR) => M2Done
  | M2Top, IDENT => if vname (val t) then M2AfterIdent (negb (bytes_eqb (val t) k_task)) else M2Reject
  | M2Top, STRING => if vstr (val t) then M2Top else M2Reject
  | M2Top, (COMMENT | COMMAND | DECLARE) => M2Reject
  | M2Top, _ => M2Top
  | M2AfterHash, COMMENT => if no_byte 10 (val t) then M2Top else M2Reject
  | M2AfterTask, IDENT => if vident (val t) then M2AfterName else M2Reject
  | M2AfterName, LPAREN => M2Top
  | M2AfterName, ERROR => M2Done
  | M2AfterIdent nt, (LPAREN | RPAREN | COMMA) => M2Top
  | M2AfterIdent nt, DECLARE => if nt then M2Top else M2Reject
  | M2AfterIdent nt, LBRACE => M2Body1
  | M2AfterIdent nt, (EOF | ERROR) => M2Done
  | M2Body1, COMMAND => if cmd1_b (val t) then M2BodyN else M2Reject
  | M2BodyN, COMMAND => if cmdn_b (val t) then M2BodyN else M2Reject
  | (M2Body1 | M2BodyN), RBRACE => M2Top
  | (M2Body1 | M2BodyN), ERROR => M2Done
  | _, _ => M2Reject
  end.
Definition mrun2 (m : m2) (ts : list token) : m2 := fold_left mon2 ts m.
Lemma mrun2_app m a b : mrun2 m (a ++ b) = mrun2 (mrun2 m a) b.
Proof. apply fold_left_app. Qed.

(* chronological tokens emitted so far *)
Definition toks_of (l : lx) : list token := rev (out l).
Definition mst (l : lx) : m2 := mrun2 M2Top (toks_of l).

Lemma mst_same l l' : out l' = out l -> mst l' = mst l.
Proof. unfold mst, toks_of. intros ->. reflexivity. Qed.
Lemma mst_emit t l : mst (emit t l) = mon2 (mst l) (mk_tok t (rev (pre l)) (start l) (sline l)).
Proof. unfold mst, toks_of. cbn [emit out rev]. rewrite mrun2_app. reflexivity. Qed.
Lemma mst_error k l : exists t, ty t = ERROR /\ mst (error k l) = mon2 (mst l) t.
Proof. unfold mst, toks_of, error. cbn [out rev]. eexists. split; [|rewrite mrun2_app; reflexivity]. reflexivity. Qed.

(* ---- value facts about runes ---- *)
Lemma nl_no_byte x : nl x = 0%nat <-> no_byte 10 x = true.
Proof.
  induction x as [|b x IH]; [split; reflexivity|]. rewrite nl_cons. cbn [no_byte forallb]. rewrite N.eqb_sym.
  destruct (b =? 10); cbn [negb andb]; [split; [lia|discriminate]|]. cbn [Nat.add]. exact IH.
Qed.

(* the bytes of a rune other than the ASCII character c do not contain c *)
Lemma rune_no_byte s r w c : decode s = (r, w) -> r <> c -> c < 128 -> no_byte c (firstn w s) = true.
Proof.
  intros Ed Hr Hc. pose proof (decode_spec s) as D. rewrite Ed in D. destruct D as (_ & _ & _ & _ & _ & D1 & Dhi).
  destruct (Nat.le_gt_cases 2 w) as [H2|H1].
  - specialize (Dhi H2). clear -Dhi Hc. induction Dhi as [|x l Hx _ IH]; [reflexivity|]. unfold no_byte in *. cbn [forallb]. rewrite IH, andb_true_r.
    apply negb_true_iff. apply N.eqb_neq. lia.
  - destruct w as [|[|w]]; [reflexivity| |lia]. destruct s as [|b t]; [reflexivity|]. cbn [firstn no_byte forallb]. rewrite andb_true_r.
    apply negb_true_iff. apply N.eqb_neq. intros ->. destruct (D1 c t eq_refl Hc) as [E _]. congruence.
Qed.

Lemma no_byte_app b x y : no_byte b (x ++ y) = no_byte b x && no_byte b y.
Proof. unfold no_byte. apply forallb_app. Qed.

(* ---- identifiers ---- *)
Definition ident_ok (x : bytes) : Prop := ident_runes (S (length x)) x = true.

Lemma ident_runes_unfold f s : s <> [] -> ident_runes (S f) s = (let '(r, w) := decode s in is_ident r && ident_runes f (skipn w s)).
Proof. destruct s; [congruence|reflexivity]. Qed.

Lemma ident_ok_snoc : forall f a bs r, ident_runes f a = true -> decode bs = (r, length bs) -> bs <> [] -> is_ident r = true ->
  ident_ok (a ++ bs).
Proof.
  induction f as [|f IH]; intros a bs r Ha Ed Hne Hr; [discriminate|]. unfold ident_ok.
  destruct a as [|b a].
  - cbn [app]. destruct bs as [|c bs]; [congruence|]. cbn [ident_runes]. rewrite Ed, Hr. cbn [andb]. rewrite skipn_all. reflexivity.
  - destruct (ident_runes_step f (b :: a) ltac:(discriminate) Ha) as (r' & w' & Ed' & Hr' & Hw' & Hrest).
    pose proof (decode_app (b :: a) bs r' w' Ed' (is_ident_not_err r' Hr')) as Eda.
    specialize (IH (skipn w' (b :: a)) bs r Hrest Ed Hne Hr). unfold ident_ok in IH.
    rewrite ident_runes_unfold by discriminate. rewrite Eda, Hr'. cbn [andb].
    rewrite skipn_app. replace (w' - length (b :: a))%nat with 0%nat by lia. cbn [skipn].
    apply (ident_runes_ge _ _ _ IH). rewrite !app_length, skipn_length. lia.
Qed.

Lemma identLoop_value fuel : forall l d e g, Inv l d e g -> (length (suf l) < fuel)%nat -> ident_ok (rev (pre l)) ->
  ident_ok (rev (pre (identLoop fuel l))).
Proof.
  induction fuel as [|fuel IH]; intros l d e g HI Hf Hok; [lia|]. cbn [identLoop].
  take_next_tac HI l rr l2. destruct (is_ident rr) eqn:Hr.
  - apply (IH l2 d e g In2).
    + assert (W : (snd (decode (suf l)) > 0)%nat) by (apply ident_width; rewrite <- Er; exact Hr).
      assert (length (suf l) = length bs + length (suf l2))%nat by (rewrite Hs, app_length; reflexivity). lia.
    + rewrite Hp, rev_app_distr, rev_involutive.
      assert (Ebs : bs = firstn (length bs) (suf l)) by (rewrite Hs, firstn_app_len; reflexivity).
      assert (Edb : decode bs = (rr, length bs)).
      { rewrite Ebs at 1. destruct (decode (suf l)) as [r0 w0] eqn:Ed0. cbn [fst snd] in *. subst r0. rewrite Hl. apply (decode_firstn _ _ _ _ Ed0). lia. }
      assert (Hne : bs <> []) by (intros ->; cbn in Edb; injection Edb as <-; vm_compute in Hr; discriminate).
      apply (ident_ok_snoc _ _ _ rr Hok Edb Hne Hr).
  - rewrite PB. exact Hok.
Qed.

(* ---- preconditions on the pending text, and which monitor states a lexer state can start in ---- *)
Definition Pre2 (s : st) (l : lx) : Prop :=
  match s with
  | SIdent => ident_ok (rev (pre l))
  | SString => pre l = [34]
  | STaskCommands => exists r, decode (rev (pre l)) = (r, length (pre l)) /\ is_letter r = true /\ pre l <> []
  | _ => True
  end.

Definition aft (m : m2) : Prop := exists nt, m = M2AfterIdent nt.

Definition R2 (s : st) (l : lx) (m : m2) : Prop :=
  match s with
  | SStart => m = M2Top \/ (aft m /\ suf l = [])
  | SHash | STaskKeyword | SOutputOp | SIdent | SArgs | SString => m = M2Top
  | SComment => m = M2AfterHash
  | STaskName => m = M2AfterTask
  | SLeftParen => m = M2Top \/ m = M2AfterName \/ aft m
  | SRightParen | SLeftBrace | SComma => m = M2Top \/ aft m
  | SDeclare => m = M2AfterIdent true
  | STaskBody | STaskCommands => m = M2Body1
  | SRightBrace => m = M2Body1 \/ m = M2BodyN
  | SUnexpected => m = M2Top \/ aft m \/ m = M2Body1 \/ m = M2BodyN
  | SDone => m = M2Done
  end.

Definition Follows2 (s : st) (l : lx) (r : st * lx) : Prop :=
  forall d e g, Inv l d e g -> Pre s l -> Pre2 s l -> R2 s l (mst l) ->
  fl (snd r) <> FOk \/ (Pre2 (fst r) (snd r) /\ R2 (fst r) (snd r) (mst (snd r))).

(* reading one rune when nothing is pending *)
Lemma next_from_empty l d e g : Inv l d e g -> pre l = [] ->
  exists bs, pre (snd (next l)) = rev bs /\ decode bs = (fst (next l), length bs) /\ out (snd (next l)) = out l /\
             fst (next l) = fst (decode (suf l)) /\ suf l = bs ++ suf (snd (next l)) /\ Inv (snd (next l)) d e g /\
             Inv (backup (snd (next l))) d e g /\ out (backup (snd (next l))) = out l /\ pre (backup (snd (next l))) = [] /\ suf (backup (snd (next l))) = suf l.
Proof.
  intros HI Hp. destruct (next_backup l d e g HI) as (I1 & IB & PB & SB & OB & _ & _ & O1 & _ & _ & (bs & Hs & Hpp & Hl)).
  exists bs. rewrite Hp, app_nil_r in Hpp. rewrite next_fst.
  split; [exact Hpp|]. split.
  { assert (Ebs : bs = firstn (length bs) (suf l)) by (rewrite Hs, firstn_app_len; reflexivity).
    destruct (decode (suf l)) as [r w] eqn:Ed. cbn [fst snd] in *. rewrite Ebs at 1. rewrite Hl. apply (decode_firstn _ _ _ _ Ed). lia. }
  split; [exact O1|]. split; [reflexivity|]. split; [exact Hs|]. split; [exact I1|]. split; [exact IB|]. split; [exact OB|]. split; [congruence|exact SB].
Qed.

Lemma rune_ascii_bytes bs r : decode bs = (r, length bs) -> r < 128 -> bs = [r].
Proof.
  intros Ed Hr. pose proof (decode_spec bs) as D. rewrite Ed in D. destruct D as (_ & _ & _ & _ & Dlt & _).
  destruct (Dlt Hr) as (Hl & t & ->). cbn [length] in Hl. destruct t; [reflexivity|discriminate].
Qed.

Lemma ident_ok_single bs r : decode bs = (r, length bs) -> is_ident r = true -> ident_ok bs.
Proof.
  intros Ed Hr. assert (Hne : bs <> []) by (intros ->; cbn in Ed; injection Ed as <-; vm_compute in Hr; discriminate).
  exact (ident_ok_snoc 1 [] bs r eq_refl Ed Hne Hr).
Qed.

Lemma ident_ok_nil : ident_ok []. Proof. reflexivity. Qed.

(* ---- the simple states ---- *)
Ltac m2cases :=
  repeat match goal with
         | H : _ \/ _ |- _ => destruct H
         | H : aft _ |- _ => destruct H as [? H]
         | H : _ /\ _ |- _ => destruct H
         end.

Lemma skipws_facts l d e g : Inv l d e g -> pre l = [] ->
  let l' := skipWhitespace l in
  (exists d' g', Inv l' d' e g') /\ pre l' = [] /\ out l' = out l /\ mst l' = mst l /\ (suf l = [] -> suf l' = []) /\
  is_space (fst (decode (suf l'))) = false.
Proof.
  intros HI Hp l'. destruct (skipWhitespace_spec l d e g HI Hp) as (d' & g' & A & B & C & (ws & Dd) & E).
  split; [eauto|]. split; [exact B|]. split; [exact C|]. split; [apply mst_same; exact C|]. split; [|exact E].
  intros Hs. rewrite Hs in Dd. symmetry in Dd. apply app_eq_nil in Dd. apply Dd.
Qed.

Lemma mon2_err m t : ty t = ERROR -> (m = M2Top \/ m = M2AfterName \/ aft m \/ m = M2Body1 \/ m = M2BodyN) -> mon2 m t = M2Done.
Proof. intros Ht H. unfold mon2. rewrite Ht. m2cases; subst; reflexivity. Qed.

Lemma error_done k l d e g : Inv l d e g -> (mst l = M2Top \/ mst l = M2AfterName \/ aft (mst l) \/ mst l = M2Body1 \/ mst l = M2BodyN) ->
  fl (error k l) <> FOk \/ (Pre2 SDone (error k l) /\ R2 SDone (error k l) (mst (error k l))).
Proof.
  intros HI Hm. right. split; [exact I|]. destruct (mst_error k l) as (t & Ht & E). cbn [R2]. rewrite E. apply mon2_err; assumption.
Qed.

Lemma lexHash_v l : Follows2 SHash l (lexHash l).
Proof.
  intros d e g HI HP _ HR. right. cbn [fst snd lexHash Pre2 R2] in *. split; [exact I|].
  rewrite mst_emit, (mst_same _ _ (out_absorb 1 l)), HR. reflexivity.
Qed.

Lemma lexTaskKeyword_v l : Follows2 STaskKeyword l (lexTaskKeyword l).
Proof.
  intros d e g HI HP _ HR. right. cbn [fst snd lexTaskKeyword Pre2 R2] in *. split; [exact I|].
  rewrite (mst_same _ _ (out_skipWhitespace _)), mst_emit, (mst_same _ _ (out_absorb 4 l)), HR. reflexivity.
Qed.

Lemma lexLeftParen_v l : Follows2 SLeftParen l (lexLeftParen l).
Proof.
  intros d e g HI HP _ HR. right. cbn [fst snd lexLeftParen Pre2 R2] in *. split; [exact I|].
  rewrite (mst_same _ _ (out_skipWhitespace _)), mst_emit, (mst_same _ _ (out_absorb 1 l)). m2cases; rewrite H; reflexivity.
Qed.

Lemma lexLeftBrace_v l : Follows2 SLeftBrace l (lexLeftBrace l).
Proof.
  intros d e g HI HP _ HR. right. cbn [fst snd lexLeftBrace Pre2 R2] in *. split; [exact I|].
  rewrite (mst_same _ _ (out_skipWhitespace _)), mst_emit, (mst_same _ _ (out_absorb 1 l)). m2cases; rewrite H; reflexivity.
Qed.

Lemma lexRightBrace_v l : Follows2 SRightBrace l (lexRightBrace l).
Proof.
  intros d e g HI HP _ HR. right. cbn [fst snd lexRightBrace Pre2 R2] in *. split; [exact I|]. left.
  rewrite mst_emit, (mst_same _ _ (out_absorb 1 l)). m2cases; rewrite H; reflexivity.
Qed.

Lemma unexpected_v l : Follows2 SUnexpected l (unexpectedToken l).
Proof.
  intros d e g HI _ _ HR. unfold unexpectedToken. cbn [fst snd R2] in *. apply (error_done _ _ d e g HI). m2cases; auto. right. right. left. eexists; eassumption.
Qed.

(* after reading one rune from an empty pending text: the preconditions of the states a dispatch can go to *)
Lemma dispatch_pre l d e g : Inv l d e g -> pre l = [] ->
  let r := fst (next l) in let l1 := snd (next l) in
  (r = 34 -> Pre2 SString l1) /\ (is_ident r = true -> Pre2 SIdent l1) /\ (is_letter r = true -> Pre2 STaskCommands l1) /\
  mst l1 = mst l /\ mst (backup l1) = mst l /\ Inv l1 d e g /\ Inv (backup l1) d e g.
Proof.
  intros HI Hp. destruct (next_from_empty l d e g HI Hp) as (bs & Hpre & Ed & O1 & _ & _ & I1 & IB & OB & _).
  cbn zeta. split; [|split; [|split; [|split; [apply mst_same; exact O1|split; [apply mst_same; exact OB|split; assumption]]]]].
  - intros E. cbn [Pre2]. rewrite Hpre. rewrite E in Ed. rewrite (rune_ascii_bytes bs 34 Ed ltac:(lia)). reflexivity.
  - intros Hr. cbn [Pre2]. rewrite Hpre, rev_involutive. exact (ident_ok_single bs _ Ed Hr).
  - intros Hr. cbn [Pre2]. exists (fst (next l)). rewrite Hpre, rev_involutive, rev_length. split; [exact Ed|]. split; [exact Hr|].
    intros E. apply (f_equal (@rev N)) in E. rewrite rev_involutive in E. cbn in E. subst bs. cbn in Ed. injection Ed as Ed. rewrite <- Ed in Hr. vm_compute in Hr. discriminate.
Qed.

Lemma lexStart_v l : Follows2 SStart l (lexStart l).
Proof.
  intros d e g HI HP _ HR. cbn [Pre R2] in *. unfold lexStart.
  destruct (skipws_facts l d e g HI HP) as ((d' & g' & I1) & P1 & O1 & M1 & S1 & Sp1). set (l' := skipWhitespace l) in *.
  destruct HR as [HR|[HA HS]].
  - destruct (has_prefix k_hash (suf l')); [right; cbn [fst snd Pre2 R2]; split; [exact I|congruence]|].
    destruct (atTaskKeyword l'); [right; cbn [fst snd Pre2 R2]; split; [exact I|congruence]|].
    rewrite (peek_ok l' d' e g' I1). cbn [fst snd].
    destruct (is_ident (fst (decode (suf l')))); [right; cbn [fst snd Pre2 R2 with_width pre]; split; [rewrite P1; apply ident_ok_nil|rewrite <- HR, <- M1; apply mst_same; reflexivity]|].
    destruct (atEOF (with_width l' (snd (decode (suf l'))))).
    + right. cbn [fst snd Pre2 R2]. split; [exact I|]. rewrite mst_emit. replace (mst (with_width l' (snd (decode (suf l'))))) with (mst l') by (apply mst_same; reflexivity).
      rewrite M1, HR. reflexivity.
    + right. cbn [fst snd Pre2 R2]. split; [exact I|]. left. rewrite <- HR, <- M1. apply mst_same. reflexivity.
  - specialize (S1 HS). rewrite S1. cbn [has_prefix k_hash]. unfold atTaskKeyword. rewrite S1. cbn [has_prefix k_task andb].
    rewrite (peek_ok l' d' e g' I1). cbn [fst snd]. rewrite S1. cbn [decode fst snd]. assert (is_ident RuneError = false) as -> by (vm_compute; reflexivity).
    unfold atEOF. cbn [with_width suf]. rewrite S1. right. cbn [fst snd Pre2 R2]. split; [exact I|].
    rewrite mst_emit. replace (mst (with_width l' 0)) with (mst l') by (apply mst_same; reflexivity). rewrite M1. destruct HA as [nt ->]. reflexivity.
Qed.

Lemma lexComment_v fuel : forall l d e g, Inv l d e g -> mst l = M2AfterHash -> nl (pre l) = 0%nat ->
  fl (snd (lexCommentLoop fuel l)) <> FOk \/ (fst (lexCommentLoop fuel l) = SStart /\ mst (snd (lexCommentLoop fuel l)) = M2Top).
Proof.
  induction fuel as [|fuel IH]; intros l d e g HI Hm Hnl; cbn [lexCommentLoop]; [left; cbn; discriminate|].
  rewrite (atEOL_ok l d e g HI). set (l1 := with_width l (snd (decode (suf l)))).
  assert (I1 : Inv l1 d e g) by (apply with_width_inv; exact HI).
  destruct ((fst (decode (suf l)) =? 10) || has_prefix crlf (suf l))%bool eqn:Eeol.
  - right. cbn [orb fst snd]. split; [reflexivity|]. rewrite mst_emit. replace (mst l1) with (mst l) by (symmetry; apply mst_same; reflexivity).
    rewrite Hm. cbn [mon2 ty val mk_tok]. assert (no_byte 10 (rev (pre l1)) = true) as ->; [|reflexivity].
    apply nl_no_byte. cbn [l1 with_width pre]. rewrite nl_rev. exact Hnl.
  - cbn [orb]. destruct (atEOF l1) eqn:Eof.
    + right. cbn [fst snd]. split; [reflexivity|]. rewrite mst_emit. replace (mst l1) with (mst l) by (symmetry; apply mst_same; reflexivity).
      rewrite Hm. cbn [mon2 ty val mk_tok]. assert (no_byte 10 (rev (pre l1)) = true) as ->; [|reflexivity].
      apply nl_no_byte. cbn [l1 with_width pre]. rewrite nl_rev. exact Hnl.
    + destruct (next_spec l1) as (bs & N). pose proof (next_inv l1 d e g I1) as I2. destruct (next l1) as [r l2]. cbn [fst snd] in *.
      destruct N as [Ndec _ Npre _ Nnl _ _ _ _ _ _ Nout]. apply (IH l2 d e g I2).
      * rewrite (mst_same _ _ Nout). replace (mst l1) with (mst l) by (symmetry; apply mst_same; reflexivity). exact Hm.
      * apply orb_false_elim in Eeol. destruct Eeol as [E10 _]. cbn [l1 with_width suf] in Ndec. rewrite Ndec in E10. cbn [fst] in E10.
        rewrite Npre, nl_app, nl_rev, Nnl, E10. cbn [l1 with_width pre]. lia.
Qed.

Lemma lexTaskName_v l : Follows2 STaskName l (lexTaskName l).
Proof.
  intros d e g HI HP _ HR. cbn [Pre R2] in *. unfold lexTaskName.
  set (li := identLoop (S (length (suf l))) l).
  destruct (identLoop_ok (S (length (suf l))) l d e g HI ltac:(lia)) as (Ii & Oi & _).
  pose proof (identLoop_value (S (length (suf l))) l d e g HI ltac:(lia) ltac:(rewrite HP; apply ident_ok_nil)) as Hv. fold li in Ii, Oi, Hv.
  pose proof (emit_inv IDENT li d e g Ii ltac:(discriminate) ltac:(discriminate)) as Ie.
  destruct (skipws_facts (emit IDENT li) _ _ _ Ie eq_refl) as ((d' & g' & I1) & P1 & O1 & M1 & _). set (l' := skipWhitespace (emit IDENT li)) in *.
  assert (Hm : mst l' = M2AfterName).
  { rewrite M1, mst_emit, (mst_same _ _ Oi), HR. cbn [mon2 ty val mk_tok]. unfold vident, ident_b. unfold ident_ok in Hv. rewrite Hv. reflexivity. }
  rewrite (peek_ok l' d' _ g' I1). cbn [fst snd].
  destruct (fst (decode (suf l')) =? 40).
  - right. cbn [fst snd Pre2 R2]. split; [exact I|]. right. left. rewrite <- Hm. apply mst_same. reflexivity.
  - cbn [fst snd]. apply (error_done _ _ d' (pos li) g'); [apply with_width_inv; exact I1|]. right. left. rewrite <- Hm. apply mst_same. reflexivity.
Qed.

Lemma not_eol_after_ws s : is_space (fst (decode s)) = false -> ((fst (decode s) =? 10) || has_prefix crlf s)%bool = false.
Proof.
  intros H. apply orb_false_intro.
  - apply N.eqb_neq. intros E. rewrite E in H. discriminate.
  - destruct s as [|b s]; [reflexivity|]. cbn [crlf has_prefix]. destruct (N.eqb_spec 13 b) as [<-|]; [|reflexivity].
    rewrite decode_ascii_cons in H by lia. discriminate.
Qed.

Lemma lexIdent_v l : Follows2 SIdent l (lexIdent l).
Proof.
  intros d e g HI HP HP2 HR. cbn [Pre Pre2 R2] in *. unfold lexIdent.
  set (li := identLoop (S (length (suf l))) l).
  destruct (identLoop_ok (S (length (suf l))) l d e g HI ltac:(lia)) as (Ii & Oi & _ & _ & Hge & Hgt).
  pose proof (identLoop_value (S (length (suf l))) l d e g HI ltac:(lia) HP2) as Hv. fold li in Ii, Oi, Hv, Hge, Hgt.
  assert (Hne : rev (pre li) <> []).
  { intros E. apply (f_equal (@length N)) in E. rewrite rev_length in E. cbn [length] in E. destruct HP as [HP|HP]; [destruct (pre l); [congruence|cbn [length] in Hge; lia]|specialize (Hgt HP); lia]. }
  set (name := rev (pre li)) in *.
  pose proof (emit_inv IDENT li d e g Ii ltac:(discriminate) ltac:(discriminate)) as Ie.
  destruct (skipws_facts (emit IDENT li) _ _ _ Ie eq_refl) as ((d' & g' & I1) & P1 & O1 & M1 & _ & Sp1). set (l' := skipWhitespace (emit IDENT li)) in *.
  assert (Hm : mst l' = M2AfterIdent (negb (bytes_eqb name k_task))).
  { rewrite M1, mst_emit, (mst_same _ _ Oi), HR. cbn [mon2 ty val mk_tok]. fold name. unfold vname, ident_b, nonnil_b. unfold ident_ok in Hv. rewrite Hv.
    destruct name; [congruence|]. reflexivity. }
  assert (Haft : aft (mst l')) by (eexists; exact Hm).
  rewrite (peek_ok l' d' _ g' I1). cbn [fst snd]. set (l1 := with_width l' (snd (decode (suf l')))).
  assert (I1' : Inv l1 d' (pos li) g') by (apply with_width_inv; exact I1).
  assert (M1' : mst l1 = mst l') by (apply mst_same; reflexivity).
  destruct (fst (decode (suf l')) =? 40); [right; cbn [fst snd Pre2 R2]; split; [exact I|right; right; rewrite M1'; exact Haft]|].
  destruct (has_prefix k_declare (suf l1)).
  { destruct (bytes_eqb name k_task) eqn:Ek.
    - cbn [fst snd]. apply (error_done _ _ _ _ _ I1'). right. right. left. rewrite M1'. exact Haft.
    - right. cbn [fst snd Pre2 R2]. split; [exact I|]. rewrite M1', Hm. reflexivity. }
  rewrite (atEOL_ok l1 _ _ _ I1'). cbn [l1 with_width suf]. rewrite (not_eol_after_ws _ Sp1). cbn [orb].
  set (l2 := with_width l1 (snd (decode (suf l')))).
  assert (I2 : Inv l2 d' (pos li) g') by (apply with_width_inv; exact I1').
  assert (M2' : mst l2 = mst l') by (apply mst_same; reflexivity).
  destruct (atEOF l2) eqn:Eof.
  { right. cbn [fst snd Pre2 R2]. split; [exact I|]. right. split; [rewrite M2'; exact Haft|]. unfold atEOF in Eof. destruct (suf l2); [reflexivity|discriminate]. }
  rewrite (peek_ok l2 _ _ _ I2). cbn [fst snd]. set (l3 := with_width l2 (snd (decode (suf l2)))).
  assert (I3 : Inv l3 d' (pos li) g') by (apply with_width_inv; exact I2).
  assert (M3 : mst l3 = mst l') by (apply mst_same; reflexivity).
  repeat match goal with |- context [if ?c then _ else _] => destruct c end;
    try (right; cbn [fst snd Pre2 R2]; split; [exact I|]; first [right; rewrite M3; exact Haft | right; left; rewrite M3; exact Haft]);
    try (cbn [fst snd]; apply (error_done _ _ _ _ _ I3); right; right; left; rewrite M3; exact Haft).
Qed.

(* the states that read one rune and choose *)
Ltac after_dispatch D HR Ml :=
  destruct D as (DS & DI & DL & DM & DMB & DI1 & DIB);
  repeat match goal with |- context [if ?c then _ else _] => let E := fresh "E" in destruct c eqn:E end;
  first
  [ right; cbn [fst snd R2]; split; [first [exact I | apply DS; apply N.eqb_eq; assumption | apply DI; first [assumption|reflexivity] | apply DL; first [assumption|reflexivity]]|];
    first [ rewrite DMB, Ml; exact HR | rewrite DM, Ml; exact HR | left; rewrite DMB, Ml; exact HR | left; rewrite DM, Ml; exact HR ]
  | cbn [fst snd]; eapply error_done; [first [exact DI1 | exact DIB]|]; first [left; rewrite DM, Ml; exact HR | left; rewrite DMB, Ml; exact HR] ].

Lemma lexArgs_v l : Follows2 SArgs l (lexArgs l).
Proof.
  intros d e g HI HP _ HR. cbn [Pre R2] in *. unfold lexArgs.
  destruct (skipws_facts l d e g HI HP) as ((d' & g' & I1) & P1 & O1 & M1 & _). set (l' := skipWhitespace l) in *.
  pose proof (dispatch_pre l' d' e g' I1 P1) as D. destruct (next l') as [r l1]. cbn [fst snd] in D.
  after_dispatch D HR M1.
Qed.

Lemma lexComma_v l : Follows2 SComma l (lexComma l).
Proof.
  intros d e g HI HP _ HR. cbn [Pre R2] in *. unfold lexComma.
  destruct (absorb_emit COMMA [44] l d e g HI HP eq_refl ltac:(discriminate) ltac:(discriminate)) as ((d1 & I1) & P1 & _).
  cbn [length] in I1, P1.
  assert (Mc : mst (emit COMMA (absorb 1 l)) = M2Top).
  { rewrite mst_emit, (mst_same _ _ (out_absorb 1 l)). m2cases; rewrite H; reflexivity. }
  destruct (skipws_facts _ _ _ _ I1 P1) as ((d' & g' & I2) & P2 & O2 & M2 & _). set (l' := skipWhitespace (emit COMMA (absorb 1 l))) in *.
  rewrite Mc in M2.
  pose proof (dispatch_pre l' d' _ g' I2 P2) as D. destruct (next l') as [r l1]. cbn [fst snd] in D.
  assert (HR' : M2Top = M2Top) by reflexivity.
  destruct D as (DS & DI & DL & DM & DMB & DI1 & DIB);
  repeat match goal with |- context [if ?c then _ else _] => let E := fresh "E" in destruct c eqn:E end;
  right; cbn [fst snd R2]; (split; [first [exact I | apply DS; apply N.eqb_eq; assumption | apply DI; first [assumption|reflexivity]]|]);
    first [ rewrite DMB; exact M2 | rewrite DM; exact M2 | left; rewrite DMB; exact M2 | left; rewrite DM; exact M2 ].
Qed.

Lemma lexDeclare_v l : Follows2 SDeclare l (lexDeclare l).
Proof.
  intros d e g HI [HP Hpre] _ HR. cbn [R2] in *. unfold lexDeclare.
  destruct (skipWhitespace_ok l d e g HI HP) as ((d0 & g0 & I0) & P0 & O0 & _ & Sp0).
  assert (S0 : suf (skipWhitespace l) = suf l).
  { unfold skipWhitespace. apply (skipWS_exact [] (Forall_nil _) _ l (suf l) eq_refl); [lia|].
    apply has_prefix_split in Hpre. rewrite Hpre. cbn [k_declare app]. rewrite decode_ascii_cons by lia. reflexivity. }
  destruct (absorb_emit DECLARE k_declare (skipWhitespace l) d0 e g0 I0 ltac:(rewrite S0; exact Hpre) eq_refl ltac:(discriminate) ltac:(discriminate)) as ((d1 & I1) & P1 & _).
  assert (Mc : mst (emit DECLARE (absorb 2 (skipWhitespace l))) = M2Top).
  { rewrite mst_emit, (mst_same _ _ (out_absorb 2 _)), (mst_same _ _ O0), HR. reflexivity. }
  destruct (skipws_facts _ _ _ _ I1 P1) as ((d' & g' & I2) & P2 & O2 & M2 & _). set (l' := skipWhitespace (emit DECLARE (absorb 2 (skipWhitespace l)))) in *.
  cbn [length k_declare] in M2. rewrite Mc in M2.
  pose proof (dispatch_pre l' d' _ g' I2 P2) as D. destruct (next l') as [r l1]. cbn [fst snd] in D.
  destruct D as (DS & DI & DL & DM & DMB & DI1 & DIB);
  repeat match goal with |- context [if ?c then _ else _] => let E := fresh "E" in destruct c eqn:E end;
  right; cbn [fst snd R2]; (split; [first [exact I | apply DS; apply N.eqb_eq; assumption | apply DI; first [assumption|reflexivity]]|]);
    first [ rewrite DMB; exact M2 | rewrite DM; exact M2 | left; rewrite DMB; exact M2 | left; rewrite DM; exact M2 ].
Qed.

Lemma lexOutputOperator_v l : Follows2 SOutputOp l (lexOutputOperator l).
Proof.
  intros d e g HI HP _ HR. cbn [Pre R2] in *. unfold lexOutputOperator.
  destruct (absorb_emit OUTPUT k_output l d e g HI HP eq_refl ltac:(discriminate) ltac:(discriminate)) as ((d1 & I1) & P1 & _).
  assert (Mc : mst (emit OUTPUT (absorb 2 l)) = M2Top) by (rewrite mst_emit, (mst_same _ _ (out_absorb 2 l)), HR; reflexivity).
  destruct (skipws_facts _ _ _ _ I1 P1) as ((d' & g' & I2) & P2 & O2 & M2 & _). set (l' := skipWhitespace (emit OUTPUT (absorb 2 l))) in *.
  cbn [length k_output] in M2. rewrite Mc in M2.
  pose proof (dispatch_pre l' d' _ g' I2 P2) as D. destruct (next l') as [r l1]. cbn [fst snd] in D.
  destruct D as (DS & DI & DL & DM & DMB & DI1 & DIB);
  repeat match goal with |- context [if ?c then _ else _] => let E := fresh "E" in destruct c eqn:E end;
  first
  [ right; cbn [fst snd R2]; (split; [first [exact I | apply DS; apply N.eqb_eq; assumption | apply DI; first [assumption|reflexivity]]|]);
    first [ rewrite DMB; exact M2 | rewrite DM; exact M2 | left; rewrite DMB; exact M2 | left; rewrite DM; exact M2 ]
  | cbn [fst snd]; eapply error_done; [first [exact DI1 | exact DIB]|]; first [left; rewrite DM; exact M2 | left; rewrite DMB; exact M2] ].
Qed.

Lemma lexRightParen_v l : Follows2 SRightParen l (lexRightParen l).
Proof.
  intros d e g HI HP _ HR. cbn [Pre R2] in *. unfold lexRightParen.
  destruct (absorb_emit RPAREN [41] l d e g HI HP eq_refl ltac:(discriminate) ltac:(discriminate)) as ((d1 & I1) & P1 & _).
  assert (Mc : mst (emit RPAREN (absorb 1 l)) = M2Top).
  { rewrite mst_emit, (mst_same _ _ (out_absorb 1 l)). m2cases; rewrite H; reflexivity. }
  destruct (skipws_facts _ _ _ _ I1 P1) as ((d' & g' & I2) & P2 & O2 & M2 & _). set (l' := skipWhitespace (emit RPAREN (absorb 1 l))) in *.
  cbn [length] in M2. rewrite Mc in M2.
  rewrite (peek_ok l' d' _ g' I2). cbn [fst snd]. set (l1 := with_width l' (snd (decode (suf l')))).
  assert (I1' : Inv l1 d' (start l + length (pre l) + 1)%nat g') by (apply with_width_inv; exact I2).
  assert (M1' : mst l1 = M2Top) by (rewrite <- M2; apply mst_same; reflexivity).
  destruct (fst (decode (suf l')) =? 123); [right; cbn [fst snd Pre2 R2]; split; [exact I|left; exact M1']|].
  destruct (has_prefix k_output (suf l1)); [right; cbn [fst snd Pre2 R2]; split; [exact I|exact M1']|].
  rewrite (atEOL_ok l1 _ _ _ I1'). set (l2 := with_width l1 (snd (decode (suf l1)))).
  assert (I2' : Inv l2 d' (start l + length (pre l) + 1)%nat g') by (apply with_width_inv; exact I1').
  assert (M2' : mst l2 = M2Top) by (rewrite <- M1'; apply mst_same; reflexivity).
  repeat match goal with |- context [if ?c then _ else _] => destruct c end;
    try (right; cbn [fst snd Pre2 R2]; split; [exact I|]; first [exact M2' | left; exact M2']);
    try (cbn [fst snd]; apply (error_done _ _ _ _ _ I2'); left; exact M2').
Qed.

Lemma lexTaskBody_v l : Follows2 STaskBody l (lexTaskBody l).
Proof.
  intros d e g HI HP _ HR. cbn [Pre R2] in *. unfold lexTaskBody.
  destruct (atEOF l); [cbn [fst snd]; apply (error_done _ _ d e g HI); right; right; right; left; exact HR|].
  destruct (skipws_facts l d e g HI HP) as ((d' & g' & I1) & P1 & O1 & M1 & _). set (l' := skipWhitespace l) in *.
  pose proof (dispatch_pre l' d' e g' I1 P1) as D. destruct (next l') as [r l1]. cbn [fst snd] in D.
  destruct D as (DS & DI & DL & DM & DMB & DI1 & DIB);
  repeat match goal with |- context [if ?c then _ else _] => let E := fresh "E" in destruct c eqn:E end;
  right; cbn [fst snd R2]; (split; [first [exact I | apply DL; first [assumption|reflexivity]]|]);
    first [ rewrite DMB, M1; exact HR | rewrite DM, M1; exact HR | left; rewrite DMB, M1; exact HR | right; right; left; rewrite DM, M1; exact HR ].
Qed.

(* ---- strings ---- *)
Lemma rune_tl_no_lf s r w : decode s = (r, w) -> no_byte 10 (tl (firstn w s)) = true.
Proof.
  intros Ed. pose proof (decode_spec s) as D. rewrite Ed in D. destruct D as (_ & _ & _ & _ & _ & _ & Dhi).
  destruct (Nat.le_gt_cases 2 w) as [H2|H1].
  - specialize (Dhi H2). destruct (firstn w s) as [|x xs]; [reflexivity|]. cbn [tl]. inversion Dhi as [|? ? _ Hxs]; subst. clear -Hxs.
    induction Hxs as [|y l Hy _ IH]; [reflexivity|]. unfold no_byte in *. cbn [forallb]. rewrite IH, andb_true_r. apply negb_true_iff. apply N.eqb_neq. lia.
  - destruct w as [|[|w]]; [reflexivity| |lia]. destruct s; reflexivity.
Qed.

Lemma unquote_quoted body : unquote (34 :: body ++ [34]) = Some body.
Proof. unfold unquote. rewrite rev_app_distr. cbn [rev app]. rewrite rev_involutive. reflexivity. Qed.

Lemma error_done0 k l : (mst l = M2Top \/ mst l = M2AfterName \/ aft (mst l) \/ mst l = M2Body1 \/ mst l = M2BodyN) ->
  fl (error k l) <> FOk \/ (Pre2 SDone (error k l) /\ R2 SDone (error k l) (mst (error k l))).
Proof.
  intros Hm. right. split; [exact I|]. destruct (mst_error k l) as (t & Ht & E). cbn [R2]. rewrite E. apply mon2_err; assumption.
Qed.

Lemma lexString_v fuel : forall l d e g body, Inv l d e g -> mst l = M2Top -> pre l = rev (34 :: body) ->
  no_byte 34 body = true -> no_byte 10 (tl body) = true -> (body <> [] -> fst (decode (suf l)) <> 10) ->
  let r := lexStringLoop fuel l in
  fl (snd r) <> FOk \/ (Pre2 (fst r) (snd r) /\ R2 (fst r) (snd r) (mst (snd r))).
Proof.
  induction fuel as [|fuel IH]; intros l d e g body HI Hm Hpre H34 H10 Hlf; cbn zeta; cbn [lexStringLoop]; [left; cbn; discriminate|].
  pose proof (out_next l) as O2. take_next_tac HI l rr l2.
  assert (M2l : mst l2 = M2Top) by (rewrite (mst_same _ _ O2); exact Hm).
  assert (Ebs : bs = firstn (length bs) (suf l)) by (rewrite Hs, firstn_app_len; reflexivity).
  assert (Edb : decode bs = (rr, length bs)).
  { destruct (decode (suf l)) as [r0 w0] eqn:Ed0. cbn [fst snd] in *. subst r0. rewrite Ebs at 1. rewrite Hl. apply (decode_firstn _ _ _ _ Ed0). lia. }
  destruct (rr =? 34) eqn:E34.
  - apply N.eqb_eq in E34. rewrite E34 in Edb.
    assert (Hb : bs = [34]) by (apply (rune_ascii_bytes bs 34 Edb); lia).
    pose proof (emit_inv STRING l2 d e g In2 ltac:(discriminate) ltac:(discriminate)) as Ie.
    assert (Me : mst (emit STRING l2) = M2Top).
    { rewrite mst_emit, M2l. cbn [mon2 ty val mk_tok]. rewrite Hp, Hpre, Hb, rev_app_distr, rev_involutive. cbn [rev app].
      unfold vstr. rewrite unquote_quoted. unfold str_b. rewrite H34, H10. reflexivity. }
    destruct (atEOF (emit STRING l2)); [right; cbn [fst snd Pre2 R2]; split; [exact I|left; exact Me]|].
    rewrite (atEOL_ok _ _ _ _ Ie).
    destruct ((fst (decode (suf (emit STRING l2))) =? 10) || has_prefix crlf (suf (emit STRING l2)))%bool;
      right; cbn [fst snd Pre2 R2]; (split; [exact I|]); first [left; rewrite <- Me; apply mst_same; reflexivity | rewrite <- Me; apply mst_same; reflexivity].
  - apply N.eqb_neq in E34.
    destruct (atEOF l2); [cbn [fst snd]; apply error_done0; left; rewrite (mst_same _ _ (out_backup l2)); exact M2l|].
    rewrite (atEOL_ok l2 _ _ _ In2). set (l3 := with_width l2 (snd (decode (suf l2)))).
    assert (I3 : Inv l3 d e g) by (apply with_width_inv; exact In2).
    assert (M3 : mst l3 = M2Top) by (rewrite <- M2l; apply mst_same; reflexivity).
    destruct ((fst (decode (suf l2)) =? 10) || has_prefix crlf (suf l2))%bool eqn:Eeol;
      [cbn [fst snd]; apply error_done0; left; rewrite (mst_same _ _ (out_backup l3)); exact M3|].
    apply (IH l3 d e g (body ++ bs) I3 M3).
    + cbn [l3 with_width pre]. rewrite Hp, Hpre. cbn [rev]. rewrite rev_app_distr. rewrite <- app_assoc. reflexivity.
    + rewrite no_byte_app, H34. cbn [andb]. rewrite Ebs. apply (rune_no_byte (suf l) rr); [|exact E34|lia].
      destruct (decode (suf l)) as [r0 w0]. cbn [fst snd] in *. rewrite Er, Hl. reflexivity.
    + destruct body as [|b0 body0].
      * cbn [app]. rewrite Ebs. apply (rune_tl_no_lf (suf l) rr). destruct (decode (suf l)) as [r0 w0]. cbn [fst snd] in *. rewrite Er, Hl. reflexivity.
      * cbn [app tl] in *. rewrite no_byte_app, H10. cbn [andb]. rewrite Ebs. apply (rune_no_byte (suf l) rr); [| |lia].
        -- destruct (decode (suf l)) as [r0 w0]. cbn [fst snd] in *. rewrite Er, Hl. reflexivity.
        -- rewrite Er. apply Hlf. discriminate.
    + intros _. cbn [l3 with_width suf]. apply orb_false_elim in Eeol. destruct Eeol as [E10 _]. apply N.eqb_neq. exact E10.
Qed.
