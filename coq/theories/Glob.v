(* Model of glob expansion: spok's expandGlob callback on top of doublestar's GlobWalk
   (doGlobWalk / globDirWalk / globDoubleStarWalk of bmatcuk/doublestar v4.7.1), for patterns whose
   segments are names with literal bytes, '*', '?' and character classes, or the segment "**"; alternation {a,b} is
   expanded first (expand_alts, at the end).  Backslash escapes are outside the fragment.  The callback protocol (nil / SkipDir, with doublestar's "SkipDir on a
   listing entry abandons the rest of the listing") is kept, so the unrepaired callback can be expressed too. *)
From Spok Require Import Base.
Open Scope N_scope.

Definition sname := bytes.
Inductive gnode := GFile | GDir (cs : list (sname * gnode)).        (* entries in os.ReadDir order (sorted by name) *)
Definition gpath := list sname.                                  (* relative path, outermost first; [] is "." *)

Inductive seg := SPat (p : bytes) | SDouble.

Definition is_dir (n : gnode) : bool := match n with GDir _ => true | GFile => false end.

Fixpoint child (cs : list (sname * gnode)) (n : sname) : option gnode :=
  match cs with
  | [] => None
  | (m, c) :: rest => if bytes_eqb m n then Some c else child rest n
  end.
Fixpoint lookup (t : gnode) (p : gpath) : option gnode :=
  match p with
  | [] => Some t
  | n :: r => match t with
              | GFile => None
              | GDir cs => match child cs n with Some c => lookup c r | None => None end
              end
  end.

(* ---- matching one name against one pattern segment (doublestar's doMatchWithSeparator restricted to a pattern without '/') ----
   '*' any run of runes, '?' one rune, '[...]' one rune of a class ('!' or '^' negates; x-y ranges), anything else itself.
   The pattern is tokenised first (None: not a pattern of the fragment - a class that does not end, an empty class, a
   backslash escape, or a '{' that alternation expansion did not remove). *)
Inductive citem := CSingle (r : N) | CRange (lo hi : N).
Inductive ptok := PStar | PAny | PClass (neg : bool) (items : list citem) | PLit (b : N).

(* the items of a class up to the closing ']', as the loop of the matcher reads them: a rune, or "-hi" directly after a
   rune read as a single (the single stays: "a-z" is the single a and the range a..z) *)
Fixpoint class_items (fuel : nat) (p : bytes) (last : option N) : option (list citem * bytes) :=
  match fuel with
  | O => None
  | S f =>
    match p with
    | [] => None                                       (* the class never ends *)
    | 93 :: rest => Some ([], rest)
    | 92 :: _ => None                                  (* escapes are outside the fragment *)
    | _ =>
      let '(r, w) := decode p in
      let p' := skipn w p in
      match last, p' with
      | Some l, c :: _ =>
        if (r =? 45) && negb (c =? 93) then
          if c =? 92 then None else
          let '(r2, w2) := decode p' in
          match class_items f (skipn w2 p') None with
          | Some (its, rest) => Some (CRange l r2 :: its, rest)
          | None => None
          end
        else match class_items f p' (Some r) with Some (its, rest) => Some (CSingle r :: its, rest) | None => None end
      | _, _ => match class_items f p' (Some r) with Some (its, rest) => Some (CSingle r :: its, rest) | None => None end
      end
    end
  end.

Fixpoint ptoks_f (fuel : nat) (p : bytes) : option (list ptok) :=
  match fuel with
  | O => None
  | S f =>
    match p with
    | [] => Some []
    | b :: rest =>
      if b =? 42 then match ptoks_f f rest with Some ts => Some (PStar :: ts) | None => None end
      else if b =? 63 then match ptoks_f f rest with Some ts => Some (PAny :: ts) | None => None end
      else if (b =? 92) || (b =? 123) then None
      else if b =? 91 then
        let '(neg, body) := match rest with 33 :: b => (true, b) | 94 :: b => (true, b) | _ => (false, rest) end in
        match body with
        | [] => None
        | 93 :: _ => None                                (* empty class *)
        | _ => match class_items (S (length body)) body None with
               | Some (its, after) => match ptoks_f f after with Some ts => Some (PClass neg its :: ts) | None => None end
               | None => None
               end
        end
      else match ptoks_f f rest with Some ts => Some (PLit b :: ts) | None => None end
    end
  end.
Definition ptoks (p : bytes) : option (list ptok) := ptoks_f (S (length p)) p.

Definition citem_has (r : N) (i : citem) : bool :=
  match i with CSingle x => x =? r | CRange lo hi => (lo <=? r) && (r <=? hi) end.

(* literal bytes are compared byte by byte (the matcher compares decoded runes: the same thing on valid UTF-8) *)
Fixpoint tokmatch (ts : list ptok) : bytes -> bool :=
  match ts with
  | [] => fun s => is_nil_b s
  | PStar :: ts' => fun s =>
    (fix star (fuel : nat) (s : bytes) : bool :=
       tokmatch ts' s ||
       match fuel, s with
       | S f, _ :: _ => star f (skipn (snd (decode s)) s)   (* the star gives way one rune at a time *)
       | _, _ => false
       end) (length s) s
  | PAny :: ts' => fun s => match s with [] => false | _ => tokmatch ts' (skipn (snd (decode s)) s) end
  | PClass neg its :: ts' => fun s =>
    match s with
    | [] => false
    | _ => let '(r, w) := decode s in negb (Bool.eqb (existsb (citem_has r) its) neg) && tokmatch ts' (skipn w s)
    end
  | PLit b :: ts' => fun s => match s with [] => false | x :: s' => (b =? x) && tokmatch ts' s' end
  end.

Definition segmatch (p : bytes) (s : bytes) : bool :=
  match ptoks p with Some ts => tokmatch ts s | None => false end.
Definition is_meta (c : N) : bool := (c =? 42) || (c =? 63) || (c =? 91) || (c =? 92) || (c =? 123).
Definition has_meta (p : bytes) : bool := existsb is_meta p.

(* ---- the callback protocol ---- *)
Definition cbk := gpath -> bool -> list gpath * bool.           (* fn(path, isDir) = (what it collected, returned SkipDir?) *)

(* the listing loop of globDirWalk *)
Fixpoint dir_loop (pat : bytes) (canFiles : bool) (dir : gpath) (fn : cbk) (es : list (sname * gnode)) : list gpath :=
  match es with
  | [] => []
  | (n, c) :: rest =>
    if segmatch pat n && (canFiles || is_dir c) then
      let '(o, skip) := fn (dir ++ [n]) (is_dir c) in
      if skip then o else o ++ dir_loop pat canFiles dir fn rest
    else dir_loop pat canFiles dir fn rest
  end.

(* globDoubleStarWalk: the loop over one directory listing, `rec` being the recursive call on a sub-directory *)
Definition ds_loop (rec : gpath -> gnode -> list gpath) (canFiles : bool) (fn : cbk) (dir : gpath)
  : list (sname * gnode) -> list gpath :=
  fix loop (cs : list (sname * gnode)) : list gpath :=
    match cs with
    | [] => []
    | (n, c) :: rest =>
      let p := dir ++ [n] in
      if is_dir c then
        let '(o, skip) := fn p true in
        if skip then o ++ loop rest else o ++ rec p c ++ loop rest
      else if canFiles then
        let '(o, skip) := fn p false in
        if skip then o else o ++ loop rest
      else loop rest
    end.

Fixpoint ds_walk (canFiles : bool) (fn : cbk) (dir : gpath) (t : gnode) : list gpath :=
  match t with
  | GFile => []
  | GDir cs => ds_loop (fun p c => ds_walk canFiles fn p c) canFiles fn dir cs
  end.

(* globDirWalk *)
Definition glob_dir_walk (root : gnode) (dir : gpath) (s : seg) (canFiles : bool) (fn : cbk) : list gpath :=
  match lookup root dir with
  | Some (GDir cs) =>
    match s with
    | SDouble => let '(o, skip) := fn dir true in if skip then o else o ++ ds_walk canFiles fn dir (GDir cs)
    | SPat p => dir_loop p canFiles dir fn cs
    end
  | _ => []
  end.

(* a directory part without meta characters is used as a path directly *)
Fixpoint lits (l : list seg) : option gpath :=
  match l with
  | [] => Some []
  | SPat p :: r => if has_meta p then None else match lits r with Some q => Some (p :: q) | None => None end
  | SDouble :: _ => None
  end.

(* doGlobWalk; the pattern is given last segment first *)
Fixpoint do_glob_walk (root : gnode) (rpat : list seg) (first : bool) (fn : cbk) : list gpath :=
  match rpat with
  | [] => []
  | last :: rdir =>
    match lits (rev rdir) with
    | Some dir =>
      match (match last with SPat p => if has_meta p then None else Some p | SDouble => None end) with
      | Some name =>                                   (* no meta character at all: does the path exist? *)
        match lookup root (dir ++ [name]) with
        | Some c => fst (fn (dir ++ [name]) (is_dir c))
        | None => []
        end
      | None => glob_dir_walk root dir last first fn
      end
    | None => do_glob_walk root rdir false (fun p _ => (glob_dir_walk root p last first fn, false))
    end
  end.

(* ---- spok's side: file.expandGlob ---- *)
Definition hidden (p : gpath) : bool :=          (* strings.HasPrefix(path, ".") ; the path of [] is "." *)
  match p with
  | [] => true
  | s :: _ => match s with 46 :: _ => true | _ => false end
  end.
Definition spok_cb : cbk := fun p _ => if hidden p then ([], false) else ([p], false).
Definition old_spok_cb : cbk := fun p _ => if hidden p then ([], true) else ([p], false).   (* before the repair: SkipDir *)

Definition expand_with (cb : cbk) (root : gnode) (pat : list seg) : list gpath := do_glob_walk root (rev pat) true cb.
Definition expand := expand_with spok_cb.

(* ---- the specification: a reference matcher that walks the tree along the path ---- *)
Fixpoint tmatch (pat : list seg) (t : gnode) (p : gpath) : bool :=
  match pat with
  | [] => is_nil_b p
  | SPat s :: ps =>
    match p, t with
    | n :: r, GDir cs => segmatch s n && match child cs n with Some c => tmatch ps c r | None => false end
    | _, _ => false
    end
  | SDouble :: ps =>
    (* "**" stands for zero or more directories below a directory; as the last segment it stands for everything below *)
    (fix skip (t : gnode) (p : gpath) : bool :=
       match t with
       | GFile => false
       | GDir cs =>
         tmatch ps t p ||
         match p with
         | [] => false
         | n :: r => match child cs n with
                     | Some c => if is_nil_b ps && is_nil_b r then true else skip c r
                     | None => false
                     end
         end
       end) t p
  end.

(* every path of the tree, directories included, "." first *)
Fixpoint all_paths (t : gnode) : list gpath :=
  [] :: match t with
        | GFile => []
        | GDir cs => (fix go (cs : list (sname * gnode)) : list gpath :=
                       match cs with
                       | [] => []
                       | (n, c) :: rest => map (cons n) (all_paths c) ++ go rest
                       end) cs
        end.

Definition glob_spec (root : gnode) (pat : list seg) : list gpath :=
  filter (fun p => tmatch pat root p && negb (hidden p)) (all_paths root).

(* ---- whole patterns as written in a spokfile: alternation, then segments ---- *)
Fixpoint split_slash (cur : bytes) (p : bytes) : list bytes :=
  match p with
  | [] => [rev cur]
  | c :: r => if c =? 47 then rev cur :: split_slash [] r else split_slash (c :: cur) r
  end.
Definition seg_of (s : bytes) : seg := if bytes_eqb s [42; 42] then SDouble else SPat s.
Definition parse_pattern (p : bytes) : list seg := map seg_of (split_slash [] p).

(* {a,b}: the first '{', its matching '}' (nested braces counted), the alternatives between top-level commas; the pattern
   denotes what any of  before ++ alternative ++ after  denotes (doMatchWithSeparator's case '{'; GlobWalk's globAltsWalk walks
   each alternative's pattern and merges the results) *)
Fixpoint find_open (p pre : bytes) : option (bytes * bytes) :=
  match p with
  | [] => None
  | c :: r => if c =? 123 then Some (rev pre, r) else find_open r (c :: pre)
  end.
Fixpoint closing (depth : nat) (p acc : bytes) : option (bytes * bytes) :=
  match p with
  | [] => None
  | c :: r =>
    if c =? 123 then closing (S depth) r (c :: acc)
    else if c =? 125 then match depth with O => Some (rev acc, r) | S d => closing d r (c :: acc) end
    else closing depth r (c :: acc)
  end.
Fixpoint split_alts (depth : nat) (p cur : bytes) : list bytes :=
  match p with
  | [] => [rev cur]
  | c :: r =>
    if (c =? 44) && Nat.eqb depth 0 then rev cur :: split_alts 0 r []
    else if c =? 123 then split_alts (S depth) r (c :: cur)
    else if c =? 125 then split_alts (Nat.pred depth) r (c :: cur)
    else split_alts depth r (c :: cur)
  end.
Fixpoint expand_alts (fuel : nat) (p : bytes) : list bytes :=
  match fuel with
  | O => []
  | S f =>
    match find_open p [] with
    | None => [p]
    | Some (pre, rest) =>
      match closing 0 rest [] with
      | None => []                                         (* a '{' that is never closed: not a pattern *)
      | Some (inside, after) => flat_map (fun alt => expand_alts f (pre ++ alt ++ after)) (split_alts 0 inside [])
      end
    end
  end.

(* what spok records for a glob pattern: the union over the alternatives *)
Definition expand_pat (root : gnode) (p : bytes) : list gpath :=
  flat_map (fun q => expand root (parse_pattern q)) (expand_alts (S (length p)) p).
Definition glob_spec_pat (root : gnode) (p : bytes) : list gpath :=
  flat_map (fun q => glob_spec root (parse_pattern q)) (expand_alts (S (length p)) p).
