(* Model of glob expansion: spok's expandGlob callback on top of doublestar's GlobWalk
   (doGlobWalk / globDirWalk / globDoubleStarWalk of bmatcuk/doublestar v4.7.1), for patterns whose
   segments are names with literal bytes and '*', or the segment "**".  Classes, '?', alternation and
   escapes are outside this fragment.  The callback protocol (nil / SkipDir, with doublestar's "SkipDir on a
   listing entry abandons the rest of the listing") is kept, so the unrepaired callback can be expressed too. *)
From Spok Require Import Base.
Open Scope N_scope.

Definition sname := bytes.
Inductive gnode := GFile | GDir (cs : list (sname * gnode)).        (* entries in os.ReadDir order (sorted by name) *)
Definition gpath := list sname.                                  (* relative path, outermost first; [] is "." *)

Inductive seg := SPat (p : bytes) | SDouble.

Definition is_dir (n : gnode) : bool := match n with GDir _ => true | GFile => false end.

Fixpoint child (cs : list (sname * gnode)) (n : sname) : option gnode :=
  match cs with
  | [] => None
  | (m, c) :: rest => if bytes_eqb m n then Some c else child rest n
  end.
Fixpoint lookup (t : gnode) (p : gpath) : option gnode :=
  match p with
  | [] => Some t
  | n :: r => match t with
              | GFile => None
              | GDir cs => match child cs n with Some c => lookup c r | None => None end
              end
  end.

(* matching one name against one pattern segment: '*' (42) matches any run of bytes *)
Fixpoint segmatch (p : bytes) (s : bytes) : bool :=
  match p with
  | [] => is_nil_b s
  | c :: p' =>
    if c =? 42 then
      (fix star (s : bytes) : bool := segmatch p' s || match s with [] => false | _ :: s' => star s' end) s
    else match s with [] => false | x :: s' => (c =? x) && segmatch p' s' end
  end.
Definition has_meta (p : bytes) : bool := existsb (fun c => c =? 42) p.

(* ---- the callback protocol ---- *)
Definition cbk := gpath -> bool -> list gpath * bool.           (* fn(path, isDir) = (what it collected, returned SkipDir?) *)

(* the listing loop of globDirWalk *)
Fixpoint dir_loop (pat : bytes) (canFiles : bool) (dir : gpath) (fn : cbk) (es : list (sname * gnode)) : list gpath :=
  match es with
  | [] => []
  | (n, c) :: rest =>
    if segmatch pat n && (canFiles || is_dir c) then
      let '(o, skip) := fn (dir ++ [n]) (is_dir c) in
      if skip then o else o ++ dir_loop pat canFiles dir fn rest
    else dir_loop pat canFiles dir fn rest
  end.

(* globDoubleStarWalk: the loop over one directory listing, `rec` being the recursive call on a sub-directory *)
Definition ds_loop (rec : gpath -> gnode -> list gpath) (canFiles : bool) (fn : cbk) (dir : gpath)
  : list (sname * gnode) -> list gpath :=
  fix loop (cs : list (sname * gnode)) : list gpath :=
    match cs with
    | [] => []
    | (n, c) :: rest =>
      let p := dir ++ [n] in
      if is_dir c then
        let '(o, skip) := fn p true in
        if skip then o ++ loop rest else o ++ rec p c ++ loop rest
      else if canFiles then
        let '(o, skip) := fn p false in
        if skip then o else o ++ loop rest
      else loop rest
    end.

Fixpoint ds_walk (canFiles : bool) (fn : cbk) (dir : gpath) (t : gnode) : list gpath :=
  match t with
  | GFile => []
  | GDir cs => ds_loop (fun p c => ds_walk canFiles fn p c) canFiles fn dir cs
  end.

(* globDirWalk *)
Definition glob_dir_walk (root : gnode) (dir : gpath) (s : seg) (canFiles : bool) (fn : cbk) : list gpath :=
  match lookup root dir with
  | Some (GDir cs) =>
    match s with
    | SDouble => let '(o, skip) := fn dir true in if skip then o else o ++ ds_walk canFiles fn dir (GDir cs)
    | SPat p => dir_loop p canFiles dir fn cs
    end
  | _ => []
  end.

(* a directory part without meta characters is used as a path directly *)
Fixpoint lits (l : list seg) : option gpath :=
  match l with
  | [] => Some []
  | SPat p :: r => if has_meta p then None else match lits r with Some q => Some (p :: q) | None => None end
  | SDouble :: _ => None
  end.

(* doGlobWalk; the pattern is given last segment first *)
Fixpoint do_glob_walk (root : gnode) (rpat : list seg) (first : bool) (fn : cbk) : list gpath :=
  match rpat with
  | [] => []
  | last :: rdir =>
    match lits (rev rdir) with
    | Some dir =>
      match (match last with SPat p => if has_meta p then None else Some p | SDouble => None end) with
      | Some name =>                                   (* no meta character at all: does the path exist? *)
        match lookup root (dir ++ [name]) with
        | Some c => fst (fn (dir ++ [name]) (is_dir c))
        | None => []
        end
      | None => glob_dir_walk root dir last first fn
      end
    | None => do_glob_walk root rdir false (fun p _ => (glob_dir_walk root p last first fn, false))
    end
  end.

(* ---- spok's side: file.expandGlob ---- *)
Definition hidden (p : gpath) : bool :=          (* strings.HasPrefix(path, ".") ; the path of [] is "." *)
  match p with
  | [] => true
  | s :: _ => match s with 46 :: _ => true | _ => false end
  end.
Definition spok_cb : cbk := fun p _ => if hidden p then ([], false) else ([p], false).
Definition old_spok_cb : cbk := fun p _ => if hidden p then ([], true) else ([p], false).   (* before the repair: SkipDir *)

Definition expand_with (cb : cbk) (root : gnode) (pat : list seg) : list gpath := do_glob_walk root (rev pat) true cb.
Definition expand := expand_with spok_cb.

(* ---- the specification: a reference matcher that walks the tree along the path ---- *)
Fixpoint tmatch (pat : list seg) (t : gnode) (p : gpath) : bool :=
  match pat with
  | [] => is_nil_b p
  | SPat s :: ps =>
    match p, t with
    | n :: r, GDir cs => segmatch s n && match child cs n with Some c => tmatch ps c r | None => false end
    | _, _ => false
    end
  | SDouble :: ps =>
    (* "**" stands for zero or more directories below a directory; as the last segment it stands for everything below *)
    (fix skip (t : gnode) (p : gpath) : bool :=
       match t with
       | GFile => false
       | GDir cs =>
         tmatch ps t p ||
         match p with
         | [] => false
         | n :: r => match child cs n with
                     | Some c => if is_nil_b ps && is_nil_b r then true else skip c r
                     | None => false
                     end
         end
       end) t p
  end.

(* every path of the tree, directories included, "." first *)
Fixpoint all_paths (t : gnode) : list gpath :=
  [] :: match t with
        | GFile => []
        | GDir cs => (fix go (cs : list (sname * gnode)) : list gpath :=
                       match cs with
                       | [] => []
                       | (n, c) :: rest => map (cons n) (all_paths c) ++ go rest
                       end) cs
        end.

Definition glob_spec (root : gnode) (pat : list seg) : list gpath :=
  filter (fun p => tmatch pat root p && negb (hidden p)) (all_paths root).
