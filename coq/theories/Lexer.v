(* Byte-level model of /repo/lexer/lexer.go: every helper and every state function, one for one.
   Go panics (slice out of range) and fuel exhaustion are explicit flags, never silently totalised. *)
From Spok Require Import Base.
Open Scope N_scope.

Inductive ttype := EOF | ERROR | COMMENT | HASH | LPAREN | RPAREN | LBRACE | RBRACE | QUOTE | COMMA
  | TASK | STRING | COMMAND | OUTPUT | IDENT | DECLARE | LINTERP | RINTERP.

Inductive ekind := EUnexpected | EMissingArrow | ENoOutput | EPunctIdent | EUnterminated | ETaskParen
  | EIdentPunct | EIdentIdent | EInvalidChar | EStringQuote | ETaskKeyword.

Record token := { ty : ttype; val : bytes; tpos : nat; tline : nat;
                  ek : option ekind; eline : nat; ectx : option bytes }.

Inductive flag := FOk | FPanic | FFuel.

Record lx := { inp : bytes; pre : bytes; suf : bytes; start : nat; line : nat; sline : nat;
               width : nat; fl : flag; out : list token }.

Definition pos (l : lx) : nat := (start l + length (pre l))%nat.

Definition set_fl (l : lx) f := {| inp := inp l; pre := pre l; suf := suf l; start := start l; line := line l;
  sline := sline l; width := width l; fl := f; out := out l |}.

(* move n bytes from suf to pre *)
Fixpoint fwd (n : nat) (p s : bytes) : bytes * bytes :=
  match n, s with
  | S n', b :: s' => fwd n' (b :: p) s'
  | _, _ => (p, s)
  end.
(* move n bytes from pre back to suf; None if not enough *)
Fixpoint bwd (n : nat) (p s : bytes) : option (bytes * bytes) :=
  match n, p with
  | O, _ => Some (p, s)
  | S n', b :: p' => bwd n' p' (b :: s)
  | S _, [] => None
  end.

Definition atEOF (l : lx) : bool := match suf l with [] => true | _ => false end.
Definition current (l : lx) : N := match suf l with [] => 0 | b :: _ => b end.

Definition next (l : lx) : N * lx :=
  let '(r, w) := decode (suf l) in
  let '(p, s) := fwd w (pre l) (suf l) in
  (r, {| inp := inp l; pre := p; suf := s; start := start l;
         line := if r =? 10 then S (line l) else line l;
         sline := sline l; width := w; fl := fl l; out := out l |}).

Definition backup (l : lx) : lx :=
  match bwd (width l) (pre l) (suf l) with
  | None => set_fl l FPanic
  | Some (p, s) =>
    let cur := match s with [] => 0 | b :: _ => b end in
    {| inp := inp l; pre := p; suf := s; start := start l;
       line := if Nat.eqb (width l) 1 && (cur =? 10) then Nat.pred (line l) else line l;
       sline := sline l; width := width l; fl := fl l; out := out l |}
  end.

Definition peek (l : lx) : N * lx := let '(r, l1) := next l in (r, backup l1).

Definition crlf : bytes := [13; 10].

Definition atEOL (l : lx) : bool * lx :=
  let '(r, l1) := peek l in
  if r =? 10 then (true, l1) else (has_prefix crlf (suf l1), l1).

(* l.pos += n.  Go itself does not fault here, but a position past the end of the input makes every
   later all()/rest() meaningless; the model treats absorbing more bytes than remain as a fault
   (FPanic) and the proofs show it is unreachable (every absorb follows a successful prefix test). *)
Definition absorb (n : nat) (l : lx) : lx :=
  if Nat.leb n (length (suf l)) then
    let '(p, s) := fwd n (pre l) (suf l) in
    {| inp := inp l; pre := p; suf := s; start := start l; line := line l; sline := sline l;
       width := width l; fl := fl l; out := out l |}
  else set_fl l FPanic.

Definition mk_tok t v p ln := {| ty := t; val := v; tpos := p; tline := ln; ek := None; eline := 0; ectx := None |}.

Definition emit (t : ttype) (l : lx) : lx :=
  {| inp := inp l; pre := []; suf := suf l; start := pos l; line := line l; sline := line l;
     width := width l; fl := fl l; out := mk_tok t (rev (pre l)) (start l) (sline l) :: out l |}.

Definition discard (l : lx) : lx :=
  {| inp := inp l; pre := []; suf := suf l; start := pos l; line := line l; sline := line l;
     width := width l; fl := fl l; out := out l |}.

(* strings.Split(input, "\n") *)
Fixpoint split_nl (acc : bytes) (s : bytes) : list bytes :=
  match s with
  | [] => [rev acc]
  | b :: s' => if b =? 10 then rev acc :: split_nl [] s' else split_nl (b :: acc) s'
  end.
(* strings.TrimSpace on bytes: trims unicode spaces; ASCII fast path plus decode for multibyte.
   prototype: trims leading/trailing runes r with is_space r, decoding forward; trailing via reverse scan
   of single-byte spaces and the multibyte spaces handled by a forward last-nonspace computation *)
Fixpoint trim_left (fuel : nat) (s : bytes) : bytes :=
  match fuel with
  | O => s
  | S f => let '(r, w) := decode s in
           if Nat.eqb w 0 then s else if is_space r then trim_left f (skipn w s) else s
  end.
(* length of s without trailing space runes: scan forward remembering end of last non-space rune *)
Fixpoint keep_len (fuel : nat) (s : bytes) (off last : nat) : nat :=
  match fuel with
  | O => last
  | S f => let '(r, w) := decode s in
           if Nat.eqb w 0 then last
           else if is_space r then keep_len f (skipn w s) (off + w) last
           else keep_len f (skipn w s) (off + w) (off + w)
  end.
Definition trim (s : bytes) : bytes :=
  let s1 := trim_left (S (length s)) s in firstn (keep_len (S (length s1)) s1 0 0) s1.

Definition getLine (l : lx) : option bytes :=
  nth_error (map trim (split_nl [] (inp l))) (Nat.pred (line l)).

Definition error (k : ekind) (l : lx) : lx :=
  let t := {| ty := ERROR; val := []; tpos := start l; tline := sline l;
              ek := Some k; eline := line l; ectx := getLine l |} in
  let l' := {| inp := inp l; pre := pre l; suf := suf l; start := start l; line := line l; sline := sline l;
     width := width l; fl := match line l, getLine l with O, _ => FPanic | _, None => FPanic | _, _ => fl l end;
     out := t :: out l |} in l'.

Fixpoint skipWS (fuel : nat) (l : lx) : lx :=
  match fuel with
  | O => set_fl l FFuel
  | S f => let '(r, l1) := next l in
           if is_space r then skipWS f l1 else discard (backup l1)
  end.
Definition skipWhitespace (l : lx) : lx := skipWS (S (length (suf l))) l.

Inductive st := SStart | SHash | SComment | STaskKeyword | SLeftParen | SRightParen | SOutputOp | SLeftBrace
  | SRightBrace | STaskBody | STaskCommands | STaskName | SIdent | SArgs | SComma | SDeclare | SString
  | SUnexpected | SDone.

Definition k_hash : bytes := [35].
Definition k_task : bytes := [116; 97; 115; 107].
Definition k_output : bytes := [45; 62].
Definition k_declare : bytes := [58; 61].
Definition k_linterp : bytes := [123; 123].
Definition k_rinterp : bytes := [125; 125].

(* atTaskKeyword: "task" not followed by an identifier rune *)
Definition atTaskKeyword (l : lx) : bool :=
  has_prefix k_task (suf l) && negb (is_ident (fst (decode (skipn 4 (suf l))))).

Definition lexStart (l0 : lx) : st * lx :=
  let l := skipWhitespace l0 in
  if has_prefix k_hash (suf l) then (SHash, l)
  else if atTaskKeyword l then (STaskKeyword, l)
  else let '(r, l1) := peek l in
    if is_ident r then (SIdent, l1)
    else if atEOF l1 then (SDone, emit EOF l1)
    else (SUnexpected, l1).

Definition lexHash (l : lx) : st * lx := (SComment, emit HASH (absorb 1 l)).

Fixpoint lexCommentLoop (fuel : nat) (l : lx) : st * lx :=
  match fuel with
  | O => (SDone, set_fl l FFuel)
  | S f => let '(eol, l1) := atEOL l in
           if eol || atEOF l1 then (SStart, emit COMMENT l1)
           else let '(_, l2) := next l1 in lexCommentLoop f l2
  end.
Definition lexComment (l : lx) := lexCommentLoop (S (length (suf l))) l.

Definition lexTaskKeyword (l : lx) : st * lx := (STaskName, skipWhitespace (emit TASK (absorb 4 l))).
Definition lexLeftParen (l : lx) : st * lx := (SArgs, skipWhitespace (emit LPAREN (absorb 1 l))).

Definition lexRightParen (l0 : lx) : st * lx :=
  let l := skipWhitespace (emit RPAREN (absorb 1 l0)) in
  let '(r, l1) := peek l in
  if r =? 123 then (SLeftBrace, l1)
  else if has_prefix k_output (suf l1) then (SOutputOp, l1)
  else let '(eol, l2) := atEOL l1 in
    if eol || atEOF l2 || is_ident r then (SStart, l2)
    else if r =? 35 then (SHash, l2)
    else if (r =? 34) || (r =? 40) then (SDone, error EMissingArrow l2)
    else (SUnexpected, l2).

Definition lexOutputOperator (l0 : lx) : st * lx :=
  let l := skipWhitespace (emit OUTPUT (absorb 2 l0)) in
  let '(r, l1) := next l in
  if r =? 34 then (SString, l1)
  else if r =? 40 then (SLeftParen, backup l1)
  else if is_ident r then (SIdent, l1)
  else if r =? 123 then (SDone, error ENoOutput (backup l1))
  else if is_punct r then (SDone, error EPunctIdent l1)
  else (SUnexpected, backup l1).

Definition lexLeftBrace (l : lx) : st * lx := (STaskBody, skipWhitespace (emit LBRACE (absorb 1 l))).
Definition lexRightBrace (l : lx) : st * lx := (SStart, emit RBRACE (absorb 1 l)).

Definition lexTaskBody (l0 : lx) : st * lx :=
  if atEOF l0 then (SDone, error EUnterminated l0)
  else let l := skipWhitespace l0 in
    let '(r, l1) := next l in
    if r =? 125 then (SRightBrace, backup l1)
    else if is_letter r then (STaskCommands, l1)
    else (SUnexpected, l1).

Definition pos_dec (l : lx) : lx :=   (* l.pos-- *)
  match pre l with
  | [] => set_fl l FPanic
  | b :: p => {| inp := inp l; pre := p; suf := b :: suf l; start := start l; line := line l; sline := sline l;
                 width := width l; fl := fl l; out := out l |}
  end.

(* for strings.HasSuffix(l.all(), "\r") { l.pos-- } *)
Fixpoint strip_cr (p s : bytes) : bytes * bytes :=
  match p with
  | 13 :: p' => strip_cr p' (13 :: s)
  | _ => (p, s)
  end.
Definition drop_cr (l : lx) : lx :=
  let '(p, s) := strip_cr (pre l) (suf l) in
  {| inp := inp l; pre := p; suf := s; start := start l; line := line l; sline := sline l;
     width := width l; fl := fl l; out := out l |}.

Fixpoint lexTaskCommandsLoop (fuel : nat) (l : lx) : st * lx :=
  match fuel with
  | O => (SDone, set_fl l FFuel)
  | S f =>
    let '(r, l1) := next l in
    if r =? 10 then
      let l2 := backup l1 in
      lexTaskCommandsLoop f (skipWhitespace (emit COMMAND (drop_cr l2)))   (* CRLF: a command never ends in CR *)
    else if has_prefix k_linterp (suf l1) then lexTaskCommandsLoop f (absorb 2 l1)
    else if has_prefix k_rinterp (suf l1) then lexTaskCommandsLoop f (absorb 2 l1)
    else if r =? 125 then
      let l2 := backup l1 in
      let l3 := drop_cr (match pre l2 with 32 :: _ => pos_dec l2 | _ => l2 end) in
      let l4 := match pre l3 with [] => l3 | _ => emit COMMAND l3 end in
      (SRightBrace, skipWhitespace l4)
    else if atEOF l1 || (r =? 35) then (SDone, error EUnterminated l1)
    else if r <=? 127 then lexTaskCommandsLoop f l1
    else (SUnexpected, backup l1)
  end.
Definition lexTaskCommands (l : lx) := lexTaskCommandsLoop (S (S (length (suf l)))) l.

Fixpoint identLoop (fuel : nat) (l : lx) : lx :=
  match fuel with
  | O => set_fl l FFuel
  | S f => let '(r, l1) := next l in if is_ident r then identLoop f l1 else backup l1
  end.

Definition lexTaskName (l0 : lx) : st * lx :=
  let l := skipWhitespace (emit IDENT (identLoop (S (length (suf l0))) l0)) in
  let '(r, l1) := peek l in
  if r =? 40 then (SLeftParen, l1) else (SDone, error ETaskParen l1).

Definition lexIdent (l0 : lx) : st * lx :=
  let li := identLoop (S (length (suf l0))) l0 in
  let name := rev (pre li) in
  let l := skipWhitespace (emit IDENT li) in
  let '(r, l1) := peek l in
  if r =? 40 then (SLeftParen, l1)
  else if has_prefix k_declare (suf l1) then
    (if bytes_eqb name k_task then (SDone, error ETaskKeyword l1) else (SDeclare, l1))
  else let '(eol, l2) := atEOL l1 in
    if eol || atEOF l2 then (SStart, l2)
    else let '(r2, l3) := peek l2 in
      if r2 =? 41 then (SRightParen, l3)
      else if r2 =? 44 then (SComma, l3)
      else if r2 =? 123 then (SLeftBrace, l3)
      else if is_punct r2 then (SDone, error EIdentPunct l3)
      else if is_ident r2 then (SDone, error EIdentIdent l3)
      else (SUnexpected, l3).

Definition lexArgs (l0 : lx) : st * lx :=
  let l := skipWhitespace l0 in
  let '(r, l1) := next l in
  if r =? 41 then (SRightParen, backup l1)
  else if r =? 34 then (SString, l1)
  else if is_ident r then (SIdent, l1)
  else if r =? 44 then (SComma, backup l1)
  else if r =? 123 then (SLeftBrace, backup l1)
  else (SDone, error EInvalidChar l1).

Definition lexComma (l0 : lx) : st * lx :=
  let l := skipWhitespace (emit COMMA (absorb 1 l0)) in
  let '(r, l1) := next l in
  if r =? 34 then (SString, l1)
  else if is_ident r then (SIdent, l1)
  else if r =? 41 then (SRightParen, backup l1)
  else (SUnexpected, backup l1).

Definition lexDeclare (l0 : lx) : st * lx :=
  let l := skipWhitespace (emit DECLARE (absorb 2 (skipWhitespace l0))) in
  let '(r, l1) := next l in
  if r =? 34 then (SString, l1)
  else if is_ident r then (SIdent, l1)
  else (SUnexpected, backup l1).

Fixpoint lexStringLoop (fuel : nat) (l : lx) : st * lx :=
  match fuel with
  | O => (SDone, set_fl l FFuel)
  | S f =>
    let '(r, l1) := next l in
    if r =? 34 then
      let l2 := emit STRING l1 in
      if atEOF l2 then (SStart, l2)
      else let '(eol, l3) := atEOL l2 in if eol then (SStart, l3) else (SArgs, l3)
    else if atEOF l1 then (SDone, error EStringQuote (backup l1))
    else let '(eol, l2) := atEOL l1 in
      if eol then (SDone, error EStringQuote (backup l2)) else lexStringLoop f l2
  end.
Definition lexString (l : lx) := lexStringLoop (S (S (length (suf l)))) l.

Definition unexpectedToken (l : lx) : st * lx := (SDone, error EUnexpected l).

Definition step (s : st) (l : lx) : st * lx :=
  match s with
  | SStart => lexStart l | SHash => lexHash l | SComment => lexComment l | STaskKeyword => lexTaskKeyword l
  | SLeftParen => lexLeftParen l | SRightParen => lexRightParen l | SOutputOp => lexOutputOperator l
  | SLeftBrace => lexLeftBrace l | SRightBrace => lexRightBrace l | STaskBody => lexTaskBody l
  | STaskCommands => lexTaskCommands l | STaskName => lexTaskName l | SIdent => lexIdent l
  | SArgs => lexArgs l | SComma => lexComma l | SDeclare => lexDeclare l | SString => lexString l
  | SUnexpected => unexpectedToken l | SDone => (SDone, l)
  end.

Definition is_done (s : st) : bool := match s with SDone => true | _ => false end.
Definition is_ok (f : flag) : bool := match f with FOk => true | _ => false end.

Fixpoint run (fuel : nat) (s : st) (l : lx) : lx :=
  if is_done s then l else
  match fuel with
  | O => set_fl l FFuel
  | S f => let '(s', l') := step s l in
           if is_ok (fl l') then run f s' l' else l'
  end.

Definition init (s : bytes) : lx :=
  {| inp := s; pre := []; suf := s; start := 0; line := 1; sline := 1; width := 0; fl := FOk; out := [] |}.

Definition lex (s : bytes) : flag * list token :=
  let l := run (6 * length s + 8) SStart (init s) in (fl l, rev (out l)).
