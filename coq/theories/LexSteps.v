(* Every state function of the lexer preserves the tiling invariant, establishes the precondition of the
   state it hands over to, never faults, and makes progress (C16, and the lexing half of C08). *)
From Spok Require Import Base Lexer DecodeSpec LexInv.
From Coq Require Import ZArith ZifyN ZifyNat ZifyBool.
Ltac Zify.zify_post_hook ::= Z.div_mod_to_equations.
Open Scope nat_scope.

Arguments N.eqb : simpl never.
Arguments N.ltb : simpl never.
Arguments N.leb : simpl never.

(* ---------- small facts ---------- *)
Lemma has_prefix_split lit : forall s, has_prefix lit s = true -> s = lit ++ skipn (length lit) s.
Proof.
  induction lit as [|a lit IH]; intros s H; [reflexivity|].
  destruct s as [|b s]; [discriminate|]. cbn in H. apply andb_true_iff in H. destruct H as [H1 H2].
  apply N.eqb_eq in H1. subst b. cbn. f_equal. apply IH. exact H2.
Qed.
Lemma has_prefix_cons c t : has_prefix [c] (c :: t) = true.
Proof. cbn. rewrite N.eqb_refl. reflexivity. Qed.

(* an ASCII rune is one identical byte *)
Lemma decode_ascii s r : fst (decode s) = r -> (r < 128)%N -> exists t, s = r :: t /\ snd (decode s) = 1.
Proof.
  intros E Hr. pose proof (decode_spec s) as D. destruct (decode s) as [r' w]. cbn in E. subst r'.
  destruct D as (_ & _ & _ & _ & Dlt & _). destruct (Dlt Hr) as (-> & t & ->). eauto.
Qed.
Lemma decode_width_pos s : s <> [] -> snd (decode s) > 0.
Proof.
  intros H. pose proof (decode_spec s) as D. destruct (decode s) as [r w]. cbn.
  destruct D as (_ & _ & D0 & _). destruct w; [|lia]. exfalso. apply H. apply D0. reflexivity.
Qed.
Lemma decode_nil_rune s : snd (decode s) = 0 -> fst (decode s) = RuneError.
Proof.
  intros H. pose proof (decode_spec s) as D. destruct (decode s) as [r w] eqn:E. cbn in *. subst w.
  destruct D as (_ & _ & D0 & _). rewrite (proj1 D0 eq_refl) in E. cbn in E. inversion E. reflexivity.
Qed.
Lemma ident_width s : is_ident (fst (decode s)) = true -> snd (decode s) > 0.
Proof.
  intros H. destruct (snd (decode s)) eqn:W; [|lia]. rewrite (decode_nil_rune s W) in H. vm_compute in H. discriminate.
Qed.

(* ---------- frame: what never goes backwards ---------- *)
Definition frame (l l' : lx) : Prop := inp l' = inp l /\ start l <= start l'.
Lemma frame_refl l : frame l l. Proof. split; [reflexivity|lia]. Qed.
Lemma frame_trans a b c : frame a b -> frame b c -> frame a c.
Proof. intros [A1 A2] [B1 B2]. split; [congruence|lia]. Qed.

Lemma next_frame l : frame l (snd (next l)) /\ start (snd (next l)) = start l.
Proof. unfold frame, next. destruct (decode (suf l)) as [r w]. destruct (fwd w (pre l) (suf l)). cbn. repeat split; try reflexivity; lia. Qed.
Lemma backup_frame l : frame l (backup l) /\ start (backup l) = start l.
Proof. unfold frame, backup. destruct (bwd (width l) (pre l) (suf l)) as [[p s]|]; cbn; repeat split; try reflexivity; lia. Qed.
Lemma discard_frame l : frame l (discard l).
Proof. unfold frame, discard, pos. cbn. split; [reflexivity|lia]. Qed.
Lemma emit_frame t l : frame l (emit t l) /\ start (emit t l) = start l + length (pre l).
Proof. unfold frame, emit, pos. cbn. repeat split; try reflexivity; lia. Qed.
Lemma absorb_frame n l : frame l (absorb n l) /\ start (absorb n l) = start l.
Proof. unfold frame, absorb. destruct (Nat.leb n (length (suf l))); [destruct (fwd n (pre l) (suf l))|]; cbn; repeat split; try reflexivity; lia. Qed.
Lemma error_frame k l : frame l (error k l) /\ start (error k l) = start l.
Proof. unfold frame, error. cbn. repeat split; try reflexivity; lia. Qed.
Lemma with_width_frame l w : frame l (with_width l w). Proof. split; [reflexivity|cbn; lia]. Qed.

Lemma skipWS_frame fuel : forall l, frame l (skipWS fuel l).
Proof.
  induction fuel as [|fuel IH]; intros l; cbn [skipWS]; [split; [reflexivity|cbn; lia]|].
  pose proof (next_frame l) as [F _]. destruct (next l) as [r l1]. cbn [snd] in F.
  destruct (is_space r).
  - eapply frame_trans; [exact F|apply IH].
  - eapply frame_trans; [exact F|]. eapply frame_trans; [apply (proj1 (backup_frame l1))|apply discard_frame].
Qed.
Lemma skipWhitespace_frame l : frame l (skipWhitespace l).
Proof. apply skipWS_frame. Qed.

(* ---------- what a finished scan looks like ---------- *)
(* an ERROR token cites a line of the input and quotes it (trimmed) *)
Definition err_located (s : bytes) (t : token) : Prop :=
  1 <= eline t <= S (nl s) /\ ectx t = nth_error (map trim (split_nl [] s)) (Nat.pred (eline t)).

Definition Final (l : lx) : Prop :=
  fl l = FOk /\ exists t o, out l = t :: o /\
   ((ty t = ERROR /\ (exists e, Tiled (inp l) e (rev o)) /\ err_located (inp l) t) \/
    (ty t = EOF /\ exists e, Tiled (inp l) e (rev (out l)))).

Lemma err_final k l d e g : Inv l d e g -> Final (error k l) /\ frame l (error k l).
Proof.
  intros HI. destruct (error_ok k l _ _ _ HI) as (F & (t & o & Ho & Ht) & (t' & Ho')).
  split; [|apply error_frame]. split; [exact F|]. exists t, o. split; [exact Ho|]. left. split; [exact Ht|].
  rewrite Ho in Ho'. inversion Ho'; subst. split.
  - destruct HI. exists e. unfold error. cbn [inp]. assumption.
  - unfold error in Ho. cbn [out] in Ho. inversion Ho; subst t'. unfold err_located. cbn [eline ectx error inp]. unfold getLine.
    destruct HI as [Hi Hs Hsl Hl _ _ _ _]. split; [|reflexivity]. rewrite Hl, Hi, !nl_app, nl_rev. lia.
Qed.

(* ---------- per-state preconditions ---------- *)
Definition Pre (s : st) (l : lx) : Prop :=
  match s with
  | SStart | SComment | STaskBody | STaskName | SArgs => pre l = []
  | SHash => has_prefix k_hash (suf l) = true
  | STaskKeyword => has_prefix k_task (suf l) = true
  | SLeftParen => has_prefix [40%N] (suf l) = true
  | SRightParen => has_prefix [41%N] (suf l) = true
  | SOutputOp => has_prefix k_output (suf l) = true
  | SLeftBrace => has_prefix [123%N] (suf l) = true
  | SRightBrace => has_prefix [125%N] (suf l) = true
  | SComma => has_prefix [44%N] (suf l) = true
  | SDeclare => pre l = [] /\ has_prefix k_declare (suf l) = true
  | SIdent => pre l <> [] \/ is_ident (fst (decode (suf l))) = true
  | SString => pre l <> []
  | STaskCommands | SUnexpected | SDone => True
  end.

(* states that always move the start of the next token forward when they hand over normally *)
Definition consuming (s : st) : bool :=
  match s with
  | SHash | STaskKeyword | SLeftParen | SRightParen | SOutputOp | SLeftBrace | SRightBrace | SComma | SDeclare | SString | SIdent => true
  | _ => false
  end.

Definition Good (s' : st) (l l' : lx) : Prop :=
  frame l l' /\
  match s' with
  | SDone => Final l'
  | _ => exists d e g, Inv l' d e g /\ Pre s' l'
  end.

Definition StepOK (s : st) (l : lx) (r : st * lx) : Prop :=
  Good (fst r) l (snd r) /\
  (consuming s = true -> fst r <> SDone -> fst r <> SUnexpected -> start l < start (snd r)).

Lemma Inv_start l d e g : Inv l d e g -> start l + length (pre l) + length (suf l) = length (inp l).
Proof. intros [Hi Hs _ _ _ _ _ _]. rewrite Hi, !app_length, rev_length. lia. Qed.

(* absorb a literal that is there, then emit it *)
Lemma absorb_emit t lit l d e g :
  Inv l d e g -> has_prefix lit (suf l) = true -> nl lit = 0 -> t <> ERROR -> t <> EOF ->
  let l' := emit t (absorb (length lit) l) in
  (exists d', Inv l' d' (start l + length (pre l) + length lit) 0) /\ pre l' = [] /\ suf l' = skipn (length lit) (suf l) /\
  start l' = start l + length (pre l) + length lit /\ inp l' = inp l.
Proof.
  intros HI HP Hnl Ht1 Ht2 l'.
  destruct (absorb_inv (length lit) l d e g lit HI HP eq_refl Hnl) as (I1 & P1 & S1 & O1).
  pose proof (emit_inv t _ _ _ _ I1 Ht1 (fun E => match Ht2 E with end)) as I2.
  pose proof (absorb_frame (length lit) l) as [[Fi _] Fs]. pose proof (emit_frame t (absorb (length lit) l)) as [[Ei _] Es].
  assert (Ps : pos (absorb (length lit) l) = start l + length (pre l) + length lit).
  { unfold pos. rewrite Fs, P1, app_length, rev_length. lia. }
  rewrite Ps in I2. subst l'. split; [eexists; exact I2|]. split; [reflexivity|]. split; [exact S1|]. split; [|congruence].
  rewrite Es, Fs, P1, app_length, rev_length. lia.
Qed.

(* skipWhitespace after something that left pre empty *)
Lemma skipWhitespace_ok l d e g : Inv l d e g -> pre l = [] ->
  (exists d' g', Inv (skipWhitespace l) d' e g') /\ pre (skipWhitespace l) = [] /\ out (skipWhitespace l) = out l /\
  frame l (skipWhitespace l) /\ is_space (fst (decode (suf (skipWhitespace l)))) = false.
Proof.
  intros HI HP. destruct (skipWhitespace_spec l d e g HI HP) as (d' & g' & A & B & C & _ & E).
  split; [eauto|]. split; [exact B|]. split; [exact C|]. split; [apply skipWhitespace_frame|exact E].
Qed.

(* peek under the invariant *)
Lemma peek_ok l d e g : Inv l d e g ->
  peek l = (fst (decode (suf l)), with_width l (snd (decode (suf l)))).
Proof. intros HI. apply peek_spec. eapply Inv_line; eauto. Qed.
Lemma atEOL_ok l d e g : Inv l d e g ->
  atEOL l = ((fst (decode (suf l)) =? 10)%N || has_prefix crlf (suf l), with_width l (snd (decode (suf l)))).
Proof. intros HI. apply atEOL_spec. eapply Inv_line; eauto. Qed.

(* next followed by backup restores the text position *)
Lemma next_backup l d e g : Inv l d e g ->
  let l1 := snd (next l) in
  Inv l1 d e g /\ Inv (backup l1) d e g /\ pre (backup l1) = pre l /\ suf (backup l1) = suf l /\ out (backup l1) = out l /\
  frame l (backup l1) /\ start (backup l1) = start l /\ out l1 = out l /\ start l1 = start l /\ inp l1 = inp l /\
  (exists bs, suf l = bs ++ suf l1 /\ pre l1 = rev bs ++ pre l /\ length bs = snd (decode (suf l))).
Proof.
  intros HI l1. destruct (next_spec l) as (bs & N). pose proof (next_inv l d e g HI) as HI1. fold l1 in N, HI1.
  destruct N as [Ndec Nsuf Npre Nlen Nnl Nhi Nline Ninp Nstart Nsline Nfl Nout].
  destruct (backup_inv l1 d e g bs (pre l) HI1 Npre Nlen Nhi) as (HI2 & P2 & S2 & W2 & O2).
  pose proof (backup_frame l1) as [[Bi _] Bs].
  split; [exact HI1|]. split; [exact HI2|]. split; [exact P2|]. split; [rewrite S2, <- Nsuf; reflexivity|].
  split; [congruence|]. split; [split; [congruence|lia]|]. split; [lia|]. split; [exact Nout|]. split; [exact Nstart|]. split; [exact Ninp|].
  exists bs. rewrite Ndec. cbn. auto.
Qed.

Lemma next_fst l : fst (next l) = fst (decode (suf l)).
Proof. unfold next. destruct (decode (suf l)) as [r w]. destruct (fwd w (pre l) (suf l)). reflexivity. Qed.

(* ---------- the state functions ---------- *)
Lemma mk_step s l s' l' : frame l l' ->
  (consuming s = true -> s' <> SDone -> s' <> SUnexpected -> start l < start l') ->
  match s' with SDone => Final l' | _ => exists d e g, Inv l' d e g /\ Pre s' l' end ->
  StepOK s l (s', l').
Proof. intros F S G. split; [split; assumption|exact S]. Qed.

Lemma absorb_emit_skip t lit l d e g :
  Inv l d e g -> has_prefix lit (suf l) = true -> nl lit = 0 -> lit <> [] -> t <> ERROR -> t <> EOF ->
  let l' := skipWhitespace (emit t (absorb (length lit) l)) in
  exists d' e' g', Inv l' d' e' g' /\ pre l' = [] /\ frame l l' /\ start l < start l' /\
                   is_space (fst (decode (suf l'))) = false.
Proof.
  intros HI HP Hnl Hne Ht1 Ht2 l'.
  destruct (absorb_emit t lit l d e g HI HP Hnl Ht1 Ht2) as ((d1 & I1) & P1 & S1 & St1 & In1).
  destruct (skipWhitespace_ok _ _ _ _ I1 P1) as ((d2 & g2 & I2) & P2 & O2 & [Fi Fs] & Sp).
  exists d2, (start l + length (pre l) + length lit), g2. split; [exact I2|]. split; [exact P2|]. subst l'.
  assert (length lit > 0) by (destruct lit; [congruence|cbn; lia]).
  split; [split; [congruence|lia]|]. split; [lia|exact Sp].
Qed.

Lemma ww_pre l w : pre (with_width l w) = pre l. Proof. reflexivity. Qed.
Lemma ww_suf l w : suf (with_width l w) = suf l. Proof. reflexivity. Qed.
Lemma ww_start l w : start (with_width l w) = start l. Proof. reflexivity. Qed.
Lemma ww_inp l w : inp (with_width l w) = inp l. Proof. reflexivity. Qed.

Lemma prefix_of_rune l c : fst (decode (suf l)) = c -> (c < 128)%N -> has_prefix [c] (suf l) = true.
Proof. intros E H. destruct (decode_ascii _ _ E H) as (t & -> & _). apply has_prefix_cons. Qed.

Lemma lexHash_ok l d e g : Inv l d e g -> Pre SHash l -> StepOK SHash l (lexHash l).
Proof.
  intros HI HP. cbn [Pre] in HP. unfold lexHash.
  destruct (absorb_emit HASH k_hash l d e g HI HP eq_refl ltac:(discriminate) ltac:(discriminate)) as ((d1 & I1) & P1 & S1 & St1 & In1).
  apply mk_step; [split; [exact In1|cbn [length k_hash] in St1; lia]|intros; cbn [length k_hash] in St1; lia|].
  eexists _, _, _. split; [exact I1|exact P1].
Qed.

Lemma lexRightBrace_ok l d e g : Inv l d e g -> Pre SRightBrace l -> StepOK SRightBrace l (lexRightBrace l).
Proof.
  intros HI HP. cbn [Pre] in HP. unfold lexRightBrace.
  destruct (absorb_emit RBRACE [125%N] l d e g HI HP eq_refl ltac:(discriminate) ltac:(discriminate)) as ((d1 & I1) & P1 & S1 & St1 & In1).
  cbn [length] in *. apply mk_step; [split; [exact In1|lia]|intros; lia|].
  eexists _, _, _. split; [exact I1|exact P1].
Qed.

Lemma lexTaskKeyword_ok l d e g : Inv l d e g -> Pre STaskKeyword l -> StepOK STaskKeyword l (lexTaskKeyword l).
Proof.
  intros HI HP. cbn [Pre] in HP. unfold lexTaskKeyword.
  destruct (absorb_emit_skip TASK k_task l d e g HI HP eq_refl ltac:(discriminate) ltac:(discriminate) ltac:(discriminate))
    as (d1 & e1 & g1 & I1 & P1 & F1 & S1 & _).
  apply mk_step; [exact F1|intros; exact S1|]. eexists _, _, _. split; [exact I1|exact P1].
Qed.

Lemma lexLeftParen_ok l d e g : Inv l d e g -> Pre SLeftParen l -> StepOK SLeftParen l (lexLeftParen l).
Proof.
  intros HI HP. cbn [Pre] in HP. unfold lexLeftParen.
  destruct (absorb_emit_skip LPAREN [40%N] l d e g HI HP eq_refl ltac:(discriminate) ltac:(discriminate) ltac:(discriminate))
    as (d1 & e1 & g1 & I1 & P1 & F1 & S1 & _).
  apply mk_step; [exact F1|intros; exact S1|]. eexists _, _, _. split; [exact I1|exact P1].
Qed.

Lemma lexLeftBrace_ok l d e g : Inv l d e g -> Pre SLeftBrace l -> StepOK SLeftBrace l (lexLeftBrace l).
Proof.
  intros HI HP. cbn [Pre] in HP. unfold lexLeftBrace.
  destruct (absorb_emit_skip LBRACE [123%N] l d e g HI HP eq_refl ltac:(discriminate) ltac:(discriminate) ltac:(discriminate))
    as (d1 & e1 & g1 & I1 & P1 & F1 & S1 & _).
  apply mk_step; [exact F1|intros; exact S1|]. eexists _, _, _. split; [exact I1|exact P1].
Qed.

Lemma unexpected_ok s l d e g : Inv l d e g -> StepOK s l (unexpectedToken l).
Proof.
  intros HI. unfold unexpectedToken. destruct (err_final EUnexpected l d e g HI) as [F Fr].
  apply mk_step; [exact Fr|intros _ H; congruence|exact F].
Qed.

Lemma lexStart_ok l d e g : Inv l d e g -> Pre SStart l -> StepOK SStart l (lexStart l).
Proof.
  intros HI HP. cbn [Pre] in HP. unfold lexStart.
  destruct (skipWhitespace_ok l d e g HI HP) as ((d1 & g1 & I1) & P1 & O1 & F1 & _).
  set (l1 := skipWhitespace l) in *.
  destruct (has_prefix k_hash (suf l1)) eqn:H1.
  { apply mk_step; [exact F1|discriminate|]. eexists _, _, _. split; [exact I1|exact H1]. }
  destruct (atTaskKeyword l1) eqn:H2.
  { apply mk_step; [exact F1|discriminate|]. eexists _, _, _. split; [exact I1|].
    unfold atTaskKeyword in H2. apply andb_true_iff in H2. exact (proj1 H2). }
  rewrite (peek_ok l1 _ _ _ I1). set (w := snd (decode (suf l1))). set (r := fst (decode (suf l1))).
  pose proof (with_width_inv l1 w _ _ _ I1) as I2.
  assert (F2 : frame l (with_width l1 w)) by (eapply frame_trans; [exact F1|apply with_width_frame]).
  destruct (is_ident r) eqn:RI.
  { apply mk_step; [exact F2|discriminate|]. eexists _, _, _. split; [exact I2|]. right. exact RI. }
  destruct (atEOF (with_width l1 w)) eqn:EOFc.
  - unfold atEOF in EOFc. rewrite ww_suf in EOFc. destruct (suf l1) eqn:S1; [|discriminate].
    assert (Pw : pre (with_width l1 w) = [] /\ suf (with_width l1 w) = []) by (rewrite ww_pre, ww_suf; auto).
    pose proof (emit_inv EOF _ _ _ _ I2 ltac:(discriminate) (fun _ => Pw)) as I3.
    apply mk_step; [eapply frame_trans; [exact F2|apply emit_frame]|discriminate|].
    split; [destruct I3; assumption|]. eexists _, _. split; [reflexivity|]. right. split; [reflexivity|].
    destruct I3 as [_ _ _ _ T _ _ _]. eexists. exact T.
  - apply mk_step; [exact F2|discriminate|]. eexists _, _, _. split; [exact I2|exact I].
Qed.

Lemma lexCommentLoop_ok fuel : forall l d e g, Inv l d e g -> length (suf l) < fuel ->
  StepOK SComment l (lexCommentLoop fuel l).
Proof.
  induction fuel as [|fuel IH]; intros l d e g HI Hf; [lia|].
  cbn [lexCommentLoop]. rewrite (atEOL_ok l _ _ _ HI).
  set (w := snd (decode (suf l))). pose proof (with_width_inv l w _ _ _ HI) as I1.
  destruct (((fst (decode (suf l)) =? 10)%N || has_prefix crlf (suf l)) || atEOF (with_width l w)) eqn:C.
  - pose proof (emit_inv COMMENT _ _ _ _ I1 ltac:(discriminate) ltac:(discriminate)) as I2.
    apply mk_step; [eapply frame_trans; [apply with_width_frame|apply emit_frame]|discriminate|].
    eexists _, _, _. split; [exact I2|reflexivity].
  - apply orb_false_iff in C. destruct C as [_ C]. unfold atEOF in C. rewrite ww_suf in C.
    destruct (next_backup (with_width l w) _ _ _ I1) as (I2 & _ & _ & _ & _ & _ & _ & _ & St2 & In2 & (bs & Hs & _ & Hl)).
    rewrite ww_suf in Hs, Hl.
    destruct (next (with_width l w)) as [r l2] eqn:En. cbn [snd] in *.
    assert (W : snd (decode (suf l)) > 0) by (apply decode_width_pos; intros E0; rewrite E0 in C; discriminate).
    assert (Hlen : length (suf l2) < fuel).
    { assert (length (suf l) = length bs + length (suf l2)) by (rewrite Hs, app_length; reflexivity). lia. }
    pose proof (IH l2 d e g I2 Hlen) as R. destruct (lexCommentLoop fuel l2) as [s' l']. destruct R as [[[Fi Fs] G] _]. cbn [fst snd] in *.
    apply mk_step; [split; [rewrite Fi, In2; reflexivity|rewrite ww_start in St2; lia]|discriminate|exact G].
Qed.

Lemma lexComment_ok l d e g : Inv l d e g -> Pre SComment l -> StepOK SComment l (lexComment l).
Proof. intros HI _. unfold lexComment. eapply lexCommentLoop_ok; eauto. Qed.

(* ---------- more helpers ---------- *)
Lemma emit_skip t l d e g : Inv l d e g -> t <> ERROR -> t <> EOF ->
  let l' := skipWhitespace (emit t l) in
  exists d' e' g', Inv l' d' e' g' /\ pre l' = [] /\ frame l l' /\ start l + length (pre l) <= start l' /\
                   is_space (fst (decode (suf l'))) = false.
Proof.
  intros HI Ht1 Ht2 l'. pose proof (emit_inv t l d e g HI Ht1 (fun E => match Ht2 E with end)) as I1.
  pose proof (emit_frame t l) as [Fe Es].
  destruct (skipWhitespace_ok _ _ _ _ I1 eq_refl) as ((d2 & g2 & I2) & P2 & O2 & Fs & Sp).
  exists d2, (pos l), g2. subst l'. split; [exact I2|]. split; [exact P2|].
  split; [eapply frame_trans; eauto|]. split; [destruct Fs as [_ Fs]; lia|exact Sp].
Qed.

Lemma identLoop_ok fuel : forall l d e g, Inv l d e g -> length (suf l) < fuel ->
  let l' := identLoop fuel l in
  Inv l' d e g /\ out l' = out l /\ start l' = start l /\ inp l' = inp l /\ length (pre l) <= length (pre l') /\
  (is_ident (fst (decode (suf l))) = true -> length (pre l) < length (pre l')).
Proof.
  induction fuel as [|fuel IH]; intros l d e g HI Hf; [lia|]. cbn [identLoop].
  destruct (next_backup l d e g HI) as (I1 & IB & PB & SB & OB & FB & StB & O1 & St1 & In1 & (bs & Hs & Hp & Hl)).
  pose proof (next_fst l) as Er. destruct (next l) as [r l1] eqn:En. cbn [fst snd] in *.
  destruct (is_ident r) eqn:RI.
  - assert (W : snd (decode (suf l)) > 0) by (apply ident_width; rewrite <- Er; exact RI).
    assert (Hlen : length (suf l1) < fuel).
    { assert (length (suf l) = length bs + length (suf l1)) by (rewrite Hs, app_length; reflexivity). lia. }
    destruct (IH l1 d e g I1 Hlen) as (A & B & C & Dd & E1 & _).
    assert (length (pre l1) = length bs + length (pre l)) by (rewrite Hp, app_length, rev_length; reflexivity).
    split; [exact A|]. split; [congruence|]. split; [congruence|]. split; [congruence|]. split; [lia|]. intros _. lia.
  - rewrite <- Er. rewrite RI. destruct FB as [Fi _].
    split; [exact IB|]. split; [exact OB|]. split; [exact StB|]. split; [exact Fi|]. split; [rewrite PB; lia|]. discriminate.
Qed.

(* ascii whitespace bytes *)
Definition asp (b : N) : Prop := (b < 128)%N /\ is_space b = true.

Lemma next_ascii l b s : suf l = b :: s -> (b < 128)%N ->
  next l = (b, {| inp := inp l; pre := b :: pre l; suf := s; start := start l;
                  line := if (b =? 10)%N then S (line l) else line l; sline := sline l; width := 1; fl := fl l; out := out l |}).
Proof.
  intros Hs Hb. unfold next. rewrite Hs. unfold decode. assert ((b <? 128)%N = true) as -> by lia. cbn [fwd]. reflexivity.
Qed.

Lemma skipWS_len_le fuel : forall l, length (suf (skipWS fuel l)) <= length (suf l).
Proof.
  induction fuel as [|fuel IH]; intros l; cbn [skipWS]; [cbn; lia|].
  destruct (next_spec l) as (bs & N). destruct N as [Ndec Nsuf Npre Nlen Nnl Nhi Nline Ninp Nstart Nsline Nfl Nout].
  destruct (next l) as [r l1]. cbn [fst snd] in *.
  assert (L : length (suf l) = length bs + length (suf l1)) by (rewrite Nsuf, app_length; reflexivity).
  destruct (is_space r).
  - specialize (IH l1). lia.
  - cbn [discard suf]. rewrite (backup_spec l1 bs (pre l) Npre Nlen Nhi). cbn [suf]. rewrite app_length. lia.
Qed.

(* leading ascii whitespace is consumed entirely *)
Lemma skipWS_len_sp sp : Forall asp sp -> forall fuel l rest, suf l = sp ++ rest -> length (suf l) < fuel ->
  length (suf (skipWS fuel l)) <= length rest.
Proof.
  induction 1 as [|b sp [Hb Hs] _ IH]; intros fuel l rest Hsuf Hf.
  - cbn [app] in Hsuf. rewrite <- Hsuf. apply skipWS_len_le.
  - destruct fuel as [|fuel]; [lia|]. cbn [skipWS]. cbn [app] in Hsuf. rewrite (next_ascii l b _ Hsuf Hb). rewrite Hs.
    apply IH; [reflexivity|]. cbn [suf]. rewrite Hsuf in Hf. cbn [length] in Hf. lia.
Qed.

(* ... and nothing after it *)
Lemma skipWS_exact sp : Forall asp sp -> forall fuel l rest, suf l = sp ++ rest -> length (suf l) < fuel ->
  is_space (fst (decode rest)) = false -> suf (skipWS fuel l) = rest.
Proof.
  induction 1 as [|b sp [Hb Hs] _ IH]; intros fuel l rest Hsuf Hf Hr.
  - cbn [app] in Hsuf. destruct fuel as [|fuel]; [lia|]. cbn [skipWS].
    destruct (next_spec l) as (bs & N). destruct N as [Ndec Nsuf Npre Nlen Nnl Nhi Nline Ninp Nstart Nsline Nfl Nout].
    destruct (next l) as [r l1]. cbn [fst snd] in *.
    assert (r = fst (decode rest)) by (rewrite <- Hsuf, Ndec; reflexivity). subst r. rewrite Hr.
    cbn [discard suf]. rewrite (backup_spec l1 bs (pre l) Npre Nlen Nhi). cbn [suf]. rewrite <- Nsuf. exact Hsuf.
  - destruct fuel as [|fuel]; [lia|]. cbn [skipWS]. cbn [app] in Hsuf. rewrite (next_ascii l b _ Hsuf Hb). rewrite Hs.
    apply IH; [reflexivity| |exact Hr]. cbn [suf]. rewrite Hsuf in Hf. cbn [length] in Hf. lia.
Qed.

(* moving trailing spaces / carriage returns of the pending text back to the input *)
Lemma unconsume_inv l d e g b p : Inv l d e g -> pre l = b :: p -> b <> 10%N ->
  Inv {| inp := inp l; pre := p; suf := b :: suf l; start := start l; line := line l; sline := sline l;
         width := width l; fl := fl l; out := out l |} d e g.
Proof.
  intros [Hi Hs Hsl Hl Ht Hg Heg Hf] Hp Hb. constructor; cbn [inp pre suf start line sline width fl out]; auto.
  - rewrite Hi, Hp. cbn [rev]. rewrite <- !app_assoc. reflexivity.
  - rewrite Hl, Hp, nl_cons. assert ((10 =? b)%N = false) as -> by (apply N.eqb_neq; congruence). lia.
Qed.

Lemma strip_cr_spec p : forall s, exists k, strip_cr p s = (skipn k p, repeat 13%N k ++ s) /\ k <= length p /\
  firstn k p = repeat 13%N k.
Proof.
  induction p as [|b p IH]; intros s; [exists 0; cbn; auto|]. cbn [strip_cr].
  destruct (N.eq_dec b 13) as [->|Hb].
  - destruct (IH (13%N :: s)) as (k & E & Hk & Hf). exists (S k). cbn [skipn length firstn repeat]. rewrite E. split; [|split; [lia|f_equal; exact Hf]].
    f_equal. clear. induction k as [|k IHk]; cbn [repeat app]; [reflexivity|]. f_equal. exact IHk.
  - exists 0. cbn [skipn repeat app firstn]. split; [|split; [lia|reflexivity]].
    destruct b as [|pb]; [reflexivity|]. destruct pb as [pb|pb|]; try reflexivity; destruct pb as [pb|pb|]; try reflexivity;
    destruct pb as [pb|pb|]; try reflexivity; destruct pb as [pb|pb|]; try reflexivity. congruence.
Qed.

Lemma drop_cr_ok l d e g : Inv l d e g ->
  Inv (drop_cr l) d e g /\ out (drop_cr l) = out l /\ start (drop_cr l) = start l /\ inp (drop_cr l) = inp l /\
  exists k, suf (drop_cr l) = repeat 13%N k ++ suf l /\ length (pre (drop_cr l)) + k = length (pre l).
Proof.
  intros HI. unfold drop_cr.
  assert (G : forall p s (l0 : lx), pre l0 = p -> suf l0 = s -> Inv l0 d e g ->
     let '(p', s') := strip_cr p s in
     Inv {| inp := inp l0; pre := p'; suf := s'; start := start l0; line := line l0; sline := sline l0; width := width l0; fl := fl l0; out := out l0 |} d e g /\
     exists k, s' = repeat 13%N k ++ s /\ length p' + k = length p).
  { induction p as [|b p IH]; intros s l0 Hp Hs HI0; cbn [strip_cr].
    - split; [|exists 0; cbn; auto]. destruct l0; cbn in *; subst; exact HI0.
    - destruct (N.eq_dec b 13) as [->|Hb].
      + pose proof (unconsume_inv l0 d e g 13%N p HI0 Hp ltac:(discriminate)) as I1.
        specialize (IH (13%N :: s) {| inp := inp l0; pre := p; suf := 13%N :: suf l0; start := start l0; line := line l0; sline := sline l0;
                                     width := width l0; fl := fl l0; out := out l0 |} eq_refl ltac:(cbn; rewrite Hs; reflexivity) I1).
        cbn [inp start line sline width fl out] in IH.
        destruct (strip_cr p (13%N :: s)) as [p' s']. destruct IH as [A (k & B & C)]. split; [exact A|].
        exists (S k). split; [|cbn [length]; lia]. rewrite B. clear. induction k as [|k IHk]; cbn [repeat app]; [reflexivity|]. f_equal. exact IHk.
      + assert (E : strip_cr (b :: p) s = (b :: p, s)).
        { cbn [strip_cr]. destruct b as [|pb]; [reflexivity|]. destruct pb as [pb|pb|]; try reflexivity; destruct pb as [pb|pb|]; try reflexivity;
          destruct pb as [pb|pb|]; try reflexivity; destruct pb as [pb|pb|]; try reflexivity. congruence. }
        cbn [strip_cr] in E. rewrite E. split; [|exists 0; cbn; auto]. destruct l0; cbn in *; subst; exact HI0. }
  specialize (G (pre l) (suf l) l eq_refl eq_refl HI). destruct (strip_cr (pre l) (suf l)) as [p' s'].
  destruct G as [A (k & B & C)]. cbn [out start inp suf pre]. split; [exact A|]. repeat split; try reflexivity. exists k. auto.
Qed.

Lemma grew (bs p : bytes) : length bs > 0 -> rev bs ++ p <> [].
Proof. intros H E. apply (f_equal (@length N)) in E. rewrite app_length, rev_length in E. cbn in E. lia. Qed.

(* take the next rune of a state satisfying the invariant: everything the state functions need to know *)
Lemma take_next l d e g : Inv l d e g ->
  exists bs, let r := fst (next l) in let l2 := snd (next l) in
  r = fst (decode (suf l)) /\ Inv l2 d e g /\ Inv (backup l2) d e g /\
  pre (backup l2) = pre l /\ suf (backup l2) = suf l /\ start (backup l2) = start l /\ inp (backup l2) = inp l /\
  start l2 = start l /\ inp l2 = inp l /\ suf l = bs ++ suf l2 /\ pre l2 = rev bs ++ pre l /\ length bs = snd (decode (suf l)).
Proof.
  intros HI. destruct (next_backup l d e g HI) as (I1 & IB & PB & SB & OB & [Fi _] & StB & O1 & St1 & In1 & (bs & Hs & Hp & Hl)).
  exists bs. cbn zeta. rewrite next_fst.
  split; [reflexivity|]. split; [exact I1|]. split; [exact IB|]. split; [exact PB|]. split; [exact SB|]. split; [exact StB|].
  split; [exact Fi|]. split; [exact St1|]. split; [exact In1|]. split; [exact Hs|]. split; [exact Hp|exact Hl].
Qed.

Ltac take_next_tac I l r l2 :=
  let bs := fresh "bs" in let Er := fresh "Er" in let In2 := fresh "In2" in let IB := fresh "IB" in
  let PB := fresh "PB" in let SB := fresh "SB" in let StB := fresh "StB" in let InB := fresh "InB" in
  let St2 := fresh "St2" in let Ii2 := fresh "Ii2" in let Hs := fresh "Hs" in let Hp := fresh "Hp" in let Hl := fresh "Hl" in
  destruct (take_next l _ _ _ I) as (bs & Er & In2 & IB & PB & SB & StB & InB & St2 & Ii2 & Hs & Hp & Hl);
  destruct (next l) as [r l2]; cbn [fst snd] in *.

Lemma lexArgs_ok l d e g : Inv l d e g -> Pre SArgs l -> StepOK SArgs l (lexArgs l).
Proof.
  intros HI HP. cbn [Pre] in HP. unfold lexArgs.
  destruct (skipWhitespace_ok l d e g HI HP) as ((d1 & g1 & I1) & P1 & O1 & F1 & _).
  set (l1 := skipWhitespace l) in *.
  take_next_tac I1 l1 r l2.
  assert (FB : frame l (backup l2)) by (destruct F1 as [A B]; split; [congruence|lia]).
  assert (F2 : frame l l2) by (destruct F1 as [A B]; split; [congruence|lia]).
  destruct (r =? 41)%N eqn:E1.
  { apply N.eqb_eq in E1. apply mk_step; [exact FB|discriminate|]. eexists _, _, _. split; [exact IB|].
    cbn [Pre]. rewrite SB. apply prefix_of_rune; [congruence|lia]. }
  destruct (r =? 34)%N eqn:E2.
  { apply N.eqb_eq in E2. apply mk_step; [exact F2|discriminate|]. eexists _, _, _. split; [exact In2|].
    cbn [Pre]. rewrite Hp. apply grew. destruct (decode_ascii (suf l1) 34%N ltac:(congruence) ltac:(lia)) as (t & _ & W). lia. }
  destruct (is_ident r) eqn:E3.
  { apply mk_step; [exact F2|discriminate|]. eexists _, _, _. split; [exact In2|].
    cbn [Pre]. left. rewrite Hp. apply grew. rewrite Hl. apply ident_width. rewrite <- Er. exact E3. }
  destruct (r =? 44)%N eqn:E4.
  { apply N.eqb_eq in E4. apply mk_step; [exact FB|discriminate|]. eexists _, _, _. split; [exact IB|].
    cbn [Pre]. rewrite SB. apply prefix_of_rune; [congruence|lia]. }
  destruct (r =? 123)%N eqn:E5.
  { apply N.eqb_eq in E5. apply mk_step; [exact FB|discriminate|]. eexists _, _, _. split; [exact IB|].
    cbn [Pre]. rewrite SB. apply prefix_of_rune; [congruence|lia]. }
  destruct (err_final EInvalidChar l2 _ _ _ In2) as [Fe Fr].
  apply mk_step; [eapply frame_trans; [exact F2|exact Fr]|discriminate|exact Fe].
Qed.

(* the three-way dispatch shared by lexComma and lexDeclare: string, identifier, or something else *)
Lemma lexComma_ok l d e g : Inv l d e g -> Pre SComma l -> StepOK SComma l (lexComma l).
Proof.
  intros HI HP. cbn [Pre] in HP. unfold lexComma.
  destruct (absorb_emit_skip COMMA [44%N] l d e g HI HP eq_refl ltac:(discriminate) ltac:(discriminate) ltac:(discriminate))
    as (d1 & e1 & g1 & I1 & P1 & F1 & S1 & _).
  cbn [length] in *. set (l1 := skipWhitespace (emit COMMA (absorb 1 l))) in *.
  take_next_tac I1 l1 r l2.
  assert (FB : frame l (backup l2)) by (destruct F1 as [A B]; split; [congruence|lia]).
  assert (F2 : frame l l2) by (destruct F1 as [A B]; split; [congruence|lia]).
  destruct (r =? 34)%N eqn:E2.
  { apply N.eqb_eq in E2. apply mk_step; [exact F2|intros; lia|]. eexists _, _, _. split; [exact In2|].
    cbn [Pre]. rewrite Hp. apply grew. destruct (decode_ascii (suf l1) 34%N ltac:(congruence) ltac:(lia)) as (t & _ & W). lia. }
  destruct (is_ident r) eqn:E3.
  { apply mk_step; [exact F2|intros; lia|]. eexists _, _, _. split; [exact In2|].
    cbn [Pre]. left. rewrite Hp. apply grew. rewrite Hl. apply ident_width. rewrite <- Er. exact E3. }
  destruct (r =? 41)%N eqn:E1.
  { apply N.eqb_eq in E1. apply mk_step; [exact FB|intros; lia|]. eexists _, _, _. split; [exact IB|].
    cbn [Pre]. rewrite SB. apply prefix_of_rune; [congruence|lia]. }
  apply mk_step; [exact FB|intros; lia|]. eexists _, _, _. split; [exact IB|exact I].
Qed.

Lemma lexDeclare_ok l d e g : Inv l d e g -> Pre SDeclare l -> StepOK SDeclare l (lexDeclare l).
Proof.
  intros HI [HP0 HP]. unfold lexDeclare.
  (* the leading skipWhitespace finds ':' at once and leaves the text position alone *)
  destruct (skipWhitespace_ok l d e g HI HP0) as ((d0 & g0 & I0) & P0 & O0 & F0 & _).
  assert (S0 : suf (skipWhitespace l) = suf l).
  { unfold skipWhitespace. apply (skipWS_exact [] ltac:(constructor)); [reflexivity|lia|].
    destruct (suf l) as [|c t]; [discriminate|]. cbn in HP. apply andb_true_iff in HP. destruct HP as [HP _]. apply N.eqb_eq in HP. subst c. reflexivity. }
  set (l0 := skipWhitespace l) in *.
  assert (HP' : has_prefix k_declare (suf l0) = true) by (rewrite S0; exact HP).
  destruct (absorb_emit_skip DECLARE k_declare l0 _ _ _ I0 HP' eq_refl ltac:(discriminate) ltac:(discriminate) ltac:(discriminate))
    as (d1 & e1 & g1 & I1 & P1 & F1 & S1 & _).
  cbn [length k_declare] in *. set (l1 := skipWhitespace (emit DECLARE (absorb 2 l0))) in *.
  take_next_tac I1 l1 r l2.
  assert (F01 : frame l l1) by (eapply frame_trans; eauto).
  assert (Sl : start l < start l1) by (destruct F0; lia).
  assert (FB : frame l (backup l2)) by (destruct F01 as [A B]; split; [congruence|lia]).
  assert (F2 : frame l l2) by (destruct F01 as [A B]; split; [congruence|lia]).
  destruct (r =? 34)%N eqn:E2.
  { apply N.eqb_eq in E2. apply mk_step; [exact F2|intros; lia|]. eexists _, _, _. split; [exact In2|].
    cbn [Pre]. rewrite Hp. apply grew. destruct (decode_ascii (suf l1) 34%N ltac:(congruence) ltac:(lia)) as (t & _ & W). lia. }
  destruct (is_ident r) eqn:E3.
  { apply mk_step; [exact F2|intros; lia|]. eexists _, _, _. split; [exact In2|].
    cbn [Pre]. left. rewrite Hp. apply grew. rewrite Hl. apply ident_width. rewrite <- Er. exact E3. }
  apply mk_step; [exact FB|intros; lia|]. eexists _, _, _. split; [exact IB|exact I].
Qed.

Lemma lexOutputOperator_ok l d e g : Inv l d e g -> Pre SOutputOp l -> StepOK SOutputOp l (lexOutputOperator l).
Proof.
  intros HI HP. cbn [Pre] in HP. unfold lexOutputOperator.
  destruct (absorb_emit_skip OUTPUT k_output l d e g HI HP eq_refl ltac:(discriminate) ltac:(discriminate) ltac:(discriminate))
    as (d1 & e1 & g1 & I1 & P1 & F1 & S1 & _).
  cbn [length k_output] in *. set (l1 := skipWhitespace (emit OUTPUT (absorb 2 l))) in *.
  take_next_tac I1 l1 r l2.
  assert (FB : frame l (backup l2)) by (destruct F1 as [A B]; split; [congruence|lia]).
  assert (F2 : frame l l2) by (destruct F1 as [A B]; split; [congruence|lia]).
  destruct (r =? 34)%N eqn:E2.
  { apply N.eqb_eq in E2. apply mk_step; [exact F2|intros; lia|]. eexists _, _, _. split; [exact In2|].
    cbn [Pre]. rewrite Hp. apply grew. destruct (decode_ascii (suf l1) 34%N ltac:(congruence) ltac:(lia)) as (t & _ & W). lia. }
  destruct (r =? 40)%N eqn:E1.
  { apply N.eqb_eq in E1. apply mk_step; [exact FB|intros; lia|]. eexists _, _, _. split; [exact IB|].
    cbn [Pre]. rewrite SB. apply prefix_of_rune; [congruence|lia]. }
  destruct (is_ident r) eqn:E3.
  { apply mk_step; [exact F2|intros; lia|]. eexists _, _, _. split; [exact In2|].
    cbn [Pre]. left. rewrite Hp. apply grew. rewrite Hl. apply ident_width. rewrite <- Er. exact E3. }
  destruct (r =? 123)%N eqn:E5.
  { destruct (err_final ENoOutput (backup l2) _ _ _ IB) as [Fe Fr].
    apply mk_step; [eapply frame_trans; [exact FB|exact Fr]|intros _ H; congruence|exact Fe]. }
  destruct (is_punct r) eqn:E6.
  { destruct (err_final EPunctIdent l2 _ _ _ In2) as [Fe Fr].
    apply mk_step; [eapply frame_trans; [exact F2|exact Fr]|intros _ H; congruence|exact Fe]. }
  apply mk_step; [exact FB|intros; lia|]. eexists _, _, _. split; [exact IB|exact I].
Qed.

Lemma lexTaskBody_ok l d e g : Inv l d e g -> Pre STaskBody l -> StepOK STaskBody l (lexTaskBody l).
Proof.
  intros HI HP. cbn [Pre] in HP. unfold lexTaskBody.
  destruct (atEOF l) eqn:EOFc.
  { destruct (err_final EUnterminated l _ _ _ HI) as [Fe Fr]. apply mk_step; [exact Fr|discriminate|exact Fe]. }
  destruct (skipWhitespace_ok l d e g HI HP) as ((d1 & g1 & I1) & P1 & O1 & F1 & _).
  set (l1 := skipWhitespace l) in *.
  take_next_tac I1 l1 r l2.
  assert (FB : frame l (backup l2)) by (destruct F1 as [A B]; split; [congruence|lia]).
  assert (F2 : frame l l2) by (destruct F1 as [A B]; split; [congruence|lia]).
  destruct (r =? 125)%N eqn:E1.
  { apply N.eqb_eq in E1. apply mk_step; [exact FB|discriminate|]. eexists _, _, _. split; [exact IB|].
    cbn [Pre]. rewrite SB. apply prefix_of_rune; [congruence|lia]. }
  destruct (is_letter r); (apply mk_step; [exact F2|discriminate|]; eexists _, _, _; split; [exact In2|exact I]).
Qed.

Lemma lexRightParen_ok l d e g : Inv l d e g -> Pre SRightParen l -> StepOK SRightParen l (lexRightParen l).
Proof.
  intros HI HP. cbn [Pre] in HP. unfold lexRightParen.
  destruct (absorb_emit_skip RPAREN [41%N] l d e g HI HP eq_refl ltac:(discriminate) ltac:(discriminate) ltac:(discriminate))
    as (d1 & e1 & g1 & I1 & P1 & F1 & S1 & _).
  cbn [length] in *. set (l1 := skipWhitespace (emit RPAREN (absorb 1 l))) in *.
  rewrite (peek_ok l1 _ _ _ I1). set (w := snd (decode (suf l1))). set (r := fst (decode (suf l1))).
  pose proof (with_width_inv l1 w _ _ _ I1) as I2. set (l2 := with_width l1 w) in *.
  assert (F2 : frame l l2) by (eapply frame_trans; [exact F1|apply with_width_frame]).
  assert (S2 : start l < start l2) by (unfold l2; rewrite ww_start; exact S1).
  destruct (r =? 123)%N eqn:E1.
  { apply N.eqb_eq in E1. apply mk_step; [exact F2|intros; exact S2|]. eexists _, _, _. split; [exact I2|].
    cbn [Pre]. unfold l2. rewrite ww_suf. apply prefix_of_rune; [exact E1|lia]. }
  destruct (has_prefix k_output (suf l2)) eqn:E2.
  { apply mk_step; [exact F2|intros; exact S2|]. eexists _, _, _. split; [exact I2|exact E2]. }
  rewrite (atEOL_ok l2 _ _ _ I2). set (w2 := snd (decode (suf l2))).
  pose proof (with_width_inv l2 w2 _ _ _ I2) as I3. set (l3 := with_width l2 w2) in *.
  assert (F3 : frame l l3) by (eapply frame_trans; [exact F2|apply with_width_frame]).
  assert (S3 : start l < start l3) by (unfold l3; rewrite ww_start; exact S2).
  destruct ((((fst (decode (suf l2)) =? 10)%N || has_prefix crlf (suf l2)) || atEOF l3) || is_ident r) eqn:E3.
  { apply mk_step; [exact F3|intros; exact S3|]. eexists _, _, _. split; [exact I3|]. cbn [Pre]. unfold l3, l2. rewrite !ww_pre. exact P1. }
  destruct (r =? 35)%N eqn:E4.
  { apply N.eqb_eq in E4. apply mk_step; [exact F3|intros; exact S3|]. eexists _, _, _. split; [exact I3|].
    cbn [Pre]. unfold l3, l2. rewrite !ww_suf. apply prefix_of_rune; [exact E4|lia]. }
  destruct ((r =? 34)%N || (r =? 40)%N).
  { destruct (err_final EMissingArrow l3 _ _ _ I3) as [Fe Fr].
    apply mk_step; [eapply frame_trans; [exact F3|exact Fr]|intros _ H; congruence|exact Fe]. }
  apply mk_step; [exact F3|intros; exact S3|]. eexists _, _, _. split; [exact I3|exact I].
Qed.

Lemma lexTaskName_ok l d e g : Inv l d e g -> Pre STaskName l -> StepOK STaskName l (lexTaskName l).
Proof.
  intros HI HP. unfold lexTaskName.
  destruct (identLoop_ok (S (length (suf l))) l d e g HI ltac:(lia)) as (I0 & O0 & St0 & In0 & _).
  set (li := identLoop (S (length (suf l))) l) in *.
  destruct (emit_skip IDENT li _ _ _ I0 ltac:(discriminate) ltac:(discriminate)) as (d1 & e1 & g1 & I1 & P1 & [Fi Fs] & S1 & _).
  set (l1 := skipWhitespace (emit IDENT li)) in *.
  rewrite (peek_ok l1 _ _ _ I1). set (w := snd (decode (suf l1))). set (r := fst (decode (suf l1))).
  pose proof (with_width_inv l1 w _ _ _ I1) as I2.
  assert (F2 : frame l (with_width l1 w)) by (split; [rewrite ww_inp; congruence|rewrite ww_start; lia]).
  destruct (r =? 40)%N eqn:E1.
  { apply N.eqb_eq in E1. apply mk_step; [exact F2|discriminate|]. eexists _, _, _. split; [exact I2|].
    cbn [Pre]. rewrite ww_suf. apply prefix_of_rune; [exact E1|lia]. }
  destruct (err_final ETaskParen _ _ _ _ I2) as [Fe Fr].
  apply mk_step; [eapply frame_trans; [exact F2|exact Fr]|discriminate|exact Fe].
Qed.

Lemma lexIdent_ok l d e g : Inv l d e g -> Pre SIdent l -> StepOK SIdent l (lexIdent l).
Proof.
  intros HI HP. cbn [Pre] in HP. unfold lexIdent.
  destruct (identLoop_ok (S (length (suf l))) l d e g HI ltac:(lia)) as (I0 & O0 & St0 & In0 & Le0 & Lt0).
  set (li := identLoop (S (length (suf l))) l) in *.
  assert (NE : length (pre li) > 0).
  { destruct HP as [HP|HP]; [|specialize (Lt0 HP); lia].
    assert (length (pre l) > 0) by (destruct (pre l) eqn:Ep; [congruence|cbn [length]; lia]). lia. }
  destruct (emit_skip IDENT li _ _ _ I0 ltac:(discriminate) ltac:(discriminate)) as (d1 & e1 & g1 & I1 & P1 & [Fi Fs] & S1 & _).
  set (l1 := skipWhitespace (emit IDENT li)) in *.
  assert (Sl : start l < start l1) by lia.
  rewrite (peek_ok l1 _ _ _ I1). set (w := snd (decode (suf l1))). set (r := fst (decode (suf l1))).
  pose proof (with_width_inv l1 w _ _ _ I1) as I2. set (l2 := with_width l1 w) in *.
  assert (F2 : frame l l2) by (split; [unfold l2; rewrite ww_inp; congruence|unfold l2; rewrite ww_start; lia]).
  assert (S2 : start l < start l2) by (unfold l2; rewrite ww_start; exact Sl).
  destruct (r =? 40)%N eqn:E1.
  { apply N.eqb_eq in E1. apply mk_step; [exact F2|intros; exact S2|]. eexists _, _, _. split; [exact I2|].
    cbn [Pre]. unfold l2. rewrite ww_suf. apply prefix_of_rune; [exact E1|lia]. }
  destruct (has_prefix k_declare (suf l2)) eqn:E2.
  { destruct (bytes_eqb (rev (pre li)) k_task).
    - destruct (err_final ETaskKeyword l2 _ _ _ I2) as [Fe Fr].
      apply mk_step; [eapply frame_trans; [exact F2|exact Fr]|intros _ H; congruence|exact Fe].
    - apply mk_step; [exact F2|intros; exact S2|]. eexists _, _, _. split; [exact I2|]. cbn [Pre]. split; [unfold l2; rewrite ww_pre; exact P1|exact E2]. }
  rewrite (atEOL_ok l2 _ _ _ I2). set (w2 := snd (decode (suf l2))).
  pose proof (with_width_inv l2 w2 _ _ _ I2) as I3. set (l3 := with_width l2 w2) in *.
  assert (F3 : frame l l3) by (eapply frame_trans; [exact F2|apply with_width_frame]).
  assert (S3 : start l < start l3) by (unfold l3; rewrite ww_start; exact S2).
  destruct (((fst (decode (suf l2)) =? 10)%N || has_prefix crlf (suf l2)) || atEOF l3) eqn:E3.
  { apply mk_step; [exact F3|intros; exact S3|]. eexists _, _, _. split; [exact I3|]. cbn [Pre]. unfold l3, l2. rewrite !ww_pre. exact P1. }
  rewrite (peek_ok l3 _ _ _ I3). set (w3 := snd (decode (suf l3))). set (r3 := fst (decode (suf l3))).
  pose proof (with_width_inv l3 w3 _ _ _ I3) as I4. set (l4 := with_width l3 w3) in *.
  assert (F4 : frame l l4) by (eapply frame_trans; [exact F3|apply with_width_frame]).
  assert (S4 : start l < start l4) by (unfold l4; rewrite ww_start; exact S3).
  assert (Suf4 : suf l4 = suf l3) by reflexivity.
  destruct (r3 =? 41)%N eqn:E4.
  { apply N.eqb_eq in E4. apply mk_step; [exact F4|intros; exact S4|]. eexists _, _, _. split; [exact I4|].
    cbn [Pre]. rewrite Suf4. apply prefix_of_rune; [exact E4|lia]. }
  destruct (r3 =? 44)%N eqn:E5.
  { apply N.eqb_eq in E5. apply mk_step; [exact F4|intros; exact S4|]. eexists _, _, _. split; [exact I4|].
    cbn [Pre]. rewrite Suf4. apply prefix_of_rune; [exact E5|lia]. }
  destruct (r3 =? 123)%N eqn:E6.
  { apply N.eqb_eq in E6. apply mk_step; [exact F4|intros; exact S4|]. eexists _, _, _. split; [exact I4|].
    cbn [Pre]. rewrite Suf4. apply prefix_of_rune; [exact E6|lia]. }
  destruct (is_punct r3).
  { destruct (err_final EIdentPunct l4 _ _ _ I4) as [Fe Fr].
    apply mk_step; [eapply frame_trans; [exact F4|exact Fr]|intros _ H; congruence|exact Fe]. }
  destruct (is_ident r3).
  { destruct (err_final EIdentIdent l4 _ _ _ I4) as [Fe Fr].
    apply mk_step; [eapply frame_trans; [exact F4|exact Fr]|intros _ H; congruence|exact Fe]. }
  apply mk_step; [exact F4|intros; exact S4|]. eexists _, _, _. split; [exact I4|exact I].
Qed.

Lemma decode_cr t : decode (13%N :: t) = (13%N, 1).
Proof. reflexivity. Qed.

Lemma lexStringLoop_ok fuel : forall l d e g, Inv l d e g -> pre l <> [] -> length (suf l) < fuel ->
  StepOK SString l (lexStringLoop fuel l).
Proof.
  induction fuel as [|fuel IH]; intros l d e g HI HP Hf; [lia|]. cbn [lexStringLoop].
  take_next_tac HI l r l1.
  assert (F1 : frame l l1) by (split; [congruence|lia]).
  assert (NE1 : pre l1 <> []).
  { rewrite Hp. destruct (pre l) as [|x p]; [congruence|]. intros E0. apply (f_equal (@length N)) in E0. rewrite app_length in E0. cbn in E0. lia. }
  destruct (r =? 34)%N eqn:E1.
  - pose proof (emit_inv STRING l1 _ _ _ In2 ltac:(discriminate) ltac:(discriminate)) as I2.
    pose proof (emit_frame STRING l1) as [Fe Es]. set (l2 := emit STRING l1) in *.
    assert (S2 : start l < start l2) by (destruct (pre l1); [congruence|cbn [length] in Es; lia]).
    assert (F2 : frame l l2) by (eapply frame_trans; eauto).
    destruct (atEOF l2) eqn:EOFc.
    { apply mk_step; [exact F2|intros; exact S2|]. eexists _, _, _. split; [exact I2|reflexivity]. }
    rewrite (atEOL_ok l2 _ _ _ I2). set (w2 := snd (decode (suf l2))).
    pose proof (with_width_inv l2 w2 _ _ _ I2) as I3.
    assert (F3 : frame l (with_width l2 w2)) by (eapply frame_trans; [exact F2|apply with_width_frame]).
    destruct ((fst (decode (suf l2)) =? 10)%N || has_prefix crlf (suf l2));
      (apply mk_step; [exact F3|intros; rewrite ww_start; exact S2|]; eexists _, _, _; split; [exact I3|reflexivity]).
  - destruct (atEOF l1) eqn:EOFc.
    { destruct (err_final EStringQuote (backup l1) _ _ _ IB) as [Fe Fr].
      apply mk_step; [eapply frame_trans; [|exact Fr]; split; [congruence|lia]|intros _ H; congruence|exact Fe]. }
    rewrite (atEOL_ok l1 _ _ _ In2). set (w1 := snd (decode (suf l1))).
    pose proof (with_width_inv l1 w1 _ _ _ In2) as I2. set (l2 := with_width l1 w1) in *.
    assert (F2 : frame l l2) by (eapply frame_trans; [exact F1|apply with_width_frame]).
    destruct ((fst (decode (suf l1)) =? 10)%N || has_prefix crlf (suf l1)) eqn:EOL.
    + (* the quirk: this backup uses the width of the rune that was peeked (a line end, one byte) *)
      assert (W1 : w1 = 1).
      { apply orb_true_iff in EOL. destruct EOL as [E|E].
        - apply N.eqb_eq in E. destruct (decode_ascii (suf l1) 10%N E ltac:(lia)) as (t & _ & W). exact W.
        - unfold w1. destruct (suf l1) as [|c t]; [discriminate|]. cbn in E. apply andb_true_iff in E. destruct E as [E _].
          apply N.eqb_eq in E. subst c. reflexivity. }
      destruct (pre l1) as [|b p0] eqn:Ep; [congruence|].
      destruct (backup_inv l2 _ _ _ [b] p0 I2) as (I3 & _); [unfold l2; rewrite ww_pre; exact Ep|unfold l2; cbn [with_width width length]; lia|unfold l2; cbn [with_width width]; lia|].
      destruct (err_final EStringQuote (backup l2) _ _ _ I3) as [Fe Fr].
      apply mk_step; [eapply frame_trans; [exact F2|]; eapply frame_trans; [apply (proj1 (backup_frame l2))|exact Fr]|intros _ H; congruence|exact Fe].
    + assert (W : length bs > 0).
      { rewrite Hl. apply decode_width_pos. intros E0. rewrite E0 in Hs. symmetry in Hs. apply app_eq_nil in Hs.
        destruct Hs as [_ Hs']. unfold atEOF in EOFc. rewrite Hs' in EOFc. discriminate. }
      assert (Hlen : length (suf l2) < fuel).
      { unfold l2. rewrite ww_suf. assert (length (suf l) = length bs + length (suf l1)) by (rewrite Hs, app_length; reflexivity). lia. }
      pose proof (IH l2 _ _ _ I2 ltac:(unfold l2; rewrite ww_pre; exact NE1) Hlen) as R.
      destruct (lexStringLoop fuel l2) as [s' l']. destruct R as [[[Ri Rs] G] St]. cbn [fst snd] in *.
      apply mk_step; [destruct F2 as [A B]; split; [congruence|lia]| |exact G].
      intros C N1 N2. specialize (St C N1 N2). destruct F2. lia.
Qed.

Lemma lexString_ok l d e g : Inv l d e g -> Pre SString l -> StepOK SString l (lexString l).
Proof. intros HI HP. unfold lexString. eapply lexStringLoop_ok; eauto. Qed.

Lemma strip_space_ok l d e g : Inv l d e g ->
  let l' := match pre l with 32%N :: _ => pos_dec l | _ => l end in
  Inv l' d e g /\ out l' = out l /\ start l' = start l /\ inp l' = inp l /\
  exists sp, Forall asp sp /\ suf l' = sp ++ suf l /\ length (pre l') + length sp = length (pre l).
Proof.
  intros HI. destruct (pre l) as [|b p] eqn:Ep.
  - cbn zeta. split; [exact HI|]. split; [reflexivity|]. split; [reflexivity|]. split; [reflexivity|].
    exists []. split; [constructor|]. split; [reflexivity|rewrite ?Ep; cbn [length]; lia].
  - destruct (N.eq_dec b 32) as [->|Hb].
    + cbn zeta. unfold pos_dec. rewrite Ep. split; [apply (unconsume_inv l d e g 32%N p HI Ep); discriminate|].
      cbn [out start inp suf pre]. split; [reflexivity|]. split; [reflexivity|]. split; [reflexivity|].
      exists [32%N]. split; [repeat constructor; lia|]. cbn. split; [reflexivity|lia].
    + assert (E : match b :: p with 32%N :: _ => pos_dec l | _ => l end = l).
      { destruct b as [|pb]; [reflexivity|]. destruct pb as [pb|pb|]; try reflexivity; destruct pb as [pb|pb|]; try reflexivity;
        destruct pb as [pb|pb|]; try reflexivity; destruct pb as [pb|pb|]; try reflexivity; destruct pb as [pb|pb|]; try reflexivity;
        destruct pb as [pb|pb|]; try reflexivity. congruence. }
      cbn zeta. rewrite E. split; [exact HI|]. split; [reflexivity|]. split; [reflexivity|]. split; [reflexivity|].
      exists []. split; [constructor|]. split; [reflexivity|rewrite ?Ep; cbn [length]; lia].
Qed.

Lemma asp_cr_run k : Forall asp (repeat 13%N k).
Proof. induction k; cbn; constructor; auto. split; [lia|reflexivity]. Qed.

Lemma lexTaskCommandsLoop_ok fuel : forall l d e g, Inv l d e g -> length (suf l) + 1 < fuel ->
  StepOK STaskCommands l (lexTaskCommandsLoop fuel l).
Proof.
  induction fuel as [|fuel IH]; intros l d e g HI Hf; [lia|]. cbn [lexTaskCommandsLoop].
  take_next_tac HI l r l1.
  assert (F1 : frame l l1) by (split; [congruence|lia]).
  assert (FB : frame l (backup l1)) by (split; [congruence|lia]).
  assert (Ls : length (suf l) = length bs + length (suf l1)) by (rewrite Hs, app_length; reflexivity).
  (* hand the rest of the loop over to the induction hypothesis *)
  assert (Rec : forall l' d' e' g', Inv l' d' e' g' -> frame l l' -> length (suf l') < length (suf l) ->
                StepOK STaskCommands l (lexTaskCommandsLoop fuel l')).
  { intros l' d' e' g' I' [Fi Fs] Hlt. pose proof (IH l' _ _ _ I' ltac:(lia)) as R.
    destruct (lexTaskCommandsLoop fuel l') as [s' l'']. destruct R as [[[Ri Rs] G] _]. cbn [fst snd] in *.
    apply mk_step; [split; [congruence|lia]|discriminate|exact G]. }
  destruct (r =? 10)%N eqn:E1.
  - apply N.eqb_eq in E1. destruct (decode_ascii (suf l) 10%N ltac:(congruence) ltac:(lia)) as (rest & Hsuf & _).
    destruct (drop_cr_ok (backup l1) _ _ _ IB) as (I3 & O3 & St3 & In3 & (k & Hk & _)).
    set (l3 := drop_cr (backup l1)) in *.
    destruct (emit_skip COMMAND l3 _ _ _ I3 ltac:(discriminate) ltac:(discriminate)) as (d4 & e4 & g4 & I4 & P4 & [Fi4 Fs4] & _ & _).
    apply (Rec _ _ _ _ I4); [split; [congruence|lia]|].
    unfold skipWhitespace. pose proof (emit_frame COMMAND l3) as _.
    assert (Se : suf (emit COMMAND l3) = (repeat 13%N k ++ [10%N]) ++ rest).
    { cbn [emit suf]. rewrite Hk, SB, Hsuf, <- app_assoc. reflexivity. }
    pose proof (skipWS_len_sp (repeat 13%N k ++ [10%N]) ltac:(apply Forall_app; split; [apply asp_cr_run|repeat constructor; lia])
                  (S (length (suf (emit COMMAND l3)))) (emit COMMAND l3) rest Se ltac:(lia)) as L.
    rewrite Hsuf. cbn [length]. lia.
  - destruct (has_prefix k_linterp (suf l1)) eqn:E2.
    { destruct (absorb_inv 2 l1 _ _ _ k_linterp In2 E2 eq_refl eq_refl) as (I3 & _ & S3 & _).
      apply (Rec _ _ _ _ I3); [eapply frame_trans; [exact F1|apply absorb_frame]|].
      pose proof (has_prefix_split _ _ E2) as Sp. apply (f_equal (@length N)) in Sp. rewrite app_length in Sp. cbn [length k_linterp] in Sp. rewrite S3. lia. }
    destruct (has_prefix k_rinterp (suf l1)) eqn:E3.
    { destruct (absorb_inv 2 l1 _ _ _ k_rinterp In2 E3 eq_refl eq_refl) as (I3 & _ & S3 & _).
      apply (Rec _ _ _ _ I3); [eapply frame_trans; [exact F1|apply absorb_frame]|].
      pose proof (has_prefix_split _ _ E3) as Sp. apply (f_equal (@length N)) in Sp. rewrite app_length in Sp. cbn [length k_rinterp] in Sp. rewrite S3. lia. }
    destruct (r =? 125)%N eqn:E4.
    { apply N.eqb_eq in E4. destruct (decode_ascii (suf l) 125%N ltac:(congruence) ltac:(lia)) as (rest & Hsuf & _).
      destruct (strip_space_ok (backup l1) _ _ _ IB) as (I2' & O2' & St2' & In2' & (sp1 & A1 & Hs1 & _)).
      set (l2' := match pre (backup l1) with 32%N :: _ => pos_dec (backup l1) | _ => backup l1 end) in *.
      destruct (drop_cr_ok l2' _ _ _ I2') as (I3 & O3 & St3 & In3 & (k & Hk & _)).
      set (l3 := drop_cr l2') in *.
      assert (F3 : frame l l3) by (split; [congruence|lia]).
      assert (Suf3 : suf l3 = (repeat 13%N k ++ sp1) ++ 125%N :: rest) by (rewrite Hk, Hs1, SB, Hsuf, <- app_assoc; reflexivity).
      assert (Asp : Forall asp (repeat 13%N k ++ sp1)) by (apply Forall_app; split; [apply asp_cr_run|exact A1]).
      assert (G : forall l4 d4 e4 g4, Inv l4 d4 e4 g4 -> pre l4 = [] -> suf l4 = suf l3 -> frame l l4 ->
                  StepOK STaskCommands l (SRightBrace, skipWhitespace l4)).
      { intros l4 d4 e4 g4 I4 P4 S4 F4. destruct (skipWhitespace_ok l4 _ _ _ I4 P4) as ((d5 & g5 & I5) & _ & _ & F5 & _).
        apply mk_step; [eapply frame_trans; eauto|discriminate|]. eexists _, _, _. split; [exact I5|]. cbn [Pre].
        unfold skipWhitespace. rewrite (skipWS_exact _ Asp (S (length (suf l4))) l4 (125%N :: rest) ltac:(rewrite S4; exact Suf3) ltac:(lia) eq_refl).
        apply has_prefix_cons. }
      destruct (pre l3) as [|b3 p3] eqn:Ep3.
      - apply (G l3 _ _ _ I3 Ep3 eq_refl F3).
      - pose proof (emit_inv COMMAND l3 _ _ _ I3 ltac:(discriminate) ltac:(discriminate)) as I4.
        apply (G (emit COMMAND l3) _ _ _ I4 eq_refl eq_refl). eapply frame_trans; [exact F3|apply emit_frame]. }
    destruct (atEOF l1 || (r =? 35)%N).
    { destruct (err_final EUnterminated l1 _ _ _ In2) as [Fe Fr].
      apply mk_step; [eapply frame_trans; [exact F1|exact Fr]|discriminate|exact Fe]. }
    destruct (r <=? 127)%N eqn:E5.
    { destruct (decode_ascii (suf l) r ltac:(congruence) ltac:(lia)) as (rest & Hsuf & W). rewrite W in Hl.
      apply (Rec _ _ _ _ In2 F1). lia. }
    apply mk_step; [exact FB|discriminate|]. eexists _, _, _. split; [exact IB|exact I].
Qed.

Lemma lexTaskCommands_ok l d e g : Inv l d e g -> Pre STaskCommands l -> StepOK STaskCommands l (lexTaskCommands l).
Proof. intros HI _. unfold lexTaskCommands. apply (lexTaskCommandsLoop_ok _ l d e g HI). lia. Qed.

(* ---------- putting the states together ---------- *)
Lemma step_ok s l d e g : Inv l d e g -> Pre s l -> s <> SDone -> StepOK s l (step s l).
Proof.
  intros HI HP HS. destruct s; cbn [step].
  - apply (lexStart_ok l d e g HI HP).
  - apply (lexHash_ok l d e g HI HP).
  - apply (lexComment_ok l d e g HI HP).
  - apply (lexTaskKeyword_ok l d e g HI HP).
  - apply (lexLeftParen_ok l d e g HI HP).
  - apply (lexRightParen_ok l d e g HI HP).
  - apply (lexOutputOperator_ok l d e g HI HP).
  - apply (lexLeftBrace_ok l d e g HI HP).
  - apply (lexRightBrace_ok l d e g HI HP).
  - apply (lexTaskBody_ok l d e g HI HP).
  - apply (lexTaskCommands_ok l d e g HI HP).
  - apply (lexTaskName_ok l d e g HI HP).
  - apply (lexIdent_ok l d e g HI HP).
  - apply (lexArgs_ok l d e g HI HP).
  - apply (lexComma_ok l d e g HI HP).
  - apply (lexDeclare_ok l d e g HI HP).
  - apply (lexString_ok l d e g HI HP).
  - apply (unexpected_ok SUnexpected l d e g HI).
  - congruence.
Qed.

(* which state can follow which *)
Definition succ (s : st) : list st :=
  match s with
  | SStart => [SHash; STaskKeyword; SIdent; SDone; SUnexpected]
  | SHash => [SComment]
  | SComment => [SStart; SDone]
  | STaskKeyword => [STaskName]
  | SLeftParen => [SArgs]
  | SRightParen => [SLeftBrace; SOutputOp; SStart; SHash; SDone; SUnexpected]
  | SOutputOp => [SString; SLeftParen; SIdent; SDone; SUnexpected]
  | SLeftBrace => [STaskBody]
  | SRightBrace => [SStart]
  | STaskBody => [SDone; SRightBrace; STaskCommands; SUnexpected]
  | STaskCommands => [SRightBrace; SDone; SUnexpected]
  | STaskName => [SLeftParen; SDone]
  | SIdent => [SLeftParen; SDeclare; SStart; SRightParen; SComma; SLeftBrace; SDone; SUnexpected]
  | SArgs => [SRightParen; SString; SIdent; SComma; SLeftBrace; SDone]
  | SComma => [SString; SIdent; SRightParen; SUnexpected]
  | SDeclare => [SString; SIdent; SUnexpected]
  | SString => [SStart; SArgs; SDone]
  | SUnexpected => [SDone]
  | SDone => [SDone]
  end.

Lemma st_eq_dec (a b : st) : {a = b} + {a <> b}.
Proof. decide equality. Qed.

Ltac in_list := cbn [In]; repeat (first [left; reflexivity | right]); fail.
Ltac succ_cases := repeat (match goal with
  | |- context [if ?b then _ else _] => destruct b
  | |- context [let '(_, _) := ?p in _] => destruct p
  | |- context [match ?x with (_, _) => _ end] => destruct x
  end); cbn [fst succ In]; try tauto.

Lemma lexCommentLoop_succ fuel : forall l, In (fst (lexCommentLoop fuel l)) (succ SComment).
Proof. induction fuel as [|fuel IH]; intros l; cbn [lexCommentLoop]; [cbn; tauto|]. destruct (atEOL l) as [eol l1]. destruct (eol || atEOF l1); [cbn; tauto|]. destruct (next l1). apply IH. Qed.
Lemma lexStringLoop_succ fuel : forall l, In (fst (lexStringLoop fuel l)) (succ SString).
Proof.
  induction fuel as [|fuel IH]; intros l; cbn [lexStringLoop]; [cbn; tauto|]. destruct (next l) as [r l1].
  destruct (r =? 34)%N. { destruct (atEOF (emit STRING l1)); [cbn; tauto|]. destruct (atEOL (emit STRING l1)) as [eol l3]. destruct eol; cbn; tauto. }
  destruct (atEOF l1); [cbn; tauto|]. destruct (atEOL l1) as [eol l2]. destruct eol; [cbn; tauto|apply IH].
Qed.
Lemma lexTaskCommandsLoop_succ fuel : forall l, In (fst (lexTaskCommandsLoop fuel l)) (succ STaskCommands).
Proof.
  induction fuel as [|fuel IH]; intros l; cbn [lexTaskCommandsLoop]; [cbn; tauto|]. destruct (next l) as [r l1].
  destruct (r =? 10)%N; [apply IH|]. destruct (has_prefix k_linterp (suf l1)); [apply IH|]. destruct (has_prefix k_rinterp (suf l1)); [apply IH|].
  destruct (r =? 125)%N; [cbn; tauto|]. destruct (atEOF l1 || (r =? 35)%N); [cbn; tauto|]. destruct (r <=? 127)%N; [apply IH|cbn; tauto].
Qed.

Lemma step_succ s l : In (fst (step s l)) (succ s).
Proof.
  destruct s; cbn [step].
  - unfold lexStart. succ_cases.
  - cbn; tauto.
  - apply lexCommentLoop_succ.
  - cbn; tauto.
  - cbn; tauto.
  - unfold lexRightParen. succ_cases.
  - unfold lexOutputOperator. succ_cases.
  - cbn; tauto.
  - cbn; tauto.
  - unfold lexTaskBody. succ_cases.
  - apply lexTaskCommandsLoop_succ.
  - unfold lexTaskName. succ_cases.
  - unfold lexIdent. succ_cases.
  - unfold lexArgs. succ_cases.
  - unfold lexComma. succ_cases.
  - unfold lexDeclare. succ_cases.
  - apply lexStringLoop_succ.
  - cbn; tauto.
  - cbn; tauto.
Qed.

Definition rank (s : st) : nat :=
  match s with
  | SDone => 0
  | SUnexpected => 1
  | SArgs | STaskName | STaskCommands => 3
  | STaskBody | SStart => 4
  | SComment => 5
  | _ => 2
  end.
Definition phi (s : st) (l : lx) : nat := 6 * (length (inp l) - start l) + rank s.

Lemma step_decreases s l d e g : Inv l d e g -> Pre s l -> s <> SDone ->
  fst (step s l) = SDone \/ phi (fst (step s l)) (snd (step s l)) < phi s l.
Proof.
  intros HI HP HS. pose proof (step_ok s l d e g HI HP HS) as [[[Fi Fs] G] St]. pose proof (step_succ s l) as Su.
  destruct (step s l) as [s' l']. cbn [fst snd] in *.
  destruct (st_eq_dec s' SDone) as [->|ND]; [left; reflexivity|right].
  assert (B : start l' <= length (inp l')).
  { destruct s'; try congruence; destruct G as (d' & e' & g' & I' & _); pose proof (Inv_start _ _ _ _ I'); lia. }
  unfold phi. rewrite Fi in *.
  destruct (consuming s) eqn:C.
  - destruct (st_eq_dec s' SUnexpected) as [->|NU].
    + destruct s; try discriminate; cbn [rank]; lia.
    + specialize (St eq_refl ND NU). assert (rank s = 2) as -> by (destruct s; try discriminate; reflexivity).
      assert (rank s' <= 5) by (destruct s'; cbn; lia). lia.
  - assert (rank s' < rank s).
    { destruct s; try discriminate; try congruence; cbn [succ In] in Su;
        repeat (destruct Su as [<-|Su]; [try congruence; cbn [rank]; lia|]); contradiction. }
    lia.
Qed.

Lemma Final_fl l : Final l -> fl l = FOk. Proof. intros [H _]. exact H. Qed.

(* the driver never runs out of fuel and ends in a finished scan of the same input *)
Lemma run_ok : forall fuel s l,
  (s = SDone -> Final l) -> (s <> SDone -> exists d e g, Inv l d e g /\ Pre s l) -> phi s l < fuel ->
  Final (run fuel s l) /\ inp (run fuel s l) = inp l.
Proof.
  induction fuel as [|fuel IH]; intros s l HD HN Hphi; [lia|].
  destruct (st_eq_dec s SDone) as [->|ND].
  - cbn [run is_done]. split; [apply HD; reflexivity|reflexivity].
  - destruct (HN ND) as (d & e & g & HI & HP).
    assert (R : run (S fuel) s l = let '(s', l') := step s l in if is_ok (fl l') then run fuel s' l' else l').
    { destruct s; try reflexivity. congruence. }
    rewrite R. pose proof (step_ok s l d e g HI HP ND) as [[[Fi Fs] G] _].
    pose proof (step_decreases s l d e g HI HP ND) as Dec.
    destruct (step s l) as [s' l']. cbn [fst snd] in *.
    assert (Fl : fl l' = FOk).
    { destruct (st_eq_dec s' SDone) as [->|N']; [apply Final_fl; exact G|].
      destruct s'; try congruence; destruct G as (d' & e' & g' & [_ _ _ _ _ _ _ F'] & _); exact F'. }
    rewrite Fl. cbn [is_ok].
    destruct (st_eq_dec s' SDone) as [->|N'].
    { assert (Rd : run fuel SDone l' = l') by (destruct fuel; reflexivity). rewrite Rd. split; [exact G|exact Fi]. }
    destruct (IH s' l') as [A B].
    + intros E. congruence.
    + intros _. destruct s'; try congruence; exact G.
    + destruct Dec as [E|Dec]; [congruence|]. lia.
    + split; [exact A|congruence].
Qed.

Lemma init_inv s : Inv (init s) [] 0 0.
Proof. constructor; cbn; auto; constructor. Qed.

(* C16 on the model: for EVERY byte string the scan finishes without fault or fuel exhaustion, and what it emitted is:
   tokens tiling the input (Tiled), ending in an ERROR token, or in an EOF token that Tiled places at |input| *)
Theorem lex_tiles s :
  fst (lex s) = FOk /\
  exists front t, snd (lex s) = front ++ [t] /\
    ((ty t = ERROR /\ (exists e, Tiled s e front) /\ err_located s t) \/ (ty t = EOF /\ exists e, Tiled s e (front ++ [t]))).
Proof.
  unfold lex. cbn [fst snd].
  destruct (run_ok (6 * length s + 8) SStart (init s)) as [[Fl (t & o & Ho & H)] Hi].
  - discriminate.
  - intros _. exists [], 0, 0. split; [apply init_inv|reflexivity].
  - unfold phi. cbn [init inp start rank]. lia.
  - cbn [init inp] in Hi. split; [exact Fl|]. exists (rev o), t. rewrite Ho. cbn [rev]. split; [reflexivity|].
    rewrite Hi in H. rewrite Ho in H. cbn [rev] in H. exact H.
Qed.

(* what Tiled says about each token and about neighbours *)
Lemma Tiled_each s e toks : Tiled s e toks -> forall t, In t toks ->
  ty t <> ERROR /\ val t = firstn (length (val t)) (skipn (tpos t) s) /\ tpos t + length (val t) <= length s /\
  tline t = S (nl (firstn (tpos t) s)) /\ (ty t = EOF -> tpos t = length s) /\ tpos t + length (val t) <= e.
Proof.
  induction 1 as [|e toks g t T IH Sp Ne Pos Val Len Line Eof]; intros u Hu; [contradiction|].
  apply in_app_or in Hu. destruct Hu as [Hu|[<-|[]]].
  - destruct (IH u Hu) as (A & B & C & Dd & E & F). split; [exact A|]. split; [exact B|]. split; [exact C|]. split; [exact Dd|]. split; [exact E|lia].
  - rewrite Pos. split; [exact Ne|]. split; [exact Val|]. split; [exact Len|]. split; [exact Line|]. split; [exact Eof|lia].
Qed.

Lemma Tiled_end s e toks : Tiled s e toks -> e <= length s.
Proof. induction 1; lia. Qed.

Lemma Tiled_last s e a t : Tiled s e (a ++ [t]) -> e = tpos t + length (val t).
Proof.
  intros T. remember (a ++ [t]) as l eqn:El. destruct T as [|e0 toks g t1 T Sp Ne Pos Val Len Line Eof]; [destruct a; discriminate|].
  apply app_inj_tail in El. destruct El as [_ ->]. rewrite Pos. reflexivity.
Qed.

(* consecutive tokens: the next one starts at or after the end of the previous one, and what lies between is whitespace *)
Lemma Tiled_gap s e toks : Tiled s e toks -> forall a t u b, toks = a ++ t :: u :: b ->
  exists g, tpos u = tpos t + length (val t) + g /\ sp_run (skipn (tpos t + length (val t)) s) g.
Proof.
  induction 1 as [|e toks g t T IH Sp Ne Pos Val Len Line Eof]; intros a t0 u b E; [destruct a; discriminate|].
  destruct b as [|x b] using rev_ind.
  - replace (a ++ [t0; u]) with ((a ++ [t0]) ++ [u]) in E by (rewrite <- app_assoc; reflexivity).
    apply app_inj_tail in E. destruct E as [E ->]. subst toks. exists g.
    rewrite <- (Tiled_last _ _ _ _ T). split; [exact Pos|exact Sp].
  - clear IHb. replace (a ++ t0 :: u :: b ++ [x]) with ((a ++ t0 :: u :: b) ++ [x]) in E by (rewrite <- app_assoc; reflexivity).
    apply app_inj_tail in E. destruct E as [E _]. eapply IH; eauto.
Qed.
