(* Every state function of the lexer preserves the tiling invariant, establishes the precondition of the
   state it hands over to, never faults, and makes progress (C16, and the lexing half of C08). *)
From Spok Require Import Base Lexer DecodeSpec LexInv.
From Coq Require Import ZArith ZifyN ZifyNat ZifyBool.
Ltac Zify.zify_post_hook ::= Z.div_mod_to_equations.
Open Scope nat_scope.

Arguments N.eqb : simpl never.
Arguments N.ltb : simpl never.
Arguments N.leb : simpl never.

(* ---------- small facts ---------- *)
Lemma has_prefix_split lit : forall s, has_prefix lit s = true -> s = lit ++ skipn (length lit) s.
Proof.
  induction lit as [|a lit IH]; intros s H; [reflexivity|].
  destruct s as [|b s]; [discriminate|]. cbn in H. apply andb_true_iff in H. destruct H as [H1 H2].
  apply N.eqb_eq in H1. subst b. cbn. f_equal. apply IH. exact H2.
Qed.
Lemma has_prefix_cons c t : has_prefix [c] (c :: t) = true.
Proof. cbn. rewrite N.eqb_refl. reflexivity. Qed.

(* an ASCII rune is one identical byte *)
Lemma decode_ascii s r : fst (decode s) = r -> (r < 128)%N -> exists t, s = r :: t /\ snd (decode s) = 1.
Proof.
  intros E Hr. pose proof (decode_spec s) as D. destruct (decode s) as [r' w]. cbn in E. subst r'.
  destruct D as (_ & _ & _ & _ & Dlt & _). destruct (Dlt Hr) as (-> & t & ->). eauto.
Qed.
Lemma decode_width_pos s : s <> [] -> snd (decode s) > 0.
Proof.
  intros H. pose proof (decode_spec s) as D. destruct (decode s) as [r w]. cbn.
  destruct D as (_ & _ & D0 & _). destruct w; [|lia]. exfalso. apply H. apply D0. reflexivity.
Qed.
Lemma decode_nil_rune s : snd (decode s) = 0 -> fst (decode s) = RuneError.
Proof.
  intros H. pose proof (decode_spec s) as D. destruct (decode s) as [r w] eqn:E. cbn in *. subst w.
  destruct D as (_ & _ & D0 & _). rewrite (proj1 D0 eq_refl) in E. cbn in E. inversion E. reflexivity.
Qed.
Lemma ident_width s : is_ident (fst (decode s)) = true -> snd (decode s) > 0.
Proof.
  intros H. destruct (snd (decode s)) eqn:W; [|lia]. rewrite (decode_nil_rune s W) in H. vm_compute in H. discriminate.
Qed.

(* ---------- frame: what never goes backwards ---------- *)
Definition frame (l l' : lx) : Prop := inp l' = inp l /\ start l <= start l'.
Lemma frame_refl l : frame l l. Proof. split; [reflexivity|lia]. Qed.
Lemma frame_trans a b c : frame a b -> frame b c -> frame a c.
Proof. intros [A1 A2] [B1 B2]. split; [congruence|lia]. Qed.

Lemma next_frame l : frame l (snd (next l)) /\ start (snd (next l)) = start l.
Proof. unfold frame, next. destruct (decode (suf l)) as [r w]. destruct (fwd w (pre l) (suf l)). cbn. repeat split; try reflexivity; lia. Qed.
Lemma backup_frame l : frame l (backup l) /\ start (backup l) = start l.
Proof. unfold frame, backup. destruct (bwd (width l) (pre l) (suf l)) as [[p s]|]; cbn; repeat split; try reflexivity; lia. Qed.
Lemma discard_frame l : frame l (discard l).
Proof. unfold frame, discard, pos. cbn. split; [reflexivity|lia]. Qed.
Lemma emit_frame t l : frame l (emit t l) /\ start (emit t l) = start l + length (pre l).
Proof. unfold frame, emit, pos. cbn. repeat split; try reflexivity; lia. Qed.
Lemma absorb_frame n l : frame l (absorb n l) /\ start (absorb n l) = start l.
Proof. unfold frame, absorb. destruct (Nat.leb n (length (suf l))); [destruct (fwd n (pre l) (suf l))|]; cbn; repeat split; try reflexivity; lia. Qed.
Lemma error_frame k l : frame l (error k l) /\ start (error k l) = start l.
Proof. unfold frame, error. cbn. repeat split; try reflexivity; lia. Qed.
Lemma with_width_frame l w : frame l (with_width l w). Proof. split; [reflexivity|cbn; lia]. Qed.

Lemma skipWS_frame fuel : forall l, frame l (skipWS fuel l).
Proof.
  induction fuel as [|fuel IH]; intros l; cbn [skipWS]; [split; [reflexivity|cbn; lia]|].
  pose proof (next_frame l) as [F _]. destruct (next l) as [r l1]. cbn [snd] in F.
  destruct (is_space r).
  - eapply frame_trans; [exact F|apply IH].
  - eapply frame_trans; [exact F|]. eapply frame_trans; [apply (proj1 (backup_frame l1))|apply discard_frame].
Qed.
Lemma skipWhitespace_frame l : frame l (skipWhitespace l).
Proof. apply skipWS_frame. Qed.

(* ---------- what a finished scan looks like ---------- *)
Definition Final (l : lx) : Prop :=
  fl l = FOk /\ exists t o, out l = t :: o /\
   ((ty t = ERROR /\ exists e, Tiled (inp l) e (rev o)) \/
    (ty t = EOF /\ exists e, Tiled (inp l) e (rev (out l)))).

Lemma err_final k l d e g : Inv l d e g -> Final (error k l) /\ frame l (error k l).
Proof.
  intros HI. destruct (error_ok k l _ _ _ HI) as (F & (t & o & Ho & Ht) & (t' & Ho')).
  split; [|apply error_frame]. split; [exact F|]. exists t, o. split; [exact Ho|]. left. split; [exact Ht|].
  rewrite Ho in Ho'. inversion Ho'; subst. destruct HI. exists e. unfold error. cbn [inp]. assumption.
Qed.

(* ---------- per-state preconditions ---------- *)
Definition Pre (s : st) (l : lx) : Prop :=
  match s with
  | SStart | SComment | STaskBody | STaskName | SArgs => pre l = []
  | SHash => has_prefix k_hash (suf l) = true
  | STaskKeyword => has_prefix k_task (suf l) = true
  | SLeftParen => has_prefix [40%N] (suf l) = true
  | SRightParen => has_prefix [41%N] (suf l) = true
  | SOutputOp => has_prefix k_output (suf l) = true
  | SLeftBrace => has_prefix [123%N] (suf l) = true
  | SRightBrace => has_prefix [125%N] (suf l) = true
  | SComma => has_prefix [44%N] (suf l) = true
  | SDeclare => pre l = [] /\ has_prefix k_declare (suf l) = true
  | SIdent => pre l <> [] \/ is_ident (fst (decode (suf l))) = true
  | SString => pre l <> []
  | STaskCommands | SUnexpected | SDone => True
  end.

(* states that always move the start of the next token forward when they hand over normally *)
Definition consuming (s : st) : bool :=
  match s with
  | SHash | STaskKeyword | SLeftParen | SRightParen | SOutputOp | SLeftBrace | SRightBrace | SComma | SDeclare | SString | SIdent => true
  | _ => false
  end.

Definition Good (s' : st) (l l' : lx) : Prop :=
  frame l l' /\
  match s' with
  | SDone => Final l'
  | _ => exists d e g, Inv l' d e g /\ Pre s' l'
  end.

Definition StepOK (s : st) (l : lx) (r : st * lx) : Prop :=
  Good (fst r) l (snd r) /\
  (consuming s = true -> fst r <> SDone -> fst r <> SUnexpected -> start l < start (snd r)).

Lemma Inv_start l d e g : Inv l d e g -> start l + length (pre l) + length (suf l) = length (inp l).
Proof. intros [Hi Hs _ _ _ _ _ _]. rewrite Hi, !app_length, rev_length. lia. Qed.

(* absorb a literal that is there, then emit it *)
Lemma absorb_emit t lit l d e g :
  Inv l d e g -> has_prefix lit (suf l) = true -> nl lit = 0 -> t <> ERROR -> t <> EOF ->
  let l' := emit t (absorb (length lit) l) in
  (exists d', Inv l' d' (start l + length (pre l) + length lit) 0) /\ pre l' = [] /\ suf l' = skipn (length lit) (suf l) /\
  start l' = start l + length (pre l) + length lit /\ inp l' = inp l.
Proof.
  intros HI HP Hnl Ht1 Ht2 l'.
  destruct (absorb_inv (length lit) l d e g lit HI HP eq_refl Hnl) as (I1 & P1 & S1 & O1).
  pose proof (emit_inv t _ _ _ _ I1 Ht1 (fun E => match Ht2 E with end)) as I2.
  pose proof (absorb_frame (length lit) l) as [[Fi _] Fs]. pose proof (emit_frame t (absorb (length lit) l)) as [[Ei _] Es].
  assert (Ps : pos (absorb (length lit) l) = start l + length (pre l) + length lit).
  { unfold pos. rewrite Fs, P1, app_length, rev_length. lia. }
  rewrite Ps in I2. split; [eexists; exact I2|]. split; [reflexivity|]. split; [exact S1|]. split; [|congruence].
  subst l'. rewrite Es, Fs, P1, app_length, rev_length. lia.
Qed.

(* skipWhitespace after something that left pre empty *)
Lemma skipWhitespace_ok l d e g : Inv l d e g -> pre l = [] ->
  (exists d' g', Inv (skipWhitespace l) d' e g') /\ pre (skipWhitespace l) = [] /\ out (skipWhitespace l) = out l /\
  frame l (skipWhitespace l) /\ is_space (fst (decode (suf (skipWhitespace l)))) = false.
Proof.
  intros HI HP. destruct (skipWhitespace_spec l d e g HI HP) as (d' & g' & A & B & C & _ & E).
  split; [eauto|]. split; [exact B|]. split; [exact C|]. split; [apply skipWhitespace_frame|exact E].
Qed.

(* peek under the invariant *)
Lemma peek_ok l d e g : Inv l d e g ->
  peek l = (fst (decode (suf l)), with_width l (snd (decode (suf l)))).
Proof. intros HI. apply peek_spec. eapply Inv_line; eauto. Qed.
Lemma atEOL_ok l d e g : Inv l d e g ->
  atEOL l = ((fst (decode (suf l)) =? 10)%N || has_prefix crlf (suf l), with_width l (snd (decode (suf l)))).
Proof. intros HI. apply atEOL_spec. eapply Inv_line; eauto. Qed.

(* next followed by backup restores the text position *)
Lemma next_backup l d e g : Inv l d e g ->
  let l1 := snd (next l) in
  Inv l1 d e g /\ Inv (backup l1) d e g /\ pre (backup l1) = pre l /\ suf (backup l1) = suf l /\ out (backup l1) = out l /\
  frame l (backup l1) /\ start (backup l1) = start l /\ out l1 = out l /\ start l1 = start l /\ inp l1 = inp l /\
  (exists bs, suf l = bs ++ suf l1 /\ pre l1 = rev bs ++ pre l /\ length bs = snd (decode (suf l))).
Proof.
  intros HI l1. destruct (next_spec l) as (bs & N). pose proof (next_inv l d e g HI) as HI1. fold l1 in N, HI1.
  destruct N. destruct (backup_inv l1 d e g bs (pre l) HI1 nr_pre0 nr_len0 nr_hi0) as (HI2 & P2 & S2 & W2 & O2).
  pose proof (backup_frame l1) as [[Bi _] Bs].
  split; [exact HI1|]. split; [exact HI2|]. split; [exact P2|]. split; [rewrite S2, <- nr_suf0; reflexivity|].
  split; [congruence|]. split; [split; [congruence|lia]|]. split; [lia|]. split; [exact nr_out0|]. split; [exact nr_start0|]. split; [exact nr_inp0|].
  exists bs. rewrite nr_dec0. cbn. auto.
Qed.

Lemma next_fst l : fst (next l) = fst (decode (suf l)).
Proof. unfold next. destruct (decode (suf l)) as [r w]. destruct (fwd w (pre l) (suf l)). reflexivity. Qed.
