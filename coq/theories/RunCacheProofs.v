(* Proofs about the cache protocol (C01, C02, C09, C10, C14). *)
From Spok Require Import Base RunCache.
Open Scope nat_scope.

Section Proofs.
Variable D : Type.
Variable deqb : D -> D -> bool.
Variable dempty : D.
Variable digest : inputs -> D.
Hypothesis deqb_spec : forall a b, deqb a b = true <-> a = b.
Hypothesis digest_ne : forall F, digest F <> dempty.

Notation st := (st D).
Notation Good := (@Good D).
Notation iter := (iter D deqb dempty digest).
Notation run_loop := (run_loop D deqb dempty digest).
Notation run := (run D deqb dempty digest).
Notation apply_op := (apply_op D deqb dempty digest).

(* a recorded digest is the digest of the inputs of the task's last successful completion *)
Definition Inv (s : st) : Prop :=
  forall m, disk D s = Good m -> forall t, m t <> dempty -> exists F, last_ok D s t = Some F /\ m t = digest F.
(* conversely (crash-free histories only): a last success on a non-empty file set is recorded *)
Definition Inv2 (s : st) : Prop :=
  forall m, disk D s = Good m -> forall t F, last_ok D s t = Some F -> F <> [] -> m t = digest F.

Definition tr_ok (P : st -> Prop) (tr : trace D) : Prop := Forall (fun ls => P (snd ls)) tr.

Lemma deqb_false a b : deqb a b = false <-> a <> b.
Proof. rewrite <- deqb_spec. destruct (deqb a b); split; congruence. Qed.

Lemma last_state_app s tr1 tr2 : last_state D s (tr1 ++ tr2) = last_state D (last_state D s tr1) tr2.
Proof.
  unfold last_state. rewrite rev_app_distr. destruct (rev tr2) as [|[l x] r]; cbn [app]; [reflexivity|reflexivity].
Qed.
Lemma last_state_single s l x : last_state D s [(l, x)] = x. Proof. reflexivity. Qed.
Lemma last_state_cons s l x tr : last_state D s ((l, x) :: tr) = last_state D x tr.
Proof. change ((l, x) :: tr) with ([(l, x)] ++ tr). rewrite last_state_app. reflexivity. Qed.

Lemma tr_ok_app P a b : tr_ok P a -> tr_ok P b -> tr_ok P (a ++ b).
Proof. unfold tr_ok. intros. apply Forall_app. split; assumption. Qed.

Lemma Inv_good (s : st) m : disk D s = Good m ->
  (forall t, m t <> dempty -> exists F, last_ok D s t = Some F /\ m t = digest F) -> Inv s.
Proof. intros E H m' E'. rewrite E in E'. inversion E'; subst. exact H. Qed.
Lemma Inv_nogood (s : st) : (forall m, disk D s <> Good m) -> Inv s.
Proof. intros H m E. exfalso. eapply H; eauto. Qed.
Lemma Inv2_good (s : st) m : disk D s = Good m ->
  (forall t F, last_ok D s t = Some F -> F <> [] -> m t = digest F) -> Inv2 s.
Proof. intros E H m' E'. rewrite E in E'. inversion E'; subst. exact H. Qed.

Lemma is_nil_inputs_false (F : inputs) : is_nil_inputs F = false <-> F <> [].
Proof. destruct F; cbn; split; congruence. Qed.

Section Run.
Variable force : bool.
Variable b : name -> beh.

Ltac iter_split s t m :=
  unfold RunCache.iter;
  destruct (inputs_of (files D s) t) as [F|] eqn:EF;
  [destruct (negb (is_nil_inputs F) && negb force && negb (deqb (m (tname t)) dempty) && deqb (digest F) (m (tname t))) eqn:ESkip;
   [|destruct (negb (is_nil_inputs F)) eqn:EHas; destruct (deqb (m (tname t)) dempty) eqn:EC; cbn [orb negb andb];
     destruct (b (tname t)) eqn:EB]
  |].

Ltac eqb_cases x n :=
  unfold upd, set_ok, set_disk; cbn [disk files last_ok];
  destruct (Nat.eqb x n) eqn:?E; [apply Nat.eqb_eq in E; try subst x|apply Nat.eqb_neq in E].

(* one generic way to re-establish the invariant after touching the entry of a single task n *)
Lemma Inv_step (s s' : st) m m' n : Inv s -> disk D s = Good m -> disk D s' = Good m' ->
  (forall x, x <> n -> m' x = m x /\ last_ok D s' x = last_ok D s x) ->
  (m' n = dempty \/ (m' n = m n /\ last_ok D s' n = last_ok D s n) \/ (exists F, last_ok D s' n = Some F /\ m' n = digest F)) ->
  Inv s'.
Proof.
  intros HI E E' Hx Hn. eapply Inv_good; [exact E'|]. intros x Hne.
  destruct (Nat.eq_dec x n) as [->|Hd].
  - destruct Hn as [H|[[H1 H2]|H]]; [congruence| |exact H].
    rewrite H1, H2. apply (HI m E n). congruence.
  - destruct (Hx x Hd) as [H1 H2]. rewrite H1, H2. apply (HI m E x). congruence.
Qed.

Lemma Inv2_step (s s' : st) m m' n : Inv2 s -> disk D s = Good m -> disk D s' = Good m' ->
  (forall x, x <> n -> m' x = m x /\ last_ok D s' x = last_ok D s x) ->
  ((m' n = m n /\ last_ok D s' n = last_ok D s n) \/ (exists F, last_ok D s' n = Some F /\ (F <> [] -> m' n = digest F))) ->
  Inv2 s'.
Proof.
  intros HI E E' Hx Hn. eapply Inv2_good; [exact E'|]. intros x F HF Hne.
  destruct (Nat.eq_dec x n) as [->|Hd].
  - destruct Hn as [[H1 H2]|(F' & H1 & H2)].
    + rewrite H1. rewrite H2 in HF. apply (HI m E n F HF Hne).
    + rewrite H1 in HF. inversion HF; subst. auto.
  - destruct (Hx x Hd) as [H1 H2]. rewrite H1. rewrite H2 in HF. apply (HI m E x F HF Hne).
Qed.

Lemma skip_cond m t F : negb (is_nil_inputs F) && negb force && negb (deqb (m (tname t)) dempty) && deqb (digest F) (m (tname t)) = true <->
  F <> [] /\ force = false /\ m (tname t) = digest F.
Proof.
  rewrite !andb_true_iff, !negb_true_iff, is_nil_inputs_false, deqb_false, deqb_spec. split.
  - intros [[[A B] C] E]. auto.
  - intros (A & B & E). repeat split; auto. rewrite E. apply digest_ne.
Qed.

(* basic shape of a completed iteration *)
Lemma iter_shape m s t : disk D s = Good m ->
  match iter force b m s t with
  | IStop _ tr ex e => True
  | ICont _ tr ex r m' s' =>
    disk D s' = Good m' /\ files D s' = files D s /\ s' = last_state D s tr /\ r_task r = tname t /\
    (forall x, x <> tname t -> last_ok D s' x = last_ok D s x /\ m' x = m x)
  end.
Proof.
  intros Ed. iter_split s t m; cbn [app]; try exact I;
    (split; [first [exact Ed|reflexivity]|]); (split; [reflexivity|]); (split; [reflexivity|]); (split; [reflexivity|]);
    intros x Hx; eqb_cases x (tname t); try congruence; split; reflexivity.
Qed.

(* a skipped task: nothing happened, and only because the recorded digest matched *)
Lemma iter_skip m s t tr ex r m' s' : iter force b m s t = ICont _ tr ex r m' s' -> r_skipped r = true ->
  tr = [] /\ ex = [] /\ s' = s /\ m' = m /\ force = false /\
  exists F, inputs_of (files D s) t = Some F /\ F <> [] /\ m (tname t) = digest F.
Proof.
  iter_split s t m; intros H; inversion H; subst; cbn [r_skipped]; try discriminate. intros _.
  apply skip_cond in ESkip. destruct ESkip as (A & B & C). repeat split; auto. exists F. auto.
Qed.

(* a skip needs a non-empty input set: tasks without any (matching) file dependency always run *)
Lemma skip_needs_inputs m s t tr ex r m' s' : iter force b m s t = ICont _ tr ex r m' s' -> r_skipped r = true ->
  exists F, inputs_of (files _ s) t = Some F /\ F <> [].
Proof.
  intros E Sk. destruct (iter_skip m s t tr ex r m' s' E Sk) as (_ & _ & _ & _ & _ & F & A & B & _).
  exact (ex_intro _ F (conj A B)).
Qed.

(* a task that ran *)
Lemma iter_ran m s t tr ex r m' s' : iter force b m s t = ICont _ tr ex r m' s' -> r_skipped r = false ->
  ex = [tname t] /\
  (b (tname t) = BSucc -> exists F, inputs_of (files D s) t = Some F /\ last_ok D s' (tname t) = Some F) /\
  (b (tname t) <> BSucc -> last_ok D s' (tname t) = last_ok D s (tname t)).
Proof.
  iter_split s t m; intros H; inversion H; subst; cbn [r_skipped]; try discriminate; intros _;
    (split; [reflexivity|]); split; intros X; try congruence;
    try (exists F; split; [reflexivity|]; unfold set_ok, set_disk; cbn [last_ok]; rewrite Nat.eqb_refl; reflexivity);
    try reflexivity.
Qed.

(* when the recorded digest matches and --force is off, the task is skipped *)
Lemma iter_mustskip m s t F : force = false -> inputs_of (files D s) t = Some F -> F <> [] -> m (tname t) = digest F ->
  iter force b m s t = ICont _ [] [] {| r_task := tname t; r_skipped := true |} m s.
Proof.
  intros Hf HF Hne Hm. unfold RunCache.iter. rewrite HF.
  assert (X : negb (is_nil_inputs F) && negb force && negb (deqb (m (tname t)) dempty) && deqb (digest F) (m (tname t)) = true)
    by (apply skip_cond; auto).
  rewrite X. reflexivity.
Qed.

Lemma iter_force m s t tr ex r m' s' : force = true -> iter force b m s t = ICont _ tr ex r m' s' -> r_skipped r = false.
Proof.
  intros Hf. iter_split s t m; intros H; inversion H; cbn [r_skipped]; try reflexivity.
  apply skip_cond in ESkip. destruct ESkip as (_ & B & _). congruence.
Qed.

Lemma iter_exec_names m s t : match iter force b m s t with
  | IStop _ _ ex _ | ICont _ _ ex _ _ _ => ex = [] \/ ex = [tname t] end.
Proof. iter_split s t m; auto. Qed.

Lemma last_state_ok (P : st -> Prop) s tr : tr_ok P tr -> P s -> P (last_state D s tr).
Proof.
  intros H Hs. unfold last_state. destruct (rev tr) as [|[l x] r] eqn:E; [exact Hs|].
  unfold tr_ok in H. rewrite Forall_forall in H. apply (H (l, x)). apply in_rev. rewrite E. left. reflexivity.
Qed.

(* every micro-step of an iteration keeps the invariant *)
Lemma iter_inv_tr m s t : disk D s = Good m -> Inv s ->
  match iter force b m s t with
  | IStop _ tr ex e => tr_ok Inv tr
  | ICont _ tr ex r m' s' => tr_ok Inv tr
  end.
Proof.
  intros Ed HI.
  assert (NG : forall s0 : st, Inv (set_disk D s0 (Corrupt D))) by (intros s0; apply Inv_nogood; intros m0 E0; discriminate).
  assert (Step : forall s' m', disk D s' = Good m' ->
            (forall x, x <> tname t -> m' x = m x /\ last_ok D s' x = last_ok D s x) ->
            (m' (tname t) = dempty \/ (m' (tname t) = m (tname t) /\ last_ok D s' (tname t) = last_ok D s (tname t)) \/
             (exists F, last_ok D s' (tname t) = Some F /\ m' (tname t) = digest F)) -> Inv s')
    by (intros; eapply Inv_step; eauto).
  iter_split s t m; cbn [app]; unfold tr_ok, write; repeat (first [apply Forall_nil | apply Forall_cons]); cbn [snd];
    try apply NG; try exact HI; try (apply deqb_spec in EC);
    (eapply Step; [first [reflexivity|exact Ed]| |];
     [intros x Hx; eqb_cases x (tname t); try congruence; split; reflexivity
     |unfold upd, set_ok, set_disk; cbn [disk files last_ok]; rewrite ?Nat.eqb_refl;
      first [left; reflexivity | left; exact EC | right; left; split; reflexivity | right; right; eexists; split; reflexivity]]).
Qed.

Lemma iter_inv m s t tr ex r m' s' : disk D s = Good m -> Inv s -> iter force b m s t = ICont _ tr ex r m' s' ->
  tr_ok Inv tr /\ Inv s'.
Proof.
  intros Ed HI E. pose proof (iter_inv_tr m s t Ed HI) as T. pose proof (iter_shape m s t Ed) as Sh. rewrite E in T, Sh.
  split; [exact T|]. destruct Sh as (_ & _ & -> & _). apply last_state_ok; assumption.
Qed.

(* crash-free: the converse invariant is kept as well *)
Lemma iter_inv2 m s t tr ex r m' s' : disk D s = Good m -> Inv2 s -> iter force b m s t = ICont _ tr ex r m' s' -> Inv2 s'.
Proof.
  intros Ed HI.
  assert (Step : forall s' m', disk D s' = Good m' ->
            (forall x, x <> tname t -> m' x = m x /\ last_ok D s' x = last_ok D s x) ->
            ((m' (tname t) = m (tname t) /\ last_ok D s' (tname t) = last_ok D s (tname t)) \/
             (exists F, last_ok D s' (tname t) = Some F /\ (F <> [] -> m' (tname t) = digest F))) -> Inv2 s')
    by (intros; eapply Inv2_step; eauto).
  iter_split s t m; intros H; inversion H; subst; try exact HI;
    try (apply negb_false_iff in EHas; destruct F; [|discriminate]);
    (eapply Step; [first [reflexivity|exact Ed]| |];
     [intros x Hx; eqb_cases x (tname t); try congruence; split; reflexivity
     |unfold upd, set_ok, set_disk; cbn [disk files last_ok]; rewrite ?Nat.eqb_refl;
      first [left; split; reflexivity | right; eexists; split; [reflexivity|intros; try reflexivity; congruence]]]).
Qed.


Lemma iter_stop_shape m s t tr ex e : disk D s = Good m -> iter force b m s t = IStop _ tr ex e ->
  files D (last_state D s tr) = files D s /\ (exists mf, disk D (last_state D s tr) = Good mf) /\
  (forall x, last_ok D (last_state D s tr) x = last_ok D s x).
Proof.
  intros Ed. iter_split s t m; intros H; inversion H; subst; cbn [app]; unfold write, last_state; cbn [rev app];
    (split; [reflexivity|split; [eexists; first [exact Ed|reflexivity]|intros x; reflexivity]]).
Qed.

(* an aborted iteration (hash error, runner error) also keeps the converse invariant *)
Lemma iter_inv2_stop m s t tr ex e : disk D s = Good m -> Inv2 s -> iter force b m s t = IStop _ tr ex e ->
  Inv2 (last_state D s tr) /\ files D (last_state D s tr) = files D s /\ (exists mf, disk D (last_state D s tr) = Good mf) /\
  (forall x, last_ok D (last_state D s tr) x = last_ok D s x).
Proof.
  intros Ed HI.
  assert (Step : forall s' m', disk D s' = Good m' ->
            (forall x, x <> tname t -> m' x = m x /\ last_ok D s' x = last_ok D s x) ->
            ((m' (tname t) = m (tname t) /\ last_ok D s' (tname t) = last_ok D s (tname t)) \/
             (exists F, last_ok D s' (tname t) = Some F /\ (F <> [] -> m' (tname t) = digest F))) -> Inv2 s')
    by (intros; eapply Inv2_step; eauto).
  iter_split s t m; intros H; inversion H; subst; cbn [app]; unfold write, last_state; cbn [rev app];
    (split; [|split; [reflexivity|split; [eexists; first [exact Ed|reflexivity]|intros x; reflexivity]]]); try exact HI;
    (eapply Step; [first [reflexivity|exact Ed]| |];
     [intros x Hx; eqb_cases x (tname t); try congruence; split; reflexivity
     |unfold upd, set_ok, set_disk; cbn [disk files last_ok]; rewrite ?Nat.eqb_refl; left; split; reflexivity]).
Qed.

(* ---------- the whole loop ---------- *)
Definition final (s : st) (R : runres D) : st := last_state D s (rr_trace D R).
Definition skipped_res (t : task) : result := {| r_task := tname t; r_skipped := true |}.

(* t's recorded last success was on (a file set with the digest of) its current inputs *)
Definition uptodate (s : st) (t : task) : Prop :=
  exists F F', inputs_of (files D s) t = Some F' /\ last_ok D s (tname t) = Some F /\ digest F = digest F'.

Lemma out_wrap tr ex r (x : runres D) :
  rr_out D (prepend D tr ex (cons_res D r x)) = match rr_out D x with RunOk rs => RunOk (r :: rs) | e => e end.
Proof. reflexivity. Qed.
Lemma trace_wrap tr ex r (x : runres D) : rr_trace D (prepend D tr ex (cons_res D r x)) = tr ++ rr_trace D x.
Proof. reflexivity. Qed.
Lemma exec_wrap tr ex r (x : runres D) : rr_exec D (prepend D tr ex (cons_res D r x)) = ex ++ rr_exec D x.
Proof. reflexivity. Qed.

Lemma loop_inv : forall order m s, disk D s = Good m -> Inv s -> tr_ok Inv (rr_trace D (run_loop force b m s order)).
Proof.
  induction order as [|t rest IH]; intros m s Ed HI; cbn [RunCache.run_loop]; [constructor|].
  pose proof (iter_inv_tr m s t Ed HI) as T. pose proof (iter_shape m s t Ed) as Sh.
  destruct (iter force b m s t) as [tr ex e|tr ex r m' s'] eqn:E; cbn [rr_trace]; [exact T|].
  rewrite trace_wrap. apply tr_ok_app; [exact T|].
  destruct Sh as (Ed' & _). apply IH; [exact Ed'|]. apply (iter_inv m s t tr ex r m' s' Ed HI E).
Qed.

Record loop_facts (s : st) (order : list task) (R : runres D) : Prop := {
  lf_files : files D (final s R) = files D s;
  lf_disk : exists mf, disk D (final s R) = Good mf;
  lf_other : forall x, ~ In x (map tname order) -> last_ok D (final s R) x = last_ok D s x;
  lf_exec : forall n, In n (rr_exec D R) -> In n (map tname order);
  lf_res : forall rs, rr_out D R = RunOk rs -> map r_task rs = map tname order
}.

Lemma loop_shape : forall order m s, disk D s = Good m -> loop_facts s order (run_loop force b m s order).
Proof.
  induction order as [|t rest IH]; intros m s Ed; cbn [RunCache.run_loop].
  - constructor; unfold final, last_state; cbn [rr_trace rr_exec rr_out rev map].
    + reflexivity.
    + eauto.
    + reflexivity.
    + intros n [].
    + intros rs H. inversion H. reflexivity.
  - pose proof (iter_shape m s t Ed) as Sh. pose proof (iter_exec_names m s t) as Ex.
    destruct (iter force b m s t) as [tr ex e|tr ex r m' s'] eqn:E.
    + destruct (iter_stop_shape m s t tr ex e Ed E) as (S1 & S2 & S3).
      constructor; unfold final; cbn [rr_trace rr_exec rr_out].
      * exact S1.
      * exact S2.
      * intros x _. apply S3.
      * intros n Hn. destruct Ex as [-> | ->]; [contradiction|]. destruct Hn as [<-|[]]. left. reflexivity.
      * intros rs H. discriminate.
    + destruct Sh as (Ed' & Hf & Hl & Hn & Ho). specialize (IH m' s' Ed'). destruct IH as [A B C Dd Ee].
      constructor; unfold final in *; rewrite ?trace_wrap, ?exec_wrap, ?out_wrap, ?last_state_app, <- ?Hl.
      * congruence.
      * exact B.
      * intros x Hx. cbn [map In] in Hx. rewrite C by tauto. apply Ho. intros ->. apply Hx. left. reflexivity.
      * intros n Hin. apply in_app_or in Hin. cbn [map In]. destruct Hin as [Hin|Hin]; [|right; apply Dd; exact Hin].
        destruct Ex as [-> | ->]; [contradiction|]. destruct Hin as [<-|[]]. left. reflexivity.
      * intros rs H. destruct (rr_out D (run_loop force b m' s' rest)) as [rs'|e]; [|discriminate].
        inversion H; subst. cbn [map]. rewrite Hn. f_equal. apply Ee. reflexivity.
Qed.

(* C01 / C10 core: whatever is reported skipped is up to date, from any state satisfying the invariant *)
Lemma loop_skip_sound : forall order m s, NoDup (map tname order) -> disk D s = Good m -> Inv s ->
  let R := run_loop force b m s order in
  forall rs, rr_out D R = RunOk rs -> forall t, In t order -> In (skipped_res t) rs -> uptodate (final s R) t.
Proof.
  induction order as [|t0 rest IH]; intros m s ND Ed HI R rs Hout t Hin Hsk; [contradiction|].
  subst R. cbn [RunCache.run_loop] in *.
  pose proof (iter_shape m s t0 Ed) as Sh.
  destruct (iter force b m s t0) as [tr ex e|tr ex r m' s'] eqn:E; [discriminate|].
  destruct Sh as (Ed' & Hf & Hl & Hn & Ho).
  destruct (iter_inv m s t0 tr ex r m' s' Ed HI E) as [_ HI'].
  cbn [map] in ND. apply NoDup_cons_iff in ND. destruct ND as [Nin ND'].
  pose proof (loop_shape rest m' s' Ed') as [A B C Dd Ee].
  rewrite out_wrap in Hout. destruct (rr_out D (run_loop force b m' s' rest)) as [rs'|e] eqn:Eo; [|discriminate].
  inversion Hout; subst rs. clear Hout.
  unfold final in *. rewrite trace_wrap, last_state_app, <- Hl.
  assert (NameIn : forall t', In (skipped_res t') rs' -> In (tname t') (map tname rest)).
  { intros t' H. rewrite <- (Ee rs' eq_refl). apply (in_map r_task) in H. exact H. }
  destruct Hin as [<-|Hin].
  - (* the head task *)
    destruct Hsk as [Hsk|Hsk]; [|exfalso; apply Nin; apply NameIn; exact Hsk].
    assert (Sk : r_skipped r = true) by (rewrite Hsk; reflexivity).
    destruct (iter_skip m s t0 tr ex r m' s' E Sk) as (-> & -> & -> & -> & _ & F & HF & Hne & Hm).
    destruct (HI m Ed (tname t0)) as (F0 & L0 & D0); [rewrite Hm; apply digest_ne|].
    exists F0, F. rewrite A, (C (tname t0) Nin). repeat split; auto. congruence.
  - (* a later task *)
    destruct Hsk as [Hsk|Hsk].
    + exfalso. apply Nin. rewrite Hsk in Hn. cbn [skipped_res r_task] in Hn. rewrite <- Hn.
      apply in_map. exact Hin.
    + apply (IH m' s' ND' Ed' HI' rs' Eo t Hin Hsk).
Qed.

(* C02 core: a task whose last success was on exactly its current, non-empty inputs is skipped, whatever else is in the run *)
Lemma loop_skip_complete : forall order m s, NoDup (map tname order) -> disk D s = Good m -> Inv2 s -> force = false ->
  forall t F, In t order -> inputs_of (files D s) t = Some F -> F <> [] -> last_ok D s (tname t) = Some F ->
  let R := run_loop force b m s order in
  ~ In (tname t) (rr_exec D R) /\ (forall rs, rr_out D R = RunOk rs -> In (skipped_res t) rs).
Proof.
  induction order as [|t0 rest IH]; intros m s ND Ed HI Hf t F Hin HF Hne HL R; [contradiction|].
  subst R. cbn [RunCache.run_loop]. cbn [map] in ND. apply NoDup_cons_iff in ND. destruct ND as [Nin ND'].
  destruct Hin as [<-|Hin].
  - (* this is the task: the recorded digest matches *)
    assert (Hm : m (tname t0) = digest F) by (apply (HI m Ed (tname t0) F HL Hne)).
    rewrite (iter_mustskip m s t0 F Hf HF Hne Hm).
    pose proof (loop_shape rest m s Ed) as [A B C Dd Ee].
    rewrite exec_wrap, out_wrap. cbn [app]. split.
    + intros H. apply Nin. apply Dd. exact H.
    + intros rs H. destruct (rr_out D (run_loop force b m s rest)); [|discriminate]. inversion H. left. reflexivity.
  - (* it comes later: the iterations before it do not disturb what is recorded for it *)
    assert (Hneq : tname t <> tname t0) by (intros E; apply Nin; rewrite <- E; apply in_map; exact Hin).
    pose proof (iter_shape m s t0 Ed) as Sh. pose proof (iter_exec_names m s t0) as Ex.
    destruct (iter force b m s t0) as [tr ex e|tr ex r m' s'] eqn:E.
    + cbn [rr_exec rr_out]. split; [|intros rs H; discriminate].
      destruct Ex as [-> | ->]; [intros []|]. intros [H|[]]. congruence.
    + destruct Sh as (Ed' & Hfl & Hl & Hn & Ho).
      pose proof (iter_inv2 m s t0 tr ex r m' s' Ed HI E) as HI'.
      assert (HF' : inputs_of (files D s') t = Some F) by (rewrite Hfl; exact HF).
      assert (HL' : last_ok D s' (tname t) = Some F) by (rewrite (proj1 (Ho (tname t) Hneq)); exact HL).
      destruct (IH m' s' ND' Ed' HI' Hf t F Hin HF' Hne HL') as [X Y].
      rewrite exec_wrap, out_wrap. split.
      * intros H. apply in_app_or in H. destruct H as [H|H]; [|contradiction].
        destruct Ex as [-> | ->]; [contradiction|]. destruct H as [H|[]]. congruence.
      * intros rs H. destruct (rr_out D (run_loop force b m' s' rest)) as [rs'|e]; [|discriminate].
        inversion H. right. apply Y. reflexivity.
Qed.

(* crash-free: the converse invariant holds at the end of every run, completed or aborted *)
Lemma loop_inv2 : forall order m s, disk D s = Good m -> Inv2 s -> Inv2 (final s (run_loop force b m s order)).
Proof.
  induction order as [|t rest IH]; intros m s Ed HI; cbn [RunCache.run_loop]; [exact HI|].
  pose proof (iter_shape m s t Ed) as Sh.
  destruct (iter force b m s t) as [tr ex e|tr ex r m' s'] eqn:E.
  - unfold final. cbn [rr_trace]. apply (iter_inv2_stop m s t tr ex e Ed HI E).
  - destruct Sh as (Ed' & _ & Hl & _). unfold final. rewrite trace_wrap, last_state_app, <- Hl.
    apply IH; [exact Ed'|]. apply (iter_inv2 m s t tr ex r m' s' Ed HI E).
Qed.

(* C14 core: with --force nothing is skipped and everything is executed *)
Lemma loop_force : force = true -> forall order m s, disk D s = Good m ->
  forall rs, rr_out D (run_loop force b m s order) = RunOk rs ->
  (forall r, In r rs -> r_skipped r = false) /\ rr_exec D (run_loop force b m s order) = map tname order.
Proof.
  intros Hf. induction order as [|t rest IH]; intros m s Ed rs H; cbn [RunCache.run_loop] in *.
  - inversion H. split; [intros r []|reflexivity].
  - pose proof (iter_shape m s t Ed) as Sh.
    destruct (iter force b m s t) as [tr ex e|tr ex r m' s'] eqn:E; [discriminate|].
    destruct Sh as (Ed' & _). rewrite out_wrap in H. rewrite exec_wrap.
    destruct (rr_out D (run_loop force b m' s' rest)) as [rs'|e] eqn:Eo; [|discriminate]. inversion H; subst rs.
    destruct (IH m' s' Ed' rs' Eo) as [X Y]. pose proof (iter_force m s t tr ex r m' s' Hf E) as Rn.
    destruct (iter_ran m s t tr ex r m' s' E Rn) as (-> & _). split.
    + intros r0 [<-|H0]; [exact Rn|apply X; exact H0].
    + cbn [app map]. rewrite Y. reflexivity.
Qed.

(* C09 core: a task whose commands did not all succeed leaves its "last success" record untouched *)
Lemma loop_fail_keeps : forall order m s, NoDup (map tname order) -> disk D s = Good m ->
  forall t, In t order -> b (tname t) <> BSucc ->
  last_ok D (final s (run_loop force b m s order)) (tname t) = last_ok D s (tname t).
Proof.
  induction order as [|t0 rest IH]; intros m s ND Ed t Hin Hb; [contradiction|].
  cbn [RunCache.run_loop]. cbn [map] in ND. apply NoDup_cons_iff in ND. destruct ND as [Nin ND'].
  pose proof (iter_shape m s t0 Ed) as Sh.
  destruct (iter force b m s t0) as [tr ex e|tr ex r m' s'] eqn:E.
  - unfold final. cbn [rr_trace]. destruct (iter_stop_shape m s t0 tr ex e Ed E) as (_ & _ & S3). apply S3.
  - destruct Sh as (Ed' & Hfl & Hl & Hn & Ho). unfold final. rewrite trace_wrap, last_state_app, <- Hl.
    pose proof (loop_shape rest m' s' Ed') as [A B C Dd Ee]. unfold final in C.
    destruct Hin as [<-|Hin].
    + rewrite (C (tname t0) Nin).
      destruct (r_skipped r) eqn:Sk.
      * destruct (iter_skip m s t0 tr ex r m' s' E Sk) as (_ & _ & -> & _). reflexivity.
      * destruct (iter_ran m s t0 tr ex r m' s' E Sk) as (_ & _ & K). apply K. exact Hb.
    + assert (Hneq : tname t <> tname t0) by (intros E'; apply Nin; rewrite <- E'; apply in_map; exact Hin).
      fold (final s' (run_loop force b m' s' rest)). rewrite (IH m' s' ND' Ed' t Hin Hb). apply Ho. exact Hneq.
Qed.

(* the tasks whose commands were started are exactly the ones reported as not skipped, in the same order *)
Lemma iter_exec_res m s t tr ex r m' s' : iter force b m s t = ICont _ tr ex r m' s' ->
  (ex = [] /\ r_skipped r = true) \/ (ex = [tname t] /\ r = {| r_task := tname t; r_skipped := false |}).
Proof. iter_split s t m; intros H; inversion H; subst; auto. Qed.

Lemma loop_exec_results : forall order m s rs, rr_out D (run_loop force b m s order) = RunOk rs ->
  rr_exec D (run_loop force b m s order) = map r_task (filter (fun r => negb (r_skipped r)) rs).
Proof.
  induction order as [|t rest IH]; intros m s rs H; cbn [RunCache.run_loop] in *.
  - inversion H. reflexivity.
  - destruct (iter force b m s t) as [tr ex e|tr ex r m' s'] eqn:E; [discriminate|].
    rewrite out_wrap in H. rewrite exec_wrap.
    destruct (rr_out D (run_loop force b m' s' rest)) as [rs'|e] eqn:Eo; [|discriminate]. inversion H; subst rs.
    rewrite (IH m' s' rs' Eo). cbn [filter].
    destruct (iter_exec_res m s t tr ex r m' s' E) as [[-> Sk]|[-> ->]].
    + rewrite Sk. reflexivity.
    + reflexivity.
Qed.

(* ---- C18 at the level of a run: a selected task one of whose dependencies cannot be read ---- *)
Lemma iter_unreadable m s t : inputs_of (files D s) t = None -> iter force b m s t = IStop _ [] [] HashFailed.
Proof. intros H. unfold RunCache.iter. rewrite H. reflexivity. Qed.

Lemma iter_stop_exec m s t tr ex e : iter force b m s t = IStop _ tr ex e -> ex = [] \/ ex = [tname t].
Proof. iter_split s t m; intros H; inversion H; subst; auto. Qed.

Lemma loop_unreadable : forall order m s, disk D s = Good m ->
  forall t, In t order -> inputs_of (files D s) t = None ->
  (exists e, rr_out D (run_loop force b m s order) = RunErr e) /\
  (NoDup (map tname order) -> ~ In (tname t) (rr_exec D (run_loop force b m s order))).
Proof.
  induction order as [|t0 rest IH]; intros m s Ed t Hin Hn; [destruct Hin|].
  cbn [RunCache.run_loop]. destruct Hin as [<-|Hin].
  - rewrite (iter_unreadable m s t0 Hn). cbn [rr_out rr_exec]. split; [eexists; reflexivity|]. intros _ [].
  - destruct (iter force b m s t0) as [tr ex e|tr ex r m' s'] eqn:E.
    + cbn [rr_out rr_exec]. split; [eexists; reflexivity|]. intros ND Hx. cbn [map] in ND. inversion ND as [|? ? Nin _]; subst.
      destruct (iter_stop_exec m s t0 tr ex e E) as [->| ->]; [destruct Hx|].
      destruct Hx as [Hx|[]]. apply Nin. rewrite Hx. apply in_map. exact Hin.
    + pose proof (iter_shape m s t0 Ed) as Sh. rewrite E in Sh. destruct Sh as (Ed' & Ef & _).
      rewrite <- Ef in Hn. destruct (IH m' s' Ed' t Hin Hn) as ((e & He) & Hex).
      rewrite out_wrap, exec_wrap. rewrite He. split; [eexists; reflexivity|].
      intros ND Hx. cbn [map] in ND. inversion ND as [|? ? Nin ND']; subst. apply in_app_or in Hx. destruct Hx as [Hx|Hx].
      * destruct (iter_exec_res m s t0 tr ex r m' s' E) as [[-> _]|[-> _]]; [destruct Hx|].
        destruct Hx as [Hx|[]]. apply Nin. rewrite Hx. apply in_map. exact Hin.
      * exact (Hex ND' Hx).
Qed.

End Run.

(* ---------- a whole invocation, and histories of invocations ---------- *)

(* SpokFile.run = (cache error) or (the loop started from a state whose disk holds the loaded / freshly initialised cache) *)
Lemma run_decomp force b (s : st) order :
  (disk D s = Corrupt D /\ run force b s order = {| rr_trace := []; rr_exec := []; rr_out := RunErr CacheError |}) \/
  exists m0 s0 pre,
    disk D s0 = Good m0 /\ files D s0 = files D s /\ last_ok D s0 = last_ok D s /\
    (Inv s -> tr_ok Inv pre /\ Inv s0) /\
    ((disk D s = Missing D -> forall t, last_ok D s t = None) -> Inv2 s -> Inv2 s0) /\
    s0 = last_state D s pre /\
    rr_trace D (run force b s order) = pre ++ rr_trace D (run_loop force b m0 s0 order) /\
    rr_exec D (run force b s order) = rr_exec D (run_loop force b m0 s0 order) /\
    rr_out D (run force b s order) = rr_out D (run_loop force b m0 s0 order).
Proof.
  unfold RunCache.run. destruct (disk D s) as [| |m] eqn:Ed.
  - right. exists (fun _ => dempty), (set_disk D s (Good (fun _ => dempty))), (write D s (fun _ => dempty) LInitTorn LInitDone).
    repeat split; try reflexivity.
    + unfold tr_ok, write. repeat constructor; cbn [snd].
      * apply Inv_nogood. intros m0 E0. discriminate.
      * eapply Inv_good; [reflexivity|]. intros t Ht. exfalso. apply Ht. reflexivity.
    + eapply Inv_good; [reflexivity|]. intros t Ht. exfalso. apply Ht. reflexivity.
    + intros HM _. eapply Inv2_good; [reflexivity|]. intros t F HF. cbn [set_disk last_ok] in HF. rewrite (HM eq_refl t) in HF. discriminate.
  - left. split; reflexivity.
  - right. exists m, s, []. repeat split; auto. constructor.
Qed.

Lemma firstn_ok (P : st -> Prop) k tr : tr_ok P tr -> tr_ok P (firstn k tr).
Proof.
  unfold tr_ok. revert k. induction tr as [|x tr IH]; intros [|k] H; cbn [firstn]; try constructor.
  - inversion H; assumption.
  - apply IH. inversion H; assumption.
Qed.

Lemma run_inv force b s order : Inv s -> tr_ok Inv (rr_trace D (run force b s order)).
Proof.
  intros HI. destruct (run_decomp force b s order) as [[_ ->]|(m0 & s0 & pre & Ed & _ & _ & H & _ & _ & -> & _)]; [constructor|].
  destruct (H HI) as [A B]. apply tr_ok_app; [exact A|]. apply loop_inv; assumption.
Qed.

(* C10 (and the basis of C01): the invariant holds after every operation, including a kill after any number of micro-steps
   and a cache file cut short *)
Lemma apply_op_inv o s : Inv s -> Inv (apply_op s o).
Proof.
  intros HI. destruct o as [p c| | |f b order|f b order k]; cbn [RunCache.apply_op].
  - intros m E. exact (HI m E).
  - apply Inv_nogood. intros m E. discriminate.
  - destruct (disk D s) eqn:E; [exact HI|apply Inv_nogood; intros m E'; discriminate|apply Inv_nogood; intros m' E'; discriminate].
  - apply last_state_ok; [apply run_inv; exact HI|exact HI].
  - apply last_state_ok; [apply firstn_ok, run_inv; exact HI|exact HI].
Qed.

Definition history_state (fs : path -> option content) (ops : list op) : st := fold_left apply_op ops (init_st D fs).

Theorem reachable_inv fs ops : Inv (history_state fs ops).
Proof.
  unfold history_state. assert (H0 : Inv (init_st D fs)) by (apply Inv_nogood; intros m E; discriminate).
  revert H0. generalize (init_st D fs). induction ops as [|o ops IH]; intros s H; cbn [fold_left]; [exact H|].
  apply IH. apply apply_op_inv. exact H.
Qed.

(* ---- C01 / C10 ---- *)
Theorem skip_sound force b (s : st) order : Inv s -> NoDup (map tname order) ->
  let R := run force b s order in
  forall rs, rr_out D R = RunOk rs -> forall t, In t order -> In (skipped_res t) rs -> uptodate (final s R) t.
Proof.
  intros HI ND R rs Hout t Hin Hsk. subst R.
  destruct (run_decomp force b s order) as [[_ E]|(m0 & s0 & pre & Ed & Hf & Hl & H & _ & Hs0 & Et & _ & Eo)].
  - rewrite E in Hout. discriminate.
  - unfold final. rewrite Et, last_state_app, <- Hs0. rewrite Eo in Hout.
    destruct (H HI) as [_ HI0]. apply (loop_skip_sound force b order m0 s0 ND Ed HI0 rs Hout t Hin Hsk).
Qed.

Theorem corrupt_cache_is_an_error force b (s : st) order : disk D s = Corrupt D ->
  run force b s order = {| rr_trace := []; rr_exec := []; rr_out := RunErr CacheError |}.
Proof. intros E. unfold RunCache.run. rewrite E. reflexivity. Qed.

(* ---- C02: crash-free histories ---- *)
Definition crash_free (o : op) : Prop := match o with CrashOp _ _ _ _ | TearCache => False | _ => True end.
Definition Inv2' (s : st) : Prop :=
  (disk D s = Missing D -> forall t, last_ok D s t = None) /\ Inv2 s /\ disk D s <> Corrupt D.

Lemma run_final_inv2 force b s order : Inv2' s -> Inv2' (final s (run force b s order)).
Proof.
  intros (HM & HI & HC).
  destruct (run_decomp force b s order) as [[E _]|(m0 & s0 & pre & Ed & Hf & Hl & _ & H2 & Hs0 & Et & _ & _)]; [contradiction|].
  unfold final. rewrite Et, last_state_app, <- Hs0.
  pose proof (loop_inv2 force b order m0 s0 Ed (H2 HM HI)) as X.
  pose proof (loop_shape force b order m0 s0 Ed) as [_ (mf & B) _ _ _]. unfold final in *.
  split; [intros E; rewrite B in E; discriminate|]. split; [exact X|]. rewrite B. discriminate.
Qed.

Lemma apply_op_inv2 o s : crash_free o -> Inv2' s -> Inv2' (apply_op s o).
Proof.
  intros CF H. destruct o as [p c| | |f b order|f b order k]; cbn [crash_free] in CF; try contradiction; cbn [RunCache.apply_op].
  - destruct H as (A & B & C). split; [exact A|]. split; [intros m E; exact (B m E)|exact C].
  - split; [intros _ t; reflexivity|]. split; [intros m E; discriminate|discriminate].
  - apply run_final_inv2. exact H.
Qed.

Theorem reachable_inv2 fs ops : Forall crash_free ops -> Inv2' (history_state fs ops).
Proof.
  unfold history_state.
  assert (H0 : Inv2' (init_st D fs)) by (split; [intros _ t; reflexivity|split; [intros m E; discriminate|discriminate]]).
  revert H0. generalize (init_st D fs). induction ops as [|o ops IH]; intros s H CF; cbn [fold_left]; [exact H|].
  inversion CF; subst. apply IH; [apply apply_op_inv2; assumption|assumption].
Qed.

Theorem skip_complete b (s : st) order : Inv2' s -> NoDup (map tname order) ->
  forall t F, In t order -> inputs_of (files D s) t = Some F -> F <> [] -> last_ok D s (tname t) = Some F ->
  let R := run false b s order in
  ~ In (tname t) (rr_exec D R) /\ (forall rs, rr_out D R = RunOk rs -> In (skipped_res t) rs).
Proof.
  intros (HM & HI & HC) ND t F Hin HF Hne HL R. subst R.
  destruct (run_decomp false b s order) as [[E _]|(m0 & s0 & pre & Ed & Hf & Hl & _ & H2 & _ & _ & Ee & Eo)]; [contradiction|].
  rewrite Ee, Eo. apply (loop_skip_complete false b order m0 s0 ND Ed (H2 HM HI) eq_refl t F Hin); [rewrite Hf; exact HF|exact Hne|rewrite Hl; exact HL].
Qed.

(* ---- C14 ---- *)
Theorem force_runs_everything b (s : st) order :
  forall rs, rr_out D (run true b s order) = RunOk rs ->
  (forall r, In r rs -> r_skipped r = false) /\ rr_exec D (run true b s order) = map tname order.
Proof.
  intros rs Hout.
  destruct (run_decomp true b s order) as [[_ E]|(m0 & s0 & pre & Ed & _ & _ & _ & _ & _ & _ & Ee & Eo)].
  - rewrite E in Hout. discriminate.
  - rewrite Ee. rewrite Eo in Hout. apply (loop_force true b eq_refl order m0 s0 Ed rs Hout).
Qed.

(* ---- C09 (cache half) ---- *)
Theorem failure_not_recorded force b (s : st) order : NoDup (map tname order) ->
  forall t, In t order -> b (tname t) <> BSucc ->
  last_ok D (final s (run force b s order)) (tname t) = last_ok D s (tname t).
Proof.
  intros ND t Hin Hb.
  destruct (run_decomp force b s order) as [[_ E]|(m0 & s0 & pre & Ed & _ & Hl & _ & _ & Hs0 & Et & _ & _)].
  - rewrite E. reflexivity.
  - unfold final. rewrite Et, last_state_app, <- Hs0. rewrite <- Hl.
    apply (loop_fail_keeps force b order m0 s0 ND Ed t Hin Hb).
Qed.

(* a run that reports results reports exactly one per selected task, in run order, and the executed tasks are the non-skipped ones *)
Theorem run_results_names force b (s : st) order rs : rr_out D (run force b s order) = RunOk rs ->
  map r_task rs = map tname order.
Proof.
  intros Hout.
  destruct (run_decomp force b s order) as [[_ E]|(m0 & s0 & pre & Ed & _ & _ & _ & _ & _ & _ & _ & Eo)].
  - rewrite E in Hout. discriminate.
  - rewrite Eo in Hout. destruct (loop_shape force b order m0 s0 Ed) as [_ _ _ _ Ee]. apply Ee. exact Hout.
Qed.

Theorem executed_are_the_unskipped force b (s : st) order rs : rr_out D (run force b s order) = RunOk rs ->
  rr_exec D (run force b s order) = map r_task (filter (fun r => negb (r_skipped r)) rs).
Proof.
  intros Hout.
  destruct (run_decomp force b s order) as [[_ E]|(m0 & s0 & pre & _ & _ & _ & _ & _ & _ & _ & Ee & Eo)].
  - rewrite E in Hout. discriminate.
  - rewrite Ee. rewrite Eo in Hout. apply loop_exec_results. exact Hout.
Qed.

(* C18, where it meets the run: if a selected task names a file that cannot be read, the run - forced or not, whatever the
   cache holds, whatever the other tasks do - ends with an error, and none of that task's commands is started *)
Theorem unreadable_dependency_stops_the_run force b (s : st) order t :
  In t order -> inputs_of (files D s) t = None ->
  (exists e, rr_out D (run force b s order) = RunErr e) /\
  (NoDup (map tname order) -> ~ In (tname t) (rr_exec D (run force b s order))).
Proof.
  intros Hin Hn.
  destruct (run_decomp force b s order) as [[_ E]|(m0 & s0 & pre & Ed & Ef & _ & _ & _ & _ & _ & Ee & Eo)].
  - rewrite E. cbn [rr_out rr_exec]. split; [eexists; reflexivity|]. intros _ [].
  - rewrite Ee, Eo. rewrite <- Ef in Hn. exact (loop_unreadable force b order m0 s0 Ed t Hin Hn).
Qed.

(* with an injective digest ("up to SHA-256 collisions", C04) up to date means: same inputs *)
Lemma uptodate_inputs (s : st) t : (forall F F', digest F = digest F' -> F = F') ->
  uptodate s t -> exists F, inputs_of (files D s) t = Some F /\ last_ok D s (tname t) = Some F.
Proof. intros Inj (F & F' & A & B & C). apply Inj in C. subst. eauto. Qed.

End Proofs.
