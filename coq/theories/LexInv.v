From Spok Require Import Base Lexer DecodeSpec.
From Coq Require Import ZArith ZifyN ZifyNat ZifyBool.
Ltac Zify.zify_post_hook ::= Z.div_mod_to_equations.
Open Scope nat_scope.

Definition nl (s : bytes) : nat := length (filter (N.eqb 10) s).

Lemma nl_app a b : nl (a ++ b) = nl a + nl b.
Proof. unfold nl. rewrite filter_app, app_length. reflexivity. Qed.
Lemma nl_rev a : nl (rev a) = nl a.
Proof. induction a as [|x a IH]; [reflexivity|]. simpl rev. rewrite nl_app, IH. unfold nl. cbn [filter].
  destruct (N.eqb 10 x); cbn [length]; lia. Qed.
Lemma nl_ge128 bs : Forall (fun b => (128 <= b)%N) bs -> nl bs = 0.
Proof. induction 1 as [|x l Hx _ IH]; [reflexivity|]. unfold nl in *. cbn [filter].
  destruct (N.eqb 10 x) eqn:E; [lia|exact IH]. Qed.

Lemma fwd_spec w : forall p s, w <= length s -> fwd w p s = (rev (firstn w s) ++ p, skipn w s).
Proof. induction w as [|w IH]; intros p s H; [destruct s; reflexivity|].
  destruct s as [|b s]; [simpl in H; lia|]. simpl in H. simpl fwd. rewrite IH by lia.
  simpl. rewrite <- app_assoc. reflexivity. Qed.

Lemma bwd_spec bs : forall p s, bwd (length bs) (rev bs ++ p) s = Some (p, bs ++ s).
Proof. induction bs as [|b bs IH] using rev_ind; intros p s; [reflexivity|].
  rewrite rev_app_distr, app_length. simpl. replace (length bs + 1) with (S (length bs)) by lia.
  simpl. rewrite IH. rewrite <- app_assoc. reflexivity. Qed.

(* ---- next ---- *)
Arguments N.eqb : simpl never.
Arguments N.ltb : simpl never.
Arguments N.leb : simpl never.

Lemma nl_cons b t : nl (b :: t) = (if (10 =? b)%N then 1 else 0) + nl t.
Proof. unfold nl. cbn [filter]. destruct (10 =? b)%N; reflexivity. Qed.

Lemma nl_decode s r w : decode s = (r, w) -> nl (firstn w s) = if (r =? 10)%N then 1 else 0.
Proof.
  intros E. pose proof (decode_spec s) as D. rewrite E in D.
  destruct D as (D4 & Dlen & D0 & D10 & Dlt & D1 & Dhi).
  destruct (r =? 10)%N eqn:R.
  - apply N.eqb_eq in R. destruct (D10 R) as (-> & t & ->). reflexivity.
  - apply N.eqb_neq in R. destruct w as [|[|w]].
    + reflexivity.
    + destruct s as [|b t]; [reflexivity|]. cbn [firstn]. rewrite nl_cons. cbn [nl filter length].
      destruct (10 =? b)%N eqn:B; [|reflexivity]. apply N.eqb_eq in B. subst b.
      destruct (D1 10%N t eq_refl) as [? _]; [lia|]. congruence.
    + apply nl_ge128. apply Dhi. lia.
Qed.

Record next_rel (l : lx) (r : N) (l' : lx) (bs : bytes) : Prop := {
  nr_dec : decode (suf l) = (r, width l');
  nr_suf : suf l = bs ++ suf l';
  nr_pre : pre l' = rev bs ++ pre l;
  nr_len : length bs = width l';
  nr_nl  : nl bs = if (r =? 10)%N then 1 else 0;
  nr_hi  : width l' >= 2 -> Forall (fun b => (128 <= b)%N) bs;
  nr_line : line l' = line l + nl bs;
  nr_inp : inp l' = inp l; nr_start : start l' = start l; nr_sline : sline l' = sline l;
  nr_fl : fl l' = fl l; nr_out : out l' = out l
}.

Lemma next_spec l : exists bs, next_rel l (fst (next l)) (snd (next l)) bs.
Proof.
  unfold next. pose proof (decode_spec (suf l)) as D. destruct (decode (suf l)) as [r w] eqn:E.
  destruct D as (D4 & Dlen & D0 & D10 & Dlt & D1 & Dhi).
  rewrite fwd_spec by exact Dlen. cbn [fst snd].
  exists (firstn w (suf l)).
  assert (Lw : length (firstn w (suf l)) = w) by (rewrite firstn_length; lia).
  pose proof (nl_decode _ _ _ E) as NL.
  constructor; cbn [suf pre width line inp start sline fl out]; try reflexivity; try assumption.
  - symmetry. apply firstn_skipn.
  - rewrite NL. destruct (r =? 10)%N; lia.
Qed.

(* ---- backup ---- *)
Definition with_width (l : lx) (w : nat) : lx :=
  {| inp := inp l; pre := pre l; suf := suf l; start := start l; line := line l; sline := sline l;
     width := w; fl := fl l; out := out l |}.

Lemma backup_spec l bs p0 :
  pre l = rev bs ++ p0 -> length bs = width l ->
  (width l >= 2 -> Forall (fun b => (128 <= b)%N) bs) ->
  backup l = {| inp := inp l; pre := p0; suf := bs ++ suf l; start := start l;
                line := line l - nl bs; sline := sline l; width := width l; fl := fl l; out := out l |}.
Proof.
  intros Hp Hl Hhi. unfold backup. rewrite Hp, <- Hl, bwd_spec. f_equal.
  destruct bs as [|b [|b2 bs]].
  - cbn. lia.
  - cbn [length app Nat.eqb]. rewrite nl_cons. cbn [nl filter length andb].
    rewrite N.eqb_sym. destruct (10 =? b)%N; cbn; lia.
  - cbn [length] in *. rewrite nl_ge128 by (apply Hhi; lia). cbn [Nat.eqb andb]. lia.
Qed.

Lemma peek_spec l : line l >= 1 -> peek l = (fst (decode (suf l)), with_width l (snd (decode (suf l)))).
Proof.
  intros Hl. unfold peek. destruct (next_spec l) as (bs & N). destruct (next l) as [r l1]. cbn [fst snd] in N.
  destruct N. rewrite nr_dec0. cbn [fst snd]. f_equal.
  rewrite (backup_spec l1 bs (pre l)) by (auto). unfold with_width.
  rewrite nr_inp0, nr_start0, nr_sline0, nr_fl0, nr_out0, nr_line0, <- nr_suf0. f_equal. lia.
Qed.

(* ---- whitespace runs and tiling ---- *)
Lemma skipn_add {A} (a b : nat) : forall l : list A, skipn b (skipn a l) = skipn (a + b) l.
Proof. induction a as [|a IH]; intros l; [reflexivity|]. destruct l as [|x l]; [now rewrite !skipn_nil|]. cbn. apply IH. Qed.

Inductive sp_run : bytes -> nat -> Prop :=
| sp0 s : sp_run s 0
| spS s r w n : decode s = (r, w) -> w > 0 -> is_space r = true -> sp_run (skipn w s) n -> sp_run s (w + n).

Lemma sp_run_app s a : sp_run s a -> forall b, sp_run (skipn a s) b -> sp_run s (a + b).
Proof.
  induction 1 as [s|s r w n D W S R IH]; intros b Hb; [exact Hb|].
  rewrite <- Nat.add_assoc. eapply spS; eauto. apply IH. rewrite skipn_add. exact Hb.
Qed.

Inductive Tiled (s : bytes) : nat -> list token -> Prop :=
| T_nil : Tiled s 0 []
| T_snoc e toks g t : Tiled s e toks -> sp_run (skipn e s) g ->
    ty t <> ERROR -> tpos t = e + g -> val t = firstn (length (val t)) (skipn (e + g) s) ->
    e + g + length (val t) <= length s -> tline t = S (nl (firstn (e + g) s)) ->
    (ty t = EOF -> e + g = length s) ->
    Tiled s (e + g + length (val t)) (toks ++ [t]).

Record Inv (l : lx) (done : bytes) (e g : nat) : Prop := {
  i_inp : inp l = done ++ rev (pre l) ++ suf l;
  i_start : length done = start l;
  i_sline : sline l = S (nl done);
  i_line : line l = S (nl done + nl (pre l));
  i_tiled : Tiled (inp l) e (rev (out l));
  i_gap : sp_run (skipn e (inp l)) g;
  i_eg : start l = e + g;
  i_fl : fl l = FOk
}.

Lemma skipn_app_len {A} (a b : list A) : skipn (length a) (a ++ b) = b.
Proof. induction a; cbn; auto. Qed.
Lemma firstn_app_len {A} (a b : list A) : firstn (length a) (a ++ b) = a.
Proof. induction a; cbn; [destruct b; reflexivity|]. f_equal. assumption. Qed.

Lemma emit_inv t l done e g :
  Inv l done e g -> t <> ERROR -> (t = EOF -> pre l = [] /\ suf l = []) ->
  Inv (emit t l) (done ++ rev (pre l)) (pos l) 0.
Proof.
  intros [Hi Hs Hsl Hl Ht Hg Heg Hf] Hne Heof. unfold emit, pos.
  constructor; cbn [inp pre suf start line sline width fl out rev app].
  - rewrite <- app_assoc. exact Hi.
  - rewrite app_length, rev_length. lia.
  - rewrite Hl, nl_app, nl_rev. reflexivity.
  - rewrite nl_app, nl_rev. cbn [nl filter length]. lia.
  - assert (E : start l + length (pre l) = e + g + length (val (mk_tok t (rev (pre l)) (start l) (sline l)))).
    { cbn [val mk_tok]. rewrite rev_length. lia. }
    rewrite E. apply T_snoc; cbn [ty val tpos tline mk_tok]; auto.
    + rewrite <- Heg, Hi, <- Hs, skipn_app_len, rev_length, <- (rev_length (pre l)), firstn_app_len. reflexivity.
    + rewrite Hi, !app_length, rev_length. lia.
    + rewrite <- Heg, Hi, <- Hs, firstn_app_len. exact Hsl.
    + intros Ee. destruct (Heof Ee) as [P S]. rewrite <- Heg, Hi, P, S, <- Hs. cbn. rewrite !app_length. cbn. lia.
  - apply sp0.
  - lia.
  - exact Hf.
Qed.

Lemma discard_inv l done e g :
  Inv l done e g -> sp_run (rev (pre l) ++ suf l) (length (pre l)) ->
  Inv (discard l) (done ++ rev (pre l)) e (g + length (pre l)).
Proof.
  intros [Hi Hs Hsl Hl Ht Hg Heg Hf] Hsp. unfold discard, pos.
  constructor; cbn [inp pre suf start line sline width fl out rev app]; auto.
  - rewrite <- app_assoc. exact Hi.
  - rewrite app_length, rev_length. lia.
  - rewrite Hl, nl_app, nl_rev. reflexivity.
  - rewrite nl_app, nl_rev. cbn [nl filter length]. lia.
  - apply sp_run_app; [exact Hg|]. rewrite skipn_add, <- Heg, Hi, <- Hs, skipn_app_len. exact Hsp.
  - lia.
Qed.

(* next / backup / absorb keep the invariant (done, e, g unchanged) *)
Lemma next_inv l done e g : Inv l done e g -> Inv (snd (next l)) done e g.
Proof.
  intros [Hi Hs Hsl Hl Ht Hg Heg Hf]. destruct (next_spec l) as (bs & N). destruct N.
  constructor.
  - rewrite nr_inp0, nr_pre0, rev_app_distr, rev_involutive, <- app_assoc, <- nr_suf0. exact Hi.
  - congruence.
  - congruence.
  - rewrite nr_line0, nr_pre0, nl_app, nl_rev, Hl. lia.
  - rewrite nr_inp0, nr_out0. exact Ht.
  - rewrite nr_inp0. exact Hg.
  - congruence.
  - congruence.
Qed.

Lemma backup_inv l done e g bs p0 :
  Inv l done e g -> pre l = rev bs ++ p0 -> length bs = width l ->
  (width l >= 2 -> Forall (fun b => (128 <= b)%N) bs) ->
  Inv (backup l) done e g /\ pre (backup l) = p0 /\ suf (backup l) = bs ++ suf l /\ width (backup l) = width l
  /\ out (backup l) = out l.
Proof.
  intros [Hi Hs Hsl Hl Ht Hg Heg Hf] Hp Hlen Hhi. rewrite (backup_spec l bs p0) by assumption.
  cbn [pre suf width out]. split; [|repeat split; auto].
  constructor; cbn [inp pre suf start line sline width fl out]; auto.
  - rewrite Hi, Hp, rev_app_distr, rev_involutive, <- app_assoc. reflexivity.
  - rewrite Hl, Hp, nl_app, nl_rev. lia.
Qed.

Lemma skipn_all2 {A} n (l : list A) : length l <= n -> skipn n l = [].
Proof. revert l; induction n; destruct l; cbn; intros; try lia; auto. apply IHn. lia. Qed.

Lemma absorb_inv n l done e g lit :
  Inv l done e g -> has_prefix lit (suf l) = true -> length lit = n -> nl lit = 0 ->
  Inv (absorb n l) done e g /\ pre (absorb n l) = rev lit ++ pre l /\ suf (absorb n l) = skipn n (suf l)
  /\ out (absorb n l) = out l.
Proof.
  intros [Hi Hs Hsl Hl Ht Hg Heg Hf] Hpre Hn Hnl.
  assert (Hsplit : suf l = lit ++ skipn n (suf l)).
  { subst n. clear - Hpre. revert Hpre. generalize (suf l) as s. induction lit as [|a lit IH]; intros s H; [reflexivity|].
    destruct s as [|b s]; [discriminate|]. cbn in H. apply andb_true_iff in H. destruct H as [H1 H2].
    apply N.eqb_eq in H1. subst b. cbn. f_equal. apply IH. exact H2. }
  unfold absorb.
  assert (Hle : Nat.leb n (length (suf l)) = true) by (apply Nat.leb_le; rewrite Hsplit, app_length; lia).
  rewrite Hle. rewrite fwd_spec by (rewrite Hsplit, app_length; lia).
  assert (Hf1 : firstn n (suf l) = lit). { rewrite Hsplit. subst n. apply firstn_app_len. }
  rewrite Hf1. cbn [pre suf out]. split; [|repeat split; auto].
  constructor; cbn [inp pre suf start line sline width fl out]; auto.
  - rewrite Hi, rev_app_distr, rev_involutive, <- app_assoc. rewrite Hsplit at 1. reflexivity.
  - rewrite Hl, nl_app, nl_rev, Hnl. lia.
Qed.

Lemma is_space_w r w s : decode s = (r, w) -> is_space r = true -> w > 0.
Proof.
  intros D S. pose proof (decode_spec s) as H. rewrite D in H. destruct H as (_ & _ & H0 & _).
  destruct w; [|lia]. destruct H0 as [H0 _]. rewrite (H0 eq_refl) in D. cbn in D. inversion D; subst.
  vm_compute in S. discriminate.
Qed.

Lemma skipWS_spec fuel : forall l done e g,
  Inv l done e g -> sp_run (rev (pre l) ++ suf l) (length (pre l)) -> length (suf l) < fuel ->
  exists done' g', Inv (skipWS fuel l) done' e g' /\ pre (skipWS fuel l) = [] /\ out (skipWS fuel l) = out l
    /\ (exists ws, rev (pre l) ++ suf l = ws ++ suf (skipWS fuel l))
    /\ is_space (fst (decode (suf (skipWS fuel l)))) = false.
Proof.
  induction fuel as [|fuel IH]; intros l done e g HI Hsp Hfuel; [lia|].
  cbn [skipWS]. destruct (next_spec l) as (bs & N). pose proof (next_inv l done e g HI) as HI1.
  destruct (next l) as [r l1]. cbn [fst snd] in *. destruct N.
  destruct (is_space r) eqn:SP.
  - assert (W : width l1 > 0) by (eapply is_space_w; eauto).
    assert (Hlen1 : length (suf l1) < fuel).
    { assert (length (suf l) = length bs + length (suf l1)) by (rewrite nr_suf0, app_length; reflexivity). lia. }
    assert (Hsp1 : sp_run (rev (pre l1) ++ suf l1) (length (pre l1))).
    { rewrite nr_pre0, rev_app_distr, rev_involutive, <- app_assoc, <- nr_suf0, app_length, rev_length, Nat.add_comm.
      apply sp_run_app; [exact Hsp|]. rewrite <- (rev_length (pre l)), skipn_app_len.
      rewrite nr_len0. replace (width l1) with (width l1 + 0) by lia. eapply spS; eauto. apply sp0. }
    destruct (IH l1 done e g HI1 Hsp1 Hlen1) as (done' & g' & A & B & C & (ws & D) & E).
    exists done', g'. split; [exact A|]. split; [exact B|]. split; [congruence|]. split; [|exact E].
    exists ws. rewrite <- D, nr_pre0, rev_app_distr, rev_involutive, <- app_assoc, <- nr_suf0. reflexivity.
  - destruct (backup_inv l1 done e g bs (pre l) HI1 nr_pre0 nr_len0 nr_hi0) as (HI2 & P2 & S2 & W2 & O2).
    rewrite <- nr_suf0 in S2.
    assert (Hsp2 : sp_run (rev (pre (backup l1)) ++ suf (backup l1)) (length (pre (backup l1)))) by (rewrite P2, S2; exact Hsp).
    pose proof (discard_inv _ _ _ _ HI2 Hsp2) as HI3.
    eexists _, _. split; [exact HI3|]. cbn [discard pre out suf]. split; [reflexivity|]. split; [congruence|]. split.
    + exists (rev (pre l)). rewrite S2. reflexivity.
    + rewrite S2, nr_dec0. cbn. exact SP.
Qed.
Print Assumptions skipWS_spec.

(* ---- getLine never panics under the invariant ---- *)
Lemma split_nl_len s : forall acc, length (split_nl acc s) = S (nl s).
Proof.
  induction s as [|b s IH]; intros acc; [reflexivity|]. cbn [split_nl]. rewrite nl_cons.
  rewrite N.eqb_sym. destruct (10 =? b)%N; cbn [length]; rewrite IH; lia.
Qed.

Lemma getLine_some l done e g : Inv l done e g -> exists c, getLine l = Some c.
Proof.
  intros [Hi Hs Hsl Hl _ _ _ _]. unfold getLine.
  destruct (nth_error (map trim (split_nl [] (inp l))) (Nat.pred (line l))) eqn:E; [eauto|].
  apply nth_error_None in E. rewrite map_length, split_nl_len, Hl, Hi, !nl_app, nl_rev in E. cbn in E. lia.
Qed.

Definition last_is_error (l : lx) : Prop := exists t o, out l = t :: o /\ ty t = ERROR.

Lemma error_ok k l done e g : Inv l done e g ->
  fl (error k l) = FOk /\ last_is_error (error k l) /\ exists o, out (error k l) = o :: out l.
Proof.
  intros HI. destruct (getLine_some _ _ _ _ HI) as (c & Hc). destruct HI as [Hi Hs Hsl Hl _ _ _ Hf].
  unfold error. cbn [fl out]. rewrite Hc, Hl. repeat split; auto.
  - eexists _, _. split; [reflexivity|reflexivity].
  - eexists. reflexivity.
Qed.

Lemma with_width_inv l w done e g : Inv l done e g -> Inv (with_width l w) done e g.
Proof. intros [? ? ? ? ? ? ? ?]. constructor; assumption. Qed.

Lemma skipWhitespace_spec l done e g :
  Inv l done e g -> pre l = [] ->
  exists done' g', Inv (skipWhitespace l) done' e g' /\ pre (skipWhitespace l) = [] /\ out (skipWhitespace l) = out l
    /\ (exists ws, suf l = ws ++ suf (skipWhitespace l))
    /\ is_space (fst (decode (suf (skipWhitespace l)))) = false.
Proof.
  intros HI Hp. unfold skipWhitespace.
  destruct (skipWS_spec (S (length (suf l))) l done e g HI) as (d & g' & A & B & C & (ws & D) & E).
  - rewrite Hp. apply sp0.
  - lia.
  - exists d, g'. rewrite Hp in D. cbn in D. repeat (split; [assumption|]). split; [eauto|assumption].
Qed.

Lemma atEOL_spec l : line l >= 1 ->
  atEOL l = ((fst (decode (suf l)) =? 10)%N || has_prefix crlf (suf l), with_width l (snd (decode (suf l)))).
Proof.
  intros L. unfold atEOL. rewrite (peek_spec l L). cbn [with_width suf].
  destruct (fst (decode (suf l)) =? 10)%N; reflexivity.
Qed.

Lemma Inv_line l done e g : Inv l done e g -> line l >= 1.
Proof. intros [_ _ _ H _ _ _ _]. lia. Qed.

