(* Model of loading a parsed spokfile: file.New (/repo/file/file.go) and task.New (/repo/task/task.go).
   Variables are evaluated in file order (string literal, join(...), exec(...)), each task is built with the variables
   assigned BEFORE it, dependencies and outputs are sorted into task names / file paths / glob patterns (a string is a
   pattern exactly when it contains '*'), commands are expanded by the template model of Vars.v.
   exec is the one thing that leaves the process: it is a Section variable (what the shell printed, or failure). *)
From Spok Require Import Base Lexer Parser Paths Vars.
Open Scope N_scope.

Record ltask := {
  lt_doc : bytes; lt_name : bytes;
  lt_taskdeps : list bytes; lt_filedeps : list bytes; lt_globdeps : list bytes;
  lt_cmds : list bytes;
  lt_named : list bytes; lt_fileouts : list bytes; lt_globouts : list bytes
}.

Inductive lerr :=
  | EDuplicateTask (n : bytes)
  | EBadAssign                      (* X := Y : an identifier is not a value *)
  | ENonStringArg                   (* builtin called with an identifier *)
  | EUnknownBuiltin (f : bytes)
  | EBuiltinFailed (f : bytes)
  | ETemplate.                      (* a command the template fragment of Vars.v does not cover (text/template may also reject it) *)

Inductive lres := LOk (vs : vars) (ts : list ltask) | LErr (e : lerr).

(* a dependency or output string is a glob pattern exactly when it contains '*' *)
Definition is_glob (s : bytes) : bool := existsb (fun c => c =? 42) s.

Definition idents_of (l : list arg) : list bytes := flat_map (fun a => match a with AIdent n => [n] | AString _ => [] end) l.
Definition files_of (root : bytes) (l : list arg) : list bytes :=
  flat_map (fun a => match a with AString s => if is_glob s then [] else [join [root; s]] | AIdent _ => [] end) l.
Definition globs_of (l : list arg) : list bytes :=
  flat_map (fun a => match a with AString s => if is_glob s then [s] else [] | AIdent _ => [] end) l.

Fixpoint expand_all (vs : vars) (cmds : list bytes) : option (list bytes) :=
  match cmds with
  | [] => Some []
  | c :: r => match expand_vars vs c, expand_all vs r with
              | TOk o, Some os => Some (o :: os)
              | _, _ => None
              end
  end.

(* task.New *)
Definition load_task (root : bytes) (vs : vars) (doc name : bytes) (deps outs : list arg) (cmds : list bytes) : option ltask :=
  match expand_all vs cmds with
  | None => None
  | Some cs =>
    Some {| lt_doc := trim doc; lt_name := name;
            lt_taskdeps := idents_of deps; lt_filedeps := files_of root deps; lt_globdeps := globs_of deps;
            lt_cmds := cs;
            lt_named := idents_of outs; lt_fileouts := files_of root outs; lt_globouts := globs_of outs |}
  end.

(* a Go map assignment: the new value replaces an older one *)
Fixpoint set_var (vs : vars) (n v : bytes) : vars :=
  match vs with
  | [] => [(n, v)]
  | (k, x) :: r => if bytes_eqb k n then (n, v) :: r else (k, x) :: set_var r n v
  end.

Fixpoint string_args (l : list arg) : option (list bytes) :=
  match l with
  | [] => Some []
  | AString s :: r => match string_args r with Some ss => Some (s :: ss) | None => None end
  | AIdent _ :: _ => None
  end.

Definition k_join : bytes := [106; 111; 105; 110].
Definition k_exec : bytes := [101; 120; 101; 99].

Section Load.
Variable cwd : bytes.                               (* the process' working directory: join(...) is made absolute against it *)
Variable exec : nat -> bytes -> option bytes.       (* exec("cmd") at statement number k of the file: the command's standard output,
                                                       None when it fails.  Indexed by the call site: every exec(...) is an execution of
                                                       its own, two calls with the same text need not print the same thing *)

Inductive eres := EVal (v : bytes) | EFail (e : lerr).
Definition eval_rhs (k : nat) (v : rhs) : eres :=
  match v with
  | RString s => EVal s
  | RIdent _ => EFail EBadAssign
  | RFunc f args =>
    match string_args args with
    | None => EFail ENonStringArg
    | Some ss =>
      if bytes_eqb f k_join then EVal (join_builtin cwd ss)
      else if bytes_eqb f k_exec then
        match ss with
        | [c] => match exec k c with Some o => EVal (trim o) | None => EFail (EBuiltinFailed f) end
        | _ => EFail (EBuiltinFailed f)             (* exec takes the command as a single string *)
        end
      else EFail (EUnknownBuiltin f)
    end
  end.

Definition has_ltask (ts : list ltask) (n : bytes) : bool := existsb (fun t => bytes_eqb (lt_name t) n) ts.

(* file.New: one pass over the nodes; ts is kept in file order *)
Fixpoint load_nodes (root : bytes) (k : nat) (vs : vars) (ts : list ltask) (nodes : list node) : lres :=
  match nodes with
  | [] => LOk vs ts
  | NComment _ :: r => load_nodes root (S k) vs ts r
  | NAssign n v :: r =>
    match eval_rhs k v with
    | EVal x => load_nodes root (S k) (set_var vs n x) ts r
    | EFail e => LErr e
    end
  | NTask doc name deps outs cmds :: r =>
    match load_task root vs doc name deps outs cmds with
    | None => LErr ETemplate
    | Some t => if has_ltask ts name then LErr (EDuplicateTask name) else load_nodes root (S k) vs (ts ++ [t]) r
    end
  end.

Definition load (root : bytes) (nodes : list node) : lres := load_nodes root 0 [] [] nodes.
End Load.
