(* Model of how spokfile variables reach commands (task.expandVars through text/template for the
   {{ .NAME }} fragment, shell.Run's environment, builtins). *)
From Spok Require Import Base Paths.
Open Scope N_scope.

Definition vars := list (bytes * bytes).            (* spokfile.Vars: name -> value (a Go map: names are unique) *)

Fixpoint lookup_var (vs : vars) (n : bytes) : option bytes :=
  match vs with
  | [] => None
  | (k, v) :: r => if bytes_eqb k n then Some v else lookup_var r n
  end.

(* ---- text/template, restricted to actions of the form {{ .NAME }} ---- *)
Inductive tres := TOk (out : bytes) | TUnsupported.

Definition is_blank (c : N) : bool := (c =? 32) || (c =? 9) || (c =? 13) || (c =? 10).
(* ASCII letters, digits and '_' : what a field name may consist of in this fragment *)
Definition is_name_char (c : N) : bool := inr 65 90 c || inr 97 122 c || inr 48 57 c || (c =? 95).

Fixpoint skip_blank (s : bytes) : bytes :=
  match s with c :: r => if is_blank c then skip_blank r else s | [] => [] end.
Fixpoint take_name (acc : bytes) (s : bytes) : bytes * bytes :=
  match s with
  | c :: r => if is_name_char c then take_name (c :: acc) r else (rev acc, s)
  | [] => (rev acc, [])
  end.

Definition no_value : bytes := [60; 110; 111; 32; 118; 97; 108; 117; 101; 62].   (* "<no value>" *)

Definition open_braces : bytes := [123; 123].          (* "{{" *)
Definition close_braces : bytes := [125; 125].         (* "}}" *)

(* s is what follows "{{" ; returns the substituted value and the rest after "}}" *)
Definition action (vs : vars) (s : bytes) : option (bytes * bytes) :=
  let s1 := skip_blank s in
  if has_prefix [46] s1 then                              (* '.' *)
    let '(name, r1) := take_name [] (skipn 1 s1) in
    if is_nil_b name then None
    else
      let s2 := skip_blank r1 in
      if has_prefix close_braces s2
      then Some (match lookup_var vs name with Some v => v | None => no_value end, skipn 2 s2)
      else None
  else None.

Fixpoint expand_tmpl (fuel : nat) (vs : vars) (s : bytes) : tres :=
  match fuel with
  | O => TUnsupported
  | S f =>
    match s with
    | [] => TOk []
    | c :: r =>
      if has_prefix open_braces s then
        match action vs (skipn 2 s) with
        | Some (v, r2) => match expand_tmpl f vs r2 with TOk o => TOk (v ++ o) | TUnsupported => TUnsupported end
        | None => TUnsupported
        end
      else match expand_tmpl f vs r with TOk o => TOk (c :: o) | TUnsupported => TUnsupported end
    end
  end.
Definition expand_vars (vs : vars) (s : bytes) : tres := expand_tmpl (S (length s)) vs s.

(* a command as the user thinks of it: literal text and references to variables *)
Inductive cseg := Lit (s : bytes) | Ref (n : bytes).
Definition render_seg (c : cseg) : bytes := match c with Lit s => s | Ref n => [123; 123; 46] ++ n ++ [125; 125] end.
Definition render_cmd (l : list cseg) : bytes := concat (map render_seg l).
Definition subst_seg (vs : vars) (c : cseg) : bytes :=
  match c with Lit s => s | Ref n => match lookup_var vs n with Some v => v | None => no_value end end.
Definition subst_cmd (vs : vars) (l : list cseg) : bytes := concat (map (subst_seg vs) l).

(* ---- the environment handed to the shell interpreter (shell.Run, repaired order) ---- *)
Definition cmd_env (vs ambient : vars) : vars := ambient ++ vs.       (* os.Environ() first, then the spokfile's variables *)
(* expand.ListEnviron keeps the last of several entries with the same name *)
Fixpoint env_lookup (env : vars) (n : bytes) : option bytes :=
  match env with
  | [] => None
  | (k, v) :: r => match env_lookup r n with
                   | Some v' => Some v'
                   | None => if bytes_eqb k n then Some v else None
                   end
  end.
