(* The order in which the lexer can emit token types: a small monitor automaton accepts every token
   stream the lexer produces.  This is what keeps the parser from reading past the end of the stream
   (every '{' is followed by commands and then '}' or an error; '#' by a comment; 'task' by a name and '(').
   Purely syntactic: only `emit` and `error` ever touch the output. *)
From Spok Require Import Base Lexer.
Open Scope nat_scope.

Arguments N.eqb : simpl never.
Arguments N.ltb : simpl never.
Arguments N.leb : simpl never.

(* ---------- helpers never touch the output ---------- *)
Lemma out_set_fl l f : out (set_fl l f) = out l. Proof. reflexivity. Qed.
Lemma out_next l : out (snd (next l)) = out l.
Proof. unfold next. destruct (decode (suf l)) as [r w]. destruct (fwd w (pre l) (suf l)). reflexivity. Qed.
Lemma out_backup l : out (backup l) = out l.
Proof. unfold backup. destruct (bwd (width l) (pre l) (suf l)) as [[p s]|]; reflexivity. Qed.
Lemma out_peek l : out (snd (peek l)) = out l.
Proof. unfold peek. pose proof (out_next l). destruct (next l) as [r l1]. cbn [snd] in *. rewrite out_backup. assumption. Qed.
Lemma out_atEOL l : out (snd (atEOL l)) = out l.
Proof. unfold atEOL. pose proof (out_peek l). destruct (peek l) as [r l1]. cbn [snd] in *. destruct (r =? 10)%N; assumption. Qed.
Lemma out_absorb n l : out (absorb n l) = out l.
Proof. unfold absorb. destruct (Nat.leb n (length (suf l))); [destruct (fwd n (pre l) (suf l))|]; reflexivity. Qed.
Lemma out_discard l : out (discard l) = out l. Proof. reflexivity. Qed.
Lemma out_skipWS fuel : forall l, out (skipWS fuel l) = out l.
Proof.
  induction fuel as [|fuel IH]; intros l; cbn [skipWS]; [reflexivity|].
  pose proof (out_next l). destruct (next l) as [r l1]. cbn [snd] in *. destruct (is_space r); [rewrite IH; assumption|].
  rewrite out_discard, out_backup. assumption.
Qed.
Lemma out_skipWhitespace l : out (skipWhitespace l) = out l. Proof. apply out_skipWS. Qed.
Lemma out_pos_dec l : out (pos_dec l) = out l. Proof. unfold pos_dec. destruct (pre l); reflexivity. Qed.
Lemma out_drop_cr l : out (drop_cr l) = out l. Proof. unfold drop_cr. destruct (strip_cr (pre l) (suf l)). reflexivity. Qed.
Lemma out_identLoop fuel : forall l, out (identLoop fuel l) = out l.
Proof.
  induction fuel as [|fuel IH]; intros l; cbn [identLoop]; [reflexivity|].
  pose proof (out_next l). destruct (next l) as [r l1]. cbn [snd] in *. destruct (is_ident r); [rewrite IH|rewrite out_backup]; assumption.
Qed.

(* chronological list of the types emitted so far *)
Definition tys (l : lx) : list ttype := rev (map ty (out l)).
Lemma tys_emit t l : tys (emit t l) = tys l ++ [t]. Proof. reflexivity. Qed.
Lemma tys_error k l : tys (error k l) = tys l ++ [ERROR]. Proof. reflexivity. Qed.
Lemma tys_same l l' : out l' = out l -> tys l' = tys l. Proof. unfold tys. intros ->. reflexivity. Qed.

(* ---------- the monitor ---------- *)
Inductive mst := MTop | MAfterHash | MAfterTask | MAfterName | MInBody | MDone | MReject.

Definition mon (m : mst) (t : ttype) : mst :=
  match m, t with
  | MTop, HASH => MAfterHash
  | MTop, TASK => MAfterTask
  | MTop, LBRACE => MInBody
  | MTop, (EOF | ERROR) => MDone
  | MTop, _ => MTop
  | MAfterHash, COMMENT => MTop
  | MAfterTask, IDENT => MAfterName
  | MAfterName, LPAREN => MTop
  | MAfterName, ERROR => MDone
  | MInBody, COMMAND => MInBody
  | MInBody, RBRACE => MTop
  | MInBody, ERROR => MDone
  | _, _ => MReject
  end.
Definition mrun (m : mst) (l : list ttype) : mst := fold_left mon l m.

Lemma mrun_app m a b : mrun m (a ++ b) = mrun (mrun m a) b.
Proof. apply fold_left_app. Qed.

(* which monitor states a lexer state can be in *)
Definition R (s : st) (m : mst) : Prop :=
  match s with
  | SComment => m = MAfterHash
  | STaskName => m = MAfterTask
  | SLeftParen => m = MTop \/ m = MAfterName
  | STaskBody | STaskCommands | SRightBrace => m = MInBody
  | SUnexpected => m = MTop \/ m = MInBody
  | SDone => m = MDone
  | _ => m = MTop
  end.

(* what a state function did to the output: appended these types *)
Definition emitted (l l' : lx) (ts : list ttype) : Prop := tys l' = tys l ++ ts.

Lemma emitted_refl l l' : out l' = out l -> emitted l l' [].
Proof. intros H. unfold emitted. rewrite app_nil_r. apply tys_same. exact H. Qed.

Ltac outs := repeat (first [rewrite out_skipWhitespace | rewrite out_backup | rewrite out_absorb | rewrite out_drop_cr | rewrite out_pos_dec
                          | rewrite out_identLoop | rewrite out_set_fl | rewrite out_discard ]).

(* the monitor follows every state function *)
Definition follows (s : st) (l : lx) (r : st * lx) : Prop :=
  forall m, R s m -> mrun MTop (tys l) = m -> fl (snd r) <> FOk \/ R (fst r) (mrun MTop (tys (snd r))).

Lemma follows_intro s l s' l' ts : emitted l l' ts -> (forall m, R s m -> R s' (mrun m ts)) -> follows s l (s', l').
Proof. intros E H m Rm Em. right. cbn [fst snd]. rewrite E, mrun_app, Em. apply H. exact Rm. Qed.

Lemma tys_peek l : tys (snd (peek l)) = tys l. Proof. apply tys_same, out_peek. Qed.
Lemma tys_next l : tys (snd (next l)) = tys l. Proof. apply tys_same, out_next. Qed.
Lemma tys_atEOL l : tys (snd (atEOL l)) = tys l. Proof. apply tys_same, out_atEOL. Qed.

Ltac dpair :=
  match goal with
  | |- context [peek ?x] => let H := fresh "Ho" in pose proof (out_peek x) as H; destruct (peek x) as [? ?]; cbn [snd] in H
  | |- context [next ?x] => let H := fresh "Ho" in pose proof (out_next x) as H; destruct (next x) as [? ?]; cbn [snd] in H
  | |- context [atEOL ?x] => let H := fresh "Ho" in pose proof (out_atEOL x) as H; destruct (atEOL x) as [? ?]; cbn [snd] in H
  end.
Ltac dif := match goal with |- context [if ?b then _ else _] => destruct b end.
Ltac norm_out :=
  repeat (first [ progress cbn [emit error out mk_tok]
                | progress outs
                | match goal with H : out ?a = _ |- context [out ?a] => rewrite H end ]).
Ltac leaf :=
  let m := fresh "m" in let Rm := fresh "Rm" in let Em := fresh "Em" in
  intros m Rm Em; right; cbn [fst snd]; unfold tys in *; norm_out; cbn [map rev ty];
  rewrite <- ?app_assoc; rewrite ?fold_left_app; unfold mrun in *; rewrite ?fold_left_app; rewrite ?Em; cbn [R] in *;
  repeat match goal with H : _ \/ _ |- _ => destruct H end; subst; cbn; auto.
Ltac proto := repeat (first [dpair | dif]); leaf.

Lemma lexStart_follows l : follows SStart l (lexStart l).
Proof. unfold lexStart. proto. Qed.
Lemma lexHash_follows l : follows SHash l (lexHash l).
Proof. unfold lexHash. proto. Qed.
Lemma lexTaskKeyword_follows l : follows STaskKeyword l (lexTaskKeyword l).
Proof. unfold lexTaskKeyword. proto. Qed.
Lemma lexLeftParen_follows l : follows SLeftParen l (lexLeftParen l).
Proof. unfold lexLeftParen. proto. Qed.
Lemma lexRightParen_follows l : follows SRightParen l (lexRightParen l).
Proof. unfold lexRightParen. proto. Qed.
Lemma lexOutputOperator_follows l : follows SOutputOp l (lexOutputOperator l).
Proof. unfold lexOutputOperator. proto. Qed.
Lemma lexLeftBrace_follows l : follows SLeftBrace l (lexLeftBrace l).
Proof. unfold lexLeftBrace. proto. Qed.
Lemma lexRightBrace_follows l : follows SRightBrace l (lexRightBrace l).
Proof. unfold lexRightBrace. proto. Qed.
Lemma lexTaskBody_follows l : follows STaskBody l (lexTaskBody l).
Proof. unfold lexTaskBody. proto. Qed.
Lemma lexTaskName_follows l : follows STaskName l (lexTaskName l).
Proof. unfold lexTaskName. proto. Qed.
Lemma lexIdent_follows l : follows SIdent l (lexIdent l).
Proof. unfold lexIdent. proto. Qed.
Lemma lexArgs_follows l : follows SArgs l (lexArgs l).
Proof. unfold lexArgs. proto. Qed.
Lemma lexComma_follows l : follows SComma l (lexComma l).
Proof. unfold lexComma. proto. Qed.
Lemma lexDeclare_follows l : follows SDeclare l (lexDeclare l).
Proof. unfold lexDeclare. proto. Qed.
Lemma unexpected_follows l : follows SUnexpected l (unexpectedToken l).
Proof. unfold unexpectedToken. proto. Qed.


Lemma lexCommentLoop_follows fuel : forall l, mrun MTop (tys l) = MAfterHash ->
  fl (snd (lexCommentLoop fuel l)) <> FOk \/ R (fst (lexCommentLoop fuel l)) (mrun MTop (tys (snd (lexCommentLoop fuel l)))).
Proof.
  induction fuel as [|fuel IH]; intros l Em; cbn [lexCommentLoop]; [left; cbn; discriminate|].
  pose proof (tys_atEOL l) as T1. destruct (atEOL l) as [eol l1]. cbn [snd] in T1.
  destruct (eol || atEOF l1).
  - right. cbn [fst snd]. rewrite tys_emit, mrun_app, T1, Em. reflexivity.
  - pose proof (tys_next l1) as T2. destruct (next l1) as [r l2]. cbn [snd] in T2. apply IH. rewrite T2, T1. exact Em.
Qed.

Lemma lexStringLoop_follows fuel : forall l, mrun MTop (tys l) = MTop ->
  fl (snd (lexStringLoop fuel l)) <> FOk \/ R (fst (lexStringLoop fuel l)) (mrun MTop (tys (snd (lexStringLoop fuel l)))).
Proof.
  induction fuel as [|fuel IH]; intros l Em; cbn [lexStringLoop]; [left; cbn; discriminate|].
  pose proof (tys_next l) as T1. destruct (next l) as [r l1]. cbn [snd] in T1.
  destruct (r =? 34)%N.
  - assert (E2 : mrun MTop (tys (emit STRING l1)) = MTop) by (rewrite tys_emit, mrun_app, T1, Em; reflexivity).
    destruct (atEOF (emit STRING l1)); [right; cbn [fst snd R]; exact E2|].
    pose proof (tys_atEOL (emit STRING l1)) as T3. destruct (atEOL (emit STRING l1)) as [eol l3]. cbn [snd] in T3.
    destruct eol; right; cbn [fst snd R]; rewrite T3; exact E2.
  - destruct (atEOF l1).
    { right. cbn [fst snd R]. rewrite tys_error, mrun_app, (tys_same _ _ (out_backup l1)), T1, Em. reflexivity. }
    pose proof (tys_atEOL l1) as T2. destruct (atEOL l1) as [eol l2]. cbn [snd] in T2.
    destruct eol.
    + right. cbn [fst snd R]. rewrite tys_error, mrun_app, (tys_same _ _ (out_backup l2)), T2, T1, Em. reflexivity.
    + apply IH. rewrite T2, T1. exact Em.
Qed.

Lemma lexTaskCommandsLoop_follows fuel : forall l, mrun MTop (tys l) = MInBody ->
  fl (snd (lexTaskCommandsLoop fuel l)) <> FOk \/ R (fst (lexTaskCommandsLoop fuel l)) (mrun MTop (tys (snd (lexTaskCommandsLoop fuel l)))).
Proof.
  induction fuel as [|fuel IH]; intros l Em; cbn [lexTaskCommandsLoop]; [left; cbn; discriminate|].
  pose proof (tys_next l) as T1. destruct (next l) as [r l1]. cbn [snd] in T1.
  destruct (r =? 10)%N.
  { apply IH. rewrite (tys_same _ _ (out_skipWhitespace _)), tys_emit, mrun_app, (tys_same _ _ (out_drop_cr _)), (tys_same _ _ (out_backup l1)), T1, Em. reflexivity. }
  destruct (has_prefix k_linterp (suf l1)); [apply IH; rewrite (tys_same _ _ (out_absorb 2 l1)), T1; exact Em|].
  destruct (has_prefix k_rinterp (suf l1)); [apply IH; rewrite (tys_same _ _ (out_absorb 2 l1)), T1; exact Em|].
  destruct (r =? 125)%N.
  { right. cbn [fst snd R]. rewrite (tys_same _ _ (out_skipWhitespace _)).
    set (l2 := backup l1). set (l2' := match pre l2 with 32%N :: _ => pos_dec l2 | _ => l2 end).
    assert (T2 : tys l2' = tys l).
    { unfold l2'. rewrite <- T1, <- (tys_same _ _ (out_backup l1)). fold l2. destruct (pre l2) as [|b p]; [reflexivity|].
      destruct b as [|pb]; [reflexivity|]. destruct pb as [pb|pb|]; try reflexivity; destruct pb as [pb|pb|]; try reflexivity;
      destruct pb as [pb|pb|]; try reflexivity; destruct pb as [pb|pb|]; try reflexivity; destruct pb as [pb|pb|]; try reflexivity;
      destruct pb as [pb|pb|]; try reflexivity. apply tys_same, out_pos_dec. }
    set (l3 := drop_cr l2'). assert (T3 : tys l3 = tys l) by (unfold l3; rewrite (tys_same _ _ (out_drop_cr l2')); exact T2).
    destruct (pre l3); [rewrite T3; exact Em|]. rewrite tys_emit, mrun_app, T3, Em. reflexivity. }
  destruct (atEOF l1 || (r =? 35)%N); [right; cbn [fst snd R]; rewrite tys_error, mrun_app, T1, Em; reflexivity|].
  destruct (r <=? 127)%N; [apply IH; rewrite T1; exact Em|].
  right. cbn [fst snd R]. rewrite (tys_same _ _ (out_backup l1)), T1, Em. right. reflexivity.
Qed.

Lemma step_follows s l : follows s l (step s l).
Proof.
  destruct s; cbn [step].
  - apply lexStart_follows.
  - apply lexHash_follows.
  - intros m Rm Em. cbn [R] in Rm. subst m. apply lexCommentLoop_follows. exact Em.
  - apply lexTaskKeyword_follows.
  - apply lexLeftParen_follows.
  - apply lexRightParen_follows.
  - apply lexOutputOperator_follows.
  - apply lexLeftBrace_follows.
  - apply lexRightBrace_follows.
  - apply lexTaskBody_follows.
  - intros m Rm Em. cbn [R] in Rm. subst m. apply lexTaskCommandsLoop_follows. exact Em.
  - apply lexTaskName_follows.
  - apply lexIdent_follows.
  - apply lexArgs_follows.
  - apply lexComma_follows.
  - apply lexDeclare_follows.
  - intros m Rm Em. cbn [R] in Rm. subst m. apply lexStringLoop_follows. exact Em.
  - apply unexpected_follows.
  - intros m Rm Em. right. cbn [fst snd]. rewrite Em. exact Rm.
Qed.

Lemma run_follows : forall fuel s l, R s (mrun MTop (tys l)) ->
  fl (run fuel s l) <> FOk \/ mrun MTop (tys (run fuel s l)) = MDone.
Proof.
  induction fuel as [|fuel IH]; intros s l HR.
  - destruct s; cbn [run is_done]; try (left; cbn; discriminate). right. exact HR.
  - destruct s; try (cbn [run is_done]; right; exact HR);
    (cbn [run is_done];
     match goal with |- context [step ?s0 l] => pose proof (step_follows s0 l _ HR eq_refl) as F; destruct (step s0 l) as [s' l'] end;
     cbn [fst snd] in F; destruct (fl l') eqn:Efl; cbn [is_ok];
     [destruct F as [F|F]; [congruence|apply IH; exact F] | left; congruence | left; congruence]).
Qed.

(* the token types of every fault-free scan are accepted by the monitor *)
Theorem lex_protocol s : fst (lex s) = FOk -> mrun MTop (map ty (snd (lex s))) = MDone.
Proof.
  unfold lex. cbn [fst snd]. intros Hf.
  destruct (run_follows (6 * length s + 8) SStart (init s) eq_refl) as [H|H]; [congruence|].
  unfold tys in H. rewrite <- map_rev in H. exact H.
Qed.
