(* Model of /repo/parser/parser.go (token-list consumer with a one-token pushback buffer and the
   zero tokens read from the closed channel) and of ast.Tree.String (the formatter). *)
From Spok Require Import Base Lexer.
Open Scope N_scope.

Inductive arg := AString (s : bytes) | AIdent (s : bytes).
Inductive rhs := RString (s : bytes) | RIdent (s : bytes) | RFunc (name : bytes) (args : list arg).
Inductive node :=
  | NComment (text : bytes)
  | NAssign (name : bytes) (v : rhs)
  | NTask (doc : bytes) (name : bytes) (deps outs : list arg) (cmds : list bytes).

Definition is_nil {A} (l : list A) : bool := match l with [] => true | _ => false end.

Inductive presult :=
  | PTree (t : list node)
  | PErr (line : nat) (ctx : option bytes)   (* located error: cited line, quoted line (None = getLine panicked) *)
  | PErrRaw (msg : bytes)                    (* an error whose text is just msg *)
  | PPanic | PFuel.

Definition zero_tok : token := {| ty := EOF; val := []; tpos := 0; tline := 0; ek := None; eline := 0; ectx := None |}.

Record ps := { buf : token; pending : bool; rest : list token; pinp : bytes }.

Definition pnext (p : ps) : token * ps :=
  if pending p then (buf p, {| buf := buf p; pending := false; rest := rest p; pinp := pinp p |})
  else match rest p with
       | [] => (zero_tok, {| buf := zero_tok; pending := false; rest := []; pinp := pinp p |})
       | t :: r => (t, {| buf := t; pending := false; rest := r; pinp := pinp p |})
       end.
Definition pbackup (p : ps) : ps := {| buf := buf p; pending := true; rest := rest p; pinp := pinp p |}.

Definition tis (t : token) (k : ttype) : bool :=
  match ty t, k with
  | EOF, EOF | ERROR, ERROR | COMMENT, COMMENT | HASH, HASH | LPAREN, LPAREN | RPAREN, RPAREN | LBRACE, LBRACE
  | RBRACE, RBRACE | QUOTE, QUOTE | COMMA, COMMA | TASK, TASK | STRING, STRING | COMMAND, COMMAND | OUTPUT, OUTPUT
  | IDENT, IDENT | DECLARE, DECLARE | LINTERP, LINTERP | RINTERP, RINTERP => true
  | _, _ => false
  end.

(* parser.getLine(token) *)
Definition pgetLine (p : ps) (t : token) : option bytes :=
  let lines := map trim (split_nl [] (pinp p)) in
  match tline t with O => nth_error lines 0 | S n => nth_error lines n end.

(* the lexer's error token carried as a parser error *)
Definition lex_err (t : token) : presult := PErr (eline t) (ectx t).
Definition illegal (p : ps) (enc ctxtok : token) : presult := PErr (tline enc) (pgetLine p ctxtok).

Definition strip_quotes (s : bytes) : bytes := filter (fun b => negb (b =? 34)) s.

Inductive r A := Ok (a : A) (p : ps) | Fail (e : presult).
Arguments Ok {A}. Arguments Fail {A}.

Definition expect (k : ttype) (p : ps) : r unit :=
  let '(got, p1) := pnext p in
  if tis got ERROR then Fail (lex_err got)
  else if negb (tis got k) then Fail (illegal p1 got got)
  else Ok tt p1.

(* loop used by parseFunction / parseTaskDependencies: first token already read *)
Fixpoint args_loop (fuel : nat) (next : token) (acc : list arg) (p : ps) : r (list arg) :=
  match fuel with
  | O => Fail PFuel
  | S f =>
    if tis next RPAREN then Ok (rev acc) p
    else if tis next STRING then let '(n, p1) := pnext p in args_loop f n (AString (strip_quotes (val next)) :: acc) p1
    else if tis next IDENT then let '(n, p1) := pnext p in args_loop f n (AIdent (val next) :: acc) p1
    else if tis next COMMA then let '(n, p1) := pnext p in args_loop f n acc p1
    else if tis next ERROR then Fail (lex_err next)
    else Fail (illegal p next next)
  end.

(* the loop inside parseTaskOutputs's LPAREN case (lp = the LPAREN token, unused since the D6 repair) *)
Fixpoint outs_loop (fuel : nat) (lp tok : token) (acc : list arg) (p : ps) : r (list arg) :=
  match fuel with
  | O => Fail PFuel
  | S f =>
    if tis tok RPAREN then Ok (rev acc) p
    else if tis tok STRING then let '(n, p1) := pnext p in outs_loop f lp n (AString (strip_quotes (val tok)) :: acc) p1
    else if tis tok IDENT then let '(n, p1) := pnext p in outs_loop f lp n (AIdent (val tok) :: acc) p1
    else if tis tok COMMA then let '(n, p1) := pnext p in outs_loop f lp n acc p1
    else if tis tok ERROR then Fail (lex_err tok)
    else Fail (illegal p tok tok)
  end.

Definition parseFunction (fuel : nat) (ident : token) (p : ps) : r rhs :=
  match expect LPAREN p with
  | Fail e => Fail e
  | Ok _ p1 =>
    let '(n, p2) := pnext p1 in
    match args_loop fuel n [] p2 with
    | Fail e => Fail e
    | Ok args p3 => Ok (RFunc (val ident) args) p3
    end
  end.

Definition parseAssign (fuel : nat) (ident : token) (p : ps) : r node :=
  match expect DECLARE p with
  | Fail e => Fail e
  | Ok _ p1 =>
    let '(next, p2) := pnext p1 in
    if tis next STRING then Ok (NAssign (val ident) (RString (strip_quotes (val next)))) p2
    else if tis next IDENT then
      let '(n2, p3) := pnext p2 in
      if tis n2 LPAREN then
        match parseFunction fuel next (pbackup p3) with
        | Fail e => Fail e
        | Ok f p4 => Ok (NAssign (val ident) f) p4
        end
      else Ok (NAssign (val ident) (RIdent (val next))) (pbackup p3)
    else if tis next ERROR then Fail (lex_err next)
    else Fail (illegal p2 next next)
  end.

Definition parseTaskOutputs (fuel : nat) (p : ps) : r (list arg) :=
  let '(t, p1) := pnext p in
  if tis t OUTPUT then
    let '(next, p2) := pnext p1 in
    if tis next STRING then Ok [AString (strip_quotes (val next))] p2
    else if tis next IDENT then Ok [AIdent (val next)] p2
    else if tis next COMMA then Ok [] p2
    else if tis next LPAREN then let '(tok, p3) := pnext p2 in outs_loop fuel next tok [] p3
    else if tis next ERROR then Fail (lex_err next)
    else Fail (illegal p2 next next)
  else Ok [] (pbackup p1).

Fixpoint cmds_loop (fuel : nat) (acc : list bytes) (p : ps) : r (list bytes) :=
  match fuel with
  | O => Fail PFuel
  | S f =>
    let '(next, p1) := pnext p in
    if tis next ERROR then Fail (lex_err next)
    else if tis next RBRACE then Ok (rev acc) p1
    else if tis next COMMAND then cmds_loop f (val next :: acc) p1
    else cmds_loop f acc p1
  end.

Definition parseTask (fuel : nat) (doc : bytes) (p : ps) : r node :=
  let '(nm, p1) := pnext p in
  match expect LPAREN p1 with
  | Fail e => Fail e
  | Ok _ p2 =>
    let '(n, p3) := pnext p2 in
    match args_loop fuel n [] p3 with
    | Fail e => Fail e
    | Ok deps p4 =>
      match parseTaskOutputs fuel p4 with
      | Fail e => Fail e
      | Ok outs p5 =>
        match expect LBRACE p5 with
        | Fail e => Fail e
        | Ok _ p6 =>
          match cmds_loop fuel [] p6 with
          | Fail e => Fail e
          | Ok cmds p7 => Ok (NTask doc (val nm) deps outs cmds) p7
          end
        end
      end
    end
  end.

Fixpoint parse_loop (fuel : nat) (next : token) (acc : list node) (p : ps) : presult :=
  match fuel with
  | O => PFuel
  | S f =>
    if tis next EOF then PTree (rev acc)
    else if tis next ERROR then lex_err next
    else if tis next HASH then
      let '(c, p1) := pnext p in
      let '(t, p2) := pnext p1 in
      if tis t TASK && negb (is_nil (val c)) then
        match parseTask fuel (val c) p2 with
        | Fail e => e
        | Ok task p3 => let '(n, p4) := pnext p3 in parse_loop f n (task :: acc) p4
        end
      else let '(n, p3) := pnext (pbackup p2) in parse_loop f n (NComment (val c) :: acc) p3
    else if tis next IDENT then
      match parseAssign fuel next p with
      | Fail e => e
      | Ok a p1 => let '(n, p2) := pnext p1 in parse_loop f n (a :: acc) p2
      end
    else if tis next TASK then
      match parseTask fuel [] p with
      | Fail e => e
      | Ok task p1 => let '(n, p2) := pnext p1 in parse_loop f n (task :: acc) p2
      end
    else illegal p next next
  end.

Definition parse (s : bytes) : presult :=
  let '(f, toks) := lex s in
  match f with
  | FPanic => PPanic
  | FFuel => PFuel
  | FOk =>
    let p0 := {| buf := zero_tok; pending := false; rest := toks; pinp := s |} in
    let fuel := S (S (length toks)) in
    let '(n, p1) := pnext p0 in
    match parse_loop fuel n [] p1 with
    | PErr l None => PPanic
    | r => r
    end
  end.

(* ---- printer: ast.Tree.String ---- *)
Definition b_quote : bytes := [34].
Definition arg_str (a : arg) : bytes := match a with AString s => b_quote ++ s ++ b_quote | AIdent s => s end.
Fixpoint join_sep (sep : bytes) (l : list bytes) : bytes :=
  match l with [] => [] | [x] => x | x :: t => x ++ sep ++ join_sep sep t end.
Definition comma_sp : bytes := [44; 32].
Definition comment_str (text : bytes) : bytes :=
  match text with [] => [35; 10] | _ => [35; 32] ++ trim text ++ [10] end.
Definition doc_str (text : bytes) : bytes :=
  match text with [] => [] | _ => comment_str text end.
Definition rhs_str (v : rhs) : bytes :=
  match v with
  | RString s => b_quote ++ s ++ b_quote
  | RIdent s => s
  | RFunc n args => n ++ [40] ++ join_sep comma_sp (map arg_str args) ++ [41]
  end.
Definition node_str (n : node) : bytes :=
  match n with
  | NComment t => comment_str t
  | NAssign name v => name ++ [32; 58; 61; 32] ++ rhs_str v ++ [10]
  | NTask doc name deps outs cmds =>
    doc_str doc ++ [116; 97; 115; 107; 32] ++ name ++ [40] ++ join_sep comma_sp (map arg_str deps) ++ [41]
    ++ (match outs with
        | [] => []
        | [o] => [32; 45; 62; 32] ++ arg_str o
        | _ => [32; 45; 62; 32; 40] ++ join_sep comma_sp (map arg_str outs) ++ [41]
        end)
    ++ [32; 123; 10]
    ++ concat (map (fun c => [32; 32; 32; 32] ++ c ++ [10]) cmds)
    ++ [125; 10; 10]
  end.
Definition fmt (t : list node) : bytes := concat (map node_str t).
