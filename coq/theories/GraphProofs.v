(* Proofs about task selection and ordering (C03): Kahn's algorithm with an arbitrary iteration-order
   oracle, the recursive graph construction, and their composition run_order. *)
From Spok Require Import Base Graph.
From Coq Require Import Permutation.
Open Scope nat_scope.

(* ---------- basic list facts ---------- *)
Lemma mem_In x l : mem x l = true <-> In x l.
Proof.
  induction l as [|y l IH]; cbn [mem In]; [split; [discriminate|tauto]|].
  rewrite orb_true_iff, IH, Nat.eqb_eq. split; intros [H|H]; auto.
Qed.
Lemma mem_false x l : mem x l = false <-> ~ In x l.
Proof. rewrite <- mem_In. destruct (mem x l); split; congruence. Qed.

Lemma has_dup_NoDup l : has_dup l = false <-> NoDup l.
Proof.
  induction l as [|x l IH]; cbn [has_dup]; [split; [constructor|reflexivity]|].
  rewrite orb_false_iff, IH, mem_false. split.
  - intros [H1 H2]. constructor; assumption.
  - intros H. inversion H; subst. split; assumption.
Qed.

Lemma dedup_In x l : In x (dedup l) <-> In x l.
Proof.
  induction l as [|y l IH]; cbn [dedup]; [tauto|].
  destruct (mem y l) eqn:E; cbn [In]; rewrite IH; [|tauto].
  apply mem_In in E. split; [tauto|]. intros [->|H]; auto.
Qed.
Lemma dedup_NoDup l : NoDup (dedup l).
Proof.
  induction l as [|y l IH]; cbn [dedup]; [constructor|].
  destruct (mem y l) eqn:E; [exact IH|]. constructor; [|exact IH]. rewrite dedup_In. apply mem_false. exact E.
Qed.

Lemma remove_n_In x y l : In y (remove_n x l) <-> y <> x /\ In y l.
Proof.
  induction l as [|z l IH]; cbn [remove_n In]; [tauto|].
  destruct (Nat.eqb x z) eqn:E.
  - apply Nat.eqb_eq in E. subst z. rewrite IH. split; [tauto|]. intros [H1 [H2|H2]]; [congruence|tauto].
  - apply Nat.eqb_neq in E. cbn [In]. rewrite IH. split; [intros [->|H]; [split; [congruence|auto]|tauto]|tauto].
Qed.

Lemma parents_In g p c : In p (parents_of g c) <-> In (p, c) (edges g).
Proof.
  unfold parents_of. rewrite dedup_In, in_map_iff. split.
  - intros ([a b] & <- & H). apply filter_In in H. destruct H as [H E]. cbn in E. apply Nat.eqb_eq in E. subst. exact H.
  - intros H. exists (p, c). split; [reflexivity|]. apply filter_In. split; [exact H|]. cbn. apply Nat.eqb_refl.
Qed.
Lemma children_In g v c : In c (children_of g v) <-> In (v, c) (edges g).
Proof.
  unfold children_of. rewrite dedup_In, in_map_iff. split.
  - intros ([a b] & <- & H). apply filter_In in H. destruct H as [H E]. cbn in E. apply Nat.eqb_eq in E. subst. exact H.
  - intros H. exists (v, c). split; [reflexivity|]. apply filter_In. split; [exact H|]. cbn. apply Nat.eqb_refl.
Qed.
Lemma children_NoDup g v : NoDup (children_of g v).
Proof. apply dedup_NoDup. Qed.

Lemma NoDup_app_intro {A} (a b : list A) : NoDup a -> NoDup b -> (forall x, In x a -> In x b -> False) -> NoDup (a ++ b).
Proof.
  induction a as [|x a IH]; intros Ha Hb Hd; cbn [app]; [exact Hb|].
  inversion Ha; subst. constructor.
  - intros H. apply in_app_or in H. destruct H as [H|H]; [contradiction|]. eapply Hd; [left; reflexivity|exact H].
  - apply IH; auto. intros y Hy Hy'. eapply Hd; [right; exact Hy|exact Hy'].
Qed.

Definition is_nil_l (l : list name) : bool := match l with [] => true | _ => false end.

(* ---------- Kahn's algorithm ---------- *)
Section KahnProofs.
Variable pick : nat -> list name -> list name.
Hypothesis pick_perm : forall k l, Permutation (pick k l) l.

Lemma visit_children_spec v : forall cs rem newq, NoDup cs ->
  let '(rem', newq') := visit_children v cs rem newq in
  (forall x, rem' x = if mem x cs then remove_n v (rem x) else rem x) /\
  newq' = newq ++ filter (fun c => is_nil_l (remove_n v (rem c))) cs.
Proof.
  induction cs as [|c cs IH]; intros rem newq ND; cbn [visit_children].
  - split; [intros x; reflexivity|]. cbn. rewrite app_nil_r. reflexivity.
  - inversion ND as [|? ? Hc ND']; subst.
    set (rc := remove_n v (rem c)). set (rem1 := fun x => if Nat.eqb x c then rc else rem x).
    specialize (IH rem1 (match rc with [] => newq ++ [c] | _ => newq end) ND').
    destruct (visit_children v cs rem1 _) as [rem' newq']. destruct IH as [IH1 IH2]. split.
    + intros x. rewrite IH1. cbn [mem]. unfold rem1.
      destruct (Nat.eqb x c) eqn:E; cbn [orb].
      * apply Nat.eqb_eq in E. subst x. apply mem_false in Hc. rewrite Hc. reflexivity.
      * reflexivity.
    + rewrite IH2. cbn [filter]. fold rc.
      assert (F : filter (fun c0 : name => is_nil_l (remove_n v (rem1 c0))) cs = filter (fun c0 : name => is_nil_l (remove_n v (rem c0))) cs).
      { apply filter_ext_in. intros a Ha. unfold rem1. destruct (Nat.eqb a c) eqn:E; [|reflexivity].
        apply Nat.eqb_eq in E. subst a. contradiction. }
      rewrite F. destruct rc; cbn [is_nil_l]; [rewrite <- app_assoc; reflexivity|reflexivity].
Qed.

Variable g : graph.
Hypothesis wf_edges : forall a b, In (a, b) (edges g) -> In a (verts g) /\ In b (verts g).

Definition ordered (r : list name) : Prop :=
  forall r1 c r2, r = r1 ++ c :: r2 -> forall p, In p (parents_of g c) -> In p r1.

Record KInv (rem : name -> list name) (q r : list name) : Prop := {
  k_nodup : NoDup (r ++ q);
  k_rem : forall c p, In p (rem c) <-> In p (parents_of g c) /\ ~ In p r;
  k_done : forall c, In c (verts g) -> (In c (r ++ q) <-> rem c = []);
  k_ord : ordered r;
  k_sub : incl (r ++ q) (verts g)
}.

Lemma ordered_snoc r v : ordered r -> (forall p, In p (parents_of g v) -> In p r) -> ordered (r ++ [v]).
Proof.
  intros O Hv r1 c r2 E p Hp.
  destruct r2 as [|x r2] using rev_ind.
  - apply app_inj_tail in E. destruct E as [-> ->]. apply Hv. exact Hp.
  - clear IHr2. rewrite app_comm_cons, app_assoc in E. apply app_inj_tail in E. destruct E as [E _].
    eapply O; eauto.
Qed.

Lemma kahn_step rem v q r k :
  KInv rem (v :: q) r ->
  let '(rem', newq) := visit_children v (pick k (children_of g v)) rem [] in
  KInv rem' (q ++ newq) (r ++ [v]).
Proof.
  intros [ND Hrem Hdone Hord Hsub].
  set (cs := pick k (children_of g v)).
  assert (NDcs : NoDup cs) by (eapply Permutation_NoDup; [apply Permutation_sym, pick_perm|apply children_NoDup]).
  assert (Incs : forall c, In c cs <-> In (v, c) (edges g)).
  { intros c. unfold cs. rewrite <- children_In. split; apply Permutation_in; [apply pick_perm|apply Permutation_sym, pick_perm]. }
  pose proof (visit_children_spec v cs rem [] NDcs) as S.
  destruct (visit_children v cs rem []) as [rem' newq]. destruct S as [S1 S2]. cbn [app] in S2.
  assert (Vr : ~ In v r).
  { apply NoDup_remove_2 in ND. intros H. apply ND. apply in_or_app. left. exact H. }
  assert (Vv : In v (verts g)) by (apply Hsub; apply in_or_app; right; left; reflexivity).
  assert (RemV : rem v = []) by (apply (Hdone v Vv); apply in_or_app; right; left; reflexivity).
  (* a child of v cannot already be finished or queued *)
  assert (ChildFresh : forall c, In c cs -> ~ In c (r ++ v :: q)).
  { intros c Hc Hin. assert (Vc : In c (verts g)) by (apply Hsub; exact Hin).
    apply (Hdone c Vc) in Hin. assert (In v (rem c)) as X.
    { apply Hrem. split; [apply parents_In, Incs; exact Hc|exact Vr]. }
    rewrite Hin in X. contradiction. }
  assert (Newq : forall c, In c newq <-> In c cs /\ rem' c = []).
  { intros c. rewrite S2, filter_In. rewrite S1. split.
    - intros [H1 H2]. split; [exact H1|]. apply mem_In in H1. rewrite H1. destruct (remove_n v (rem c)); [reflexivity|discriminate].
    - intros [H1 H2]. split; [exact H1|]. pose proof H1 as H1'. apply mem_In in H1'. rewrite H1' in H2. rewrite H2. reflexivity. }
  constructor.
  - (* NoDup *)
    rewrite <- app_assoc. cbn [app].
    assert (P : Permutation (r ++ v :: q ++ newq) ((r ++ v :: q) ++ newq)) by (rewrite <- app_assoc; reflexivity).
    eapply Permutation_NoDup; [apply Permutation_sym; exact P|].
    apply NoDup_app_intro; [exact ND| |].
    + rewrite S2. apply NoDup_filter. exact NDcs.
    + intros x Hx Hn. apply Newq in Hn. destruct Hn as [Hn _]. eapply ChildFresh; eauto.
  - (* rem' *)
    intros c p. rewrite S1. destruct (mem c cs) eqn:E.
    + rewrite remove_n_In, Hrem, in_app_iff. cbn [In].
      split; [intros [H1 [H2 H3]]; split; [exact H2|intros [H|[H|[]]]; [tauto|congruence]]
             |intros [H1 H2]; split; [intros ->; apply H2; right; left; reflexivity
                                    |split; [exact H1|intros H; apply H2; left; exact H]]].
    + rewrite Hrem, in_app_iff. cbn [In]. apply mem_false in E. rewrite Incs, <- parents_In in E.
      split; [intros [H1 H2]; split; [exact H1|]; intros [H|[H|[]]]; [tauto|subst; tauto]|tauto].
  - (* done *)
    intros c Vc. rewrite <- app_assoc. cbn [app]. split.
    + intros H. apply in_app_or in H. destruct H as [H|[H|H]].
      * assert (R : rem c = []) by (apply (Hdone c Vc); apply in_or_app; left; exact H).
        rewrite S1, R. destruct (mem c cs); reflexivity.
      * subst c. rewrite S1, RemV. destruct (mem v cs); reflexivity.
      * apply in_app_or in H. destruct H as [H|H].
        -- assert (R : rem c = []) by (apply (Hdone c Vc); apply in_or_app; right; right; exact H).
           rewrite S1, R. destruct (mem c cs); reflexivity.
        -- apply Newq in H. tauto.
    + intros H. destruct (mem c cs) eqn:E.
      * apply in_or_app. right. right. apply in_or_app. right. apply Newq. split; [apply mem_In; exact E|exact H].
      * rewrite S1, E in H. apply (Hdone c Vc) in H. apply in_app_or in H. apply in_or_app.
        destruct H as [H|[H|H]]; [left; exact H|right; left; exact H|right; right; apply in_or_app; left; exact H].
  - (* ordered *)
    apply ordered_snoc; [exact Hord|]. intros p Hp.
    destruct (in_dec Nat.eq_dec p r) as [Hr|Hr]; [exact Hr|]. exfalso.
    assert (In p (rem v)) by (apply Hrem; split; assumption). rewrite RemV in H. contradiction.
  - (* incl *)
    intros x Hx. rewrite <- app_assoc in Hx. cbn [app] in Hx. apply in_app_or in Hx. destruct Hx as [Hx|[Hx|Hx]].
    + apply Hsub. apply in_or_app. left. exact Hx.
    + subst x. exact Vv.
    + apply in_app_or in Hx. destruct Hx as [Hx|Hx]; [apply Hsub; apply in_or_app; right; right; exact Hx|].
      apply Newq in Hx. destruct Hx as [Hx _]. apply Incs in Hx. apply wf_edges in Hx. tauto.
Qed.

Lemma NoDup_incl_len (a b : list name) : NoDup a -> incl a b -> length a <= length b.
Proof. apply NoDup_incl_length. Qed.

Lemma kahn_loop_ok : forall fuel k rem q r, KInv rem q r -> length (verts g) < fuel + length r ->
  exists o, kahn_loop pick fuel g k rem q r = GOk o /\ KInv (fun _ => []) [] o \/
            exists rem', kahn_loop pick fuel g k rem q r = GOk o /\ KInv rem' [] o.
Proof.
  induction fuel as [|fuel IH]; intros k rem q r HI Hf.
  - destruct q as [|v q].
    + exists r. right. exists rem. split; [reflexivity|exact HI].
    + exfalso. destruct HI as [ND _ _ _ Hsub].
      pose proof (NoDup_incl_len _ _ ND Hsub) as L. rewrite app_length in L. cbn [length] in L. lia.
  - destruct q as [|v q]; cbn [kahn_loop].
    + exists r. right. exists rem. split; [reflexivity|exact HI].
    + pose proof (kahn_step rem v q r k HI) as St.
      destruct (visit_children v (pick k (children_of g v)) rem []) as [rem' newq].
      apply IH; [exact St|]. rewrite app_length. cbn [length]. lia.
Qed.

(* the outcome of a finished loop *)
Lemma kahn_loop_final fuel k rem q r : KInv rem q r -> length (verts g) < fuel + length r ->
  exists o rem', kahn_loop pick fuel g k rem q r = GOk o /\ KInv rem' [] o.
Proof.
  intros HI Hf. destruct (kahn_loop_ok fuel k rem q r HI Hf) as (o & [[E K]|(rem' & E & K)]); eauto.
Qed.

Lemma init_inv : let q0 := filter (fun v => is_nil_l (parents_of g v)) (pick 0 (verts g)) in
  NoDup (verts g) -> KInv (parents_of g) q0 [].
Proof.
  intros q0 NDv. constructor; cbn [app].
  - apply NoDup_filter. eapply Permutation_NoDup; [apply Permutation_sym, pick_perm|exact NDv].
  - intros c p. cbn [In]. tauto.
  - intros c Vc. unfold q0. rewrite filter_In. split.
    + intros [_ H]. destruct (parents_of g c); [reflexivity|discriminate].
    + intros H. split; [eapply Permutation_in; [apply Permutation_sym, pick_perm|exact Vc]|rewrite H; reflexivity].
  - intros r1 c r2 E. destruct r1; discriminate.
  - intros x Hx. unfold q0 in Hx. apply filter_In in Hx. destruct Hx as [Hx _].
    eapply Permutation_in; [apply pick_perm|exact Hx].
Qed.

Lemma kahn_q0_same : filter (fun v => match parents_of g v with [] => true | _ => false end) (pick 0 (verts g))
                   = filter (fun v => is_nil_l (parents_of g v)) (pick 0 (verts g)).
Proof. reflexivity. Qed.

(* soundness: whatever Sort returns is duplicate-free, within the vertex set, parents first;
   it never runs out of fuel *)
Theorem kahn_sound : NoDup (verts g) ->
  (exists o rem', kahn pick g = GOk o /\ KInv rem' [] o) \/ kahn pick g = GErr ECycle.
Proof.
  intros NDv. unfold kahn. rewrite kahn_q0_same.
  pose proof (init_inv NDv) as HI. cbn zeta in HI.
  destruct (filter (fun v => is_nil_l (parents_of g v)) (pick 0 (verts g))) as [|v0 q0] eqn:Eq; [right; reflexivity|].
  left. apply kahn_loop_final; [exact HI|]. cbn [length]. lia.
Qed.

(* completeness: if some order of all vertices respects the edges, Sort returns all of them *)
Lemma final_complete rem o o' : KInv rem [] o ->
  NoDup o' -> (forall x, In x o' <-> In x (verts g)) -> ordered o' ->
  forall x, In x (verts g) -> In x o.
Proof.
  intros [ND Hrem Hdone Hord Hsub] ND' Same Ord'.
  (* strong induction along o': every prefix of o' is inside o *)
  assert (P : forall pre post, o' = pre ++ post -> forall x, In x pre -> In x o).
  { induction pre as [|y pre IH] using rev_ind; intros post E x Hx; [contradiction|].
    rewrite <- app_assoc in E. cbn [app] in E.
    apply in_app_or in Hx. destruct Hx as [Hx|[<-|[]]]; [eapply IH; eauto|].
    assert (Vy : In y (verts g)) by (apply Same; rewrite E; apply in_or_app; right; left; reflexivity).
    assert (R : rem y = []).
    { destruct (rem y) as [|p l] eqn:Er; [reflexivity|]. exfalso.
      assert (Hp : In p (rem y)) by (rewrite Er; left; reflexivity).
      apply Hrem in Hp. destruct Hp as [Hp1 Hp2]. apply Hp2.
      eapply IH; [exact E|]. eapply Ord'; eauto. }
    apply (Hdone y Vy) in R. rewrite app_nil_r in R. exact R. }
  intros x Vx. apply (P o' [] (eq_sym (app_nil_r o'))). apply Same. exact Vx.
Qed.

Theorem kahn_complete o' : NoDup (verts g) -> verts g <> [] ->
  NoDup o' -> (forall x, In x o' <-> In x (verts g)) -> ordered o' ->
  exists o, kahn pick g = GOk o /\ length o = length (verts g).
Proof.
  intros NDv NE ND' Same Ord'.
  destruct (kahn_sound NDv) as [(o & rem' & E & K)|E].
  - exists o. split; [exact E|].
    pose proof (final_complete rem' o o' K ND' Same Ord') as All.
    destruct K as [ND _ _ _ Hsub]. rewrite app_nil_r in ND, Hsub.
    apply Nat.le_antisymm; apply NoDup_incl_length; auto.
  - exfalso. unfold kahn in E. rewrite kahn_q0_same in E.
    destruct (filter (fun v => is_nil_l (parents_of g v)) (pick 0 (verts g))) as [|v0 q0] eqn:Eq.
    + (* the first vertex of o' has no parents, so the initial queue cannot be empty *)
      destruct o' as [|y o'].
      * destruct (verts g) as [|z l]; [congruence|]. assert (In z []) by (apply Same; left; reflexivity). contradiction.
      * assert (Vy : In y (verts g)) by (apply Same; left; reflexivity).
        assert (Py : parents_of g y = []).
        { destruct (parents_of g y) as [|p l] eqn:Ep; [reflexivity|]. exfalso.
          assert (In p []) as X; [|contradiction]. apply (Ord' [] y o' eq_refl). rewrite Ep. left. reflexivity. }
        assert (In y []) as X; [|contradiction]. rewrite <- Eq. apply filter_In. split.
        -- eapply Permutation_in; [apply Permutation_sym, pick_perm|exact Vy].
        -- rewrite Py. reflexivity.
    + destruct (kahn_loop_final (S (length (verts g))) 1 (parents_of g) (v0 :: q0) []) as (o & rem' & E' & _).
      * rewrite <- Eq. apply (init_inv NDv).
      * cbn [length]. lia.
      * rewrite E' in E. discriminate.
Qed.

End KahnProofs.

(* ---------- the recursive graph construction ---------- *)
Section Build.
Variable ds : defs.

Definition deps_of (t : name) : list name := match lookup ds t with Some l => l | None => [] end.

Inductive Reach (req : list name) : name -> Prop :=
| reach_req n : In n req -> Reach req n
| reach_dep t d : Reach req t -> In d (deps_of t) -> Reach req d.

Lemma Reach_trans req t x : Reach req t -> Reach [t] x -> Reach req x.
Proof.
  intros Ht. induction 1 as [n Hn|u d _ IH Hd].
  - destruct Hn as [<-|[]]. exact Ht.
  - eapply reach_dep; eauto.
Qed.

Definition closed_at (g : graph) (t : name) : Prop :=
  forall d, In d (deps_of t) -> In d (verts g) /\ In (d, t) (edges g).
Definition ext (g g' : graph) : Prop := incl (verts g) (verts g') /\ incl (edges g) (edges g').

Lemma ext_refl g : ext g g. Proof. split; apply incl_refl. Qed.
Lemma ext_trans a b c : ext a b -> ext b c -> ext a c.
Proof. intros [A1 A2] [B1 B2]. split; eapply incl_tran; eauto. Qed.
Lemma closed_mono g g' t : ext g g' -> closed_at g t -> closed_at g' t.
Proof. intros [E1 E2] C d Hd. destruct (C d Hd). split; [apply E1|apply E2]; assumption. Qed.

Record GInv (g : graph) : Prop := {
  gi_nodup : NoDup (verts g);
  gi_def : forall v, In v (verts g) -> lookup ds v <> None;
  gi_edges : forall d t, In (d, t) (edges g) -> In d (verts g) /\ In t (verts g) /\ In d (deps_of t)
}.

Definition free (g : graph) : nat := length (filter (fun n => negb (mem n (verts g))) (map fst ds)).

Lemma lookup_In n l : lookup ds n = Some l -> In n (map fst ds).
Proof.
  induction ds as [|[m deps] t IH]; cbn [lookup map fst]; [discriminate|].
  destruct (Nat.eqb n m) eqn:E; [apply Nat.eqb_eq in E; subst; left; reflexivity|]. intros H. right. apply IH. exact H.
Qed.

Lemma filter_len_le {A} (f f' : A -> bool) l : (forall x, f' x = true -> f x = true) -> length (filter f' l) <= length (filter f l).
Proof.
  intros H. induction l as [|x l IH]; cbn [filter]; [lia|].
  destruct (f' x) eqn:E'; [rewrite (H x E'); cbn [length]; lia|]. destruct (f x); cbn [length]; lia.
Qed.
Lemma filter_len_lt {A} (f f' : A -> bool) l a : (forall x, f' x = true -> f x = true) -> In a l -> f a = true -> f' a = false ->
  length (filter f' l) < length (filter f l).
Proof.
  intros H. induction l as [|x l IH]; intros Ha Fa F'a; [contradiction|]. cbn [filter].
  destruct Ha as [->|Ha].
  - rewrite Fa, F'a. cbn [length]. pose proof (filter_len_le f f' l H). lia.
  - specialize (IH Ha Fa F'a). destruct (f' x) eqn:E'; [rewrite (H x E'); cbn [length]; lia|].
    destruct (f x); cbn [length]; lia.
Qed.

Lemma free_mono g g' : incl (verts g) (verts g') -> free g' <= free g.
Proof.
  intros I. unfold free. apply filter_len_le. intros x Hx. apply negb_true_iff in Hx. apply negb_true_iff.
  apply mem_false in Hx. apply mem_false. intros H. apply Hx. apply I. exact H.
Qed.
Lemma free_lt g g' d : incl (verts g) (verts g') -> lookup ds d <> None -> ~ In d (verts g) -> In d (verts g') -> free g' < free g.
Proof.
  intros I Hd Hn Hi. unfold free. apply filter_len_lt with (a := d).
  - intros x Hx. apply negb_true_iff in Hx. apply negb_true_iff. apply mem_false in Hx. apply mem_false. intros H. apply Hx. apply I. exact H.
  - destruct (lookup ds d) eqn:E; [eapply lookup_In; eauto|congruence].
  - apply negb_true_iff. apply mem_false. exact Hn.
  - apply negb_false_iff. apply mem_In. exact Hi.
Qed.

Definition post_ok (t : name) (g g' : graph) : Prop :=
  GInv g' /\ ext g g' /\ (forall x, In x (verts g') -> In x (verts g) \/ Reach [t] x) /\
  (forall x, In x (verts g') -> ~ In x (verts g) -> closed_at g' x).
Definition post_err (t : name) (e : gerr) : Prop :=
  exists t' d, e = EUndefinedDep t' d /\ Reach [t] t' /\ In d (deps_of t') /\ lookup ds d = None.

Definition add_spec (f : nat) : Prop :=
  forall g t, GInv g -> In t (verts g) -> free g < f ->
  match add_deps f ds g t with
  | GOk g' => post_ok t g g' /\ closed_at g' t
  | GErr e => post_err t e
  end.

Lemma RF_self t : Reach [t] t. Proof. apply reach_req. left. reflexivity. Qed.

Lemma go_ok f t : add_spec f -> forall l g, GInv g -> In t (verts g) -> free g <= f -> incl l (deps_of t) ->
  match go_deps (fun g' d => add_deps f ds g' d) ds t l g with
  | GOk g' => post_ok t g g' /\ (forall d, In d l -> In d (verts g') /\ In (d, t) (edges g'))
  | GErr e => post_err t e
  end.
Proof.
  intros IHf. induction l as [|d rest IH]; intros g HI Ht Hfree Hl; cbn [go_deps].
  - split; [|intros d []]. split; [exact HI|]. split; [apply ext_refl|]. split; [auto|intros x H1 H2; contradiction].
  - assert (Hd : In d (deps_of t)) by (apply Hl; left; reflexivity).
    assert (Hrest : incl rest (deps_of t)) by (intros x Hx; apply Hl; right; exact Hx).
    destruct (lookup ds d) as [dd|] eqn:Ed.
    2:{ exists t, d. repeat split; auto. apply RF_self. }
    destruct (mem d (verts g)) eqn:Em; cbn [negb].
    + (* already a vertex: just the edge *)
      apply mem_In in Em.
      set (g1 := {| verts := verts g; edges := edges g ++ [(d, t)] |}).
      assert (E1 : ext g g1) by (split; [apply incl_refl|apply incl_appl, incl_refl]).
      assert (HI1 : GInv g1).
      { destruct HI as [A B C]. constructor; cbn [verts edges g1]; auto.
        intros a b H. apply in_app_or in H. destruct H as [H|[H|[]]]; [apply C; exact H|]. inversion H; subst. auto. }
      specialize (IH g1 HI1 Ht Hfree Hrest).
      destruct (go_deps _ ds t rest g1) as [g'|e]; [|exact IH].
      destruct IH as [(P1 & P2 & P3 & P4) Q]. split.
      * split; [exact P1|]. split; [eapply ext_trans; eauto|]. split; [exact P3|exact P4].
      * intros x [<-|Hx]; [|apply Q; exact Hx]. destruct P2 as [V E]. split; [apply V; exact Em|].
        apply E. cbn [edges g1]. apply in_or_app. right. left. reflexivity.
    + (* a new vertex: add it, the edge, and recurse *)
      apply mem_false in Em.
      set (g1 := {| verts := verts g ++ [d]; edges := edges g ++ [(d, t)] |}).
      assert (E1 : ext g g1) by (split; apply incl_appl, incl_refl).
      assert (Dd : lookup ds d <> None) by congruence.
      assert (HI1 : GInv g1).
      { destruct HI as [A B C]. constructor; cbn [verts edges g1].
        - apply NoDup_app_intro; [exact A|repeat constructor; intros []|]. intros x H1 [<-|[]]. contradiction.
        - intros v H. apply in_app_or in H. destruct H as [H|[<-|[]]]; auto.
        - intros a b H. apply in_app_or in H. destruct H as [H|[H|[]]].
          + destruct (C a b H) as (X & Y & Z). repeat split; auto; apply in_or_app; left; assumption.
          + inversion H; subst. repeat split; auto; apply in_or_app; [right; left; reflexivity|left; exact Ht]. }
      assert (In1 : In d (verts g1)) by (cbn [verts g1]; apply in_or_app; right; left; reflexivity).
      assert (F1 : free g1 < f).
      { assert (free g1 < free g) by (apply (free_lt g g1 d); [apply E1|exact Dd|exact Em|exact In1]). lia. }
      pose proof (IHf g1 d HI1 In1 F1) as R.
      destruct (add_deps f ds g1 d) as [g2|e].
      2:{ destruct R as (t' & d' & -> & R1 & R2 & R3). exists t', d'. repeat split; auto.
          eapply Reach_trans; [|exact R1]. eapply reach_dep; [apply RF_self|exact Hd]. }
      destruct R as [(P1 & P2 & P3 & P4) P5].
      assert (Ht2 : In t (verts g2)) by (apply P2, E1; exact Ht).
      assert (F2 : free g2 <= f) by (pose proof (free_mono g1 g2 (proj1 P2)); lia).
      specialize (IH g2 P1 Ht2 F2 Hrest).
      destruct (go_deps _ ds t rest g2) as [g'|e]; [|exact IH].
      destruct IH as [(Q1 & Q2 & Q3 & Q4) Q].
      assert (RFd : Reach [t] d) by (eapply reach_dep; [apply RF_self|exact Hd]).
      split.
      * split; [exact Q1|]. split; [eapply ext_trans; [exact E1|eapply ext_trans; eauto]|]. split.
        -- intros x Hx. destruct (Q3 x Hx) as [H|H]; [|right; exact H].
           destruct (P3 x H) as [H'|H']; [|right; eapply Reach_trans; eauto].
           cbn [verts g1] in H'. apply in_app_or in H'. destruct H' as [H'|[<-|[]]]; [left; exact H'|right; exact RFd].
        -- intros x Hx Hn. destruct (in_dec Nat.eq_dec x (verts g2)) as [H2|H2]; [|apply Q4; assumption].
           apply (closed_mono g2 g' x Q2).
           destruct (in_dec Nat.eq_dec x (verts g1)) as [H1|H1]; [|apply P4; assumption].
           cbn [verts g1] in H1. apply in_app_or in H1. destruct H1 as [H1|[<-|[]]]; [contradiction|exact P5].
      * intros x [<-|Hx]; [|apply Q; exact Hx]. destruct P2 as [V2 E2]. destruct Q2 as [V3 E3].
        split; [apply V3, V2; exact In1|]. apply E3, E2. cbn [edges g1]. apply in_or_app. right. left. reflexivity.
Qed.

Lemma add_deps_ok : forall f, add_spec f.
Proof.
  induction f as [|f IH]; intros g t HI Ht Hf; [lia|]. cbn [add_deps].
  destruct (lookup ds t) as [deps|] eqn:Et.
  2:{ exfalso. destruct HI as [_ B _]. apply (B t Ht). exact Et. }
  assert (D : deps_of t = deps) by (unfold deps_of; rewrite Et; reflexivity).
  pose proof (go_ok f t IH deps g HI Ht ltac:(lia) ltac:(rewrite D; apply incl_refl)) as G.
  destruct (go_deps _ ds t deps g) as [g'|e]; [|exact G].
  destruct G as [P Q]. split; [exact P|]. intros d Hd. apply Q. rewrite <- D. exact Hd.
Qed.

(* the loop over the requested names *)
Record BInv (req0 : list name) (g : graph) : Prop := {
  b_inv : GInv g;
  b_reach : forall x, In x (verts g) -> Reach req0 x;
  b_closed : forall x, In x (verts g) -> closed_at g x
}.

Lemma filter_len_le_all {A} (f : A -> bool) l : length (filter f l) <= length l.
Proof. induction l as [|x l IH]; cbn [filter]; [lia|]. destruct (f x); cbn [length]; lia. Qed.
Lemma free_le_len g : free g <= length ds.
Proof. unfold free. etransitivity; [apply filter_len_le_all|]. rewrite map_length. lia. Qed.

Definition build_err (req0 : list name) (e : gerr) : Prop :=
  match e with
  | EUndefinedRequested n => In n req0 /\ lookup ds n = None
  | EUndefinedDep t d => Reach req0 t /\ In d (deps_of t) /\ lookup ds d = None
  | _ => False
  end.

Lemma build_loop_ok req0 : forall req g, BInv req0 g -> incl req req0 ->
  match build_graph_loop ds req g with
  | GOk g' => BInv req0 g' /\ ext g g' /\ (forall n, In n req -> In n (verts g'))
  | GErr e => build_err req0 e
  end.
Proof.
  induction req as [|n rest IH]; intros g HB Hreq; cbn [build_graph_loop].
  - split; [exact HB|]. split; [apply ext_refl|intros n []].
  - assert (Hn : In n req0) by (apply Hreq; left; reflexivity).
    assert (Hrest : incl rest req0) by (intros x Hx; apply Hreq; right; exact Hx).
    destruct (lookup ds n) as [dn|] eqn:En; [|cbn [build_err]; split; [exact Hn|exact En]].
    destruct (mem n (verts g)) eqn:Em.
    + apply mem_In in Em. specialize (IH g HB Hrest).
      destruct (build_graph_loop ds rest g) as [g'|e]; [|exact IH].
      destruct IH as (A & B & C). split; [exact A|]. split; [exact B|]. intros x [<-|Hx]; [apply B; exact Em|apply C; exact Hx].
    + apply mem_false in Em. destruct HB as [HI HR HC].
      set (g0 := {| verts := verts g ++ [n]; edges := edges g |}).
      assert (E0 : ext g g0) by (split; [apply incl_appl, incl_refl|apply incl_refl]).
      assert (HI0 : GInv g0).
      { destruct HI as [A B C]. constructor; cbn [verts edges g0].
        - apply NoDup_app_intro; [exact A|repeat constructor; intros []|]. intros x H1 [<-|[]]. contradiction.
        - intros v H. apply in_app_or in H. destruct H as [H|[<-|[]]]; [auto|congruence].
        - intros a b H. destruct (C a b H) as (X & Y & Z). repeat split; auto; apply in_or_app; left; assumption. }
      assert (In0 : In n (verts g0)) by (cbn [verts g0]; apply in_or_app; right; left; reflexivity).
      pose proof (add_deps_ok (S (length ds)) g0 n HI0 In0 ltac:(pose proof (free_le_len g0); lia)) as R.
      destruct (add_deps (S (length ds)) ds g0 n) as [g1|e].
      2:{ destruct R as (t' & d' & -> & R1 & R2 & R3). cbn [build_err]. repeat split; auto.
          eapply Reach_trans; [apply reach_req; exact Hn|exact R1]. }
      destruct R as [(P1 & P2 & P3 & P4) P5].
      assert (HB1 : BInv req0 g1).
      { constructor; [exact P1| |].
        - intros x Hx. destruct (P3 x Hx) as [H|H].
          + cbn [verts g0] in H. apply in_app_or in H. destruct H as [H|[<-|[]]]; [apply HR; exact H|apply reach_req; exact Hn].
          + eapply Reach_trans; [apply reach_req; exact Hn|exact H].
        - intros x Hx. destruct (in_dec Nat.eq_dec x (verts g0)) as [H0|H0]; [|apply P4; assumption].
          cbn [verts g0] in H0. apply in_app_or in H0. destruct H0 as [H0|[<-|[]]]; [|exact P5].
          apply (closed_mono g g1 x (ext_trans _ _ _ E0 P2)). apply HC. exact H0. }
      specialize (IH g1 HB1 Hrest).
      destruct (build_graph_loop ds rest g1) as [g'|e]; [|exact IH].
      destruct IH as (A & B & C). split; [exact A|]. split; [eapply ext_trans; [exact E0|eapply ext_trans; eauto]|].
      intros x [<-|Hx]; [apply B, P2; exact In0|apply C; exact Hx].
Qed.

Lemma empty_binv req0 : BInv req0 {| verts := []; edges := [] |}.
Proof. constructor; [constructor; cbn; [constructor|intros v []|intros d t []]|intros x []|intros x []]. Qed.

(* what buildGraph returns *)
Theorem build_graph_ok req :
  match build_graph ds req with
  | GOk g => GInv g /\ (forall x, In x (verts g) <-> Reach req x) /\
             (forall d t, In (d, t) (edges g) <-> In t (verts g) /\ In d (deps_of t))
  | GErr e => build_err req e
  end.
Proof.
  unfold build_graph. pose proof (build_loop_ok req req _ (empty_binv req) (incl_refl req)) as H.
  destruct (build_graph_loop ds req _) as [g|e]; [|exact H].
  destruct H as ([HI HR HC] & _ & Hreq). split; [exact HI|]. split.
  - intros x. split; [apply HR|]. induction 1 as [n Hn|t d _ IH Hd]; [apply Hreq; exact Hn|]. apply (HC t IH d Hd).
  - intros d t. split.
    + intros H. destruct HI as [_ _ C]. destruct (C d t H) as (_ & Y & Z). auto.
    + intros [Ht Hd]. apply (HC t Ht d Hd).
Qed.

End Build.

(* ---------- positions in an order ---------- *)
Lemma index_of_In x l : In x l -> exists i, index_of x l = Some i /\ i < length l.
Proof.
  induction l as [|y l IH]; intros H; [contradiction|]. cbn [index_of].
  destruct (Nat.eqb x y) eqn:E; [exists 0; cbn; split; [reflexivity|lia]|].
  destruct H as [->|H]; [rewrite Nat.eqb_refl in E; discriminate|].
  destruct (IH H) as (i & -> & Hi). exists (S i). cbn [length]. split; [reflexivity|lia].
Qed.
Lemma index_of_notin x l : ~ In x l -> index_of x l = None.
Proof.
  induction l as [|y l IH]; intros H; [reflexivity|]. cbn [index_of].
  destruct (Nat.eqb x y) eqn:E; [apply Nat.eqb_eq in E; subst; exfalso; apply H; left; reflexivity|].
  rewrite IH; [reflexivity|]. intros H'. apply H. right. exact H'.
Qed.
Lemma index_of_app_l x a b : In x a -> index_of x (a ++ b) = index_of x a.
Proof.
  induction a as [|y a IH]; intros H; [contradiction|]. cbn [app index_of].
  destruct (Nat.eqb x y) eqn:E; [reflexivity|]. destruct H as [->|H]; [rewrite Nat.eqb_refl in E; discriminate|].
  rewrite IH by exact H. reflexivity.
Qed.
Lemma index_of_app_r x a b : ~ In x a -> index_of x (a ++ b) = match index_of x b with Some i => Some (length a + i) | None => None end.
Proof.
  induction a as [|y a IH]; intros H; cbn [app index_of length]; [destruct (index_of x b); reflexivity|].
  destruct (Nat.eqb x y) eqn:E; [apply Nat.eqb_eq in E; subst; exfalso; apply H; left; reflexivity|].
  rewrite IH by (intros H'; apply H; right; exact H'). destruct (index_of x b); reflexivity.
Qed.

Lemma before_split r1 t r2 d : NoDup (r1 ++ t :: r2) -> In d r1 -> before (r1 ++ t :: r2) d t = true.
Proof.
  intros ND Hd. unfold before. rewrite (index_of_app_l d r1 _ Hd).
  destruct (index_of_In d r1 Hd) as (i & -> & Hi).
  assert (Nt : ~ In t r1). { apply NoDup_remove_2 in ND. intros H. apply ND. apply in_or_app. left. exact H. }
  rewrite (index_of_app_r t r1 _ Nt). cbn [index_of]. rewrite Nat.eqb_refl. apply Nat.ltb_lt. lia.
Qed.
Lemma before_split_inv r1 t r2 d : NoDup (r1 ++ t :: r2) -> before (r1 ++ t :: r2) d t = true -> In d r1.
Proof.
  intros ND H. unfold before in H.
  assert (Nt : ~ In t r1). { apply NoDup_remove_2 in ND. intros H'. apply ND. apply in_or_app. left. exact H'. }
  rewrite (index_of_app_r t r1 _ Nt) in H. cbn [index_of] in H. rewrite Nat.eqb_refl in H.
  destruct (in_dec Nat.eq_dec d r1) as [Hd|Hd]; [exact Hd|]. exfalso.
  rewrite (index_of_app_r d r1 _ Hd) in H. destruct (index_of d (t :: r2)); [|discriminate].
  apply Nat.ltb_lt in H. lia.
Qed.

(* ---------- run_order ---------- *)
Section Top.
Variable pick : nat -> list name -> list name.
Hypothesis pick_perm : forall k l, Permutation (pick k l) l.
Variable ds : defs.

Definition deps_before (o : list name) : Prop :=
  forall t d, In t o -> In d (deps_of ds t) -> before o d t = true.

(* an execution order C03 allows: each selected task once, exactly the tasks reachable from the request,
   every dependency strictly before its dependant *)
Definition valid_run (req o : list name) : Prop :=
  NoDup o /\ (forall x, In x o <-> Reach ds req x) /\ deps_before o.

Lemma ordered_deps_before g req o :
  (forall x, In x (verts g) <-> Reach ds req x) ->
  (forall d t, In (d, t) (edges g) <-> In t (verts g) /\ In d (deps_of ds t)) ->
  NoDup o -> incl o (verts g) -> ordered g o -> deps_before o.
Proof.
  intros Hv He ND Hi Ho t d Ht Hd.
  apply in_split in Ht. destruct Ht as (r1 & r2 & ->).
  apply before_split; [exact ND|]. eapply Ho; [reflexivity|]. apply parents_In, He. split; [|exact Hd].
  apply Hi. apply in_or_app. right. left. reflexivity.
Qed.

Lemma deps_before_ordered g req o :
  (forall x, In x (verts g) <-> Reach ds req x) ->
  (forall d t, In (d, t) (edges g) <-> In t (verts g) /\ In d (deps_of ds t)) ->
  valid_run req o -> ordered g o.
Proof.
  intros Hv He (ND & Hs & Hb) r1 c r2 E p Hp. subst o.
  apply parents_In, He in Hp. destruct Hp as [Hc Hp].
  eapply before_split_inv; [exact ND|]. apply Hb; [apply in_or_app; right; left; reflexivity|exact Hp].
Qed.

Theorem run_order_sound req o : run_order pick ds req = GOk o -> valid_run req o.
Proof.
  unfold run_order. destruct (has_dup (map fst ds)); [discriminate|].
  pose proof (build_graph_ok ds req) as B. destruct (build_graph ds req) as [g|e]; [|discriminate].
  destruct B as (HI & Hv & He).
  assert (WF : forall a b, In (a, b) (edges g) -> In a (verts g) /\ In b (verts g)).
  { intros a b H. destruct HI as [_ _ C]. destruct (C a b H) as (X & Y & _). auto. }
  destruct (kahn_sound pick pick_perm g WF (gi_nodup ds g HI)) as [(o' & rem' & E & K)|E]; rewrite E; [|discriminate].
  destruct (Nat.eqb (length o') (length (verts g))) eqn:L; [|discriminate]. intros X. inversion X; subst o'. clear X.
  apply Nat.eqb_eq in L. destruct K as [ND _ _ Hord Hsub]. rewrite app_nil_r in ND, Hsub.
  assert (All : incl (verts g) o) by (apply NoDup_length_incl; [exact ND|lia|exact Hsub]).
  split; [exact ND|]. split.
  - intros x. rewrite <- Hv. split; [apply Hsub|apply All].
  - eapply ordered_deps_before; eauto.
Qed.

(* every task of a computed run order is defined *)
Theorem run_order_defined req o : run_order pick ds req = GOk o -> forall x, In x o -> lookup ds x <> None.
Proof.
  unfold run_order. destruct (has_dup (map fst ds)); [discriminate|].
  pose proof (build_graph_ok ds req) as B. destruct (build_graph ds req) as [g|e]; [|discriminate].
  destruct B as (HI & Hv & He).
  assert (WF : forall a b, In (a, b) (edges g) -> In a (verts g) /\ In b (verts g)).
  { intros a b H. destruct HI as [_ _ C]. destruct (C a b H) as (X & Y & _). auto. }
  destruct (kahn_sound pick pick_perm g WF (gi_nodup ds g HI)) as [(o' & rem' & E & K)|E]; rewrite E; [|discriminate].
  destruct (Nat.eqb (length o') (length (verts g))); [|discriminate]. intros X. inversion X; subst o'. clear X.
  destruct K as [_ _ _ _ Hsub]. rewrite app_nil_r in Hsub. intros x Hx. apply (gi_def ds g HI). apply Hsub. exact Hx.
Qed.

Definition err_ok (req : list name) (e : gerr) : Prop :=
  match e with
  | EDuplicate => ~ NoDup (map fst ds)
  | EUndefinedRequested n => In n req /\ lookup ds n = None
  | EUndefinedDep t d => Reach ds req t /\ In d (deps_of ds t) /\ lookup ds d = None
  | ECycle => req = [] \/ ~ exists o, valid_run req o
  | EOutOfFuel => False
  end.

Theorem run_order_errors req e : run_order pick ds req = GErr e -> err_ok req e.
Proof.
  unfold run_order. destruct (has_dup (map fst ds)) eqn:D.
  { intros X. inversion X; subst. cbn [err_ok]. rewrite <- has_dup_NoDup. congruence. }
  pose proof (build_graph_ok ds req) as B. destruct (build_graph ds req) as [g|e'] eqn:EB.
  2:{ intros X. inversion X; subst. destruct e; cbn [build_err err_ok] in *; auto. }
  destruct B as (HI & Hv & He).
  assert (WF : forall a b, In (a, b) (edges g) -> In a (verts g) /\ In b (verts g)).
  { intros a b H. destruct HI as [_ _ C]. destruct (C a b H) as (X & Y & _). auto. }
  assert (Cyc : ~ (exists o, kahn pick g = GOk o /\ length o = length (verts g)) -> req = [] \/ ~ exists o, valid_run req o).
  { intros NK. destruct req as [|r0 req']; [left; reflexivity|right]. intros (o' & V).
    apply NK. apply (kahn_complete pick pick_perm g WF o' (gi_nodup ds g HI)).
    - intros Hnil. assert (In r0 (verts g)) by (apply Hv; apply reach_req; left; reflexivity). rewrite Hnil in H. contradiction.
    - apply V.
    - intros x. rewrite Hv. apply V.
    - eapply deps_before_ordered; eauto. }
  destruct (kahn_sound pick pick_perm g WF (gi_nodup ds g HI)) as [(o' & rem' & E & K)|E]; rewrite E.
  - destruct (Nat.eqb (length o') (length (verts g))) eqn:L; [discriminate|]. intros X. inversion X; subst. cbn [err_ok].
    apply Cyc. intros (o2 & E2 & L2). rewrite E in E2. inversion E2; subst. apply Nat.eqb_neq in L. contradiction.
  - intros X. inversion X; subst. cbn [err_ok]. apply Cyc. intros (o2 & E2 & _). rewrite E in E2. discriminate.
Qed.

Theorem run_order_complete req o' : NoDup (map fst ds) -> req <> [] ->
  (forall x, Reach ds req x -> lookup ds x <> None) -> valid_run req o' ->
  exists o, run_order pick ds req = GOk o.
Proof.
  intros ND NE Def V. destruct (run_order pick ds req) as [o|e] eqn:E; [eauto|]. exfalso.
  pose proof (run_order_errors req e E) as H. destruct e; cbn [err_ok] in H.
  - destruct H as [H1 H2]. apply (Def n); [apply reach_req; exact H1|exact H2].
  - destruct H as (H1 & H2 & H3). apply (Def d); [eapply reach_dep; eauto|exact H3].
  - contradiction.
  - destruct H as [H|H]; [contradiction|]. apply H. eauto.
  - exact H.
Qed.

End Top.

(* ---------- the boolean checkers used by the correspondence check mean what they say ---------- *)
Lemma same_set_spec a b : same_set a b = true <-> (forall x, In x a <-> In x b).
Proof.
  unfold same_set. rewrite andb_true_iff, !forallb_forall. split.
  - intros [H1 H2] x. split; intros H; apply mem_In; auto.
  - intros H. split; intros x Hx; apply mem_In; apply H; exact Hx.
Qed.

Theorem valid_order_spec ds sel o : valid_order ds sel o = true <->
  NoDup o /\ (forall x, In x o <-> In x sel) /\
  (forall t, In t o -> exists deps, lookup ds t = Some deps /\ forall d, In d deps -> before o d t = true).
Proof.
  unfold valid_order. rewrite !andb_true_iff, negb_true_iff, has_dup_NoDup, same_set_spec, forallb_forall.
  split.
  - intros [[A B] C]. split; [exact A|]. split; [exact B|]. intros t Ht. specialize (C t Ht).
    destruct (lookup ds t) as [deps|]; [|discriminate]. exists deps. split; [reflexivity|]. rewrite forallb_forall in C. exact C.
  - intros (A & B & C). split; [split; assumption|]. intros t Ht. destruct (C t Ht) as (deps & -> & H). apply forallb_forall. exact H.
Qed.
