(* Stage P of the round trip: the parser run on any token list whose (kind, text) projection is `toks c`
   returns exactly `erase c`.  Only kinds and texts matter on the success path; positions and lines do not. *)
From Spok Require Import Base Lexer Parser Cst ParseTotal.
From Coq Require Import Lia.
Open Scope N_scope.

Definition tvs (p : ps) : list tv := map tv_of (stream p).

Lemma pnext_tvs p x r : tvs p = x :: r ->
  exists t p', pnext p = (t, p') /\ tv_of t = x /\ tvs p' = r /\ pending p' = false /\ buf p' = t.
Proof.
  unfold tvs, stream, pnext. destruct (pending p) eqn:Ep; cbn [app map].
  - intros E. inversion E. eexists _, _. split; [reflexivity|]. cbn. auto.
  - destruct (rest p) as [|t r0] eqn:Er; cbn [map]; intros E; [discriminate|]. inversion E.
    eexists _, _. split; [reflexivity|]. cbn. auto.
Qed.

Lemma pbackup_tvs p : pending p = false -> tvs (pbackup p) = tv_of (buf p) :: tvs p.
Proof. intros E. unfold tvs, stream, pbackup. cbn. rewrite E. reflexivity. Qed.

Definition ttype_eq_dec (a b : ttype) : {a = b} + {a <> b}.
Proof. decide equality. Defined.
Lemma tis_ty t k k' : ty t = k' -> tis t k = if ttype_eq_dec k' k then true else false.
Proof.
  intros E. destruct (ttype_eq_dec k' k) as [e|n].
  - apply tis_true. congruence.
  - apply tis_false. congruence.
Qed.

(* resolve every test on token x whose kind is known *)
Ltac tk x K :=
  let H := fresh "Hty" in
  assert (H : ty x = K) by (match goal with E : tv_of x = _ |- _ => let E' := fresh in pose proof E as E'; unfold tv_of in E'; injection E'; intros; congruence end);
  repeat (rewrite (tis_ty x _ K H)); cbn [ttype_eq_dec ttype_rec ttype_rect sumbool_rec sumbool_rect negb andb orb].

Lemma cons_inj {A} (a b : A) l m : a :: l = b :: m -> a = b /\ l = m.
Proof. intros E. inversion E. auto. Qed.

Lemma app_cons_ne {A} (l : list A) x r : exists h t, l ++ x :: r = h :: t.
Proof. destruct l; cbn; eauto. Qed.

Ltac expose H H' Eh := match type of H with ?lhs = ?l ++ ?x :: ?r => let h := fresh "h" in let tl := fresh "tl" in destruct (app_cons_ne l x r) as (h & tl & Eh); assert (H' : lhs = h :: tl) by (rewrite H; exact Eh) end.

Lemma val_of x k v : tv_of x = (k, v) -> val x = v.
Proof. unfold tv_of. intros E. injection E; intros; congruence. Qed.

Lemma filter_noq s : no_byte 34 s = true -> filter (fun b => negb (b =? 34)) s = s.
Proof.
  induction s as [|b s IH]; [reflexivity|]. cbn [no_byte forallb]. intros H. apply andb_prop in H. destruct H as [Hb Hs].
  cbn [filter]. rewrite Hb. f_equal. apply IH. exact Hs.
Qed.
Lemma strip_quoted s : no_byte 34 s = true -> strip_quotes (b_quote ++ s ++ b_quote) = s.
Proof.
  intros H. unfold strip_quotes, b_quote. rewrite !filter_app, (filter_noq s H). cbn. apply app_nil_r.
Qed.

(* ---- argument lists, as a flat list of elements ---- *)
Inductive elem := EArg (a : arg) | EComma.
Definition t_elem (e : elem) : tv := match e with EArg a => t_arg a | EComma => (COMMA, [44]) end.
Definition elems_of (items : list citem) : list elem :=
  concat (map (fun i => EArg (ci_arg i) :: match ci_comma i with Some _ => [EComma] | None => [] end) items).
Fixpoint args_of (es : list elem) : list arg :=
  match es with [] => [] | EArg a :: t => a :: args_of t | EComma :: t => args_of t end.
Definition arg_ok (a : arg) : Prop := match a with AString s => no_byte 34 s = true | AIdent _ => True end.
Definition elem_ok (e : elem) : Prop := match e with EArg a => arg_ok a | EComma => True end.

Lemma elems_toks items : concat (map t_item items) = map t_elem (elems_of items).
Proof.
  induction items as [|i items IH]; [reflexivity|]. cbn [map concat elems_of]. fold (elems_of items).
  rewrite map_app, <- IH. unfold t_item. destruct (ci_comma i); reflexivity.
Qed.
Lemma elems_args items : args_of (elems_of items) = map ci_arg items.
Proof.
  induction items as [|i items IH]; [reflexivity|]. cbn [map concat elems_of]. fold (elems_of items).
  destruct (ci_comma i); cbn; rewrite IH; reflexivity.
Qed.
Lemma elems_ok items : Forall (fun i => arg_ok (ci_arg i)) items -> Forall elem_ok (elems_of items).
Proof.
  induction 1 as [|i items Hi _ IH]; [constructor|]. cbn [map concat elems_of]. fold (elems_of items).
  apply Forall_app. split; [|exact IH]. destruct (ci_comma i); repeat constructor; exact Hi.
Qed.

Lemma args_loop_rt : forall es fuel next acc p rest, Forall elem_ok es ->
  tv_of next :: tvs p = map t_elem es ++ (RPAREN, [41]) :: rest -> (length (tvs p) < fuel)%nat ->
  exists p', args_loop fuel next acc p = Ok (rev acc ++ args_of es) p' /\ tvs p' = rest.
Proof.
  induction es as [|e es IH]; intros fuel next acc p rest Hok E Hf; (destruct fuel as [|f]; [lia|]); cbn [args_loop].
  - cbn [map app] in E. apply cons_inj in E; destruct E as [E1 E2]. tk next RPAREN. exists p. rewrite app_nil_r. auto.
  - cbn [map app] in E. apply cons_inj in E; destruct E as [E1 E2]. inversion Hok as [|? ? He Hes]; subst.
    match type of E2 with _ = ?l ++ ?x :: ?r => destruct (app_cons_ne l x r) as (h & tl & Eh); assert (E2' : tvs p = h :: tl) by (rewrite E2; exact Eh) end.
    destruct (pnext_tvs p _ _ E2') as (n & p1 & En & Tn & Tp & _ & _).
    assert (Hlen : (length (tvs p1) < f)%nat) by (rewrite E2' in Hf; rewrite Tp; cbn [length] in Hf; lia).
    assert (E' : tv_of n :: tvs p1 = map t_elem es ++ (RPAREN, [41]) :: rest) by (rewrite Tn, Tp; symmetry; exact Eh).
    destruct e as [[s|s]|]; cbn [t_elem t_arg] in E1.
    + tk next STRING. rewrite En. rewrite (val_of _ _ _ E1), (strip_quoted s He).
      destruct (IH f n (AString s :: acc) p1 rest Hes E' Hlen) as (p' & R & T). exists p'. rewrite R. cbn [rev args_of]. rewrite <- app_assoc. auto.
    + tk next IDENT. rewrite En. rewrite (val_of _ _ _ E1).
      destruct (IH f n (AIdent s :: acc) p1 rest Hes E' Hlen) as (p' & R & T). exists p'. rewrite R. cbn [rev args_of]. rewrite <- app_assoc. auto.
    + tk next COMMA. rewrite En.
      destruct (IH f n acc p1 rest Hes E' Hlen) as (p' & R & T). exists p'. rewrite R. cbn [args_of]. auto.
Qed.

Lemma outs_loop_rt : forall es fuel lp next acc p rest, Forall elem_ok es ->
  tv_of next :: tvs p = map t_elem es ++ (RPAREN, [41]) :: rest -> (length (tvs p) < fuel)%nat ->
  exists p', outs_loop fuel lp next acc p = Ok (rev acc ++ args_of es) p' /\ tvs p' = rest.
Proof.
  induction es as [|e es IH]; intros fuel lp next acc p rest Hok E Hf; (destruct fuel as [|f]; [lia|]); cbn [outs_loop].
  - cbn [map app] in E. apply cons_inj in E; destruct E as [E1 E2]. tk next RPAREN. exists p. rewrite app_nil_r. auto.
  - cbn [map app] in E. apply cons_inj in E; destruct E as [E1 E2]. inversion Hok as [|? ? He Hes]; subst.
    match type of E2 with _ = ?l ++ ?x :: ?r => destruct (app_cons_ne l x r) as (h & tl & Eh); assert (E2' : tvs p = h :: tl) by (rewrite E2; exact Eh) end.
    destruct (pnext_tvs p _ _ E2') as (n & p1 & En & Tn & Tp & _ & _).
    assert (Hlen : (length (tvs p1) < f)%nat) by (rewrite E2' in Hf; rewrite Tp; cbn [length] in Hf; lia).
    assert (E' : tv_of n :: tvs p1 = map t_elem es ++ (RPAREN, [41]) :: rest) by (rewrite Tn, Tp; symmetry; exact Eh).
    destruct e as [[s|s]|]; cbn [t_elem t_arg] in E1.
    + tk next STRING. rewrite En. rewrite (val_of _ _ _ E1), (strip_quoted s He).
      destruct (IH f lp n (AString s :: acc) p1 rest Hes E' Hlen) as (p' & R & T). exists p'. rewrite R. cbn [rev args_of]. rewrite <- app_assoc. auto.
    + tk next IDENT. rewrite En. rewrite (val_of _ _ _ E1).
      destruct (IH f lp n (AIdent s :: acc) p1 rest Hes E' Hlen) as (p' & R & T). exists p'. rewrite R. cbn [rev args_of]. rewrite <- app_assoc. auto.
    + tk next COMMA. rewrite En.
      destruct (IH f lp n acc p1 rest Hes E' Hlen) as (p' & R & T). exists p'. rewrite R. cbn [args_of]. auto.
Qed.

Lemma expect_rt k v p rest : tvs p = (k, v) :: rest -> k <> ERROR ->
  exists p', expect k p = Ok tt p' /\ tvs p' = rest.
Proof.
  intros E Hk. destruct (pnext_tvs p _ _ E) as (t & p1 & En & Tt & Tp & _ & _). unfold expect. rewrite En.
  assert (Hty : ty t = k) by (unfold tv_of in Tt; injection Tt; intros; congruence).
  rewrite (tis_ty t ERROR k Hty), (tis_ty t k k Hty). destruct (ttype_eq_dec k ERROR); [contradiction|].
  destruct (ttype_eq_dec k k); [|contradiction]. cbn [negb]. exists p1. auto.
Qed.

Definition args_ok (a : cargs) : Prop := Forall (fun i => arg_ok (ci_arg i)) (ca_items a).

(* "(" items ")" with the "(" still in the stream *)
Lemma paren_args_rt fuel a p rest : args_ok a -> tvs p = t_args a ++ rest -> (length (tvs p) < fuel)%nat ->
  exists p1 n p2 p', expect LPAREN p = Ok tt p1 /\ pnext p1 = (n, p2) /\
     args_loop fuel n [] p2 = Ok (e_args a) p' /\ tvs p' = rest /\ (length (tvs p') < length (tvs p))%nat.
Proof.
  intros Hok E Hf. unfold t_args in E. cbn [app] in E.
  destruct (expect_rt LPAREN [40] p _ E ltac:(discriminate)) as (p1 & E1 & T1).
  assert (L1 : (length (tvs p) = S (length (tvs p1)))%nat) by (rewrite E, T1; reflexivity).
  rewrite <- app_assoc, elems_toks in T1. cbn [app] in T1.
  expose T1 T1' Eh.
  destruct (pnext_tvs p1 _ _ T1') as (n & p2 & En & Tn & Tp & _ & _).
  assert (E' : tv_of n :: tvs p2 = map t_elem (elems_of (ca_items a)) ++ (RPAREN, [41]) :: rest) by (rewrite Tn, Tp; symmetry; exact Eh).
  assert (Hl : (length (tvs p) = 2 + length (tvs p2))%nat) by (rewrite L1, T1', Tp; reflexivity).
  destruct (args_loop_rt _ fuel n [] p2 rest (elems_ok _ Hok) E' ltac:(lia)) as (p' & R & T).
  exists p1, n, p2, p'. split; [exact E1|]. split; [exact En|]. cbn [rev app] in R. rewrite elems_args in R. split; [exact R|]. split; [exact T|].
  apply (f_equal (@length _)) in E'. rewrite app_length in E'. cbn [length] in E'. rewrite Hl, T. lia.
Qed.

Lemma cmds_loop_rt : forall cmds fuel acc p rest,
  tvs p = map (fun c => (COMMAND, c)) cmds ++ (RBRACE, [125]) :: rest -> (length (tvs p) < fuel)%nat ->
  exists p', cmds_loop fuel acc p = Ok (rev acc ++ cmds) p' /\ tvs p' = rest /\ (length (tvs p') < length (tvs p))%nat.
Proof.
  induction cmds as [|c cmds IH]; intros fuel acc p rest E Hf; (destruct fuel as [|f]; [lia|]); cbn [cmds_loop]; cbn [map app] in E;
    destruct (pnext_tvs p _ _ E) as (t & p1 & En & Tt & Tp & _ & _); rewrite En.
  - tk t RBRACE. exists p1. rewrite app_nil_r. split; [reflexivity|]. split; [exact Tp|]. rewrite E, Tp. cbn [length]. lia.
  - tk t COMMAND. rewrite (val_of _ _ _ Tt).
    destruct (IH f (c :: acc) p1 rest Tp ltac:(rewrite E in Hf; rewrite Tp; cbn [length] in Hf; lia)) as (p' & R & T & L).
    exists p'. split; [etransitivity; [exact R|]; cbn [rev]; rewrite <- app_assoc; reflexivity|]. split; [exact T|]. rewrite E. cbn [length]. rewrite Tp in L. lia.
Qed.

Definition outs_ok (o : couts) : Prop :=
  match o with ONone => True | OBare _ a _ => arg_ok a | OParen _ args _ => args_ok args end.

Lemma parseTaskOutputs_rt fuel o p rest : outs_ok o ->
  tvs p = t_outs o ++ (LBRACE, [123]) :: rest -> (length (tvs p) < fuel)%nat ->
  exists p', parseTaskOutputs fuel p = Ok (e_outs o) p' /\ tvs p' = (LBRACE, [123]) :: rest /\ (length (tvs p') <= length (tvs p))%nat.
Proof.
  intros Hok E Hf. unfold parseTaskOutputs. destruct o as [|w1 a w2|w1 args w2]; cbn [t_outs app] in E.
  - destruct (pnext_tvs p _ _ E) as (t & p1 & En & Tt & Tp & Pp & Bp). rewrite En. tk t LBRACE.
    exists (pbackup p1). rewrite (pbackup_tvs p1 Pp), Bp, Tt, Tp. split; [reflexivity|]. split; [reflexivity|]. rewrite E. cbn [length]. lia.
  - destruct (pnext_tvs p _ _ E) as (t & p1 & En & Tt & Tp & _ & _). rewrite En. tk t OUTPUT.
    destruct (pnext_tvs p1 _ _ Tp) as (x & p2 & En2 & Tx & Tp2 & _ & _). rewrite En2.
    assert (L : (length (tvs p2) <= length (tvs p))%nat) by (rewrite E, Tp2; cbn [length]; lia).
    destruct a as [s|s]; cbn [t_arg] in Tx.
    + tk x STRING. rewrite (val_of _ _ _ Tx), (strip_quoted s Hok). exists p2. auto.
    + tk x IDENT. rewrite (val_of _ _ _ Tx). exists p2. auto.
  - destruct (pnext_tvs p _ _ E) as (t & p1 & En & Tt & Tp & _ & _). rewrite En. tk t OUTPUT.
    unfold t_args in Tp. cbn [app] in Tp.
    destruct (pnext_tvs p1 _ _ Tp) as (x & p2 & En2 & Tx & Tp2 & _ & _). rewrite En2. tk x LPAREN.
    assert (L1 : (length (tvs p) = 2 + length (tvs p2))%nat) by (rewrite E; cbn [length]; rewrite Tp2; reflexivity).
    rewrite <- app_assoc, elems_toks in Tp2. cbn [app] in Tp2.
    expose Tp2 Tp2' Eh.
    destruct (pnext_tvs p2 _ _ Tp2') as (n & p3 & En3 & Tn & Tp3 & _ & _). rewrite En3.
    assert (E' : tv_of n :: tvs p3 = map t_elem (elems_of (ca_items args)) ++ (RPAREN, [41]) :: (LBRACE, [123]) :: rest) by (rewrite Tn, Tp3; symmetry; exact Eh).
    assert (Hl : (length (tvs p) = 3 + length (tvs p3))%nat) by (rewrite L1, Tp2', Tp3; reflexivity).
    destruct (outs_loop_rt _ fuel x n [] p3 _ (elems_ok _ Hok) E' ltac:(lia)) as (p' & R & T).
    exists p'. cbn [rev app] in R. rewrite elems_args in R. split; [exact R|]. split; [exact T|].
    apply (f_equal (@length _)) in E'. rewrite app_length in E'. cbn [length] in E'. rewrite Hl, T. cbn [length]. lia.
Qed.

Lemma parseTask_rt fuel doc name deps outs body p rest : args_ok deps -> outs_ok outs ->
  tvs p = (IDENT, name) :: t_args deps ++ t_outs outs ++ t_body body ++ rest -> (length (tvs p) < fuel)%nat ->
  exists p', parseTask fuel doc p = Ok (NTask doc name (e_args deps) (e_outs outs) (e_body body)) p' /\ tvs p' = rest /\
             (length (tvs p') < length (tvs p))%nat.
Proof.
  intros Hd Ho E Hf. unfold parseTask.
  destruct (pnext_tvs p _ _ E) as (nm & p1 & En & Tn & Tp & _ & _). rewrite En. rewrite (val_of _ _ _ Tn).
  assert (L1 : (length (tvs p) = S (length (tvs p1)))%nat) by (rewrite E, Tp; reflexivity).
  destruct (paren_args_rt fuel deps p1 _ Hd Tp ltac:(lia)) as (p2 & n & p3 & p4 & E2 & E3 & E4 & T4 & L4).
  rewrite E2, E3, E4.
  unfold t_body in T4. cbn [app] in T4. rewrite <- app_assoc in T4. cbn [app] in T4.
  destruct (parseTaskOutputs_rt fuel outs p4 _ Ho T4 ltac:(lia)) as (p5 & E5 & T5 & L5). rewrite E5.
  destruct (expect_rt LBRACE [123] p5 _ T5 ltac:(discriminate)) as (p6 & E6 & T6). rewrite E6.
  assert (L6 : (length (tvs p5) = S (length (tvs p6)))%nat) by (rewrite T5, T6; reflexivity).
  destruct (cmds_loop_rt (e_body body) fuel [] p6 rest T6 ltac:(lia)) as (p7 & E7 & T7 & L7). rewrite E7.
  exists p7. cbn [rev app]. split; [reflexivity|]. split; [exact T7|lia].
Qed.

(* what may follow a statement: the first token of the next statement, or EOF - never "(" *)
Definition not_lparen (l : list tv) : Prop := match l with (LPAREN, _) :: _ => False | [] => False | _ => True end.

Definition stmt_ok (s : cstmt) : Prop :=
  match s with
  | CComment _ => True
  | CAssignS _ _ _ s => no_byte 34 s = true
  | CAssignF _ _ _ _ _ args => args_ok args
  | CAssignI _ _ _ _ => True
  | CTask doc _ _ _ deps _ outs _ => args_ok deps /\ outs_ok outs /\ match doc with Some (d, _) => d <> [] | None => True end
  end.

Definition assign_name (s : cstmt) : option bytes :=
  match s with CAssignS n _ _ _ | CAssignF n _ _ _ _ _ | CAssignI n _ _ _ => Some n | _ => None end.

Lemma parseAssign_rt fuel ident name s p rest :
  assign_name s = Some name ->
  stmt_ok s -> val ident = name ->
  tv_of ident :: tvs p = t_stmt s ++ rest -> not_lparen rest -> (length (tvs p) < fuel)%nat ->
  exists p', parseAssign fuel ident p = Ok (e_stmt s) p' /\ tvs p' = rest /\ (length (tvs p') < length (tvs p))%nat.
Proof.
  intros Hs Hok Hv E Hr Hf. unfold parseAssign.
  destruct s as [|n a b c|n a b c d e|n a b c|]; try discriminate; cbn [assign_name] in Hs; injection Hs as ->; cbn [t_stmt app] in E; apply cons_inj in E; destruct E as [E1 E2].
  - destruct (expect_rt DECLARE _ p _ E2 ltac:(discriminate)) as (p1 & X1 & T1). rewrite X1.
    destruct (pnext_tvs p1 _ _ T1) as (x & p2 & En & Tx & Tp & _ & _). rewrite En. tk x STRING.
    rewrite (val_of _ _ _ Tx), (strip_quoted c Hok). exists p2. cbn [e_stmt]. rewrite Hv. split; [reflexivity|]. split; [exact Tp|].
    rewrite E2, Tp. cbn [length]. lia.
  - destruct (expect_rt DECLARE _ p _ E2 ltac:(discriminate)) as (p1 & X1 & T1). rewrite X1.
    destruct (pnext_tvs p1 _ _ T1) as (x & p2 & En & Tx & Tp & _ & _). rewrite En. tk x IDENT.
    assert (Tp' := Tp). unfold t_args in Tp'. cbn [app] in Tp'.
    destruct (pnext_tvs p2 _ _ Tp') as (y & p3 & En3 & Ty & Tp3 & Pp3 & Bp3). rewrite En3. tk y LPAREN.
    unfold parseFunction.
    assert (Tb : tvs (pbackup p3) = t_args e ++ rest).
    { rewrite (pbackup_tvs p3 Pp3), Bp3, Ty, Tp3. unfold t_args. reflexivity. }
    assert (Lb : (length (tvs p) = 2 + length (tvs (pbackup p3)))%nat) by (rewrite E2, Tb; reflexivity).
    destruct (paren_args_rt fuel e (pbackup p3) rest Hok Tb ltac:(lia)) as (q1 & n & q2 & q3 & Y1 & Y2 & Y3 & T3 & L3).
    rewrite Y1, Y2, Y3. exists q3. cbn [e_stmt]. rewrite Hv, (val_of _ _ _ Tx). split; [reflexivity|]. split; [exact T3|lia].
  - destruct (expect_rt DECLARE _ p _ E2 ltac:(discriminate)) as (p1 & X1 & T1). rewrite X1.
    destruct (pnext_tvs p1 _ _ T1) as (x & p2 & En & Tx & Tp & _ & _). rewrite En. tk x IDENT.
    destruct rest as [|[k v] rest']; [contradiction|].
    destruct (pnext_tvs p2 _ _ Tp) as (y & p3 & En3 & Ty & Tp3 & Pp3 & Bp3). rewrite En3.
    assert (Hy : ty y = k) by (unfold tv_of in Ty; injection Ty; intros; congruence).
    rewrite (tis_ty y LPAREN k Hy). destruct (ttype_eq_dec k LPAREN) as [->|Hk]; [contradiction|].
    exists (pbackup p3). cbn [e_stmt]. rewrite Hv, (val_of _ _ _ Tx). split; [reflexivity|].
    rewrite (pbackup_tvs p3 Pp3), Bp3, Ty, Tp3. split; [reflexivity|]. rewrite E2. cbn [length]. lia.
Qed.

(* ---- the statement loop ---- *)
Definition undoc_task_head (l : list (cstmt * ws)) : bool :=
  match l with (CTask None _ _ _ _ _ _ _, _) :: _ => true | _ => false end.
Fixpoint seq_ok (l : list (cstmt * ws)) : Prop :=
  match l with
  | [] => True
  | (s, _) :: tl => match s with CComment t => undoc_task_head tl = true -> t = [] | _ => True end /\ seq_ok tl
  end.

Definition stmts_toks (l : list (cstmt * ws)) : list tv := concat (map (fun sg => t_stmt (fst sg)) l) ++ [(EOF, [])].

Lemma rest_head tl : exists x r, stmts_toks tl = x :: r /\ (fst x = TASK -> undoc_task_head tl = true) /\ fst x <> LPAREN.
Proof.
  unfold stmts_toks. destruct tl as [|[s g] tl]; cbn [map concat fst app].
  - eexists _, _. split; [reflexivity|]. cbn. split; discriminate.
  - destruct s as [t|n a b c|n a b c d e|n a b c|[[d w]|] wt n wn deps wd outs body]; cbn [t_stmt app];
      (eexists _, _; split; [reflexivity|]; cbn; split; [try discriminate; auto|discriminate]).
Qed.

Lemma parse_loop_rt : forall stmts fuel next acc p,
  Forall (fun sg => stmt_ok (fst sg)) stmts -> seq_ok stmts ->
  tv_of next :: tvs p = stmts_toks stmts -> (length (tvs p) < fuel)%nat ->
  parse_loop fuel next acc p = PTree (rev acc ++ map (fun sg => e_stmt (fst sg)) stmts).
Proof.
  induction stmts as [|[s g] tl IH]; intros fuel next acc p Hok Hseq E Hf; (destruct fuel as [|f]; [lia|]); cbn [parse_loop].
  - unfold stmts_toks in E. cbn [map concat app] in E. apply cons_inj in E. destruct E as [E1 E2]. tk next EOF. rewrite app_nil_r. reflexivity.
  - inversion Hok as [|? ? Hs Htl]; subst. cbn [fst] in Hs. cbn [seq_ok] in Hseq. destruct Hseq as [Hc Hseq].
    destruct (rest_head tl) as (x & r & Ex & Hx & Hxl).
    assert (cont : forall q acc', tvs q = stmts_toks tl -> (length (tvs q) <= length (tvs p))%nat ->
              (let '(n, q2) := pnext q in parse_loop f n acc' q2) = PTree (rev acc' ++ map (fun sg => e_stmt (fst sg)) tl)).
    { intros q acc' Tq Lq. rewrite Ex in Tq. destruct (pnext_tvs q _ _ Tq) as (n & q2 & En & Tn & Tq2 & _ & _). rewrite En.
      apply IH; [exact Htl|exact Hseq|rewrite Tn, Tq2; symmetry; exact Ex|]. rewrite Tq in Lq. cbn [length] in Lq. rewrite Tq2. lia. }
    unfold stmts_toks in E. cbn [map concat fst] in E. rewrite <- app_assoc in E. fold (stmts_toks tl) in E.
    cbn [map fst].
    destruct s as [t|n a b c|n a b c d e|n a b c|[[d w]|] wt n wn deps wd outs body].
    + (* comment *)
      cbn [t_stmt app] in E. apply cons_inj in E. destruct E as [E1 E2]. tk next HASH.
      destruct (pnext_tvs p _ _ E2) as (c & p1 & En & Tc & Tp1 & _ & _). rewrite En.
      rewrite Ex in Tp1. destruct (pnext_tvs p1 _ _ Tp1) as (t2 & p2 & En2 & Tt2 & Tp2 & Pp2 & Bp2). rewrite En2.
      assert (Hcond : (tis t2 TASK && negb (is_nil (val c)))%bool = false).
      { destruct (tis t2 TASK) eqn:Et; [|reflexivity]. apply tis_true in Et.
        assert (Hfx : fst x = TASK) by (rewrite <- Tt2; exact Et).
        rewrite (val_of _ _ _ Tc), (Hc (Hx Hfx)). reflexivity. }
      rewrite Hcond.
      assert (Tb : tvs (pbackup p2) = stmts_toks tl) by (rewrite (pbackup_tvs p2 Pp2), Bp2, Tt2, Tp2; symmetry; exact Ex).
      rewrite (cont (pbackup p2) (NComment (val c) :: acc) Tb ltac:(rewrite Tb, Ex, E2, Ex; cbn [length]; lia)).
      cbn [rev e_stmt]. rewrite (val_of _ _ _ Tc), <- app_assoc. reflexivity.
    + (* string assignment *)
      assert (Hnl : not_lparen (stmts_toks tl)) by (rewrite Ex; destruct x as [[] ?]; cbn in *; try exact I; contradiction).
      pose proof E as E0; cbn [t_stmt app] in E0; apply cons_inj in E0; destruct E0 as [E1 _]; tk next IDENT.
      destruct (parseAssign_rt (S f) next n (CAssignS n a b c) p _ eq_refl Hs (val_of _ _ _ E1) E Hnl Hf) as (p' & R & T & L).
      rewrite R. rewrite (cont p' _ T ltac:(lia)). cbn [rev]. rewrite <- app_assoc. reflexivity.
    + assert (Hnl : not_lparen (stmts_toks tl)) by (rewrite Ex; destruct x as [[] ?]; cbn in *; try exact I; contradiction).
      pose proof E as E0; cbn [t_stmt app] in E0; apply cons_inj in E0; destruct E0 as [E1 _]; tk next IDENT.
      destruct (parseAssign_rt (S f) next n (CAssignF n a b c d e) p _ eq_refl Hs (val_of _ _ _ E1) E Hnl Hf) as (p' & R & T & L).
      rewrite R. rewrite (cont p' _ T ltac:(lia)). cbn [rev]. rewrite <- app_assoc. reflexivity.
    + assert (Hnl : not_lparen (stmts_toks tl)) by (rewrite Ex; destruct x as [[] ?]; cbn in *; try exact I; contradiction).
      pose proof E as E0; cbn [t_stmt app] in E0; apply cons_inj in E0; destruct E0 as [E1 _]; tk next IDENT.
      destruct (parseAssign_rt (S f) next n (CAssignI n a b c) p _ eq_refl Hs (val_of _ _ _ E1) E Hnl Hf) as (p' & R & T & L).
      rewrite R. rewrite (cont p' _ T ltac:(lia)). cbn [rev]. rewrite <- app_assoc. reflexivity.
    + (* documented task *)
      cbn [stmt_ok] in Hs. destruct Hs as (Hd & Ho & Hdoc).
      cbn [t_stmt app] in E. apply cons_inj in E. destruct E as [E1 E2]. tk next HASH.
      destruct (pnext_tvs p _ _ E2) as (c & p1 & En & Tc & Tp1 & _ & _). rewrite En.
      assert (L1 : (length (tvs p) = S (length (tvs p1)))%nat) by (rewrite E2, Tp1; reflexivity).
      destruct (pnext_tvs p1 _ _ Tp1) as (t2 & p2 & En2 & Tt2 & Tp2 & _ & _). rewrite En2. tk t2 TASK.
      assert (L2 : (length (tvs p1) = S (length (tvs p2)))%nat) by (rewrite Tp1, Tp2; reflexivity).
      rewrite (val_of _ _ _ Tc). destruct d as [|d0 d]; [contradiction|]. cbn [is_nil negb].
      rewrite <- !app_assoc in Tp2.
      destruct (parseTask_rt (S f) (d0 :: d) n deps outs body p2 _ Hd Ho Tp2 ltac:(lia)) as (p' & R & T & L).
      rewrite R. rewrite (cont p' _ T ltac:(lia)). cbn [rev e_stmt]. rewrite <- app_assoc. reflexivity.
    + (* undocumented task *)
      cbn [stmt_ok] in Hs. destruct Hs as (Hd & Ho & _).
      cbn [t_stmt app] in E. apply cons_inj in E. destruct E as [E1 E2]. tk next TASK.
      rewrite <- !app_assoc in E2.
      destruct (parseTask_rt (S f) [] n deps outs body p _ Hd Ho E2 Hf) as (p' & R & T & L).
      rewrite R. rewrite (cont p' _ T ltac:(lia)). cbn [rev e_stmt]. rewrite <- app_assoc. reflexivity.
Qed.

(* the parser on ANY token list whose kinds and texts are those of c *)
Theorem parse_tokens_rt (c : cfile) (tl : list token) (s : bytes) :
  Forall (fun sg => stmt_ok (fst sg)) (snd c) -> seq_ok (snd c) -> map tv_of tl = toks c ->
  let p0 := {| buf := zero_tok; pending := false; rest := tl; pinp := s |} in
  (let '(n, p1) := pnext p0 in parse_loop (S (S (length tl))) n [] p1) = PTree (erase c).
Proof.
  intros Hok Hseq E p0. assert (T0 : tvs p0 = stmts_toks (snd c)) by exact E.
  destruct (rest_head (snd c)) as (x & r & Ex & _). rewrite Ex in T0.
  destruct (pnext_tvs p0 _ _ T0) as (n & p1 & En & Tn & Tp & _ & _). rewrite En.
  rewrite (parse_loop_rt (snd c) _ n [] p1 Hok Hseq); [reflexivity|rewrite Tn, Tp; symmetry; exact Ex|].
  assert (L : length tl = length (tvs p0)) by (unfold tvs, stream; cbn; rewrite map_length; reflexivity).
  rewrite L, T0, Tp. cbn [length]. lia.
Qed.
