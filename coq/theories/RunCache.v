(* Model of SpokFile.run in /repo/file/file.go together with /repo/cache/cache.go (the repaired,
   per-task, write-ahead protocol): a state machine over a persistent cache file, a file system and a
   ghost record of each task's last successful inputs.  Every disk write is two micro-steps (torn,
   then complete) and every micro-step is recorded in a trace, so a kill at any moment is "stop at
   some element of the trace".  The digest is a Section variable. *)
From Spok Require Import Base.
Open Scope nat_scope.

Definition name := nat.
Definition path := nat.
Definition content := nat.
Definition inputs := list (path * content).

(* a task as far as run() is concerned: literal file dependencies, and for each glob dependency the
   candidate paths matching the pattern (its expansion is: those that currently exist; see C05) *)
Record task := { tname : name; lits : list path; globs : list (list path) }.

Inductive beh := BSucc | BFail | BAbort.           (* all commands exit 0 | some command exits non-zero | the runner returns an error *)
Inductive errk := CacheError | HashFailed | TaskAbort.

Section WithDigest.
Variable D : Type.
Variable deqb : D -> D -> bool.
Variable dempty : D.                             (* "" : no digest recorded *)
Variable digest : inputs -> D.

Inductive cache := Missing | Corrupt | Good (m : name -> D).

Record st := {
  disk : cache;                                  (* .spok/cache.json *)
  files : path -> option content;                (* the dependency files *)
  last_ok : name -> option inputs                (* ghost: inputs of the task's last successful completion since the cache was created *)
}.

Definition set_disk (s : st) (c : cache) : st := {| disk := c; files := files s; last_ok := last_ok s |}.
Definition set_ok (s : st) (t : name) (i : inputs) : st :=
  {| disk := disk s; files := files s; last_ok := fun x => if Nat.eqb x t then Some i else last_ok s x |}.
Definition upd (m : name -> D) (t : name) (d : D) : name -> D := fun x => if Nat.eqb x t then d else m x.

Definition present (fs : path -> option content) (p : path) : bool := match fs p with Some _ => true | None => false end.

(* toHash: expansions of the glob dependencies, then the literal files *)
Definition to_hash (fs : path -> option content) (t : task) : list path :=
  concat (map (filter (present fs)) (globs t)) ++ lits t.

(* what the hasher reads: None when a listed file cannot be opened (Hash returns an error) *)
Fixpoint read_all (fs : path -> option content) (l : list path) : option inputs :=
  match l with
  | [] => Some []
  | p :: r => match fs p, read_all fs r with
              | Some c, Some i => Some ((p, c) :: i)
              | _, _ => None
              end
  end.
Definition inputs_of (fs : path -> option content) (t : task) : option inputs := read_all fs (to_hash fs t).

(* labels of the micro-steps, for naming crash points *)
Inductive label := LInitTorn | LInitDone | LExecStart (t : name) | LInvalTorn (t : name) | LInvalDone (t : name)
  | LExecDone (t : name) | LPersistTorn (t : name) | LPersistDone (t : name).

Definition trace := list (label * st).

(* os.WriteFile of the whole cache: truncate, then write - a kill in between leaves no valid JSON *)
Definition write (s : st) (m : name -> D) (torn done : label) : trace :=
  [(torn, set_disk s Corrupt); (done, set_disk s (Good m))].

Record result := { r_task : name; r_skipped : bool }.
Inductive routcome := RunOk (rs : list result) | RunErr (e : errk).

(* what one run did: micro-step trace, names of the tasks whose commands were started, routcome *)
Record runres := { rr_trace : trace; rr_exec : list name; rr_out : routcome }.

Definition cons_res (r : result) (x : runres) : runres :=
  {| rr_trace := rr_trace x; rr_exec := rr_exec x;
     rr_out := match rr_out x with RunOk rs => RunOk (r :: rs) | e => e end |}.
Definition prepend (tr : trace) (ex : list name) (x : runres) : runres :=
  {| rr_trace := tr ++ rr_trace x; rr_exec := ex ++ rr_exec x; rr_out := rr_out x |}.

Definition is_nil_inputs (i : inputs) : bool := match i with [] => true | _ => false end.

Section Run.
Variable force : bool.
Variable b : name -> beh.

(* one iteration of the `for _, taskToRun := range runOrder` loop; m is cachedState, s the current state (disk s = Good m) *)
Inductive iter_res :=
| IStop (tr : trace) (ex : list name) (e : errk)
| ICont (tr : trace) (ex : list name) (r : result) (m' : name -> D) (s' : st).

Definition iter (m : name -> D) (s : st) (t : task) : iter_res :=
  match inputs_of (files s) t with
  | None => IStop [] [] HashFailed
  | Some F =>
    let n := tname t in
    let has := negb (is_nil_inputs F) in
    let d := digest F in
    let c := m n in
    if has && negb force && negb (deqb c dempty) && deqb d c then
      ICont [] [] {| r_task := n; r_skipped := true |} m s
    else
      (* blank the entry on disk before the commands start; `rec`: this task has (or had) something recorded *)
      let rec := has || negb (deqb c dempty) in
      let m1 := if rec then upd m n dempty else m in
      let tr1 := if rec then write s m1 (LInvalTorn n) (LInvalDone n) else [] in
      let s1 := if rec then set_disk s (Good m1) else s in
      let tr2 := [(LExecStart n, s1)] in
      match b n with
      | BSucc =>
        let s2 := set_ok s1 n F in
        let m2 := if has then upd m1 n d else m1 in
        let tr3 := (LExecDone n, s2) :: (if rec then write s2 m2 (LPersistTorn n) (LPersistDone n) else []) in
        let s3 := if rec then set_disk s2 (Good m2) else s2 in
        ICont (tr1 ++ tr2 ++ tr3) [n] {| r_task := n; r_skipped := false |} m2 s3
      | BFail =>
        let m2 := if rec then upd m1 n c else m1 in
        let tr3 := (LExecDone n, s1) :: (if rec then write s1 m2 (LPersistTorn n) (LPersistDone n) else []) in
        let s3 := if rec then set_disk s1 (Good m2) else s1 in
        ICont (tr1 ++ tr2 ++ tr3) [n] {| r_task := n; r_skipped := false |} m2 s3
      | BAbort =>
        let m2 := if rec then upd m1 n c else m1 in
        let tr3 := (LExecDone n, s1) :: (if rec then write s1 m2 (LPersistTorn n) (LPersistDone n) else []) in
        IStop (tr1 ++ tr2 ++ tr3) [n] TaskAbort
      end
  end.

Fixpoint run_loop (m : name -> D) (s : st) (order : list task) : runres :=
  match order with
  | [] => {| rr_trace := []; rr_exec := []; rr_out := RunOk [] |}
  | t :: rest =>
    match iter m s t with
    | IStop tr ex e => {| rr_trace := tr; rr_exec := ex; rr_out := RunErr e |}
    | ICont tr ex r m' s' => prepend tr ex (cons_res r (run_loop m' s' rest))
    end
  end.

(* SpokFile.run: cache.Exists / cache.Init / cache.Load, then the loop *)
Definition run (s : st) (order : list task) : runres :=
  match disk s with
  | Corrupt => {| rr_trace := []; rr_exec := []; rr_out := RunErr CacheError |}
  | Good m => run_loop m s order
  | Missing =>
    let m0 := fun _ : name => dempty in
    prepend (write s m0 LInitTorn LInitDone) [] (run_loop m0 (set_disk s (Good m0)) order)
  end.
End Run.

Definition last_state (s : st) (tr : trace) : st := match rev tr with [] => s | (_, s') :: _ => s' end.

(* the state in which a run killed at its first micro-step labelled l leaves the world (the run's final state if there is none) *)
Fixpoint state_at (l : label -> bool) (s : st) (tr : trace) : st :=
  match tr with
  | [] => s
  | (l', s') :: r => if l l' then s' else state_at l s' r
  end.

(* ---- histories ---- *)
Inductive op :=
| Edit (p : path) (c : option content)                 (* create / edit / revert / delete a file *)
| RemoveCache                                          (* rm -rf .spok *)
| TearCache                                            (* the cache file is cut short (a write that did not finish) *)
| RunOp (force : bool) (b : name -> beh) (order : list task)
| CrashOp (force : bool) (b : name -> beh) (order : list task) (k : nat).   (* killed after k micro-steps *)

Definition apply_op (s : st) (o : op) : st :=
  match o with
  | Edit p c => {| disk := disk s; files := fun x => if Nat.eqb x p then c else files s x; last_ok := last_ok s |}
  | RemoveCache => {| disk := Missing; files := files s; last_ok := fun _ => None |}
  | TearCache => match disk s with Missing => s | _ => set_disk s Corrupt end
  | RunOp f b order => let r := run f b s order in last_state s (rr_trace r)
  | CrashOp f b order k => let r := run f b s order in last_state s (firstn k (rr_trace r))
  end.

Definition init_st (fs : path -> option content) : st := {| disk := Missing; files := fs; last_ok := fun _ => None |}.

End WithDigest.
