(* Executable well-formedness of concrete syntax trees, sound for cst_wf: the correspondence check evaluates it
   on every generated layout, so the hypothesis of the round-trip theorems is checked, not assumed. *)
From Spok Require Import Base Lexer Parser Cst ParseTotal RoundTripP LexInv LexSteps LexFwd RoundTripL RoundTrip.
From Coq Require Import Lia.
Open Scope N_scope.

Definition ws_b (w : ws) : bool := forallb is_ws_byte w.
Definition iws_b (w : ws) : bool := forallb (fun b => (b =? 32) || (b =? 9)) w.
Definition ident_b (s : bytes) : bool := ident_runes (S (length s)) s.
Definition nonnil_b (s : bytes) : bool := negb (is_nil_b s).
Definition str_b (s : bytes) : bool := no_byte 34 s && no_byte 10 (tl s).
Definition comment_b (t : bytes) : bool := no_byte 10 t && last_not 13 t.
Definition name_b (n : bytes) : bool := ident_b n && nonnil_b n && negb (bytes_eqb n k_task).

Definition item_b (i : citem) : bool :=
  match ci_comma i with Some w => ws_b w | None => true end &&
  match ci_arg i with
  | AString s => str_b s && iws_b (ci_ws i)
  | AIdent s => ident_b s && nonnil_b s && ws_b (ci_ws i)
  end.
Fixpoint commas_b (items : list citem) : bool :=
  match items with
  | [] => true
  | [i] => true
  | i :: tl => match ci_comma i with Some _ => true | None => false end && commas_b tl
  end.
Definition cargs_b (a : cargs) : bool := ws_b (ca_ws a) && forallb item_b (ca_items a) && commas_b (ca_items a).
Definition outs_b (o : couts) : bool :=
  match o with
  | ONone => true
  | OBare w1 (AString s) w2 => ws_b w1 && str_b s && iws_b w2
  | OBare w1 (AIdent s) w2 => ws_b w1 && ident_b s && nonnil_b s && ws_b w2
  | OParen w1 args w2 => ws_b w1 && cargs_b args && ws_b w2
  end.
Definition cmd1_b (c : bytes) : bool :=
  let '(r, w) := decode c in is_letter r && cmd_scan (S (length c)) (skipn w c) && last_not 13 c.
Definition cmdn_b (c : bytes) : bool :=
  nonnil_b c && cmd_scan (S (length c)) c && last_not 13 c && negb (is_space (fst (decode c))).
Definition line_b (cw : bytes * ws) : bool := cmdn_b (fst cw) && ws_b (snd cw) && eol_start (snd cw).
Definition lastn_b (last : option (bytes * bool)) : bool :=
  match last with None => true | Some (c, sp) => cmdn_b c && (sp || last_not 32 c) end.
Definition body_b (b : cbody) : bool :=
  ws_b (cb_ws b) &&
  match cb_cmds b, cb_last b with
  | [], None => true
  | [], Some (c, sp) => cmd1_b c && (sp || last_not 32 c)
  | (c1, w1) :: ls, last => cmd1_b c1 && ws_b w1 && eol_start w1 && forallb line_b ls && lastn_b last
  end.
Definition gap_eol_b (g REST : bytes) : bool := ws_b g && (eol_start g || (is_nil_b g && is_nil_b REST)).
Definition stmt_b (st : cstmt) (g REST : bytes) : bool :=
  match st with
  | CComment text => comment_b text && gap_eol_b g REST
  | CAssignS name w1 w2 s => name_b name && ws_b w1 && ws_b w2 && str_b s && gap_eol_b g REST
  | CAssignF name w1 w2 f w3 args => name_b name && ws_b w1 && ws_b w2 && ident_b f && nonnil_b f && ws_b w3 && cargs_b args && ws_b g
  | CAssignI name w1 w2 i => name_b name && ws_b w1 && ws_b w2 && ident_b i && nonnil_b i && ws_b g && is_nil_b REST
  | CTask doc wt name wn deps wd outs body =>
    match doc with Some (d, w) => comment_b d && nonnil_b d && ws_b w && eol_start w | None => true end &&
    ws_b wt && ident_b name && (is_nil_b name || nonnil_b wt) && ws_b wn && cargs_b deps && ws_b wd && outs_b outs && body_b body && ws_b g
  end.
Fixpoint stmts_b (l : list (cstmt * ws)) : bool :=
  match l with [] => true | (st, g) :: tl => stmt_b st g (stmts_text tl) && stmts_b tl end.
Fixpoint seq_b (l : list (cstmt * ws)) : bool :=
  match l with
  | [] => true
  | (s, _) :: tl => match s with CComment t => negb (undoc_task_head tl) || is_nil_b t | _ => true end && seq_b tl
  end.
Definition cst_wf_b (f : cfile) : bool := ws_b (fst f) && stmts_b (snd f) && seq_b (snd f).

(* ---- soundness ---- *)
Ltac wfa := unfold IWS, WS, Ident, ws_b, iws_b, ident_b in *; assumption.
Ltac wfh H := unfold IWS, WS, Ident, ws_b, iws_b, ident_b in *; exact H.
Ltac fa_solve lem := match goal with H : forallb _ _ = true |- Forall _ _ =>
  let x := fresh "x" in let Hx := fresh "Hx" in apply Forall_forall; intros x Hx; apply lem; rewrite forallb_forall in H; apply H; exact Hx end.
Ltac bsplit H := repeat (match type of H with (_ && _)%bool = true => let H' := fresh "B" in apply andb_prop in H; destruct H as [H H'] end).

Lemma nonnil_sound s : nonnil_b s = true -> s <> [].
Proof. destruct s; [discriminate|discriminate]. Qed.
Lemma isnil_sound {A} (s : list A) : is_nil_b s = true -> s = [].
Proof. destruct s; [reflexivity|discriminate]. Qed.
Lemma name_sound n : name_b n = true -> name_ok n.
Proof. unfold name_b. intros H. bsplit H. split; [wfh H|]. split; [apply nonnil_sound; wfa|]. apply negb_true_iff. wfa. Qed.
Lemma str_sound s : str_b s = true -> Str s.
Proof. unfold str_b. intros H. bsplit H. split; wfa. Qed.
Lemma comment_sound t : comment_b t = true -> comment_ok t.
Proof. unfold comment_b. intros H. bsplit H. split; wfa. Qed.

Lemma item_sound i : item_b i = true -> item_ok i.
Proof.
  unfold item_b, item_ok. intros H. bsplit H. split; [destruct (ci_comma i); [wfh H|exact I]|].
  destruct (ci_arg i) as [s|s]; bsplit B.
  - split; [apply str_sound; wfa|wfa].
  - split; [wfa|]. split; [apply nonnil_sound; wfa|wfa].
Qed.
Lemma commas_sound items : commas_b items = true -> commas_ok items.
Proof.
  induction items as [|i tl IH]; [intros; exact I|]. cbn [commas_b commas_ok]. destruct tl as [|j tl]; [intros; exact I|].
  intros H. bsplit H. split; [destruct (ci_comma i); [discriminate|discriminate]|apply IH; wfa].
Qed.
Lemma cargs_sound a : cargs_b a = true -> cargs_ok a.
Proof.
  unfold cargs_b. intros H. bsplit H. split; [wfh H|]. split; [|apply commas_sound; wfa].
  fa_solve item_sound.
Qed.
Lemma outs_sound o : outs_b o = true -> outs_wf o.
Proof.
  destruct o as [|w1 [s|s] w2|w1 args w2]; cbn [outs_b outs_wf]; intros H; [exact I| | |]; bsplit H.
  - split; [wfh H|]. split; [apply str_sound; wfa|wfa].
  - split; [wfh H|]. split; [wfa|]. split; [apply nonnil_sound; wfa|wfa].
  - split; [wfh H|]. split; [apply cargs_sound; wfa|wfa].
Qed.
Lemma cmd1_sound c : cmd1_b c = true -> Cmd1 c.
Proof. unfold cmd1_b, Cmd1. destruct (decode c) as [r w]. intros H. bsplit H. auto. Qed.
Lemma cmdn_sound c : cmdn_b c = true -> CmdN c.
Proof. unfold cmdn_b, CmdN. intros H. bsplit H. split; [apply nonnil_sound; wfa|]. split; [wfa|]. split; [wfa|]. apply negb_true_iff. wfa. Qed.
Lemma line_sound cw : line_b cw = true -> line_ok cw.
Proof. unfold line_b, line_ok. intros H. bsplit H. split; [apply cmdn_sound; wfa|]. split; wfa. Qed.
Lemma sp_sound (sp : bool) c : (sp || last_not 32 c)%bool = true -> sp = false -> last_not 32 c = true.
Proof. intros H ->. exact H. Qed.
Lemma lastn_sound last : lastn_b last = true -> lastN_ok last.
Proof. destruct last as [[c sp]|]; cbn [lastn_b lastN_ok]; [|intros; exact I]. intros H. bsplit H. split; [apply cmdn_sound; wfa|apply sp_sound; wfa]. Qed.
Lemma body_sound b : body_b b = true -> body_ok b.
Proof.
  unfold body_b, body_ok. intros H. bsplit H. split; [wfh H|].
  destruct (cb_cmds b) as [|[c1 w1] ls]; destruct (cb_last b) as [[c sp]|]; try exact I; bsplit B.
  - split; [apply cmd1_sound; wfa|apply sp_sound; wfa].
  - split; [apply cmd1_sound; wfa|]. split; [wfa|]. split; [wfa|]. split; [|apply lastn_sound; wfa].
    fa_solve line_sound.
  - split; [apply cmd1_sound; wfa|]. split; [wfa|]. split; [wfa|]. split; [|exact I].
    fa_solve line_sound.
Qed.
Lemma gap_sound g R : gap_eol_b g R = true -> gap_eol g R.
Proof.
  unfold gap_eol_b, gap_eol. intros H. bsplit H. split; [wfh H|]. apply orb_prop in B. destruct B as [B|B]; [left; exact B|right].
  bsplit B. split; apply isnil_sound; wfa.
Qed.
Lemma stmt_sound st g R : stmt_b st g R = true -> stmt_wf st g R.
Proof.
  destruct st as [text|name w1 w2 str|name w1 w2 f w3 args|name w1 w2 i|doc wt name wn deps wd outs body]; cbn [stmt_b stmt_wf]; intros H; bsplit H.
  - split; [apply comment_sound; wfa|apply gap_sound; wfa].
  - split; [apply name_sound; wfa|]. split; [wfa|]. split; [wfa|]. split; [apply str_sound; wfa|apply gap_sound; wfa].
  - split; [apply name_sound; wfa|]. split; [wfa|]. split; [wfa|]. split; [wfa|]. split; [apply nonnil_sound; wfa|].
    split; [wfa|]. split; [apply cargs_sound; wfa|wfa].
  - split; [apply name_sound; wfa|]. split; [wfa|]. split; [wfa|]. split; [wfa|]. split; [apply nonnil_sound; wfa|].
    split; [wfa|apply isnil_sound; wfa].
  - split.
    { destruct doc as [[d w]|]; [|exact I]. bsplit H. split; [apply comment_sound; wfa|]. split; [apply nonnil_sound; wfa|]. split; wfa. }
    split; [wfa|]. split; [wfa|]. split.
    { intros Hn. apply orb_prop in B5. destruct B5 as [B5|B5]; [apply isnil_sound in B5; congruence|apply nonnil_sound; exact B5]. }
    split; [wfa|]. split; [apply cargs_sound; wfa|]. split; [wfa|]. split; [apply outs_sound; wfa|]. split; [apply body_sound; wfa|wfa].
Qed.
Lemma stmts_sound l : stmts_b l = true -> stmts_wf l.
Proof. induction l as [|[st g] tl IH]; [intros; exact I|]. cbn [stmts_b stmts_wf]. intros H. bsplit H. split; [apply stmt_sound; wfa|apply IH; wfa]. Qed.
Lemma seq_sound l : seq_b l = true -> seq_ok l.
Proof.
  induction l as [|[s g] tl IH]; [intros; exact I|]. cbn [seq_b seq_ok]. intros H. bsplit H. split; [|apply IH; wfa].
  destruct s; try exact I. intros Hu. rewrite Hu in H. cbn [negb orb] in H. apply isnil_sound. exact H.
Qed.

Theorem cst_wf_sound f : cst_wf_b f = true -> cst_wf f.
Proof. unfold cst_wf_b. intros H. bsplit H. split; [split; [wfh H|apply stmts_sound; wfa]|apply seq_sound; wfa]. Qed.
