(* An executable instance of the cache model: the digest of a file set is the file set itself
   (injective, never "empty").  Used by the correspondence check and the non-vacuity examples. *)
From Spok Require Import Base RunCache RunCacheProofs.
Open Scope nat_scope.

Definition DI := option inputs.
Fixpoint inputs_eqb (a b : inputs) : bool :=
  match a, b with
  | [], [] => true
  | (p, c) :: a', (q, d) :: b' => Nat.eqb p q && Nat.eqb c d && inputs_eqb a' b'
  | _, _ => false
  end.
Definition deqb_i (a b : DI) : bool :=
  match a, b with
  | None, None => true
  | Some x, Some y => inputs_eqb x y
  | _, _ => false
  end.
Definition digest_i (F : inputs) : DI := Some F.

Lemma inputs_eqb_spec a : forall b, inputs_eqb a b = true <-> a = b.
Proof.
  induction a as [|[p c] a IH]; intros [|[q d] b]; cbn [inputs_eqb]; try (split; [discriminate|congruence]); try tauto.
  rewrite !andb_true_iff, !Nat.eqb_eq, IH. split; [intros [[-> ->] ->]; reflexivity|intros H; inversion H; auto].
Qed.
Lemma deqb_i_spec a b : deqb_i a b = true <-> a = b.
Proof.
  destruct a as [x|], b as [y|]; cbn [deqb_i]; try (split; [discriminate|congruence]); try tauto.
  rewrite inputs_eqb_spec. split; congruence.
Qed.
Lemma digest_i_ne F : digest_i F <> None. Proof. discriminate. Qed.
Lemma digest_i_inj F F' : digest_i F = digest_i F' -> F = F'. Proof. intros H; inversion H; reflexivity. Qed.

Definition run_i := run DI deqb_i None digest_i.
Definition apply_op_i := apply_op DI deqb_i None digest_i.
Definition init_i := init_st DI.
Definition state_at_i := state_at DI.
