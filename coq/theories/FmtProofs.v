(* The formatter: its output parses back to the same tree up to comment normalisation (C07), formatting twice equals
   formatting once (C11), comments and docstrings stay where they are with their text intact (C15). *)
From Spok Require Import Base Lexer Parser Cst ParseTotal RoundTripP LexInv LexSteps LexFwd RoundTripL RoundTrip CstWf TrimProofs Layout.
From Coq Require Import Lia.
Open Scope N_scope.

Theorem fmt_parses t : tree_wf t -> parse (fmt t) = PTree (canon t).
Proof. intros H. rewrite fmt_is_a_layout, (parse_render (layout t) (layout_wf t H)), layout_erase. reflexivity. Qed.

Lemma comment_str_ctext c : comment_str (ctext c) = comment_str c.
Proof. unfold ctext, comment_str. destruct c as [|b c]; [reflexivity|]. rewrite trim_space_trim. reflexivity. Qed.
Lemma doc_str_ctext c : doc_str (ctext c) = doc_str c.
Proof. unfold doc_str. destruct c as [|b c]; [reflexivity|]. cbn [ctext]. change (32 :: trim (b :: c)) with (ctext (b :: c)). apply comment_str_ctext. Qed.

(* formatting the normalised tree prints the same text: no hypothesis at all *)
Theorem fmt_canon t : fmt (canon t) = fmt t.
Proof.
  unfold fmt, canon. rewrite map_map. f_equal. apply map_ext. intros n.
  destruct n as [c|name v|doc name deps outs cmds]; cbn [canon_node node_str]; [apply comment_str_ctext|reflexivity|]. rewrite doc_str_ctext. reflexivity.
Qed.

(* ---- what a spokfile "does": its variables and tasks, in order, without comments and docstrings ---- *)
Inductive item := IVar (name : bytes) (v : rhs) | ITask (name : bytes) (deps outs : list arg) (cmds : list bytes).
Definition sem_node (n : node) : list item :=
  match n with NComment _ => [] | NAssign name v => [IVar name v] | NTask _ name deps outs cmds => [ITask name deps outs cmds] end.
Definition sem (t : list node) : list item := concat (map sem_node t).

Lemma sem_canon t : sem (canon t) = sem t.
Proof. unfold sem, canon. rewrite map_map. f_equal. apply map_ext. intros n. destruct n; reflexivity. Qed.

(* C07 on the model, for trees in the proven class *)
Theorem format_preserves_meaning s t : parse s = PTree t -> tree_wf t ->
  exists t', parse (fmt t) = PTree t' /\ sem t' = sem t.
Proof. intros _ H. exists (canon t). split; [apply fmt_parses; exact H|apply sem_canon]. Qed.

(* C11 on the model: format (format x) = format x *)
Theorem format_idempotent s t : parse s = PTree t -> tree_wf t ->
  exists t', parse (fmt t) = PTree t' /\ fmt t' = fmt t.
Proof. intros _ H. exists (canon t). split; [apply fmt_parses; exact H|apply fmt_canon]. Qed.

(* ---- C15: comments and docstrings ---- *)
(* the free-standing comments and the docstrings of a tree, position by position (one entry per node) *)
Inductive cmark := MComment (text : bytes) | MDoc (text : bytes) | MNone.
Definition mark (n : node) : cmark :=
  match n with NComment c => MComment (trim c) | NTask doc _ _ _ _ => MDoc (trim doc) | NAssign _ _ => MNone end.

Lemma trim_ctext c : trim (ctext c) = trim c.
Proof. unfold ctext. destruct c as [|b c]; [reflexivity|]. apply trim_space_trim. Qed.

Lemma marks_canon t : map mark (canon t) = map mark t.
Proof. unfold canon. rewrite map_map. apply map_ext. intros n. destruct n as [c|name v|doc name deps outs cmds]; cbn [canon_node mark]; rewrite ?trim_ctext; reflexivity. Qed.

Lemma ctext_nil c : ctext c = [] <-> c = [].
Proof. unfold ctext. destruct c; split; intros; try reflexivity; discriminate. Qed.

(* after formatting, every node is the same kind of node at the same position, a comment is empty iff it was empty, a task is
   documented iff it was, and every comment/docstring has the same (trimmed) text *)
Theorem format_keeps_comments s t : parse s = PTree t -> tree_wf t ->
  exists t', parse (fmt t) = PTree t' /\ map mark t' = map mark t /\ length t' = length t /\
    Forall2 (fun n n' => match n, n' with
                         | NComment c, NComment c' => (c' = [] <-> c = [])
                         | NTask d _ _ _ _, NTask d' _ _ _ _ => (d' = [] <-> d = [])
                         | NAssign _ _, NAssign _ _ => True
                         | _, _ => False end) t t'.
Proof.
  intros _ H. exists (canon t). split; [apply fmt_parses; exact H|]. split; [apply marks_canon|]. split; [unfold canon; apply map_length|].
  unfold canon. clear H. induction t as [|n t IH]; [constructor|]. cbn [map]. constructor; [|exact IH].
  destruct n as [c|name v|doc name deps outs cmds]; cbn [canon_node]; try exact I; apply ctext_nil.
Qed.
