(* Proofs about --clean (C12) and about what each action may write (C19). *)
From Spok Require Import Base Paths Glob GlobProofs Effects.
Open Scope N_scope.

Lemma seg_prefix_refl a : seg_prefix a a = true.
Proof. induction a as [|x a IH]; cbn [seg_prefix]; [reflexivity|]. rewrite bytes_eqb_refl. exact IH. Qed.

Lemma seg_prefix_trans a : forall b c, seg_prefix a b = true -> seg_prefix b c = true -> seg_prefix a c = true.
Proof.
  induction a as [|x a IH]; intros [|y b] [|z c] H1 H2; cbn [seg_prefix] in *; try discriminate; try reflexivity.
  apply andb_true_iff in H1, H2. destruct H1 as [E1 H1], H2 as [E2 H2]. apply bytes_eqb_spec in E1, E2. subst.
  rewrite bytes_eqb_refl. cbn [andb]. eapply IH; eauto.
Qed.

Lemma remove_all_In t fs q : In q (remove_all t fs) <-> In q fs /\ seg_prefix t q = false.
Proof. unfold remove_all. rewrite filter_In, negb_true_iff. tauto. Qed.

Lemma apply_targets_In root ts : forall fs q,
  In q (apply_targets root ts fs) <-> In q fs /\ forall t, In t ts -> guarded root t = false -> seg_prefix t q = false.
Proof.
  unfold apply_targets. induction ts as [|t ts IH]; intros fs q; cbn [fold_left].
  - split; [intros H; split; [exact H|intros t []]|tauto].
  - rewrite IH. destruct (guarded root t) eqn:G.
    + split; intros [A B]; (split; [exact A|]); intros t' Ht' G'.
      * destruct Ht' as [<-|Ht']; [congruence|apply B; assumption].
      * apply B; [right; exact Ht'|exact G'].
    + rewrite remove_all_In. split.
      * intros [[A A'] B]. split; [exact A|]. intros t' [<-|Ht'] G'; [exact A'|apply B; assumption].
      * intros [A B]. split; [split; [exact A|apply B; [left; reflexivity|exact G]]|]. intros t' Ht' G'. apply B; [right; exact Ht'|exact G'].
Qed.

(* C12: --clean removes exactly what lies at or below an unguarded target (declared outputs, cache directory) *)
Theorem clean_exact root cwd vs outs fs fs' : clean_fs root cwd vs outs fs = Some fs' ->
  exists ts, targets root cwd vs outs = Some ts /\
  forall q, In q fs' <-> In q fs /\ forall t, In t (ts ++ [root ++ [cache_dir_name]]) -> guarded root t = false -> seg_prefix t q = false.
Proof.
  unfold clean_fs. destruct (targets root cwd vs outs) as [ts|]; [|discriminate]. intros H. inversion H; subst.
  exists ts. split; [reflexivity|]. intros q. apply apply_targets_In.
Qed.

(* C12: the spokfile, the directory containing it and everything above survive, whatever the outputs evaluate to *)
Theorem clean_safe root cwd vs outs fs fs' q : clean_fs root cwd vs outs fs = Some fs' ->
  seg_prefix q (root ++ [spokfile_name]) = true -> In q fs -> In q fs'.
Proof.
  intros H Hq Hin. destruct (clean_exact _ _ _ _ _ _ H) as (ts & _ & E). apply E. split; [exact Hin|].
  intros t _ G. destruct (seg_prefix t q) eqn:P; [|reflexivity]. exfalso.
  unfold guarded in G. rewrite (seg_prefix_trans t q _ P Hq) in G. discriminate.
Qed.

(* nothing outside the targets is touched *)
Corollary clean_frame root cwd vs outs fs fs' q : clean_fs root cwd vs outs fs = Some fs' ->
  In q fs' -> In q fs.
Proof. intros H Hin. destruct (clean_exact _ _ _ _ _ _ H) as (ts & _ & E). apply E in Hin. tauto. Qed.

(* ---------- C19 ---------- *)
Theorem fmt_guard o p n : write_kind o p n = WSpokfileOnly -> o_fmt o = true /\ p_found p = true /\ p_loads p = true /\ o_init o = false.
Proof.
  unfold write_kind. destruct o as [i f v c sh q d], p as [fo lo hc hd cs]; cbn.
  destruct i, cs, q, d, fo, lo, f, v, c, hc, sh, hd, n; cbn; intros H; try discriminate; auto.
Qed.

Theorem init_never_overwrites o p n : o_init o = true -> p_cwd_has_spokfile p = true -> write_kind o p n = WNothing.
Proof. unfold write_kind. intros -> ->. reflexivity. Qed.

Theorem init_writes_only_init o p n : o_init o = true -> write_kind o p n = WNothing \/ write_kind o p n = WInit.
Proof. unfold write_kind. intros ->. destruct (p_cwd_has_spokfile p); auto. Qed.

(* listing tasks, showing variables and running tasks touch at most the cache directory *)
Theorem readonly_actions o p n : o_init o = false -> o_fmt o = false -> o_clean o = false ->
  write_kind o p n = WNothing \/ write_kind o p n = WCacheOnly.
Proof.
  unfold write_kind. intros -> -> ->. destruct (o_quiet o && o_debug o), (p_found p), (p_loads p), (o_vars o), (o_show o), n, (p_has_default p); cbn; auto.
Qed.
Theorem show_and_vars_write_nothing o p n : o_init o = false -> o_fmt o = false -> o_clean o = false ->
  (o_vars o = true \/ o_show o = true) -> write_kind o p n = WNothing.
Proof.
  unfold write_kind. intros -> -> -> H. destruct (o_quiet o && o_debug o), (p_found p), (p_loads p); cbn; auto.
  destruct H as [-> | ->]; [reflexivity|]. destruct (o_vars o); reflexivity.
Qed.

(* the cache directory is never the spokfile, and changes confined to it leave every other path alone *)
Theorem cache_only_frame root cwd ts q : may_change WCacheOnly root cwd ts q = true -> seg_prefix (root ++ [cache_dir_name]) q = true.
Proof. intros H. exact H. Qed.
Theorem nothing_frame root cwd ts q : may_change WNothing root cwd ts q = false.
Proof. reflexivity. Qed.

(* with a task named clean, --clean only runs that task: at most the cache directory changes *)
Lemma user_clean_cache_only o p n : o_init o = false -> o_fmt o = false -> o_vars o = false -> o_clean o = true ->
  p_found p = true -> p_loads p = true -> p_has_clean p = true -> (o_quiet o && o_debug o)%bool = false ->
  write_kind o p n = WCacheOnly.
Proof. intros A B C D E F G H. unfold write_kind. rewrite A, B, C, D, E, F, G, H. reflexivity. Qed.
