(* C08: the parser is total on every byte string and every error it reports is located.
   The proof runs the parser against the token stream characterised by lex_tiles (positions, lines) and
   lex_protocol (the order in which token kinds can appear): the monitor state tells the parser proof that
   the stream cannot run dry where the parser still reads, so the zero token of a closed channel is never
   read, every loop ends before its fuel, and every error cites a real token. *)
From Spok Require Import Base Lexer Parser LexInv LexSteps LexProtocol.
From Coq Require Import Lia.

Definition stream (p : ps) : list token := (if pending p then [buf p] else []) ++ rest p.

Lemma mrun_reject l : mrun MReject l = MReject.
Proof. induction l as [|x l IH]; [reflexivity|]. exact IH. Qed.
Lemma mrun_cons m x l : mrun m (x :: l) = mrun (mon m x) l.
Proof. reflexivity. Qed.
Lemma mrun_done l : mrun MDone l = MDone -> l = [].
Proof. destruct l as [|x l]; [reflexivity|]. rewrite mrun_cons. cbn [mon]. rewrite mrun_reject. discriminate. Qed.

Lemma tis_true t k : tis t k = true <-> ty t = k.
Proof. unfold tis. destruct (ty t), k; split; intros H; try reflexivity; try discriminate. Qed.
Lemma tis_false t k : tis t k = false <-> ty t <> k.
Proof. split; intros H. - intros E. apply tis_true in E. congruence. - destruct (tis t k) eqn:E; [|reflexivity]. apply tis_true in E. contradiction. Qed.

Section Total.
Variable s : bytes.
Variable toks : list token.
Let lines := map trim (split_nl [] s).

Hypothesis H_tline : forall x, In x toks -> ty x <> ERROR -> 1 <= tline x <= length lines.
Hypothesis H_err : forall x, In x toks -> ty x = ERROR -> 1 <= eline x <= length lines /\ ectx x = nth_error lines (Nat.pred (eline x)).
Hypothesis H_mon : mrun MTop (map ty toks) = MDone.

(* a located error: cites an existing line of the input and quotes that line, trimmed *)
Definition Loc (e : presult) : Prop :=
  match e with
  | PErr line (Some ctx) => 1 <= line <= length lines /\ nth_error lines (Nat.pred line) = Some ctx
  | _ => False
  end.

Definition Q (p : ps) (m : mst) : Prop :=
  pinp p = s /\ exists consumed, toks = consumed ++ stream p /\ mrun MTop (map ty consumed) = m.

Definition RSpec {A} (x : r A) (post : ps -> Prop) : Prop :=
  match x with Ok _ p' => post p' | Fail e => Loc e end.

Lemma nth_some n : 1 <= n <= length lines -> exists c, nth_error lines (Nat.pred n) = Some c.
Proof. intros H. destruct (nth_error lines (Nat.pred n)) eqn:E; [eauto|]. apply nth_error_None in E. lia. Qed.

Lemma lex_err_loc x : In x toks -> ty x = ERROR -> Loc (lex_err x).
Proof.
  intros Hi He. destruct (H_err x Hi He) as [Hr Hc]. unfold lex_err, Loc. rewrite Hc.
  destruct (nth_some _ Hr) as [c Ec]. rewrite Ec. split; [exact Hr|reflexivity].
Qed.

Lemma illegal_loc p x : pinp p = s -> In x toks -> ty x <> ERROR -> Loc (illegal p x x).
Proof.
  intros Hp Hi He. pose proof (H_tline x Hi He) as Hr. unfold illegal, pgetLine, Loc. rewrite Hp. fold lines.
  destruct (tline x) as [|n] eqn:En; [lia|]. destruct (nth_some (S n) Hr) as [c Ec]. cbn [Nat.pred] in Ec. rewrite Ec.
  split; [lia|exact Ec].
Qed.

Lemma Q_rest p m : Q p m -> mrun m (map ty (stream p)) = MDone.
Proof. intros [_ (c & E & Hm)]. rewrite E, map_app, mrun_app, Hm in H_mon. exact H_mon. Qed.

Lemma pnext_ok p m : Q p m -> m <> MDone ->
  exists x p', pnext p = (x, p') /\ In x toks /\ Q p' (mon m (ty x)) /\ pending p' = false /\ buf p' = x /\
    stream p = x :: stream p' /\ mon m (ty x) <> MReject /\ pinp p' = s.
Proof.
  intros HQ Hm. pose proof (Q_rest _ _ HQ) as Hr. destruct HQ as [Hp (c & E & Hc)].
  destruct (stream p) as [|x r0] eqn:Es.
  - cbn in Hr. congruence.
  - assert (Hnr : mon m (ty x) <> MReject). { intros Er. cbn [map] in Hr. rewrite mrun_cons, Er, mrun_reject in Hr. discriminate. }
    assert (Hin : In x toks). { rewrite E. apply in_or_app. right. left. reflexivity. }
    unfold stream in Es. unfold pnext. destruct (pending p) eqn:Ep.
    + cbn in Es. inversion Es; subst. eexists _, _. split; [reflexivity|]. split; [exact Hin|]. split.
      * split; [exact Hp|]. exists (c ++ [buf p]). unfold stream. cbn [pending rest app]. split; [rewrite <- app_assoc; exact E|].
        rewrite map_app, mrun_app. reflexivity.
      * repeat (split; try reflexivity; try assumption).
    + cbn in Es. rewrite Es. eexists _, _. split; [reflexivity|]. split; [exact Hin|]. split.
      * split; [exact Hp|]. exists (c ++ [x]). unfold stream. cbn [pending rest app]. split; [rewrite <- app_assoc; exact E|].
        rewrite map_app, mrun_app, Hc. reflexivity.
      * repeat (split; try reflexivity; try assumption).
Qed.

Lemma pbackup_ok p m x p' : Q p m -> m <> MDone -> pnext p = (x, p') -> Q (pbackup p') m /\ stream (pbackup p') = stream p.
Proof.
  intros HQ Hm E. destruct (pnext_ok p m HQ Hm) as (x' & p'' & E' & _ & HQ' & Hpend & Hbuf & Hs & _ & Hp').
  rewrite E in E'. injection E' as <- <-.
  assert (Hst : stream (pbackup p') = stream p).
  { rewrite Hs. unfold stream, pbackup. cbn [pending buf rest]. rewrite Hpend. cbn. rewrite Hbuf. reflexivity. }
  split; [|exact Hst]. destruct HQ as [Hp (c & Ec & Hc)]. split; [exact Hp'|]. exists c. rewrite Hst. split; assumption.
Qed.

Ltac tcase t k H := destruct (tis t k) eqn:H; [apply tis_true in H | apply tis_false in H].

Lemma expect_ok k p m : Q p m -> m <> MDone -> k <> ERROR ->
  RSpec (expect k p) (fun p' => Q p' (mon m k) /\ length (stream p) = S (length (stream p'))).
Proof.
  intros HQ Hm Hk. destruct (pnext_ok p m HQ Hm) as (x & p' & E & Hin & HQ' & _ & _ & Hs & _ & Hp').
  unfold expect. rewrite E. tcase x ERROR He; [apply lex_err_loc; assumption|].
  tcase x k Hx; cbn [negb RSpec].
  - rewrite <- Hx. split; [exact HQ'|]. rewrite Hs. reflexivity.
  - apply illegal_loc; assumption.
Qed.

Lemma args_loop_ok : forall fuel next acc p, In next toks -> Q p (mon MTop (ty next)) -> length (stream p) < fuel ->
  RSpec (args_loop fuel next acc p) (fun p' => Q p' MTop /\ length (stream p') <= length (stream p)).
Proof.
  induction fuel as [|f IH]; intros next acc p Hin HQ Hf; [lia|]. cbn [args_loop].
  assert (Hp : pinp p = s) by (destruct HQ; assumption).
  assert (step : forall acc', ty next = STRING \/ ty next = IDENT \/ ty next = COMMA ->
     RSpec (let '(n, p1) := pnext p in args_loop f n acc' p1) (fun p' => Q p' MTop /\ length (stream p') <= length (stream p))).
  { intros acc' Ht. assert (Em : mon MTop (ty next) = MTop) by (destruct Ht as [-> | [-> | ->]]; reflexivity).
    rewrite Em in HQ. destruct (pnext_ok p MTop HQ ltac:(discriminate)) as (x & p' & E & Hin' & HQ' & _ & _ & Hs & _).
    rewrite E. specialize (IH x acc' p' Hin' HQ'). rewrite Hs in Hf. cbn [length] in Hf. specialize (IH ltac:(lia)).
    destruct (args_loop f x acc' p'); cbn [RSpec] in *; [|exact IH]. rewrite Hs. cbn [length]. destruct IH. split; [assumption|lia]. }
  tcase next RPAREN H1. { cbn [RSpec]. rewrite H1 in HQ. split; [exact HQ|lia]. }
  tcase next STRING H2. { apply step. auto. }
  tcase next IDENT H3. { apply step. auto. }
  tcase next COMMA H4. { apply step. auto. }
  tcase next ERROR H5. { apply lex_err_loc; assumption. }
  apply illegal_loc; assumption.
Qed.

Lemma outs_loop_ok : forall fuel lp next acc p, In next toks -> Q p (mon MTop (ty next)) -> length (stream p) < fuel ->
  RSpec (outs_loop fuel lp next acc p) (fun p' => Q p' MTop /\ length (stream p') <= length (stream p)).
Proof.
  induction fuel as [|f IH]; intros lp next acc p Hin HQ Hf; [lia|]. cbn [outs_loop].
  assert (Hp : pinp p = s) by (destruct HQ; assumption).
  assert (step : forall acc', ty next = STRING \/ ty next = IDENT \/ ty next = COMMA ->
     RSpec (let '(n, p1) := pnext p in outs_loop f lp n acc' p1) (fun p' => Q p' MTop /\ length (stream p') <= length (stream p))).
  { intros acc' Ht. assert (Em : mon MTop (ty next) = MTop) by (destruct Ht as [-> | [-> | ->]]; reflexivity).
    rewrite Em in HQ. destruct (pnext_ok p MTop HQ ltac:(discriminate)) as (x & p' & E & Hin' & HQ' & _ & _ & Hs & _).
    rewrite E. specialize (IH lp x acc' p' Hin' HQ'). rewrite Hs in Hf. cbn [length] in Hf. specialize (IH ltac:(lia)).
    destruct (outs_loop f lp x acc' p'); cbn [RSpec] in *; [|exact IH]. rewrite Hs. cbn [length]. destruct IH. split; [assumption|lia]. }
  tcase next RPAREN H1. { cbn [RSpec]. rewrite H1 in HQ. split; [exact HQ|lia]. }
  tcase next STRING H2. { apply step. auto. }
  tcase next IDENT H3. { apply step. auto. }
  tcase next COMMA H4. { apply step. auto. }
  tcase next ERROR H5. { apply lex_err_loc; assumption. }
  apply illegal_loc; assumption.
Qed.

Lemma cmds_loop_ok : forall fuel acc p, Q p MInBody -> length (stream p) < fuel ->
  RSpec (cmds_loop fuel acc p) (fun p' => Q p' MTop /\ length (stream p') < length (stream p)).
Proof.
  induction fuel as [|f IH]; intros acc p HQ Hf; [lia|]. cbn [cmds_loop].
  destruct (pnext_ok p MInBody HQ ltac:(discriminate)) as (x & p' & E & Hin & HQ' & _ & _ & Hs & Hnr & _).
  rewrite E. rewrite Hs in Hf |- *. cbn [length] in Hf |- *.
  tcase x ERROR H1. { apply lex_err_loc; assumption. }
  tcase x RBRACE H2. { cbn [RSpec]. rewrite H2 in HQ'. split; [exact HQ'|lia]. }
  tcase x COMMAND H3.
  { rewrite H3 in HQ'. specialize (IH (val x :: acc) p' HQ' ltac:(lia)).
    destruct (cmds_loop f (val x :: acc) p'); cbn [RSpec] in *; [|exact IH]. destruct IH. split; [assumption|lia]. }
  exfalso. apply Hnr. destruct (ty x); try reflexivity; congruence.
Qed.

Lemma parseFunction_ok fuel ident p : Q p MTop -> length (stream p) < fuel ->
  RSpec (parseFunction fuel ident p) (fun p' => Q p' MTop /\ length (stream p') < length (stream p)).
Proof.
  intros HQ Hf. unfold parseFunction. pose proof (expect_ok LPAREN p MTop HQ ltac:(discriminate) ltac:(discriminate)) as He.
  destruct (expect LPAREN p) as [u p1|e]; cbn [RSpec] in *; [|exact He]. destruct He as [HQ1 Hl1]. cbn [mon] in HQ1.
  destruct (pnext_ok p1 MTop HQ1 ltac:(discriminate)) as (x & p2 & E & Hin & HQ2 & _ & _ & Hs & _). rewrite E.
  pose proof (args_loop_ok fuel x [] p2 Hin HQ2) as Ha. rewrite Hs in Hl1. cbn [length] in Hl1. specialize (Ha ltac:(lia)).
  destruct (args_loop fuel x [] p2); cbn [RSpec] in *; [|exact Ha]. destruct Ha. split; [assumption|lia].
Qed.

Lemma parseAssign_ok fuel ident p : Q p MTop -> length (stream p) < fuel ->
  RSpec (parseAssign fuel ident p) (fun p' => Q p' MTop /\ length (stream p') < length (stream p)).
Proof.
  intros HQ Hf. unfold parseAssign. pose proof (expect_ok DECLARE p MTop HQ ltac:(discriminate) ltac:(discriminate)) as He.
  destruct (expect DECLARE p) as [u p1|e]; cbn [RSpec] in *; [|exact He]. destruct He as [HQ1 Hl1]. cbn [mon] in HQ1.
  destruct (pnext_ok p1 MTop HQ1 ltac:(discriminate)) as (x & p2 & E & Hin & HQ2 & _ & _ & Hs & _ & Hp2). rewrite E.
  rewrite Hs in Hl1. cbn [length] in Hl1.
  tcase x STRING H1. { cbn [RSpec]. rewrite H1 in HQ2. split; [exact HQ2|lia]. }
  tcase x IDENT H2.
  { rewrite H2 in HQ2. cbn [mon] in HQ2.
    destruct (pnext_ok p2 MTop HQ2 ltac:(discriminate)) as (y & p3 & E3 & Hin3 & HQ3 & _ & _ & Hs3 & _). rewrite E3.
    destruct (pbackup_ok p2 MTop y p3 HQ2 ltac:(discriminate) E3) as [HQb Hsb].
    tcase y LPAREN H3.
    - pose proof (parseFunction_ok fuel x (pbackup p3) HQb) as Hfn. rewrite Hsb in Hfn. specialize (Hfn ltac:(lia)).
      destruct (parseFunction fuel x (pbackup p3)); cbn [RSpec] in *; [|exact Hfn]. destruct Hfn. split; [assumption|lia].
    - cbn [RSpec]. rewrite Hsb. split; [exact HQb|lia]. }
  tcase x ERROR H3. { apply lex_err_loc; assumption. }
  apply illegal_loc; assumption.
Qed.

Lemma parseTaskOutputs_ok fuel p : Q p MTop -> length (stream p) < fuel ->
  RSpec (parseTaskOutputs fuel p) (fun p' => Q p' MTop /\ length (stream p') <= length (stream p)).
Proof.
  intros HQ Hf. unfold parseTaskOutputs.
  destruct (pnext_ok p MTop HQ ltac:(discriminate)) as (t & p1 & E & Hin & HQ1 & _ & _ & Hs & _). rewrite E.
  tcase t OUTPUT H0.
  - rewrite H0 in HQ1. cbn [mon] in HQ1.
    destruct (pnext_ok p1 MTop HQ1 ltac:(discriminate)) as (x & p2 & E2 & Hin2 & HQ2 & _ & _ & Hs2 & _ & Hp2). rewrite E2.
    rewrite Hs, Hs2 in *. cbn [length] in *.
    tcase x STRING H1. { cbn [RSpec]. rewrite H1 in HQ2. split; [exact HQ2|lia]. }
    tcase x IDENT H2. { cbn [RSpec]. rewrite H2 in HQ2. split; [exact HQ2|lia]. }
    tcase x COMMA H3. { cbn [RSpec]. rewrite H3 in HQ2. split; [exact HQ2|lia]. }
    tcase x LPAREN H4.
    { rewrite H4 in HQ2. cbn [mon] in HQ2.
      destruct (pnext_ok p2 MTop HQ2 ltac:(discriminate)) as (y & p3 & E3 & Hin3 & HQ3 & _ & _ & Hs3 & _). rewrite E3.
      pose proof (outs_loop_ok fuel x y [] p3 Hin3 HQ3) as Ho. rewrite Hs3 in *. cbn [length] in *. specialize (Ho ltac:(lia)).
      destruct (outs_loop fuel x y [] p3); cbn [RSpec] in *; [|exact Ho]. destruct Ho. split; [assumption|lia]. }
    tcase x ERROR H5. { apply lex_err_loc; assumption. }
    apply illegal_loc; assumption.
  - cbn [RSpec]. destruct (pbackup_ok p MTop t p1 HQ ltac:(discriminate) E) as [HQb Hsb]. rewrite Hsb. split; [exact HQb|lia].
Qed.

Lemma parseTask_ok fuel doc p : Q p MAfterTask -> length (stream p) < fuel ->
  RSpec (parseTask fuel doc p) (fun p' => Q p' MTop /\ length (stream p') < length (stream p)).
Proof.
  intros HQ Hf. unfold parseTask.
  destruct (pnext_ok p MAfterTask HQ ltac:(discriminate)) as (nm & p1 & E & Hin & HQ1 & _ & _ & Hs & Hnr & _). rewrite E.
  assert (Hnm : ty nm = IDENT). { destruct (ty nm); try reflexivity; exfalso; apply Hnr; reflexivity. }
  rewrite Hnm in HQ1. cbn [mon] in HQ1.
  pose proof (expect_ok LPAREN p1 MAfterName HQ1 ltac:(discriminate) ltac:(discriminate)) as He.
  destruct (expect LPAREN p1) as [u p2|e]; cbn [RSpec] in *; [|exact He]. destruct He as [HQ2 Hl2]. cbn [mon] in HQ2.
  destruct (pnext_ok p2 MTop HQ2 ltac:(discriminate)) as (x & p3 & E3 & Hin3 & HQ3 & _ & _ & Hs3 & _). rewrite E3.
  rewrite Hs in *. cbn [length] in *. rewrite Hs3 in Hl2. cbn [length] in Hl2.
  pose proof (args_loop_ok fuel x [] p3 Hin3 HQ3 ltac:(lia)) as Ha.
  destruct (args_loop fuel x [] p3) as [deps p4|e]; cbn [RSpec] in *; [|exact Ha]. destruct Ha as [HQ4 Hl4].
  pose proof (parseTaskOutputs_ok fuel p4 HQ4 ltac:(lia)) as Ho.
  destruct (parseTaskOutputs fuel p4) as [outs p5|e]; cbn [RSpec] in *; [|exact Ho]. destruct Ho as [HQ5 Hl5].
  pose proof (expect_ok LBRACE p5 MTop HQ5 ltac:(discriminate) ltac:(discriminate)) as He.
  destruct (expect LBRACE p5) as [u' p6|e]; cbn [RSpec] in *; [|exact He]. destruct He as [HQ6 Hl6]. cbn [mon] in HQ6.
  pose proof (cmds_loop_ok fuel [] p6 HQ6 ltac:(lia)) as Hc.
  destruct (cmds_loop fuel [] p6) as [cmds p7|e]; cbn [RSpec] in *; [|exact Hc]. destruct Hc as [HQ7 Hl7].
  split; [exact HQ7|lia].
Qed.

Definition PSpec (x : presult) : Prop := match x with PTree _ => True | e => Loc e end.

Lemma parse_loop_ok : forall fuel next acc p, In next toks -> Q p (mon MTop (ty next)) -> length (stream p) < fuel ->
  PSpec (parse_loop fuel next acc p).
Proof.
  induction fuel as [|f IH]; intros next acc p Hin HQ Hf; [lia|]. cbn [parse_loop].
  assert (Hp : pinp p = s) by (destruct HQ; assumption).
  assert (cont : forall p1 acc', Q p1 MTop -> length (stream p1) <= length (stream p) ->
            PSpec (let '(n, p2) := pnext p1 in parse_loop f n acc' p2)).
  { intros p1 acc' HQ1 Hl. destruct (pnext_ok p1 MTop HQ1 ltac:(discriminate)) as (x & p2 & E & Hin2 & HQ2 & _ & _ & Hs & _).
    rewrite E. apply IH; [assumption|assumption|]. rewrite Hs in Hl. cbn [length] in Hl. lia. }
  tcase next EOF H1. { exact I. }
  tcase next ERROR H2. { apply lex_err_loc; assumption. }
  tcase next HASH H3.
  { rewrite H3 in HQ. cbn [mon] in HQ.
    destruct (pnext_ok p MAfterHash HQ ltac:(discriminate)) as (c & p1 & E1 & Hin1 & HQ1 & _ & _ & Hs1 & Hnr & _). rewrite E1.
    assert (Hc : ty c = COMMENT). { destruct (ty c); try reflexivity; exfalso; apply Hnr; reflexivity. }
    rewrite Hc in HQ1. cbn [mon] in HQ1.
    destruct (pnext_ok p1 MTop HQ1 ltac:(discriminate)) as (t & p2 & E2 & Hin2 & HQ2 & _ & _ & Hs2 & _). rewrite E2.
    destruct (tis t TASK && negb (is_nil (val c)))%bool eqn:Eb.
    - apply andb_prop in Eb. destruct Eb as [Et _]. apply tis_true in Et. rewrite Et in HQ2. cbn [mon] in HQ2.
      rewrite Hs1, Hs2 in *. cbn [length] in *.
      pose proof (parseTask_ok (S f) (val c) p2 HQ2 ltac:(lia)) as Ht.
      destruct (parseTask (S f) (val c) p2) as [task p3|e]; cbn [RSpec] in *.
      + destruct Ht as [HQ3 Hl3]. apply cont; [exact HQ3|lia].
      + destruct e; try contradiction. exact Ht.
    - destruct (pbackup_ok p1 MTop t p2 HQ1 ltac:(discriminate) E2) as [HQb Hsb].
      apply cont; [exact HQb|]. rewrite Hsb, Hs1. cbn [length]. lia. }
  tcase next IDENT H4.
  { rewrite H4 in HQ. cbn [mon] in HQ. pose proof (parseAssign_ok (S f) next p HQ Hf) as Ha.
    destruct (parseAssign (S f) next p) as [a p1|e]; cbn [RSpec] in *.
    - destruct Ha as [HQ1 Hl1]. apply cont; [exact HQ1|lia].
    - destruct e; try contradiction. exact Ha. }
  tcase next TASK H5.
  { rewrite H5 in HQ. cbn [mon] in HQ. pose proof (parseTask_ok (S f) [] p HQ Hf) as Ht.
    destruct (parseTask (S f) [] p) as [task p1|e]; cbn [RSpec] in *.
    - destruct Ht as [HQ1 Hl1]. apply cont; [exact HQ1|lia].
    - destruct e; try contradiction. exact Ht. }
  apply illegal_loc; assumption.
Qed.

End Total.

Lemma nl_firstn_le n s : nl (firstn n s) <= nl s.
Proof. rewrite <- (firstn_skipn n s) at 2. rewrite nl_app. lia. Qed.

(* the statement of C08 on the model: for every byte string the parser returns a tree or an error that cites
   a line number between 1 and the number of lines and quotes exactly that line, trimmed; it never panics,
   never hangs (fuel) and never reports an unlocated error *)
Definition located (s : bytes) (r : presult) : Prop :=
  match r with
  | PTree _ => True
  | PErr line (Some ctx) => 1 <= line <= S (nl s) /\ nth_error (map trim (split_nl [] s)) (Nat.pred line) = Some ctx
  | _ => False
  end.

Theorem parse_total s : located s (parse s).
Proof.
  destruct (lex_tiles s) as [Hf (front & t & E & H)]. pose proof (lex_protocol s Hf) as Hm.
  unfold parse. destruct (lex s) as [f toks]. cbn [fst snd] in *. subst f.
  set (lines := map trim (split_nl [] s)).
  assert (Hlen : length lines = S (nl s)) by (unfold lines; rewrite map_length; apply split_nl_len).
  assert (H_tline : forall x, In x toks -> ty x <> ERROR -> 1 <= tline x <= length lines).
  { intros x Hx Hne. rewrite Hlen. assert (Hx' : exists e l, Tiled s e l /\ In x l).
    { destruct H as [(Ht & (e & T) & _)|(Ht & e & T)].
      - rewrite E in Hx. apply in_app_or in Hx. destruct Hx as [Hx|[<-|[]]]; [eauto|congruence].
      - rewrite <- E in T. eauto. }
    destruct Hx' as (e & l & T & Hl). destruct (Tiled_each _ _ _ T x Hl) as (_ & _ & _ & Hline & _).
    rewrite Hline. pose proof (nl_firstn_le (tpos x) s). lia. }
  assert (H_err : forall x, In x toks -> ty x = ERROR -> 1 <= eline x <= length lines /\ ectx x = nth_error lines (Nat.pred (eline x))).
  { intros x Hx He. rewrite Hlen. destruct H as [(Ht & (e & T) & Hloc)|(Ht & e & T)].
    - rewrite E in Hx. apply in_app_or in Hx. destruct Hx as [Hx|[<-|[]]]; [|exact Hloc].
      destruct (Tiled_each _ _ _ T x Hx) as (Hne & _). contradiction.
    - rewrite <- E in T. destruct (Tiled_each _ _ _ T x Hx) as (Hne & _). contradiction. }
  set (p0 := {| buf := zero_tok; pending := false; rest := toks; pinp := s |}).
  assert (HQ0 : Q s toks p0 MTop). { split; [reflexivity|]. exists []. split; reflexivity. }
  destruct (pnext_ok s toks Hm p0 MTop HQ0 ltac:(discriminate)) as (n & p1 & En & Hin & HQ1 & _ & _ & Hs & _).
  rewrite En. pose proof (parse_loop_ok s toks H_tline H_err Hm (S (S (length toks))) n [] p1 Hin HQ1) as HP.
  assert (Hst : stream p0 = toks) by reflexivity. rewrite Hst in Hs.
  assert (Hlt : length (stream p1) < S (S (length toks))) by (rewrite Hs at 1; cbn [length]; lia). specialize (HP Hlt).
  destruct (parse_loop (S (S (length toks))) n [] p1) as [tr|line [ctx|]|msg| |]; cbn in HP |- *; try contradiction; try exact I.
  fold lines. rewrite <- Hlen. exact HP.
Qed.

Corollary parse_never_panics s : parse s <> PPanic /\ parse s <> PFuel.
Proof. pose proof (parse_total s) as H. destruct (parse s) as [tr|line [ctx|]|msg| |]; cbn in H; try contradiction; split; discriminate. Qed.
