(* Stage L of the round trip: the lexer run on render c produces exactly toks c. *)
From Spok Require Import Base Lexer Parser DecodeSpec LexInv LexSteps Cst LexFwd.
From Coq Require Import Lia.
Open Scope N_scope.

Definition nid (s : bytes) : Prop := is_ident (fst (decode s)) = false.

Lemma dec1 b s : b < 128 -> fst (decode (b :: s)) = b.
Proof. intros H. rewrite decode_ascii_cons by exact H. reflexivity. Qed.

Lemma ns_cons b s : b < 128 -> is_space b = false -> ns (b :: s).
Proof. intros H1 H2. unfold ns. rewrite dec1 by exact H1. exact H2. Qed.
Lemma nid_cons b s : b < 128 -> is_ident b = false -> nid (b :: s).
Proof. intros H1 H2. unfold nid. rewrite dec1 by exact H1. exact H2. Qed.
Lemma ns_nil : ns []. Proof. reflexivity. Qed.
Lemma nid_nil : nid []. Proof. reflexivity. Qed.

Lemma ws_byte_facts b : is_ws_byte b = true -> b < 128 /\ is_space b = true /\ is_ident b = false.
Proof.
  unfold is_ws_byte. intros H.
  destruct (b =? 32) eqn:E1; [apply N.eqb_eq in E1; subst; repeat split; lia|].
  destruct (b =? 9) eqn:E2; [apply N.eqb_eq in E2; subst; repeat split; lia|].
  destruct (b =? 10) eqn:E3; [apply N.eqb_eq in E3; subst; repeat split; lia|].
  destruct (b =? 13) eqn:E4; [apply N.eqb_eq in E4; subst; repeat split; lia|]. discriminate.
Qed.

(* whitespace followed by a non-identifier start is a non-identifier start *)
Lemma nid_ws w t : WS w -> nid t -> nid (w ++ t).
Proof.
  intros Hw Ht. destruct w as [|b w]; [exact Ht|]. unfold WS in Hw. cbn [forallb] in Hw. apply andb_prop in Hw. destruct Hw as [Hb _].
  destruct (ws_byte_facts b Hb) as (A & _ & C). cbn [app]. apply nid_cons; assumption.
Qed.

Lemma WS_app a b : WS a -> WS b -> WS (a ++ b).
Proof. unfold WS. intros. rewrite forallb_app. apply andb_true_intro. auto. Qed.
Lemma WS_nil : WS []. Proof. reflexivity. Qed.

(* a space rune is never an identifier rune *)
Lemma space_not_ident r : is_space r = true -> is_ident r = false.
Proof.
  unfold is_space. intros H.
  repeat (apply orb_prop in H; destruct H as [H|H]);
    try (apply N.eqb_eq in H; subst r; vm_compute; reflexivity).
  - apply inr_spec in H. assert (r = 9 \/ r = 10 \/ r = 11 \/ r = 12 \/ r = 13) as [->|[->|[->|[->| ->]]]] by lia; vm_compute; reflexivity.
  - apply inr_spec in H.
    assert (r = 8192 \/ r = 8193 \/ r = 8194 \/ r = 8195 \/ r = 8196 \/ r = 8197 \/ r = 8198 \/ r = 8199 \/ r = 8200 \/ r = 8201 \/ r = 8202)
      as [->|[->|[->|[->|[->|[->|[->|[->|[->|[->| ->]]]]]]]]]] by lia; vm_compute; reflexivity.
Qed.
Lemma ident_ns s : is_ident (fst (decode s)) = true -> ns s.
Proof. intros H. unfold ns. destruct (is_space (fst (decode s))) eqn:E; [|reflexivity]. apply space_not_ident in E. congruence. Qed.

(* ---- literal punctuation: absorb, emit, skip the following whitespace ---- *)
Lemma lit_emit_skip T lit l w t o : VP l [] (lit ++ w ++ t) o -> nl lit = 0%nat -> T <> ERROR -> T <> EOF -> WS w -> ns t ->
  VP (skipWhitespace (emit T (absorb (length lit) l))) [] t ((T, lit) :: o).
Proof.
  intros HV Hnl H1 H2 Hw Hn. pose proof (absorb_vp l [] lit _ o HV Hnl) as V1.
  pose proof (emit_vp T _ _ _ _ V1 H1 H2) as V2. rewrite app_nil_r, rev_involutive in V2.
  exact (skipws_vp _ w t _ V2 Hw Hn).
Qed.
Lemma lit_emit T lit l t o : VP l [] (lit ++ t) o -> nl lit = 0%nat -> T <> ERROR -> T <> EOF ->
  VP (emit T (absorb (length lit) l)) [] t ((T, lit) :: o).
Proof.
  intros HV Hnl H1 H2. pose proof (absorb_vp l [] lit _ o HV Hnl) as V1.
  pose proof (emit_vp T _ _ _ _ V1 H1 H2) as V2. rewrite app_nil_r, rev_involutive in V2. exact V2.
Qed.

Lemma fwd_hash l t o : VP l [] (35 :: t) o -> exists l', step SHash l = (SComment, l') /\ VP l' [] t ((HASH, [35]) :: o).
Proof. intros HV. eexists. split; [reflexivity|]. apply (lit_emit HASH [35] l t o HV); [reflexivity|discriminate|discriminate]. Qed.

Lemma fwd_rbrace l t o : VP l [] (125 :: t) o -> exists l', step SRightBrace l = (SStart, l') /\ VP l' [] t ((RBRACE, [125]) :: o).
Proof. intros HV. eexists. split; [reflexivity|]. apply (lit_emit RBRACE [125] l t o HV); [reflexivity|discriminate|discriminate]. Qed.

Lemma fwd_taskkw l w t o : VP l [] (k_task ++ w ++ t) o -> WS w -> ns t ->
  exists l', step STaskKeyword l = (STaskName, l') /\ VP l' [] t ((TASK, k_task) :: o).
Proof. intros HV Hw Hn. eexists. split; [reflexivity|]. apply (lit_emit_skip TASK k_task l w t o HV); try assumption; try reflexivity; discriminate. Qed.

Lemma fwd_lparen l w t o : VP l [] (40 :: w ++ t) o -> WS w -> ns t ->
  exists l', step SLeftParen l = (SArgs, l') /\ VP l' [] t ((LPAREN, [40]) :: o).
Proof. intros HV Hw Hn. eexists. split; [reflexivity|]. apply (lit_emit_skip LPAREN [40] l w t o HV); try assumption; try reflexivity; discriminate. Qed.

Lemma fwd_lbrace l w t o : VP l [] (123 :: w ++ t) o -> WS w -> ns t ->
  exists l', step SLeftBrace l = (STaskBody, l') /\ VP l' [] t ((LBRACE, [123]) :: o).
Proof. intros HV Hw Hn. eexists. split; [reflexivity|]. apply (lit_emit_skip LBRACE [123] l w t o HV); try assumption; try reflexivity; discriminate. Qed.

(* ---- lexStart ---- *)
Lemma fwd_start_hash l w t o : VP l [] (w ++ 35 :: t) o -> WS w ->
  exists l', step SStart l = (SHash, l') /\ VP l' [] (35 :: t) o.
Proof.
  intros HV Hw. pose proof (skipws_vp l w _ o HV Hw (ns_cons 35 t ltac:(lia) eq_refl)) as V1.
  cbn [step]. unfold lexStart. destruct V1 as (P1 & S1 & R1). rewrite S1. cbn [has_prefix k_hash N.eqb Pos.eqb andb].
  eexists. split; [reflexivity|]. split; [exact P1|]. split; [exact S1|exact R1].
Qed.

Lemma fwd_start_eof l w o : VP l [] w o -> WS w ->
  exists l', step SStart l = (SDone, l') /\ VP l' [] [] ((EOF, []) :: o).
Proof.
  intros HV Hw. rewrite <- (app_nil_r w) in HV. pose proof (skipws_vp l w [] o HV Hw ns_nil) as V1.
  cbn [step]. unfold lexStart. pose proof V1 as (P1 & S1 & R1). rewrite S1. cbn [has_prefix k_hash].
  unfold atTaskKeyword. rewrite S1. cbn [has_prefix k_task andb].
  destruct (peek_vp _ _ _ _ V1) as (l1 & Ep & V2). rewrite Ep. cbn [decode fst].
  assert (is_ident RuneError = false) as -> by (vm_compute; reflexivity).
  unfold atEOF. destruct V2 as (P2 & S2 & R2). rewrite S2. eexists. split; [reflexivity|].
  apply emit_eof_vp. split; [exact P2|]. split; [exact S2|exact R2].
Qed.

Lemma fwd_start_task l w t o : VP l [] (w ++ k_task ++ t) o -> WS w -> nid t ->
  exists l', step SStart l = (STaskKeyword, l') /\ VP l' [] (k_task ++ t) o.
Proof.
  intros HV Hw Hn. pose proof (skipws_vp l w _ o HV Hw (ns_cons 116 _ ltac:(lia) eq_refl)) as V1.
  cbn [step]. unfold lexStart. pose proof V1 as (P1 & S1 & R1). rewrite S1. cbn [has_prefix k_hash k_task app N.eqb Pos.eqb andb].
  unfold atTaskKeyword. rewrite S1. cbn [k_task has_prefix app N.eqb Pos.eqb andb skipn]. unfold nid in Hn. rewrite Hn. cbn [negb].
  eexists. split; [reflexivity|]. exact V1.
Qed.

(* ---- identifiers at statement start ---- *)
Lemma ident_first fuel n t : ident_runes fuel n = true -> n <> [] ->
  exists r w, decode (n ++ t) = (r, w) /\ decode n = (r, w) /\ is_ident r = true /\ (0 < w <= length n)%nat.
Proof.
  intros H Hne. destruct fuel as [|f]; [discriminate|].
  destruct (ident_runes_step f n Hne H) as (r & w & Ed & Hr & Hw & _).
  exists r, w. split; [apply decode_app; [exact Ed|apply is_ident_not_err; exact Hr]|]. auto.
Qed.

Lemma ident_runes_ascii_cons f b n : b < 128 -> ident_runes (S f) (b :: n) = true -> ident_runes f n = true.
Proof. intros Hb H. cbn [ident_runes] in H. rewrite decode_ascii_cons in H by exact Hb. apply andb_prop in H. destruct H as [_ H]. exact H. Qed.

Lemma has_prefix_cons_inv a p b s : has_prefix (a :: p) (b :: s) = true -> b = a /\ has_prefix p s = true.
Proof. cbn [has_prefix]. intros H. apply andb_prop in H. destruct H as [H1 H2]. apply N.eqb_eq in H1. auto. Qed.

Lemma not_task_kw fuel n t : ident_runes fuel n = true -> n <> [] -> n <> k_task -> nid t ->
  has_prefix k_task (n ++ t) && negb (is_ident (fst (decode (skipn 4 (n ++ t))))) = false.
Proof.
  intros H Hne Hk Ht. destruct (has_prefix k_task (n ++ t)) eqn:E; [|reflexivity]. cbn [andb].
  assert (Hid : forall b x, has_prefix (b :: x) t = true -> is_ident b = true -> b < 128 -> False).
  { intros b x Hp Hb Hlt. destruct t as [|c t]; [discriminate|]. apply has_prefix_cons_inv in Hp. destruct Hp as [-> _].
    unfold nid in Ht. rewrite dec1 in Ht by exact Hlt. congruence. }
  unfold k_task in E.
  destruct fuel as [|f1]; [discriminate|].
  destruct n as [|b1 n]; [congruence|]. cbn [app] in E. apply has_prefix_cons_inv in E. destruct E as [-> E].
  pose proof (ident_runes_ascii_cons f1 116 n ltac:(lia) H) as H1.
  destruct n as [|b2 n]. { cbn [app] in E. exfalso. apply (Hid _ _ E eq_refl ltac:(lia)). }
  cbn [app] in E. apply has_prefix_cons_inv in E. destruct E as [-> E]. destruct f1 as [|f2]; [discriminate|].
  pose proof (ident_runes_ascii_cons f2 97 n ltac:(lia) H1) as H2.
  destruct n as [|b3 n]. { cbn [app] in E. exfalso. apply (Hid _ _ E eq_refl ltac:(lia)). }
  cbn [app] in E. apply has_prefix_cons_inv in E. destruct E as [-> E]. destruct f2 as [|f3]; [discriminate|].
  pose proof (ident_runes_ascii_cons f3 115 n ltac:(lia) H2) as H3.
  destruct n as [|b4 n]. { cbn [app] in E. exfalso. apply (Hid _ _ E eq_refl ltac:(lia)). }
  cbn [app] in E. apply has_prefix_cons_inv in E. destruct E as [-> E]. destruct f3 as [|f4]; [discriminate|].
  pose proof (ident_runes_ascii_cons f4 107 n ltac:(lia) H3) as H4.
  cbn [app skipn].
  destruct n as [|b5 n]; [exfalso; apply Hk; reflexivity|].
  destruct (ident_first f4 (b5 :: n) t H4 ltac:(discriminate)) as (r & w & Ed & _ & Hr & _).
  rewrite Ed. cbn [fst]. rewrite Hr. reflexivity.
Qed.

Lemma fwd_start_ident l w n t o : VP l [] (w ++ n ++ t) o -> WS w -> Ident n -> n <> [] -> n <> k_task -> nid t ->
  exists l', step SStart l = (SIdent, l') /\ VP l' [] (n ++ t) o.
Proof.
  intros HV Hw Hn Hne Hk Ht. unfold Ident in Hn.
  destruct (ident_first _ n t Hn Hne) as (r & wd & Ed & Edn & Hr & Hwd).
  assert (Hns : ns (n ++ t)) by (apply ident_ns; rewrite Ed; exact Hr).
  pose proof (skipws_vp l w _ o HV Hw Hns) as V1.
  cbn [step]. unfold lexStart. pose proof V1 as (P1 & S1 & R1). rewrite S1.
  assert (Hh : has_prefix k_hash (n ++ t) = false).
  { destruct n as [|b n]; [congruence|]. cbn [app has_prefix k_hash]. destruct (35 =? b) eqn:Eb; [|reflexivity].
    apply N.eqb_eq in Eb. subst b. cbn [app] in Ed. rewrite decode_ascii_cons in Ed by lia. injection Ed as <- _. discriminate. }
  rewrite Hh. unfold atTaskKeyword. rewrite S1, (not_task_kw _ n t Hn Hne Hk Ht).
  destruct (peek_vp _ _ _ _ V1) as (l1 & Ep & V2). rewrite Ep, Ed. cbn [fst]. rewrite Hr.
  eexists. split; [reflexivity|exact V2].
Qed.

(* ---- comments ---- *)
Lemma no_byte_skipn b n s : no_byte b s = true -> no_byte b (skipn n s) = true.
Proof. revert s. induction n as [|n IH]; intros s H; [exact H|]. destruct s as [|x s]; [reflexivity|]. cbn [skipn]. apply IH. cbn [no_byte forallb] in H. apply andb_prop in H. apply H. Qed.

(* where a comment may stop: end of input, LF, or CRLF *)
Definition eol_or_eof (t : bytes) : Prop := t = [] \/ eol_start t = true.

Lemma eol_start_eolb t : eol_start t = true -> eolb t = true.
Proof.
  unfold eol_start, no_eol_start, eolb. destruct t as [|b t]; [discriminate|].
  destruct (N.eq_dec b 10) as [->|Hb]; [intros _; rewrite dec1 by lia; reflexivity|].
  destruct (N.eq_dec b 13) as [->|Hb2].
  - destruct t as [|c t]; [discriminate|]. destruct (N.eq_dec c 10) as [->|Hc]; [intros _; cbn; apply orb_true_r|].
    destruct c as [|pc]; [discriminate|]. repeat (destruct pc as [pc|pc|]; try discriminate). congruence.
  - destruct b as [|pb]; [discriminate|]. repeat (destruct pb as [pb|pb|]; try discriminate); congruence.
Qed.

Lemma eol_first_lt t : eol_start t = true -> exists b t', t = b :: t' /\ b < 128.
Proof.
  unfold eol_start, no_eol_start. destruct t as [|b t]; [discriminate|]. intros H. exists b, t. split; [reflexivity|].
  destruct (N.eq_dec b 10) as [->|Hb]; [lia|]. destruct (N.eq_dec b 13) as [->|Hb2]; [lia|].
  destruct b as [|pb]; [discriminate|]. repeat (destruct pb as [pb|pb|]; try discriminate); congruence.
Qed.

(* a rune read from text ++ t, where t starts with an ASCII byte (or is empty), lies within text *)
Lemma rune_within text t r w : text <> [] -> (t = [] \/ exists b t', t = b :: t' /\ b < 128) ->
  decode (text ++ t) = (r, w) -> (0 < w <= length text)%nat.
Proof.
  intros Hne Ht Ed. pose proof (decode_spec (text ++ t)) as D. rewrite Ed in D. destruct D as (_ & Dl & D0 & _ & _ & _ & Dhi).
  split. { destruct w; [|lia]. destruct D0 as [D0 _]. specialize (D0 eq_refl). destruct text; [congruence|discriminate]. }
  destruct (Nat.le_gt_cases w (length text)) as [|Hgt]; [assumption|exfalso].
  destruct Ht as [->|(b & t' & -> & Hb)]. { rewrite app_nil_r in Dl. lia. }
  assert (w >= 2)%nat by (destruct text; [congruence|cbn in Hgt; lia]).
  specialize (Dhi ltac:(lia)). rewrite firstn_app in Dhi. apply Forall_app in Dhi. destruct Dhi as [_ Dhi].
  replace (w - length text)%nat with (S (w - length text - 1)) in Dhi by lia. cbn [firstn] in Dhi. inversion Dhi. lia.
Qed.

Lemma last_not_skipn b n s : (n < length s)%nat -> last_not b s = true -> last_not b (skipn n s) = true.
Proof.
  intros Hn H. unfold last_not in *. rewrite <- (firstn_skipn n s), rev_app_distr in H.
  destruct (rev (skipn n s)) as [|x r] eqn:E; [reflexivity|]. cbn [app] in H. exact H.
Qed.

Lemma comment_loop : forall fuel text l p t o, VP l p (text ++ t) o -> no_byte 10 text = true -> last_not 13 text = true ->
  eol_or_eof t -> (length (text ++ t) < fuel)%nat ->
  exists l', lexCommentLoop fuel l = (SStart, l') /\ VP l' [] t ((COMMENT, rev p ++ text) :: o).
Proof.
  induction fuel as [|f IH]; intros text l p t o HV H10 H13 Ht Hf; [lia|]. cbn [lexCommentLoop].
  destruct (atEOL_vp _ _ _ _ HV) as (l1 & Ee & V1). rewrite Ee.
  destruct text as [|b text].
  - cbn [app] in *. rewrite app_nil_r.
    assert (Hstop : (eolb t || atEOF l1)%bool = true).
    { destruct Ht as [->|Ht]; [|rewrite (eol_start_eolb t Ht); reflexivity]. unfold atEOF. destruct V1 as (_ & -> & _). apply orb_true_r. }
    rewrite Hstop. eexists. split; [reflexivity|]. apply emit_vp; [exact V1|discriminate|discriminate].
  - assert (Hstart : t = [] \/ exists b0 t', t = b0 :: t' /\ b0 < 128) by (destruct Ht as [->|Ht]; [left; reflexivity|right; apply eol_first_lt; exact Ht]).
    destruct (decode ((b :: text) ++ t)) as [r w] eqn:Ed.
    destruct (rune_within (b :: text) t r w ltac:(discriminate) Hstart Ed) as [Hw0 Hw].
    assert (Hne : eolb ((b :: text) ++ t) = false).
    { unfold eolb. rewrite Ed. cbn [fst]. apply orb_false_intro.
      - apply N.eqb_neq. intros ->. pose proof (decode_spec ((b :: text) ++ t)) as D. rewrite Ed in D. destruct D as (_ & _ & _ & D10 & _).
        destruct (D10 eq_refl) as (_ & t0 & E0). cbn [app] in E0. injection E0 as -> _. cbn [no_byte forallb N.eqb Pos.eqb negb andb] in H10. discriminate.
      - cbn [app crlf has_prefix]. destruct (13 =? b) eqn:Eb; [|reflexivity]. apply N.eqb_eq in Eb. subst b. cbn [andb].
        destruct text as [|c text].
        + cbn in H13. discriminate.
        + cbn [app has_prefix]. cbn [no_byte forallb] in H10. apply andb_prop in H10. destruct H10 as [_ H10]. apply andb_prop in H10. destruct H10 as [Hc _].
          rewrite N.eqb_sym. destruct (c =? 10); [discriminate|reflexivity]. }
    rewrite Hne. assert (atEOF l1 = false) as -> by (unfold atEOF; destruct V1 as (_ & -> & _); reflexivity). cbn [orb].
    destruct (next_vp _ _ _ _ r w V1 Ed) as (l2 & En & V2). rewrite En.
    assert (F : firstn w ((b :: text) ++ t) = firstn w (b :: text)) by (rewrite firstn_app; replace (w - length (b :: text))%nat with 0%nat by lia; cbn [firstn]; apply app_nil_r).
    assert (K : skipn w ((b :: text) ++ t) = skipn w (b :: text) ++ t) by (rewrite skipn_app; replace (w - length (b :: text))%nat with 0%nat by lia; reflexivity).
    rewrite F, K in V2.
    destruct (Nat.eq_dec w (length (b :: text))) as [Hweq|Hwne].
    + assert (Hs : skipn w (b :: text) = []) by (apply skipn_all2; lia). rewrite Hs in V2.
      destruct (IH [] l2 _ t o V2 eq_refl eq_refl Ht ltac:(rewrite app_length in Hf; cbn [app length] in *; lia)) as (l' & R & V').
      exists l'. split; [exact R|]. rewrite app_nil_r, rev_app_distr, rev_involutive in V'. rewrite firstn_all2 in V' by lia. exact V'.
    + destruct (IH (skipn w (b :: text)) l2 _ t o V2 (no_byte_skipn 10 w _ H10) (last_not_skipn 13 w (b :: text) ltac:(lia) H13) Ht
                 ltac:(rewrite app_length, skipn_length; rewrite app_length in Hf; lia)) as (l' & R & V').
      exists l'. split; [exact R|]. rewrite rev_app_distr, rev_involutive, <- app_assoc, firstn_skipn in V'. exact V'.
Qed.

Lemma fwd_comment l text t o : VP l [] (text ++ t) o -> no_byte 10 text = true -> last_not 13 text = true -> eol_or_eof t ->
  exists l', step SComment l = (SStart, l') /\ VP l' [] t ((COMMENT, text) :: o).
Proof.
  intros HV H10 H13 Ht. cbn [step]. unfold lexComment. pose proof HV as (_ & S0 & _).
  destruct (comment_loop (S (length (suf l))) text l [] t o HV H10 H13 Ht ltac:(rewrite S0; lia)) as (l' & R & V'). eauto.
Qed.

Lemma ident_runes_ge a b n : ident_runes a n = true -> (a <= b)%nat -> ident_runes b n = true.
Proof. intros H L. induction L as [|b L IH]; [exact H|]. apply ident_runes_mono. exact IH. Qed.

Lemma ident_runes_min : forall f s, ident_runes f s = true -> ident_runes (S (length s)) s = true.
Proof.
  induction f as [|f IH]; intros s H; [discriminate|]. destruct s as [|b s]; [reflexivity|]. cbn [ident_runes] in H |- *.
  destruct (decode (b :: s)) as [r w] eqn:Ed. apply andb_prop in H. destruct H as [Hr Hrest]. rewrite Hr. cbn [andb].
  pose proof (ident_width (b :: s)) as Hw. rewrite Ed in Hw. cbn [fst snd] in Hw. specialize (Hw Hr).
  apply (ident_runes_ge _ _ _ (IH _ Hrest)). rewrite skipn_length. cbn [length]. lia.
Qed.

(* ---- task name ---- *)
Lemma fwd_taskname l n w t o : VP l [] (n ++ w ++ 40 :: t) o -> Ident n -> WS w ->
  exists l', step STaskName l = (SLeftParen, l') /\ VP l' [] (40 :: t) ((IDENT, n) :: o).
Proof.
  intros HV Hn Hw. cbn [step]. unfold lexTaskName. pose proof HV as (_ & S0 & _).
  assert (Hnid : nid (w ++ 40 :: t)) by (apply nid_ws; [exact Hw|apply nid_cons; [lia|reflexivity]]).
  pose proof (identloop_vp (S (length (suf l))) n l [] _ o HV (ident_runes_ge (S (length n)) (S (length (suf l))) n Hn ltac:(rewrite S0, app_length; lia)) Hnid ltac:(rewrite S0; lia)) as V1.
  pose proof (emit_vp IDENT _ _ _ _ V1 ltac:(discriminate) ltac:(discriminate)) as V2. rewrite app_nil_r, rev_involutive in V2.
  pose proof (skipws_vp _ w _ _ V2 Hw (ns_cons 40 t ltac:(lia) eq_refl)) as V3.
  destruct (peek_vp _ _ _ _ V3) as (l1 & Ep & V4). rewrite Ep. rewrite dec1 by lia. cbn [N.eqb Pos.eqb].
  eexists. split; [reflexivity|exact V4].
Qed.

(* ---- identifiers inside a statement: what follows decides the next state ---- *)
Inductive IdTail (name : bytes) : bytes -> st -> Prop :=
  | IT_lparen t : IdTail name (40 :: t) SLeftParen
  | IT_declare t : bytes_eqb name k_task = false -> IdTail name (58 :: 61 :: t) SDeclare
  | IT_eof : IdTail name [] SStart
  | IT_rparen t : IdTail name (41 :: t) SRightParen
  | IT_comma t : IdTail name (44 :: t) SComma
  | IT_lbrace t : IdTail name (123 :: t) SLeftBrace.

Lemma IdTail_ns name t s : IdTail name t s -> ns t /\ nid t.
Proof. destruct 1; split; try reflexivity; try (apply ns_cons; [lia|reflexivity]); apply nid_cons; try lia; reflexivity. Qed.

Lemma fwd_ident l p n w t o s' : VP l p (n ++ w ++ t) o -> ident_runes (S (length n)) n = true -> WS w -> IdTail (rev p ++ n) t s' ->
  exists l', step SIdent l = (s', l') /\ VP l' [] t ((IDENT, rev p ++ n) :: o).
Proof.
  intros HV Hn Hw HT. destruct (IdTail_ns _ _ _ HT) as [Hns Hnid]. cbn [step]. unfold lexIdent. pose proof HV as (_ & S0 & _).
  assert (Hn' : ident_runes (S (length (suf l))) n = true) by (apply (ident_runes_ge (S (length n)) _ n Hn); rewrite S0, app_length; lia).
  pose proof (identloop_vp (S (length (suf l))) n l p _ o HV Hn' (nid_ws w t Hw Hnid) ltac:(rewrite S0; lia)) as V1.
  pose proof V1 as (P1 & _). rewrite P1, rev_app_distr, rev_involutive.
  pose proof (emit_vp IDENT _ _ _ _ V1 ltac:(discriminate) ltac:(discriminate)) as V2. rewrite rev_app_distr, rev_involutive in V2.
  pose proof (skipws_vp _ w _ _ V2 Hw Hns) as V3.
  destruct (peek_vp _ _ _ _ V3) as (l1 & Ep & V4). rewrite Ep.
  pose proof V4 as (_ & S4 & _).
  destruct HT as [t|t Hk| |t|t|t].
  - rewrite dec1 by lia. cbn [N.eqb Pos.eqb]. eexists. split; [reflexivity|exact V4].
  - rewrite dec1 by lia. cbn [N.eqb Pos.eqb]. rewrite S4. cbn [k_declare has_prefix N.eqb Pos.eqb andb]. rewrite Hk. eexists. split; [reflexivity|exact V4].
  - cbn [decode fst]. assert ((RuneError =? 40) = false) as -> by reflexivity. rewrite S4. cbn [has_prefix k_declare].
    destruct (atEOL_vp _ _ _ _ V4) as (l2 & Ee & V5). rewrite Ee. unfold eolb. cbn [decode fst has_prefix crlf]. assert ((RuneError =? 10) = false) as -> by reflexivity.
    cbn [orb]. unfold atEOF. pose proof V5 as (_ & S5 & _). rewrite S5. eexists. split; [reflexivity|exact V5].
  - rewrite dec1 by lia. cbn [N.eqb Pos.eqb]. rewrite S4. cbn [k_declare has_prefix N.eqb Pos.eqb andb].
    destruct (atEOL_vp _ _ _ _ V4) as (l2 & Ee & V5). rewrite Ee. unfold eolb. rewrite dec1 by lia. cbn [N.eqb Pos.eqb has_prefix crlf andb orb].
    unfold atEOF. pose proof V5 as (_ & S5 & _). rewrite S5.
    destruct (peek_vp _ _ _ _ V5) as (l3 & Ep3 & V6). rewrite Ep3. rewrite dec1 by lia. cbn [N.eqb Pos.eqb]. eexists. split; [reflexivity|exact V6].
  - rewrite dec1 by lia. cbn [N.eqb Pos.eqb]. rewrite S4. cbn [k_declare has_prefix N.eqb Pos.eqb andb].
    destruct (atEOL_vp _ _ _ _ V4) as (l2 & Ee & V5). rewrite Ee. unfold eolb. rewrite dec1 by lia. cbn [N.eqb Pos.eqb has_prefix crlf andb orb].
    unfold atEOF. pose proof V5 as (_ & S5 & _). rewrite S5.
    destruct (peek_vp _ _ _ _ V5) as (l3 & Ep3 & V6). rewrite Ep3. rewrite dec1 by lia. cbn [N.eqb Pos.eqb]. eexists. split; [reflexivity|exact V6].
  - rewrite dec1 by lia. cbn [N.eqb Pos.eqb]. rewrite S4. cbn [k_declare has_prefix N.eqb Pos.eqb andb].
    destruct (atEOL_vp _ _ _ _ V4) as (l2 & Ee & V5). rewrite Ee. unfold eolb. rewrite dec1 by lia. cbn [N.eqb Pos.eqb has_prefix crlf andb orb].
    unfold atEOF. pose proof V5 as (_ & S5 & _). rewrite S5.
    destruct (peek_vp _ _ _ _ V5) as (l3 & Ep3 & V6). rewrite Ep3. rewrite dec1 by lia. cbn [N.eqb Pos.eqb]. eexists. split; [reflexivity|exact V6].
Qed.

(* ---- dispatch: lexArgs / lexComma / lexDeclare / lexOutputOperator read one rune and choose the next state ---- *)
Inductive Disp (rest : bytes) (o : list tv) : st -> lx -> Prop :=
  | D_str tail l : rest = 34 :: tail -> VP l [34] tail o -> Disp rest o SString l
  | D_id r w l : decode rest = (r, w) -> is_ident r = true -> VP l (rev (firstn w rest)) (skipn w rest) o -> Disp rest o SIdent l
  | D_rp t l : rest = 41 :: t -> VP l [] rest o -> Disp rest o SRightParen l
  | D_lp t l : rest = 40 :: t -> VP l [] rest o -> Disp rest o SLeftParen l
  | D_lb t l : rest = 123 :: t -> VP l [] rest o -> Disp rest o SLeftBrace l
  | D_cm t l : rest = 44 :: t -> VP l [] rest o -> Disp rest o SComma l.

Inductive Head : bytes -> Prop :=
  | H_str t : Head (34 :: t)
  | H_id s r w : decode s = (r, w) -> is_ident r = true -> Head s
  | H_rp t : Head (41 :: t)
  | H_lp t : Head (40 :: t)
  | H_lb t : Head (123 :: t)
  | H_cm t : Head (44 :: t).

Lemma Head_ns s : Head s -> ns s.
Proof. destruct 1; try (apply ns_cons; [lia|reflexivity]). apply ident_ns. rewrite H. exact H0. Qed.

Lemma ident_neq r b : is_ident r = true -> is_ident b = false -> (r =? b) = false.
Proof. intros H1 H2. apply N.eqb_neq. intros ->. congruence. Qed.

(* lexArgs accepts every head except "(" *)
Lemma disp_args l w rest o : VP l [] (w ++ rest) o -> WS w -> Head rest -> (forall t, rest <> 40 :: t) ->
  exists s' l', step SArgs l = (s', l') /\ Disp rest o s' l'.
Proof.
  intros HV Hw Hh Hnl. pose proof (skipws_vp l w rest o HV Hw (Head_ns _ Hh)) as V1. cbn [step]. unfold lexArgs.
  destruct Hh as [t|s r wd Ed Hr|t|t|t|t].
  - destruct (next_vp_ascii _ _ _ _ _ V1 ltac:(lia)) as (l1 & En & V2). rewrite En. cbn [N.eqb Pos.eqb].
    eexists _, _. split; [reflexivity|]. eapply D_str; [reflexivity|exact V2].
  - destruct (next_vp _ _ _ _ r wd V1 Ed) as (l1 & En & V2). rewrite En.
    rewrite (ident_neq r 41 Hr eq_refl), (ident_neq r 34 Hr eq_refl), Hr. rewrite app_nil_r in V2.
    eexists _, _. split; [reflexivity|]. eapply D_id; eauto.
  - pose proof (backup_vp _ _ _ _ V1) as VB. destruct (next_vp_ascii _ _ _ _ _ V1 ltac:(lia)) as (l1 & En & V2). rewrite En in VB |- *. cbn [N.eqb Pos.eqb snd] in *.
    eexists _, _. split; [reflexivity|]. eapply D_rp; [reflexivity|exact VB].
  - exfalso. eapply Hnl. reflexivity.
  - pose proof (backup_vp _ _ _ _ V1) as VB. destruct (next_vp_ascii _ _ _ _ _ V1 ltac:(lia)) as (l1 & En & V2). rewrite En in VB |- *. cbn [N.eqb Pos.eqb snd] in *.
    assert (is_ident 123 = false) as -> by reflexivity.
    eexists _, _. split; [reflexivity|]. eapply D_lb; [reflexivity|exact VB].
  - pose proof (backup_vp _ _ _ _ V1) as VB. destruct (next_vp_ascii _ _ _ _ _ V1 ltac:(lia)) as (l1 & En & V2). rewrite En in VB |- *. cbn [N.eqb Pos.eqb snd] in *.
    assert (is_ident 44 = false) as -> by reflexivity.
    eexists _, _. split; [reflexivity|]. eapply D_cm; [reflexivity|exact VB].
Qed.

Inductive HeadC : bytes -> Prop :=
  | HC_str t : HeadC (34 :: t)
  | HC_id s r w : decode s = (r, w) -> is_ident r = true -> HeadC s
  | HC_rp t : HeadC (41 :: t).
Lemma HeadC_Head s : HeadC s -> Head s.
Proof. destruct 1; [apply H_str|eapply H_id; eauto|apply H_rp]. Qed.

Lemma disp_comma l w rest o : VP l [] (44 :: w ++ rest) o -> WS w -> HeadC rest ->
  exists s' l', step SComma l = (s', l') /\ Disp rest ((COMMA, [44]) :: o) s' l'.
Proof.
  intros HV Hw Hh. cbn [step]. unfold lexComma.
  pose proof (lit_emit_skip COMMA [44] l w rest o HV eq_refl ltac:(discriminate) ltac:(discriminate) Hw (Head_ns _ (HeadC_Head _ Hh))) as V1.
  cbn [length] in V1.
  destruct Hh as [t|s r wd Ed Hr|t].
  - destruct (next_vp_ascii _ _ _ _ _ V1 ltac:(lia)) as (l1 & En & V2). rewrite En. cbn [N.eqb Pos.eqb].
    eexists _, _. split; [reflexivity|]. eapply D_str; [reflexivity|exact V2].
  - destruct (next_vp _ _ _ _ r wd V1 Ed) as (l1 & En & V2). rewrite En.
    rewrite (ident_neq r 34 Hr eq_refl), Hr. rewrite app_nil_r in V2.
    eexists _, _. split; [reflexivity|]. eapply D_id; eauto.
  - pose proof (backup_vp _ _ _ _ V1) as VB. destruct (next_vp_ascii _ _ _ _ _ V1 ltac:(lia)) as (l1 & En & V2). rewrite En in VB |- *. cbn [N.eqb Pos.eqb snd] in *.
    assert (is_ident 41 = false) as -> by reflexivity.
    eexists _, _. split; [reflexivity|]. eapply D_rp; [reflexivity|exact VB].
Qed.

Inductive HeadD : bytes -> Prop :=
  | HD_str t : HeadD (34 :: t)
  | HD_id s r w : decode s = (r, w) -> is_ident r = true -> HeadD s.
Lemma HeadD_Head s : HeadD s -> Head s.
Proof. destruct 1; [apply H_str|eapply H_id; eauto]. Qed.

Lemma disp_declare l w rest o : VP l [] (k_declare ++ w ++ rest) o -> WS w -> HeadD rest ->
  exists s' l', step SDeclare l = (s', l') /\ Disp rest ((DECLARE, k_declare) :: o) s' l'.
Proof.
  intros HV Hw Hh. cbn [step]. unfold lexDeclare.
  assert (V0 : VP (skipWhitespace l) [] (k_declare ++ w ++ rest) o) by (apply (skipws_vp l [] _ o HV WS_nil); apply ns_cons; [lia|reflexivity]).
  pose proof (lit_emit_skip DECLARE k_declare _ w rest o V0 eq_refl ltac:(discriminate) ltac:(discriminate) Hw (Head_ns _ (HeadD_Head _ Hh))) as V1.
  cbn [length k_declare] in V1.
  destruct Hh as [t|s r wd Ed Hr].
  - destruct (next_vp_ascii _ _ _ _ _ V1 ltac:(lia)) as (l1 & En & V2). rewrite En. cbn [N.eqb Pos.eqb].
    eexists _, _. split; [reflexivity|]. eapply D_str; [reflexivity|exact V2].
  - destruct (next_vp _ _ _ _ r wd V1 Ed) as (l1 & En & V2). rewrite En.
    rewrite (ident_neq r 34 Hr eq_refl), Hr. rewrite app_nil_r in V2.
    eexists _, _. split; [reflexivity|]. eapply D_id; eauto.
Qed.

Inductive HeadO : bytes -> Prop :=
  | HO_str t : HeadO (34 :: t)
  | HO_id s r w : decode s = (r, w) -> is_ident r = true -> HeadO s
  | HO_lp t : HeadO (40 :: t).
Lemma HeadO_Head s : HeadO s -> Head s.
Proof. destruct 1; [apply H_str|eapply H_id; eauto|apply H_lp]. Qed.

Lemma disp_output l w rest o : VP l [] (k_output ++ w ++ rest) o -> WS w -> HeadO rest ->
  exists s' l', step SOutputOp l = (s', l') /\ Disp rest ((OUTPUT, k_output) :: o) s' l'.
Proof.
  intros HV Hw Hh. cbn [step]. unfold lexOutputOperator.
  pose proof (lit_emit_skip OUTPUT k_output l w rest o HV eq_refl ltac:(discriminate) ltac:(discriminate) Hw (Head_ns _ (HeadO_Head _ Hh))) as V1.
  cbn [length k_output] in V1.
  destruct Hh as [t|s r wd Ed Hr|t].
  - destruct (next_vp_ascii _ _ _ _ _ V1 ltac:(lia)) as (l1 & En & V2). rewrite En. cbn [N.eqb Pos.eqb].
    eexists _, _. split; [reflexivity|]. eapply D_str; [reflexivity|exact V2].
  - destruct (next_vp _ _ _ _ r wd V1 Ed) as (l1 & En & V2). rewrite En.
    rewrite (ident_neq r 34 Hr eq_refl), (ident_neq r 40 Hr eq_refl), Hr. rewrite app_nil_r in V2.
    eexists _, _. split; [reflexivity|]. eapply D_id; eauto.
  - pose proof (backup_vp _ _ _ _ V1) as VB. destruct (next_vp_ascii _ _ _ _ _ V1 ltac:(lia)) as (l1 & En & V2). rewrite En in VB |- *. cbn [N.eqb Pos.eqb snd] in *.
    eexists _, _. split; [reflexivity|]. eapply D_lp; [reflexivity|exact VB].
Qed.

(* ---- strings ---- *)
Definition after_string (t : bytes) : st :=
  match t with [] => SStart | _ => if eolb t then SStart else SArgs end.

Lemma string_loop : forall fuel body l p t o, VP l p (body ++ 34 :: t) o -> no_byte 34 body = true -> no_byte 10 body = true ->
  (length (body ++ 34%N :: t) < fuel)%nat ->
  exists l', lexStringLoop fuel l = (after_string t, l') /\ VP l' [] t ((STRING, rev p ++ body ++ [34]) :: o).
Proof.
  induction fuel as [|f IH]; intros body l p t o HV H34 H10 Hf; [lia|]. cbn [lexStringLoop].
  destruct body as [|b body].
  - cbn [app] in *. destruct (next_vp_ascii _ _ _ _ _ HV ltac:(lia)) as (l1 & En & V1). rewrite En. cbn [N.eqb Pos.eqb].
    pose proof (emit_vp STRING _ _ _ _ V1 ltac:(discriminate) ltac:(discriminate)) as V2. cbn [rev] in V2.
    unfold atEOF. pose proof V2 as (_ & S2 & _). rewrite S2. unfold after_string. destruct t as [|c t]; [eexists; split; [reflexivity|exact V2]|].
    destruct (atEOL_vp _ _ _ _ V2) as (l3 & Ee & V3). rewrite Ee. destruct (eolb (c :: t)); eexists; (split; [reflexivity|exact V3]).
  - destruct (decode ((b :: body) ++ 34 :: t)) as [r w] eqn:Ed.
    destruct (rune_within (b :: body) (34 :: t) r w ltac:(discriminate) ltac:(right; exists 34, t; split; [reflexivity|lia]) Ed) as [Hw0 Hw].
    assert (Hr : (r =? 34) = false).
    { apply N.eqb_neq. intros ->. pose proof (decode_spec ((b :: body) ++ 34 :: t)) as D. rewrite Ed in D. destruct D as (_ & _ & _ & _ & Dlt & _).
      destruct (Dlt ltac:(lia)) as (_ & t0 & E0). cbn [app] in E0. injection E0 as -> _. cbn [no_byte forallb N.eqb Pos.eqb negb andb] in H34. discriminate. }
    destruct (next_vp _ _ _ _ r w HV Ed) as (l1 & En & V1). rewrite En, Hr.
    assert (F : firstn w ((b :: body) ++ 34 :: t) = firstn w (b :: body)) by (rewrite firstn_app; replace (w - length (b :: body))%nat with 0%nat by lia; cbn [firstn]; apply app_nil_r).
    assert (K : skipn w ((b :: body) ++ 34 :: t) = skipn w (b :: body) ++ 34 :: t) by (rewrite skipn_app; replace (w - length (b :: body))%nat with 0%nat by lia; reflexivity).
    rewrite F, K in V1. unfold atEOF. pose proof V1 as (_ & S1 & _). rewrite S1.
    assert (Hne : skipn w (b :: body) ++ 34 :: t <> []) by (destruct (skipn w (b :: body)); discriminate).
    destruct (skipn w (b :: body) ++ 34 :: t) as [|x xs] eqn:Ex; [congruence|]. rewrite <- Ex in *. clear Ex x xs.
    destruct (atEOL_vp _ _ _ _ V1) as (l2 & Ee & V2). rewrite Ee.
    pose proof (no_byte_skipn 10 w _ H10) as H10'. pose proof (no_byte_skipn 34 w _ H34) as H34'.
    assert (Heol : eolb (skipn w (b :: body) ++ 34 :: t) = false).
    { unfold eolb. destruct (skipn w (b :: body)) as [|c rest] eqn:Es.
      - cbn [app]. rewrite dec1 by lia. reflexivity.
      - cbn [app]. apply orb_false_intro.
        + apply N.eqb_neq. intros E10. pose proof (decode_spec (c :: rest ++ 34 :: t)) as D. destruct (decode (c :: rest ++ 34 :: t)) as [r2 w2]. cbn [fst] in E10. subst r2.
          destruct D as (_ & _ & _ & D10 & _). destruct (D10 eq_refl) as (_ & t0 & E0). injection E0 as -> _. cbn [no_byte forallb N.eqb Pos.eqb negb andb] in H10'. discriminate.
        + cbn [crlf has_prefix]. destruct (13 =? c); [|reflexivity]. cbn [andb]. destruct rest as [|c2 rest]; [reflexivity|].
          cbn [app has_prefix]. cbn [no_byte forallb] in H10'. apply andb_prop in H10'. destruct H10' as [_ H10']. apply andb_prop in H10'. destruct H10' as [Hc _].
          rewrite N.eqb_sym. destruct (c2 =? 10); [discriminate|reflexivity]. }
    rewrite Heol.
    destruct (IH (skipn w (b :: body)) l2 _ t o V2 H34' H10' ltac:(rewrite app_length, skipn_length; rewrite app_length in Hf; cbn [length] in *; lia)) as (l' & R & V').
    exists l'. split; [exact R|]. rewrite rev_app_distr, rev_involutive, <- app_assoc in V'. rewrite (app_assoc (firstn w (b :: body))), firstn_skipn in V'. exact V'.
Qed.

Lemma eolb_str_rest x t : no_byte 10 x = true -> eolb (x ++ 34 :: t) = false.
Proof.
  intros H10. unfold eolb. destruct x as [|c rest].
  - cbn [app]. rewrite dec1 by lia. reflexivity.
  - cbn [app]. apply orb_false_intro.
    + apply N.eqb_neq. intros E10. pose proof (decode_spec (c :: rest ++ 34 :: t)) as D. destruct (decode (c :: rest ++ 34 :: t)) as [r2 w2]. cbn [fst] in E10. subst r2.
      destruct D as (_ & _ & _ & D10 & _). destruct (D10 eq_refl) as (_ & t0 & E0). injection E0 as -> _. cbn [no_byte forallb N.eqb Pos.eqb negb andb] in H10. discriminate.
    + cbn [crlf has_prefix]. destruct (13 =? c); [|reflexivity]. cbn [andb]. destruct rest as [|c2 rest]; [reflexivity|].
      cbn [app has_prefix]. cbn [no_byte forallb] in H10. apply andb_prop in H10. destruct H10 as [_ H10]. apply andb_prop in H10. destruct H10 as [Hc _].
      rewrite N.eqb_sym. destruct (c2 =? 10); [discriminate|reflexivity].
Qed.

Lemma skipn_tl {A} w (l : list A) : (0 < w)%nat -> skipn w l = skipn (w - 1) (tl l).
Proof. intros H. destruct w; [lia|]. destruct l; [rewrite !skipn_nil; reflexivity|]. cbn [skipn tl]. replace (S w - 1)%nat with w by lia. reflexivity. Qed.

(* the first rune after the opening quote is read without a preceding line-end check, so it may even be a LF *)
Lemma fwd_string l body t o : VP l [34] (body ++ 34 :: t) o -> Str body ->
  exists l', step SString l = (after_string t, l') /\ VP l' [] t ((STRING, b_quote ++ body ++ b_quote) :: o).
Proof.
  intros HV [H34 H10]. cbn [step]. unfold lexString. pose proof HV as (_ & S0 & _).
  destruct body as [|b body].
  - destruct (string_loop (S (S (length (suf l)))) [] l [34] t o HV eq_refl eq_refl ltac:(rewrite S0; lia)) as (l' & R & V'). eauto.
  - cbn [tl] in H10. cbn [lexStringLoop].
    destruct (decode ((b :: body) ++ 34 :: t)) as [r w] eqn:Ed.
    destruct (rune_within (b :: body) (34 :: t) r w ltac:(discriminate) ltac:(right; exists 34, t; split; [reflexivity|lia]) Ed) as [Hw0 Hw].
    assert (Hr : (r =? 34) = false).
    { apply N.eqb_neq. intros ->. pose proof (decode_spec ((b :: body) ++ 34 :: t)) as D. rewrite Ed in D. destruct D as (_ & _ & _ & _ & Dlt & _).
      destruct (Dlt ltac:(lia)) as (_ & t0 & E0). cbn [app] in E0. injection E0 as -> _. cbn [no_byte forallb N.eqb Pos.eqb negb andb] in H34. discriminate. }
    destruct (next_vp _ _ _ _ r w HV Ed) as (l1 & En & V1). rewrite En, Hr.
    assert (F : firstn w ((b :: body) ++ 34 :: t) = firstn w (b :: body)) by (rewrite firstn_app; replace (w - length (b :: body))%nat with 0%nat by lia; cbn [firstn]; apply app_nil_r).
    assert (K : skipn w ((b :: body) ++ 34 :: t) = skipn w (b :: body) ++ 34 :: t) by (rewrite skipn_app; replace (w - length (b :: body))%nat with 0%nat by lia; reflexivity).
    rewrite F, K in V1. unfold atEOF. pose proof V1 as (_ & S1 & _). rewrite S1.
    assert (H10' : no_byte 10 (skipn w (b :: body)) = true) by (rewrite (skipn_tl w (b :: body) Hw0); cbn [tl]; apply no_byte_skipn; exact H10).
    pose proof (no_byte_skipn 34 w _ H34) as H34'.
    destruct (skipn w (b :: body) ++ 34 :: t) as [|x xs] eqn:Ex; [destruct (skipn w (b :: body)); discriminate|]. rewrite <- Ex in *. clear Ex x xs.
    destruct (atEOL_vp _ _ _ _ V1) as (l2 & Ee & V2). rewrite Ee, (eolb_str_rest _ t H10').
    destruct (string_loop (S (length (suf l))) (skipn w (b :: body)) l2 _ t o V2 H34' H10') as (l' & R & V').
    { rewrite S0. rewrite !app_length. rewrite skipn_length. cbn [length]. lia. }
    exists l'. split; [exact R|]. rewrite rev_app_distr, rev_involutive in V'. cbn [rev app] in V'. unfold b_quote. cbn [app].
    rewrite (app_assoc (firstn w (b :: body))), firstn_skipn in V'. exact V'.
Qed.

(* ---- after ")" ---- *)
Inductive RpTail : bytes -> st -> Prop :=
  | RT_lbrace t : RpTail (123 :: t) SLeftBrace
  | RT_output t : RpTail (45 :: 62 :: t) SOutputOp
  | RT_eof : RpTail [] SStart
  | RT_ident s r w : decode s = (r, w) -> is_ident r = true -> RpTail s SStart
  | RT_hash t : RpTail (35 :: t) SHash.

Lemma RpTail_ns t s : RpTail t s -> ns t.
Proof. destruct 1; try (apply ns_cons; [lia|reflexivity]); [reflexivity|]. apply ident_ns. rewrite H. exact H0. Qed.

Lemma fwd_rparen l w t o s' : VP l [] (41 :: w ++ t) o -> WS w -> RpTail t s' ->
  exists l', step SRightParen l = (s', l') /\ VP l' [] t ((RPAREN, [41]) :: o).
Proof.
  intros HV Hw HT. cbn [step]. unfold lexRightParen.
  pose proof (lit_emit_skip RPAREN [41] l w t o HV eq_refl ltac:(discriminate) ltac:(discriminate) Hw (RpTail_ns _ _ HT)) as V1. cbn [length] in V1.
  destruct (peek_vp _ _ _ _ V1) as (l1 & Ep & V2). rewrite Ep. pose proof V2 as (_ & S2 & _).
  destruct HT as [t|t| |s r wd Ed Hr|t].
  - rewrite dec1 by lia. cbn [N.eqb Pos.eqb]. eexists. split; [reflexivity|exact V2].
  - rewrite dec1 by lia. cbn [N.eqb Pos.eqb]. rewrite S2. cbn [k_output has_prefix N.eqb Pos.eqb andb]. eexists. split; [reflexivity|exact V2].
  - cbn [decode fst]. assert ((RuneError =? 123) = false) as -> by reflexivity. rewrite S2. cbn [has_prefix k_output].
    destruct (atEOL_vp _ _ _ _ V2) as (l2 & Ee & V3). rewrite Ee. unfold atEOF. pose proof V3 as (_ & S3 & _). rewrite S3.
    rewrite orb_true_r. cbn [orb]. eexists. split; [reflexivity|exact V3].
  - rewrite Ed. cbn [fst]. rewrite (ident_neq r 123 Hr eq_refl). rewrite S2.
    assert (Hp : has_prefix k_output s = false).
    { destruct s as [|b s]; [reflexivity|]. cbn [k_output has_prefix]. destruct (45 =? b) eqn:Eb; [|reflexivity]. apply N.eqb_eq in Eb. subst b.
      rewrite decode_ascii_cons in Ed by lia. injection Ed as <- _. discriminate. }
    rewrite Hp. destruct (atEOL_vp _ _ _ _ V2) as (l2 & Ee & V3). rewrite Ee. rewrite Hr. rewrite orb_true_r. eexists. split; [reflexivity|exact V3].
  - rewrite dec1 by lia. cbn [N.eqb Pos.eqb]. rewrite S2. cbn [k_output has_prefix N.eqb Pos.eqb andb].
    destruct (atEOL_vp _ _ _ _ V2) as (l2 & Ee & V3). rewrite Ee. unfold eolb. rewrite dec1 by lia. cbn [N.eqb Pos.eqb crlf has_prefix andb orb].
    unfold atEOF. pose proof V3 as (_ & S3 & _). rewrite S3. assert (is_ident 35 = false) as -> by reflexivity. cbn [orb].
    eexists. split; [reflexivity|exact V3].
Qed.

(* ---- task body ---- *)
Lemma fwd_body_close l t o : VP l [] (125 :: t) o ->
  exists l', step STaskBody l = (SRightBrace, l') /\ VP l' [] (125 :: t) o.
Proof.
  intros HV. cbn [step]. unfold lexTaskBody. unfold atEOF. pose proof HV as (_ & S0 & _). rewrite S0.
  assert (V1 : VP (skipWhitespace l) [] (125 :: t) o) by (apply (skipws_vp l [] _ o HV WS_nil); apply ns_cons; [lia|reflexivity]).
  pose proof (backup_vp _ _ _ _ V1) as VB. destruct (next_vp_ascii _ _ _ _ _ V1 ltac:(lia)) as (l1 & En & V2). rewrite En in VB |- *. cbn [N.eqb Pos.eqb snd] in *.
  eexists. split; [reflexivity|exact VB].
Qed.

Lemma fwd_body_cmd l s r w o : VP l [] s o -> decode s = (r, w) -> is_letter r = true ->
  exists l', step STaskBody l = (STaskCommands, l') /\ VP l' (rev (firstn w s)) (skipn w s) o.
Proof.
  intros HV Ed Hr. cbn [step]. unfold lexTaskBody. unfold atEOF. pose proof HV as (_ & S0 & _). rewrite S0.
  assert (Hne : s <> []) by (intros ->; cbn in Ed; injection Ed as <- _; vm_compute in Hr; discriminate).
  destruct s as [|b0 s0] eqn:Es; [congruence|]. rewrite <- Es in *.
  assert (Hid : is_ident r = true) by (unfold is_ident; rewrite Hr; reflexivity).
  assert (V1 : VP (skipWhitespace l) [] s o) by (apply (skipws_vp l [] _ o HV WS_nil); apply ident_ns; rewrite Ed; exact Hid).
  destruct (next_vp _ _ _ _ r w V1 Ed) as (l1 & En & V2). rewrite En. rewrite (ident_neq r 125 Hid eq_refl), Hr. rewrite app_nil_r in V2.
  eexists. split; [reflexivity|exact V2].
Qed.

(* ---- command lines ---- *)
Definition head_not (b : N) (p : bytes) : Prop := match p with x :: _ => x <> b | [] => True end.

Lemma strip_cr_no p s : head_not 13 p -> strip_cr p s = (p, s).
Proof.
  destruct p as [|b p]; [reflexivity|]. cbn [head_not]. intros H. cbn [strip_cr].
  destruct b as [|pb]; [reflexivity|]. repeat (destruct pb as [pb|pb|]; try reflexivity). congruence.
Qed.

Lemma VP_eta l p s o : VP l p s o ->
  VP {| inp := inp l; pre := p; suf := s; start := start l; line := line l; sline := sline l; width := width l; fl := fl l; out := out l |} p s o.
Proof. intros (Hp & Hs & Ho & R). subst p s. destruct l. exact (conj eq_refl (conj eq_refl (conj Ho R))). Qed.

Lemma drop_cr_vp0 l p s o : VP l p s o -> head_not 13 p -> VP (drop_cr l) p s o.
Proof.
  intros HV Hh. pose proof HV as (Hp & Hs & _). unfold drop_cr. rewrite Hp, Hs, (strip_cr_no p s Hh). apply VP_eta. exact HV.
Qed.

Lemma drop_cr_vp1 l p s o : VP l (13 :: p) s o -> head_not 13 p -> VP (drop_cr l) p (13 :: s) o.
Proof.
  intros HV Hh. pose proof HV as (Hp & Hs & Ho & d & e & g & HI).
  destruct (drop_cr_ok l d e g HI) as (I1 & O1 & _). 
  assert (E : drop_cr l = {| inp := inp l; pre := p; suf := 13 :: s; start := start l; line := line l; sline := sline l; width := width l; fl := fl l; out := out l |}).
  { unfold drop_cr. rewrite Hp, Hs. cbn [strip_cr]. rewrite (strip_cr_no p (13 :: s) Hh). reflexivity. }
  split; [rewrite E; reflexivity|]. split; [rewrite E; reflexivity|]. split; [rewrite O1; exact Ho|eauto].
Qed.

Lemma pos_dec_vp l p s o : VP l (32 :: p) s o -> VP (pos_dec l) p (32 :: s) o.
Proof.
  intros (Hp & Hs & Ho & d & e & g & HI). unfold pos_dec. rewrite Hp.
  split; [reflexivity|]. split; [cbn; rewrite Hs; reflexivity|]. split; [exact Ho|]. exists d, e, g.
  apply (unconsume_inv l d e g 32 p HI Hp). discriminate.
Qed.

Definition Bdry0 (R : bytes) : Prop :=
  match R with [] => False | 123 :: _ => False | 125 :: 125 :: _ => False | _ => True end.
(* what may follow a command: an ASCII byte that does not complete a "{{" / "}}" lookahead *)
Definition Bdry (R : bytes) : Prop := Bdry0 R /\ exists b R', R = b :: R' /\ b < 128.

Lemma hp_l rest R : Bdry0 R -> has_prefix k_linterp (rest ++ R) = has_prefix k_linterp rest.
Proof.
  intros HB. unfold k_linterp. destruct rest as [|x [|y rest]]; cbn [app has_prefix].
  - destruct R as [|r0 R]; [reflexivity|]. cbn [has_prefix]. destruct (123 =? r0) eqn:E; [|reflexivity]. apply N.eqb_eq in E. subst r0. contradiction.
  - destruct R as [|r0 R]; [rewrite andb_false_r; reflexivity|]. cbn [has_prefix]. destruct (123 =? r0) eqn:E; [|rewrite !andb_false_r; reflexivity]. apply N.eqb_eq in E. subst r0. contradiction.
  - reflexivity.
Qed.

Lemma hp_r rest R : Bdry0 R -> (forall x, rest = [x] -> x <> 125) -> has_prefix k_rinterp (rest ++ R) = has_prefix k_rinterp rest.
Proof.
  intros HB Hx. unfold k_rinterp. destruct rest as [|x [|y rest]]; cbn [app has_prefix].
  - destruct R as [|r0 [|r1 R]]; [reflexivity|cbn [has_prefix]; rewrite andb_false_r; reflexivity|]. cbn [has_prefix].
    destruct (125 =? r0) eqn:E0; [|reflexivity]. destruct (125 =? r1) eqn:E1; [|reflexivity]. apply N.eqb_eq in E0, E1. subst. cbn in HB. contradiction.
  - destruct (125 =? x) eqn:E; [|reflexivity]. apply N.eqb_eq in E. subst x. exfalso. apply (Hx 125 eq_refl). reflexivity.
  - reflexivity.
Qed.

Lemma inr_lo lo hi b : b < 128 -> 128 <= lo -> inr lo hi b = false.
Proof. intros H1 H2. unfold inr. assert ((lo <=? b) = false) as -> by lia. reflexivity. Qed.

(* a rune read from text followed by an ASCII byte is the rune read from the text alone *)
Lemma decode_app_ascii text b t : text <> [] -> b < 128 -> decode (text ++ b :: t) = decode text.
Proof.
  intros Hne Hb. unfold decode. destruct text as [|c0 text]; [congruence|]. cbn [app].
  destruct (c0 <? 128); [reflexivity|]. destruct (c0 <? 194); [reflexivity|].
  assert (I128 : forall hi, inr 128 hi b = false) by (intros; apply inr_lo; [exact Hb|lia]).
  destruct (c0 <? 224).
  { destruct text as [|c1 text]; cbn [app]; [rewrite I128; reflexivity|reflexivity]. }
  destruct (c0 <? 240).
  { assert (Ilo : forall hi, inr (if c0 =? 224 then 160 else 128) hi b = false) by (intros; apply inr_lo; [exact Hb|destruct (c0 =? 224); lia]).
    destruct text as [|c1 [|c2 text]]; cbn [app]; try reflexivity.
    - destruct t as [|t0 t]; [reflexivity|]. rewrite Ilo. reflexivity.
    - rewrite I128. destruct (inr _ _ c1); reflexivity. }
  destruct (c0 <? 245).
  { assert (Ilo : forall hi, inr (if c0 =? 240 then 144 else 128) hi b = false) by (intros; apply inr_lo; [exact Hb|destruct (c0 =? 240); lia]).
    destruct text as [|c1 [|c2 [|c3 text]]]; cbn [app]; try reflexivity.
    - destruct t as [|t0 [|t1 t]]; try reflexivity. rewrite Ilo. reflexivity.
    - destruct t as [|t0 t]; [reflexivity|]. rewrite I128. destruct (inr _ _ c1); reflexivity.
    - rewrite I128. destruct (inr _ _ c1); [destruct (inr 128 191 c2)|]; reflexivity. }
  reflexivity.
Qed.

Lemma decode_w_pos_l s r w : decode s = (r, w) -> s <> [] -> (0 < w <= length s)%nat.
Proof.
  intros Ed Hne. pose proof (decode_spec s) as D. rewrite Ed in D. destruct D as (_ & Dl & D0 & _). split; [|exact Dl].
  destruct w; [|lia]. destruct D0 as [D0 _]. specialize (D0 eq_refl). congruence.
Qed.

Lemma scan_fwd : forall f fuel crest l p R o, VP l p (crest ++ R) o -> cmd_scan f crest = true -> Bdry R ->
  (length (crest ++ R) < fuel)%nat ->
  exists fuel' l', lexTaskCommandsLoop fuel l = lexTaskCommandsLoop fuel' l' /\ VP l' (rev crest ++ p) R o /\ (length R < fuel')%nat.
Proof.
  induction f as [|f IH]; intros fuel crest l p R o HV Hsc HB Hf; [discriminate|].
  destruct crest as [|b0 rest0]. { exists fuel, l. cbn [rev app] in *. auto. }
  destruct HB as [HB0 (bR & R' & ER & HbR)].
  cbn [cmd_scan] in Hsc. destruct (decode (b0 :: rest0)) as [r w] eqn:Edc.
  destruct (decode_w_pos_l (b0 :: rest0) r w Edc ltac:(discriminate)) as [Hw0 Hw].
  assert (Ed : decode ((b0 :: rest0) ++ R) = (r, w)) by (rewrite ER, decode_app_ascii by (discriminate || exact HbR); exact Edc).
  set (rest := skipn w (b0 :: rest0)) in *.
  apply andb_prop in Hsc. destruct Hsc as [H10 Hsc]. apply negb_true_iff in H10.
  destruct fuel as [|fuel]; [lia|]. cbn [lexTaskCommandsLoop].
  destruct (next_vp _ _ _ _ r w HV Ed) as (l1 & En & V1). rewrite En, H10.
  assert (F : firstn w ((b0 :: rest0) ++ R) = firstn w (b0 :: rest0)) by (rewrite firstn_app; replace (w - length (b0 :: rest0))%nat with 0%nat by lia; cbn [firstn]; apply app_nil_r).
  assert (K : skipn w ((b0 :: rest0) ++ R) = rest ++ R) by (rewrite skipn_app; replace (w - length (b0 :: rest0))%nat with 0%nat by lia; reflexivity).
  rewrite F, K in V1. pose proof V1 as (_ & S1 & _). rewrite S1.
  assert (Hlen : (length rest + w = length (b0 :: rest0))%nat) by (unfold rest; rewrite skipn_length; lia).
  assert (Hrev : forall x, rev rest ++ rev (firstn w (b0 :: rest0)) ++ x = rev (b0 :: rest0) ++ x).
  { intros x. rewrite app_assoc, <- rev_app_distr. unfold rest. rewrite firstn_skipn. reflexivity. }
  destruct (has_prefix k_linterp rest || has_prefix k_rinterp rest)%bool eqn:Hp.
  - assert (Hsplit : exists a c, rest = a :: c :: skipn 2 rest /\ nl [a; c] = 0%nat).
    { apply orb_prop in Hp. destruct Hp as [Hp|Hp]; apply has_prefix_split in Hp; cbn [k_linterp k_rinterp length app] in Hp; eexists _, _; (split; [exact Hp|reflexivity]). }
    destruct Hsplit as (a & c & Er & Hnl).
    assert (V2 : VP (absorb 2 l1) (rev [a; c] ++ rev (firstn w (b0 :: rest0)) ++ p) (skipn 2 rest ++ R) o).
    { apply (absorb_vp l1 _ [a; c] (skipn 2 rest ++ R) o); [|exact Hnl]. rewrite Er in V1 at 1. exact V1. }
    assert (Hgoal : exists fuel' l', lexTaskCommandsLoop fuel (absorb 2 l1) = lexTaskCommandsLoop fuel' l' /\ VP l' (rev (b0 :: rest0) ++ p) R o /\ (length R < fuel')%nat).
    { destruct (IH fuel (skipn 2 rest) (absorb 2 l1) _ R o V2 Hsc (conj HB0 (ex_intro _ bR (ex_intro _ R' (conj ER HbR))))) as (fuel' & l' & E' & V' & L').
      { rewrite app_length in Hf |- *. rewrite skipn_length. lia. }
      exists fuel', l'. split; [exact E'|]. split; [|exact L'].
      replace (rev (b0 :: rest0) ++ p) with (rev (skipn 2 rest) ++ rev [a; c] ++ rev (firstn w (b0 :: rest0)) ++ p); [exact V'|].
      rewrite <- Hrev. remember (skipn 2 rest) as tl2 eqn:Etl. rewrite Er. cbn [rev]. rewrite <- !app_assoc. reflexivity. }
    assert (Hor : (has_prefix k_linterp (rest ++ R) = true) \/ (has_prefix k_linterp (rest ++ R) = false /\ has_prefix k_rinterp (rest ++ R) = true)).
    { destruct (has_prefix k_linterp rest) eqn:Hl.
      - left. apply has_prefix_split in Hl. rewrite Hl, <- app_assoc. apply has_prefix_app.
      - right. cbn [orb] in Hp. split; [rewrite hp_l by exact HB0; exact Hl|]. apply has_prefix_split in Hp. rewrite Hp, <- app_assoc. apply has_prefix_app. }
    destruct Hor as [->|[-> ->]]; exact Hgoal.
  - apply orb_false_elim in Hp. destruct Hp as [Hpl Hpr].
    apply andb_prop in Hsc. destruct Hsc as [Hsc Hrest]. apply andb_prop in Hsc. destruct Hsc as [Hsc H127]. apply andb_prop in Hsc. destruct Hsc as [H125 H35].
    apply negb_true_iff in H125, H35.
    assert (Hx : forall x, rest = [x] -> x <> 125).
    { intros x Ex ->. rewrite Ex in Hrest. destruct f as [|f']; [discriminate|]. cbn in Hrest. discriminate. }
    rewrite (hp_l rest R HB0), (hp_r rest R HB0 Hx), Hpl, Hpr, H125.
    assert (atEOF l1 = false) as ->.
    { unfold atEOF. rewrite S1, ER. destruct rest; reflexivity. }
    rewrite H35, H127. cbn [orb].
    destruct (IH fuel rest l1 _ R o V1 Hrest (conj HB0 (ex_intro _ bR (ex_intro _ R' (conj ER HbR)))) ltac:(rewrite app_length in Hf |- *; lia)) as (fuel' & l' & E' & V' & L').
    exists fuel', l'. split; [exact E'|]. split; [|exact L']. rewrite <- Hrev. exact V'.
Qed.

Definition NoBr (R : bytes) : Prop := match R with 123 :: _ => False | 125 :: _ => False | _ => True end.

Lemma NoBr_prefix R : NoBr R -> has_prefix k_linterp R = false /\ has_prefix k_rinterp R = false.
Proof.
  intros H. destruct R as [|b R]; [split; reflexivity|]. unfold k_linterp, k_rinterp. cbn [has_prefix].
  split.
  - destruct (123 =? b) eqn:E; [|reflexivity]. apply N.eqb_eq in E. subst b. contradiction.
  - destruct (125 =? b) eqn:E; [|reflexivity]. apply N.eqb_eq in E. subst b. contradiction.
Qed.

Lemma last_not_head b c : last_not b c = true -> head_not b (rev c).
Proof. unfold last_not, head_not. destruct (rev c) as [|x r]; [auto|]. intros H E. subst x. rewrite N.eqb_refl in H. discriminate. Qed.

(* the closing brace: what the r = 125 branch does, given the text position just before it *)
Lemma close_branch l1 l cpre R' o fuel :
  VP l cpre (125 :: R') o -> next l = (125, l1) -> NoBr R' ->
  head_not 13 cpre -> head_not 32 cpre ->
  exists l', lexTaskCommandsLoop (S fuel) l = (SRightBrace, l') /\
             VP l' [] (125 :: R') (match cpre with [] => o | _ => (COMMAND, rev cpre) :: o end).
Proof.
  intros HV En HN H13 H32. cbn [lexTaskCommandsLoop]. rewrite En. cbn [N.eqb Pos.eqb].
  destruct (next_vp_ascii _ _ _ _ _ HV ltac:(lia)) as (l1' & En' & V1). rewrite En in En'. injection En' as <-.
  pose proof V1 as (_ & S1 & _). rewrite S1. destruct (NoBr_prefix R' HN) as [-> ->].
  pose proof (backup_vp _ _ _ _ HV) as VB. rewrite En in VB. cbn [snd] in VB.
  pose proof VB as (PB & _). rewrite PB.
  assert (Hm : match cpre with 32 :: _ => pos_dec (backup l1) | _ => backup l1 end = backup l1).
  { destruct cpre as [|x cp]; [reflexivity|]. cbn [head_not] in H32. destruct x as [|px]; [reflexivity|]. repeat (destruct px as [px|px|]; try reflexivity). congruence. }
  rewrite Hm. pose proof (drop_cr_vp0 _ _ _ _ VB H13) as V3. pose proof V3 as (P3 & _). rewrite P3.
  destruct cpre as [|x cp].
  - eexists. split; [reflexivity|]. apply (skipws_vp _ [] _ _ V3 WS_nil). apply ns_cons; [lia|reflexivity].
  - pose proof (emit_vp COMMAND _ _ _ _ V3 ltac:(discriminate) ltac:(discriminate)) as V4.
    eexists. split; [reflexivity|]. apply (skipws_vp _ [] _ _ V4 WS_nil). apply ns_cons; [lia|reflexivity].
Qed.

Lemma close_empty l R' o fuel : VP l [] (125 :: R') o -> NoBr R' ->
  exists l', lexTaskCommandsLoop (S fuel) l = (SRightBrace, l') /\ VP l' [] (125 :: R') o.
Proof.
  intros HV HN. destruct (next_vp_ascii _ _ _ _ _ HV ltac:(lia)) as (l1 & En & _).
  apply (close_branch l1 l [] R' o fuel HV En HN); exact I.
Qed.

(* a command that ends the body on the same line: c "}" or c " }" *)
Lemma line_close f fuel crest l p (sp : bool) R' o :
  VP l p (crest ++ (if sp then [32] else []) ++ 125 :: R') o -> cmd_scan f crest = true -> NoBr R' ->
  rev p ++ crest <> [] -> last_not 13 (rev p ++ crest) = true -> (sp = false -> last_not 32 (rev p ++ crest) = true) ->
  (length (crest ++ (if sp then [32%N] else []) ++ 125%N :: R') < fuel)%nat ->
  exists l', lexTaskCommandsLoop fuel l = (SRightBrace, l') /\ VP l' [] (125 :: R') ((COMMAND, rev p ++ crest) :: o).
Proof.
  intros HV Hsc HN Hne H13 H32 Hf.
  assert (HB : Bdry ((if sp then [32] else []) ++ 125 :: R')).
  { split; [|destruct sp; eexists _, _; (split; [reflexivity|lia])].
    destruct sp; cbn [app Bdry0]; [exact I|]. destruct R' as [|x R']; [exact I|]. destruct x as [|px]; [exact I|].
    cbn [NoBr] in HN. repeat (destruct px as [px|px|]; try exact I). exact HN. }
  destruct (scan_fwd f fuel crest l p _ o HV Hsc HB ltac:(lia)) as (fuel1 & l1 & E1 & V1 & L1). rewrite E1.
  assert (Hc : rev (rev crest ++ p) = rev p ++ crest) by (rewrite rev_app_distr, rev_involutive; reflexivity).
  destruct sp; cbn [app] in V1, L1.
  - (* the space is scanned as an ordinary byte, then given back *)
    destruct fuel1 as [|fuel2]; [lia|]. cbn [lexTaskCommandsLoop].
    destruct (next_vp_ascii _ _ _ _ _ V1 ltac:(lia)) as (l2 & En2 & V2). rewrite En2. cbn [N.eqb Pos.eqb].
    pose proof V2 as (_ & S2 & _). rewrite S2.
    assert (has_prefix k_linterp (125 :: R') = false) as -> by reflexivity.
    assert (has_prefix k_rinterp (125 :: R') = false) as ->.
    { unfold k_rinterp. cbn [has_prefix N.eqb Pos.eqb andb]. destruct R' as [|x R']; [reflexivity|]. cbn [has_prefix].
      destruct (125 =? x) eqn:E; [|reflexivity]. apply N.eqb_eq in E. subst x. contradiction. }
    unfold atEOF. rewrite S2. cbn [orb N.leb N.compare Pos.compare Pos.compare_cont].
    destruct fuel2 as [|fuel3]; [cbn [length] in L1; lia|].
    (* now at "}" with the space pending *)
    cbn [lexTaskCommandsLoop].
    destruct (next_vp_ascii _ _ _ _ _ V2 ltac:(lia)) as (l3 & En3 & V3). rewrite En3. cbn [N.eqb Pos.eqb].
    pose proof V3 as (_ & S3 & _). rewrite S3. destruct (NoBr_prefix R' HN) as [-> ->].
    pose proof (backup_vp _ _ _ _ V2) as VB. rewrite En3 in VB. cbn [snd] in VB. pose proof VB as (PB & _). rewrite PB.
    pose proof (pos_dec_vp _ _ _ _ VB) as V4.
    pose proof (drop_cr_vp0 _ _ _ _ V4 ltac:(rewrite <- (rev_involutive (rev crest ++ p)), Hc; apply last_not_head; exact H13)) as V5.
    pose proof V5 as (P5 & _). rewrite P5.
    assert (Hnn : rev crest ++ p <> []) by (intros E; apply Hne; rewrite <- Hc, E; reflexivity).
    destruct (rev crest ++ p) as [|x cp] eqn:Ecp; [congruence|]. rewrite <- Ecp in *.
    pose proof (emit_vp COMMAND _ _ _ _ V5 ltac:(discriminate) ltac:(discriminate)) as V6. rewrite Hc in V6.
    eexists. split; [reflexivity|]. apply (skipws_vp _ [32] _ _ V6 eq_refl). apply ns_cons; [lia|reflexivity].
  - destruct fuel1 as [|fuel2]; [lia|].
    destruct (next_vp_ascii _ _ _ _ _ V1 ltac:(lia)) as (l2 & En2 & _).
    destruct (close_branch l2 l1 _ R' o fuel2 V1 En2 HN) as (l' & R & V').
    + rewrite <- (rev_involutive (rev crest ++ p)), Hc. apply last_not_head. exact H13.
    + rewrite <- (rev_involutive (rev crest ++ p)), Hc. apply last_not_head. apply H32. reflexivity.
    + exists l'. split; [exact R|]. assert (Hnn : rev crest ++ p <> []) by (intros E; apply Hne; rewrite <- Hc, E; reflexivity).
      destruct (rev crest ++ p) as [|x cp] eqn:Ecp; [congruence|]. rewrite Hc in V'. exact V'.
Qed.

(* a command that ends at a line end (LF or CRLF) followed by any further whitespace *)
Lemma line_eol f fuel crest l p w R o :
  VP l p (crest ++ w ++ R) o -> cmd_scan f crest = true -> WS w -> eol_start w = true -> ns R ->
  last_not 13 (rev p ++ crest) = true -> (length (crest ++ w ++ R) < fuel)%nat ->
  exists fuel' l', lexTaskCommandsLoop fuel l = lexTaskCommandsLoop fuel' l' /\ VP l' [] R ((COMMAND, rev p ++ crest) :: o) /\
                   (length R < fuel')%nat.
Proof.
  intros HV Hsc Hw He Hn H13 Hf.
  assert (Hc : rev (rev crest ++ p) = rev p ++ crest) by (rewrite rev_app_distr, rev_involutive; reflexivity).
  assert (Hh : head_not 13 (rev crest ++ p)) by (rewrite <- (rev_involutive (rev crest ++ p)), Hc; apply last_not_head; exact H13).
  assert (HB : Bdry (w ++ R)).
  { split.
    - unfold eol_start, no_eol_start in He. destruct w as [|b w]; [discriminate|]. cbn [app Bdry0].
      destruct b as [|pb]; [exact I|]. repeat (destruct pb as [pb|pb|]; try exact I; try discriminate).
    - destruct w as [|b w]; [discriminate|]. unfold WS in Hw. cbn [forallb] in Hw. apply andb_prop in Hw. destruct Hw as [Hb _].
      destruct (ws_byte_facts b Hb) as (A & _). cbn [app]. eauto. }
  destruct (scan_fwd f fuel crest l p _ o HV Hsc HB Hf) as (fuel1 & l1 & E1 & V1 & L1). rewrite E1.
  assert (Hcase : (exists w', w = 10 :: w') \/ (exists w', w = 13 :: 10 :: w')).
  { unfold eol_start, no_eol_start in He. destruct w as [|b w]; [discriminate|].
    destruct (N.eq_dec b 10) as [->|Hb]; [left; eauto|]. destruct (N.eq_dec b 13) as [->|Hb2].
    - destruct w as [|c w]; [discriminate|]. destruct (N.eq_dec c 10) as [->|Hc2]; [right; eauto|].
      destruct c as [|pc]; [discriminate|]. repeat (destruct pc as [pc|pc|]; try discriminate). congruence.
    - destruct b as [|pb]; [discriminate|]. repeat (destruct pb as [pb|pb|]; try discriminate); congruence. }
  destruct Hcase as [(w' & ->)|(w' & ->)].
  - destruct fuel1 as [|fl]; [lia|]. cbn [lexTaskCommandsLoop]. cbn [app] in V1.
    pose proof (backup_vp _ _ _ _ V1) as VB. destruct (next_vp_ascii _ _ _ _ _ V1 ltac:(lia)) as (l2 & En & _). rewrite En in VB |- *. cbn [snd N.eqb Pos.eqb] in *.
    pose proof (drop_cr_vp0 _ _ _ _ VB Hh) as V3.
    pose proof (emit_vp COMMAND _ _ _ _ V3 ltac:(discriminate) ltac:(discriminate)) as V4. rewrite Hc in V4.
    pose proof (skipws_vp _ (10 :: w') R _ V4 Hw Hn) as V5.
    eexists _, _. split; [reflexivity|]. split; [exact V5|]. cbn [app length] in L1. rewrite app_length in L1. lia.
  - destruct fuel1 as [|[|fl]]; [lia|cbn [app length] in L1; lia|]. cbn [lexTaskCommandsLoop]. cbn [app] in V1.
    destruct (next_vp_ascii _ _ _ _ _ V1 ltac:(lia)) as (l2 & En & V2). rewrite En. cbn [N.eqb Pos.eqb].
    pose proof V2 as (_ & S2 & _). rewrite S2. cbn [k_linterp k_rinterp has_prefix N.eqb Pos.eqb andb].
    unfold atEOF. rewrite S2. cbn [orb N.leb N.compare Pos.compare Pos.compare_cont].
    pose proof (backup_vp _ _ _ _ V2) as VB. destruct (next_vp_ascii _ _ _ _ _ V2 ltac:(lia)) as (l3 & En3 & _). rewrite En3 in VB |- *. cbn [snd N.eqb Pos.eqb] in *.
    pose proof (drop_cr_vp1 _ _ _ _ VB Hh) as V3.
    pose proof (emit_vp COMMAND _ _ _ _ V3 ltac:(discriminate) ltac:(discriminate)) as V4. rewrite Hc in V4.
    pose proof (skipws_vp _ (13 :: 10 :: w') R _ V4 Hw Hn) as V5.
    eexists _, _. split; [reflexivity|]. split; [exact V5|]. cbn [app length] in L1. rewrite app_length in L1. lia.
Qed.

(* ---- a whole task body ---- *)
Definition last_text (last : option (bytes * bool)) : bytes :=
  match last with Some (c, sp) => c ++ (if sp : bool then [32] else []) | None => [] end.
Definition body_tail (lines : list (bytes * ws)) (last : option (bytes * bool)) (R' : bytes) : bytes :=
  concat (map (fun cw => fst cw ++ snd cw) lines) ++ last_text last ++ 125 :: R'.

Definition line_ok (cw : bytes * ws) : Prop := CmdN (fst cw) /\ WS (snd cw) /\ eol_start (snd cw) = true.
Definition lastN_ok (last : option (bytes * bool)) : Prop :=
  match last with None => True | Some (c, sp) => CmdN c /\ (sp = false -> last_not 32 c = true) end.

Lemma CmdN_ns c x : CmdN c -> (exists b t, x = b :: t /\ b < 128) -> ns (c ++ x).
Proof.
  intros (Hne & _ & _ & Hsp) (b & t & -> & Hb). unfold ns. rewrite decode_app_ascii by assumption. exact Hsp.
Qed.

Lemma eol_ws_ascii w x : WS w -> eol_start w = true -> exists b t, w ++ x = b :: t /\ b < 128.
Proof.
  intros Hw He. destruct w as [|b w]; [discriminate|]. unfold WS in Hw. cbn [forallb] in Hw. apply andb_prop in Hw. destruct Hw as [Hb _].
  destruct (ws_byte_facts b Hb) as (A & _). cbn [app]. eauto.
Qed.

Lemma body_tail_ns lines last R' : Forall line_ok lines -> lastN_ok last -> ns (body_tail lines last R').
Proof.
  intros Hl Hlast. unfold body_tail. destruct lines as [|[c w] lines].
  - cbn [map concat app]. destruct last as [[c sp]|]; cbn [last_text].
    + destruct Hlast as [Hc _]. rewrite <- app_assoc. apply CmdN_ns; [exact Hc|]. destruct sp; cbn [app]; eexists _, _; (split; [reflexivity|lia]).
    + cbn [app]. apply ns_cons; [lia|reflexivity].
  - inversion Hl as [|? ? [Hc [Hw He]] _]; subst. cbn [map concat fst snd] in *. rewrite <- !app_assoc. apply CmdN_ns; [exact Hc|]. apply eol_ws_ascii; assumption.
Qed.

Lemma lines_fwd : forall lines last R' fuel l o, VP l [] (body_tail lines last R') o ->
  Forall line_ok lines -> lastN_ok last -> NoBr R' -> (length (body_tail lines last R') < fuel)%nat ->
  exists l', lexTaskCommandsLoop fuel l = (SRightBrace, l') /\
    VP l' [] (125 :: R') (rev (map (fun c => (COMMAND, c)) (map fst lines ++ match last with Some (c, _) => [c] | None => [] end)) ++ o).
Proof.
  induction lines as [|[c w] lines IH]; intros last R' fuel l o HV Hl Hlast HN Hf.
  - unfold body_tail in *. cbn [map concat app] in *. destruct last as [[c sp]|]; cbn [last_text] in *.
    + destruct Hlast as [(Hne & Hsc & H13 & _) H32]. rewrite <- app_assoc in HV, Hf.
      destruct (line_close _ fuel c l [] sp R' o HV Hsc HN Hne H13 H32 Hf) as (l' & R & V'). exists l'. split; [exact R|exact V'].
    + cbn [app] in *. destruct fuel as [|fuel]; [lia|]. apply close_empty; assumption.
  - inversion Hl as [|? ? [(Hne & Hsc & H13 & _) [Hw He]] Hl']; subst. cbn [fst snd] in *.
    unfold body_tail in HV, Hf. cbn [map concat fst snd] in HV, Hf. rewrite <- !app_assoc in HV, Hf. fold (body_tail lines last R') in HV, Hf.
    destruct (line_eol _ fuel c l [] w _ o HV Hsc Hw He (body_tail_ns lines last R' Hl' Hlast) H13 Hf) as (fuel' & l1 & E1 & V1 & L1).
    rewrite E1. destruct (IH last R' fuel' l1 _ V1 Hl' Hlast HN L1) as (l' & R & V'). exists l'. split; [exact R|].
    cbn [map app rev] in V' |- *. rewrite <- app_assoc. exact V'.
Qed.

Lemma Cmd1_facts c x : Cmd1 c -> exists r w, decode c = (r, w) /\ decode (c ++ x) = (r, w) /\ is_letter r = true /\ (0 < w <= length c)%nat /\
  cmd_scan (S (length c)) (skipn w c) = true /\ last_not 13 c = true.
Proof.
  unfold Cmd1. destruct (decode c) as [r w] eqn:Ed. intros (Hr & Hsc & H13). exists r, w.
  assert (Hid : is_ident r = true) by (unfold is_ident; rewrite Hr; reflexivity).
  split; [reflexivity|]. split; [apply decode_app; [exact Ed|apply is_ident_not_err; exact Hid]|]. split; [exact Hr|].
  split; [|auto]. pose proof (decode_spec c) as D. rewrite Ed in D. destruct D as (_ & Dl & D0 & _). split; [|exact Dl].
  destruct w; [|lia]. destruct D0 as [D0 _]. specialize (D0 eq_refl). subst c. cbn in Ed. injection Ed as <-. vm_compute in Hr. discriminate.
Qed.

Definition body_ok (b : cbody) : Prop :=
  WS (cb_ws b) /\
  match cb_cmds b, cb_last b with
  | [], None => True
  | [], Some (c, sp) => Cmd1 c /\ (sp = false -> last_not 32 c = true)
  | (c1, w1) :: ls, last => Cmd1 c1 /\ WS w1 /\ eol_start w1 = true /\ Forall line_ok ls /\ lastN_ok last
  end.

Definition body_text (b : cbody) (R' : bytes) : bytes := body_tail (cb_cmds b) (cb_last b) R'.

Lemma r_body_text b R' : r_body b ++ R' = 123 :: cb_ws b ++ body_text b R'.
Proof.
  unfold r_body, body_text, body_tail, last_text. cbn [app]. f_equal. rewrite <- !app_assoc. reflexivity.
Qed.

Lemma body_text_ns b R' : body_ok b -> ns (body_text b R').
Proof.
  intros [_ H]. unfold body_text, body_tail. destruct (cb_cmds b) as [|[c1 w1] ls].
  - cbn [map concat app]. destruct (cb_last b) as [[c sp]|]; cbn [last_text].
    + destruct H as [Hc _]. destruct (Cmd1_facts c ((if sp then [32] else []) ++ 125 :: R') Hc) as (r & w & _ & Ed & Hr & _).
      rewrite <- app_assoc. apply ident_ns. rewrite Ed. cbn [fst]. unfold is_ident. rewrite Hr. reflexivity.
    + cbn [app]. apply ns_cons; [lia|reflexivity].
  - destruct H as (Hc & _). cbn [map concat fst snd]. rewrite <- !app_assoc.
    destruct (Cmd1_facts c1 (w1 ++ concat (map (fun cw => fst cw ++ snd cw) ls) ++ last_text (cb_last b) ++ 125 :: R') Hc) as (r & w & _ & Ed & Hr & _).
    apply ident_ns. rewrite Ed. cbn [fst]. unfold is_ident. rewrite Hr. reflexivity.
Qed.

(* from "{" to just after "}" *)
Lemma fwd_body b R' l o : VP l [] (r_body b ++ R') o -> body_ok b -> NoBr R' ->
  exists l', Steps SLeftBrace l SStart l' /\ VP l' [] R' (rev (t_body b) ++ o).
Proof.
  intros HV Hok HN. rewrite r_body_text in HV. pose proof (body_text_ns b R' Hok) as Hns. destruct Hok as [Hws Hb].
  destruct (fwd_lbrace l (cb_ws b) _ o HV Hws Hns) as (l1 & E1 & V1).
  assert (Hfin : forall l3 cmds, VP l3 [] (125 :: R') (rev (map (fun c => (COMMAND, c)) cmds) ++ (LBRACE, [123]) :: o) -> e_body b = cmds ->
            exists l', Steps SRightBrace l3 SStart l' /\ VP l' [] R' (rev (t_body b) ++ o)).
  { intros l3 cmds V3 Ecm. destruct (fwd_rbrace l3 R' _ V3) as (l4 & E4 & V4). exists l4.
    split; [apply Steps_one; [discriminate|exact E4|exact (VP_fl _ _ _ _ V4)]|].
    unfold t_body. rewrite Ecm. cbn [rev]. rewrite rev_app_distr. cbn [rev app]. rewrite <- !app_assoc. cbn [app]. exact V4. }
  unfold body_text, body_tail in V1. unfold e_body in Hfin.
  destruct (cb_cmds b) as [|[c1 w1] ls] eqn:Ecm.
  - cbn [map concat app] in V1. destruct (cb_last b) as [[c sp]|] eqn:El; cbn [last_text] in V1.
    + destruct Hb as [Hc H32]. rewrite <- app_assoc in V1.
      destruct (Cmd1_facts c ((if sp then [32] else []) ++ 125 :: R') Hc) as (r & w & Edc & Ed & Hr & Hw & Hsc & H13).
      destruct (fwd_body_cmd l1 _ r w _ V1 Ed Hr) as (l2 & E2 & V2).
      assert (F : firstn w (c ++ (if sp then [32] else []) ++ 125 :: R') = firstn w c) by (rewrite firstn_app; replace (w - length c)%nat with 0%nat by lia; cbn [firstn]; apply app_nil_r).
      assert (K : skipn w (c ++ (if sp then [32] else []) ++ 125 :: R') = skipn w c ++ (if sp then [32] else []) ++ 125 :: R') by (rewrite skipn_app; replace (w - length c)%nat with 0%nat by lia; reflexivity).
      rewrite F, K in V2.
      assert (Hcc : rev (rev (firstn w c)) ++ skipn w c = c) by (rewrite rev_involutive; apply firstn_skipn).
      pose proof V2 as (_ & S2 & _).
      destruct (line_close _ (S (S (length (suf l2)))) (skipn w c) l2 _ sp R' _ V2 Hsc HN) as (l3 & E3 & V3);
        try (rewrite Hcc); try assumption; try (rewrite S2; lia).
      { intros E. destruct c; [cbn in Hw; lia|discriminate]. }
      rewrite Hcc in V3. destruct (Hfin l3 [c] V3 eq_refl) as (l' & St & V').
      exists l'. split; [|exact V'].
      eapply Steps_step; [discriminate|exact E1|exact (VP_fl _ _ _ _ V1)|].
      eapply Steps_step; [discriminate|exact E2|exact (VP_fl _ _ _ _ V2)|].
      eapply Steps_step; [discriminate|exact E3|exact (VP_fl _ _ _ _ V3)|exact St].
    + cbn [app] in V1. destruct (fwd_body_close l1 R' _ V1) as (l2 & E2 & V2).
      destruct (Hfin l2 [] V2 eq_refl) as (l' & St & V'). exists l'. split; [|exact V'].
      eapply Steps_step; [discriminate|exact E1|exact (VP_fl _ _ _ _ V1)|].
      eapply Steps_step; [discriminate|exact E2|exact (VP_fl _ _ _ _ V2)|exact St].
  - destruct Hb as (Hc & Hw1 & He1 & Hls & Hlast). cbn [map concat fst snd] in V1. rewrite <- !app_assoc in V1. fold (body_tail ls (cb_last b) R') in V1.
    destruct (Cmd1_facts c1 (w1 ++ body_tail ls (cb_last b) R') Hc) as (r & w & Edc & Ed & Hr & Hw & Hsc & H13).
    destruct (fwd_body_cmd l1 _ r w _ V1 Ed Hr) as (l2 & E2 & V2).
    assert (F : firstn w (c1 ++ w1 ++ body_tail ls (cb_last b) R') = firstn w c1) by (rewrite firstn_app; replace (w - length c1)%nat with 0%nat by lia; cbn [firstn]; apply app_nil_r).
    assert (K : skipn w (c1 ++ w1 ++ body_tail ls (cb_last b) R') = skipn w c1 ++ w1 ++ body_tail ls (cb_last b) R') by (rewrite skipn_app; replace (w - length c1)%nat with 0%nat by lia; reflexivity).
    rewrite F, K in V2.
    assert (Hcc : rev (rev (firstn w c1)) ++ skipn w c1 = c1) by (rewrite rev_involutive; apply firstn_skipn).
    pose proof V2 as (_ & S2 & _).
    destruct (line_eol _ (S (S (length (suf l2)))) (skipn w c1) l2 _ w1 _ _ V2 Hsc Hw1 He1 (body_tail_ns ls (cb_last b) R' Hls Hlast)) as (fuel' & l3 & E3 & V3 & L3);
      try (rewrite Hcc; exact H13); try (rewrite S2; lia).
    rewrite Hcc in V3.
    destruct (lines_fwd ls (cb_last b) R' fuel' l3 _ V3 Hls Hlast HN L3) as (l4 & E4 & V4).
    destruct (Hfin l4 (c1 :: map fst ls ++ match cb_last b with Some (c, _) => [c] | None => [] end)) as (l' & St & V').
    { cbn [map rev]. rewrite <- app_assoc. cbn [app]. exact V4. }
    { reflexivity. }
    exists l'. split; [|exact V'].
    eapply Steps_step; [discriminate|exact E1|exact (VP_fl _ _ _ _ V1)|].
    eapply Steps_step; [discriminate|exact E2|exact (VP_fl _ _ _ _ V2)|].
    eapply Steps_step; [discriminate| |exact (VP_fl _ _ _ _ V4)|exact St].
    cbn [step]. unfold lexTaskCommands. rewrite E3. exact E4.
Qed.

(* ---- inverting a dispatch by what the text starts with ---- *)
Lemma Disp_id_inv rest o s l r w : Disp rest o s l -> decode rest = (r, w) -> is_ident r = true ->
  s = SIdent /\ VP l (rev (firstn w rest)) (skipn w rest) o.
Proof.
  intros D Ed Hr. destruct D as [tail l E V|r' w' l Ed' Hr' V|t l E V|t l E V|t l E V|t l E V];
    try (subst rest; rewrite decode_ascii_cons in Ed by lia; injection Ed as <- _; vm_compute in Hr; discriminate).
  rewrite Ed in Ed'. injection Ed' as <- <-. auto.
Qed.
Lemma Disp_byte_inv rest o s l b t : Disp rest o s l -> rest = b :: t -> b < 128 -> is_ident b = false ->
  (b = 34 -> s = SString /\ VP l [34] t o) /\
  (b = 41 -> s = SRightParen /\ VP l [] rest o) /\ (b = 40 -> s = SLeftParen /\ VP l [] rest o) /\
  (b = 123 -> s = SLeftBrace /\ VP l [] rest o) /\ (b = 44 -> s = SComma /\ VP l [] rest o).
Proof.
  intros D E Hb Hi. destruct D as [tail l E' V|r' w' l Ed' Hr' V|t' l E' V|t' l E' V|t' l E' V|t' l E' V];
    try (rewrite E in E'; injection E' as -> ->; (split; [|split; [|split; [|split]]]); intros Hx; try discriminate Hx; (split; [reflexivity|]); first [exact V | rewrite E; exact V]).
  rewrite E, decode_ascii_cons in Ed' by exact Hb. injection Ed' as <- _. congruence.
Qed.

(* ---- argument lists ---- *)
Definition IWS (w : ws) : Prop := forallb (fun b => (b =? 32) || (b =? 9)) w = true.
Lemma IWS_WS w : IWS w -> WS w.
Proof.
  unfold IWS, WS. induction w as [|b w IH]; [reflexivity|]. cbn [forallb]. intros H. apply andb_prop in H. destruct H as [Hb Hw].
  rewrite (IH Hw), andb_true_r. unfold is_ws_byte. apply orb_prop in Hb. destruct Hb as [->| ->]; [reflexivity|]. rewrite orb_true_r. reflexivity.
Qed.

Definition item_ok (i : citem) : Prop :=
  match ci_comma i with Some w => WS w | None => True end /\
  match ci_arg i with
  | AString s => Str s /\ IWS (ci_ws i)
  | AIdent s => Ident s /\ s <> [] /\ WS (ci_ws i)
  end.
Fixpoint commas_ok (items : list citem) : Prop :=
  match items with
  | [] => True
  | [i] => True
  | i :: tl => ci_comma i <> None /\ commas_ok tl
  end.
Definition items_ok (items : list citem) : Prop := Forall item_ok items /\ commas_ok items.

Definition items_text (items : list citem) (t : bytes) : bytes := concat (map r_item items) ++ 41 :: t.

Lemma items_head items t : Forall item_ok items -> HeadC (items_text items t).
Proof.
  unfold items_text. intros H. destruct items as [|i tl]; [apply HC_rp|]. inversion H as [|? ? [_ Hi] _]; subst.
  cbn [map concat]. unfold r_item. destruct (ci_arg i) as [s|s]; cbn [arg_str].
  - unfold b_quote. cbn [app]. apply HC_str.
  - destruct Hi as (Hid & Hne & _). rewrite <- !app_assoc.
    destruct (ident_first _ s (ci_ws i ++ comma_text (ci_comma i) ++ concat (map r_item tl) ++ 41 :: t) Hid Hne) as (r & w & Ed & _ & Hr & _).
    eapply HC_id; eauto.
Qed.

Lemma eolb_iws w Y : IWS w -> (w = [] -> eolb Y = false) -> eolb (w ++ Y) = false.
Proof.
  intros Hw HY. destruct w as [|b w]; [apply HY; reflexivity|]. unfold IWS in Hw. cbn [forallb] in Hw. apply andb_prop in Hw. destruct Hw as [Hb _].
  unfold eolb. cbn [app]. apply orb_prop in Hb. destruct Hb as [Hb|Hb]; apply N.eqb_eq in Hb; subst b; reflexivity.
Qed.

Lemma HeadC_not_eol Y : HeadC Y -> eolb Y = false /\ Y <> [].
Proof.
  destruct 1 as [t|s r w Ed Hr|t]; try (split; [reflexivity|discriminate]).
  split.
  - unfold eolb. rewrite Ed. cbn [fst]. rewrite (ident_neq r 10 Hr eq_refl). cbn [orb]. destruct s as [|b s]; [reflexivity|]. cbn [crlf has_prefix].
    destruct (13 =? b) eqn:E; [|reflexivity]. apply N.eqb_eq in E. subst b. rewrite decode_ascii_cons in Ed by lia. injection Ed as <- _. vm_compute in Hr. discriminate.
  - intros ->. cbn in Ed. injection Ed as <- _. vm_compute in Hr. discriminate.
Qed.

Lemma after_string_args X : X <> [] -> eolb X = false -> after_string X = SArgs.
Proof. intros Hne He. unfold after_string. destruct X; [congruence|]. rewrite He. reflexivity. Qed.

Lemma items_fwd : forall items t s l o, Disp (items_text items t) o s l -> items_ok items ->
  exists l', Steps s l SRightParen l' /\ VP l' [] (41 :: t) (rev (concat (map t_item items)) ++ o).
Proof.
  induction items as [|i tl IH]; intros t s l o D [Hok Hcm].
  - unfold items_text in D. cbn [map concat app] in D.
    destruct (Disp_byte_inv _ _ _ _ 41 t D eq_refl ltac:(lia) eq_refl) as (_ & H41 & _). destruct (H41 eq_refl) as [-> V].
    exists l. split; [constructor|exact V].
  - inversion Hok as [|? ? [Hcw Hi] Hok']; subst.
    assert (Hcm' : commas_ok tl) by (destruct tl; [exact I|destruct Hcm; assumption]).
    assert (Hlast : ci_comma i = None -> tl = []) by (intros E; destruct tl; [reflexivity|destruct Hcm; congruence]).
    pose proof (items_head tl t Hok') as HC.
    (* after the argument and its whitespace: an optional comma, then the rest *)
    assert (Hcomma : forall l1 o1 (wi : ws), WS wi -> VP l1 [] (wi ++ comma_text (ci_comma i) ++ items_text tl t) o1 ->
              exists s2 l2, Steps SArgs l1 s2 l2 /\ Disp (items_text tl t) (rev (match ci_comma i with Some _ => [(COMMA, [44])] | None => [] end) ++ o1) s2 l2).
    { intros l1 o1 wi Hwi V1. destruct (ci_comma i) as [w|] eqn:Ec.
      - cbn [app] in V1. destruct (disp_args l1 wi _ o1 V1 Hwi (H_cm _) ltac:(discriminate)) as (s2 & l2 & E2 & D2).
        destruct (Disp_byte_inv _ _ _ _ 44 _ D2 eq_refl ltac:(lia) eq_refl) as (_ & _ & _ & _ & H44). destruct (H44 eq_refl) as [-> V2].
        destruct (disp_comma l2 w _ o1 V2 Hcw HC) as (s3 & l3 & E3 & D3).
        exists s3, l3. split; [|exact D3].
        assert (F3 : fl l3 = FOk) by (destruct D3 as [? ? ? V|? ? ? ? ? V|? ? ? V|? ? ? V|? ? ? V|? ? ? V]; exact (VP_fl _ _ _ _ V)).
        eapply Steps_step; [discriminate|exact E2|exact (VP_fl _ _ _ _ V2)|]. apply Steps_one; [discriminate|exact E3|exact F3].
      - cbn [app] in V1. rewrite (Hlast eq_refl) in *. unfold items_text in *. cbn [map concat app] in *.
        destruct (disp_args l1 wi _ o1 V1 Hwi (H_rp _) ltac:(discriminate)) as (s2 & l2 & E2 & D2).
        exists s2, l2. split; [|exact D2].
        assert (F2 : fl l2 = FOk) by (destruct D2 as [? ? ? V|? ? ? ? ? V|? ? ? V|? ? ? V|? ? ? V|? ? ? V]; exact (VP_fl _ _ _ _ V)).
        apply Steps_one; [discriminate|exact E2|exact F2]. }
    unfold items_text in D. cbn [map concat] in D. unfold r_item at 1 in D. rewrite <- !app_assoc in D. fold (items_text tl t) in D.
    destruct (ci_arg i) as [body|name] eqn:Ea; cbn [arg_str] in D.
    + destruct Hi as [Hstr Hiws]. unfold b_quote in D. cbn [app] in D. rewrite <- app_assoc in D. cbn [app] in D.
      destruct (Disp_byte_inv _ _ _ _ 34 _ D eq_refl ltac:(lia) eq_refl) as (H34 & _). destruct (H34 eq_refl) as [-> V0].
      destruct (fwd_string l body _ o V0 Hstr) as (l1 & E1 & V1).
      assert (Hx : ci_ws i ++ comma_text (ci_comma i) ++ items_text tl t <> [] /\
                   eolb (ci_ws i ++ comma_text (ci_comma i) ++ items_text tl t) = false).
      { split.
        - destruct (ci_comma i); [destruct (ci_ws i); discriminate|]. destruct (HeadC_not_eol _ HC) as [_ Hne]. destruct (ci_ws i); [exact Hne|discriminate].
        - apply eolb_iws; [exact Hiws|]. intros _. destruct (ci_comma i); [reflexivity|]. apply HeadC_not_eol. exact HC. }
      destruct Hx as [Hne He]. rewrite (after_string_args _ Hne He) in E1.
      destruct (Hcomma l1 _ (ci_ws i) (IWS_WS _ Hiws) V1) as (s2 & l2 & St2 & D2).
      destruct (IH t s2 l2 _ D2 (conj Hok' Hcm')) as (l' & St' & V').
      exists l'. split.
      * eapply Steps_step; [discriminate|exact E1|exact (VP_fl _ _ _ _ V1)|]. eapply Steps_trans; eassumption.
      * cbn [map concat]. unfold t_item at 1. rewrite Ea. cbn [t_arg]. rewrite rev_app_distr.
        destruct (ci_comma i); cbn [rev app] in V' |- *; rewrite <- ?app_assoc; cbn [app]; exact V'.
    + destruct Hi as (Hid & Hne & Hws).
      destruct (ident_first _ name (ci_ws i ++ comma_text (ci_comma i) ++ items_text tl t) Hid Hne) as (r & w & Ed & Edn & Hr & Hw).
      destruct (Disp_id_inv _ _ _ _ r w D Ed Hr) as [-> V0].
      assert (F : firstn w (name ++ ci_ws i ++ comma_text (ci_comma i) ++ items_text tl t) = firstn w name) by (rewrite firstn_app; replace (w - length name)%nat with 0%nat by lia; cbn [firstn]; apply app_nil_r).
      assert (K : skipn w (name ++ ci_ws i ++ comma_text (ci_comma i) ++ items_text tl t) = skipn w name ++ ci_ws i ++ comma_text (ci_comma i) ++ items_text tl t) by (rewrite skipn_app; replace (w - length name)%nat with 0%nat by lia; reflexivity).
      rewrite F, K in V0.
      assert (Hnm : rev (rev (firstn w name)) ++ skipn w name = name) by (rewrite rev_involutive; apply firstn_skipn).
      assert (Hrunes : ident_runes (S (length (skipn w name))) (skipn w name) = true).
      { unfold Ident in Hid. destruct (ident_runes_step _ name Hne Hid) as (r' & w' & Ed' & _ & _ & Hrest). rewrite Edn in Ed'. injection Ed' as <- <-.
        apply (ident_runes_min _ _ Hrest). }
      destruct (ci_comma i) as [wc|] eqn:Ec.
      * cbn [app] in V0. destruct (fwd_ident l _ (skipn w name) (ci_ws i) _ o SComma V0 Hrunes Hws ltac:(rewrite Hnm; apply IT_comma)) as (l1 & E1 & V1). rewrite Hnm in V1.
        destruct (disp_comma l1 wc _ _ V1 Hcw HC) as (s3 & l3 & E3 & D3).
        destruct (IH t s3 l3 _ D3 (conj Hok' Hcm')) as (l' & St' & V').
        assert (F3 : fl l3 = FOk) by (destruct D3 as [? ? ? V|? ? ? ? ? V|? ? ? V|? ? ? V|? ? ? V|? ? ? V]; exact (VP_fl _ _ _ _ V)).
        exists l'. split.
        -- eapply Steps_step; [discriminate|exact E1|exact (VP_fl _ _ _ _ V1)|]. eapply Steps_step; [discriminate|exact E3|exact F3|exact St'].
        -- cbn [map concat]. unfold t_item at 1. rewrite Ea, Ec. cbn [t_arg app rev]. rewrite <- !app_assoc. cbn [app]. exact V'.
      * rewrite (Hlast eq_refl) in *. unfold items_text in V0. cbn [map concat app] in V0.
        destruct (fwd_ident l _ (skipn w name) (ci_ws i) _ o SRightParen V0 Hrunes Hws ltac:(rewrite Hnm; apply IT_rparen)) as (l1 & E1 & V1). rewrite Hnm in V1.
        exists l1. split; [apply Steps_one; [discriminate|exact E1|exact (VP_fl _ _ _ _ V1)]|].
        cbn [map concat]. unfold t_item. rewrite Ea, Ec. cbn [t_arg app rev]. exact V1.
Qed.

Ltac lnorm := repeat (first [rewrite rev_app_distr | rewrite <- app_assoc | progress cbn [app rev]]).
Ltac lnorm_in H := repeat (first [rewrite rev_app_distr in H | rewrite <- app_assoc in H | progress cbn [app rev] in H]).

Definition cargs_ok (a : cargs) : Prop := WS (ca_ws a) /\ items_ok (ca_items a).

Lemma HeadC_not_lparen s : HeadC s -> forall t, s <> 40 :: t.
Proof.
  destruct 1 as [t0|s r w Ed Hr|t0]; intros t E; try discriminate. subst s. rewrite decode_ascii_cons in Ed by lia. injection Ed as <- _. vm_compute in Hr. discriminate.
Qed.

Lemma Disp_fl rest o s l : Disp rest o s l -> fl l = FOk.
Proof. destruct 1 as [? ? ? V|? ? ? ? ? V|? ? ? V|? ? ? V|? ? ? V|? ? ? V]; exact (VP_fl _ _ _ _ V). Qed.

Lemma r_args_text a R : r_args a ++ R = 40 :: ca_ws a ++ items_text (ca_items a) R.
Proof. unfold r_args, items_text. cbn [app]. rewrite <- !app_assoc. reflexivity. Qed.

Lemma args_fwd a R l o : VP l [] (r_args a ++ R) o -> cargs_ok a ->
  exists l', Steps SLeftParen l SRightParen l' /\ VP l' [] (41 :: R) (rev ((LPAREN, [40]) :: concat (map t_item (ca_items a))) ++ o).
Proof.
  intros HV [Hws Hit]. rewrite r_args_text in HV. pose proof (items_head (ca_items a) R (proj1 Hit)) as HC.
  destruct (fwd_lparen l (ca_ws a) _ o HV Hws (Head_ns _ (HeadC_Head _ HC))) as (l1 & E1 & V1).
  destruct (disp_args l1 [] _ _ V1 WS_nil (HeadC_Head _ HC) (HeadC_not_lparen _ HC)) as (s2 & l2 & E2 & D2).
  destruct (items_fwd (ca_items a) R s2 l2 _ D2 Hit) as (l' & St & V').
  exists l'. split.
  - eapply Steps_step; [discriminate|exact E1|exact (VP_fl _ _ _ _ V1)|]. eapply Steps_step; [discriminate|exact E2|exact (Disp_fl _ _ _ _ D2)|exact St].
  - cbn [rev]. rewrite <- app_assoc. cbn [app]. exact V'.
Qed.

(* ---- outputs and the rest of a task, from just after the dependencies' ")" ---- *)
Definition outs_wf (o : couts) : Prop :=
  match o with
  | ONone => True
  | OBare w1 (AString s) w2 => WS w1 /\ Str s /\ IWS w2
  | OBare w1 (AIdent s) w2 => WS w1 /\ Ident s /\ s <> [] /\ WS w2
  | OParen w1 args w2 => WS w1 /\ cargs_ok args /\ WS w2
  end.

Lemma t_args_eq a : t_args a = (LPAREN, [40]) :: concat (map t_item (ca_items a)) ++ [(RPAREN, [41])].
Proof. reflexivity. Qed.

Lemma r_body_head b R : exists t, r_body b ++ R = 123 :: t.
Proof. rewrite r_body_text. eauto. Qed.

Lemma task_tail_fwd wd outs body R l o :
  VP l [] (41 :: wd ++ r_outs outs ++ r_body body ++ R) o -> WS wd -> outs_wf outs -> body_ok body -> NoBr R ->
  exists l', Steps SRightParen l SStart l' /\ VP l' [] R (rev ((RPAREN, [41]) :: t_outs outs ++ t_body body) ++ o).
Proof.
  intros HV Hwd Ho Hb HN. destruct (r_body_head body R) as (tb & Eb).
  destruct outs as [|w1 a w2|w1 args w2]; cbn [r_outs app] in HV.
  - rewrite Eb in HV. destruct (fwd_rparen l wd _ o SLeftBrace HV Hwd (RT_lbrace _)) as (l1 & E1 & V1). rewrite <- Eb in V1.
    destruct (fwd_body body R l1 _ V1 Hb HN) as (l' & St & V'). exists l'. split.
    + eapply Steps_step; [discriminate|exact E1|exact (VP_fl _ _ _ _ V1)|exact St].
    + cbn [t_outs app rev]. rewrite <- app_assoc. cbn [app]. exact V'.
  - unfold k_output in HV. cbn [app] in HV.
    destruct (fwd_rparen l wd _ o SOutputOp HV Hwd (RT_output _)) as (l1 & E1 & V1).
    destruct a as [s|s]; cbn [outs_wf arg_str] in Ho, V1.
    + destruct Ho as (Hw1 & Hs & Hw2). unfold b_quote in V1. rewrite <- !app_assoc in V1. cbn [app] in V1.
      destruct (disp_output l1 w1 _ _ V1 Hw1 (HO_str _)) as (s2 & l2 & E2 & D2).
      destruct (Disp_byte_inv _ _ _ _ 34 _ D2 eq_refl ltac:(lia) eq_refl) as (H34 & _). destruct (H34 eq_refl) as [-> V2].
      destruct (fwd_string l2 s _ _ V2 Hs) as (l3 & E3 & V3).
      rewrite Eb in E3, V3. rewrite after_string_args in E3; [|destruct w2; discriminate|apply eolb_iws; [exact Hw2|reflexivity]].
      destruct (disp_args l3 w2 _ _ V3 (IWS_WS _ Hw2) (H_lb _) ltac:(discriminate)) as (s4 & l4 & E4 & D4).
      destruct (Disp_byte_inv _ _ _ _ 123 _ D4 eq_refl ltac:(lia) eq_refl) as (_ & _ & _ & H123 & _). destruct (H123 eq_refl) as [-> V4].
      rewrite <- Eb in V4. destruct (fwd_body body R l4 _ V4 Hb HN) as (l' & St & V'). exists l'. split.
      * eapply Steps_step; [discriminate|exact E1|exact (VP_fl _ _ _ _ V1)|]. eapply Steps_step; [discriminate|exact E2|exact (VP_fl _ _ _ _ V2)|].
        eapply Steps_step; [discriminate|exact E3|exact (VP_fl _ _ _ _ V3)|]. eapply Steps_step; [discriminate|exact E4|exact (VP_fl _ _ _ _ V4)|exact St].
      * cbn [t_outs t_arg app rev]. rewrite <- !app_assoc. cbn [app]. exact V'.
    + destruct Ho as (Hw1 & Hid & Hne & Hw2). rewrite <- !app_assoc in V1.
      destruct (ident_first _ s (w2 ++ r_body body ++ R) Hid Hne) as (r & w & Ed & Edn & Hr & Hw).
      destruct (disp_output l1 w1 _ _ V1 Hw1 (HO_id _ r w Ed Hr)) as (s2 & l2 & E2 & D2).
      destruct (Disp_id_inv _ _ _ _ r w D2 Ed Hr) as [-> V2].
      assert (F : firstn w (s ++ w2 ++ r_body body ++ R) = firstn w s) by (rewrite firstn_app; replace (w - length s)%nat with 0%nat by lia; cbn [firstn]; apply app_nil_r).
      assert (K : skipn w (s ++ w2 ++ r_body body ++ R) = skipn w s ++ w2 ++ r_body body ++ R) by (rewrite skipn_app; replace (w - length s)%nat with 0%nat by lia; reflexivity).
      rewrite F, K in V2.
      assert (Hnm : rev (rev (firstn w s)) ++ skipn w s = s) by (rewrite rev_involutive; apply firstn_skipn).
      assert (Hrunes : ident_runes (S (length (skipn w s))) (skipn w s) = true).
      { unfold Ident in Hid. destruct (ident_runes_step _ s Hne Hid) as (r' & w' & Ed' & _ & _ & Hrest). rewrite Edn in Ed'. injection Ed' as <- <-.
        apply (ident_runes_min _ _ Hrest). }
      rewrite Eb in V2.
      destruct (fwd_ident l2 _ (skipn w s) w2 _ _ SLeftBrace V2 Hrunes Hw2 ltac:(rewrite Hnm; apply IT_lbrace)) as (l3 & E3 & V3). rewrite Hnm, <- Eb in V3.
      destruct (fwd_body body R l3 _ V3 Hb HN) as (l' & St & V'). exists l'. split.
      * eapply Steps_step; [discriminate|exact E1|exact (VP_fl _ _ _ _ V1)|]. eapply Steps_step; [discriminate|exact E2|exact (VP_fl _ _ _ _ V2)|].
        eapply Steps_step; [discriminate|exact E3|exact (VP_fl _ _ _ _ V3)|exact St].
      * cbn [t_outs t_arg app rev]. rewrite <- !app_assoc. cbn [app]. exact V'.
  - destruct Ho as (Hw1 & Ha & Hw2). unfold k_output in HV. cbn [app] in HV.
    destruct (fwd_rparen l wd _ o SOutputOp HV Hwd (RT_output _)) as (l1 & E1 & V1).
    rewrite <- !app_assoc in V1. rewrite r_args_text in V1.
    destruct (disp_output l1 w1 _ _ V1 Hw1 (HO_lp _)) as (s2 & l2 & E2 & D2).
    destruct (Disp_byte_inv _ _ _ _ 40 _ D2 eq_refl ltac:(lia) eq_refl) as (_ & _ & H40 & _). destruct (H40 eq_refl) as [-> V2].
    rewrite <- r_args_text in V2.
    destruct (args_fwd args _ l2 _ V2 Ha) as (l3 & St3 & V3).
    rewrite Eb in V3. destruct (fwd_rparen l3 w2 _ _ SLeftBrace V3 Hw2 (RT_lbrace _)) as (l4 & E4 & V4). rewrite <- Eb in V4.
    destruct (fwd_body body R l4 _ V4 Hb HN) as (l' & St & V'). exists l'. split.
    + eapply Steps_step; [discriminate|exact E1|exact (VP_fl _ _ _ _ V1)|]. eapply Steps_step; [discriminate|exact E2|exact (VP_fl _ _ _ _ V2)|].
      eapply Steps_trans; [exact St3|]. eapply Steps_step; [discriminate|exact E4|exact (VP_fl _ _ _ _ V4)|exact St].
    + cbn [t_outs]. rewrite t_args_eq. lnorm_in V'. lnorm. exact V'.
Qed.

(* ---- statements ---- *)
(* what the text after a statement and its gap can be: nothing, a comment/docstring, or an identifier (a name or "task") *)
Definition SS (REST : bytes) : Prop :=
  REST = [] \/ (exists t, REST = 35 :: t) \/ (exists r w, decode REST = (r, w) /\ is_ident r = true).

Definition AtStmt (REST : bytes) (o : list tv) (s : st) (l : lx) : Prop :=
  (s = SStart /\ exists g, WS g /\ VP l [] (g ++ REST) o) \/ (s = SHash /\ (exists t, REST = 35 :: t) /\ VP l [] REST o).

Lemma AtStmt_fl REST o s l : AtStmt REST o s l -> fl l = FOk.
Proof. intros [(_ & g & _ & V)|(_ & _ & V)]; exact (VP_fl _ _ _ _ V). Qed.

Lemma SS_first REST : SS REST -> REST = [] \/ exists b t, REST = b :: t /\ b <> 123 /\ b <> 125 /\ b <> 10.
Proof.
  intros [->|[(t & ->)|(r & w & Ed & Hr)]]; [left; reflexivity|right; exists 35, t; repeat split; discriminate|].
  destruct REST as [|b t]; [left; reflexivity|]. right. exists b, t. split; [reflexivity|].
  assert (H : forall c, is_ident c = false -> c < 128 -> b <> c).
  { intros c Hc Hlt ->. rewrite decode_ascii_cons in Ed by exact Hlt. injection Ed as <- _. congruence. }
  repeat split; apply H; try reflexivity; lia.
Qed.

Lemma NoBr_gap g REST : WS g -> SS REST -> NoBr (g ++ REST).
Proof.
  intros Hg Hs. destruct g as [|b g].
  - cbn [app]. destruct (SS_first REST Hs) as [->|(b & t & -> & H1 & H2 & _)]; [exact I|]. cbn [NoBr].
    destruct b as [|pb]; [exact I|]. repeat (destruct pb as [pb|pb|]; try exact I); congruence.
  - unfold WS in Hg. cbn [forallb] in Hg. apply andb_prop in Hg. destruct Hg as [Hb _]. cbn [app NoBr].
    destruct b as [|pb]; [exact I|]. repeat (destruct pb as [pb|pb|]; try exact I); discriminate.
Qed.

Lemma to_hash T o s l : AtStmt (35 :: T) o s l -> exists l', Steps s l SHash l' /\ VP l' [] (35 :: T) o.
Proof.
  intros [(-> & g & Hg & V)|(-> & _ & V)].
  - destruct (fwd_start_hash l g T o V Hg) as (l' & E & V'). exists l'. split; [apply Steps_one; [discriminate|exact E|exact (VP_fl _ _ _ _ V')]|exact V'].
  - exists l. split; [constructor|exact V].
Qed.

Lemma at_start REST o s l r w : AtStmt REST o s l -> decode REST = (r, w) -> is_ident r = true ->
  s = SStart /\ exists g, WS g /\ VP l [] (g ++ REST) o.
Proof.
  intros [H|(_ & (t & ->) & _)] Ed Hr; [exact H|]. rewrite decode_ascii_cons in Ed by lia. injection Ed as <- _. vm_compute in Hr. discriminate.
Qed.

(* after the ")" that ends a statement *)
Lemma rparen_end l g REST o : VP l [] (41 :: g ++ REST) o -> WS g -> SS REST ->
  exists s' l', step SRightParen l = (s', l') /\ AtStmt REST ((RPAREN, [41]) :: o) s' l'.
Proof.
  intros HV Hg [->|[(t & ->)|(r & w & Ed & Hr)]].
  - destruct (fwd_rparen l g [] o SStart HV Hg RT_eof) as (l' & E & V'). exists SStart, l'. split; [exact E|]. left. split; [reflexivity|]. exists []. split; [reflexivity|exact V'].
  - destruct (fwd_rparen l g _ o SHash HV Hg (RT_hash t)) as (l' & E & V'). exists SHash, l'. split; [exact E|]. right. split; [reflexivity|]. split; [eauto|exact V'].
  - destruct (fwd_rparen l g _ o SStart HV Hg (RT_ident REST r w Ed Hr)) as (l' & E & V'). exists SStart, l'. split; [exact E|]. left. split; [reflexivity|]. exists []. split; [reflexivity|exact V'].
Qed.

Definition gap_eol (g REST : bytes) : Prop := WS g /\ (eol_start g = true \/ (g = [] /\ REST = [])).

Lemma eol_start_app g x : eol_start g = true -> eol_start (g ++ x) = true.
Proof.
  unfold eol_start, no_eol_start. destruct g as [|b g]; [discriminate|]. cbn [app].
  destruct b as [|pb]; [auto|]. repeat (destruct pb as [pb|pb|]; auto).
  destruct g as [|c g]; [discriminate|]. cbn [app]. auto.
Qed.

Lemma gap_eol_or_eof g REST : gap_eol g REST -> eol_or_eof (g ++ REST).
Proof. intros [_ [H|[-> ->]]]; [right; apply eol_start_app; exact H|left; reflexivity]. Qed.

Definition name_ok (n : bytes) : Prop := Ident n /\ n <> [] /\ bytes_eqb n k_task = false.

Lemma bytes_eqb_neq a b : bytes_eqb a b = false -> a <> b.
Proof.
  revert b. induction a as [|x a IH]; intros [|y b] H E; try discriminate.
  injection E as -> ->. cbn [bytes_eqb] in H. rewrite N.eqb_refl in H. cbn [andb] in H. exact (IH b H eq_refl).
Qed.

Definition comment_ok (text : bytes) : Prop := no_byte 10 text = true /\ last_not 13 text = true.

Definition stmt_wf (st : cstmt) (g REST : bytes) : Prop :=
  match st with
  | CComment text => comment_ok text /\ gap_eol g REST
  | CAssignS name w1 w2 s => name_ok name /\ WS w1 /\ WS w2 /\ Str s /\ gap_eol g REST
  | CAssignF name w1 w2 f w3 args => name_ok name /\ WS w1 /\ WS w2 /\ Ident f /\ f <> [] /\ WS w3 /\ cargs_ok args /\ WS g
  | CAssignI name w1 w2 i => name_ok name /\ WS w1 /\ WS w2 /\ Ident i /\ i <> [] /\ WS g /\ REST = []
  | CTask doc wt name wn deps wd outs body =>
    match doc with Some (d, w) => comment_ok d /\ d <> [] /\ WS w /\ eol_start w = true | None => True end /\
    WS wt /\ Ident name /\ (name <> [] -> wt <> []) /\ WS wn /\ cargs_ok deps /\ WS wd /\ outs_wf outs /\ body_ok body /\ WS g
  end.

(* the assignment prefix: NAME ws ":=" ws, up to the dispatch on the value *)
Lemma assign_prefix name w1 w2 rest REST o s l :
  AtStmt (name ++ w1 ++ k_declare ++ w2 ++ rest) o s l -> name_ok name -> WS w1 -> WS w2 -> HeadD rest -> REST = rest ->
  exists s' l', Steps s l s' l' /\ Disp rest ((DECLARE, k_declare) :: (IDENT, name) :: o) s' l'.
Proof.
  intros HA (Hid & Hne & Hk) Hw1 Hw2 Hh _.
  destruct (ident_first _ name (w1 ++ k_declare ++ w2 ++ rest) Hid Hne) as (r & w & Ed & _ & Hr & _).
  destruct (at_start _ _ _ _ r w HA Ed Hr) as (-> & g & Hg & V0).
  assert (Hnid : nid (w1 ++ k_declare ++ w2 ++ rest)) by (apply nid_ws; [exact Hw1|apply nid_cons; [lia|reflexivity]]).
  destruct (fwd_start_ident l g name _ o V0 Hg Hid Hne (bytes_eqb_neq _ _ Hk) Hnid) as (l1 & E1 & V1).
  unfold Ident in Hid.
  destruct (fwd_ident l1 [] name w1 _ o SDeclare V1 Hid Hw1 ltac:(cbn [rev app]; apply IT_declare; exact Hk)) as (l2 & E2 & V2). cbn [rev app] in V2.
  destruct (disp_declare l2 w2 rest _ V2 Hw2 Hh) as (s3 & l3 & E3 & D3).
  exists s3, l3. split; [|exact D3].
  eapply Steps_step; [discriminate|exact E1|exact (VP_fl _ _ _ _ V1)|]. eapply Steps_step; [discriminate|exact E2|exact (VP_fl _ _ _ _ V2)|].
  apply Steps_one; [discriminate|exact E3|exact (Disp_fl _ _ _ _ D3)].
Qed.

Lemma stmt_fwd st g REST o s l : AtStmt (r_stmt st ++ g ++ REST) o s l -> stmt_wf st g REST -> SS REST ->
  exists s' l', Steps s l s' l' /\ AtStmt REST (rev (t_stmt st) ++ o) s' l'.
Proof.
  intros HA Hwf HS. destruct st as [text|name w1 w2 str|name w1 w2 f w3 args|name w1 w2 i|doc wt name wn deps wd outs body]; cbn [r_stmt stmt_wf t_stmt] in *.
  - (* comment *)
    destruct Hwf as [[H10 H13] Hg]. cbn [app] in HA. rewrite <- ?app_assoc in HA.
    destruct (to_hash _ _ _ _ HA) as (l1 & St1 & V1). destruct (fwd_hash l1 _ _ V1) as (l2 & E2 & V2).
    destruct (fwd_comment l2 text _ _ V2 H10 H13 (gap_eol_or_eof _ _ Hg)) as (l3 & E3 & V3).
    exists SStart, l3. split.
    + eapply Steps_trans; [exact St1|]. eapply Steps_step; [discriminate|exact E2|exact (VP_fl _ _ _ _ V2)|]. apply Steps_one; [discriminate|exact E3|exact (VP_fl _ _ _ _ V3)].
    + left. split; [reflexivity|]. exists g. split; [apply Hg|exact V3].
  - (* NAME := "string" *)
    destruct Hwf as (Hn & Hw1 & Hw2 & Hs & Hg). rewrite <- ?app_assoc in HA. unfold b_quote in HA at 1. cbn [app] in HA.
    destruct (assign_prefix name w1 w2 _ _ o s l HA Hn Hw1 Hw2 (HD_str _) eq_refl) as (s1 & l1 & St1 & D1).
    destruct (Disp_byte_inv _ _ _ _ 34 _ D1 eq_refl ltac:(lia) eq_refl) as (H34 & _). destruct (H34 eq_refl) as [-> V1].
    unfold b_quote in V1. cbn [app] in V1.
    destruct (fwd_string l1 str _ _ V1 Hs) as (l2 & E2 & V2).
    assert (Ha : after_string (g ++ REST) = SStart).
    { unfold after_string. destruct (gap_eol_or_eof _ _ Hg) as [->|He]; [reflexivity|]. destruct (g ++ REST); [reflexivity|]. rewrite (eol_start_eolb _ He). reflexivity. }
    rewrite Ha in E2. exists SStart, l2. split.
    + eapply Steps_trans; [exact St1|]. apply Steps_one; [discriminate|exact E2|exact (VP_fl _ _ _ _ V2)].
    + left. split; [reflexivity|]. exists g. split; [apply Hg|]. cbn [rev app]. exact V2.
  - (* NAME := f(args) *)
    destruct Hwf as (Hn & Hw1 & Hw2 & Hf & Hfne & Hw3 & Ha & Hg). rewrite <- ?app_assoc in HA.
    destruct (ident_first _ f (w3 ++ r_args args ++ g ++ REST) Hf Hfne) as (r & w & Ed & Edn & Hr & Hw).
    destruct (assign_prefix name w1 w2 _ _ o s l HA Hn Hw1 Hw2 (HD_id _ r w Ed Hr) eq_refl) as (s1 & l1 & St1 & D1).
    destruct (Disp_id_inv _ _ _ _ r w D1 Ed Hr) as [-> V1].
    assert (F : firstn w (f ++ w3 ++ r_args args ++ g ++ REST) = firstn w f) by (rewrite firstn_app; replace (w - length f)%nat with 0%nat by lia; cbn [firstn]; apply app_nil_r).
    assert (K : skipn w (f ++ w3 ++ r_args args ++ g ++ REST) = skipn w f ++ w3 ++ r_args args ++ g ++ REST) by (rewrite skipn_app; replace (w - length f)%nat with 0%nat by lia; reflexivity).
    rewrite F, K in V1.
    assert (Hnm : rev (rev (firstn w f)) ++ skipn w f = f) by (rewrite rev_involutive; apply firstn_skipn).
    assert (Hrunes : ident_runes (S (length (skipn w f))) (skipn w f) = true).
    { unfold Ident in Hf. destruct (ident_runes_step _ f Hfne Hf) as (r' & w' & Ed' & _ & _ & Hrest). rewrite Edn in Ed'. injection Ed' as <- <-.
      apply (ident_runes_min _ _ Hrest). }
    rewrite r_args_text in V1.
    destruct (fwd_ident l1 _ (skipn w f) w3 _ _ SLeftParen V1 Hrunes Hw3 ltac:(rewrite Hnm; apply IT_lparen)) as (l2 & E2 & V2). rewrite Hnm, <- r_args_text in V2.
    destruct (args_fwd args _ l2 _ V2 Ha) as (l3 & St3 & V3).
    destruct (rparen_end l3 g REST _ V3 Hg HS) as (s4 & l4 & E4 & A4).
    exists s4, l4. split.
    + eapply Steps_trans; [exact St1|]. eapply Steps_step; [discriminate|exact E2|exact (VP_fl _ _ _ _ V2)|].
      eapply Steps_trans; [exact St3|]. apply Steps_one; [discriminate|exact E4|exact (AtStmt_fl _ _ _ _ A4)].
    + rewrite t_args_eq. lnorm. destruct A4 as [(-> & g4 & Hg4 & V4)|(-> & Ht & V4)]; [left|right]; (split; [reflexivity|]).
      * exists g4. split; [exact Hg4|]. lnorm_in V4. exact V4.
      * split; [exact Ht|]. lnorm_in V4. exact V4.
  - (* NAME := ident, only as the last statement *)
    destruct Hwf as (Hn & Hw1 & Hw2 & Hi & Hine & Hg & ->). rewrite <- ?app_assoc in HA. rewrite app_nil_r in HA.
    destruct (ident_first _ i g Hi Hine) as (r & w & Ed & Edn & Hr & Hw).
    destruct (assign_prefix name w1 w2 _ _ o s l HA Hn Hw1 Hw2 (HD_id _ r w Ed Hr) eq_refl) as (s1 & l1 & St1 & D1).
    destruct (Disp_id_inv _ _ _ _ r w D1 Ed Hr) as [-> V1].
    assert (F : firstn w (i ++ g) = firstn w i) by (rewrite firstn_app; replace (w - length i)%nat with 0%nat by lia; cbn [firstn]; apply app_nil_r).
    assert (K : skipn w (i ++ g) = skipn w i ++ g) by (rewrite skipn_app; replace (w - length i)%nat with 0%nat by lia; reflexivity).
    rewrite F, K in V1.
    assert (Hnm : rev (rev (firstn w i)) ++ skipn w i = i) by (rewrite rev_involutive; apply firstn_skipn).
    assert (Hrunes : ident_runes (S (length (skipn w i))) (skipn w i) = true).
    { unfold Ident in Hi. destruct (ident_runes_step _ i Hine Hi) as (r' & w' & Ed' & _ & _ & Hrest). rewrite Edn in Ed'. injection Ed' as <- <-.
      apply (ident_runes_min _ _ Hrest). }
    rewrite <- (app_nil_r g) in V1.
    destruct (fwd_ident l1 _ (skipn w i) g [] _ SStart V1 Hrunes Hg ltac:(rewrite Hnm; apply IT_eof)) as (l2 & E2 & V2). rewrite Hnm in V2.
    exists SStart, l2. split.
    + eapply Steps_trans; [exact St1|]. apply Steps_one; [discriminate|exact E2|exact (VP_fl _ _ _ _ V2)].
    + left. split; [reflexivity|]. exists []. split; [reflexivity|]. cbn [rev app]. exact V2.
  - (* task *)
    destruct Hwf as (Hdoc & Hwt & Hname & Hwtne & Hwn & Hdeps & Hwd & Houts & Hbody & Hg).
    (* first the docstring, if any, then arrive at the keyword *)
    assert (Hkw : exists s1 l1 g1, Steps s l s1 l1 /\ s1 = SStart /\ WS g1 /\
              VP l1 [] (g1 ++ k_task ++ wt ++ name ++ wn ++ r_args deps ++ wd ++ r_outs outs ++ r_body body ++ g ++ REST)
                 (rev (match doc with Some (d, _) => [(HASH, [35]); (COMMENT, d)] | None => [] end) ++ o)).
    { destruct doc as [[d w]|].
      - destruct Hdoc as ([H10 H13] & Hdne & Hw & He). cbn [app] in HA. rewrite <- ?app_assoc in HA.
        destruct (to_hash _ _ _ _ HA) as (l1 & St1 & V1). destruct (fwd_hash l1 _ _ V1) as (l2 & E2 & V2).
        destruct (fwd_comment l2 d _ _ V2 H10 H13 ltac:(right; apply eol_start_app; exact He)) as (l3 & E3 & V3).
        exists SStart, l3, w. split; [|split; [reflexivity|split; [exact Hw|cbn [rev app]; exact V3]]].
        eapply Steps_trans; [exact St1|]. eapply Steps_step; [discriminate|exact E2|exact (VP_fl _ _ _ _ V2)|]. apply Steps_one; [discriminate|exact E3|exact (VP_fl _ _ _ _ V3)].
      - cbn [app] in HA. rewrite <- ?app_assoc in HA.
        destruct (at_start _ _ _ _ 116 1%nat HA ltac:(reflexivity) ltac:(reflexivity)) as (-> & g1 & Hg1 & V1).
        exists SStart, l, g1. split; [constructor|]. split; [reflexivity|]. split; [exact Hg1|exact V1]. }
    destruct Hkw as (s1 & l1 & g1 & St1 & -> & Hg1 & V1).
    set (TAIL := r_args deps ++ wd ++ r_outs outs ++ r_body body ++ g ++ REST) in *.
    assert (HT : exists t', TAIL = 40 :: t') by (unfold TAIL; rewrite r_args_text; eauto). destruct HT as (t' & ET).
    assert (Hafter : nid (wt ++ name ++ wn ++ TAIL)).
    { destruct wt as [|c wt0].
      - destruct name as [|b0 name0]; [|exfalso; apply Hwtne; [discriminate|reflexivity]]. cbn [app]. apply nid_ws; [exact Hwn|]. rewrite ET. apply nid_cons; [lia|reflexivity].
      - unfold WS in Hwt. cbn [forallb] in Hwt. apply andb_prop in Hwt. destruct Hwt as [Hc _]. destruct (ws_byte_facts c Hc) as (A & _ & C). cbn [app]. apply nid_cons; assumption. }
    destruct (fwd_start_task l1 g1 _ _ V1 Hg1 Hafter) as (l2 & E2 & V2).
    assert (Hnm4 : exists l4, Steps STaskKeyword l2 SLeftParen l4 /\
              VP l4 [] TAIL ((IDENT, name) :: (TASK, k_task) :: rev (match doc with Some (d, _) => [(HASH, [35]); (COMMENT, d)] | None => [] end) ++ o)).
    { destruct name as [|b0 name0].
      - cbn [app] in V2. rewrite (app_assoc wt wn) in V2.
        destruct (fwd_taskkw l2 (wt ++ wn) TAIL _ V2 (WS_app _ _ Hwt Hwn) ltac:(rewrite ET; apply ns_cons; [lia|reflexivity])) as (l3 & E3 & V3).
        rewrite ET in V3. destruct (fwd_taskname l3 [] [] t' _ V3 eq_refl WS_nil) as (l4 & E4 & V4). rewrite <- ET in V4.
        exists l4. split; [|exact V4]. eapply Steps_step; [discriminate|exact E3|exact (VP_fl _ _ _ _ V3)|]. apply Steps_one; [discriminate|exact E4|exact (VP_fl _ _ _ _ V4)].
      - destruct (ident_first _ (b0 :: name0) (wn ++ TAIL) Hname ltac:(discriminate)) as (r & w & Ed & _ & Hr & _).
        destruct (fwd_taskkw l2 wt ((b0 :: name0) ++ wn ++ TAIL) _ V2 Hwt ltac:(apply ident_ns; rewrite Ed; exact Hr)) as (l3 & E3 & V3).
        rewrite ET in V3. destruct (fwd_taskname l3 (b0 :: name0) wn t' _ V3 Hname Hwn) as (l4 & E4 & V4). rewrite <- ET in V4.
        exists l4. split; [|exact V4]. eapply Steps_step; [discriminate|exact E3|exact (VP_fl _ _ _ _ V3)|]. apply Steps_one; [discriminate|exact E4|exact (VP_fl _ _ _ _ V4)]. }
    destruct Hnm4 as (l4 & St4 & V4). unfold TAIL in V4.
    destruct (args_fwd deps _ l4 _ V4 Hdeps) as (l5 & St5 & V5).
    destruct (task_tail_fwd wd outs body (g ++ REST) l5 _ V5 Hwd Houts Hbody (NoBr_gap g REST Hg HS)) as (l6 & St6 & V6).
    exists SStart, l6. split.
    + eapply Steps_trans; [exact St1|]. eapply Steps_step; [discriminate|exact E2|exact (VP_fl _ _ _ _ V2)|].
      eapply Steps_trans; [exact St4|]. eapply Steps_trans; [exact St5|exact St6].
    + left. split; [reflexivity|]. exists g. split; [exact Hg|]. rewrite t_args_eq. lnorm_in V6. lnorm. 
      destruct doc as [[d wdoc]|]; lnorm_in V6; lnorm; exact V6.
Qed.

(* ---- whole files ---- *)
Definition stmts_text (l : list (cstmt * ws)) : bytes := concat (map (fun sg => r_stmt (fst sg) ++ snd sg) l).
Fixpoint stmts_wf (l : list (cstmt * ws)) : Prop :=
  match l with [] => True | (st, g) :: tl => stmt_wf st g (stmts_text tl) /\ stmts_wf tl end.

Lemma stmts_SS l : stmts_wf l -> SS (stmts_text l).
Proof.
  destruct l as [|[st g] tl]; [left; reflexivity|]. intros [H _]. unfold stmts_text. cbn [map concat fst snd]. fold (stmts_text tl).
  destruct st as [text|name w1 w2 str|name w1 w2 f w3 args|name w1 w2 i|doc wt name wn deps wd outs body]; cbn [r_stmt stmt_wf] in *.
  - right. left. cbn [app]. eauto.
  - destruct H as ((Hid & Hne & _) & _). right. right. rewrite <- !app_assoc.
    destruct (ident_first _ name (w1 ++ k_declare ++ w2 ++ b_quote ++ str ++ b_quote ++ g ++ stmts_text tl) Hid Hne) as (r & w & Ed & _ & Hr & _). eauto.
  - destruct H as ((Hid & Hne & _) & _). right. right. rewrite <- !app_assoc.
    destruct (ident_first _ name (w1 ++ k_declare ++ w2 ++ f ++ w3 ++ r_args args ++ g ++ stmts_text tl) Hid Hne) as (r & w & Ed & _ & Hr & _). eauto.
  - destruct H as ((Hid & Hne & _) & _). right. right. rewrite <- !app_assoc.
    destruct (ident_first _ name (w1 ++ k_declare ++ w2 ++ i ++ g ++ stmts_text tl) Hid Hne) as (r & w & Ed & _ & Hr & _). eauto.
  - destruct doc as [[d w]|]; right; [left|right]; cbn [app]; rewrite <- ?app_assoc; [eauto|]. exists 116, 1%nat. split; reflexivity.
Qed.

Lemma file_fwd : forall stmts s l o, AtStmt (stmts_text stmts) o s l -> stmts_wf stmts ->
  exists l', Steps s l SDone l' /\ VP l' [] [] ((EOF, []) :: rev (concat (map (fun sg => t_stmt (fst sg)) stmts)) ++ o).
Proof.
  induction stmts as [|[st g] tl IH]; intros s l o HA Hwf.
  - destruct HA as [(-> & g & Hg & V)|(_ & (t & E) & _)]; [|discriminate]. unfold stmts_text in V. cbn [map concat] in V. rewrite app_nil_r in V.
    destruct (fwd_start_eof l g o V Hg) as (l' & E & V'). exists l'. split; [apply Steps_one; [discriminate|exact E|exact (VP_fl _ _ _ _ V')]|exact V'].
  - destruct Hwf as [Hst Htl]. unfold stmts_text in HA. cbn [map concat fst snd] in HA. fold (stmts_text tl) in HA. rewrite <- app_assoc in HA.
    destruct (stmt_fwd st g (stmts_text tl) o s l HA Hst (stmts_SS tl Htl)) as (s1 & l1 & St1 & A1).
    destruct (IH s1 l1 _ A1 Htl) as (l' & St' & V'). exists l'. split; [eapply Steps_trans; eassumption|].
    cbn [map concat fst]. rewrite rev_app_distr, <- app_assoc. exact V'.
Qed.

Definition file_wf (f : cfile) : Prop := WS (fst f) /\ stmts_wf (snd f).

(* the lexer on a rendered file produces exactly the expected (kind, text) pairs, ending in EOF, without fault *)
Theorem lex_render (f : cfile) : file_wf f ->
  fst (lex (render f)) = FOk /\ map tv_of (snd (lex (render f))) = toks f.
Proof.
  intros [Hws Hst]. destruct (lex_tiles (render f)) as [Hfl _]. split; [exact Hfl|].
  unfold lex in *. cbn [fst snd] in *.
  assert (V0 : VP (init (render f)) [] (render f) []).
  { split; [reflexivity|]. split; [reflexivity|]. split; [reflexivity|]. exists [], 0%nat, 0%nat. apply init_inv. }
  assert (A0 : AtStmt (stmts_text (snd f)) [] SStart (init (render f))).
  { left. split; [reflexivity|]. exists (fst f). split; [exact Hws|exact V0]. }
  destruct (file_fwd (snd f) SStart _ [] A0 Hst) as (l' & St & V').
  rewrite (run_steps SStart _ l' St _ Hfl). destruct V' as (_ & _ & Ho & _).
  rewrite map_rev, Ho. cbn [rev]. rewrite app_nil_r, rev_involutive. reflexivity.
Qed.
