(* Model of task selection in /repo/file/file.go: file.New's duplicate check, SpokFile.buildGraph
   (recursive addDependencies), dag.Graph.Sort (Kahn's algorithm, with Go's map/set iteration order
   as an explicit oracle `pick`), and the length check in SpokFile.Run.  Task names are nat. *)
From Spok Require Import Base.
Open Scope nat_scope.

Definition name := nat.
Definition defs := list (name * list name).       (* task definitions in file order: (name, task dependencies) *)

Fixpoint mem (x : name) (l : list name) : bool :=
  match l with [] => false | y :: t => Nat.eqb x y || mem x t end.

Fixpoint lookup (ds : defs) (n : name) : option (list name) :=
  match ds with
  | [] => None
  | (m, deps) :: t => if Nat.eqb n m then Some deps else lookup t n
  end.

Fixpoint has_dup (l : list name) : bool :=
  match l with [] => false | x :: t => mem x t || has_dup t end.

Inductive gerr := EUndefinedRequested (n : name) | EUndefinedDep (t d : name) | EDuplicate | ECycle | EOutOfFuel.

(* dag.Graph: vertices in insertion order (the map's keys), edges parent -> child *)
Record graph := { verts : list name; edges : list (name * name) }.

Inductive res (A : Type) := GOk (a : A) | GErr (e : gerr).
Arguments GOk {A}. Arguments GErr {A}.

(* the `for _, dep := range currentTask.TaskDependencies` loop of addDependencies, `rec` being the recursive call *)
Definition go_deps (rec : graph -> name -> res graph) (ds : defs) (t : name) : list name -> graph -> res graph :=
  fix go (l : list name) (g : graph) : res graph :=
    match l with
    | [] => GOk g
    | d :: rest =>
      match lookup ds d with
      | None => GErr (EUndefinedDep t d)
      | Some _ =>
        let isNew := negb (mem d (verts g)) in
        let g1 := {| verts := if isNew then verts g ++ [d] else verts g; edges := edges g ++ [(d, t)] |} in
        if isNew then
          match rec g1 d with
          | GOk g2 => go rest g2
          | GErr e => GErr e
          end
        else go rest g1
      end
    end.

(* addDependencies(name): name is already a vertex *)
Fixpoint add_deps (fuel : nat) (ds : defs) (g : graph) (t : name) : res graph :=
  match fuel with
  | O => GErr EOutOfFuel
  | S f =>
    match lookup ds t with
    | None => GOk g                      (* unreachable: callers only pass defined names *)
    | Some deps => go_deps (fun g' d => add_deps f ds g' d) ds t deps g
    end
  end.

Fixpoint build_graph_loop (ds : defs) (req : list name) (g : graph) : res graph :=
  match req with
  | [] => GOk g
  | n :: rest =>
    match lookup ds n with
    | None => GErr (EUndefinedRequested n)
    | Some _ =>
      if mem n (verts g) then build_graph_loop ds rest g
      else
        match add_deps (S (length ds)) ds {| verts := verts g ++ [n]; edges := edges g |} n with
        | GOk g1 => build_graph_loop ds rest g1
        | GErr e => GErr e
        end
    end
  end.

Definition build_graph (ds : defs) (req : list name) : res graph :=
  build_graph_loop ds req {| verts := []; edges := [] |}.

(* the sets kept by dag.vertex *)
Fixpoint dedup (l : list name) : list name :=
  match l with [] => [] | x :: t => if mem x t then dedup t else x :: dedup t end.
Definition parents_of (g : graph) (c : name) : list name :=
  dedup (map fst (filter (fun e => Nat.eqb (snd e) c) (edges g))).
Definition children_of (g : graph) (v : name) : list name :=
  dedup (map snd (filter (fun e => Nat.eqb (fst e) v) (edges g))).

Fixpoint remove_n (x : name) (l : list name) : list name :=
  match l with [] => [] | y :: t => if Nat.eqb x y then remove_n x t else y :: remove_n x t end.

Section Kahn.
(* Go iterates maps and sets in an unspecified order: `pick k l` is the order in which the k-th
   iteration visits the elements l.  The theorems assume only that it is a permutation of l. *)
Variable pick : nat -> list name -> list name.

(* the `for child := range vert.children.Items()` loop *)
Fixpoint visit_children (v : name) (cs : list name) (rem : name -> list name) (newq : list name)
  : (name -> list name) * list name :=
  match cs with
  | [] => (rem, newq)
  | c :: rest =>
    let rc := remove_n v (rem c) in
    let rem' := fun x => if Nat.eqb x c then rc else rem x in
    visit_children v rest rem' (match rc with [] => newq ++ [c] | _ => newq end)
  end.

Fixpoint kahn_loop (fuel : nat) (g : graph) (k : nat) (rem : name -> list name) (queue result : list name) : res (list name) :=
  match queue with
  | [] => GOk result
  | v :: q =>
    match fuel with
    | O => GErr EOutOfFuel
    | S f =>
      let '(rem', newq) := visit_children v (pick k (children_of g v)) rem [] in
      kahn_loop f g (S k) rem' (q ++ newq) (result ++ [v])
    end
  end.

(* dag.Graph.Sort *)
Definition kahn (g : graph) : res (list name) :=
  let q0 := filter (fun v => match parents_of g v with [] => true | _ => false end) (pick 0 (verts g)) in
  match q0 with
  | [] => GErr ECycle                      (* "graph contains a cycle and cannot be sorted" *)
  | _ => kahn_loop (S (length (verts g))) g 1 (parents_of g) q0 []
  end.

(* file.New (duplicate definitions) followed by SpokFile.Run up to the run order *)
Definition run_order (ds : defs) (req : list name) : res (list name) :=
  if has_dup (map fst ds) then GErr EDuplicate
  else
    match build_graph ds req with
    | GErr e => GErr e
    | GOk g =>
      match kahn g with
      | GErr e => GErr e
      | GOk o => if Nat.eqb (length o) (length (verts g)) then GOk o else GErr ECycle
      end
    end.
End Kahn.

(* ---- the specification side: reachability and valid orders, as executable checkers ---- *)

Fixpoint index_of (x : name) (l : list name) : option nat :=
  match l with
  | [] => None
  | y :: t => if Nat.eqb x y then Some 0 else match index_of x t with Some i => Some (S i) | None => None end
  end.

Definition before (o : list name) (d t : name) : bool :=
  match index_of d o, index_of t o with
  | Some i, Some j => Nat.ltb i j
  | _, _ => false
  end.

Definition same_set (a b : list name) : bool := forallb (fun x => mem x b) a && forallb (fun x => mem x a) b.

(* is `o` an execution order that C03 allows for the requested tasks? each selected task exactly once,
   exactly the tasks of `sel`, every dependency strictly before its dependant *)
Definition valid_order (ds : defs) (sel o : list name) : bool :=
  negb (has_dup o) && same_set o sel &&
  forallb (fun t => match lookup ds t with
                    | Some deps => forallb (fun d => before o d t) deps
                    | None => false
                    end) o.

(* when a command failed spok may (in principle) stop early: what still ran must be duplicate-free, selected,
   and no task may have run unless all its dependencies ran before it *)
Definition valid_partial (ds : defs) (sel o : list name) : bool :=
  negb (has_dup o) && forallb (fun x => mem x sel) o &&
  forallb (fun t => match lookup ds t with
                    | Some deps => forallb (fun d => before o d t) deps
                    | None => false
                    end) o.

