From Coq Require Export List NArith Arith Lia Bool.
Export ListNotations.
From Spok Require Export UnicodeTables.
Open Scope N_scope.

(* bytes are N < 256; strings are list N *)
Definition bytes := list N.

Definition RuneError : N := 65533.

Definition inr (lo hi x : N) : bool := (lo <=? x) && (x <=? hi).

(* utf8.DecodeRuneInString *)
Definition decode (s : bytes) : N * nat :=
  match s with
  | [] => (RuneError, 0%nat)
  | s0 :: t =>
    if s0 <? 128 then (s0, 1%nat)
    else if s0 <? 194 then (RuneError, 1%nat)            (* 0x80..0xC1 *)
    else if s0 <? 224 then                                (* 0xC2..0xDF : 2 bytes, 80..BF *)
      match t with
      | s1 :: _ => if inr 128 191 s1 then ((s0 mod 32) * 64 + (s1 mod 64), 2%nat) else (RuneError, 1%nat)
      | _ => (RuneError, 1%nat)
      end
    else if s0 <? 240 then                                (* 0xE0..0xEF : 3 bytes *)
      let lo := if s0 =? 224 then 160 else 128 in
      let hi := if s0 =? 237 then 159 else 191 in
      match t with
      | s1 :: s2 :: _ =>
        if inr lo hi s1 then
          if inr 128 191 s2 then ((s0 mod 16) * 4096 + (s1 mod 64) * 64 + (s2 mod 64), 3%nat)
          else (RuneError, 1%nat)
        else (RuneError, 1%nat)
      | _ => (RuneError, 1%nat)
      end
    else if s0 <? 245 then                                (* 0xF0..0xF4 : 4 bytes *)
      let lo := if s0 =? 240 then 144 else 128 in
      let hi := if s0 =? 244 then 143 else 191 in
      match t with
      | s1 :: s2 :: s3 :: _ =>
        if inr lo hi s1 then
          if inr 128 191 s2 then
            if inr 128 191 s3 then
              ((s0 mod 8) * 262144 + (s1 mod 64) * 4096 + (s2 mod 64) * 64 + (s3 mod 64), 4%nat)
            else (RuneError, 1%nat)
          else (RuneError, 1%nat)
        else (RuneError, 1%nat)
      | _ => (RuneError, 1%nat)
      end
    else (RuneError, 1%nat)
  end.

(* unicode.IsSpace *)
Definition is_space (r : N) : bool :=
  inr 9 13 r || (r =? 32) || (r =? 133) || (r =? 160) || (r =? 5760) || inr 8192 8202 r
  || (r =? 8232) || (r =? 8233) || (r =? 8239) || (r =? 8287) || (r =? 12288).

(* unicode.IsLetter / unicode.IsPunct: range tables generated from the Go toolchain (UnicodeTables.v) *)
Definition in_range3 (r : N) (t : N * N * N) : bool :=
  let '(lo, hi, stride) := t in (lo <=? r) && (r <=? hi) && ((r - lo) mod stride =? 0).
Definition in_table (tbl : list (N * N * N)) (r : N) : bool := existsb (in_range3 r) tbl.
Definition is_letter (r : N) : bool :=
  if r <? 128 then inr 65 90 r || inr 97 122 r else in_table letter_table r.
Definition is_punct (r : N) : bool := in_table punct_table r.

Definition is_ident (r : N) : bool := is_letter r || (r =? 95).

Fixpoint has_prefix (p s : bytes) : bool :=
  match p, s with
  | [], _ => true
  | a :: p', b :: s' => (a =? b) && has_prefix p' s'
  | _ :: _, [] => false
  end.

Fixpoint bytes_eqb (a b : bytes) : bool :=
  match a, b with
  | [], [] => true
  | x :: a', y :: b' => (x =? y) && bytes_eqb a' b'
  | _, _ => false
  end.

Definition is_nil_b {A} (l : list A) : bool := match l with [] => true | _ => false end.

Definition hexdigit (n : N) : N := if n <? 10 then 48 + n else 87 + n.
Definition hex_encode (bs : bytes) : bytes := concat (map (fun b => [hexdigit (b / 16); hexdigit (b mod 16)]) bs).
