(* strings.TrimSpace as modelled in Lexer.v: what the formatter's comment printing relies on. *)
From Spok Require Import Base Lexer DecodeSpec LexInv LexSteps Cst LexFwd.
From Coq Require Import Lia.
Open Scope N_scope.

(* decoding looks at no more than the bytes of the rune it returns *)
Lemma decode_firstn s r w n : decode s = (r, w) -> (w <= n)%nat -> decode (firstn n s) = (r, w).
Proof.
  unfold decode. destruct s as [|s0 t]; [intros E _; rewrite firstn_nil; exact E|].
  destruct n as [|n]; [destruct (s0 <? 128); [intros E; injection E as _ <-; lia|]; destruct (s0 <? 194); [intros E; injection E as _ <-; lia|];
    repeat match goal with |- context [if ?c then _ else _] => destruct c | |- context [match ?x with _ => _ end] => destruct x end; intros E; injection E as _ <-; lia|].
  cbn [firstn]. destruct (s0 <? 128); [auto|]. destruct (s0 <? 194); [auto|].
  destruct (s0 <? 224).
  { destruct t as [|s1 t]; [rewrite firstn_nil; auto|]. destruct n as [|n]; cbn [firstn].
    - destruct (inr 128 191 s1); [intros E; injection E as _ <-; lia|auto].
    - auto. }
  destruct (s0 <? 240).
  { destruct t as [|s1 [|s2 t]]; try (destruct n; cbn [firstn]; auto; destruct n; cbn [firstn]; auto; fail).
    destruct n as [|[|n]]; cbn [firstn].
    - destruct (inr _ _ s1); [destruct (inr 128 191 s2); [intros E; injection E as _ <-; lia|auto]|auto].
    - destruct (inr _ _ s1); [destruct (inr 128 191 s2); [intros E; injection E as _ <-; lia|auto]|auto].
    - auto. }
  destruct (s0 <? 245).
  { destruct t as [|s1 [|s2 [|s3 t]]]; try (destruct n as [|[|[|n]]]; cbn [firstn]; auto; fail).
    destruct n as [|[|[|n]]]; cbn [firstn]; try auto;
      (destruct (inr _ _ s1); [destruct (inr 128 191 s2); [destruct (inr 128 191 s3); [intros E; injection E as _ <-; lia|auto]|auto]|auto]). }
  auto.
Qed.

Lemma firstn_add {A} (a b : nat) (l : list A) : firstn (a + b) l = firstn a l ++ firstn b (skipn a l).
Proof. revert l. induction a as [|a IH]; intros l; [reflexivity|]. destruct l as [|x l]; [cbn; rewrite firstn_nil; reflexivity|]. cbn. f_equal. apply IH. Qed.

Lemma decode_w_pos s r w : decode s = (r, w) -> s <> [] -> (0 < w <= length s)%nat.
Proof.
  intros Ed Hne. pose proof (decode_spec s) as D. rewrite Ed in D. destruct D as (_ & Dl & D0 & _). split; [|exact Dl].
  destruct w; [|lia]. destruct D0 as [D0 _]. specialize (D0 eq_refl). congruence.
Qed.
Lemma decode_w0 s r : decode s = (r, 0%nat) -> s = [].
Proof. intros Ed. pose proof (decode_spec s) as D. rewrite Ed in D. destruct D as (_ & _ & D0 & _). apply D0. reflexivity. Qed.

(* ---- trim_left ---- *)
Lemma trim_left_spec : forall f s, (length s < f)%nat ->
  exists j, trim_left f s = skipn j s /\ (trim_left f s = [] \/ is_space (fst (decode (trim_left f s))) = false).
Proof.
  induction f as [|f IH]; intros s Hf; [lia|]. cbn [trim_left]. destruct (decode s) as [r w] eqn:Ed.
  destruct (Nat.eqb w 0) eqn:Ew.
  - apply Nat.eqb_eq in Ew. subst w. apply decode_w0 in Ed. subst s. exists 0%nat. auto.
  - apply Nat.eqb_neq in Ew. destruct (is_space r) eqn:Er.
    + assert (Hne : s <> []) by (intros ->; cbn in Ed; injection Ed as _ <-; lia).
      destruct (decode_w_pos s r w Ed Hne) as [Hw0 Hw].
      destruct (IH (skipn w s) ltac:(rewrite skipn_length; lia)) as (j & Ej & Hj). exists (w + j)%nat. rewrite Ej, skipn_add in *. auto.
    + exists 0%nat. split; [reflexivity|]. right. rewrite Ed. exact Er.
Qed.

(* ---- keep_len on a fixed string S, scanning from offset off ---- *)
Definition EndsNS (S : bytes) (k : nat) : Prop :=
  k = 0%nat \/ exists a r w, (k = a + w)%nat /\ decode (skipn a S) = (r, w) /\ (w > 0)%nat /\ is_space r = false /\ (k <= length S)%nat.

Lemma keep_len_ends S : forall f off last, EndsNS S last ->
  EndsNS S (keep_len f (skipn off S) off last).
Proof.
  induction f as [|f IH]; intros off last HE; [exact HE|]. cbn [keep_len]. destruct (decode (skipn off S)) as [r w] eqn:Ed.
  destruct (Nat.eqb w 0) eqn:Ew; [exact HE|]. apply Nat.eqb_neq in Ew.
  assert (Hne : skipn off S <> []) by (intros E; rewrite E in Ed; cbn in Ed; injection Ed as _ <-; lia).
  destruct (decode_w_pos _ r w Ed Hne) as [Hw0 Hw]. rewrite skipn_length in Hw.
  rewrite skipn_add. destruct (is_space r) eqn:Er; apply IH; [exact HE|].
  right. exists off, r, w. repeat split; auto; lia.
Qed.

Lemma keep_len_ge : forall f s off last, (last <= off)%nat ->
  (last <= keep_len f s off last)%nat /\ (keep_len f s off last = last \/ (off < keep_len f s off last)%nat).
Proof.
  induction f as [|f IH]; intros s off last Hl; [cbn; auto|]. cbn [keep_len]. destruct (decode s) as [r w] eqn:Ed.
  destruct (Nat.eqb w 0) eqn:Ew; [auto|]. apply Nat.eqb_neq in Ew.
  destruct (is_space r).
  - destruct (IH (skipn w s) (off + w)%nat last ltac:(lia)) as [A [B|B]]; split; auto; right; lia.
  - destruct (IH (skipn w s) (off + w)%nat (off + w)%nat ltac:(lia)) as [A _]. split; [lia|right; lia].
Qed.

Lemma keep_len_fuel : forall f g s off last, (length s < f)%nat -> (length s < g)%nat -> keep_len f s off last = keep_len g s off last.
Proof.
  induction f as [|f IH]; intros g s off last Hf Hg; [lia|]. destruct g as [|g]; [lia|]. cbn [keep_len]. destruct (decode s) as [r w] eqn:Ed.
  destruct (Nat.eqb w 0) eqn:Ew; [reflexivity|]. apply Nat.eqb_neq in Ew.
  assert (Hne : s <> []) by (intros ->; cbn in Ed; injection Ed as _ <-; lia).
  destruct (decode_w_pos s r w Ed Hne) as [Hw0 Hw].
  assert (L : (length (skipn w s) < length s)%nat) by (rewrite skipn_length; lia).
  destruct (is_space r); apply IH; lia.
Qed.

(* scanning the kept prefix again keeps all of it *)
Lemma keep_len_firstn S : forall f off last, (last <= off)%nat ->
  let K := keep_len f (skipn off S) off last in
  keep_len f (skipn off (firstn K S)) off last = K.
Proof.
  induction f as [|f IH]; intros off last Hl; [reflexivity|]. cbn zeta. cbn [keep_len].
  destruct (decode (skipn off S)) as [r w] eqn:Ed.
  destruct (Nat.eqb w 0) eqn:Ew.
  - apply Nat.eqb_eq in Ew. subst w. apply decode_w0 in Ed.
    assert (E : skipn off (firstn last S) = []).
    { apply skipn_all2. rewrite firstn_length. lia. }
    rewrite E. reflexivity.
  - apply Nat.eqb_neq in Ew.
    assert (Hne : skipn off S <> []) by (intros E; rewrite E in Ed; cbn in Ed; injection Ed as _ <-; lia).
    destruct (decode_w_pos _ r w Ed Hne) as [Hw0 Hw]. rewrite skipn_length in Hw.
    rewrite skipn_add.
    assert (Hstep : forall last', (last' <= off + w)%nat -> (last' = last \/ last' = off + w)%nat ->
              let K := keep_len f (skipn (off + w) S) (off + w) last' in
              (K = last' /\ last' = last /\ (K <= off)%nat) \/ (off + w <= K)%nat).
    { intros last' Hl' Hc. cbn zeta. destruct (keep_len_ge f (skipn (off + w) S) (off + w)%nat last' Hl') as [A [B|B]].
      - destruct Hc as [->| ->]; [|right; lia]. destruct (Nat.le_gt_cases (keep_len f (skipn (off + w) S) (off + w) last) off); [left; auto|right].
        rewrite B in *. lia.
      - right. lia. }
    assert (Hcont : forall last' K, (last' <= off + w)%nat -> K = keep_len f (skipn (off + w) S) (off + w) last' -> (off + w <= K)%nat ->
              decode (skipn off (firstn K S)) = (r, w)).
    { intros last' K Hl' EK HK. rewrite skipn_firstn_comm. apply decode_firstn; [exact Ed|lia]. }
    destruct (is_space r) eqn:Er.
    + destruct (Hstep last ltac:(lia) ltac:(auto)) as [(A & _ & B)|B].
      * rewrite A. assert (E : skipn off (firstn last S) = []) by (apply skipn_all2; rewrite firstn_length; lia). rewrite E. reflexivity.
      * rewrite (Hcont last _ ltac:(lia) eq_refl B). assert (Nat.eqb w 0 = false) as -> by (apply Nat.eqb_neq; lia). rewrite Er.
        rewrite skipn_add. apply (IH (off + w)%nat last). lia.
    + destruct (Hstep (off + w)%nat ltac:(lia) ltac:(auto)) as [(A & B & _)|B]; [lia|].
      rewrite (Hcont (off + w)%nat _ ltac:(lia) eq_refl B). assert (Nat.eqb w 0 = false) as -> by (apply Nat.eqb_neq; lia). rewrite Er.
      rewrite skipn_add. apply (IH (off + w)%nat (off + w)%nat). lia.
Qed.

(* ---- trim ---- *)
Lemma no_byte_firstn b n s : no_byte b s = true -> no_byte b (firstn n s) = true.
Proof. revert s. induction n as [|n IH]; intros s H; [reflexivity|]. destruct s as [|x s]; [reflexivity|]. cbn [no_byte forallb firstn] in *. apply andb_prop in H. destruct H as [H1 H2]. rewrite H1. apply IH. exact H2. Qed.
Lemma no_byte_skipn' b n s : no_byte b s = true -> no_byte b (skipn n s) = true.
Proof. revert s. induction n as [|n IH]; intros s H; [exact H|]. destruct s as [|x s]; [reflexivity|]. cbn [skipn]. apply IH. cbn [no_byte forallb] in H. apply andb_prop in H. apply H. Qed.

Lemma trim_no_byte b x : no_byte b x = true -> no_byte b (trim x) = true.
Proof.
  intros H. unfold trim. destruct (trim_left_spec (S (length x)) x ltac:(lia)) as (j & Ej & _). rewrite Ej.
  apply no_byte_firstn. apply no_byte_skipn'. exact H.
Qed.

(* the last byte of a non-space rune is not an ASCII space character *)
Lemma EndsNS_last S k : EndsNS S k -> (k > 0)%nat ->
  exists a b, firstn k S = a ++ [b] /\ (128 <= b \/ is_space b = false).
Proof.
  intros [->|(a & r & w & -> & Ed & Hw & Hr & Hk)] Hk0; [lia|].
  rewrite firstn_add. pose proof (decode_spec (skipn a S)) as D. rewrite Ed in D. destruct D as (_ & Dl & _ & _ & _ & D1 & Dhi).
  destruct (firstn w (skipn a S)) as [|x xs] eqn:Ef using rev_ind.
  - apply (f_equal (@length N)) in Ef. rewrite firstn_length in Ef. cbn in Ef. lia.
  - clear IHxs. exists (firstn a S ++ xs), x. split; [rewrite app_assoc; reflexivity|].
    destruct (Nat.le_gt_cases 2 w) as [H2|H1].
    + left. specialize (Dhi H2). apply Forall_app in Dhi. destruct Dhi as [_ Dx]. inversion Dx. assumption.
    + assert (w = 1)%nat by lia. subst w. destruct (skipn a S) as [|c t] eqn:Es; [cbn in Dl; lia|]. cbn [firstn] in Ef.
      destruct xs; [|destruct xs; discriminate]. cbn in Ef. injection Ef as <-.
      destruct (N.lt_ge_cases c 128) as [Hc|Hc]; [|left; exact Hc]. right. destruct (D1 c t eq_refl Hc) as [-> _]. exact Hr.
Qed.

Lemma trim_K x : let s1 := trim_left (S (length x)) x in let K := keep_len (S (length s1)) s1 0 0 in
  trim x = firstn K s1 /\ (K <= length s1)%nat /\ EndsNS s1 K /\ (s1 = [] \/ is_space (fst (decode s1)) = false).
Proof.
  cbn zeta. split; [reflexivity|]. pose proof (keep_len_ends (trim_left (S (length x)) x) (S (length (trim_left (S (length x)) x))) 0 0 (or_introl eq_refl)) as HE.
  cbn [skipn] in HE. split; [|split; [exact HE|]].
  - destruct HE as [->|(a & r & w & E & _ & _ & _ & Hk)]; [lia|exact Hk].
  - destruct (trim_left_spec (S (length x)) x ltac:(lia)) as (j & _ & Hj). exact Hj.
Qed.

Lemma trim_last_not x b : b < 128 -> is_space b = true -> last_not b (trim x) = true.
Proof.
  intros Hb Hs. destruct (trim_K x) as (Et & HK & HE & _). cbn zeta in *. rewrite Et. unfold last_not.
  set (s1 := trim_left (S (length x)) x) in *. set (K := keep_len (S (length s1)) s1 0 0) in *.
  destruct K as [|K'] eqn:EK; [reflexivity|].
  destruct (EndsNS_last s1 (S K') HE ltac:(lia)) as (a & c & Ef & Hc). rewrite Ef, rev_app_distr. cbn [rev app].
  apply negb_true_iff. apply N.eqb_neq. intros ->. destruct Hc as [Hc|Hc]; [lia|congruence].
Qed.

(* the first rune read by keep_len, when not a space, is kept *)
Lemma keep_len_first f s r w : decode s = (r, w) -> (w > 0)%nat -> is_space r = false -> (w <= keep_len (S f) s 0 0)%nat.
Proof.
  intros Ed Hw Hr. cbn [keep_len]. rewrite Ed. assert (Nat.eqb w 0 = false) as -> by (apply Nat.eqb_neq; lia). rewrite Hr.
  destruct (keep_len_ge f (skipn w s) (0 + w)%nat (0 + w)%nat ltac:(lia)) as [A _]. lia.
Qed.

Lemma trim_left_space_cons f y : trim_left (S f) (32 :: y) = trim_left f y.
Proof. cbn [trim_left]. rewrite decode_ascii_cons by lia. reflexivity. Qed.

(* trimming what the formatter prints after "# " gives the same text again *)
Theorem trim_space_trim x : trim (32 :: trim x) = trim x.
Proof.
  destruct (trim_K x) as (Et & HK & HE & Hs1). cbn zeta in *.
  set (s1 := trim_left (S (length x)) x) in *. set (K := keep_len (S (length s1)) s1 0 0) in *.
  set (y := trim x) in *.
  assert (Hlen : length y = K) by (rewrite Et, firstn_length; lia).
  (* keep_len over y gives all of y *)
  assert (Hkeep : keep_len (S (length y)) y 0 0 = K).
  { pose proof (keep_len_firstn s1 (S (length s1)) 0 0 ltac:(lia)) as H. cbn zeta in H. cbn [skipn] in H. fold K in H. rewrite <- Et in H.
    rewrite <- H. apply keep_len_fuel; lia. }
  (* the first rune of y is not a space *)
  assert (Hy : y = [] \/ is_space (fst (decode y)) = false).
  { destruct y as [|b0 y0] eqn:Ey; [left; reflexivity|right]. rewrite <- Ey in *.
    destruct Hs1 as [Hs1|Hs1]; [rewrite Hs1 in Et; rewrite firstn_nil in Et; rewrite Et in Ey; discriminate|].
    destruct (decode s1) as [r w] eqn:Ed. cbn [fst] in Hs1.
    assert (Hne : s1 <> []) by (intros E; rewrite E in Et; rewrite firstn_nil in Et; rewrite Et in Ey; discriminate).
    destruct (decode_w_pos s1 r w Ed Hne) as [Hw0 _].
    pose proof (keep_len_first (length s1) s1 r w Ed Hw0 Hs1) as Hk. fold K in Hk.
    rewrite Et, (decode_firstn s1 r w K Ed Hk). exact Hs1. }
  assert (Htl : trim_left (S (length y)) y = y).
  { cbn [trim_left]. destruct Hy as [->|Hy]; [reflexivity|]. destruct (decode y) as [r w]. cbn [fst] in Hy. destruct (Nat.eqb w 0); [reflexivity|]. rewrite Hy. reflexivity. }
  unfold trim at 1. cbn [length]. rewrite trim_left_space_cons, Htl, Hkeep. rewrite <- Hlen. apply firstn_all.
Qed.
