(* C06: parsing a rendered concrete syntax tree recovers exactly the structure, for every admissible layout. *)
From Spok Require Import Base Lexer Parser Cst ParseTotal RoundTripP LexInv LexSteps LexFwd RoundTripL.
From Coq Require Import Lia.
Open Scope N_scope.

Lemma items_arg_ok items : Forall item_ok items -> Forall (fun i => arg_ok (ci_arg i)) items.
Proof.
  induction 1 as [|i tl [_ Hi] _ IH]; constructor; [|exact IH]. unfold arg_ok. destruct (ci_arg i); [|exact I]. destruct Hi as [[H _] _]. exact H.
Qed.

Lemma wf_ok st g R : stmt_wf st g R -> stmt_ok st.
Proof.
  destruct st as [text|name w1 w2 str|name w1 w2 f w3 args|name w1 w2 i|doc wt name wn deps wd outs body]; cbn [stmt_wf stmt_ok]; try (intros; exact I).
  - intros (_ & _ & _ & [H _] & _). exact H.
  - intros (_ & _ & _ & _ & _ & _ & [_ [H _]] & _). apply items_arg_ok. exact H.
  - intros (Hdoc & _ & _ & _ & _ & [_ [Hd _]] & _ & Ho & _). split; [apply items_arg_ok; exact Hd|]. split.
    + destruct outs as [|w1 a w2|w1 a w2]; cbn [outs_ok outs_wf] in *; [exact I| |destruct Ho as (_ & [_ [H _]] & _); apply items_arg_ok; exact H].
      destruct a as [s|s]; [destruct Ho as (_ & [H _] & _); exact H|exact I].
    + destruct doc as [[d w]|]; [|exact I]. destruct Hdoc as (_ & H & _). exact H.
Qed.

Lemma wfs_ok l : stmts_wf l -> Forall (fun sg => stmt_ok (fst sg)) l.
Proof. induction l as [|[st g] tl IH]; [constructor|]. intros [H Ht]. constructor; [exact (wf_ok st g _ H)|exact (IH Ht)]. Qed.

(* the full well-formedness of a concrete syntax tree: layout constraints, token-level constraints, and
   "a non-empty comment is not directly followed by an undocumented task" (it would be read as its docstring) *)
Definition cst_wf (f : cfile) : Prop := file_wf f /\ seq_ok (snd f).

Theorem parse_render (f : cfile) : cst_wf f -> parse (render f) = PTree (erase f).
Proof.
  intros [Hwf Hseq]. destruct (lex_render f Hwf) as [Hfl Htoks]. unfold parse.
  destruct (lex (render f)) as [fl tl]. cbn [fst snd] in *. subst fl.
  pose proof (parse_tokens_rt f tl (render f) (wfs_ok _ (proj2 Hwf)) Hseq Htoks) as H. cbv zeta in H.
  destruct (pnext _) as [n p1]. rewrite H. reflexivity.
Qed.
