(* Every tree the parser returns is well formed (tree_wf): its canonical layout is admissible.
   The parser is run against the value-aware protocol of ValueProtocol.v; the monitor state tells which
   value facts hold for the token just read. *)
From Spok Require Import Base Lexer Parser DecodeSpec LexInv LexSteps LexProtocol Cst ParseTotal RoundTripP LexFwd RoundTripL RoundTrip CstWf TrimProofs
  Layout FmtProofs ValueProtocol ValueCommands ValueRun.
From Coq Require Import Lia.
Open Scope N_scope.

Lemma mrun2_reject l : mrun2 M2Reject l = M2Reject.
Proof. induction l as [|x l IH]; [reflexivity|]. exact IH. Qed.
Lemma mrun2_cons m x l : mrun2 m (x :: l) = mrun2 (mon2 m x) l.
Proof. reflexivity. Qed.
Lemma mon2_done x : mon2 M2Done x = M2Reject.
Proof. reflexivity. Qed.

(* ---- value facts read off the monitor ---- *)
Lemma unquote_some v body : unquote v = Some body -> v = 34 :: body ++ [34].
Proof.
  unfold unquote. destruct v as [|b x]; [discriminate|]. destruct b as [|pb]; [discriminate|].
  repeat (destruct pb as [pb|pb|]; try discriminate). destruct (rev x) as [|c rb] eqn:E; [discriminate|].
  destruct c as [|pc]; [discriminate|]. repeat (destruct pc as [pc|pc|]; try discriminate). intros H. injection H as <-.
  f_equal. rewrite <- (rev_involutive x), E. reflexivity.
Qed.
Lemma vstr_arg v : vstr v = true -> Str (strip_quotes v).
Proof.
  unfold vstr. destruct (unquote v) as [body|] eqn:E; [|discriminate]. intros H. apply unquote_some in E. subst v.
  pose proof (str_sound body H) as Hs. change (34 :: body ++ [34]) with (b_quote ++ body ++ b_quote). rewrite (strip_quoted body (proj1 Hs)). exact Hs.
Qed.
Lemma vname_wf v : vname v = true -> Ident v /\ v <> [].
Proof. unfold vname. intros H. apply andb_prop in H. destruct H as [H1 H2]. split; [exact H1|apply nonnil_sound; exact H2]. Qed.

Ltac tcase t k H := destruct (tis t k) eqn:H; [apply tis_true in H | apply tis_false in H].

Section P.
Variable toks : list token.
Hypothesis H2 : mrun2 M2Top toks = M2Done.

Definition Q2 (p : ps) (m : m2) : Prop := exists consumed, toks = consumed ++ stream p /\ mrun2 M2Top consumed = m.

Lemma Q2_rest p m : Q2 p m -> mrun2 m (stream p) = M2Done.
Proof. intros (c & E & Hm). rewrite E, mrun2_app, Hm in H2. exact H2. Qed.

Lemma pnext2 p m : Q2 p m -> m <> M2Done ->
  exists x p', pnext p = (x, p') /\ Q2 p' (mon2 m x) /\ mon2 m x <> M2Reject /\ pending p' = false /\ buf p' = x /\ stream p = x :: stream p'.
Proof.
  intros HQ Hm. pose proof (Q2_rest _ _ HQ) as Hr. destruct HQ as (c & E & Hc).
  destruct (stream p) as [|x r0] eqn:Es; [cbn in Hr; congruence|].
  assert (Hnr : mon2 m x <> M2Reject) by (intros Er; rewrite mrun2_cons, Er, mrun2_reject in Hr; discriminate).
  unfold stream in Es. unfold pnext. destruct (pending p) eqn:Ep.
  - cbn in Es. injection Es as <- <-. eexists _, _. split; [reflexivity|]. split.
    + exists (c ++ [buf p]). unfold stream. cbn [pending rest app]. split; [rewrite <- app_assoc; exact E|]. rewrite mrun2_app, Hc. reflexivity.
    + auto.
  - cbn in Es. rewrite Es. eexists _, _. split; [reflexivity|]. split.
    + exists (c ++ [x]). unfold stream. cbn [pending rest app]. split; [rewrite <- app_assoc; exact E|]. rewrite mrun2_app, Hc. reflexivity.
    + auto.
Qed.

Lemma pbackup2 p m x p' : Q2 p m -> m <> M2Done -> pnext p = (x, p') -> Q2 (pbackup p') m.
Proof.
  intros HQ Hm E. destruct (pnext2 p m HQ Hm) as (x' & p'' & E' & _ & _ & Hpend & Hbuf & Hs). rewrite E in E'. injection E' as <- <-.
  assert (Hst : stream (pbackup p') = stream p) by (rewrite Hs; unfold stream, pbackup; cbn [pending buf rest]; rewrite Hpend; cbn; rewrite Hbuf; reflexivity).
  destruct HQ as (c & Ec & Hc). exists c. rewrite Hst. auto.
Qed.

Definition pre_arg (m0 : m2) : Prop := m0 = M2Top \/ aft m0.
Lemma pre_arg_not_done m0 x : pre_arg m0 -> mon2 m0 x <> M2Reject -> (ty x = STRING \/ ty x = IDENT \/ ty x = COMMA \/ ty x = RPAREN \/ ty x = LPAREN \/ ty x = OUTPUT) -> mon2 m0 x <> M2Done.
Proof. intros [->|[nt ->]] Hr Ht; unfold mon2 in *; destruct Ht as [->|[->|[->|[->|[->| ->]]]]]; try discriminate; try congruence; destruct (vstr (val x)); destruct (vname (val x)); congruence. Qed.

Definition NotTree (e : presult) : Prop := match e with PTree _ => False | _ => True end.
Definition RS {A} (x : r A) (post : A -> ps -> Prop) : Prop := match x with Ok a p' => post a p' | Fail e => NotTree e end.

(* ---- argument lists ---- *)
Lemma args_loop2 : forall fuel next acc p m0, pre_arg m0 -> Q2 p (mon2 m0 next) -> mon2 m0 next <> M2Reject -> Forall arg_wf acc ->
  RS (args_loop fuel next acc p) (fun args p' => Q2 p' M2Top /\ Forall arg_wf args).
Proof.
  induction fuel as [|f IH]; intros next acc p m0 Hm0 HQ Hnr Hacc; [exact I|]. cbn [args_loop].
  tcase next RPAREN H1.
  { cbn [RS]. split; [|apply Forall_rev; exact Hacc]. destruct Hm0 as [->|[nt ->]]; unfold mon2 in HQ; rewrite H1 in HQ; exact HQ. }
  tcase next STRING H2'.
  { destruct Hm0 as [->|[nt ->]]; unfold mon2 in HQ, Hnr; rewrite H2' in HQ, Hnr; [|congruence].
    destruct (vstr (val next)) eqn:Ev; [|congruence].
    destruct (pnext2 p M2Top HQ ltac:(discriminate)) as (n & p1 & En & HQ1 & Hnr1 & _). rewrite En.
    apply (IH n _ p1 M2Top (or_introl eq_refl) HQ1 Hnr1). constructor; [apply vstr_arg; exact Ev|exact Hacc]. }
  tcase next IDENT H3.
  { destruct Hm0 as [->|[nt ->]]; unfold mon2 in HQ, Hnr; rewrite H3 in HQ, Hnr; [|congruence].
    destruct (vname (val next)) eqn:Ev; [|congruence].
    destruct (pnext2 p _ HQ ltac:(discriminate)) as (n & p1 & En & HQ1 & Hnr1 & _). rewrite En.
    apply (IH n _ p1 _ (or_intror (ex_intro _ _ eq_refl)) HQ1 Hnr1). constructor; [apply vname_wf; exact Ev|exact Hacc]. }
  tcase next COMMA H4.
  { assert (HQ' : Q2 p M2Top) by (destruct Hm0 as [->|[nt ->]]; unfold mon2 in HQ; rewrite H4 in HQ; exact HQ).
    destruct (pnext2 p M2Top HQ' ltac:(discriminate)) as (n & p1 & En & HQ1 & Hnr1 & _). rewrite En.
    apply (IH n _ p1 M2Top (or_introl eq_refl) HQ1 Hnr1 Hacc). }
  destruct (tis next ERROR); exact I.
Qed.

Lemma outs_loop2 : forall fuel lp next acc p m0, pre_arg m0 -> Q2 p (mon2 m0 next) -> mon2 m0 next <> M2Reject -> Forall arg_wf acc ->
  RS (outs_loop fuel lp next acc p) (fun args p' => Q2 p' M2Top /\ Forall arg_wf args).
Proof.
  induction fuel as [|f IH]; intros lp next acc p m0 Hm0 HQ Hnr Hacc; [exact I|]. cbn [outs_loop].
  tcase next RPAREN H1.
  { cbn [RS]. split; [|apply Forall_rev; exact Hacc]. destruct Hm0 as [->|[nt ->]]; unfold mon2 in HQ; rewrite H1 in HQ; exact HQ. }
  tcase next STRING H2'.
  { destruct Hm0 as [->|[nt ->]]; unfold mon2 in HQ, Hnr; rewrite H2' in HQ, Hnr; [|congruence].
    destruct (vstr (val next)) eqn:Ev; [|congruence].
    destruct (pnext2 p M2Top HQ ltac:(discriminate)) as (n & p1 & En & HQ1 & Hnr1 & _). rewrite En.
    apply (IH lp n _ p1 M2Top (or_introl eq_refl) HQ1 Hnr1). constructor; [apply vstr_arg; exact Ev|exact Hacc]. }
  tcase next IDENT H3.
  { destruct Hm0 as [->|[nt ->]]; unfold mon2 in HQ, Hnr; rewrite H3 in HQ, Hnr; [|congruence].
    destruct (vname (val next)) eqn:Ev; [|congruence].
    destruct (pnext2 p _ HQ ltac:(discriminate)) as (n & p1 & En & HQ1 & Hnr1 & _). rewrite En.
    apply (IH lp n _ p1 _ (or_intror (ex_intro _ _ eq_refl)) HQ1 Hnr1). constructor; [apply vname_wf; exact Ev|exact Hacc]. }
  tcase next COMMA H4.
  { assert (HQ' : Q2 p M2Top) by (destruct Hm0 as [->|[nt ->]]; unfold mon2 in HQ; rewrite H4 in HQ; exact HQ).
    destruct (pnext2 p M2Top HQ' ltac:(discriminate)) as (n & p1 & En & HQ1 & Hnr1 & _). rewrite En.
    apply (IH lp n _ p1 M2Top (or_introl eq_refl) HQ1 Hnr1 Hacc). }
  destruct (tis next ERROR); exact I.
Qed.

(* expect: the token kind k leads from m to m' *)
Lemma expect2 k p m : Q2 p m -> m <> M2Done -> k <> ERROR ->
  RS (expect k p) (fun _ p' => exists x, ty x = k /\ Q2 p' (mon2 m x) /\ mon2 m x <> M2Reject).
Proof.
  intros HQ Hm Hk. destruct (pnext2 p m HQ Hm) as (x & p' & E & HQ' & Hnr & _). unfold expect. rewrite E.
  destruct (tis x ERROR); [exact I|]. tcase x k Hx; cbn [negb RS]; [|exact I]. exists x. auto.
Qed.

(* ---- commands ---- *)
Lemma cmds_wf_snoc cmds c : cmds <> [] -> cmds_wf cmds -> CmdN c -> cmds_wf (cmds ++ [c]).
Proof. destruct cmds as [|c1 tl]; [congruence|]. intros _ [H1 Ht] Hc. cbn [app cmds_wf]. split; [exact H1|]. apply Forall_app. split; [exact Ht|constructor; [exact Hc|constructor]]. Qed.

Lemma cmds_loop2 : forall fuel acc p m, ((m = M2Body1 /\ acc = []) \/ (m = M2BodyN /\ acc <> [] /\ cmds_wf (rev acc))) -> Q2 p m ->
  RS (cmds_loop fuel acc p) (fun cmds p' => Q2 p' M2Top /\ cmds_wf cmds).
Proof.
  induction fuel as [|f IH]; intros acc p m Hm HQ; [exact I|]. cbn [cmds_loop].
  assert (Hmd : m <> M2Done) by (destruct Hm as [[-> _]|[-> _]]; discriminate).
  destruct (pnext2 p m HQ Hmd) as (x & p1 & E & HQ1 & Hnr & _). rewrite E.
  tcase x ERROR H0; [exact I|].
  tcase x RBRACE H1.
  { cbn [RS]. split.
    - destruct Hm as [[-> _]|[-> _]]; unfold mon2 in HQ1; rewrite H1 in HQ1; exact HQ1.
    - destruct Hm as [[_ ->]|[_ [_ Hw]]]; [exact I|exact Hw]. }
  tcase x COMMAND H3.
  { destruct Hm as [[-> ->]|[-> [Hne Hw]]]; unfold mon2 in HQ1, Hnr; rewrite H3 in HQ1, Hnr.
    - destruct (cmd1_b (val x)) eqn:Ec; [|congruence]. apply (IH [val x] p1 M2BodyN); [|exact HQ1].
      right. split; [reflexivity|]. split; [discriminate|]. cbn [rev app cmds_wf]. split; [apply cmd1_sound; exact Ec|constructor].
    - destruct (cmdn_b (val x)) eqn:Ec; [|congruence]. apply (IH (val x :: acc) p1 M2BodyN); [|exact HQ1].
      right. split; [reflexivity|]. split; [discriminate|]. cbn [rev]. apply cmds_wf_snoc; [|exact Hw|apply cmdn_sound; exact Ec].
      intros E0. apply (f_equal (@rev bytes)) in E0. rewrite rev_involutive in E0. cbn in E0. congruence. }
  exfalso. apply Hnr. destruct Hm as [[-> _]|[-> _]]; unfold mon2; destruct (ty x); try reflexivity; congruence.
Qed.

(* ---- outputs ---- *)
Lemma parseTaskOutputs2 fuel p : Q2 p M2Top ->
  RS (parseTaskOutputs fuel p) (fun outs p' => (Q2 p' M2Top \/ exists nt, Q2 p' (M2AfterIdent nt)) /\ Forall arg_wf outs).
Proof.
  intros HQ. unfold parseTaskOutputs. destruct (pnext2 p M2Top HQ ltac:(discriminate)) as (t & p1 & E & HQ1 & Hnr1 & _). rewrite E.
  tcase t OUTPUT H0.
  - unfold mon2 in HQ1. rewrite H0 in HQ1.
    destruct (pnext2 p1 M2Top HQ1 ltac:(discriminate)) as (x & p2 & E2 & HQ2 & Hnr2 & _). rewrite E2.
    tcase x STRING H1. { unfold mon2 in HQ2, Hnr2. rewrite H1 in HQ2, Hnr2. destruct (vstr (val x)) eqn:Ev; [|congruence]. cbn [RS]. split; [left; exact HQ2|repeat constructor; apply vstr_arg; exact Ev]. }
    tcase x IDENT H3. { unfold mon2 in HQ2, Hnr2. rewrite H3 in HQ2, Hnr2. destruct (vname (val x)) eqn:Ev; [|congruence]. cbn [RS]. split; [right; eexists; exact HQ2|repeat constructor; apply vname_wf; exact Ev]. }
    tcase x COMMA H4. { unfold mon2 in HQ2. rewrite H4 in HQ2. cbn [RS]. split; [left; exact HQ2|constructor]. }
    tcase x LPAREN H5.
    { unfold mon2 in HQ2. rewrite H5 in HQ2. destruct (pnext2 p2 M2Top HQ2 ltac:(discriminate)) as (y & p3 & E3 & HQ3 & Hnr3 & _). rewrite E3.
      pose proof (outs_loop2 fuel x y [] p3 M2Top (or_introl eq_refl) HQ3 Hnr3 (Forall_nil _)) as Ho.
      destruct (outs_loop fuel x y [] p3); cbn [RS] in *; [|assumption]. destruct Ho. split; [left; assumption|assumption]. }
    destruct (tis x ERROR); exact I.
  - cbn [RS]. split; [left; apply (pbackup2 p M2Top t p1 HQ ltac:(discriminate) E)|constructor].
Qed.

(* ---- tasks ---- *)
Lemma parseTask2 fuel doc p : Q2 p M2AfterTask -> no_byte 10 doc = true ->
  RS (parseTask fuel doc p) (fun n p' => Q2 p' M2Top /\ exists name deps outs cmds, n = NTask doc name deps outs cmds /\ node_wf n True).
Proof.
  intros HQ Hdoc. unfold parseTask.
  destruct (pnext2 p M2AfterTask HQ ltac:(discriminate)) as (nm & p1 & E & HQ1 & Hnr1 & _). rewrite E.
  assert (Hnm : ty nm = IDENT /\ vident (val nm) = true).
  { unfold mon2 in Hnr1. destruct (ty nm); try congruence. destruct (vident (val nm)); [auto|congruence]. }
  destruct Hnm as [Hty Hv]. unfold mon2 in HQ1. rewrite Hty, Hv in HQ1.
  pose proof (expect2 LPAREN p1 M2AfterName HQ1 ltac:(discriminate) ltac:(discriminate)) as He.
  destruct (expect LPAREN p1) as [u p2|]; cbn [RS] in *; [|assumption]. destruct He as (x & Hx & HQ2 & _). unfold mon2 in HQ2. rewrite Hx in HQ2.
  destruct (pnext2 p2 M2Top HQ2 ltac:(discriminate)) as (n & p3 & E3 & HQ3 & Hnr3 & _). rewrite E3.
  pose proof (args_loop2 fuel n [] p3 M2Top (or_introl eq_refl) HQ3 Hnr3 (Forall_nil _)) as Ha.
  destruct (args_loop fuel n [] p3) as [deps p4|]; cbn [RS] in *; [|assumption]. destruct Ha as [HQ4 Hdeps].
  pose proof (parseTaskOutputs2 fuel p4 HQ4) as Ho.
  destruct (parseTaskOutputs fuel p4) as [outs p5|]; cbn [RS] in *; [|assumption]. destruct Ho as [HQ5 Houts].
  assert (He5 : RS (expect LBRACE p5) (fun _ p' => Q2 p' M2Body1)).
  { destruct HQ5 as [HQ5|[nt HQ5]].
    - pose proof (expect2 LBRACE p5 M2Top HQ5 ltac:(discriminate) ltac:(discriminate)) as He. destruct (expect LBRACE p5); cbn [RS] in *; [|assumption].
      destruct He as (y & Hy & HQ6 & _). unfold mon2 in HQ6. rewrite Hy in HQ6. exact HQ6.
    - pose proof (expect2 LBRACE p5 _ HQ5 ltac:(discriminate) ltac:(discriminate)) as He. destruct (expect LBRACE p5); cbn [RS] in *; [|assumption].
      destruct He as (y & Hy & HQ6 & _). unfold mon2 in HQ6. rewrite Hy in HQ6. exact HQ6. }
  destruct (expect LBRACE p5) as [u' p6|]; cbn [RS] in *; [|assumption].
  pose proof (cmds_loop2 fuel [] p6 M2Body1 (or_introl (conj eq_refl eq_refl)) He5) as Hc.
  destruct (cmds_loop fuel [] p6) as [cmds p7|]; cbn [RS] in *; [|assumption]. destruct Hc as [HQ7 Hcmds].
  split; [exact HQ7|]. eexists _, _, _, _. split; [reflexivity|]. cbn [node_wf]. repeat split; auto.
Qed.

(* ---- assignments ---- *)
Definition is_rident (n : node) : Prop := match n with NAssign _ (RIdent _) => True | _ => False end.

Lemma parseFunction2 fuel ident p nt : Q2 p (M2AfterIdent nt) ->
  RS (parseFunction fuel ident p) (fun v p' => Q2 p' M2Top /\ exists args, v = RFunc (val ident) args /\ Forall arg_wf args).
Proof.
  intros HQ. unfold parseFunction. pose proof (expect2 LPAREN p _ HQ ltac:(discriminate) ltac:(discriminate)) as He.
  destruct (expect LPAREN p) as [u p1|]; cbn [RS] in *; [|assumption]. destruct He as (x & Hx & HQ1 & _). unfold mon2 in HQ1. rewrite Hx in HQ1.
  destruct (pnext2 p1 M2Top HQ1 ltac:(discriminate)) as (n & p2 & E & HQ2 & Hnr2 & _). rewrite E.
  pose proof (args_loop2 fuel n [] p2 M2Top (or_introl eq_refl) HQ2 Hnr2 (Forall_nil _)) as Ha.
  destruct (args_loop fuel n [] p2); cbn [RS] in *; [|assumption]. destruct Ha. split; [assumption|]. eexists. split; [reflexivity|assumption].
Qed.

(* the name token was read at top level: the monitor went from Top to AfterIdent *)
Lemma parseAssign2 fuel ident p : vname (val ident) = true -> Q2 p (M2AfterIdent (negb (bytes_eqb (val ident) k_task))) ->
  RS (parseAssign fuel ident p) (fun n p' => node_wf n True /\ (exists nm v, n = NAssign nm v) /\ ((Q2 p' M2Top /\ ~ is_rident n) \/ (exists nt, Q2 p' (M2AfterIdent nt)) /\ is_rident n)).
Proof.
  intros Hv HQ. unfold parseAssign. pose proof (expect2 DECLARE p _ HQ ltac:(discriminate) ltac:(discriminate)) as He.
  destruct (expect DECLARE p) as [u p1|]; cbn [RS] in *; [|assumption]. destruct He as (x & Hx & HQ1 & Hnr1). unfold mon2 in HQ1, Hnr1. rewrite Hx in HQ1, Hnr1.
  destruct (bytes_eqb (val ident) k_task) eqn:Ek; cbn [negb] in HQ1, Hnr1; [congruence|].
  assert (Hname : name_ok (val ident)) by (destruct (vname_wf _ Hv) as [A B]; split; [exact A|split; [exact B|exact Ek]]).
  destruct (pnext2 p1 M2Top HQ1 ltac:(discriminate)) as (nx & p2 & E2 & HQ2 & Hnr2 & _). rewrite E2.
  tcase nx STRING H1.
  { unfold mon2 in HQ2, Hnr2. rewrite H1 in HQ2, Hnr2. destruct (vstr (val nx)) eqn:Ev; [|congruence]. cbn [RS node_wf]. split; [split; [exact Hname|apply vstr_arg; exact Ev]|]. split; [eauto|].
    left. split; [exact HQ2|]. intros []. }
  tcase nx IDENT H3.
  { unfold mon2 in HQ2, Hnr2. rewrite H3 in HQ2, Hnr2. destruct (vname (val nx)) eqn:Ev; [|congruence]. destruct (vname_wf _ Ev) as [Hi Hine].
    destruct (pnext2 p2 _ HQ2 ltac:(discriminate)) as (n2 & p3 & E3 & HQ3 & Hnr3 & _). rewrite E3.
    pose proof (pbackup2 p2 _ n2 p3 HQ2 ltac:(discriminate) E3) as HQb.
    tcase n2 LPAREN H5.
    - pose proof (parseFunction2 fuel nx (pbackup p3) _ HQb) as Hf. destruct (parseFunction fuel nx (pbackup p3)) as [v p4|]; cbn [RS] in *; [|assumption].
      destruct Hf as (HQ4 & args & -> & Hargs). split; [cbn [node_wf]; repeat split; auto; apply Hname|]. split; [eauto|]. left. split; [exact HQ4|]. intros [].
    - cbn [RS node_wf]. split; [repeat split; auto; apply Hname|]. split; [eauto|]. right. split; [eexists; exact HQb|exact I]. }
  destruct (tis nx ERROR); exact I.
Qed.

(* ---- the statement loop ---- *)
Lemma node_wf_last n (P : Prop) : node_wf n True -> (is_rident n -> P) -> node_wf n P.
Proof. destruct n as [c|name [s|i|f args]|doc name deps outs cmds]; cbn [node_wf is_rident]; intros H HP; try exact H. destruct H as (A & B & C & _). auto. Qed.

Lemma parse_loop2 : forall fuel next acc p m0, pre_arg m0 -> Q2 p (mon2 m0 next) -> mon2 m0 next <> M2Reject ->
  match parse_loop fuel next acc p with
  | PTree t => exists rest, t = rev acc ++ rest /\ tree_wf rest /\ (aft m0 -> rest = []) /\ (ty next <> TASK -> undoc_task rest = false)
  | _ => True
  end.
Proof.
  induction fuel as [|f IH]; intros next acc p m0 Hm0 HQ Hnr; [exact I|]. cbn [parse_loop].
  tcase next EOF H1. { exists []. rewrite app_nil_r. repeat split; auto. }
  tcase next ERROR H2'. { exact I. }
  assert (Hcont : forall p1 m1 acc' (node : node), pre_arg m1 -> Q2 p1 m1 -> node_wf node True -> (is_rident node -> aft m1) -> (aft m1 -> is_rident node) ->
            match (let '(n, p2) := pnext p1 in parse_loop f n (node :: acc') p2) with
            | PTree t => exists rest', t = rev (node :: acc') ++ rest' /\ tree_wf rest' /\ (is_rident node -> rest' = []) /\
                                        (forall n p2, pnext p1 = (n, p2) -> ty n <> TASK -> undoc_task rest' = false)
            | _ => True end).
  { intros p1 m1 acc' node Hm1 HQ1 Hn Hri Hri'. assert (Hm1d : m1 <> M2Done) by (destruct Hm1 as [->|[nt ->]]; discriminate).
    destruct (pnext2 p1 m1 HQ1 Hm1d) as (n & p2 & En & HQ2 & Hnr2 & _). rewrite En.
    pose proof (IH n (node :: acc') p2 m1 Hm1 HQ2 Hnr2) as R. destruct (parse_loop f n (node :: acc') p2); try exact I.
    destruct R as (rest' & Et & Hw & Ha & Hu). exists rest'. split; [exact Et|]. split; [exact Hw|]. split; [intros Hr; apply Ha, Hri, Hr|].
    intros n' p2' En'. injection En' as <- <-. exact Hu. }
  assert (Hprev : (ty next = HASH \/ ty next = IDENT \/ ty next = TASK) -> m0 = M2Top).
  { intros Ht. destruct Hm0 as [H|[nt ->]]; [exact H|]. unfold mon2 in Hnr. destruct Ht as [Ht|[Ht|Ht]]; rewrite Ht in Hnr; congruence. }
  tcase next HASH H3.
  { rewrite (Hprev (or_introl H3)) in *. clear Hprev. assert (Hprev : aft M2Top -> False) by (intros [nt E]; discriminate).
    unfold mon2 in HQ. rewrite H3 in HQ.
    destruct (pnext2 p M2AfterHash HQ ltac:(discriminate)) as (c & p1 & E1 & HQ1 & Hnr1 & _). rewrite E1.
    assert (Hc : ty c = COMMENT /\ no_byte 10 (val c) = true).
    { unfold mon2 in Hnr1. destruct (ty c); try congruence. destruct (no_byte 10 (val c)); [auto|congruence]. }
    destruct Hc as [Hcty Hc10]. unfold mon2 in HQ1. rewrite Hcty, Hc10 in HQ1.
    destruct (pnext2 p1 M2Top HQ1 ltac:(discriminate)) as (t & p2 & E2 & HQ2 & Hnr2 & _). rewrite E2.
    destruct (tis t TASK && negb (is_nil (val c)))%bool eqn:Eb.
    - apply andb_prop in Eb. destruct Eb as [Et Ene]. apply tis_true in Et. unfold mon2 in HQ2. rewrite Et in HQ2.
      pose proof (parseTask2 (S f) (val c) p2 HQ2 Hc10) as Ht. destruct (parseTask (S f) (val c) p2) as [task p3|]; cbn [RS] in *; [|match goal with H : NotTree ?e |- _ => destruct e; try exact I; destruct H end].
      destruct Ht as (HQ3 & name & deps & outs & cmds & -> & Hnw).
      pose proof (Hcont p3 M2Top acc _ (or_introl eq_refl) HQ3 Hnw ltac:(intros []) ltac:(intros [nt E]; discriminate)) as R.
      destruct (let '(n, p4) := pnext p3 in parse_loop f n (NTask (val c) name deps outs cmds :: acc) p4); try exact I.
      destruct R as (rest' & Et' & Hw & _ & _). exists (NTask (val c) name deps outs cmds :: rest'). split; [rewrite Et'; cbn [rev]; rewrite <- app_assoc; reflexivity|].
      split; [cbn [tree_wf]; split; [apply node_wf_last; [exact Hnw|intros []]|split; [exact I|exact Hw]]|]. split; [intros H; destruct (Hprev H)|].
      intros _. cbn [undoc_task]. destruct (val c); [discriminate|reflexivity].
    - pose proof (pbackup2 p1 M2Top t p2 HQ1 ltac:(discriminate) E2) as HQb.
      pose proof (Hcont (pbackup p2) M2Top acc (NComment (val c)) (or_introl eq_refl) HQb Hc10 ltac:(intros []) ltac:(intros [nt E]; discriminate)) as R.
      assert (Eback : pnext (pbackup p2) = (t, p2)).
      { destruct (pnext2 p1 M2Top HQ1 ltac:(discriminate)) as (x' & p'' & E' & _ & _ & Hpend & Hbuf & _). rewrite E2 in E'. injection E' as <- <-.
        unfold pnext, pbackup. cbn [pending buf rest pinp]. rewrite Hbuf. f_equal. destruct p2; cbn in *; subst; reflexivity. }
      destruct (let '(n, p3) := pnext (pbackup p2) in parse_loop f n (NComment (val c) :: acc) p3); try exact I.
      destruct R as (rest' & Et' & Hw & _ & Hu). specialize (Hu t p2 Eback).
      exists (NComment (val c) :: rest'). split; [rewrite Et'; cbn [rev]; rewrite <- app_assoc; reflexivity|].
      split; [|split; [intros H; destruct (Hprev H)|intros _; reflexivity]].
      cbn [tree_wf]. split; [exact Hc10|]. split; [|exact Hw].
      intros Hun. destruct (val c) as [|b0 c0] eqn:Evc; [reflexivity|]. exfalso.
      cbn [is_nil negb] in Eb. rewrite andb_true_r in Eb. apply tis_false in Eb. rewrite (Hu Eb) in Hun. discriminate. }
  tcase next IDENT H4.
  { rewrite (Hprev (or_intror (or_introl H4))) in *. clear Hprev. assert (Hprev : aft M2Top -> False) by (intros [nt E]; discriminate).
    unfold mon2 in HQ, Hnr. rewrite H4 in HQ, Hnr. destruct (vname (val next)) eqn:Ev; [|congruence].
    pose proof (parseAssign2 (S f) next p Ev HQ) as Ha. destruct (parseAssign (S f) next p) as [a p1|]; cbn [RS] in *; [|match goal with H : NotTree ?e |- _ => destruct e; try exact I; destruct H end].
    destruct Ha as (Hnw & (anm & av & ->) & Hst).
    assert (Hex : exists m1, pre_arg m1 /\ Q2 p1 m1 /\ (is_rident (NAssign anm av) -> aft m1) /\ (aft m1 -> is_rident (NAssign anm av))).
    { destruct Hst as [[HQ1 Hnr1]|[[nt HQ1] Hr1]].
      - exists M2Top. split; [left; reflexivity|]. split; [exact HQ1|]. split; [intros H; destruct (Hnr1 H)|intros [nt E]; discriminate].
      - exists (M2AfterIdent nt). split; [right; eexists; reflexivity|]. split; [exact HQ1|]. split; [intros _; eexists; reflexivity|intros _; exact Hr1]. }
    destruct Hex as (m1 & Hm1 & HQ1 & Hri & Hri').
    pose proof (Hcont p1 m1 acc (NAssign anm av) Hm1 HQ1 Hnw Hri Hri') as R.
    destruct (let '(n, p2) := pnext p1 in parse_loop f n (NAssign anm av :: acc) p2); try exact I.
    destruct R as (rest' & Et' & Hw & Hlast & _). exists (NAssign anm av :: rest'). split; [rewrite Et'; cbn [rev]; rewrite <- app_assoc; reflexivity|].
    split; [|split; [intros H; destruct (Hprev H)|]].
    - cbn [tree_wf]. split; [apply node_wf_last; [exact Hnw|exact Hlast]|]. split; [exact I|exact Hw].
    - intros _. reflexivity. }
  tcase next TASK H5.
  { rewrite (Hprev (or_intror (or_intror H5))) in *. clear Hprev. assert (Hprev : aft M2Top -> False) by (intros [nt E]; discriminate).
    unfold mon2 in HQ. rewrite H5 in HQ.
    pose proof (parseTask2 (S f) [] p HQ eq_refl) as Ht. destruct (parseTask (S f) [] p) as [task p1|]; cbn [RS] in *; [|match goal with H : NotTree ?e |- _ => destruct e; try exact I; destruct H end].
    destruct Ht as (HQ1 & name & deps & outs & cmds & -> & Hnw).
    pose proof (Hcont p1 M2Top acc _ (or_introl eq_refl) HQ1 Hnw ltac:(intros []) ltac:(intros [nt E]; discriminate)) as R.
    destruct (let '(n, p2) := pnext p1 in parse_loop f n (NTask [] name deps outs cmds :: acc) p2); try exact I.
    destruct R as (rest' & Et' & Hw & _ & _). exists (NTask [] name deps outs cmds :: rest'). split; [rewrite Et'; cbn [rev]; rewrite <- app_assoc; reflexivity|].
    split; [cbn [tree_wf]; split; [apply node_wf_last; [exact Hnw|intros []]|split; [exact I|exact Hw]]|]. split; [intros H; destruct (Hprev H)|]. intros Hn. congruence. }
  exact I.
Qed.

End P.

(* ---- the theorem ---- *)
Theorem parse_tree_wf s t : parse s = PTree t -> tree_wf t.
Proof.
  unfold parse. pose proof (lex_accept2 s) as Hacc. destruct (lex s) as [f toks]. cbn [fst snd] in Hacc.
  destruct f; try discriminate. specialize (Hacc eq_refl).
  set (p0 := {| buf := zero_tok; pending := false; rest := toks; pinp := s |}).
  assert (HQ0 : Q2 toks p0 M2Top) by (exists []; split; reflexivity).
  destruct (pnext2 toks Hacc p0 M2Top HQ0 ltac:(discriminate)) as (n & p1 & En & HQ1 & Hnr1 & _). rewrite En.
  pose proof (parse_loop2 toks Hacc (S (S (length toks))) n [] p1 M2Top (or_introl eq_refl) HQ1 Hnr1) as R.
  destruct (parse_loop (S (S (length toks))) n [] p1) as [tr|line [ctx|]|msg| |]; try discriminate.
  intros E. injection E as <-. destruct R as (rest & -> & Hw & _). exact Hw.
Qed.

(* C07, C11, C15 for every input that parses *)
Theorem format_preserves_meaning_all s t : parse s = PTree t -> exists t', parse (fmt t) = PTree t' /\ sem t' = sem t.
Proof. intros H. apply (format_preserves_meaning s t H (parse_tree_wf s t H)). Qed.
Theorem format_idempotent_all s t : parse s = PTree t -> exists t', parse (fmt t) = PTree t' /\ fmt t' = fmt t.
Proof. intros H. apply (format_idempotent s t H (parse_tree_wf s t H)). Qed.
Theorem format_keeps_comments_all s t : parse s = PTree t ->
  exists t', parse (fmt t) = PTree t' /\ map mark t' = map mark t /\ length t' = length t /\
    Forall2 (fun n n' => match n, n' with
                         | NComment c, NComment c' => (c' = [] <-> c = [])
                         | NTask d _ _ _ _, NTask d' _ _ _ _ => (d' = [] <-> d = [])
                         | NAssign _ _, NAssign _ _ => True
                         | _, _ => False end) t t'.
Proof. intros H. apply (format_keeps_comments s t H (parse_tree_wf s t H)). Qed.
