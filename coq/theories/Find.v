(* Model of file.Find in /repo/file/file.go (repaired): climbing from `start` towards the root looking for a
   non-directory entry named "spokfile".  Absolute, cleaned paths are lists of segments stored innermost
   first ("/a/b/c" is [c; b; a], "/" is []), so filepath.Dir is `tl` and the climb is structural. *)
From Spok Require Import Base.
Open Scope nat_scope.

Definition seg := nat.                       (* a directory or file name *)
Definition rpath := list seg.                (* innermost segment first *)
Inductive kind := KFile | KDir.
(* os.ReadDir: None when the path is not a readable directory *)
Definition fsys := rpath -> option (list (seg * kind)).

Definition spokfile : seg := 0.

Fixpoint rpath_eqb (a b : rpath) : bool :=
  match a, b with
  | [], [] => true
  | x :: a', y :: b' => Nat.eqb x y && rpath_eqb a' b'
  | _, _ => false
  end.

(* isAbove(dir, path): dir is a proper ancestor of path, i.e. (innermost first) a proper suffix of it *)
Fixpoint is_above (dir path : rpath) : bool :=
  match path with
  | [] => false
  | _ :: parent => rpath_eqb dir parent || is_above dir parent
  end.

Definition has_spokfile (es : list (seg * kind)) : bool :=
  existsb (fun e => match snd e with KFile => Nat.eqb (fst e) spokfile | KDir => false end) es.

Inductive found := Found (dir : rpath) | NotFound | ReadError (dir : rpath).

(* one iteration of the loop at directory d; `up` is what happens if the climb continues *)
Definition look (fs : fsys) (stop d : rpath) (up : found) : found :=
  if is_above d stop then NotFound
  else match fs d with
       | None => ReadError d
       | Some es =>
         if has_spokfile es then Found d
         else if rpath_eqb d stop then NotFound
         else up
       end.

Fixpoint find_spokfile (fs : fsys) (stop start : rpath) : found :=
  match start with
  | [] => look fs stop [] NotFound                       (* parent == start: the filesystem root *)
  | _ :: parent => look fs stop start (find_spokfile fs stop parent)
  end.

(* start and its ancestors, nearest first *)
Fixpoint ups (p : rpath) : list rpath :=
  match p with
  | [] => [[]]
  | _ :: parent => p :: ups parent
  end.
