(* Proofs about the digest and the worker pool (C04, C18). *)
From Spok Require Import Base Hash.
From Coq Require Import Permutation Sorted ZArith ZifyN ZifyNat ZifyBool.
Open Scope N_scope.

Arguments N.ltb : simpl never.
Arguments N.eqb : simpl never.

(* ---------- the byte order ---------- *)
Lemma blt_irrefl a : blt a a = false.
Proof. induction a as [|x a IH]; [reflexivity|]. cbn [blt]. rewrite N.ltb_irrefl. exact IH. Qed.

Lemma blt_trans a : forall b c, blt a b = true -> blt b c = true -> blt a c = true.
Proof.
  induction a as [|x a IH]; intros [|y b] [|z c] H1 H2; cbn [blt] in *; try discriminate; try reflexivity.
  destruct (x <? y) eqn:Exy.
  - destruct (y <? z) eqn:Eyz.
    + assert (x <? z = true) as -> by lia. reflexivity.
    + destruct (z <? y) eqn:Ezy; [discriminate|]. assert (y = z) by lia. subst z. rewrite Exy. reflexivity.
  - destruct (y <? x) eqn:Eyx; [discriminate|]. assert (x = y) by lia. subst y.
    destruct (x <? z) eqn:Exz; [reflexivity|]. destruct (z <? x) eqn:Ezx; [discriminate|].
    eapply IH; eauto.
Qed.

Lemma blt_tricho a : forall b, blt a b = true \/ a = b \/ blt b a = true.
Proof.
  induction a as [|x a IH]; intros [|y b]; cbn [blt]; auto.
  destruct (x <? y) eqn:Exy; [auto|]. destruct (y <? x) eqn:Eyx; [auto|].
  assert (x = y) by lia. subst y. destruct (IH b) as [H|[H|H]]; auto. subst. auto.
Qed.

Lemma blt_asym a b : blt a b = true -> blt b a = false.
Proof.
  intros H. destruct (blt b a) eqn:E; [|reflexivity].
  pose proof (blt_trans _ _ _ H E) as T. rewrite blt_irrefl in T. discriminate.
Qed.

Lemma ble_refl a : ble a a = true.
Proof. unfold ble. rewrite blt_irrefl. reflexivity. Qed.

Lemma ble_total a b : ble a b = false -> ble b a = true.
Proof. unfold ble. intros H. apply negb_false_iff in H. rewrite (blt_asym _ _ H). reflexivity. Qed.

Lemma ble_antisym a b : ble a b = true -> ble b a = true -> a = b.
Proof.
  unfold ble. intros H1 H2. apply negb_true_iff in H1, H2.
  destruct (blt_tricho a b) as [H|[H|H]]; congruence.
Qed.

Lemma ble_trans a b c : ble a b = true -> ble b c = true -> ble a c = true.
Proof.
  unfold ble. intros H1 H2. apply negb_true_iff in H1, H2. apply negb_true_iff.
  destruct (blt c a) eqn:E; [|reflexivity].
  destruct (blt_tricho a b) as [H|[H|H]]; [| subst; congruence | congruence].
  pose proof (blt_trans _ _ _ E H). congruence.
Qed.

(* ---------- insertion bsort ---------- *)
Definition bleP (a b : bytes) : Prop := ble a b = true.

Lemma insert_perm x l : Permutation (x :: l) (insert x l).
Proof.
  induction l as [|y l IH]; cbn [insert]; [reflexivity|].
  destruct (ble x y); [reflexivity|]. rewrite perm_swap. constructor. exact IH.
Qed.

Lemma sort_perm l : Permutation l (bsort l).
Proof.
  induction l as [|x l IH]; cbn [bsort fold_right]; [reflexivity|].
  etransitivity; [|apply insert_perm]. constructor. exact IH.
Qed.

Lemma insert_sorted x l : StronglySorted bleP l -> StronglySorted bleP (insert x l).
Proof.
  induction 1 as [|y l Hs IH Hy]; cbn [insert]; [repeat constructor|].
  destruct (ble x y) eqn:E.
  - constructor; [constructor; assumption|]. constructor; [exact E|].
    eapply Forall_impl; [|exact Hy]. intros z Hz. eapply ble_trans; eauto.
  - constructor; [exact IH|].
    assert (P : Permutation (x :: l) (insert x l)) by apply insert_perm.
    eapply Permutation_Forall; [exact P|]. constructor; [apply ble_total; exact E|exact Hy].
Qed.

Lemma sort_sorted l : StronglySorted bleP (bsort l).
Proof. induction l as [|x l IH]; cbn [bsort fold_right]; [constructor|]. apply insert_sorted. exact IH. Qed.

Lemma sorted_perm_eq l : forall l', StronglySorted bleP l -> StronglySorted bleP l' -> Permutation l l' -> l = l'.
Proof.
  induction l as [|x l IH]; intros l' S1 S2 P.
  - apply Permutation_nil in P. congruence.
  - destruct l' as [|y l']; [apply Permutation_sym, Permutation_nil in P; discriminate|].
    inversion S1 as [|? ? S1' F1]; subst. inversion S2 as [|? ? S2' F2]; subst.
    assert (x = y).
    { assert (Hx : In x (y :: l')) by (eapply Permutation_in; [exact P|left; reflexivity]).
      assert (Hy : In y (x :: l)) by (eapply Permutation_in; [apply Permutation_sym; exact P|left; reflexivity]).
      destruct Hx as [->|Hx]; [reflexivity|]. destruct Hy as [->|Hy]; [reflexivity|].
      rewrite Forall_forall in F1, F2. apply ble_antisym; [apply F1; exact Hy|apply F2; exact Hx]. }
    subst y. f_equal. apply IH; auto. eapply Permutation_cons_inv; eauto.
Qed.

Lemma sort_perm_eq l l' : Permutation l l' -> bsort l = bsort l'.
Proof.
  intros P. apply sorted_perm_eq; try apply sort_sorted.
  etransitivity; [apply Permutation_sym, sort_perm|]. etransitivity; [exact P|apply sort_perm].
Qed.

Lemma existsb_perm {A} (f : A -> bool) l l' : Permutation l l' -> existsb f l = existsb f l'.
Proof.
  induction 1 as [|x l l' _ IH|x y l|l l' l'' _ IH1 _ IH2]; cbn [existsb]; try congruence.
  destruct (f x), (f y); reflexivity.
Qed.

Section WithSha.
Variable sha : bytes -> bytes.
Notation finish := (finish sha).
Notation results := (results sha).
Notation hash_spec := (hash_spec sha).
Notation proc := (proc sha).
Notation step := (step sha).
Notation run_pool := (run_pool sha).
Notation hash_run := (hash_run sha).
Notation preimage := (preimage).

Lemma finish_perm a b : Permutation a b -> finish a = finish b.
Proof.
  intros P. unfold Hash.finish, Hash.preimage. rewrite (existsb_perm _ _ _ P).
  rewrite (sort_perm_eq (map item a) (map item b)) by (apply Permutation_map; exact P). reflexivity.
Qed.

Lemma results_app fs a b : results fs (a ++ b) = results fs a ++ results fs b.
Proof. unfold Hash.results. apply flat_map_app. Qed.

Lemma results_perm fs l l' : Permutation l l' -> Permutation (results fs l) (results fs l').
Proof.
  induction 1 as [|x l l' _ IH|x y l|l l' l'' _ IH1 _ IH2]; unfold Hash.results in *; cbn [flat_map].
  - reflexivity.
  - apply Permutation_app_head. exact IH.
  - rewrite !app_assoc. apply Permutation_app_tail. apply Permutation_app_comm.
  - etransitivity; eauto.
Qed.

(* C04: the digest does not depend on the order of the list *)
Lemma hash_spec_perm fs l l' : Permutation l l' -> hash_spec fs l = hash_spec fs l'.
Proof. intros P. unfold Hash.hash_spec. apply finish_perm. apply results_perm. exact P. Qed.

(* C04: directories in the list are ignored *)
Definition not_dir (fs : fsys) (p : bytes) : bool := match fs p with Directory => false | _ => true end.
Lemma results_cons fs p l : results fs (p :: l) = (match proc fs p with Some r => [r] | None => [] end) ++ results fs l.
Proof. reflexivity. Qed.
Lemma results_dirs fs l : results fs (filter (not_dir fs) l) = results fs l.
Proof.
  induction l as [|p l IH]; [reflexivity|]. cbn [filter]. unfold not_dir at 1.
  destruct (fs p) eqn:E.
  - rewrite !results_cons, IH. reflexivity.
  - rewrite results_cons, IH. unfold Hash.proc. rewrite E. reflexivity.
  - rewrite !results_cons, IH. reflexivity.
Qed.
Lemma hash_spec_dirs fs l : hash_spec fs (filter (not_dir fs) l) = hash_spec fs l.
Proof. unfold Hash.hash_spec. rewrite results_dirs. reflexivity. Qed.

(* C18: an unreadable file gives an error, never a digest *)
Lemma results_in_err fs l p : In p l -> fs p = Unreadable -> In (RErr p) (results fs l).
Proof.
  intros Hin E. unfold Hash.results. apply in_flat_map. exists p. split; [exact Hin|].
  unfold Hash.proc. rewrite E. left. reflexivity.
Qed.
Lemma hash_spec_error fs l p : In p l -> fs p = Unreadable -> hash_spec fs l = HashError.
Proof.
  intros Hin E. unfold Hash.hash_spec, Hash.finish.
  assert (X : existsb is_err (results fs l) = true).
  { apply existsb_exists. exists (RErr p). split; [eapply results_in_err; eauto|reflexivity]. }
  rewrite X. reflexivity.
Qed.
Lemma hash_spec_digest fs l : (forall p, In p l -> fs p <> Unreadable) -> exists d, hash_spec fs l = Digest d.
Proof.
  intros H. unfold Hash.hash_spec, Hash.finish.
  assert (X : existsb is_err (results fs l) = false).
  { destruct (existsb is_err (results fs l)) eqn:E; [|reflexivity]. exfalso.
    apply existsb_exists in E. destruct E as (r & Hr & Er). unfold Hash.results in Hr. apply in_flat_map in Hr.
    destruct Hr as (p & Hp & Hr). unfold Hash.proc in Hr. specialize (H p Hp).
    destruct (fs p); cbn in Hr; try tauto; destruct Hr as [<-|[]]; discriminate. }
  rewrite X. eauto.
Qed.

(* ---------- the worker pool ---------- *)
Definition held (ws : list wst) : list res := flat_map (fun w => match w with Hold r => [r] | _ => [] end) ws.
Definition nhold (ws : list wst) : nat := length (filter wst_hold ws).
Definition nlive (ws : list wst) : nat := length (filter (fun w => negb (wst_exited w)) ws).
Definition b2n (b : bool) : nat := if b then 0%nat else 1%nat.

Definition mu (st : pool) : nat :=
  (3 * length (todo st) + 2 * nhold (ws st) + nlive (ws st) + b2n (jclosed st) + b2n (rclosed st) + b2n (fin st))%nat.

Lemma set_nth_length {A} i (x : A) l : length (set_nth i x l) = length l.
Proof. revert i; induction l as [|y l IH]; intros [|i]; cbn; auto. Qed.

Lemma held_set_idle_hold i r : forall ws, nth_error ws i = Some Idle -> Permutation (held (set_nth i (Hold r) ws)) (r :: held ws).
Proof.
  induction i as [|i IH]; intros [|w ws] H; cbn in H; try discriminate.
  - inversion H; subst. reflexivity.
  - cbn [set_nth]. unfold held in *. cbn [flat_map]. rewrite (IH ws H).
    destruct w; cbn [app]; try reflexivity. apply perm_swap.
Qed.
Lemma held_set_hold_idle i r : forall ws, nth_error ws i = Some (Hold r) -> Permutation (r :: held (set_nth i Idle ws)) (held ws).
Proof.
  induction i as [|i IH]; intros [|w ws] H; cbn in H; try discriminate.
  - inversion H; subst. reflexivity.
  - cbn [set_nth]. unfold held in *. cbn [flat_map]. rewrite <- (IH ws H).
    destruct w; cbn [app]; try reflexivity. apply perm_swap.
Qed.
Lemma held_set_idle_same i w' : forall ws, nth_error ws i = Some Idle -> wst_hold w' = false -> held (set_nth i w' ws) = held ws.
Proof.
  induction i as [|i IH]; intros [|w ws] H Hw; cbn in H; try discriminate.
  - inversion H; subst. destruct w'; try discriminate; reflexivity.
  - cbn [set_nth]. unfold held in *. cbn [flat_map]. rewrite (IH ws H Hw). reflexivity.
Qed.

Lemma count_set_nth (f : wst -> bool) i w w' : forall ws, nth_error ws i = Some w ->
  (length (filter f (set_nth i w' ws)) + (if f w then 1 else 0) = length (filter f ws) + (if f w' then 1 else 0))%nat.
Proof.
  induction i as [|i IH]; intros [|v ws] H; cbn in H; try discriminate.
  - inversion H; subst. cbn [set_nth filter]. destruct (f w), (f w'); cbn [length]; lia.
  - cbn [set_nth filter]. specialize (IH ws H). destruct (f v); cbn [length]; lia.
Qed.

Lemma forallb_set_nth (f : wst -> bool) i w' : forall ws, forallb f ws = true -> f w' = true -> forallb f (set_nth i w' ws) = true.
Proof.
  induction i as [|i IH]; intros [|v ws] H Hw; cbn in *; auto.
  - apply andb_true_iff in H. destruct H as [_ H]. rewrite Hw, H. reflexivity.
  - apply andb_true_iff in H. destruct H as [H1 H2]. rewrite H1. cbn. apply IH; auto.
Qed.

Record PInv (fs : fsys) (ncpu : nat) (files : list bytes) (st : pool) : Prop := {
  pi_sent : exists sent, files = sent ++ todo st /\ Permutation (acc st ++ held (ws st)) (results fs sent);
  pi_jc : jclosed st = true -> todo st = [];
  pi_ex : jclosed st = false -> forallb (fun w => negb (wst_exited w)) (ws st) = true;
  pi_rc : rclosed st = true -> forallb wst_exited (ws st) = true;
  pi_fin : fin st = true -> rclosed st = true;
  pi_w : length (ws st) = Nat.min ncpu (length files)
}.

Lemma held_exited ws : forallb wst_exited ws = true -> held ws = [].
Proof.
  induction ws as [|w ws IH]; [reflexivity|]. cbn [forallb]. intros H. apply andb_true_iff in H. destruct H as [H1 H2].
  unfold held in *. cbn [flat_map]. rewrite (IH H2). destruct w; try discriminate. reflexivity.
Qed.

Lemma repeat_w_props n : length (repeat_w n) = n /\ held (repeat_w n) = [] /\
  forallb (fun w => negb (wst_exited w)) (repeat_w n) = true /\ nhold (repeat_w n) = 0%nat /\ nlive (repeat_w n) = n.
Proof.
  induction n as [|n (A & B & C & D & E)]; [repeat split|]. cbn [repeat_w].
  unfold nhold, nlive, held in *. cbn. repeat split; auto.
Qed.

Lemma init_inv fs ncpu files : PInv fs ncpu files (init_pool ncpu files).
Proof.
  destruct (repeat_w_props (Nat.min ncpu (length files))) as (A & B & C & D & E).
  constructor; cbn [init_pool todo jclosed ws rclosed acc fin]; try discriminate; auto.
  exists []. split; [reflexivity|]. rewrite B. reflexivity.
Qed.

Lemma init_mu ncpu files : mu (init_pool ncpu files) = (3 * length files + Nat.min ncpu (length files) + 3)%nat.
Proof.
  destruct (repeat_w_props (Nat.min ncpu (length files))) as (A & B & C & D & E).
  unfold mu. cbn [init_pool todo jclosed ws rclosed acc fin b2n]. rewrite D, E. lia.
Qed.

Lemma in_all_trs st t : In t (all_trs st) <->
  match t with Send i | Exit i | Collect i => (i < length (ws st))%nat | _ => True end.
Proof.
  unfold all_trs. rewrite !in_app_iff, !in_map_iff. cbn [In].
  split.
  - intros [(i & <- & Hi)|[[<-|[]]|[(i & <- & Hi)|[(i & <- & Hi)|[<-|[<-|[]]]]]]]; try exact I; apply in_seq in Hi; lia.
  - destruct t as [i| |i|i| |]; intros H.
    + left. exists i. split; [reflexivity|apply in_seq; lia].
    + right. left. auto.
    + right. right. left. exists i. split; [reflexivity|apply in_seq; lia].
    + right. right. right. left. exists i. split; [reflexivity|apply in_seq; lia].
    + right. right. right. right. auto.
    + right. right. right. right. auto.
Qed.

Lemma enabled_in st t : In t (enabled st) <-> enabled_b st t = true /\ In t (all_trs st).
Proof. unfold enabled. rewrite filter_In. tauto. Qed.

Lemma nth_error_some_lt {A} (l : list A) i x : nth_error l i = Some x -> (i < length l)%nat.
Proof. intros H. apply nth_error_Some. congruence. Qed.

(* every enabled transition preserves the invariant and decreases the measure *)
Lemma step_ok fs ncpu files st t : PInv fs ncpu files st -> enabled_b st t = true ->
  PInv fs ncpu files (step fs st t) /\ (mu (step fs st t) < mu st)%nat.
Proof.
  intros [(sent & Hf & Hp) Hjc Hex Hrc Hfin Hw] En.
  destruct t as [i| |i|i| |]; cbn [enabled_b] in En.
  - (* Send *)
    apply andb_true_iff in En. destruct En as [E1 E2].
    destruct (todo st) as [|p rest] eqn:Etodo; [discriminate|].
    destruct (nth_error (ws st) i) as [[| |]|] eqn:Ei; try discriminate.
    assert (Jc : jclosed st = false) by (destruct (jclosed st); [specialize (Hjc eq_refl); discriminate|reflexivity]).
    cbn [Hash.step]. rewrite Etodo.
    split.
    + constructor; cbn [todo jclosed ws rclosed acc fin]; auto.
      * exists (sent ++ [p]). split; [rewrite <- app_assoc; exact Hf|].
        rewrite results_app. unfold Hash.results at 2. cbn [flat_map]. rewrite app_nil_r.
        destruct (proc fs p) as [r|] eqn:Ep.
        -- rewrite (held_set_idle_hold i r _ Ei). rewrite <- Hp.
           rewrite <- Permutation_middle. rewrite (Permutation_app_comm _ [r]). reflexivity.
        -- rewrite (held_set_idle_same i Idle _ Ei eq_refl), app_nil_r. exact Hp.
      * intros J. congruence.
      * intros _. apply forallb_set_nth; [apply Hex; exact Jc|]. destruct (proc fs p); reflexivity.
      * intros R. specialize (Hrc R). exfalso. clear - Hrc Ei.
        revert i Ei. induction (ws st) as [|w l IH]; intros [|i] Ei; cbn in *; try discriminate.
        -- inversion Ei; subst. discriminate.
        -- apply andb_true_iff in Hrc. destruct Hrc. eapply IH; eauto.
      * rewrite set_nth_length. exact Hw.
    + unfold mu. cbn [todo jclosed ws rclosed acc fin length].
      pose proof (count_set_nth wst_hold i Idle (match proc fs p with Some r => Hold r | None => Idle end) _ Ei) as C1.
      pose proof (count_set_nth (fun w => negb (wst_exited w)) i Idle (match proc fs p with Some r => Hold r | None => Idle end) _ Ei) as C2.
      unfold nhold, nlive. rewrite Etodo. cbn [length]. destruct (proc fs p); cbn in C1, C2; lia.
  - (* CloseJobs *)
    apply andb_true_iff in En. destruct En as [E1 E2]. apply negb_true_iff in E2.
    destruct (todo st) eqn:Etodo; [|discriminate].
    split.
    + constructor; cbn [Hash.step todo jclosed ws rclosed acc fin]; auto.
      exists sent. split; [rewrite Etodo; exact Hf|exact Hp].
    + unfold mu. cbn [Hash.step todo jclosed ws rclosed acc fin]. rewrite E2. cbn [b2n]. lia.
  - (* Exit *)
    apply andb_true_iff in En. destruct En as [E1 E2].
    destruct (nth_error (ws st) i) as [[| |]|] eqn:Ei; try discriminate.
    split.
    + constructor; cbn [Hash.step todo jclosed ws rclosed acc fin]; auto.
      * exists sent. split; [exact Hf|]. rewrite (held_set_idle_same i Exited _ Ei eq_refl). exact Hp.
      * intros J. congruence.
      * intros R. apply forallb_set_nth; auto.
      * rewrite set_nth_length. exact Hw.
    + unfold mu. cbn [Hash.step todo jclosed ws rclosed acc fin].
      pose proof (count_set_nth wst_hold i Idle Exited _ Ei) as C1.
      pose proof (count_set_nth (fun w => negb (wst_exited w)) i Idle Exited _ Ei) as C2.
      unfold nhold, nlive. cbn in C1, C2. lia.
  - (* Collect *)
    apply andb_true_iff in En. destruct En as [E1 E2]. apply negb_true_iff in E1.
    destruct (nth_error (ws st) i) as [[|r|]|] eqn:Ei; try discriminate.
    cbn [Hash.step]. rewrite Ei.
    split.
    + constructor; cbn [todo jclosed ws rclosed acc fin]; auto.
      * exists sent. split; [exact Hf|]. rewrite <- Hp, <- app_assoc. apply Permutation_app_head.
        cbn [app]. apply held_set_hold_idle. exact Ei.
      * intros J. apply forallb_set_nth; auto.
      * intros R. specialize (Hrc R). exfalso. clear - Hrc Ei.
        revert i Ei. induction (ws st) as [|w l IH]; intros [|i] Ei; cbn in *; try discriminate.
        -- inversion Ei; subst. discriminate.
        -- apply andb_true_iff in Hrc. destruct Hrc. eapply IH; eauto.
      * rewrite set_nth_length. exact Hw.
    + unfold mu. cbn [todo jclosed ws rclosed acc fin].
      pose proof (count_set_nth wst_hold i (Hold r) Idle _ Ei) as C1.
      pose proof (count_set_nth (fun w => negb (wst_exited w)) i (Hold r) Idle _ Ei) as C2.
      unfold nhold, nlive. cbn in C1, C2. lia.
  - (* CloseResults *)
    apply andb_true_iff in En. destruct En as [E1 E2]. apply negb_true_iff in E2.
    split.
    + constructor; cbn [Hash.step todo jclosed ws rclosed acc fin]; auto.
      * exists sent. auto.
    + unfold mu. cbn [Hash.step todo jclosed ws rclosed acc fin]. rewrite E2. cbn [b2n]. lia.
  - (* Finish *)
    apply andb_true_iff in En. destruct En as [E1 E2]. apply negb_true_iff in E2.
    split.
    + constructor; cbn [Hash.step todo jclosed ws rclosed acc fin]; auto.
      * exists sent. auto.
    + unfold mu. cbn [Hash.step todo jclosed ws rclosed acc fin]. rewrite E2. cbn [b2n]. lia.
Qed.

Lemma not_enabled st t : enabled st = [] -> In t (all_trs st) -> enabled_b st t = false.
Proof.
  intros H Hin. destruct (enabled_b st t) eqn:E; [|reflexivity].
  assert (In t (enabled st)) by (apply enabled_in; auto). rewrite H in *. contradiction.
Qed.

Lemma find_state (ws : list wst) :
  (exists i, nth_error ws i = Some Idle) \/ (exists i r, nth_error ws i = Some (Hold r)) \/ forallb wst_exited ws = true.
Proof.
  induction ws as [|w ws [(i & H)|[(i & r & H)|H]]].
  - right. right. reflexivity.
  - left. exists (S i). exact H.
  - right. left. exists (S i), r. exact H.
  - destruct w as [|r|].
    + left. exists 0%nat. reflexivity.
    + right. left. exists 0%nat, r. reflexivity.
    + right. right. cbn. exact H.
Qed.

(* progress: a state without enabled transitions is final (no deadlock), provided there is at least one CPU *)
Lemma progress fs ncpu files st : (1 <= ncpu)%nat -> PInv fs ncpu files st -> enabled st = [] -> is_final st = true.
Proof.
  intros Hn [(sent & Hf & Hp) Hjc Hex Hrc Hfin Hw] En.
  assert (NE : forall t, In t (all_trs st) -> enabled_b st t = false) by (intros; apply not_enabled; auto).
  pose proof (fun i H => NE (Send i) (proj2 (in_all_trs st (Send i)) H)) as NSend.
  pose proof (fun i H => NE (Exit i) (proj2 (in_all_trs st (Exit i)) H)) as NExit.
  pose proof (fun i H => NE (Collect i) (proj2 (in_all_trs st (Collect i)) H)) as NColl.
  pose proof (NE CloseJobs (proj2 (in_all_trs st CloseJobs) I)) as NCJ.
  pose proof (NE CloseResults (proj2 (in_all_trs st CloseResults) I)) as NCR.
  pose proof (NE Finish (proj2 (in_all_trs st Finish) I)) as NF.
  cbn [enabled_b] in *.
  assert (Fin_noHold : fin st = true -> forall i r, nth_error (ws st) i = Some (Hold r) -> False).
  { intros F i r Hi. specialize (Hrc (Hfin F)). clear - Hrc Hi. revert i Hi.
    induction (ws st) as [|w l IH]; intros [|i] Hi; cbn in *; try discriminate.
    - inversion Hi; subst. discriminate.
    - apply andb_true_iff in Hrc. destruct Hrc. eapply IH; eauto. }
  assert (NoHold : forall i r, nth_error (ws st) i = Some (Hold r) -> False).
  { intros i r Hi. specialize (NColl i (nth_error_some_lt _ _ _ Hi)). rewrite Hi in NColl.
    rewrite andb_true_r in NColl. apply negb_false_iff in NColl. eapply Fin_noHold; eauto. }
  destruct (todo st) as [|p rest] eqn:Etodo.
  - (* nothing left to send *)
    cbn [is_nil_b andb negb] in NCJ. apply negb_false_iff in NCJ.
    destruct (find_state (ws st)) as [(i & Hi)|[(i & r & Hi)|Hall]].
    + specialize (NExit i (nth_error_some_lt _ _ _ Hi)). rewrite Hi, NCJ in NExit. discriminate.
    + exfalso. eapply NoHold; eauto.
    + rewrite Hall in NCR. cbn [andb] in NCR. apply negb_false_iff in NCR.
      rewrite NCR in NF. cbn [andb] in NF. apply negb_false_iff in NF.
      unfold is_final. rewrite Etodo, NCJ, Hall, NCR, NF. reflexivity.
  - (* something left to send: impossible *)
    exfalso.
    assert (Jc : jclosed st = false) by (destruct (jclosed st); [specialize (Hjc eq_refl); discriminate|reflexivity]).
    destruct (find_state (ws st)) as [(i & Hi)|[(i & r & Hi)|Hall]].
    + specialize (NSend i (nth_error_some_lt _ _ _ Hi)). rewrite Hi in NSend. discriminate.
    + eapply NoHold; eauto.
    + specialize (Hex Jc).
      assert (L : length (ws st) = 0%nat).
      { clear - Hall Hex. destruct (ws st) as [|w l]; [reflexivity|]. cbn in *.
        apply andb_true_iff in Hall, Hex. destruct Hall as [A _], Hex as [B _]. rewrite A in B. discriminate. }
      rewrite Hw, Hf, app_length in L. cbn [length] in L. lia.
Qed.

Lemma run_pool_ok fs ncpu files sched : (1 <= ncpu)%nat -> forall fuel k st,
  PInv fs ncpu files st -> (mu st < fuel)%nat ->
  exists st', run_pool fs fuel sched k st = Done (finish (acc st')) /\ PInv fs ncpu files st' /\ is_final st' = true.
Proof.
  intros Hn. induction fuel as [|fuel IH]; intros k st HI Hmu; [lia|].
  cbn [Hash.run_pool]. destruct (enabled st) as [|t0 ts] eqn:En.
  - pose proof (progress _ _ _ _ Hn HI En) as F. rewrite F. exists st. auto.
  - set (t := nth (sched k mod length (t0 :: ts)) (t0 :: ts) t0).
    assert (Hin : In t (enabled st)).
    { rewrite En. apply nth_In. apply Nat.mod_upper_bound. cbn [length]. lia. }
    apply enabled_in in Hin. destruct Hin as [Hen _].
    destruct (step_ok fs ncpu files st t HI Hen) as [HI' Hlt].
    apply IH; [exact HI'|lia].
Qed.

(* the final accumulator holds, as a multiset, the results of all files *)
Lemma final_acc fs ncpu files st : PInv fs ncpu files st -> is_final st = true -> Permutation (acc st) (results fs files).
Proof.
  intros [(sent & Hf & Hp) _ _ _ _ _] F. unfold is_final in F. repeat (apply andb_true_iff in F; destruct F as [F ?]).
  destruct (todo st); [|discriminate]. rewrite app_nil_r in Hf. subst sent.
  rewrite held_exited in Hp by assumption. rewrite app_nil_r in Hp. exact Hp.
Qed.

(* C18 / C04: every schedule terminates, without deadlock, with all goroutines finished, in the specified outcome *)
Theorem hash_run_spec fs ncpu files sched : (1 <= ncpu)%nat -> hash_run fs ncpu files sched = Done (hash_spec fs files).
Proof.
  intros Hn. unfold Hash.hash_run.
  destruct (run_pool_ok fs ncpu files sched Hn (pool_fuel ncpu files) 0%nat (init_pool ncpu files) (init_inv _ _ _))
    as (st' & R & HI & F).
  - rewrite init_mu. unfold pool_fuel. lia.
  - rewrite R. f_equal. unfold Hash.hash_spec. apply finish_perm. eapply final_acc; eauto.
Qed.

(* ---------- change sensitivity (C04), "up to SHA-256 collisions" made explicit ---------- *)
Definition collision : Prop := exists x y : bytes, x <> y /\ sha x = sha y.

Lemma bytes_eq_dec (a b : bytes) : {a = b} + {a <> b}.
Proof. apply list_eq_dec. apply N.eq_dec. Qed.

Lemma hexdigit_inj a b : hexdigit a = hexdigit b -> a = b.
Proof. unfold hexdigit. destruct (a <? 10) eqn:A, (b <? 10) eqn:B; lia. Qed.

Lemma hex_encode_inj a : forall b, hex_encode a = hex_encode b -> a = b.
Proof.
  unfold hex_encode. induction a as [|x a IH]; intros [|y b] H; cbn [map concat app] in H; try discriminate; [reflexivity|].
  inversion H as [[H1 H2 H3]]. apply hexdigit_inj in H1, H2. f_equal; [|apply IH; exact H3].
  assert (x = 16 * (x / 16) + x mod 16) by (apply N.div_mod; lia).
  assert (y = 16 * (y / 16) + y mod 16) by (apply N.div_mod; lia). lia.
Qed.

Lemma finish_eq a b d : finish a = Digest d -> finish b = Digest d -> preimage a = preimage b \/ collision.
Proof.
  unfold Hash.finish. destruct (existsb is_err a); [discriminate|]. destruct (existsb is_err b); [discriminate|].
  intros H1 H2. rewrite <- H2 in H1. inversion H1 as [H]. apply hex_encode_inj in H.
  destruct (bytes_eq_dec (preimage a) (preimage b)) as [E|NE]; [left; exact E|right].
  exists (preimage a), (preimage b). split; assumption.
Qed.

Lemma concat_length_perm (l l' : list bytes) : Permutation l l' -> length (concat l) = length (concat l').
Proof.
  induction 1 as [|x l l' _ IH|x y l|l l' l'' _ IH1 _ IH2]; cbn [concat]; rewrite ?app_length; try lia.
Qed.

Lemma preimage_length a : length (preimage a) = length (concat (map item a)).
Proof. unfold Hash.preimage. apply concat_length_perm. apply Permutation_sym, sort_perm. Qed.

(* adding (or, read right to left, removing) a regular file changes the digest *)
Lemma add_file_changes fs p c l d : fs p = Regular c -> (0 < length p)%nat ->
  hash_spec fs (p :: l) = Digest d -> hash_spec fs l = Digest d -> collision.
Proof.
  intros Hp Hlen H1 H2. unfold Hash.hash_spec in *.
  destruct (finish_eq _ _ _ H1 H2) as [E|C]; [|exact C]. exfalso.
  apply (f_equal (@length N)) in E. rewrite !preimage_length in E.
  rewrite results_cons in E. unfold Hash.proc in E. rewrite Hp in E.
  cbn [app map concat item] in E. rewrite !app_length in E. lia.
Qed.

(* unique decoding of a concatenation of code words from a prefix-free set *)
Fixpoint is_prefix (a b : bytes) : bool :=
  match a, b with
  | [], _ => true
  | x :: a', y :: b' => (x =? y) && is_prefix a' b'
  | _ :: _, [] => false
  end.
Definition prefix_free (S : list bytes) : Prop :=
  forall x y, In x S -> In y S -> is_prefix x y = true -> x = y.

Lemma app_eq_prefix (x : bytes) : forall y u v, x ++ u = y ++ v -> is_prefix x y = true \/ is_prefix y x = true.
Proof.
  induction x as [|a x IH]; intros [|b y] u v H; cbn [is_prefix]; auto.
  cbn [app] in H. inversion H; subst. rewrite N.eqb_refl. cbn [andb]. eapply IH; eauto.
Qed.

Lemma concat_inj (l : list bytes) : forall l', prefix_free (l ++ l') -> Forall (fun x : bytes => x <> []) (l ++ l') ->
  concat l = concat l' -> l = l'.
Proof.
  induction l as [|x l IH]; intros [|y l'] PF NE H; cbn [concat] in H.
  - reflexivity.
  - exfalso. cbn [app] in NE. inversion NE as [|? ? Hy _]; subst. symmetry in H. apply app_eq_nil in H. destruct H. contradiction.
  - exfalso. inversion NE as [|? ? Hx _]; subst. apply app_eq_nil in H. destruct H. contradiction.
  - assert (x = y).
    { assert (Ix : In x ((x :: l) ++ y :: l')) by (left; reflexivity).
      assert (Iy : In y ((x :: l) ++ y :: l')) by (apply in_or_app; right; left; reflexivity).
      destruct (app_eq_prefix _ _ _ _ H) as [P|P]; [apply PF; auto|symmetry; apply PF; auto]. }
    subst y. f_equal. apply app_inv_head in H. apply IH; auto.
    + intros a b Ia Ib. apply PF; cbn [app]; right; apply in_app_or in Ia, Ib; apply in_or_app; cbn [In]; tauto.
    + cbn [app] in NE. inversion NE as [|? ? _ NE']; subst. rewrite Forall_forall in *. intros a Ia. apply NE'.
      apply in_app_or in Ia. apply in_or_app. cbn [In]. tauto.
Qed.

(* the digest determines the multiset of (content hash ++ path) items, whenever those items are uniquely decodable *)
Lemma digest_injective a b d :
  prefix_free (map item a ++ map item b) -> Forall (fun x : bytes => x <> []) (map item a ++ map item b) ->
  finish a = Digest d -> finish b = Digest d -> Permutation (map item a) (map item b) \/ collision.
Proof.
  intros PF NE H1 H2. destruct (finish_eq _ _ _ H1 H2) as [E|C]; [left|right; exact C].
  unfold Hash.preimage in E.
  assert (Pa : Permutation (map item a) (bsort (map item a))) by apply sort_perm.
  assert (Pb : Permutation (map item b) (bsort (map item b))) by apply sort_perm.
  assert (bsort (map item a) = bsort (map item b)).
  { apply concat_inj; [| |exact E].
    - intros x y Ix Iy. apply PF; apply in_app_or in Ix, Iy; apply in_or_app.
      + destruct Ix as [Ix|Ix]; [left; eapply Permutation_in; [apply Permutation_sym; exact Pa|exact Ix]
                               |right; eapply Permutation_in; [apply Permutation_sym; exact Pb|exact Ix]].
      + destruct Iy as [Iy|Iy]; [left; eapply Permutation_in; [apply Permutation_sym; exact Pa|exact Iy]
                               |right; eapply Permutation_in; [apply Permutation_sym; exact Pb|exact Iy]].
    - eapply Permutation_Forall; [|exact NE]. apply Permutation_app; assumption. }
  etransitivity; [exact Pa|]. rewrite H. apply Permutation_sym. exact Pb.
Qed.

(* an item determines its (hash, path) pair when hashes have a fixed length *)
Lemma item_inj (h p h' p' : bytes) : length h = length h' -> h ++ p = h' ++ p' -> h = h' /\ p = p'.
Proof.
  revert h'. induction h as [|x h IH]; intros [|y h'] L H; cbn in *; try discriminate; auto.
  inversion H; subst. destruct (IH h') as [-> ->]; auto.
Qed.

End WithSha.
