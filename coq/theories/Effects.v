(* Model of what spok itself writes to the file system: app.clean (C12) and the write sites of every
   action (C19).  Absolute cleaned paths are lists of components, outermost first ("/" is []). *)
From Spok Require Import Base Paths Glob.
Open Scope N_scope.

Definition apath := list bytes.

Fixpoint seg_prefix (a b : apath) : bool :=          (* a is b or an ancestor of b *)
  match a, b with
  | [], _ => true
  | x :: a', y :: b' => bytes_eqb x y && seg_prefix a' b'
  | _ :: _, [] => false
  end.

(* the components of filepath.Abs(p) when the working directory is cwd *)
Definition abs_segs (cwd : apath) (p : bytes) : apath :=
  if is_rooted p then clean_loop true [] (comps p)
  else clean_loop true (rev cwd) (comps p).

(* the components of filepath.Join(root, lit) : lit is taken relative to root even when it begins with "/" *)
Definition join_segs (root : apath) (lit : bytes) : apath := clean_loop true (rev root) (comps lit).

(* os.RemoveAll(t) on a file system given as the list of existing paths *)
Definition remove_all (t : apath) (fs : list apath) : list apath := filter (fun q => negb (seg_prefix t q)) fs.

(* ---- app.clean ---- *)
Inductive output := OFile (lit : bytes) | ONamed (var : bytes) | OGlob (matches : list apath).

Definition spokfile_name : bytes := [115; 112; 111; 107; 102; 105; 108; 101].
Definition cache_dir_name : bytes := [46; 115; 112; 111; 107].

Fixpoint lookup_v (vs : list (bytes * bytes)) (n : bytes) : option bytes :=
  match vs with [] => None | (k, v) :: r => if bytes_eqb k n then Some v else lookup_v r n end.

(* the list toRemove; None when a named output is not a defined variable (clean then stops before removing anything) *)
Fixpoint targets (root cwd : apath) (vs : list (bytes * bytes)) (outs : list output) : option (list apath) :=
  match outs with
  | [] => Some []
  | o :: r =>
    match targets root cwd vs r with
    | None => None
    | Some ts =>
      match o with
      | OFile lit => Some (join_segs root lit :: ts)           (* task.New joined it to the spokfile's directory *)
      | ONamed n => match lookup_v vs n with Some v => Some (abs_segs cwd v :: ts) | None => None end
      | OGlob ms => Some (ms ++ ts)
      end
    end
  end.

(* the guard added by the repair: a target that is the spokfile, its directory or above is skipped *)
Definition guarded (root : apath) (t : apath) : bool := seg_prefix t (root ++ [spokfile_name]).

Definition apply_targets (root : apath) (ts : list apath) (fs : list apath) : list apath :=
  fold_left (fun acc t => if guarded root t then acc else remove_all t acc) ts fs.

(* --clean without a user-defined clean task *)
Definition clean_fs (root cwd : apath) (vs : list (bytes * bytes)) (outs : list output) (fs : list apath) : option (list apath) :=
  match targets root cwd vs outs with
  | None => None
  | Some ts => Some (apply_targets root (ts ++ [root ++ [cache_dir_name]]) fs)
  end.

(* ---- every action's write set (C19) ---- *)
Record options := { o_init : bool; o_fmt : bool; o_vars : bool; o_clean : bool; o_show : bool; o_quiet : bool; o_debug : bool }.
Record project := {
  p_found : bool;            (* a spokfile was found at or above the working directory *)
  p_loads : bool;            (* it parses and file.New succeeds *)
  p_has_clean : bool;        (* defines a task named clean *)
  p_has_default : bool;      (* defines a task named default *)
  p_cwd_has_spokfile : bool  (* the working directory itself holds a spokfile (for --init) *)
}.

Inductive wkind :=
| WNothing
| WCacheOnly                 (* only below <spokfile dir>/.spok *)
| WSpokfileOnly              (* only <spokfile dir>/spokfile, rewritten *)
| WInit                      (* <cwd>/spokfile created, <cwd>/.gitignore appended *)
| WCleanTargets.             (* the declared outputs and <spokfile dir>/.spok removed *)

(* App.Run's dispatch, in its order *)
Definition write_kind (o : options) (p : project) (ntasks : nat) : wkind :=
  if o_init o then (if p_cwd_has_spokfile p then WNothing else WInit)
  else if o_quiet o && o_debug o then WNothing
  else if negb (p_found p) then WNothing
  else if negb (p_loads p) then WNothing
  else if o_fmt o then WSpokfileOnly
  else if o_vars o then WNothing
  else if o_clean o then (if p_has_clean p then WCacheOnly else WCleanTargets)
  else if o_show o then WNothing
  else match ntasks with
       | O => if p_has_default p then WCacheOnly else WNothing
       | _ => WCacheOnly
       end.

(* may the path q (absolute) change under this kind of invocation? *)
Definition may_change (k : wkind) (root cwd : apath) (clean_targets : list apath) (q : apath) : bool :=
  match k with
  | WNothing => false
  | WCacheOnly => seg_prefix (root ++ [cache_dir_name]) q
  | WSpokfileOnly => if list_eq_dec (list_eq_dec N.eq_dec) q (root ++ [spokfile_name]) then true else false
  | WInit => (if list_eq_dec (list_eq_dec N.eq_dec) q (cwd ++ [spokfile_name]) then true else false)
             || (if list_eq_dec (list_eq_dec N.eq_dec) q (cwd ++ [[46; 103; 105; 116; 105; 103; 110; 111; 114; 101]]) then true else false)
  | WCleanTargets => existsb (fun t => negb (guarded root t) && seg_prefix t q) (clean_targets ++ [root ++ [cache_dir_name]])
  end.
