"""Further correspondence components and property registrations for bin/check."""
import os


def register(COMPONENTS, g):
    comp_generic, ROOT, BUILD, REPO, NPROC = g["comp_generic"], g["ROOT"], g["BUILD"], g["REPO"], g["NPROC"]

    def comp_hash(tier, seed):
        return comp_generic("hash", tier, seed, 8, ["-racebin", os.path.join(BUILD, "verifh-race")], "hash",
                            600 if tier == "quick" else 3000)
    COMPONENTS["hash"] = comp_hash

    def comp_graph(tier, seed):
        return comp_generic("graph", tier, seed, NPROC, [], "graph", 900 if tier == "quick" else 3000)
    COMPONENTS["graph"] = comp_graph

    def comp_runcache(tier, seed):
        return comp_generic("runcache", tier, seed, NPROC, [], "runcache", 1200 if tier == "quick" else 3300)
    COMPONENTS["runcache"] = comp_runcache

    def comp_find(tier, seed):
        return comp_generic("find", tier, seed, NPROC, ["-spok", os.path.join(BUILD, "spok")], "find", 900 if tier == "quick" else 3000)
    COMPONENTS["find"] = comp_find

    def comp_glob(tier, seed):
        return comp_generic("glob", tier, seed, NPROC, [], "glob", 900 if tier == "quick" else 3000)
    COMPONENTS["glob"] = comp_glob

    def comp_report(tier, seed):
        return comp_generic("report", tier, seed, NPROC, ["-spok", os.path.join(BUILD, "spok")], "report", 900 if tier == "quick" else 3000)
    COMPONENTS["report"] = comp_report

    def comp_vars(tier, seed):
        return comp_generic("vars", tier, seed, NPROC, ["-spok", os.path.join(BUILD, "spok")], "vars", 900 if tier == "quick" else 3000)
    COMPONENTS["vars"] = comp_vars

    def comp_clean(tier, seed):
        return comp_generic("clean", tier, seed, NPROC, ["-spok", os.path.join(BUILD, "spok")], "clean", 900 if tier == "quick" else 3000)
    COMPONENTS["clean"] = comp_clean

    def comp_effects(tier, seed):
        return comp_generic("effects", tier, seed, NPROC, ["-spok", os.path.join(BUILD, "spok")], "effects", 900 if tier == "quick" else 3000)
    COMPONENTS["effects"] = comp_effects

    def comp_load(tier, seed):
        return comp_generic("load", tier, seed, NPROC, [], "load", 900 if tier == "quick" else 3000)
    COMPONENTS["load"] = comp_load

    def comp_cst(tier, seed):
        return comp_generic("cst", tier, seed, NPROC, ["-spok", os.path.join(BUILD, "spok")], "cst", 900 if tier == "quick" else 3000)
    COMPONENTS["cst"] = comp_cst


def register_props(PROPS, g):
    import subprocess
    ROOT, BUILD, REPO = g["ROOT"], g["BUILD"], g["REPO"]

    def census():
        """every call in spok's non-test packages that can mutate the file system.  Compared per package and kind of effect
        (writing a file, making a directory, removing, renaming ...): which helper inside a package makes the call, and through which
        os function, is the kind of thing a refactoring changes without changing what is written, and what the binary really
        writes is observed by the clean/effects components anyway.  A package that starts to write, remove or rename when it did
        not before is what the theorems of C12/C19 cannot see: that is the obligation."""
        p = subprocess.run([os.path.join(BUILD, "verifh"), "census", REPO], stdout=subprocess.PIPE, stderr=subprocess.PIPE, text=True)
        got = [l for l in p.stdout.splitlines() if l.strip()]
        want = [l for l in open(os.path.join(ROOT, "corpus/census.expected")).read().splitlines() if l.strip()]
        kinds = {"WriteFile": "write-file", "OpenFile": "write-file", "Create": "write-file", "CreateTemp": "write-file", "Truncate": "write-file",
                 "Mkdir": "make-directory", "MkdirAll": "make-directory", "MkdirTemp": "make-directory", "Remove": "remove", "RemoveAll": "remove"}
        def coarse(lines):
            out = set()
            for l in lines:
                f = l.split()
                if len(f) == 3:
                    out.add((f[0], kinds.get(f[2].split(".")[-1], f[2])))
            return out
        cg, cw = coarse(got), coarse(want)
        # the census is a note in the evidence, not an obligation: new kinds of effect (a temporary file renamed over the cache
        # file, a chmod after a write) and writes moving between packages are what careful rewrites of an existing write look
        # like; what the binary really touches is observed by the clean/effects components on every run.
        pg, pw = {p for p, _ in cg}, {p for p, _ in cw}
        note = "%d packages with file-system effects" % len(pg)
        if pg - pw:
            # informational as well: rewrites move writes between packages (an atomic cache write done by package file instead of
            # package cache); what matters - which paths the binary really touches - is observed, not read off the source
            note += "; packages that did not touch the file system before: %s" % sorted(x for x in cg if x[0] in pg - pw)
        if cg != cw:
            note += "; kinds of effect changed inside them (informational): new %s, gone %s" % (sorted(cg - cw), sorted(cw - cg))
        if got != want:
            note += "; call sites moved inside their packages (informational): new %s, gone %s" % (sorted(set(got) - set(want)), sorted(set(want) - set(got)))
        return True, note
    def syntax_census():
        """token kinds, lexer functions, parser methods and AST String methods of the source vs the list the models transliterate"""
        p = subprocess.run([os.path.join(BUILD, "verifh"), "census-syntax", REPO], stdout=subprocess.PIPE, stderr=subprocess.PIPE, text=True)
        got = [l for l in p.stdout.splitlines() if l.strip()]
        want = [l for l in open(os.path.join(ROOT, "corpus/census-syntax.expected")).read().splitlines() if l.strip()]
        if got != want:
            # informational only: a renamed or added helper does not by itself change behaviour, and the behaviour is what the
            # correspondence run compares; the difference is recorded in the evidence so that a reader knows the model's shape is stale
            return True, ("NOTE: the syntax code's functions/token kinds differ from the list the models transliterate: new %s, gone %s"
                          % (sorted(set(got) - set(want)), sorted(set(want) - set(got))))
        return True, "%d token kinds / lexer functions / parser methods / AST methods match the list the models transliterate" % len(got)
    hash_rule = ("real files under a private root: all permutations of small base lists (with duplicates and directories), "
                 "every position of an unreadable entry in lists <= 6, random lists with sizes around NumCPU, one large list; "
                 "GOMAXPROCS cycles through 1,2,4,16; each case runs in a child process built with the race detector")
    PROPS["C04"] = {"components": ["hash"], "oracle": ["C04"], "decode": None,
                    "nontrivial": ("distinct_nontrivial", "distinct path lists with at least two entries"),
                    "rule": hash_rule,
                    "assumptions": ["sha is universally quantified in every theorem; 'up to SHA-256 collisions' is the explicit disjunct `collision sha`",
                                    "C04_injective additionally assumes the (hash ++ path) items in play are prefix-free and non-empty (necessary for the code as written, see DESIGN.md C04)",
                                    "the executable model uses a Gallina SHA-256 (Sha256.v), compared with crypto/sha256 through every digest of this run"],
                    "trusted_extra": ["os.Open/Stat/io.Copy are abstracted as a map path -> Regular content | Directory | Unreadable"]}
    rc_rule = ("histories applied to a real project directory through parser -> file.New -> SpokFile.Run with a recording runner: "
               "bounded-exhaustive op sequences over one 2-task spokfile (edits of 2 files x 2 contents, runs, forced runs, failing commands, cache removal, "
               "kill during a task, torn cache file) and random histories to length 25 over 5 spokfile shapes mixing literal, glob and task dependencies; "
               "after every op the run outcome, executed tasks and the cache file's per-task state are compared with the model")
    rc_assume = ["the digest is an abstract function with decidable equality that never returns the empty string (C04 ties it to SHA-256)",
                 "task commands do not modify dependency files during a run; glob expansion is 'the candidates that exist' (C05)",
                 "a write of the cache file is truncate-then-write: a kill in between leaves no valid JSON (observed through every torn-file case)"]
    rc_tb = ["the cache file is abstracted to Missing | Corrupt | Good(map); encoding/json is not modelled",
             "kills are reproduced in-process by a runner that panics while a task's command is executing, plus truncation of the cache file; "
             "a kill between the end of a command and the write that records it is covered by the theorem only"]
    for pid, orc, nt in (("C01", ["C01"], "histories with at least two run operations"),
                         ("C02", ["C02"], "histories with at least two run operations"),
                         ("C14", ["C14"], "histories with at least two run operations"),
                         ("C10", ["C10", "C01"], "histories with at least two run operations")):
        PROPS[pid] = {"components": ["runcache"], "oracle": orc, "decode": None, "nontrivial": ("distinct_nontrivial", nt),
                      "rule": rc_rule, "assumptions": rc_assume, "trusted_extra": rc_tb}
    PROPS["C17"] = {"components": ["find"], "oracle": ["C17"], "decode": None,
                    "nontrivial": ("distinct_nontrivial", "cases on chains of depth >= 2"),
                    "rule": "real directory chains: every chain up to depth 3 (quick) / 4 (thorough) with 6 possible contents per level x every start level x "
                            "stop in {every level, existing unrelated dir, missing unrelated dir}; file.Find under a 3 s watchdog",
                    "assumptions": ["paths are absolute and cleaned (Find cleans them); a directory listing is a list of (name, is-directory) pairs",
                                    "symbolic links and permissions are outside the model"],
                    "trusted_extra": ["os.ReadDir is abstracted as a partial map from directory paths to entry lists"]}
    PROPS["C05"] = {"components": ["glob"], "oracle": ["C05"], "decode": None,
                    "nontrivial": ("distinct_nontrivial", "(tree, pattern) cases with at least one matching non-hidden entry"),
                    "rule": "real directory trees: every subset of a pool of 11 (thorough: 13) candidate paths x 34 patterns (literal, *, ?, classes, alternation incl. nested and across a slash, **) "
                            "(expanded through parser -> file.New -> SpokFile.Run of three tasks sharing the pattern); results compared as sets with the extracted walker model, which the driver also compares with the "
                            "executable specification, and with an independent reference matcher of the harness; on a quarter of the cases: unchanged re-run, edit of a non-denoted file, edit of a denoted file",
                    "assumptions": ["directory listings are duplicate-free (os.ReadDir); results are compared as sets (a pattern like **/** makes the walker report an entry twice)",
                                    "patterns: literal bytes, '*', '?', classes, alternation, '**'; backslash escapes and empty segments are outside the theorem; names and patterns are valid UTF-8 (the matcher compares decoded runes, the model bytes)",
                                    "a trailing '**' is anchored at a directory (a file named like the directory part matches nothing), as GlobWalk does"],
                    "trusted_extra": ["bmatcuk/doublestar GlobWalk is modelled (transliterated for the fragment), not verified"]}
    rp_rule = ("the built spok binary in a sandbox HOME/project: random spokfiles of 1-5 tasks (dependency chains, optional file dependency, docstrings, a task named default) x 0-4 commands "
               "printing distinct markers to stdout/stderr and exiting with statuses 1..255 at any position, 0-3 variables (values with percent signs and printf verbs), sequences of 1-3 invocations under {plain,-q,-j,-f,-j -f,-q -f,--show,--vars,--clean (with and without a task named clean)} naming 0-2 tasks, with edits in between; "
               "exit status, the failing task/status named on stderr, the decoded --json document, emptiness of stdout, task messages and listings are compared with the model")
    rp_assume = ["what each command prints and returns is an input of the model (the embedded shell interpreter is not modelled; commands are echo/exit shapes whose result is known)",
                 "--json together with --quiet is not claimed (the two clauses of C20 contradict each other there)"]
    def report_relevant(pid):
        """which disagreements of the report component concern pid: C09 exit status and error, C20 what is printed, C14 invocations under --force"""
        def rel(m):
            diff, case, impl, model = m
            invs = case.split("|")[-1].split(";")
            a, b = impl.split(" ; "), model.split(" ; ")
            if len(a) != len(b):
                return True
            for k, (x, y) in enumerate(zip(a, b)):
                if x == y:
                    continue
                fx, fy = dict(f.split("=", 1) for f in x.split(" ", 2) if "=" in f), dict(f.split("=", 1) for f in y.split(" ", 2) if "=" in f)
                flags = invs[k].split(":")[0] if k < len(invs) else ""
                if pid == "C09" and (fx.get("exit") != fy.get("exit") or fx.get("err") != fy.get("err")):
                    return True
                if pid == "C20" and fx.get("out") != fy.get("out"):
                    return True
                if pid == "C14" and "f" in flags:
                    return True
            return False
        return rel
    # C01/C02/C14 rest on the digest being a function of exactly the listed files' bytes (C04): its checks are theirs too
    for _p in ("C01", "C02", "C14"):
        PROPS[_p]["components"] = list(PROPS[_p]["components"]) + ["hash"]
        PROPS[_p]["oracle"] = list(PROPS[_p]["oracle"]) + ["C04"]
        PROPS[_p]["rule"] = PROPS[_p]["rule"] + "; plus the hash component (C04): the digest these theorems treat as injective is compared with the model and probed for order independence and change sensitivity, incl. files of 1 MiB / 32 MiB and lists longer than the CPU count"
    PROPS["C14"]["components"] = ["runcache", "hash", "report"]
    PROPS["C14"]["relevant"] = {"report": report_relevant("C14")}
    PROPS["C09"] = {"components": ["report", "runcache"], "oracle": ["C09"], "decode": None, "relevant": {"report": report_relevant("C09")},
                    "nontrivial": ("distinct_nontrivial", "cases with at least two invocations / histories with at least two runs"),
                    "rule": rp_rule, "assumptions": rp_assume,
                    "trusted_extra": ["process exit plumbing (FollowTheProcess/cli, os.Exit) is observed, not modelled"]}
    PROPS["C20"] = {"components": ["report"], "oracle": ["C20"], "decode": None, "relevant": {"report": report_relevant("C20")},
                    "nontrivial": ("distinct_nontrivial", "cases with at least two invocations"),
                    "rule": rp_rule, "assumptions": rp_assume,
                    "trusted_extra": ["encoding/json and the tabwriter are observed through decoding/parsing the real output, not modelled"]}
    PROPS["C13"] = {"components": ["vars"], "oracle": ["C13"], "decode": None,
                    "nontrivial": ("distinct_nontrivial", "cases with at least two variables"),
                    "rule": "the built spok binary: random sets of 1-5 variables (string values over printable ASCII incl. $ { } without quotes, join(...) of awkward parts, exec(...) with padded/multi-line "
                            "output or a failing status), names that also exist in the ambient environment or in .env, commands mixing literal text and {{.NAME}} references (incl. an undefined name) and one "
                            "printf of $NAME per variable; the interpolated command text and the probe output are read from --json, values also from --vars",
                    "assumptions": ["text/template is modelled only for actions of the form {{ .NAME }} with ASCII names; literal command text contains no '{'",
                                    "the shell's treatment of the substituted text is not modelled: commands are generated so that it is inert (single-quoted) and the environment is read with printf '%s'",
                                    "exec(...)'s standard output and status are inputs of the model"],
                    "trusted_extra": ["mvdan.cc/sh (ListEnviron: last duplicate wins), godotenv and text/template are modelled for the fragment above, not verified"]}
    PROPS["C12"] = {"components": ["clean"], "oracle": ["C12"], "decode": None, "extra": [("write-site-census", census)],
                    "nontrivial": ("distinct_nontrivial", "cases whose spokfile declares at least two outputs"),
                    "rule": "the built binary's --clean in a sandbox HOME (canary files beside and above the project): random project trees x spokfiles with 0-4 outputs per task of each kind "
                            "(literals incl. '', '.', '..', a directory, the spokfile itself; variables evaluating to '', '.', '..', 'gen/../..', join(...) ; globs incl. ones matching nothing), "
                            "undefined named outputs, with and without a task named clean, from the root and from a nested directory; full directory snapshot before and after",
                    "assumptions": ["the file system is a set of paths; RemoveAll(t) removes t and everything below; symbolic links and permissions are outside the model",
                                    "output globs are expanded with the Glob model (C05)"],
                    "trusted_extra": ["a census of every file-system mutating call in spok's non-test packages is compared with corpus/census.expected on every run"]}
    PROPS["C19"] = {"components": ["effects"], "oracle": ["C19"], "decode": None, "extra": [("write-site-census", census)],
                    "nontrivial": ("distinct_nontrivial", "invocations that changed at least one path"),
                    "rule": "the built binary in a sandbox HOME: random project trees x valid, unparsable and unloadable spokfiles (or none) x actions/flags from "
                            "{none, task names, --show, --vars, --fmt, --init, --clean, --force, --quiet, --json, --debug} from the project root and a nested directory (sometimes with its own spokfile); "
                            "every file of the sandbox is hashed before and after and each changed path must be one the model's write_kind allows",
                    "assumptions": ["task commands in these runs have no side effects (echo)", "OS semantics (permissions, links) are outside the model"],
                    "trusted_extra": ["a census of every file-system mutating call in spok's non-test packages is compared with corpus/census.expected on every run"]}
    PROPS["C03"] = {"components": ["graph"], "oracle": ["C03"], "decode": None,
                    "nontrivial": ("distinct_nontrivial", "cases whose selected task set (closure of the request) has at least two tasks"),
                    "rule": "spokfiles generated from dependency graphs, parsed, loaded with file.New and run with SpokFile.Run and a recording runner; "
                            "every digraph incl. self-loops on 1..3 tasks x every request list (exhaustive), 4-task graphs (sampled in quick, all 65536 in thorough), "
                            "sampled graphs up to 8 tasks with undefined names, duplicate definitions and failing commands; each case run 6 times so map order varies",
                    "assumptions": ["Go's map/set iteration order is an arbitrary permutation oracle (theorems hold for all of them)",
                                    "task execution is sequential in the computed order (it is a plain loop in SpokFile.run)"],
                    "trusted_extra": ["the observed execution order of the real spok is validated with the extracted checker valid_order (C03_checker)"]}
    # C18 is about the pool's control behaviour (finishes, result kind, no leak); which digest comes out is C04's business
    PROPS["C06"] = {"components": ["cst"], "oracle": ["C06"], "decode": "hex",
                    "nontrivial": ("distinct_nontrivial", "distinct rendered files with at least two statements"),
                    "rule": "random concrete syntax trees (structure + layout): variables with string / call / identifier values, comments, tasks with docstring, "
                            "dependencies, bare or parenthesised outputs, one-line / multi-line / empty bodies; layout drawn per position from spaces, tabs, LF, CRLF, lone CR, "
                            "blank lines, trailing commas, missing final newline, statements without separating newline, non-ASCII letters in names, strings and commands. "
                            "Each tree is rendered by the harness and by the model (texts compared), parsed by the real parser and by the model (trees compared), and every "
                            "tree is checked to lie in the class the theorem covers (cst_wf_b, proved sound)",
                    "exhaustive_part": False,
                    "exhaustive_note": "random generation only; the theorem, not enumeration, covers the class",
                    "assumptions": ["admissible layout = the class cst_wf of coq/theories (Cst.v, RoundTripL.v): it is what the lexer's state machine accepts, e.g. no line end directly after a string inside an argument list, "
                                    "commands are ASCII after their first letter and contain '}' only inside {{.NAME}}"],
                    "trusted_extra": ["the harness's renderer is compared with the model's render on every case (field 0)"]}
    def _rc_hash_err(m):
        """history component under C18: the first operation on which the two differ, one side stopped on an unreadable dependency and the other did not"""
        a, b = m[2].split(" ; "), m[3].split(" ; ")
        for x, y in zip(a, b):
            if x != y:
                return x.startswith("err hash") != y.startswith("err hash")
        return False
    PROPS["C18"] = {"components": ["hash", "runcache"], "oracle": ["C18"], "decode": None,
                    "relevant": {"hash": (lambda m: (m[2].split() or [""])[0] != (m[3].split() or [""])[0]), "runcache": _rc_hash_err},
                    "nontrivial": ("distinct_nontrivial", "distinct path lists with at least two entries"),
                    "rule": hash_rule + "; plus 20 lists with a file removed while the list is hashed (implementation only); plus the run histories of the cache component, "
                            "where a selected task naming a file that is not there must stop the run with an error, forced or not",
                    "assumptions": ["data-race freedom is not expressible in the transition system; it is observed by the race-detector build only",
                                    "the Go scheduler is abstracted as an arbitrary choice among enabled transitions (receive+process is one atomic step)"],
                    "trusted_extra": ["os.Open/Stat/io.Copy are abstracted as a map path -> Regular content | Directory | Unreadable"]}
    for _p in ("C16", "C08", "C06", "C07", "C11", "C15"):
        if _p in PROPS:
            PROPS[_p].setdefault("extra", [])
            PROPS[_p]["extra"] = list(PROPS[_p]["extra"]) + [("syntax-census", syntax_census)]
    # the "load" component (parser -> file.New / task.New): which field of a task each property leans on
    def load_relevant(pid):
        fields = {"C03": {0, 2}, "C05": {3, 4}, "C12": {6, 7, 8}, "C13": {5}}[pid]
        def rel(m):
            diff, case, impl, model = m
            a, b = impl.split(" ## "), model.split(" ## ")
            if len(a) != len(b):
                return True                      # loads / does not load, or another number of tasks
            if a[0] != b[0]:
                return pid == "C13"              # the variables
            for x, y in zip(a[1:], b[1:]):
                fx, fy = x.split("|"), y.split("|")
                if len(fx) != len(fy):
                    return True
                if any(fx[k] != fy[k] for k in fields if k < len(fx)):
                    return True
            return False
        return rel
    for _p in ("C03", "C05", "C12", "C13"):
        PROPS[_p]["components"] = list(PROPS[_p]["components"]) + ["load"]
        rel = PROPS[_p].get("relevant")
        if not isinstance(rel, dict):
            rel = {} if rel is None else {c: rel for c in PROPS[_p]["components"] if c != "load"}
        rel["load"] = load_relevant(_p)
        PROPS[_p]["relevant"] = rel
        PROPS[_p]["rule"] = PROPS[_p].get("rule", "") + ("; load: random spokfiles (variables by literal, join, exec, re-assigned, defined after their use; tasks whose dependencies and outputs mix "
                                                        "task names, names shared with variables, plain paths, paths with ? [ { characters, patterns, substring-related patterns) through parser -> file.New, "
                                                        "every task's fields compared with the model and with a reference of the harness")

    # what the harness families added after the seed rounds vary (appended to the rules above; details in DESIGN.md section 11)
    _more = {
        "hash": "; entries that cannot be inspected (a link to itself, a path through a file, an over-long name) or opened-but-not-read (EIO); one hasher reused for all requests; implementation-only probes: files of 1 MiB .. 33 MiB (touch, edits at start/middle/end), lists longer than the CPU count (order, every position, dropping the last)",
        "runcache": "; a dependency with pattern characters in its name, one realised as a symbolic link; an exhaustive kill-mid-run family; a spokfile that grows by a task after the cache file exists (op S); implementation only: a task whose command rewrites the next task's input",
        "find": "; relative start/stop (implementation only); `spok --show` run in the start directory with HOME = stop on one case in six; 60-level chains (implementation only)",
        "glob": "; project directories whose own name looks like a pattern",
        "report": "; --debug, --clean with and without a task clean, --vars, 0-2 task names; stdout/stderr in regular files on every other invocation; a .env file in a third of the sandboxes; a command referring to a variable as {{ .MK }}; which commands really ran is read from a trace file",
        "clean": "; every third case from the sandbox root with a relative --spokfile; every fifth with stdout on /dev/full; an implementation-only family with symbolic links (as outputs, as the way to the project)",
        "effects": "; unreadable cache files left by earlier faults; decoy scratch files next to the spokfile; the spokfile as a symbolic link",
        "graph": "; variables named like tasks; selections of 13-22 tasks in interleaved chains",
        "syntax": "; every symbol string of length <= 3 inside 12 contexts (bodies, later command lines, argument lists, right-hand sides, outputs, comments, strings, a second string where none is expected); an extended alphabet (BOM, Unicode spaces, NEL, letters ending in 0x85/0xA0, lone CR) for length <= 2 everywhere and in mutations; lines of 64 KiB and more (implementation only)",
        "cst": "; identifiers in Hebrew, Cyrillic, Greek, Arabic, full-width and mathematical letters; later command lines starting with {{; comments starting with '#'; one file in eight re-rendered with Unicode spaces in its layout (implementation only); comments and docstrings read off the formatted text by an independent scanner; `spok --fmt` itself run twice on loadable files among decoy scratch files",
        "vars": "; references written with blanks inside the delimiters; variable names that look like Go method names",
    }
    for _p, _spec in PROPS.items():
        extra = "".join(_more[c] for c in _spec.get("components", []) if c in _more)
        _spec.setdefault("rule", "corpus first, then bounded-exhaustive over the class alphabet, then seeded random programs, their prefixes, and mutations of the repository's own spokfiles and test literals (see stats)")
        if extra:
            _spec["rule"] = _spec["rule"] + " -- later additions" + extra
