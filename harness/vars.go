package main

// Component "vars": variables reaching commands through {{.NAME}} and the environment, and their evaluated
// values (C13), observed on the built binary with --json and --vars.
//
// case line:  <cwdhex>|<var>;<var>;...|<cmd>;<cmd>;...|<ambient names>|<envfile names>
//   var   name:S:<valuehex> | name:J:<parthex>,<parthex>,... | name:X:<stdouthex>:<status>
//   cmd   segments  L<hex> / R<namehex>  joined by '+'
// impl/model line:  "cmds=<hex>,.. env=<name>=<hex>,.. vars=<name>=<hex>,.."  |  "ERR"

import (
	"bufio"
	"bytes"
	"encoding/json"
	"flag"
	"fmt"
	"math/rand"
	"os"
	"os/exec"
	"path/filepath"
	"sort"
	"strings"
)

func init() { commands["vars"] = varsCmd }

type vVar struct {
	name   string
	kind   byte // S J X
	value  string
	parts  []string
	stdout string
	status int
}

type vSeg struct {
	ref  bool
	text string
}

type varsStats struct {
	Cases      int            `json:"cases"`
	Nontrivial int            `json:"distinct_nontrivial"`
	Kinds      map[string]int `json:"variable_kinds"`
	Shadowing  int            `json:"cases_with_a_name_also_in_ambient_env_or_dotenv"`
	Refs       int            `json:"template_references"`
	SpacedRefs int            `json:"template_references_with_blanks_inside_the_delimiters"`
	Errors     int            `json:"cases_with_failing_exec"`
	Samples    []string       `json:"samples"`
	OracleFail map[string]int `json:"oracle_failures"`
}

func varsCmd(args []string) error {
	fs := flag.NewFlagSet("vars", flag.ExitOnError)
	out := fs.String("out", "", "")
	tier := fs.String("tier", "quick", "")
	seed := fs.Int64("seed", 1, "")
	shard := fs.Int("shard", 0, "")
	nshards := fs.Int("nshards", 1, "")
	spok := fs.String("spok", "", "")
	fs.Parse(args)
	sfx := fmt.Sprintf(".%d.txt", *shard)
	fc, _ := os.Create(filepath.Join(*out, "cases"+sfx))
	fi, _ := os.Create(filepath.Join(*out, "impl"+sfx))
	fo, _ := os.Create(filepath.Join(*out, "oracle"+sfx))
	bc, bi, bo := bufio.NewWriter(fc), bufio.NewWriter(fi), bufio.NewWriter(fo)
	st := varsStats{Kinds: map[string]int{}, OracleFail: map[string]int{}}
	r := rand.New(rand.NewSource(*seed*32452843 + int64(*shard)))
	tmp, err := os.MkdirTemp(*out, "v")
	if err != nil {
		return err
	}
	tmp, _ = filepath.Abs(tmp)
	defer os.RemoveAll(tmp)
	n := 1600
	if *tier == "thorough" {
		n = 30000
	}
	// the last few look like method names of Go types (a template looks a field name up as a method before it tries the map)
	namePool := []string{"FOO", "BAR", "QUX", "USER", "LANG", "MY_VAR", "E_X", "lower", "HOME", "Environ", "String", "Len", "Keys", "Error", "Get"}
	// printable ASCII without the double quote (ends the spok string), the single quote (the commands quote with it) and '#'
	valAlpha := "abcXYZ019 _-=:.,/$${}{}()[]<>|&;*?!~%^+@\\`"
	litAlpha := "abcdefgh0123 _-=:.,/"
	randStr := func(alpha string, max int) string {
		l := r.Intn(max + 1)
		b := make([]byte, l)
		for i := range b {
			b[i] = alpha[r.Intn(len(alpha))]
		}
		return string(b)
	}
	for k := 0; k < n / *nshards; k++ {
		home := filepath.Join(tmp, fmt.Sprintf("h%d", k))
		proj := filepath.Join(home, "proj")
		os.MkdirAll(proj, 0o755)
		nv := 1 + r.Intn(5)
		perm := r.Perm(len(namePool))[:nv]
		var vs []vVar
		failing := false
		for _, pi := range perm {
			v := vVar{name: namePool[pi]}
			switch x := r.Intn(10); {
			case x < 6:
				v.kind, v.value = 'S', randStr(valAlpha, 12)
			case x < 8:
				v.kind = 'J'
				np := r.Intn(4)
				for i := 0; i < np; i++ {
					v.parts = append(v.parts, []string{"a", "..", ".", "", "b/c", "/abs", "x//y", "../..", "d/", "e.f"}[r.Intn(10)])
				}
			default:
				v.kind = 'X'
				v.stdout = []string{"hi", "  padded  ", "two words", "", "line1\nline2", "\ttab"}[r.Intn(6)]
				if r.Intn(6) == 0 {
					v.status = 1 + r.Intn(200)
					failing = true
				}
			}
			st.Kinds[string(v.kind)]++
			vs = append(vs, v)
		}
		// commands: template commands, then one environment probe per variable
		nc := 1 + r.Intn(3)
		var cmds [][]vSeg
		for i := 0; i < nc; i++ {
			segs := []vSeg{{false, "echo '"}}
			ns := 1 + r.Intn(4)
			for j := 0; j < ns; j++ {
				if r.Intn(2) == 0 {
					name := vs[r.Intn(len(vs))].name
					if r.Intn(8) == 0 {
						name = "UNDEFINED"
					}
					segs = append(segs, vSeg{true, name})
					st.Refs++
				} else {
					segs = append(segs, vSeg{false, randStr(litAlpha, 8)})
				}
			}
			segs = append(segs, vSeg{false, "'"})
			cmds = append(cmds, segs)
		}
		ambientNames := []string{}
		envfileNames := []string{}
		env := []string{"HOME=" + home, "PATH=/usr/bin:/bin"}
		var dotenv strings.Builder
		for _, v := range vs {
			if v.name == "HOME" {
				continue
			}
			switch r.Intn(4) {
			case 0:
				env = append(env, v.name+"=ambient-"+v.name)
				ambientNames = append(ambientNames, v.name)
			case 1:
				fmt.Fprintf(&dotenv, "%s=dotenv-%s\n", v.name, v.name)
				envfileNames = append(envfileNames, v.name)
			}
		}
		if len(ambientNames)+len(envfileNames) > 0 {
			st.Shadowing++
		}
		if dotenv.Len() > 0 {
			os.WriteFile(filepath.Join(proj, ".env"), []byte(dotenv.String()), 0o644)
		}
		// spokfile
		var src strings.Builder
		var venc []string
		for _, v := range vs {
			switch v.kind {
			case 'S':
				fmt.Fprintf(&src, "%s := \"%s\"\n", v.name, v.value)
				venc = append(venc, fmt.Sprintf("%s:S:%s", v.name, hx(v.value)))
			case 'J':
				var qs, hs []string
				for _, p := range v.parts {
					qs = append(qs, `"`+p+`"`)
					hs = append(hs, hx(p))
				}
				fmt.Fprintf(&src, "%s := join(%s)\n", v.name, strings.Join(qs, ", "))
				venc = append(venc, fmt.Sprintf("%s:J:%s", v.name, strings.Join(hs, ",")))
			case 'X':
				sh := fmt.Sprintf("printf '%%s' '%s'", strings.ReplaceAll(v.stdout, "\n", `\n`))
				if strings.Contains(v.stdout, "\n") || strings.Contains(v.stdout, "\t") {
					sh = fmt.Sprintf("printf '%s'", strings.ReplaceAll(strings.ReplaceAll(v.stdout, "\n", `\n`), "\t", `\t`))
				}
				if v.status != 0 {
					sh += fmt.Sprintf("; exit %d", v.status)
				}
				fmt.Fprintf(&src, "%s := exec(\"%s\")\n", v.name, sh)
				venc = append(venc, fmt.Sprintf("%s:X:%s:%d", v.name, hx(v.stdout), v.status))
			}
		}
		src.WriteString("task t() {\n")
		var cenc []string
		for _, segs := range cmds {
			var text strings.Builder
			var se []string
			for _, s := range segs {
				if s.ref && k%3 == 1 {
					// the same reference written with blanks inside the delimiters, as text/template allows
					sp := []string{"{{ ." + s.text + " }}", "{{\t." + s.text + "}}", "{{." + s.text + "  }}"}[(k/3+len(se))%3]
					text.WriteString(sp)
					se = append(se, "L"+hx(sp))
					st.SpacedRefs++
				} else if s.ref {
					text.WriteString("{{." + s.text + "}}")
					se = append(se, "R"+hx(s.text))
				} else {
					text.WriteString(s.text)
					se = append(se, "L"+hx(s.text))
				}
			}
			fmt.Fprintf(&src, "    %s\n", text.String())
			cenc = append(cenc, strings.Join(se, "+"))
		}
		for _, v := range vs {
			fmt.Fprintf(&src, "    printf '%%s' \"$%s\"\n", v.name)
		}
		src.WriteString("}\n")
		os.WriteFile(filepath.Join(proj, "spokfile"), []byte(src.String()), 0o644)
		cs := fmt.Sprintf("%s|%s|%s|%s|%s", hx(proj), strings.Join(venc, ";"), strings.Join(cenc, ";"), strings.Join(ambientNames, ","), strings.Join(envfileNames, ","))

		run := func(args ...string) (string, string, int) {
			cmd := exec.Command(*spok, args...)
			cmd.Dir = proj
			cmd.Env = env
			var so, se bytes.Buffer
			cmd.Stdout, cmd.Stderr = &so, &se
			err := cmd.Run()
			code := 0
			if err != nil {
				code = 1
			}
			return so.String(), se.String(), code
		}
		jout, jerr, jcode := run("--json", "t")
		res := "ERR"
		fail := func(detail string) {
			st.OracleFail["C13"]++
			fmt.Fprintf(bo, "C13 %s %s\n", cs, strings.ReplaceAll(detail, "\n", "\\n"))
		}
		// reference values
		want := map[string]string{}
		for _, v := range vs {
			switch v.kind {
			case 'S':
				want[v.name] = v.value
			case 'J':
				j := filepath.Join(v.parts...)
				if !filepath.IsAbs(j) {
					j = filepath.Join(proj, j)
				}
				want[v.name] = filepath.Clean(j)
			case 'X':
				want[v.name] = strings.TrimSpace(v.stdout)
			}
		}
		if failing {
			st.Errors++
			if jcode == 0 {
				fail("an exec(...) exits non-zero but spok succeeded")
			}
		} else if jcode != 0 {
			fail("spok failed: " + jerr)
		} else {
			var doc []jsonTask
			if err := json.Unmarshal([]byte(jout), &doc); err != nil || len(doc) != 1 || len(doc[0].Results) != len(cmds)+len(vs) {
				fail("unexpected --json document: " + jout)
			} else {
				var cm, ev, vv []string
				for i, segs := range cmds {
					got := doc[0].Results[i].Cmd
					cm = append(cm, hx(got))
					var w strings.Builder
					for _, s := range segs {
						if !s.ref {
							w.WriteString(s.text)
						} else if val, ok := want[s.text]; ok {
							w.WriteString(val)
						} else {
							w.WriteString("<no value>")
						}
					}
					if got != w.String() {
						fail(fmt.Sprintf("command %d reached the shell as %q, textual substitution gives %q", i, got, w.String()))
					}
				}
				for i, v := range vs {
					got := doc[0].Results[len(cmds)+i].Stdout
					ev = append(ev, v.name+"="+hx(got))
					if got != want[v.name] {
						fail(fmt.Sprintf("$%s in the command's environment is %q, the spokfile value is %q", v.name, got, want[v.name]))
					}
				}
				vout, _, vcode := run("--vars")
				vout = ansiRe.ReplaceAllString(vout, "")
				names := []string{}
				for _, v := range vs {
					names = append(names, v.name)
				}
				sort.Strings(names)
				for _, nm := range names {
					found := false
					for _, l := range strings.Split(vout, "\n") {
						f := strings.SplitN(strings.TrimLeft(l, "\t "), "\t", 2)
						if len(f) == 2 && f[0] == nm {
							val := strings.TrimLeft(f[1], "\t")
							vv = append(vv, nm+"="+hx(val))
							found = true
							if val != want[nm] && !strings.Contains(want[nm], "\n") && !strings.Contains(want[nm], "\t") {
								fail(fmt.Sprintf("--vars shows %s = %q, expected %q", nm, val, want[nm]))
							}
						}
					}
					if (!found || vcode != 0) && !strings.Contains(want[nm], "\n") {
						fail(fmt.Sprintf("--vars does not list %s (exit %d): %q", nm, vcode, vout))
					}
				}
				// values: those read back from the environment probes (exact bytes)
				res = "cmds=" + strings.Join(cm, ",") + " env=" + strings.Join(ev, ",")
			}
		}
		fmt.Fprintln(bc, cs)
		fmt.Fprintln(bi, res)
		st.Cases++
		if len(vs) >= 2 {
			st.Nontrivial++
		}
		if len(st.Samples) < 4 && k%131 == 7 {
			st.Samples = append(st.Samples, strings.ReplaceAll(src.String(), "\n", "\\n")+" => "+res)
		}
		os.RemoveAll(home)
	}
	// implementation only (the model's exec is a function of the command text): two exec(...) calls with the same text are two
	// executions; each variable holds the output of its own
	if *shard == 0 {
		home := filepath.Join(tmp, "twice")
		proj := filepath.Join(home, "proj")
		os.MkdirAll(proj, 0o755)
		call := `exec("echo run >> runs.log; grep -c run runs.log")`
		src := "ONE := " + call + "\nTWO := " + call + "\n\ntask t() {\n    echo {{.ONE}} {{.TWO}}\n    echo $ONE $TWO\n}\n"
		os.WriteFile(filepath.Join(proj, "spokfile"), []byte(src), 0o644)
		cmd := exec.Command(*spok, "--json", "t")
		cmd.Dir = proj
		cmd.Env = []string{"HOME=" + home, "PATH=/usr/bin:/bin"}
		var so bytes.Buffer
		cmd.Stdout = &so
		err := cmd.Run()
		var doc []jsonTask
		st.Kinds["same-exec-text-twice(impl only)"]++
		if err != nil || json.Unmarshal(so.Bytes(), &doc) != nil || len(doc) != 1 || len(doc[0].Results) != 2 {
			st.OracleFail["C13"]++
			fmt.Fprintf(bo, "C13 %s two variables defined by the same exec text: spok failed or printed an unexpected document: %v %q\n", hx(src), err, so.String())
		} else if c, o := doc[0].Results[0].Cmd, doc[0].Results[1].Stdout; c != "echo 1 2" || o != "1 2\n" {
			st.OracleFail["C13"]++
			fmt.Fprintf(bo, "C13 %s ONE and TWO are defined by two executions of a command that counts its own runs: the values are 1 and 2, but the command reads %q and the environment gives %q\n", hx(src), c, strings.TrimSpace(o))
		}
		os.RemoveAll(home)
	}
	bc.Flush()
	bi.Flush()
	bo.Flush()
	fc.Close()
	fi.Close()
	fo.Close()
	sj, _ := json.Marshal(st)
	return os.WriteFile(filepath.Join(*out, fmt.Sprintf("stats.%d.json", *shard)), sj, 0o644)
}
