package main

// Component "clean": `spok --clean` on random project trees (C12), full snapshot before/after in a sandbox
// whose parent directory holds canary files.
//
// case line:  <fs>|<cwd>|<vars>|<outs>|<hasclean>
//   fs     k:relpath,...            paths relative to the sandbox home ("proj/..." is the project), k = f|d
//   cwd    relpath of the working directory below home
//   vars   name:S:<hex> | name:J:<hex>,<hex>   separated by ';'
//   outs   F<hex> | N<name> | G<hex>           separated by ';'   (all tasks' outputs, in file order)
// impl/model line:  <exit> <sorted surviving paths joined by ','>

import (
	"bufio"
	"bytes"
	"encoding/json"
	"flag"
	"fmt"
	"math/rand"
	"os"
	"os/exec"
	"path/filepath"
	"sort"
	"strings"
	"syscall"

	"github.com/bmatcuk/doublestar/v4"
)

func init() { commands["clean"] = cleanCmd }

type cleanStats struct {
	Cases        int            `json:"cases"`
	Nontrivial   int            `json:"distinct_nontrivial"`
	OutKinds     map[string]int `json:"output_kinds"`
	Dangerous    int            `json:"cases_with_an_output_evaluating_to_project_dir_or_above"`
	RelSpokfile  int            `json:"cases_run_with_relative_spokfile_flag"`
	WithClean    int            `json:"cases_with_a_task_named_clean"`
	Nested       int            `json:"cases_run_from_a_nested_directory"`
	SymlinkCases int            `json:"cases_with_symbolic_links_implementation_only"`
	StdoutFull   int            `json:"cases_with_stdout_on_a_device_where_every_write_fails"`
	Removed      int            `json:"paths_removed_in_total"`
	Samples      []string       `json:"samples"`
	OracleFail   map[string]int `json:"oracle_failures"`
}

func snapshot(home string) []string {
	var l []string
	filepath.Walk(home, func(p string, info os.FileInfo, err error) error {
		if err != nil || p == home {
			return nil
		}
		r, _ := filepath.Rel(home, p)
		l = append(l, filepath.ToSlash(r))
		return nil
	})
	sort.Strings(l)
	return l
}

func cleanCmd(args []string) error {
	fs := flag.NewFlagSet("clean", flag.ExitOnError)
	out := fs.String("out", "", "")
	tier := fs.String("tier", "quick", "")
	seed := fs.Int64("seed", 1, "")
	shard := fs.Int("shard", 0, "")
	nshards := fs.Int("nshards", 1, "")
	spok := fs.String("spok", "", "")
	fs.Parse(args)
	sfx := fmt.Sprintf(".%d.txt", *shard)
	fc, _ := os.Create(filepath.Join(*out, "cases"+sfx))
	fi, _ := os.Create(filepath.Join(*out, "impl"+sfx))
	fo, _ := os.Create(filepath.Join(*out, "oracle"+sfx))
	bc, bi, bo := bufio.NewWriter(fc), bufio.NewWriter(fi), bufio.NewWriter(fo)
	st := cleanStats{OutKinds: map[string]int{}, OracleFail: map[string]int{}}
	r := rand.New(rand.NewSource(*seed*86028121 + int64(*shard)))
	tmp, err := os.MkdirTemp(*out, "c")
	if err != nil {
		return err
	}
	tmp, _ = filepath.Abs(tmp)
	defer os.RemoveAll(tmp)
	n := 1500
	if *tier == "thorough" {
		n = 25000
	}
	pool := []string{"f:bin/app", "f:bin/lib/x.o", "f:out.txt", "f:gen/a.c", "f:gen/b.h", "f:keep.txt", "f:src/main.go", "d:docs", "f:.hidden", "f:build/o/1", "f:notes.txt", "d:src/sub"}
	type vdef struct {
		name  string
		kind  byte
		value string
		parts []string
	}
	varPool := []vdef{{"EMPTY", 'S', "", nil}, {"DOT", 'S', ".", nil}, {"UP", 'S', "..", nil}, {"BIN", 'S', "bin", nil}, {"JB", 'J', "", []string{"bin"}},
		{"MISSING", 'S', "nope", nil}, {"DEEPUP", 'S', "gen/../..", nil}, {"JUP", 'J', "", []string{"gen", "..", ".."}}, {"OUT", 'S', "out.txt", nil}, {"SLASHES", 'S', "build//o/", nil}}
	litPool := []string{"out.txt", "bin", "nope", "gen/*.c", "*.txt", "src", "./keep.txt", "..", ".", "", "build/o", "**/*.o", "gen/../keep.txt", "spokfile", "g*", "docs/"}
	for k := 0; k < n / *nshards; k++ {
		home := filepath.Join(tmp, fmt.Sprintf("h%d", k))
		proj := filepath.Join(home, "proj")
		os.MkdirAll(proj, 0o755)
		os.WriteFile(filepath.Join(home, "canary.txt"), []byte("c"), 0o644)
		os.MkdirAll(filepath.Join(home, "sibling"), 0o755)
		os.WriteFile(filepath.Join(home, "sibling", "s.txt"), []byte("s"), 0o644)
		for _, e := range pool {
			if r.Intn(3) == 0 {
				continue
			}
			p := filepath.Join(proj, e[2:])
			if e[0] == 'd' {
				os.MkdirAll(p, 0o755)
			} else {
				os.MkdirAll(filepath.Dir(p), 0o755)
				os.WriteFile(p, []byte("x"), 0o644)
			}
		}
		if r.Intn(3) == 0 { // a cache left by an earlier run
			os.MkdirAll(filepath.Join(proj, ".spok"), 0o755)
			os.WriteFile(filepath.Join(proj, ".spok", "cache.json"), []byte("{}"), 0o644)
		}
		// variables and outputs
		nv := r.Intn(5)
		var vs []vdef
		for _, i := range r.Perm(len(varPool))[:nv] {
			vs = append(vs, varPool[i])
		}
		var src strings.Builder
		var venc []string
		for _, v := range vs {
			if v.kind == 'S' {
				fmt.Fprintf(&src, "%s := \"%s\"\n", v.name, v.value)
				venc = append(venc, fmt.Sprintf("%s:S:%s", v.name, hx(v.value)))
			} else {
				var qs, hs []string
				for _, p := range v.parts {
					qs = append(qs, `"`+p+`"`)
					hs = append(hs, hx(p))
				}
				fmt.Fprintf(&src, "%s := join(%s)\n", v.name, strings.Join(qs, ", "))
				venc = append(venc, fmt.Sprintf("%s:J:%s", v.name, strings.Join(hs, ",")))
			}
		}
		nt := 1 + r.Intn(3)
		var oenc []string
		type outp struct {
			kind byte
			text string
		}
		var outs []outp
		hasClean := r.Intn(6) == 0
		for t := 0; t < nt; t++ {
			no := r.Intn(4)
			var parts []string
			for j := 0; j < no; j++ {
				if r.Intn(3) == 0 {
					name := "UNDEFINED"
					if len(vs) > 0 && r.Intn(8) != 0 {
						name = vs[r.Intn(len(vs))].name
					}
					parts = append(parts, name)
					outs = append(outs, outp{'N', name})
					oenc = append(oenc, "N"+name)
					st.OutKinds["named"]++
				} else {
					l := litPool[r.Intn(len(litPool))]
					parts = append(parts, `"`+l+`"`)
					if strings.Contains(l, "*") {
						outs = append(outs, outp{'G', l})
						oenc = append(oenc, "G"+hx(l))
						st.OutKinds["glob"]++
					} else {
						outs = append(outs, outp{'F', l})
						oenc = append(oenc, "F"+hx(l))
						st.OutKinds["literal"]++
					}
				}
			}
			name := fmt.Sprintf("t%c", 'a'+t)
			if hasClean && t == 0 {
				name = "clean"
			}
			switch len(parts) {
			case 0:
				fmt.Fprintf(&src, "task %s() {\n    echo hi\n}\n", name)
			case 1:
				fmt.Fprintf(&src, "task %s() -> %s {\n    echo hi\n}\n", name, parts[0])
			default:
				fmt.Fprintf(&src, "task %s() -> (%s) {\n    echo hi\n}\n", name, strings.Join(parts, ", "))
			}
		}
		os.WriteFile(filepath.Join(proj, "spokfile"), []byte(src.String()), 0o644)
		cwd := proj
		if r.Intn(5) == 0 {
			if fi, err := os.Stat(filepath.Join(proj, "src")); err == nil && fi.IsDir() {
				cwd = filepath.Join(proj, "src")
				st.Nested++
			}
		}
		// every third case: the same clean asked for from the sandbox root with a RELATIVE --spokfile
		relSpok := st.Cases%3 == 1
		if relSpok {
			cwd = home
			st.RelSpokfile++
		}
		before := snapshot(home)
		var fenc []string
		for _, p := range before {
			k := "f"
			if fi, err := os.Stat(filepath.Join(home, p)); err == nil && fi.IsDir() {
				k = "d"
			}
			fenc = append(fenc, k+":"+p)
		}
		cwdRel, _ := filepath.Rel(home, cwd)
		hc := "0"
		if hasClean {
			hc = "1"
			st.WithClean++
		}
		cs := fmt.Sprintf("%s|%s|%s|%s|%s", strings.Join(fenc, ","), filepath.ToSlash(cwdRel), strings.Join(venc, ";"), strings.Join(oenc, ";"), hc)
		// ---- reference: which paths must survive
		values := map[string]string{}
		for _, v := range vs {
			if v.kind == 'S' {
				values[v.name] = v.value
			} else {
				j := filepath.Join(v.parts...)
				if !filepath.IsAbs(j) {
					j = filepath.Join(cwd, j)
				}
				values[v.name] = j
			}
		}
		var targets []string
		undefined := false
		dangerous := false
		for _, o := range outs {
			switch o.kind {
			case 'F':
				targets = append(targets, filepath.Join(proj, o.text))
			case 'N':
				v, ok := values[o.text]
				if !ok {
					undefined = true
					continue
				}
				if !filepath.IsAbs(v) {
					v = filepath.Join(cwd, v)
				}
				targets = append(targets, filepath.Clean(v))
			case 'G':
				for _, p := range before {
					if !strings.HasPrefix(p, "proj/") {
						continue
					}
					rel := strings.TrimPrefix(p, "proj/")
					if ok, _ := doublestar.Match(o.text, rel); ok && !strings.HasPrefix(rel, ".") {
						targets = append(targets, filepath.Join(proj, rel))
					}
				}
			}
		}
		targets = append(targets, filepath.Join(proj, ".spok"))
		spokPath := filepath.Join(proj, "spokfile")
		under := func(parent, p string) bool {
			rel, err := filepath.Rel(parent, p)
			return err == nil && rel != ".." && !strings.HasPrefix(rel, "../")
		}
		var wantSurvive []string
		for _, p := range before {
			abs := filepath.Join(home, p)
			gone := false
			if !hasClean && !undefined {
				for _, t := range targets {
					if under(t, spokPath) {
						dangerous = true
						continue
					}
					if under(t, abs) {
						gone = true
					}
				}
			}
			if !gone {
				wantSurvive = append(wantSurvive, p)
			}
		}
		if dangerous {
			st.Dangerous++
		}
		// ---- run
		cmd := exec.Command(*spok, "--clean")
		cmd.Dir = cwd
		if relSpok {
			if rp, rerr := filepath.Rel(home, spokPath); rerr == nil {
				cmd = exec.Command(*spok, "--clean", "--spokfile", rp)
				cmd.Dir = cwd
			}
		}
		cmd.Env = []string{"HOME=" + home, "PATH=/usr/bin:/bin"}
		var se bytes.Buffer
		cmd.Stderr = &se
		// one case in five: standard output is a device on which every write fails (a log on a full disk): what gets removed
		// does not depend on whether the progress lines could be printed
		if k%5 == 2 {
			if full, err := os.OpenFile("/dev/full", os.O_WRONLY, 0); err == nil {
				cmd.Stdout = full
				defer full.Close()
				st.StdoutFull++
			}
		}
		exit := 0
		if err := cmd.Run(); err != nil {
			exit = 1
		}
		after := snapshot(home)
		res := fmt.Sprintf("%d %s", exit, strings.Join(after, ","))
		fmt.Fprintln(bc, cs)
		fmt.Fprintln(bi, res)
		st.Cases++
		st.Removed += len(before) - len(after)
		if len(outs) >= 2 {
			st.Nontrivial++
		}
		fail := func(detail string) {
			st.OracleFail["C12"]++
			fmt.Fprintf(bo, "C12 %s %s\n", strings.ReplaceAll(cs, " ", "_"), strings.ReplaceAll(detail, "\n", "\\n"))
		}
		afterSet := map[string]bool{}
		for _, p := range after {
			afterSet[p] = true
		}
		for _, must := range []string{"canary.txt", "sibling/s.txt", "proj", "proj/spokfile"} {
			if !afterSet[must] {
				fail(fmt.Sprintf("--clean removed %s (spokfile: %q)", must, src.String()))
			}
		}
		if !hasClean {
			if got, want := strings.Join(after, ","), strings.Join(wantSurvive, ","); got != want {
				fail(fmt.Sprintf("after --clean the tree is [%s], expected [%s] (spokfile: %q)", got, want, src.String()))
			}
		} else {
			for _, p := range before {
				if !afterSet[p] {
					fail(fmt.Sprintf("a task named clean exists but spok removed %s itself", p))
				}
			}
		}
		if len(st.Samples) < 4 && k%113 == 5 {
			st.Samples = append(st.Samples, strings.ReplaceAll(src.String(), "\n", "\\n")+" => "+res)
		}
		os.RemoveAll(home)
	}
	nl := 96
	if *tier == "thorough" {
		nl = 1600
	}
	cleanSymlinkCases(*spok, tmp, r, nl / *nshards, &st, bo)
	bc.Flush()
	bi.Flush()
	bo.Flush()
	fc.Close()
	fi.Close()
	fo.Close()
	sj, _ := json.Marshal(st)
	return os.WriteFile(filepath.Join(*out, fmt.Sprintf("stats.%d.json", *shard)), sj, 0o644)
}

// cleanSymlinkCases (implementation only; the model has no symbolic links): declared outputs that ARE symbolic links, and a
// project reached through a symbolic link.  Removing a declared output removes that path - the link - and never what it
// points to; the spokfile survives whatever route led to it.
func cleanSymlinkCases(spok, tmp string, r *rand.Rand, n int, st *cleanStats, bo *bufio.Writer) {
	for k := 0; k < n; k++ {
		home := filepath.Join(tmp, fmt.Sprintf("l%d", k))
		// the project directory may have a name that merely LOOKS like a parent reference
		pn := []string{"proj", "proj", "..data", "...", "..2024_x"}[k%5]
		proj := filepath.Join(home, pn)
		os.MkdirAll(filepath.Join(proj, "gen"), 0o755)
		os.MkdirAll(filepath.Join(home, "sibling"), 0o755)
		os.WriteFile(filepath.Join(home, "canary.txt"), []byte("c"), 0o644)
		os.WriteFile(filepath.Join(home, "sibling", "s.txt"), []byte("s"), 0o644)
		os.WriteFile(filepath.Join(proj, "keep.txt"), []byte("k"), 0o644)
		os.WriteFile(filepath.Join(proj, "gen", "a.c"), []byte("a"), 0o644)
		os.WriteFile(filepath.Join(proj, "notes.md"), []byte("n"), 0o644)
		if k%3 == 0 { // a named pipe is an entry like any other: a glob output that matches it denotes it
			syscall.Mkfifo(filepath.Join(proj, "gen", "ctl.pipe"), 0o644)
		}
		// links: relative path in the project -> target
		links := [][2]string{{"gen/latest.c", "../keep.txt"}, {"gen/ext.c", "../../sibling/s.txt"}, {"out.txt", "keep.txt"}, {"bin", "../sibling"}, {"gen/dangling.c", "nowhere"}, {"latest", "build-42"}, {"current.lnk", "gone/for/good"}}
		made := map[string]bool{}
		for _, l := range links {
			if r.Intn(3) != 0 {
				if os.Symlink(l[1], filepath.Join(proj, l[0])) == nil {
					made[l[0]] = true
				}
			}
		}
		// "latest" and the variable CUR name links that may point at nothing: they are declared outputs all the same
		outPool := []string{"gen/*.c", "out.txt", "bin", "*.txt", "gen/*", "*", "latest", "@CUR", ".."}
		var outs []string
		for _, o := range outPool {
			if r.Intn(3) == 0 {
				outs = append(outs, o)
			}
		}
		if len(outs) == 0 {
			outs = []string{outPool[r.Intn(len(outPool))]}
		}
		var qs []string
		pre := ""
		for i, o := range outs {
			if o == "@CUR" {
				pre = "CUR := \"current.lnk\"\n\n"
				qs = append(qs, "CUR")
				outs[i] = "current.lnk"
				continue
			}
			qs = append(qs, `"`+o+`"`)
		}
		src := pre + fmt.Sprintf("task ta() -> (%s) {\n    echo hi\n}\n", strings.Join(qs, ", "))
		if len(qs) == 1 {
			src = pre + fmt.Sprintf("task ta() -> %s {\n    echo hi\n}\n", qs[0])
		}
		os.WriteFile(filepath.Join(proj, "spokfile"), []byte(src), 0o644)
		cwd := proj
		via := r.Intn(3) == 0
		if via { // the project is reached through home/plink -> home/proj
			os.Symlink(pn, filepath.Join(home, "plink"))
			cwd = filepath.Join(home, "plink")
		}
		before := snapshot(home)
		// reference: top-level entries of the project matched by an output (lexically), except the spokfile; inside gen: by gen/ patterns
		var want []string
		for _, p := range before {
			rel := strings.TrimPrefix(p, pn+"/")
			gone := false
			if strings.HasPrefix(p, pn+"/") && rel != "spokfile" {
				for _, o := range outs {
					for q := rel; q != "." && q != ""; q = filepath.Dir(q) { // an entry goes when it or a directory above it is an output
						if ok, _ := doublestar.Match(o, q); ok && !strings.HasPrefix(q, ".") {
							// a directory above it that is a symbolic link is removed as a link: nothing below it is in this snapshot anyway
							gone = true
						}
					}
				}
			}
			if !gone {
				want = append(want, p)
			}
		}
		cmd := exec.Command(spok, "--clean")
		cmd.Dir = cwd
		cmd.Env = []string{"HOME=" + home, "PATH=/usr/bin:/bin", "PWD=" + cwd}
		var se bytes.Buffer
		cmd.Stderr = &se
		exit := 0
		if err := cmd.Run(); err != nil {
			exit = 1
		}
		after := snapshot(home)
		st.SymlinkCases++
		cs := fmt.Sprintf("project-dir:%s;symlinks:%v;via-link:%v;outs:%s", pn, made, via, strings.Join(outs, ","))
		cs = strings.ReplaceAll(cs, " ", "_")
		if got, w := strings.Join(after, ","), strings.Join(want, ","); got != w || exit != 0 {
			st.OracleFail["C12"]++
			fmt.Fprintf(bo, "C12 %s with symbolic links: after --clean (exit %d) the tree is [%s], expected [%s] (spokfile %q, stderr %q)\n", cs, exit, got, w, src, strings.TrimSpace(se.String()))
		}
		os.RemoveAll(home)
	}
}
