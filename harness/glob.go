package main

// Component "glob": glob expansion through file.New + SpokFile.ExpandGlobs on real directory trees (C05).
// case line:  <k>:<path>,<k>:<path>,...|<pattern>        k = f | d ; paths relative, '/' separated
// impl line:  sorted relative paths joined by ','  ("-" if none) ; "ERR" on error

import (
	"bufio"
	"encoding/json"
	"flag"
	"fmt"
	"os"
	"path/filepath"
	"sort"
	"strings"

	"github.com/FollowTheProcess/spok/file"
	"github.com/FollowTheProcess/spok/iostream"
	"github.com/FollowTheProcess/spok/logger"
	"github.com/FollowTheProcess/spok/parser"
	"github.com/bmatcuk/doublestar/v4"
)

func init() { commands["glob"] = globCmd }

type globStats struct {
	Cases      int            `json:"cases"`
	Nontrivial int            `json:"distinct_nontrivial"`
	Trees      int            `json:"trees"`
	Patterns   map[string]int `json:"matches_per_pattern"`
	ModelCases int            `json:"cases_in_model_fragment"`
	Exhaustive string         `json:"exhaustive_part"`
	Samples    []string       `json:"samples"`
	OracleFail map[string]int `json:"oracle_failures"`
	Probes     int            `json:"rerun_probes"`
	Edits      int            `json:"rerun_probe_edits"`
}

// segment matcher for the reference (independent of doublestar): literals, '*', '?', classes [..] [!..] [^..] with ranges
func refSeg(p, s string) bool { return refSegR([]rune(p), []rune(s)) }
func refSegR(p, s []rune) bool {
	if len(p) == 0 {
		return len(s) == 0
	}
	switch p[0] {
	case '*':
		for i := 0; i <= len(s); i++ {
			if refSegR(p[1:], s[i:]) {
				return true
			}
		}
		return false
	case '?':
		return len(s) > 0 && refSegR(p[1:], s[1:])
	case '[':
		end := -1
		for i := 2; i < len(p); i++ { // a class has at least one member: "[]" is not one
			if p[i] == ']' && !(i == 2 && (p[1] == '!' || p[1] == '^')) {
				end = i
				break
			}
		}
		if end < 0 || len(s) == 0 {
			return false
		}
		body, neg := p[1:end], false
		if body[0] == '!' || body[0] == '^' {
			body, neg = body[1:], true
		}
		in := false
		for i := 0; i < len(body); i++ {
			if i+2 < len(body) && body[i+1] == '-' {
				in = in || (body[i] <= s[0] && s[0] <= body[i+2])
				i += 2
			} else {
				in = in || body[i] == s[0]
			}
		}
		return in != neg && refSegR(p[end+1:], s[1:])
	}
	return len(s) > 0 && p[0] == s[0] && refSegR(p[1:], s[1:])
}

// refAlts: the alternation-free patterns a pattern stands for ({a,b} and nesting)
func refAlts(p string) []string {
	open := strings.IndexByte(p, '{')
	if open < 0 {
		return []string{p}
	}
	depth, end := 0, -1
	var cuts []int
	for i := open + 1; i < len(p) && end < 0; i++ {
		switch {
		case p[i] == '{':
			depth++
		case p[i] == '}' && depth == 0:
			end = i
		case p[i] == '}':
			depth--
		case p[i] == ',' && depth == 0:
			cuts = append(cuts, i)
		}
	}
	if end < 0 {
		return nil
	}
	var out []string
	start := open + 1
	for _, c := range append(cuts, end) {
		out = append(out, refAlts(p[:open]+p[start:c]+p[end+1:])...)
		start = c + 1
	}
	return out
}

func refMatch(pat, path []string, at string, isDir func(string) bool) bool {
	if len(pat) == 0 {
		return len(path) == 0
	}
	if pat[0] == "**" {
		if !isDir(at) {
			return false
		}
		if refMatch(pat[1:], path, at, isDir) {
			return true
		}
		if len(path) == 0 {
			return false
		}
		next := filepath.Join(at, path[0])
		if len(pat) == 1 && len(path) == 1 {
			return true
		}
		return refMatch(pat, path[1:], next, isDir)
	}
	if len(path) == 0 || !isDir(at) || !refSeg(pat[0], path[0]) {
		return false
	}
	return refMatch(pat[1:], path[1:], filepath.Join(at, path[0]), isDir)
}

func globCmd(args []string) error {
	fs := flag.NewFlagSet("glob", flag.ExitOnError)
	out := fs.String("out", "", "")
	tier := fs.String("tier", "quick", "")
	_ = fs.Int64("seed", 1, "")
	shard := fs.Int("shard", 0, "")
	nshards := fs.Int("nshards", 1, "")
	fs.Parse(args)
	sfx := fmt.Sprintf(".%d.txt", *shard)
	fc, _ := os.Create(filepath.Join(*out, "cases"+sfx))
	fi, _ := os.Create(filepath.Join(*out, "impl"+sfx))
	fo, _ := os.Create(filepath.Join(*out, "oracle"+sfx))
	bc, bi, bo := bufio.NewWriterSize(fc, 1<<20), bufio.NewWriterSize(fi, 1<<20), bufio.NewWriter(fo)
	st := globStats{Patterns: map[string]int{}, OracleFail: map[string]int{}}
	tmp, err := os.MkdirTemp(*out, "g")
	if err != nil {
		return err
	}
	tmp, _ = filepath.Abs(tmp)
	defer os.RemoveAll(tmp)
	log, _ := logger.NewZapLogger(false)
	os.WriteFile(filepath.Join(tmp, "AAA.lit"), []byte("lit"), 0o644)

	pool := []string{"f:a.js", "f:z.js", "f:.eslintrc.js", "f:src/b.js", "f:src/c.txt", "f:src/.hid.js", "f:.git/config.js",
		"f:src/deep/d.js", "f:lib/e.js", "d:empty", "f:src/.cache/f.js"}
	if *tier == "thorough" {
		pool = append(pool, "f:Makefile", "d:src/deep/.x")
	}
	fragment := []string{"*.js", "**/*.js", "src/*", "*/*", "**", "src/**", "*", "**/*", "src/*.js", "*/*.js", "**/deep/*",
		"src/**/*.js", ".*", "s*c/*.js", "**/.*", "*.txt", "lib/**", "**/d.js", "src/deep/*.js", "z*", "**/**", "*/**/*.js", "e*/**",
		"*.{js,txt}", "src/[bc].*", "?.j*", "**/*.{js,txt}", "{src,lib}/*.js", "src/{b,c}.*", "[!a]*.js", "**/[a-c].j?", "{a,z,src/{b,x}}.j*", "s?c/*", "[^.]*"}
	beyond := []string{}
	st.Exhaustive = fmt.Sprintf("every subset of a pool of %d candidate paths (top-level and nested files, dot-files and dot-directories at both levels, an empty directory, names sorting before and after) x %d patterns (literal, *, ?, classes, alternation incl. nested and across a slash, **), each judged by a reference matcher written for the harness", len(pool), len(fragment))

	for mask := 0; mask < 1<<len(pool); mask++ {
		if mask%*nshards != *shard {
			continue
		}
		st.Trees++
		// the project directory's own name may look like a pattern: it is not part of any
		root := filepath.Join(tmp, fmt.Sprintf("t%d", mask))
		if mask%2 == 1 {
			root = filepath.Join(tmp, fmt.Sprintf("t[%d]{a,b}*", mask))
		}
		os.MkdirAll(root, 0o755)
		var enc []string
		kinds := map[string]bool{".": true} // path -> isDir, for every entry of the tree
		for i, e := range pool {
			if mask&(1<<i) == 0 {
				continue
			}
			p := e[2:]
			enc = append(enc, e)
			if e[0] == 'd' {
				os.MkdirAll(filepath.Join(root, p), 0o755)
				kinds[p] = true
			} else {
				os.MkdirAll(filepath.Join(root, filepath.Dir(p)), 0o755)
				os.WriteFile(filepath.Join(root, p), []byte("x"), 0o644)
				kinds[p] = false
			}
			for d := filepath.Dir(p); d != "."; d = filepath.Dir(d) {
				kinds[d] = true
			}
		}
		isDir := func(p string) bool {
			if p == "" {
				p = "."
			}
			d, ok := kinds[p]
			return ok && d
		}
		var allPaths []string
		for p := range kinds {
			allPaths = append(allPaths, p)
		}
		sort.Strings(allPaths)
		expandOnce := func(pattern string) (string, error) {
			// two tasks share the pattern and run in one invocation; the first also names a literal file that sorts before
			// every match: the expansion recorded for the pattern must not depend on what the run does with it
			src := fmt.Sprintf("task t(%q, \"../AAA.lit\") {\n    run t\n}\n\ntask u(%q, t) {\n    run u\n}\n\ntask w(%q, %q, t) {\n    run w\n}\n", pattern, pattern, pattern+"zq", pattern)
			tree, err := parser.New(src).Parse()
			if err != nil {
				return "", err
			}
			sf, err := file.New(tree, root, log)
			if err != nil {
				return "", err
			}
			// Run expands every glob of the file before it runs anything; the task's command is swallowed by the runner
			if _, err := sf.Run(iostream.Null(), &recRunner{}, true, "u", "w"); err != nil {
				return "", err
			}
			var rel []string
			for _, abs := range sf.Globs[pattern] {
				r, _ := filepath.Rel(root, abs)
				rel = append(rel, filepath.ToSlash(r))
			}
			sort.Strings(rel)
			// compared as a set: a pattern such as **/** makes the walker report an entry more than once
			uniq := rel[:0]
			for i, r := range rel {
				if i == 0 || r != rel[i-1] {
					uniq = append(uniq, r)
				}
			}
			rel = uniq
			if len(rel) == 0 {
				return "-", nil
			}
			return strings.Join(rel, ","), nil
		}
		// an unforced run of u (a fresh SpokFile, as a new invocation would build): was u skipped?
		runU := func(pattern string) (bool, error) {
			src := fmt.Sprintf("task t(%q, \"../AAA.lit\") {\n    run t\n}\n\ntask u(%q, t) {\n    run u\n}\n\ntask w(%q, %q, t) {\n    run w\n}\n", pattern, pattern, pattern+"zq", pattern)
			tree, err := parser.New(src).Parse()
			if err != nil {
				return false, err
			}
			sf, err := file.New(tree, root, log)
			if err != nil {
				return false, err
			}
			// w names the pattern after another pattern that contains it as a substring (and matches nothing): same answer expected
			results, err := sf.Run(iostream.Null(), &recRunner{}, false, "u", "w")
			if err != nil {
				return false, err
			}
			su, sw, n := false, false, 0
			for _, r := range results {
				if r.Task == "u" {
					su = r.Skipped
					n++
				}
				if r.Task == "w" {
					sw = r.Skipped
					n++
				}
			}
			if n != 2 {
				return false, fmt.Errorf("u and w not both in the results")
			}
			if su != sw {
				return false, fmt.Errorf("task u (the pattern alone) skipped=%v but task w (the same pattern after a longer one) skipped=%v", su, sw)
			}
			return su, nil
		}
		for pi, pattern := range append(append([]string{}, fragment...), beyond...) {
			inFragment := pi < len(fragment)
			res, err := expandOnce(pattern)
			if err != nil {
				res = "ERR"
			}
			// a second expansion of the unchanged tree (a fresh SpokFile) on a quarter of the cases (thorough: all)
			res2 := res
			if *tier == "thorough" || (mask+pi)%4 == 1 {
				var err2 error
				if res2, err2 = expandOnce(pattern); err2 != nil {
					res2 = "ERR"
				}
			}
			cs := strings.Join(enc, ",") + "|" + pattern
			// reference: every entry whose relative path matches and does not begin with a dot
			var want []string
			for _, p := range allPaths {
				if strings.HasPrefix(p, ".") {
					continue
				}
				var ok bool
				if inFragment {
					for _, alt := range refAlts(pattern) {
						ok = ok || refMatch(strings.Split(alt, "/"), strings.Split(p, "/"), "", isDir)
					}
				} else {
					ok, _ = doublestar.Match(pattern, p)
				}
				if ok {
					want = append(want, p)
				}
			}
			ws := "-"
			if len(want) > 0 {
				ws = strings.Join(want, ",")
			}
			if res != ws {
				st.OracleFail["C05"]++
				fmt.Fprintf(bo, "C05 %s expanded to [%s] but the matching non-hidden entries are [%s]\n", strings.ReplaceAll(cs, " ", "_"), res, ws)
			} else if res != res2 {
				st.OracleFail["C05"]++
				fmt.Fprintf(bo, "C05 %s two expansions of the unchanged tree differ: [%s] vs [%s]\n", strings.ReplaceAll(cs, " ", "_"), res, res2)
			}
			// end to end, on a quarter of the cases: which edits make the task run again.  The forced runs above recorded the
			// task's inputs; now (a) nothing changed: u is skipped exactly when the pattern denotes something, (b) a file the
			// pattern does not denote (hidden ones included) is edited: still skipped, (c) a denoted file is edited: u runs
			if err == nil && res == ws && (mask+pi)%4 == 0 {
				probe := func(what string, edit string, wantSkipped bool) {
					if edit != "" {
						st.Edits++
						os.WriteFile(filepath.Join(root, edit), []byte(fmt.Sprintf("edit %d", st.Edits)), 0o644)
					}
					skipped, perr := runU(pattern)
					st.Probes++
					if perr != nil {
						st.OracleFail["C05"]++
						fmt.Fprintf(bo, "C05 %s %s: the run failed: %v\n", strings.ReplaceAll(cs, " ", "_"), what, perr)
					} else if skipped != wantSkipped {
						st.OracleFail["C05"]++
						fmt.Fprintf(bo, "C05 %s %s: task skipped=%v, but the pattern denotes [%s] so skipped=%v is required\n", strings.ReplaceAll(cs, " ", "_"), what, skipped, ws, wantSkipped)
					}
				}
				inWant := map[string]bool{}
				var denoted, others []string
				for _, w := range want {
					inWant[w] = true
					if !isDir(w) {
						denoted = append(denoted, w)
					}
				}
				for _, q := range allPaths {
					if !isDir(q) && !inWant[q] {
						others = append(others, q)
					}
				}
				probe("after an unchanged re-run", "", len(want) > 0)
				if len(others) > 0 && len(want) > 0 {
					probe("after editing "+others[(mask+pi)%len(others)]+", which the pattern does not denote", others[(mask+pi)%len(others)], true)
				}
				if len(denoted) > 0 {
					probe("after editing "+denoted[(mask+pi)%len(denoted)]+", which the pattern denotes", denoted[(mask+pi)%len(denoted)], false)
				}
			}
			st.Patterns[pattern] += len(want)
			if inFragment {
				fmt.Fprintln(bc, cs)
				fmt.Fprintln(bi, res)
				st.ModelCases++
			}
			st.Cases++
			if len(want) > 0 {
				st.Nontrivial++
			}
			if len(st.Samples) < 5 && len(want) >= 2 && st.Cases%577 == 3 {
				st.Samples = append(st.Samples, cs+" => "+res)
			}
		}
		os.RemoveAll(root)
	}
	bc.Flush()
	bi.Flush()
	bo.Flush()
	fc.Close()
	fi.Close()
	fo.Close()
	sj, _ := json.Marshal(st)
	return os.WriteFile(filepath.Join(*out, fmt.Sprintf("stats.%d.json", *shard)), sj, 0o644)
}
