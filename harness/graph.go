package main

// Component "graph": task selection and ordering (C03) through parser -> file.New -> SpokFile.Run
// with a recording runner. Every case is run several times so that Go's map iteration order inside
// dag.Sort varies.
//
// case line:  <defs>|<req>|<fails>|<single>|<observed>
//   defs      name:dep.dep;name:...   (ints; a name may be defined twice; names >= 100 are never defined)
//   req       a.b.c
//   fails     names whose command exits 1
//   single    1 when exactly one error class applies (then the class is compared), else 0
//   observed  order in which task commands were executed by the implementation ("-" if none)
// impl line:  OK | ERR [class]

import (
	"bufio"
	"encoding/json"
	"flag"
	"fmt"
	"math/rand"
	"os"
	"path/filepath"
	"sort"
	"strconv"
	"strings"

	"github.com/FollowTheProcess/spok/file"
	"github.com/FollowTheProcess/spok/iostream"
	"github.com/FollowTheProcess/spok/logger"
	"github.com/FollowTheProcess/spok/parser"
	"github.com/FollowTheProcess/spok/shell"
)

func init() { commands["graph"] = graphCmd }

type recRunner struct {
	log  []string
	fail map[string]bool
}

func (r *recRunner) Run(cmd string, stream iostream.IOStream, task string, env []string) (shell.Result, error) {
	r.log = append(r.log, task)
	st := 0
	if r.fail[task] {
		st = 1
	}
	return shell.Result{Cmd: cmd, Status: st}, nil
}

type gdef struct {
	name int
	deps []int
}

// gTaskNames, when set, replaces the default task names for one family of cases
var gTaskNames []string

func tname(i int) string {
	if gTaskNames != nil && i < len(gTaskNames) {
		return gTaskNames[i]
	}
	if i >= 100 {
		return "undefined" + string(rune('a'+i-100))
	}
	// tasks 0 and 1 are called "Ta" and "ta": names that differ only by case are different tasks
	if i == 0 {
		return "Ta"
	}
	return "t" + string(rune('a'+i-1))
}

func tnum(s string) int {
	for i, n := range gTaskNames {
		if n == s {
			return i
		}
	}
	if strings.HasPrefix(s, "undefined") {
		return 100 + int(s[9]-'a')
	}
	if s == "Ta" {
		return 0
	}
	return 1 + int(s[1]-'a')
}

func graphSource(defs []gdef) string {
	var b strings.Builder
	// variables that share their names with tasks: a name in a dependency list is a task, whatever else is called the same
	b.WriteString("Ta := \".\"\ntb := \".\"\n\n")
	for _, d := range defs {
		ds := make([]string, len(d.deps))
		for i, x := range d.deps {
			ds[i] = tname(x)
		}
		fmt.Fprintf(&b, "task %s(%s) {\n    run %s\n}\n\n", tname(d.name), strings.Join(ds, ", "), tname(d.name))
	}
	return b.String()
}

// classify: which kind of selection error a message reports, by keywords (the exact wording is not part of C03);
// "other:..." when the message matches none
func classify(err error) string {
	m := err.Error()
	lm := strings.ToLower(m)
	has := func(ws ...string) bool {
		for _, w := range ws {
			if strings.Contains(lm, w) {
				return true
			}
		}
		return false
	}
	switch {
	case strings.Contains(m, "Spokfile has no task"):
		return "undefined-requested"
	case strings.Contains(m, "which does not exist"):
		return "undefined-dep"
	case has("duplicate", "more than once", "twice", "already contains", "already defined"):
		return "duplicate"
	case has("cycle", "cyclic", "circular"):
		return "cycle"
	case has("depend") && has("does not exist", "undefined", "not defined", "unknown", "no such", "no task"):
		return "undefined-dep"
	case has("does not exist", "undefined", "not defined", "unknown task", "no such task", "no task"):
		return "undefined-requested"
	}
	return "other:" + strings.SplitN(m, "\n", 2)[0]
}

func ints(l []int) string {
	if len(l) == 0 {
		return ""
	}
	s := make([]string, len(l))
	for i, x := range l {
		s[i] = strconv.Itoa(x)
	}
	return strings.Join(s, ".")
}

// ---- reference semantics (independent of the implementation and of the Coq model) ----
type gref struct {
	classes map[string]bool // applicable error classes
	closure map[int]bool
	deps    map[int][]int
}

func reference(defs []gdef, req []int) gref {
	g := gref{classes: map[string]bool{}, closure: map[int]bool{}, deps: map[int][]int{}}
	seen := map[int]bool{}
	for _, d := range defs {
		if seen[d.name] {
			g.classes["duplicate"] = true
		} else {
			g.deps[d.name] = d.deps
		}
		seen[d.name] = true
	}
	var visit func(n int)
	visit = func(n int) {
		if g.closure[n] {
			return
		}
		g.closure[n] = true
		for _, d := range g.deps[n] {
			if !seen[d] {
				g.classes["undefined-dep"] = true
				continue
			}
			visit(d)
		}
	}
	for _, r := range req {
		if !seen[r] {
			g.classes["undefined-requested"] = true
			continue
		}
		visit(r)
	}
	// cycle among the closure: DFS colouring
	colour := map[int]int{}
	var dfs func(n int) bool
	dfs = func(n int) bool {
		colour[n] = 1
		for _, d := range g.deps[n] {
			if !seen[d] {
				continue
			}
			if colour[d] == 1 || (colour[d] == 0 && dfs(d)) {
				return true
			}
		}
		colour[n] = 2
		return false
	}
	keys := []int{}
	for n := range g.closure {
		keys = append(keys, n)
	}
	sort.Ints(keys)
	for _, n := range keys {
		if colour[n] == 0 && dfs(n) {
			g.classes["cycle"] = true
			break
		}
	}
	return g
}

// orderProblem: "" if obs is an allowed execution order (complete = no command failed)
func orderProblem(g gref, obs []int, complete bool) string {
	pos := map[int]int{}
	for i, t := range obs {
		if _, dup := pos[t]; dup {
			return fmt.Sprintf("task t%d ran twice", t)
		}
		pos[t] = i
		if !g.closure[t] {
			return fmt.Sprintf("task t%d ran but was neither requested nor depended upon", t)
		}
	}
	for _, t := range obs {
		for _, d := range g.deps[t] {
			if p, ok := pos[d]; !ok || p >= pos[t] {
				return fmt.Sprintf("task t%d started before its dependency t%d had run", t, d)
			}
		}
	}
	if complete {
		for t := range g.closure {
			if _, ok := pos[t]; !ok {
				return fmt.Sprintf("task t%d was requested or depended upon but never ran", t)
			}
		}
	}
	return ""
}

type graphStats struct {
	Cases          int            `json:"cases"`
	Runs           int            `json:"runs_including_repetitions"`
	Nontrivial     int            `json:"distinct_nontrivial"`
	BySource       map[string]int `json:"by_source"`
	Outcomes       map[string]int `json:"outcomes"`
	Vertices       map[string]int `json:"defined_tasks_histogram"`
	OrdersSeen     int            `json:"cases_where_repetitions_gave_different_orders"`
	Exhaustive     string         `json:"exhaustive_part"`
	Samples        []string       `json:"samples"`
	OracleFail     map[string]int `json:"oracle_failures"`
	WithFailure    int            `json:"cases_with_failing_command"`
	UnknownWording int            `json:"errors_in_unrecognised_wording_taken_as_the_only_possible_kind"`
}

func graphCmd(args []string) error {
	fs := flag.NewFlagSet("graph", flag.ExitOnError)
	out := fs.String("out", "", "")
	tier := fs.String("tier", "quick", "")
	seed := fs.Int64("seed", 1, "")
	shard := fs.Int("shard", 0, "")
	nshards := fs.Int("nshards", 1, "")
	fs.Parse(args)
	sfx := fmt.Sprintf(".%d.txt", *shard)
	fc, _ := os.Create(filepath.Join(*out, "cases"+sfx))
	fi, _ := os.Create(filepath.Join(*out, "impl"+sfx))
	fo, _ := os.Create(filepath.Join(*out, "oracle"+sfx))
	bc, bi, bo := bufio.NewWriterSize(fc, 1<<20), bufio.NewWriterSize(fi, 1<<20), bufio.NewWriter(fo)
	st := graphStats{BySource: map[string]int{}, Outcomes: map[string]int{}, Vertices: map[string]int{}, OracleFail: map[string]int{}}
	r := rand.New(rand.NewSource(*seed*104729 + int64(*shard)))
	root, err := os.MkdirTemp(*out, "g")
	if err != nil {
		return err
	}
	root, _ = filepath.Abs(root)
	defer os.RemoveAll(root)
	log, _ := logger.NewZapLogger(false)
	reps := 6
	fail := func(cs, detail string) {
		st.OracleFail["C03"]++
		fmt.Fprintf(bo, "C03 %s %s\n", cs, detail)
	}

	runCase := func(source string, defs []gdef, req []int, fails []int) {
		src := graphSource(defs)
		dparts := make([]string, len(defs))
		for i, d := range defs {
			dparts[i] = strconv.Itoa(d.name) + ":" + ints(d.deps)
		}
		ref := reference(defs, req)
		single := 0
		if len(ref.classes) == 1 {
			single = 1
		}
		failSet := map[string]bool{}
		for _, f := range fails {
			failSet[tname(f)] = true
		}
		reqNames := make([]string, len(req))
		for i, x := range req {
			reqNames[i] = tname(x)
		}
		st.Cases++
		st.BySource[source]++
		st.Vertices[strconv.Itoa(len(defs))]++
		if len(ref.closure) >= 2 {
			st.Nontrivial++
		}
		if len(fails) > 0 {
			st.WithFailure++
		}
		orders := map[string]bool{}
		for rep := 0; rep < reps; rep++ {
			st.Runs++
			var obs []int
			res := ""
			tree, perr := parser.New(src).Parse()
			if perr != nil {
				res = "ERR other:parse"
			} else {
				sf, nerr := file.New(tree, root, log)
				if nerr != nil {
					res = "ERR " + classify(nerr)
				} else {
					rr := &recRunner{fail: failSet}
					_, rerr := sf.Run(iostream.Null(), rr, false, reqNames...)
					for _, t := range rr.log {
						obs = append(obs, tnum(t))
					}
					if rerr != nil {
						res = "ERR " + classify(rerr)
					} else {
						res = "OK"
					}
				}
			}
			if strings.HasPrefix(res, "ERR other:") && res != "ERR other:parse" && single == 1 && len(ref.classes) == 1 {
				// an error in words this harness does not know: that there is an error is what C03 asks for; which kind it is cannot be
				// judged, so it is taken to be the one kind that is possible here (counted in the evidence)
				st.UnknownWording++
				res = "ERR " + keysOf(ref.classes)[0]
			}
			cls := res
			if strings.HasPrefix(res, "ERR") && single == 0 {
				cls = "ERR"
			}
			obsS := ints(obs)
			if obsS == "" {
				obsS = "-"
			}
			cs := fmt.Sprintf("%s|%s|%s|%d|%s", strings.Join(dparts, ";"), ints(req), ints(fails), single, obsS)
			fmt.Fprintln(bc, cs)
			fmt.Fprintln(bi, cls)
			st.Outcomes[strings.SplitN(res, ":", 2)[0]]++
			orders[obsS] = true
			// direct oracle
			if len(ref.classes) > 0 {
				if !strings.HasPrefix(res, "ERR") {
					fail(cs, fmt.Sprintf("an error was required (%v) but spok ran %v and reported success", keysOf(ref.classes), obs))
				} else if len(obs) > 0 {
					fail(cs, fmt.Sprintf("an error was reported but tasks %v had already run", obs))
				} else if single == 1 && !ref.classes[strings.TrimPrefix(res, "ERR ")] {
					fail(cs, fmt.Sprintf("wrong kind of error: %s, expected %v", res, keysOf(ref.classes)))
				}
			} else {
				if res != "OK" {
					fail(cs, "a well-formed acyclic selection was rejected: "+res)
				} else if p := orderProblem(ref, obs, len(fails) == 0); p != "" {
					fail(cs, p)
				} else if p := orderProblem(ref, obs, true); p != "" && len(fails) > 0 {
					// with a failing command spok may stop early, but today it runs everything; not a violation
					_ = p
				}
			}
			if len(st.Samples) < 5 && rep == 0 && len(ref.closure) >= 3 && st.Cases%37 == 1 {
				st.Samples = append(st.Samples, fmt.Sprintf("defs %s request %s -> %s ran %s", strings.Join(dparts, ";"), ints(req), res, obsS))
			}
		}
		if len(orders) > 1 {
			st.OrdersSeen++
		}
	}

	// request lists: every permutation of every non-empty subset of 0..n-1, plus some with repetition
	var reqLists func(n int) [][]int
	reqLists = func(n int) [][]int {
		var res [][]int
		for mask := 1; mask < 1<<n; mask++ {
			var sub []int
			for i := 0; i < n; i++ {
				if mask&(1<<i) != 0 {
					sub = append(sub, i)
				}
			}
			for _, p := range permutations(len(sub)) {
				l := make([]int, len(sub))
				for i, j := range p {
					l[i] = sub[j]
				}
				res = append(res, l)
			}
		}
		res = append(res, []int{0, 0})
		if n > 1 {
			res = append(res, []int{0, 1, 0})
		}
		return res
	}
	fromMask := func(n int, mask int) []gdef {
		defs := make([]gdef, n)
		for i := 0; i < n; i++ {
			defs[i].name = i
			for j := 0; j < n; j++ {
				if mask&(1<<(i*n+j)) != 0 {
					defs[i].deps = append(defs[i].deps, j) // task i depends on task j
				}
			}
		}
		return defs
	}
	// (a) exhaustive: all digraphs (incl. self-loops) on 1..3 vertices x all request lists
	idx := 0
	for n := 1; n <= 3; n++ {
		lists := reqLists(n)
		for mask := 0; mask < 1<<(n*n); mask++ {
			for _, req := range lists {
				idx++
				if idx%*nshards != *shard {
					continue
				}
				runCase(fmt.Sprintf("exhaustive-%d-vertices", n), fromMask(n, mask), req, nil)
			}
		}
	}
	st.Exhaustive = "every digraph incl. self-loops on 1..3 tasks x every permutation of every non-empty subset as request list (+2 lists with repetition)"
	// (b) 4 vertices: all 65536 graphs in thorough (sampled request lists), a sample in quick
	n4 := 3000
	if *tier == "thorough" {
		n4 = 65536
		st.Exhaustive += "; every digraph on 4 tasks x 6 request lists"
	}
	lists4 := reqLists(4)
	for k := 0; k < n4; k++ {
		mask := k
		if *tier != "thorough" {
			mask = r.Intn(65536)
		}
		if k%*nshards != *shard {
			continue
		}
		nl := 2
		if *tier == "thorough" {
			nl = 6
		}
		for j := 0; j < nl; j++ {
			runCase("4-vertices", fromMask(4, mask), lists4[r.Intn(len(lists4))], nil)
		}
	}
	// (b') larger selections: 13-22 tasks in two or three interleaved dependency chains with a few extra edges, the ends of the chains
	// requested together (algorithms that behave differently above a dozen elements, orders that are not already grouped)
	nw := 320
	if *tier == "thorough" {
		nw = 6000
	}
	for k := 0; k < nw / *nshards; k++ {
		n := 13 + r.Intn(10)
		stride := 2 + r.Intn(2)
		defs := make([]gdef, n)
		for i := range defs {
			defs[i].name = i
			if i >= stride {
				defs[i].deps = append(defs[i].deps, i-stride)
			}
			if i > 0 && r.Intn(6) == 0 {
				defs[i].deps = append(defs[i].deps, r.Intn(i))
			}
		}
		var req []int
		for c := 0; c < stride; c++ {
			req = append(req, n-1-c)
		}
		if r.Intn(3) == 0 {
			req = append(req, r.Intn(n))
		}
		r.Shuffle(len(req), func(i, j int) { req[i], req[j] = req[j], req[i] })
		runCase("wide-chains", defs, req, nil)
	}
	// (b'') names with underscores (the one non-letter an identifier may contain): pairs of edges whose ends concatenate to the
	// same text (a_b <- c and a <- b_c) are different edges.  Every subset of six candidate edges x five request lists.
	if *shard == 0 {
		gTaskNames = []string{"a_b", "c", "a", "b_c", "d"}
		edges := [][2]int{{1, 0}, {3, 2}, {2, 4}, {1, 4}, {3, 0}, {0, 4}} // {task, dependency}
		for mask := 0; mask < 1<<len(edges); mask++ {
			defs := make([]gdef, 5)
			for i := range defs {
				defs[i].name = i
			}
			for e, ed := range edges {
				if mask>>e&1 == 1 {
					defs[ed[0]].deps = append(defs[ed[0]].deps, ed[1])
				}
			}
			for _, req := range [][]int{{1, 3}, {3, 1}, {1}, {3}, {1, 3, 2}} {
				runCase("underscore-names", defs, req, nil)
			}
		}
		gTaskNames = nil
	}
	// (c) sampled sparse graphs up to 8 vertices, with undefined names, duplicate definitions and failing commands
	nr := 4000
	if *tier == "thorough" {
		nr = 60000
	}
	for k := 0; k < nr / *nshards; k++ {
		n := 2 + r.Intn(7)
		defs := make([]gdef, n)
		acyclic := r.Intn(3) != 0
		for i := range defs {
			defs[i].name = i
			for j := 0; j < n; j++ {
				if r.Intn(n) == 0 && (!acyclic || j < i) {
					defs[i].deps = append(defs[i].deps, j)
				}
			}
		}
		source := "random-acyclic"
		if !acyclic {
			source = "random-any"
		}
		switch r.Intn(8) {
		case 0:
			defs[r.Intn(n)].deps = append(defs[r.Intn(n)].deps, 100+r.Intn(3))
			source += "+undefined-dep"
		case 1:
			defs = append(defs, gdef{name: r.Intn(n)})
			source += "+duplicate-definition"
		}
		var req []int
		for len(req) == 0 {
			for i := 0; i < n; i++ {
				if r.Intn(3) == 0 {
					req = append(req, i)
				}
			}
		}
		r.Shuffle(len(req), func(i, j int) { req[i], req[j] = req[j], req[i] })
		if r.Intn(10) == 0 {
			req = append(req, 100)
			source += "+undefined-request"
		}
		var fails []int
		if r.Intn(4) == 0 {
			fails = append(fails, r.Intn(n))
			source += "+failing-command"
		}
		runCase(source, defs, req, fails)
	}
	bc.Flush()
	bi.Flush()
	bo.Flush()
	fc.Close()
	fi.Close()
	fo.Close()
	sj, _ := json.Marshal(st)
	return os.WriteFile(filepath.Join(*out, fmt.Sprintf("stats.%d.json", *shard)), sj, 0o644)
}

func keysOf(m map[string]bool) []string {
	var k []string
	for x := range m {
		k = append(k, x)
	}
	sort.Strings(k)
	return k
}
