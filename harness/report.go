package main

// Component "report": the built spok binary, its exit status, error message, --json document, --quiet,
// --show listing and default action (C09, C20), over sequences of invocations in one project directory.
//
// case line:  <taskdefs>|<inv>;<inv>;...
//   taskdef   name:deps:lit:cmd,cmd,...      cmd = <shape><marker>[.<status>]   (see cmdText)
//   inv       <flags>:<request or ->:<edit or ->      flags subset of q j f s ; edit = E<content>
// impl/model line, per invocation:  exit=.. err=.. out=..

import (
	"bufio"
	"bytes"
	"encoding/json"
	"flag"
	"fmt"
	"math/rand"
	"os"
	"os/exec"
	"path/filepath"
	"regexp"
	"sort"
	"strconv"
	"strings"
)

func init() { commands["report"] = reportCmd }

var rpNames = []string{"a", "b", "c", "default", "e"}

type rpCmd struct {
	shape  byte // o: echo M | e: echo M >&2 | x: echo M; exit K | k: exit K | b: echo M; echo M >&2
	marker string
	status int
}

func (c rpCmd) text() string {
	switch c.shape {
	case 'o':
		return "echo " + c.marker
	case 'e':
		return "echo " + c.marker + " >&2"
	case 'x':
		return fmt.Sprintf("echo %s; exit %d", c.marker, c.status)
	case 'k':
		return fmt.Sprintf("exit %d", c.status)
	default:
		return fmt.Sprintf("echo %s; echo %s >&2", c.marker, c.marker)
	}
}
func (c rpCmd) out() string {
	if c.shape == 'o' || c.shape == 'x' || c.shape == 'b' {
		return c.marker + "\n"
	}
	return ""
}
func (c rpCmd) errs() string {
	if c.shape == 'e' || c.shape == 'b' {
		return c.marker + "\n"
	}
	return ""
}
func (c rpCmd) enc() string {
	return fmt.Sprintf("%c%s.%d", c.shape, c.marker, c.status)
}

type rpTask struct {
	name int
	deps []int
	lit  bool // depends on f0.txt
	doc  string
	cmds []rpCmd
}

type rpInv struct {
	flags string
	req   int // -1: none
	edit  string
}

var ansiRe = regexp.MustCompile(`\x1b\[[0-9;]*m`)
var taskMsgRe = regexp.MustCompile(`Task "(\w+)" (skipped|completed)`)
var cmdFailRe = regexp.MustCompile(`Command "(.*)" in task "(\w+)" exited with status (\d+)`)

// mentionsWord: w occurs in s delimited by non-word characters
func mentionsWord(s, w string) bool {
	if w == "" {
		return false
	}
	for i := 0; ; {
		j := strings.Index(s[i:], w)
		if j < 0 {
			return false
		}
		a, b := i+j, i+j+len(w)
		isW := func(c byte) bool { return c == '_' || c >= '0' && c <= '9' || c >= 'a' && c <= 'z' || c >= 'A' && c <= 'Z' }
		if (a == 0 || !isW(s[a-1])) && (b == len(s) || !isW(s[b])) {
			return true
		}
		i = a + 1
	}
}

type rpStats struct {
	Cases       int            `json:"cases"`
	Invocations int            `json:"invocations"`
	Nontrivial  int            `json:"distinct_nontrivial"`
	Flags       map[string]int `json:"flag_combinations"`
	Exits       map[string]int `json:"exit_codes"`
	Failing     int            `json:"invocations_with_failing_command"`
	Statuses    map[string]int `json:"failing_status_buckets"`
	SkippedSeen int            `json:"task_results_skipped"`
	Samples     []string       `json:"samples"`
	OracleFail  map[string]int `json:"oracle_failures"`
}

type jsonCmd struct {
	Cmd    string `json:"cmd"`
	Stdout string `json:"stdout"`
	Stderr string `json:"stderr"`
	Status int    `json:"status"`
}
type jsonTask struct {
	Task    string    `json:"task"`
	Results []jsonCmd `json:"results"`
	Skipped bool      `json:"skipped"`
}

func canonTasks(ts []jsonTask) string {
	var parts []string
	for _, t := range ts {
		var cs []string
		for _, c := range t.Results {
			cs = append(cs, fmt.Sprintf("%s|%s|%s|%d", hx(c.Cmd), hx(c.Stdout), hx(c.Stderr), c.Status))
		}
		sk := "r"
		if t.Skipped {
			sk = "s"
		}
		parts = append(parts, fmt.Sprintf("%s:%s:%s", t.Task, sk, strings.Join(cs, ";")))
	}
	return "[" + strings.Join(parts, ",") + "]"
}

func reportCmd(args []string) error {
	fs := flag.NewFlagSet("report", flag.ExitOnError)
	out := fs.String("out", "", "")
	tier := fs.String("tier", "quick", "")
	seed := fs.Int64("seed", 1, "")
	shard := fs.Int("shard", 0, "")
	nshards := fs.Int("nshards", 1, "")
	spok := fs.String("spok", "", "path to the built spok binary")
	fs.Parse(args)
	sfx := fmt.Sprintf(".%d.txt", *shard)
	fc, _ := os.Create(filepath.Join(*out, "cases"+sfx))
	fi, _ := os.Create(filepath.Join(*out, "impl"+sfx))
	fo, _ := os.Create(filepath.Join(*out, "oracle"+sfx))
	bc, bi, bo := bufio.NewWriter(fc), bufio.NewWriter(fi), bufio.NewWriter(fo)
	st := rpStats{Flags: map[string]int{}, Exits: map[string]int{}, Statuses: map[string]int{}, OracleFail: map[string]int{}}
	r := rand.New(rand.NewSource(*seed*49979687 + int64(*shard)))
	tmp, err := os.MkdirTemp(*out, "r")
	if err != nil {
		return err
	}
	tmp, _ = filepath.Abs(tmp)
	defer os.RemoveAll(tmp)
	n := 2400
	if *tier == "thorough" {
		n = 40000
	}
	flagSets := []string{"", "q", "j", "f", "jf", "qf", "s", "qs", "", "j"}
	marker := 0
	for k := 0; k < n / *nshards; k++ {
		// ---- generate a spokfile: a dependency chain over the first few names, maybe a task named default
		nt := 1 + r.Intn(5)
		perm := r.Perm(len(rpNames))[:nt]
		var ts []rpTask
		for i, nm := range perm {
			t := rpTask{name: nm, lit: r.Intn(2) == 0}
			if i > 0 && r.Intn(3) != 0 {
				t.deps = []int{perm[i-1]} // chain: unique run order
			}
			if r.Intn(2) == 0 {
				t.doc = fmt.Sprintf("doc of %s", rpNames[nm])
			}
			nc := r.Intn(5)
			for j := 0; j < nc; j++ {
				marker++
				c := rpCmd{shape: "ooeobxk"[r.Intn(7)], marker: fmt.Sprintf("m%d", marker)}
				if c.shape == 'x' || c.shape == 'k' {
					c.status = []int{1, 2, 3, 7, 42, 127, 128, 255, 1 + r.Intn(255)}[r.Intn(9)]
					if r.Intn(3) == 0 { // most commands succeed
						c.shape = 'o'
						c.status = 0
					}
				}
				t.cmds = append(t.cmds, c)
			}
			ts = append(ts, t)
		}
		ni := 1 + r.Intn(3)
		var invs []rpInv
		for i := 0; i < ni; i++ {
			inv := rpInv{flags: flagSets[r.Intn(len(flagSets))], req: -1}
			if r.Intn(5) != 0 {
				inv.req = perm[r.Intn(nt)]
			}
			if i > 0 && r.Intn(3) == 0 {
				inv.edit = strconv.Itoa(r.Intn(3))
			}
			invs = append(invs, inv)
		}
		// ---- encode the case
		var tenc, ienc []string
		for _, t := range ts {
			var cs []string
			for _, c := range t.cmds {
				cs = append(cs, c.enc())
			}
			lit := "0"
			if t.lit {
				lit = "1"
			}
			tenc = append(tenc, fmt.Sprintf("%d:%s:%s:%s", t.name, ints(t.deps), lit, strings.Join(cs, ",")))
		}
		for _, v := range invs {
			req, ed := "-", "-"
			if v.req >= 0 {
				req = strconv.Itoa(v.req)
			}
			if v.edit != "" {
				ed = "E" + v.edit
			}
			ienc = append(ienc, fmt.Sprintf("%s:%s:%s", v.flags, req, ed))
		}
		cs := strings.Join(tenc, ";") + "|" + strings.Join(ienc, ";")
		// ---- materialise
		home := filepath.Join(tmp, fmt.Sprintf("h%d", k))
		proj := filepath.Join(home, "proj")
		os.MkdirAll(proj, 0o755)
		var src strings.Builder
		for _, t := range ts {
			if t.doc != "" {
				fmt.Fprintf(&src, "# %s\n", t.doc)
			}
			var as []string
			for _, d := range t.deps {
				as = append(as, rpNames[d])
			}
			if t.lit {
				as = append(as, `"f0.txt"`)
			}
			fmt.Fprintf(&src, "task %s(%s) {\n", rpNames[t.name], strings.Join(as, ", "))
			for _, c := range t.cmds {
				fmt.Fprintf(&src, "    %s\n", c.text())
			}
			fmt.Fprint(&src, "}\n\n")
		}
		os.WriteFile(filepath.Join(proj, "spokfile"), []byte(src.String()), 0o644)
		os.WriteFile(filepath.Join(proj, "f0.txt"), []byte("0"), 0o644)
		byName := map[int]rpTask{}
		for _, t := range ts {
			byName[t.name] = t
		}
		fail := func(prop, detail string) {
			st.OracleFail[prop]++
			fmt.Fprintf(bo, "%s %s %s\n", prop, cs, strings.ReplaceAll(detail, "\n", "\\n"))
		}
		// reference state: content of f0 at each task's last success
		content := "0"
		lastOK := map[int]string{}
		var outs []string
		for ii, v := range invs {
			st.Invocations++
			st.Flags[v.flags]++
			if v.edit != "" {
				content = v.edit
				os.WriteFile(filepath.Join(proj, "f0.txt"), []byte(content), 0o644)
			}
			var argv []string
			for _, f := range v.flags {
				argv = append(argv, map[rune]string{'q': "--quiet", 'j': "--json", 'f': "--force", 's': "--show"}[f])
			}
			if v.req >= 0 {
				argv = append(argv, rpNames[v.req])
			}
			cmd := exec.Command(*spok, argv...)
			cmd.Dir = proj
			cmd.Env = []string{"HOME=" + home, "PATH=/usr/bin:/bin", "NO_COLOR=1"}
			var so, se bytes.Buffer
			cmd.Stdout, cmd.Stderr = &so, &se
			runErr := cmd.Run()
			exit := 0
			if runErr != nil {
				exit = -1
				if ee, ok := runErr.(*exec.ExitError); ok {
					exit = ee.ExitCode()
				}
			}
			stdout := ansiRe.ReplaceAllString(so.String(), "")
			stderr := ansiRe.ReplaceAllString(se.String(), "")
			st.Exits[strconv.Itoa(exit)]++
			quiet, js, force, show := strings.Contains(v.flags, "q"), strings.Contains(v.flags, "j"), strings.Contains(v.flags, "f"), strings.Contains(v.flags, "s")
			// ---- reference semantics
			req := v.req
			_, hasDefault := byName[3]
			if req < 0 && hasDefault {
				req = 3
			}
			listing := show || req < 0
			var order []int
			if !listing {
				var visit func(n int)
				seen := map[int]bool{}
				visit = func(n int) {
					if seen[n] {
						return
					}
					seen[n] = true
					for _, d := range byName[n].deps {
						visit(d)
					}
					order = append(order, n)
				}
				visit(req)
			}
			var want []jsonTask
			wantFail := ""
			for _, n := range order {
				t := byName[n]
				jt := jsonTask{Task: rpNames[n], Results: nil}
				prev, had := lastOK[n]
				if !force && t.lit && had && prev == content {
					jt.Skipped = true
					st.SkippedSeen++
				} else {
					okAll := true
					for _, c := range t.cmds {
						jt.Results = append(jt.Results, jsonCmd{c.text(), c.out(), c.errs(), c.status})
						if c.status != 0 {
							okAll = false
							if wantFail == "" {
								wantFail = fmt.Sprintf("cmdfail:%s:%d", rpNames[n], c.status)
								st.Statuses[map[bool]string{true: "1-9", false: "10-255"}[c.status < 10]]++
							}
						}
					}
					if okAll {
						lastOK[n] = content
					}
				}
				want = append(want, jt)
			}
			if wantFail != "" {
				st.Failing++
			}
			// ---- project the implementation's behaviour
			errS := "none"
			if exit != 0 {
				if m := cmdFailRe.FindStringSubmatch(stderr); m != nil {
					errS = fmt.Sprintf("cmdfail:%s:%s", m[2], m[3])
				} else if wf := strings.Split(wantFail, ":"); len(wf) == 3 && mentionsWord(stderr, wf[1]) && mentionsWord(stderr, wf[2]) {
					// the wording of the message is not part of the property: naming the task and the status is
					errS = wantFail
				} else {
					errS = "other"
				}
			}
			outS := "?"
			switch {
			case listing && !quiet && !js:
				var names []string
				lines := strings.Split(stdout, "\n")
				for i, l := range lines {
					if i < 2 || strings.TrimSpace(l) == "" {
						continue
					}
					names = append(names, strings.Fields(l)[0])
				}
				outS = "list=" + strings.Join(names, ",")
			case quiet && !js, listing:
				if stdout == "" {
					outS = "empty"
				} else {
					outS = "nonempty"
				}
			case js && exit == 0:
				var doc []jsonTask
				dec := json.NewDecoder(strings.NewReader(stdout))
				if err := dec.Decode(&doc); err != nil {
					outS = "json=UNDECODABLE"
				} else {
					outS = "json=" + canonTasks(doc)
					var extra json.RawMessage
					if dec.Decode(&extra) == nil {
						outS = "json=TRAILING-DATA"
					}
				}
			case js:
				if stdout == "" {
					outS = "empty"
				} else {
					outS = "nonempty"
				}
			default:
				var ms []string
				if all := taskMsgRe.FindAllStringSubmatch(stdout, -1); len(all) > 0 {
					for _, m := range all {
						ms = append(ms, m[1]+":"+m[2][:1])
					}
				} else {
					// other wording: one line per task naming it; "skip" somewhere in the line means skipped
					for _, l := range strings.Split(stdout, "\n") {
						for _, t := range ts {
							if mentionsWord(l, rpNames[t.name]) {
								k := "c"
								if strings.Contains(strings.ToLower(l), "skip") {
									k = "s"
								}
								ms = append(ms, rpNames[t.name]+":"+k)
								break
							}
						}
					}
				}
				outS = "msgs=" + strings.Join(ms, ",")
			}
			outs = append(outs, fmt.Sprintf("exit=%d err=%s out=%s", exit, errS, outS))
			// ---- direct oracles
			if wantFail != "" {
				if exit == 0 {
					fail("C09", fmt.Sprintf("invocation %d (%v): a command fails (%s) but spok exited 0", ii, argv, wantFail))
				} else if errS != wantFail {
					fail("C09", fmt.Sprintf("invocation %d (%v): expected the error to identify %s, got %q", ii, argv, wantFail, strings.TrimSpace(stderr)))
				}
			} else if exit != 0 {
				fail("C09", fmt.Sprintf("invocation %d (%v): no command fails but spok exited %d: %s", ii, argv, exit, strings.TrimSpace(stderr)))
			}
			if !listing && js && !quiet && wantFail == "" {
				if w := "json=" + canonTasks(want); outS != w {
					fail("C20", fmt.Sprintf("invocation %d (%v): --json printed %s, the run was %s", ii, argv, outS, w))
				}
			}
			if quiet && !js && stdout != "" {
				fail("C20", fmt.Sprintf("invocation %d (%v): --quiet but standard output is %q", ii, argv, stdout))
			}
			if listing && !quiet && !js {
				var names []string
				for _, t := range ts {
					names = append(names, rpNames[t.name])
				}
				sort.Strings(names)
				if w := "list=" + strings.Join(names, ","); outS != w {
					fail("C20", fmt.Sprintf("invocation %d (%v): listing is %s, expected %s", ii, argv, outS, w))
				}
				for _, t := range ts {
					if t.doc != "" && !strings.Contains(stdout, t.doc) {
						fail("C20", fmt.Sprintf("invocation %d (%v): listing lacks the docstring %q", ii, argv, t.doc))
					}
				}
			}
			if !listing && !quiet && !js && wantFail == "" {
				var ms []string
				for _, jt := range want {
					f := "c"
					if jt.Skipped {
						f = "s"
					}
					ms = append(ms, jt.Task+":"+f)
				}
				if w := "msgs=" + strings.Join(ms, ","); outS != w {
					fail("C20", fmt.Sprintf("invocation %d (%v): reported %s, the run was %s", ii, argv, outS, w))
				}
			}
		}
		fmt.Fprintln(bc, cs)
		fmt.Fprintln(bi, strings.Join(outs, " ; "))
		st.Cases++
		if len(invs) >= 2 {
			st.Nontrivial++
		}
		if len(st.Samples) < 4 && k%97 == 3 {
			st.Samples = append(st.Samples, cs+" => "+strings.Join(outs, " ; "))
		}
		os.RemoveAll(home)
	}
	bc.Flush()
	bi.Flush()
	bo.Flush()
	fc.Close()
	fi.Close()
	fo.Close()
	sj, _ := json.Marshal(st)
	return os.WriteFile(filepath.Join(*out, fmt.Sprintf("stats.%d.json", *shard)), sj, 0o644)
}
