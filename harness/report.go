package main

// Component "report": the built spok binary, its exit status, error message, --json document, --quiet,
// --show listing and default action (C09, C20), over sequences of invocations in one project directory.
//
// case line:  <taskdefs>|<inv>;<inv>;...
//   taskdef   name:deps:lit:cmd,cmd,...      cmd = <shape><marker>[.<status>]   (see cmdText)
//   inv       <flags>:<requests n.n or ->:<edit or ->      flags subset of q j f s v c ; edit = E<content>
// the case line starts with the variables:  <n=hexvalue,...>|<taskdefs>|<invs>
// impl/model line, per invocation:  exit=.. err=.. out=..

import (
	"bufio"
	"bytes"
	"encoding/json"
	"flag"
	"fmt"
	"math/rand"
	"os"
	"os/exec"
	"path/filepath"
	"regexp"
	"sort"
	"strconv"
	"strings"
)

func init() { commands["report"] = reportCmd }

var rpNames = []string{"a", "b", "clean", "default", "e"}
var rpVarNames = []string{"ALPHA", "BETA", "DELTA", "GAMMA"} // alphabetical: index order is listing order

// values and docstrings that a listing must reproduce verbatim: printf verbs, percent signs, spaces, quotes-free punctuation
var rpValues = []string{"plain", "80%", "+%Y-%m-%d", "%s and %d", "a b  c", "x=1", "100%%", "", "naïve", "%", "tail %"}
var rpDocs = []string{"doc of %s", "100%% of %s", "%s ends with %%", "%%d items in %s", "doc of %s"}

type rpCmd struct {
	shape  byte // o: echo M | e: echo M >&2 | x: echo M; exit K | k: exit K | b: echo M; echo M >&2
	marker string
	status int
}

// every command first appends its marker to the trace file $T: which commands really ran is observed, not inferred
func (c rpCmd) text() string {
	if c.shape == 'c' { // a command that is nothing but a template comment: it interpolates to the empty command
		return ""
	}
	return "echo " + c.marker + " >>\"$T\"; " + c.body()
}
func (c rpCmd) body() string {
	switch c.shape {
	case 'i': // as written in the spokfile; text() is what must be reported: the interpolated command
		return "echo mk-" + c.marker
	case 'o':
		return "echo " + c.marker
	case 'e':
		return "echo " + c.marker + " >&2"
	case 'x':
		return fmt.Sprintf("echo %s; exit %d", c.marker, c.status)
	case 'k':
		return fmt.Sprintf("exit %d", c.status)
	default:
		return fmt.Sprintf("echo %s; echo %s >&2", c.marker, c.marker)
	}
}

// source: the command as written in the spokfile (shape i refers to the variable MK with blanks inside the delimiters)
func (c rpCmd) source() string {
	if c.shape == 'i' {
		return "echo " + c.marker + " >>\"$T\"; echo {{ .MK }}-" + c.marker
	}
	if c.shape == 'c' {
		return "{{/* step " + c.marker + " is switched off */}}"
	}
	return c.text()
}
func (c rpCmd) out() string {
	if c.shape == 'i' {
		return "mk-" + c.marker + "\n"
	}
	if c.shape == 'o' || c.shape == 'x' || c.shape == 'b' {
		return c.marker + "\n"
	}
	return ""
}
func (c rpCmd) errs() string {
	if c.shape == 'e' || c.shape == 'b' {
		return c.marker + "\n"
	}
	return ""
}
func (c rpCmd) enc() string {
	return fmt.Sprintf("%c%s.%d", c.shape, c.marker, c.status)
}

type rpTask struct {
	name int
	deps []int
	lit  bool // depends on f0.txt
	doc  string
	cmds []rpCmd
}

type rpInv struct {
	flags string
	req   []int
	edit  string
}

var ansiRe = regexp.MustCompile(`\x1b\[[0-9;]*m`)
var taskMsgRe = regexp.MustCompile(`Task "(\w+)" (skipped|completed)`)
var cmdFailRe = regexp.MustCompile(`Command "(.*)" in task "(\w+)" exited with status (\d+)`)

// mentionsWord: w occurs in s delimited by non-word characters
func mentionsWord(s, w string) bool {
	if w == "" {
		return false
	}
	for i := 0; ; {
		j := strings.Index(s[i:], w)
		if j < 0 {
			return false
		}
		a, b := i+j, i+j+len(w)
		isW := func(c byte) bool {
			return c == '_' || c >= '0' && c <= '9' || c >= 'a' && c <= 'z' || c >= 'A' && c <= 'Z'
		}
		if (a == 0 || !isW(s[a-1])) && (b == len(s) || !isW(s[b])) {
			return true
		}
		i = a + 1
	}
}

type rpStats struct {
	Cases          int            `json:"cases"`
	Invocations    int            `json:"invocations"`
	Nontrivial     int            `json:"distinct_nontrivial"`
	Flags          map[string]int `json:"flag_combinations"`
	Exits          map[string]int `json:"exit_codes"`
	Failing        int            `json:"invocations_with_failing_command"`
	Statuses       map[string]int `json:"failing_status_buckets"`
	SkippedSeen    int            `json:"task_results_skipped"`
	TracedCommands int            `json:"task_executions_seen_in_trace"`
	ToFiles        int            `json:"invocations_with_stdout_and_stderr_in_regular_files"`
	WithDotenv     int            `json:"cases_with_a_dotenv_file_next_to_the_spokfile"`
	Samples        []string       `json:"samples"`
	OracleFail     map[string]int `json:"oracle_failures"`
}

type jsonCmd struct {
	Cmd    string `json:"cmd"`
	Stdout string `json:"stdout"`
	Stderr string `json:"stderr"`
	Status int    `json:"status"`
}
type jsonTask struct {
	Task    string    `json:"task"`
	Results []jsonCmd `json:"results"`
	Skipped bool      `json:"skipped"`
}

func canonTasks(ts []jsonTask) string {
	var parts []string
	for _, t := range ts {
		var cs []string
		for _, c := range t.Results {
			cs = append(cs, fmt.Sprintf("%s|%s|%s|%d", hx(c.Cmd), hx(c.Stdout), hx(c.Stderr), c.Status))
		}
		sk := "r"
		if t.Skipped {
			sk = "s"
		}
		parts = append(parts, fmt.Sprintf("%s:%s:%s", t.Task, sk, strings.Join(cs, ";")))
	}
	return "[" + strings.Join(parts, ",") + "]"
}

func reportCmd(args []string) error {
	fs := flag.NewFlagSet("report", flag.ExitOnError)
	out := fs.String("out", "", "")
	tier := fs.String("tier", "quick", "")
	seed := fs.Int64("seed", 1, "")
	shard := fs.Int("shard", 0, "")
	nshards := fs.Int("nshards", 1, "")
	spok := fs.String("spok", "", "path to the built spok binary")
	fs.Parse(args)
	sfx := fmt.Sprintf(".%d.txt", *shard)
	fc, _ := os.Create(filepath.Join(*out, "cases"+sfx))
	fi, _ := os.Create(filepath.Join(*out, "impl"+sfx))
	fo, _ := os.Create(filepath.Join(*out, "oracle"+sfx))
	bc, bi, bo := bufio.NewWriter(fc), bufio.NewWriter(fi), bufio.NewWriter(fo)
	st := rpStats{Flags: map[string]int{}, Exits: map[string]int{}, Statuses: map[string]int{}, OracleFail: map[string]int{}}
	r := rand.New(rand.NewSource(*seed*49979687 + int64(*shard)))
	tmp, err := os.MkdirTemp(*out, "r")
	if err != nil {
		return err
	}
	tmp, _ = filepath.Abs(tmp)
	defer os.RemoveAll(tmp)
	n := 2400
	if *tier == "thorough" {
		n = 40000
	}
	flagSets := []string{"", "q", "j", "f", "jf", "qf", "s", "qs", "", "j", "c", "cq", "cj", "cf", "v", "vq", "vs", "cs", "f", "jf", "d", "jd", "fd", "qd", "cd"}
	marker := 0
	for k := 0; k < n / *nshards; k++ {
		// ---- generate a spokfile: a dependency chain over the first few names, maybe a task named default
		nt := 1 + r.Intn(5)
		perm := r.Perm(len(rpNames))[:nt]
		var ts []rpTask
		for i, nm := range perm {
			t := rpTask{name: nm, lit: r.Intn(2) == 0}
			if i > 0 && r.Intn(3) != 0 {
				t.deps = []int{perm[i-1]} // chain: unique run order
			}
			if r.Intn(2) == 0 {
				t.doc = fmt.Sprintf(rpDocs[r.Intn(len(rpDocs))], rpNames[nm])
			}
			nc := r.Intn(5)
			for j := 0; j < nc; j++ {
				marker++
				c := rpCmd{shape: "ooeobxkioc"[r.Intn(10)], marker: fmt.Sprintf("m%d", marker)}
				if c.shape == 'c' && j == 0 { // the first command line of a body cannot start with {{ (the lexer reads that as a syntax error)
					c.shape = 'o'
				}
				if c.shape == 'x' || c.shape == 'k' {
					c.status = []int{1, 2, 3, 7, 42, 127, 128, 255, 1 + r.Intn(255)}[r.Intn(9)]
					if r.Intn(3) == 0 { // most commands succeed
						c.shape = 'o'
						c.status = 0
					}
				}
				t.cmds = append(t.cmds, c)
			}
			ts = append(ts, t)
		}
		type rpVar struct {
			n   int
			val string
		}
		var vars []rpVar
		for _, vi := range r.Perm(len(rpVarNames))[:r.Intn(4)] {
			vars = append(vars, rpVar{vi, rpValues[r.Intn(len(rpValues))]})
		}
		ni := 1 + r.Intn(3)
		var invs []rpInv
		for i := 0; i < ni; i++ {
			inv := rpInv{flags: flagSets[r.Intn(len(flagSets))]}
			if r.Intn(5) != 0 {
				inv.req = []int{perm[r.Intn(nt)]}
				if r.Intn(4) == 0 {
					inv.req = append(inv.req, perm[r.Intn(nt)]) // two requests, possibly the same task twice
				}
			}
			if i > 0 && r.Intn(3) == 0 {
				inv.edit = strconv.Itoa(r.Intn(3))
			}
			invs = append(invs, inv)
		}
		// ---- encode the case
		var tenc, ienc []string
		for _, t := range ts {
			var cs []string
			for _, c := range t.cmds {
				cs = append(cs, c.enc())
			}
			lit := "0"
			if t.lit {
				lit = "1"
			}
			tenc = append(tenc, fmt.Sprintf("%d:%s:%s:%s", t.name, ints(t.deps), lit, strings.Join(cs, ",")))
		}
		var venc []string
		for _, v := range vars {
			venc = append(venc, fmt.Sprintf("%d=%s", v.n, hx(v.val)))
		}
		for _, v := range invs {
			req, ed := "-", "-"
			if len(v.req) > 0 {
				req = ints(v.req)
			}
			if v.edit != "" {
				ed = "E" + v.edit
			}
			ienc = append(ienc, fmt.Sprintf("%s:%s:%s", v.flags, req, ed))
		}
		cs := strings.Join(venc, ",") + "|" + strings.Join(tenc, ";") + "|" + strings.Join(ienc, ";")
		// ---- materialise
		home := filepath.Join(tmp, fmt.Sprintf("h%d", k))
		proj := filepath.Join(home, "proj")
		os.MkdirAll(proj, 0o755)
		var src strings.Builder
		src.WriteString("MK := \"mk\"\n")
		for _, v := range vars {
			fmt.Fprintf(&src, "%s := %q\n", rpVarNames[v.n], v.val)
		}
		for _, t := range ts {
			if t.doc != "" {
				fmt.Fprintf(&src, "# %s\n", t.doc)
			}
			var as []string
			for _, d := range t.deps {
				as = append(as, rpNames[d])
			}
			if t.lit {
				as = append(as, `"f0.txt"`)
			}
			fmt.Fprintf(&src, "task %s(%s) {\n", rpNames[t.name], strings.Join(as, ", "))
			for _, c := range t.cmds {
				fmt.Fprintf(&src, "    %s\n", c.source())
			}
			fmt.Fprint(&src, "}\n\n")
		}
		os.WriteFile(filepath.Join(proj, "spokfile"), []byte(src.String()), 0o644)
		os.WriteFile(filepath.Join(proj, "f0.txt"), []byte("0"), 0o644)
		if k%3 == 1 { // a .env file next to the spokfile: it feeds the commands' environment and nothing else
			os.WriteFile(filepath.Join(proj, ".env"), []byte("UNRELATED_SETTING=1\n"), 0o644)
			st.WithDotenv++
		}
		byName := map[int]rpTask{}
		for _, t := range ts {
			byName[t.name] = t
		}
		fail := func(prop, detail string) {
			st.OracleFail[prop]++
			fmt.Fprintf(bo, "%s %s %s\n", prop, cs, strings.ReplaceAll(detail, "\n", "\\n"))
		}
		// reference state: content of f0 at each task's last success
		content := "0"
		failedLast := map[string]string{} // task -> content of f0 when its last execution had a failing command
		lastOK := map[int]string{}
		var outs []string
		for ii, v := range invs {
			st.Invocations++
			st.Flags[v.flags]++
			if v.edit != "" {
				content = v.edit
				os.WriteFile(filepath.Join(proj, "f0.txt"), []byte(content), 0o644)
			}
			var argv []string
			for _, f := range v.flags {
				argv = append(argv, map[rune]string{'q': "--quiet", 'j': "--json", 'f': "--force", 's': "--show", 'v': "--vars", 'c': "--clean", 'd': "--debug"}[f])
			}
			for _, q := range v.req {
				argv = append(argv, rpNames[q])
			}
			cmd := exec.Command(*spok, argv...)
			cmd.Dir = proj
			tracePath := filepath.Join(home, "trace.log")
			os.Remove(tracePath)
			cmd.Env = []string{"HOME=" + home, "PATH=/usr/bin:/bin", "NO_COLOR=1", "T=" + tracePath}
			// every other invocation writes to regular files instead of pipes (`spok build > out.log 2> err.log`): what the
			// streams are connected to is not supposed to matter
			var so, se bytes.Buffer
			var fso, fse *os.File
			if (k+ii)%2 == 0 {
				fso, _ = os.Create(filepath.Join(home, "stdout.log"))
				fse, _ = os.Create(filepath.Join(home, "stderr.log"))
			}
			if fso != nil && fse != nil {
				cmd.Stdout, cmd.Stderr = fso, fse
				st.ToFiles++
			} else {
				cmd.Stdout, cmd.Stderr = &so, &se
			}
			runErr := cmd.Run()
			if fso != nil && fse != nil {
				fso.Close()
				fse.Close()
				b1, _ := os.ReadFile(filepath.Join(home, "stdout.log"))
				b2, _ := os.ReadFile(filepath.Join(home, "stderr.log"))
				so.Write(b1)
				se.Write(b2)
				os.Remove(filepath.Join(home, "stdout.log"))
				os.Remove(filepath.Join(home, "stderr.log"))
			}
			// the exit status as the properties see it: zero or not (which non-zero value is nobody's business)
			exit := 0
			if runErr != nil {
				exit = 1
				if ee, ok := runErr.(*exec.ExitError); ok {
					st.Exits[strconv.Itoa(ee.ExitCode())]++
				}
			}
			stdout := ansiRe.ReplaceAllString(so.String(), "")
			stderr := ansiRe.ReplaceAllString(se.String(), "")
			st.Exits[strconv.Itoa(exit)]++
			quiet, js, force, show := strings.Contains(v.flags, "q"), strings.Contains(v.flags, "j"), strings.Contains(v.flags, "f"), strings.Contains(v.flags, "s")
			// ---- reference semantics: --vars, then --clean, then --show, then the requests / the default action
			varsL, clean := strings.Contains(v.flags, "v"), strings.Contains(v.flags, "c")
			req := v.req
			_, hasDefault := byName[3]
			_, hasClean := byName[2]
			builtinClean := false
			usage := quiet && strings.Contains(v.flags, "d") // --debug with --quiet is refused before anything else happens
			switch {
			case usage:
				req = nil
			case varsL:
				req = nil
			case clean && hasClean:
				req = []int{2} // the user's own clean task; task names on the command line play no part
			case clean:
				req, builtinClean = nil, true
				lastOK = map[int]string{} // the cache directory is gone
			case show:
				req = nil
			case len(req) == 0 && hasDefault:
				req = []int{3}
			}
			many := len(req) > 1
			listing := !usage && !varsL && !clean && (show || len(req) == 0)
			if usage {
				varsL, clean = false, false
			}
			var order []int
			if len(req) > 0 {
				var visit func(n int)
				seen := map[int]bool{}
				visit = func(n int) {
					if seen[n] {
						return
					}
					seen[n] = true
					for _, d := range byName[n].deps {
						visit(d)
					}
					order = append(order, n)
				}
				for _, q := range req {
					visit(q)
				}
			}
			var want []jsonTask
			wantFail := ""
			var allFails []string
			for _, n := range order {
				t := byName[n]
				jt := jsonTask{Task: rpNames[n], Results: nil}
				prev, had := lastOK[n]
				if !force && t.lit && had && prev == content {
					jt.Skipped = true
					st.SkippedSeen++
				} else {
					okAll := true
					for _, c := range t.cmds {
						jt.Results = append(jt.Results, jsonCmd{c.text(), c.out(), c.errs(), c.status})
						if c.status != 0 {
							if okAll {
								allFails = append(allFails, fmt.Sprintf("cmdfail:%s:%d", rpNames[n], c.status))
							}
							okAll = false
							if wantFail == "" {
								wantFail = fmt.Sprintf("cmdfail:%s:%d", rpNames[n], c.status)
								st.Statuses[map[bool]string{true: "1-9", false: "10-255"}[c.status < 10]]++
							}
						}
					}
					if okAll {
						lastOK[n] = content
					}
				}
				want = append(want, jt)
			}
			if wantFail != "" {
				st.Failing++
			}
			// ---- project the implementation's behaviour
			errS := "none"
			if exit != 0 {
				errS = "other"
				if m := cmdFailRe.FindStringSubmatch(stderr); m != nil {
					errS = fmt.Sprintf("cmdfail:%s:%s", m[2], m[3])
				} else {
					// the wording of the message is not part of the property: naming the task and the status is
					for _, af := range allFails {
						if wf := strings.Split(af, ":"); mentionsWord(stderr, wf[1]) && mentionsWord(stderr, wf[2]) {
							errS = af
							break
						}
					}
				}
			}
			namedOK := errS == wantFail
			if many {
				// independent requested tasks may run in either order: any failing task may be the one named
				namedOK = false
				for _, af := range allFails {
					namedOK = namedOK || errS == af
				}
				if namedOK {
					errS = "cmdfail"
				}
			}
			sortIf := func(l []jsonTask) []jsonTask {
				if many {
					l = append([]jsonTask(nil), l...)
					sort.SliceStable(l, func(i, j int) bool { return l[i].Task < l[j].Task })
				}
				return l
			}
			outS := "?"
			switch {
			case exit != 0 && !quiet:
				outS = "unconstrained" // a failing invocation that is not --quiet: no property says what standard output holds
			case varsL && (quiet || js), builtinClean:
				outS = "nonempty"
				if stdout == "" {
					outS = "empty"
				} else if builtinClean {
					outS = "cleaned"
				}
			case varsL:
				// one line per variable: starts with the name, ends with the value (column alignment is not part of the property)
				var got []string
				for _, l := range strings.Split(stdout, "\n") {
					fl := strings.Fields(l)
					if len(fl) == 0 {
						continue
					}
					for vi, vn := range rpVarNames {
						if fl[0] == vn {
							val := "?"
							for _, vv := range vars {
								if vv.n == vi && strings.HasSuffix(l, vv.val) && strings.TrimSpace(strings.TrimPrefix(strings.TrimSpace(strings.TrimSuffix(l, vv.val)), vn)) == "" {
									val = hx(vv.val)
								}
							}
							got = append(got, vn+"="+val)
						}
					}
				}
				outS = "vars=" + strings.Join(got, ",")
			case listing && !quiet && !js:
				// one row per task: the rows are the lines whose first field is a task name of this harness (titles and
				// column headers, whatever they are, are not rows)
				var names []string
				for _, l := range strings.Split(stdout, "\n") {
					fl := strings.Fields(l)
					if len(fl) == 0 {
						continue
					}
					for _, nm := range rpNames {
						if fl[0] == nm {
							names = append(names, nm)
						}
					}
				}
				outS = "list=" + strings.Join(names, ",")
			case quiet && !js, listing:
				if stdout == "" {
					outS = "empty"
				} else {
					outS = "nonempty"
				}
			case js && exit == 0:
				var doc []jsonTask
				dec := json.NewDecoder(strings.NewReader(stdout))
				if err := dec.Decode(&doc); err != nil {
					outS = "json=UNDECODABLE"
				} else {
					outS = "json=" + canonTasks(sortIf(doc))
					var extra json.RawMessage
					if dec.Decode(&extra) == nil {
						outS = "json=TRAILING-DATA"
					}
				}
			case js:
				outS = "unconstrained" // --json on a run in which a command fails: no property says what standard output holds
			default:
				var ms []string
				if all := taskMsgRe.FindAllStringSubmatch(stdout, -1); len(all) > 0 {
					for _, m := range all {
						ms = append(ms, m[1]+":"+m[2][:1])
					}
				} else {
					// other wording: one line per task naming it; "skip" somewhere in the line means skipped
					for _, l := range strings.Split(stdout, "\n") {
						for _, t := range ts {
							if mentionsWord(l, rpNames[t.name]) {
								k := "c"
								if strings.Contains(strings.ToLower(l), "skip") {
									k = "s"
								}
								ms = append(ms, rpNames[t.name]+":"+k)
								break
							}
						}
					}
				}
				if many {
					sort.Strings(ms)
				}
				outS = "msgs=" + strings.Join(ms, ",")
				if many && exit != 0 {
					outS = "msgs=?" // which messages precede the first failure depends on the order of independent tasks
				}
			}
			outs = append(outs, fmt.Sprintf("exit=%d err=%s out=%s", exit, errS, outS))
			// ---- direct oracles.  C09 is judged on what really happened: the commands the trace file shows were executed
			var ranFails []string // cmdfail:<task>:<status> of executed commands with a non-zero status, first per task, in execution order
			ranTasks := map[string]bool{}
			if tr, err := os.ReadFile(tracePath); err == nil {
				seenT := map[string]bool{}
				for _, mk := range strings.Fields(string(tr)) {
					for _, t := range ts {
						for _, c := range t.cmds {
							if c.marker == mk {
								ranTasks[rpNames[t.name]] = true
								if c.status != 0 && !seenT[rpNames[t.name]] {
									seenT[rpNames[t.name]] = true
									ranFails = append(ranFails, fmt.Sprintf("cmdfail:%s:%d", rpNames[t.name], c.status))
								}
							}
						}
					}
				}
			}
			st.TracedCommands += len(ranTasks)
			if len(ranFails) > 0 {
				named := false
				for _, rf := range ranFails {
					wf := strings.Split(rf, ":")
					named = named || errS == rf || (many && errS == "cmdfail") || (mentionsWord(stderr, wf[1]) && mentionsWord(stderr, wf[2]))
				}
				if exit == 0 {
					fail("C09", fmt.Sprintf("invocation %d (%v): an executed command failed (%s) but spok exited 0", ii, argv, ranFails[0]))
				} else if !named {
					fail("C09", fmt.Sprintf("invocation %d (%v): an executed command failed (%s) but the error does not identify a failing task: %q", ii, argv, strings.Join(ranFails, " "), strings.TrimSpace(stderr)))
				}
				for _, rf := range ranFails {
					failedLast[strings.Split(rf, ":")[1]] = content
				}
			}
			for tn := range ranTasks {
				isF := false
				for _, rf := range ranFails {
					isF = isF || strings.Split(rf, ":")[1] == tn
				}
				if !isF {
					delete(failedLast, tn)
				}
			}
			if builtinClean && exit == 0 {
				failedLast = map[string]string{}
			}
			// a task whose last execution failed must not be reported as skipped (up to date) by a later run
			if strings.HasPrefix(outS, "json=") || strings.HasPrefix(outS, "msgs=") {
				for tn := range failedLast {
					if strings.Contains(outS, tn+":s") && !ranTasks[tn] {
						fail("C09", fmt.Sprintf("invocation %d (%v): task %s is reported skipped although its last execution had a failing command: %s", ii, argv, tn, outS))
					}
				}
			}
			_ = namedOK
			if force && exit == 0 && (strings.Contains(outS, ":s:") || strings.Contains(outS, ":s,") || strings.HasSuffix(outS, ":s")) && (strings.HasPrefix(outS, "json=") || strings.HasPrefix(outS, "msgs=")) {
				fail("C14", fmt.Sprintf("invocation %d (%v): a task is reported skipped under --force: %s", ii, argv, outS))
			}
			if varsL && !quiet && !js {
				var ws []string
				sorted := append([]rpVar(nil), vars...)
				sort.Slice(sorted, func(i, j int) bool { return rpVarNames[sorted[i].n] < rpVarNames[sorted[j].n] })
				for _, vv := range sorted {
					ws = append(ws, rpVarNames[vv.n]+"="+hx(vv.val))
				}
				if w := "vars=" + strings.Join(ws, ","); outS != w || exit != 0 {
					fail("C20", fmt.Sprintf("invocation %d (%v): --vars printed %s (exit %d), the variables are %s: %q", ii, argv, outS, exit, w, stdout))
				}
			}
			if len(order) > 0 && js && !quiet && wantFail == "" {
				if w := "json=" + canonTasks(sortIf(want)); outS != w {
					fail("C20", fmt.Sprintf("invocation %d (%v): --json printed %s, the run was %s", ii, argv, outS, w))
				}
			}
			if quiet && !js && stdout != "" {
				fail("C20", fmt.Sprintf("invocation %d (%v): --quiet but standard output is %q", ii, argv, stdout))
			}
			if listing && !quiet && !js {
				var names []string
				for _, t := range ts {
					names = append(names, rpNames[t.name])
				}
				sort.Strings(names)
				if w := "list=" + strings.Join(names, ","); outS != w {
					fail("C20", fmt.Sprintf("invocation %d (%v): listing is %s, expected %s", ii, argv, outS, w))
				}
				for _, t := range ts {
					if t.doc != "" && !strings.Contains(stdout, t.doc) {
						fail("C20", fmt.Sprintf("invocation %d (%v): listing lacks the docstring %q", ii, argv, t.doc))
					}
				}
			}
			if len(order) > 0 && !quiet && !js && wantFail == "" {
				var ms []string
				for _, jt := range want {
					f := "c"
					if jt.Skipped {
						f = "s"
					}
					ms = append(ms, jt.Task+":"+f)
				}
				if many {
					sort.Strings(ms)
				}
				if w := "msgs=" + strings.Join(ms, ","); outS != w {
					fail("C20", fmt.Sprintf("invocation %d (%v): reported %s, the run was %s", ii, argv, outS, w))
				}
			}
		}
		fmt.Fprintln(bc, cs)
		fmt.Fprintln(bi, strings.Join(outs, " ; "))
		st.Cases++
		if len(invs) >= 2 {
			st.Nontrivial++
		}
		if len(st.Samples) < 4 && k%97 == 3 {
			st.Samples = append(st.Samples, cs+" => "+strings.Join(outs, " ; "))
		}
		os.RemoveAll(home)
	}
	// thorough tier, implementation only: a command that is still running long after it started and then fails is a failing command
	// (20 s: past any time limit a task runner is likely to apply silently)
	if *tier == "thorough" && *shard == 0 {
		home := filepath.Join(tmp, "slow")
		proj := filepath.Join(home, "proj")
		os.MkdirAll(proj, 0o755)
		os.WriteFile(filepath.Join(proj, "f0.txt"), []byte("0"), 0o644)
		os.WriteFile(filepath.Join(proj, "spokfile"), []byte("task slow(\"f0.txt\") {\n    sleep 20; exit 3\n}\n"), 0o644)
		for _, flags := range [][]string{{"slow"}, {"--json", "slow"}} {
			cmd := exec.Command(*spok, flags...)
			cmd.Dir = proj
			cmd.Env = []string{"HOME=" + home, "PATH=/usr/bin:/bin", "NO_COLOR=1"}
			var so bytes.Buffer
			cmd.Stdout = &so
			err := cmd.Run()
			st.Flags["slow-failing-command(impl only)"]++
			if err == nil {
				st.OracleFail["C09"]++
				fmt.Fprintf(bo, "C09 slow-failing-command `spok %s` where the task's command is `sleep 20; exit 3`: spok exited 0 (stdout %q)\n", strings.Join(flags, " "), so.String())
			} else if strings.Contains(so.String(), "\"skipped\":true") {
				st.OracleFail["C09"]++
				fmt.Fprintf(bo, "C09 slow-failing-command `spok %s`: the task is reported skipped after a run in which its command failed\n", strings.Join(flags, " "))
			}
		}
		os.RemoveAll(home)
	}
	bc.Flush()
	bi.Flush()
	bo.Flush()
	fc.Close()
	fi.Close()
	fo.Close()
	sj, _ := json.Marshal(st)
	return os.WriteFile(filepath.Join(*out, fmt.Sprintf("stats.%d.json", *shard)), sj, 0o644)
}
