package main

// Component "syntax": lexer, parser and formatter of spok driven through their public API.
// For every generated input it writes
//   cases.<shard>.txt   the input, hex
//   impl.<shard>.txt    "<tokens> ## <parse result> ## <formatted text>" (same format as ocaml/syntax.ml)
//   oracle.<shard>.txt  one line per direct-oracle failure: "<property> <hex input> <detail>"
//   stats.<shard>.json  measured input distribution
// The direct oracles evaluate the property statements C16, C08, C07, C11, C15 on the
// implementation alone (no model involved).

import (
	"bufio"
	"encoding/hex"
	"encoding/json"
	"flag"
	"fmt"
	"go/ast"
	goparser "go/parser"
	gotoken "go/token"
	"hash/fnv"
	"io"
	"math/rand"
	"os"
	"os/exec"
	"path/filepath"
	"regexp"
	"sort"
	"strconv"
	"strings"
	"time"
	"unicode"
	"unicode/utf8"

	spokast "github.com/FollowTheProcess/spok/ast"
	"github.com/FollowTheProcess/spok/lexer"
	"github.com/FollowTheProcess/spok/parser"
	"github.com/FollowTheProcess/spok/token"
)

func init() {
	commands["syntax"] = syntaxCmd
	commands["syntax-worker"] = syntaxWorker
}

// the lexer-class alphabet of DESIGN.md section 5 group A
var alphabet = []string{"a", "task", "_", "é", "日", "1", " ", "\t", "\n", "\r\n", " ", "#", "\"", "(", ")", "{", "}", ",", ":=", "->", "{{", "}}", ".", "$", "\xff", ";", "\r", "-", "%"}

// further symbols, used where the number of combinations allows (strings of length <= 2 at top level and inside the contexts, mutations):
// a byte order mark, Unicode spaces outside Latin-1, NEL, letters whose last UTF-8 byte is 0x85 / 0xA0, and those two bytes on their own
var extAlphabet = append(append([]string{}, alphabet...), "\ufeff", "\u3000", "\u2028", "\u0085", "à", "х", "\xa0", "\x85", "\ufffd", "Р", "\u200b")

func hx(s string) string { return hex.EncodeToString([]byte(s)) }

var lexLineRe = regexp.MustCompile(`(?i)\bline (\d+)\b[^\n]*\n+\d+[ \t]*\|[ \t]?`)
var parseLineRe = regexp.MustCompile(`(?is)\bline (\d+)\b.*?\n+(\d+)[ \t]*\|[ \t]?(.*)$`)

const watchdog = 3 * time.Second

type lexObs struct {
	toks []token.Token
	hang bool
	pnc  string
}

func lexAll(src string) lexObs {
	ch := make(chan lexObs, 1)
	go func() {
		var o lexObs
		defer func() {
			if r := recover(); r != nil {
				o.pnc = fmt.Sprint(r)
			}
			ch <- o
		}()
		l := lexer.New(src)
		for i := 0; i < 4*len(src)+16; i++ {
			t := l.NextToken()
			o.toks = append(o.toks, t)
			if t.Type == token.ERROR || t.Type == token.EOF {
				return
			}
		}
		o.pnc = "token stream longer than 4*len+16"
	}()
	select {
	case o := <-ch:
		return o
	case <-time.After(watchdog):
		return lexObs{hang: true}
	}
}

func projectLex(o lexObs) string {
	if o.hang {
		return "HANG"
	}
	if o.pnc != "" {
		return "PANIC"
	}
	var b strings.Builder
	b.WriteString("ok")
	for _, t := range o.toks {
		if t.Type == token.ERROR {
			loc := lexLineRe.FindStringSubmatchIndex(t.Value)
			eline, ctx := -1, "NOMATCH"
			if loc != nil {
				eline, _ = strconv.Atoi(t.Value[loc[2]:loc[3]])
				ctx = hx(t.Value[loc[1]:])
			}
			fmt.Fprintf(&b, " ERROR:%d:%d:%d:%s", t.Pos, t.Line, eline, ctx)
			break
		}
		fmt.Fprintf(&b, " %s:%s:%d:%d", t.Type, hx(t.Value), t.Pos, t.Line)
	}
	return b.String()
}

type parseObs struct {
	tree spokast.Tree
	err  error
	hang bool
	pnc  string
}

func parseOnce(src string) parseObs {
	ch := make(chan parseObs, 1)
	go func() {
		var o parseObs
		defer func() {
			if r := recover(); r != nil {
				o.pnc = fmt.Sprint(r)
			}
			ch <- o
		}()
		o.tree, o.err = parser.New(src).Parse()
	}()
	select {
	case o := <-ch:
		return o
	case <-time.After(watchdog):
		return parseObs{hang: true}
	}
}

func argStr(n spokast.Node) string {
	if n.Type() == spokast.NodeString {
		return "s." + hx(n.Literal())
	}
	return "i." + hx(n.Literal())
}
func argsStr(ns []spokast.Node) string {
	p := make([]string, 0, len(ns))
	for _, n := range ns {
		p = append(p, argStr(n))
	}
	return strings.Join(p, ",")
}

func treeStr(t spokast.Tree) string {
	var parts []string
	for _, n := range t.Nodes {
		switch v := n.(type) {
		case spokast.Comment:
			parts = append(parts, "C:"+hx(v.Text))
		case spokast.Assign:
			switch w := v.Value.(type) {
			case spokast.String:
				parts = append(parts, "A:"+hx(v.Name.Name)+":S:"+hx(w.Text))
			case spokast.Ident:
				parts = append(parts, "A:"+hx(v.Name.Name)+":I:"+hx(w.Name))
			case spokast.Function:
				parts = append(parts, "A:"+hx(v.Name.Name)+":F:"+hx(w.Name.Name)+"("+argsStr(w.Arguments)+")")
			default:
				parts = append(parts, "A:?")
			}
		case spokast.Task:
			cmds := make([]string, 0, len(v.Commands))
			for _, c := range v.Commands {
				cmds = append(cmds, hx(c.Command))
			}
			parts = append(parts, "T:"+hx(v.Docstring.Text)+":"+hx(v.Name.Name)+":"+argsStr(v.Dependencies)+":"+argsStr(v.Outputs)+":"+strings.Join(cmds, ","))
		default:
			parts = append(parts, "?")
		}
	}
	return strings.Join(parts, ";")
}

func projectParse(o parseObs) string {
	switch {
	case o.hang:
		return "HANG ## - ## -"
	case o.pnc != "":
		return "PANIC ## - ## -"
	case o.err != nil:
		m := parseLineRe.FindStringSubmatch(o.err.Error())
		if m == nil {
			return "R " + hx(o.err.Error()) + " ## - ## -"
		}
		return fmt.Sprintf("E %s %s ## - ## -", m[1], hx(m[3]))
	}
	// last field: every tree the parser returns is expected to lie in the class the formatter theorems cover
	// (the model evaluates the verified decision procedure cst_wf_b on its canonical layout and prints 1 or 0)
	return "T " + treeStr(o.tree) + " ## " + hx(o.tree.String()) + " ## 1"
}

// ---- direct oracles (property statements evaluated on the implementation alone) ----

// C16: tokens tile the input.
func oracleC16(src string, o lexObs) string {
	if o.hang {
		return "lexer did not finish within the watchdog"
	}
	if o.pnc != "" {
		return "lexer fault: " + o.pnc
	}
	if len(o.toks) == 0 {
		return "empty token stream"
	}
	end := 0
	for i, t := range o.toks {
		last := i == len(o.toks)-1
		if t.Type == token.ERROR {
			if !last {
				return "ERROR token is not last"
			}
			return ""
		}
		if t.Pos < end || t.Pos > len(src) || t.Pos+len(t.Value) > len(src) {
			return fmt.Sprintf("token %d (%s) offset %d out of order/range (previous end %d)", i, t.Type, t.Pos, end)
		}
		if src[t.Pos:t.Pos+len(t.Value)] != t.Value {
			return fmt.Sprintf("token %d (%s) text %q is not input[%d:%d]", i, t.Type, t.Value, t.Pos, t.Pos+len(t.Value))
		}
		// gap must be whitespace runes only
		gap := src[end:t.Pos]
		for len(gap) > 0 {
			r, w := utf8.DecodeRuneInString(gap)
			if !unicode.IsSpace(r) {
				return fmt.Sprintf("non-whitespace %q between offsets %d and %d is in no token", src[end:t.Pos], end, t.Pos)
			}
			gap = gap[w:]
		}
		if want := 1 + strings.Count(src[:t.Pos], "\n"); t.Line != want {
			return fmt.Sprintf("token %d (%s) at offset %d has line %d, want %d", i, t.Type, t.Pos, t.Line, want)
		}
		end = t.Pos + len(t.Value)
		if t.Type == token.EOF {
			if !last {
				return "EOF token is not last"
			}
			if t.Pos != len(src) {
				return fmt.Sprintf("EOF token at offset %d, input length %d", t.Pos, len(src))
			}
		}
	}
	lt := o.toks[len(o.toks)-1]
	if lt.Type != token.EOF && lt.Type != token.ERROR {
		return "stream does not end in EOF or ERROR"
	}
	return ""
}

// C08: termination, no fault, determinism, located errors.
func oracleC08(src string, a, b parseObs) string {
	if a.hang || b.hang {
		return "parse did not finish within the watchdog"
	}
	if a.pnc != "" {
		return "parse fault: " + a.pnc
	}
	if b.pnc != "" {
		return "parse fault: " + b.pnc
	}
	if projectParse(a) != projectParse(b) || (a.err != nil && b.err != nil && a.err.Error() != b.err.Error()) {
		return "two parses of the same input differ"
	}
	if a.err != nil {
		m := parseLineRe.FindStringSubmatch(a.err.Error())
		if m == nil {
			return fmt.Sprintf("error %q cites no line", a.err.Error())
		}
		line, _ := strconv.Atoi(m[1])
		lines := strings.Split(src, "\n")
		if line < 1 || line > len(lines) {
			return fmt.Sprintf("error cites line %d of an input with %d lines", line, len(lines))
		}
		if m[2] != m[1] {
			return fmt.Sprintf("error cites line %s but quotes line %s", m[1], m[2])
		}
		if want := strings.TrimSpace(lines[line-1]); m[3] != want {
			return fmt.Sprintf("error cites line %d and quotes %q, but that line is %q", line, m[3], want)
		}
	}
	return ""
}

// sem: what a spokfile does: variables with values and tasks with deps, outputs, commands, in order.
func sem(t spokast.Tree) string {
	var parts []string
	for _, n := range t.Nodes {
		switch v := n.(type) {
		case spokast.Assign:
			parts = append(parts, "A:"+hx(v.Name.Name)+"="+hx(v.Value.String()))
		case spokast.Task:
			cmds := make([]string, 0, len(v.Commands))
			for _, c := range v.Commands {
				cmds = append(cmds, hx(c.Command))
			}
			parts = append(parts, "T:"+hx(v.Name.Name)+":"+argsStr(v.Dependencies)+":"+argsStr(v.Outputs)+":"+strings.Join(cmds, ","))
		}
	}
	return strings.Join(parts, ";")
}

// commentsOf: ordered non-empty comments (trimmed) interleaved with statement markers, and (task, trimmed doc) pairs.
func commentsOf(t spokast.Tree) (string, string) {
	var seq, docs []string
	for _, n := range t.Nodes {
		switch v := n.(type) {
		case spokast.Comment:
			if tr := strings.TrimSpace(v.Text); tr != "" {
				seq = append(seq, "C:"+hx(tr))
			}
		case spokast.Assign:
			seq = append(seq, "A:"+hx(v.Name.Name))
		case spokast.Task:
			seq = append(seq, "T:"+hx(v.Name.Name))
			docs = append(docs, hx(v.Name.Name)+"="+hx(strings.TrimSpace(v.Docstring.Text)))
		}
	}
	return strings.Join(seq, ";"), strings.Join(docs, ";")
}

// C07, C11, C15 on one input that parses.
func oracleFmt(src string, a parseObs) (c07, c11, c15 string) {
	if a.hang || a.pnc != "" || a.err != nil {
		return
	}
	f1 := a.tree.String()
	b := parseOnce(f1)
	if b.hang || b.pnc != "" {
		c07 = "parsing the formatted text faults or hangs"
		return
	}
	if b.err != nil {
		c07 = fmt.Sprintf("formatted text %q does not parse: %s", f1, strings.SplitN(b.err.Error(), "\n", 2)[0])
		return
	}
	if sem(a.tree) != sem(b.tree) {
		c07 = fmt.Sprintf("formatted text %q defines something else", f1)
	}
	if f2 := b.tree.String(); f2 != f1 {
		c11 = fmt.Sprintf("format(format(x)) = %q differs from format(x) = %q", f2, f1)
	}
	s1, d1 := commentsOf(a.tree)
	s2, d2 := commentsOf(b.tree)
	if s1 != s2 {
		c15 = fmt.Sprintf("comments before/after formatting differ (formatted text %q)", f1)
	} else if d1 != d2 {
		c15 = fmt.Sprintf("docstrings before/after formatting differ (formatted text %q)", f1)
	}
	return
}

// ---- generators ----

var gNames = []string{"a", "B_c", "task", "tasks", "taskx", "é", "x1", "_", "ta", "default", "t", "task_"}
var gStrs = []string{"", "s", "a b", "*.go", "\nq", "é", "a#b", "{", "}}", "x)", "task", "a\rb", "\r"}
var gCmts = []string{"", " ", " c", "c  ", "# d", " \t", " é", "\r", " x\r", " task", " "}
var gCmds = []string{"echo hi", "echo {{.X}}", "e", "echo }}", "echo {{", "go test ./...", "echo a  ", "echo \"q\"", "echo a;b", "echo é", "echo $X {{.Y}}}", "x}{{y", "echo '{'", "task x", "echo a\r", "echo {{ .X }}"}
var gWss = []string{"", " ", "  ", "\t", "\n", "\r\n", "\n\n", " \n", "\n ", " ", "\r"}
var gHss = []string{"", " ", "  ", "\t"}

func pick(r *rand.Rand, l []string) string { return l[r.Intn(len(l))] }

func genArgs(r *rand.Rand) string {
	n := r.Intn(4)
	var parts []string
	for i := 0; i < n; i++ {
		if r.Intn(2) == 0 {
			parts = append(parts, "\""+pick(r, gStrs)+"\"")
		} else {
			parts = append(parts, pick(r, gNames))
		}
	}
	s := strings.Join(parts, pick(r, gHss)+","+pick(r, gWss))
	if n > 0 && r.Intn(4) == 0 {
		s += ","
	}
	return pick(r, gHss) + s + pick(r, gHss)
}

func genStmt(r *rand.Rand) string {
	switch r.Intn(10) {
	case 0, 1:
		return "#" + pick(r, gCmts)
	case 2, 3:
		return pick(r, gNames) + pick(r, gHss) + ":=" + pick(r, gHss) + "\"" + pick(r, gStrs) + "\""
	case 4:
		return pick(r, gNames) + pick(r, gHss) + ":=" + pick(r, gHss) + pick(r, gNames) + "(" + genArgs(r) + ")"
	case 5:
		return pick(r, gNames) + " := " + pick(r, gNames)
	default:
		var b strings.Builder
		if r.Intn(3) == 0 {
			b.WriteString("#" + pick(r, gCmts) + pick(r, []string{"\n", "\r\n", "\n\n"}))
		}
		b.WriteString("task" + pick(r, gWss) + pick(r, gNames) + pick(r, gHss) + "(" + genArgs(r) + ")" + pick(r, gWss))
		switch r.Intn(4) {
		case 0:
			b.WriteString("->" + pick(r, gWss) + "\"" + pick(r, gStrs) + "\"" + pick(r, gWss))
		case 1:
			b.WriteString("->" + pick(r, gHss) + pick(r, gNames) + pick(r, gWss))
		case 2:
			b.WriteString("->" + pick(r, gHss) + "(" + genArgs(r) + ")" + pick(r, gWss))
		}
		b.WriteString("{")
		n := r.Intn(4)
		if n > 0 && r.Intn(4) == 0 {
			b.WriteString(pick(r, gHss) + pick(r, gCmds) + pick(r, gHss))
		} else {
			b.WriteString(pick(r, gWss))
			for i := 0; i < n; i++ {
				b.WriteString(pick(r, gCmds) + pick(r, []string{"\n", "\r\n", "\n\n", "\n  ", " \n"}))
			}
		}
		b.WriteString("}")
		return b.String()
	}
}

func genProgram(r *rand.Rand) string {
	var b strings.Builder
	n := r.Intn(7)
	b.WriteString(pick(r, gWss))
	for i := 0; i < n; i++ {
		b.WriteString(genStmt(r))
		if r.Intn(6) == 0 {
			b.WriteString(pick(r, gHss))
		} else {
			b.WriteString(pick(r, []string{"\n", "\r\n", "\n\n", "\n\t"}))
		}
	}
	return b.String()
}

func mutate(r *rand.Rand, s string) string {
	b := []byte(s)
	n := 1 + r.Intn(3)
	for i := 0; i < n; i++ {
		sym := extAlphabet[r.Intn(len(extAlphabet))]
		switch k := r.Intn(4); {
		case k == 0 || len(b) == 0: // insert a class symbol
			p := r.Intn(len(b) + 1)
			b = append(b[:p], append([]byte(sym), b[p:]...)...)
		case k == 1: // delete a byte
			p := r.Intn(len(b))
			b = append(b[:p], b[p+1:]...)
		case k == 2: // swap two bytes
			p, q := r.Intn(len(b)), r.Intn(len(b))
			b[p], b[q] = b[q], b[p]
		default: // substitute a byte by a class symbol
			p := r.Intn(len(b))
			b = append(b[:p], append([]byte(sym), b[p+1:]...)...)
		}
	}
	return string(b)
}

// seedTexts: the repository's own spokfiles and every string literal of the lexer and parser tests.
func seedTexts(repo string) []string {
	var out []string
	seen := map[string]bool{}
	add := func(s string) {
		if len(s) > 0 && len(s) < 4000 && !seen[s] {
			seen[s] = true
			out = append(out, s)
		}
	}
	filepath.Walk(repo, func(p string, info os.FileInfo, err error) error {
		if err != nil {
			return nil
		}
		if info.IsDir() && (info.Name() == ".git" || info.Name() == "node_modules") {
			return filepath.SkipDir
		}
		if !info.IsDir() && (info.Name() == "spokfile" || strings.HasSuffix(info.Name(), ".spok")) {
			if b, err := os.ReadFile(p); err == nil {
				add(string(b))
			}
		}
		return nil
	})
	for _, f := range []string{"lexer/lexer_test.go", "parser/parser_test.go", "ast/ast_test.go"} {
		fset := gotoken.NewFileSet()
		af, err := goparser.ParseFile(fset, filepath.Join(repo, f), nil, 0)
		if err != nil {
			continue
		}
		ast.Inspect(af, func(n ast.Node) bool {
			if bl, ok := n.(*ast.BasicLit); ok && bl.Kind == gotoken.STRING {
				if s, err := strconv.Unquote(bl.Value); err == nil {
					add(s)
				}
			}
			return true
		})
	}
	sort.Strings(out)
	return out
}

type syntaxStats struct {
	Cases          int            `json:"cases"`
	Distinct       int            `json:"distinct"`
	BySource       map[string]int `json:"by_source"`
	ParseOK        int            `json:"parse_ok"`
	ParseErr       int            `json:"parse_err"`
	LexErr         int            `json:"lex_err"`
	MultiToken     int            `json:"distinct_with_3plus_tokens"`
	LenHist        map[string]int `json:"byte_length_histogram"`
	TokenKinds     map[string]int `json:"token_kinds"`
	ErrLines       map[string]int `json:"error_line_histogram"`
	NonASCII       int            `json:"inputs_with_non_ascii"`
	CRLF           int            `json:"inputs_with_crlf"`
	ExhaustiveLen  int            `json:"exhaustive_alphabet_length"`
	AlphabetSize   int            `json:"alphabet_size"`
	Samples        []string       `json:"samples"`
	OracleFailures map[string]int `json:"oracle_failures"`
}

func lenBucket(n int) string {
	switch {
	case n <= 4:
		return strconv.Itoa(n)
	case n <= 8:
		return "5-8"
	case n <= 16:
		return "9-16"
	case n <= 64:
		return "17-64"
	case n <= 256:
		return "65-256"
	}
	return ">256"
}

func syntaxCmd(args []string) error {
	fs := flag.NewFlagSet("syntax", flag.ExitOnError)
	out := fs.String("out", "", "output directory")
	tier := fs.String("tier", "quick", "quick|thorough")
	seed := fs.Int64("seed", 1, "PRNG seed")
	shard := fs.Int("shard", 0, "shard index")
	nshards := fs.Int("nshards", 1, "number of shards")
	maxLen := fs.Int("maxlen", -1, "exhaustive length (default by tier)")
	nrand := fs.Int("nrand", -1, "random programs (default by tier)")
	corpus := fs.String("corpus", "", "corpus directory (hex lines in *.txt), run first")
	repo := fs.String("repo", "/repo", "repository root (for seed texts)")
	only := fs.String("only", "", "if set: a file of hex inputs to run instead of generating")
	fs.Parse(args)
	if *maxLen < 0 {
		*maxLen = 4
		if *tier == "thorough" {
			*maxLen = 5
		}
	}
	if *nrand < 0 {
		*nrand = 60000
		if *tier == "thorough" {
			*nrand = 1000000
		}
	}
	sfx := fmt.Sprintf(".%d.txt", *shard)
	fc, _ := os.Create(filepath.Join(*out, "cases"+sfx))
	fi, _ := os.Create(filepath.Join(*out, "impl"+sfx))
	fo, _ := os.Create(filepath.Join(*out, "oracle"+sfx))
	bc, bi, bo := bufio.NewWriterSize(fc, 1<<20), bufio.NewWriterSize(fi, 1<<20), bufio.NewWriterSize(fo, 1<<16)
	st := syntaxStats{BySource: map[string]int{}, LenHist: map[string]int{}, TokenKinds: map[string]int{}, ErrLines: map[string]int{},
		OracleFailures: map[string]int{}, ExhaustiveLen: *maxLen, AlphabetSize: len(alphabet)}
	seen := map[uint64]struct{}{}
	fail := func(prop, src, detail string) {
		st.OracleFailures[prop]++
		fmt.Fprintf(bo, "%s %s %s\n", prop, hx(src), strings.ReplaceAll(detail, "\n", "\\n"))
	}
	// the implementation runs in a child process: a panic inside the lexer's own goroutine cannot be recovered
	// and must be an observation, not the end of the check
	self, _ := os.Executable()
	var wk *synWorker
	served := 0
	hangs := 0
	defer func() {
		if wk != nil {
			wk.stop()
		}
	}()
	var runImplOnly func(source, src string)
	run := func(source, src string) {
		h := fnv.New64a()
		h.Write([]byte(src))
		key := h.Sum64()
		_, dup := seen[key]
		if dup && source != "corpus" {
			return
		}
		if hangs >= 5 {
			return // enough evidence; every further hanging input would burn cores and minutes
		}
		seen[key] = struct{}{}
		st.Cases++
		st.Distinct++
		st.BySource[source]++
		st.LenHist[lenBucket(len(src))]++
		if wk == nil || served >= 20000 {
			if wk != nil {
				wk.stop()
			}
			wk, served = startSynWorker(self), 0
		}
		served++
		resp, ok := wk.ask(hx(src))
		fmt.Fprintln(bc, hx(src))
		if !ok {
			wk.stop()
			wk = nil
			fmt.Fprintln(bi, "CRASH ## CRASH ## - ## -")
			fail("C08", src, "lexing/parsing this input crashed or hung the process (a fault outside the parsing goroutine cannot be recovered)")
			fail("C16", src, "lexing this input crashed or hung the process")
			return
		}
		if strings.HasPrefix(resp, "HANG") || strings.Contains(resp, " ## HANG") {
			hangs++
			wk.stop() // the stuck goroutines would keep spinning
			wk = nil
		}
		parts := strings.SplitN(resp, "\t", 3)
		if len(parts) != 3 {
			fmt.Fprintln(bi, "BADWORKERLINE ## - ## - ## -")
			return
		}
		fmt.Fprintln(bi, parts[0])
		if parts[1] != "" {
			for _, e := range strings.Split(parts[1], "\x1e") {
				if pd := strings.SplitN(e, "\x1f", 2); len(pd) == 2 {
					fail(pd[0], src, pd[1])
				}
			}
		}
		var ntok, pok, lerr, nodes int
		var eline string
		fmt.Sscanf(parts[2], "%d,%d,%d,%d,%s", &ntok, &pok, &lerr, &nodes, &eline)
		if ntok >= 3 {
			st.MultiToken++
		}
		for _, f := range strings.Fields(strings.SplitN(parts[0], " ## ", 2)[0]) {
			if i := strings.IndexByte(f, ':'); i > 0 {
				st.TokenKinds[f[:i]]++
			}
		}
		st.LexErr += lerr
		if pok == 1 {
			st.ParseOK++
		} else {
			st.ParseErr++
			if eline != "-" {
				st.ErrLines[eline]++
			}
		}
		if strings.Contains(src, "\r\n") {
			st.CRLF++
		}
		for i := 0; i < len(src); i++ {
			if src[i] >= 0x80 {
				st.NonASCII++
				break
			}
		}
		if len(st.Samples) < 6 && (st.Cases%9973 == 1 || (pok == 1 && nodes >= 2 && len(st.Samples) < 3)) {
			st.Samples = append(st.Samples, strconv.Quote(src))
		}
	}

	// runImplOnly: inputs too long for the extracted model (its lexer is quadratic in the input length): the implementation alone,
	// judged by the direct oracles of the worker (tiling and line numbers of C16, located errors of C08)
	runImplOnly = func(source, src string) {
		if wk == nil {
			wk, served = startSynWorker(self), 0
		}
		served++
		st.BySource[source]++
		st.LenHist[lenBucket(len(src))]++
		resp, ok := wk.ask(hx(src))
		if !ok {
			wk.stop()
			wk = nil
			fail("C08", src[:40]+"...", "lexing/parsing this long input crashed or hung the process")
			return
		}
		parts := strings.SplitN(resp, "\t", 3)
		if len(parts) == 3 && parts[1] != "" {
			for _, e := range strings.Split(parts[1], "\x1e") {
				if pd := strings.SplitN(e, "\x1f", 2); len(pd) == 2 {
					fail(pd[0], fmt.Sprintf("%s...(%d bytes)...%s", src[:30], len(src), src[len(src)-30:]), pd[1])
				}
			}
		}
	}

	if *only != "" {
		f, err := os.Open(*only)
		if err != nil {
			return err
		}
		sc := bufio.NewScanner(f)
		sc.Buffer(make([]byte, 1<<20), 1<<24)
		for sc.Scan() {
			if b, err := hex.DecodeString(strings.TrimSpace(sc.Text())); err == nil {
				run("only", string(b))
			}
		}
	} else {
		// (a) corpus first
		if *corpus != "" && *shard == 0 {
			files, _ := filepath.Glob(filepath.Join(*corpus, "*.txt"))
			sort.Strings(files)
			for _, cf := range files {
				f, err := os.Open(cf)
				if err != nil {
					continue
				}
				sc := bufio.NewScanner(f)
				sc.Buffer(make([]byte, 1<<20), 1<<24)
				for sc.Scan() {
					line := strings.TrimSpace(sc.Text())
					if line == "" || strings.HasPrefix(line, "//") {
						continue
					}
					if b, err := hex.DecodeString(line); err == nil {
						run("corpus", string(b))
					}
				}
				f.Close()
			}
		}
		// (b) bounded-exhaustive over the class alphabet
		var rec func(prefix string, depth int)
		rec = func(prefix string, depth int) {
			run("exhaustive", prefix)
			if depth == *maxLen {
				return
			}
			for _, a := range alphabet {
				rec(prefix+a, depth+1)
			}
		}
		if *shard == 0 {
			run("exhaustive", "")
		}
		if *maxLen > 0 {
			for i, a := range alphabet {
				if i%*nshards == *shard {
					rec(a, 1)
				}
			}
		}
		// (b2) bounded-exhaustive inside contexts: the lexer states that an empty context never reaches in a few symbols
		// (task bodies, later command lines, argument lists, right-hand sides, outputs, comments, strings)
		contexts := [][2]string{{"task a(){", "}"}, {"task a(){\nx\n", "\n}"}, {"task a(", "){}"}, {"a:=", ""}, {"a:=join(", ")"},
			{"task a()->", "{}"}, {"#", "\ntask a(){}"}, {"task a(\"", "\"){}"}, {"task a(){x ", "\n}\n#"},
			// a well-formed token where the parser does not expect one: a second string after a right-hand side, after an output, in an argument list
			{"a:=\"x\" \"", "\"\n"}, {"task a()->\"b\" \"", "\"{}"}, {"task a(\"x\" \"", "\"){}"}}
		ctxLen := 3
		var recCtx func(c [2]string, mid string, depth int)
		recCtx = func(c [2]string, mid string, depth int) {
			run("exhaustive-in-context", c[0]+mid+c[1])
			if depth == ctxLen {
				return
			}
			for _, a := range alphabet {
				recCtx(c, mid+a, depth+1)
			}
		}
		for ci, c := range contexts {
			for i, a := range alphabet {
				if (ci+i)%*nshards == *shard {
					recCtx(c, a, 1)
				}
			}
		}
		// (b3) the extended alphabet, strings of length <= 2, at top level and inside every context; and very long lines
		for i, a := range extAlphabet {
			if i%*nshards != *shard {
				continue
			}
			run("exhaustive-extended", a)
			for _, b := range extAlphabet {
				run("exhaustive-extended", a+b)
				for _, c := range contexts {
					run("exhaustive-extended-in-context", c[0]+a+b+c[1])
				}
			}
			for _, c := range contexts {
				run("exhaustive-extended-in-context", c[0]+a+c[1])
			}
		}
		if *shard == 0 {
			for _, n := range []int{65535, 65536, 70000} {
				long := strings.Repeat("x", n)
				runImplOnly("long-line(impl only)", "#"+long+"\nGLOBAL := \"hello")
				runImplOnly("long-line(impl only)", "task a() {\n    echo "+long+"\n}\n???")
				runImplOnly("long-line(impl only)", "A := \""+long+"\"\ntask b( {")
			}
			// many tokens from one construct: task bodies of 127..130, 300 and 5000 command lines, 300 arguments, 300 statements
			for _, n := range []int{127, 128, 129, 130, 300, 5000} {
				body := strings.Repeat("    echo hi\n", n)
				runImplOnly("many-tokens(impl only)", "task a() {\n"+body+"}\n")
				runImplOnly("many-tokens(impl only)", "task a() {\n"+body+"}\ntask b( {")
			}
			runImplOnly("many-tokens(impl only)", "task a("+strings.Repeat("\"f.txt\", ", 300)+"\"g\") {\n    x\n}\n")
			runImplOnly("many-tokens(impl only)", strings.Repeat("A := \"b\"\n# c\n", 300)+"???")
		}
		// (c) seeded random programs, each with a random prefix (truncation)
		r := rand.New(rand.NewSource(*seed*1000003 + int64(*shard)))
		for i := 0; i < *nrand / *nshards; i++ {
			p := genProgram(r)
			run("random-program", p)
			if len(p) > 0 {
				run("random-prefix", p[:r.Intn(len(p))])
			}
		}
		// (d) mutations of the repository's spokfiles and test literals (+ every prefix of the spokfiles in shard 0)
		seeds := seedTexts(*repo)
		nm := 40
		if *tier == "thorough" {
			nm = 600
		}
		for si, s := range seeds {
			if si%*nshards != *shard {
				continue
			}
			run("seed-text", s)
			for k := 0; k < nm; k++ {
				run("mutation", mutate(r, s))
			}
			if len(s) < 1500 {
				for k := 0; k < len(s); k += 1 + len(s)/200 {
					run("seed-prefix", s[:k])
				}
			}
		}
	}
	bc.Flush()
	bi.Flush()
	bo.Flush()
	fc.Close()
	fi.Close()
	fo.Close()
	sj, _ := json.Marshal(st)
	return os.WriteFile(filepath.Join(*out, fmt.Sprintf("stats.%d.json", *shard)), sj, 0o644)
}

// ---- the child process that runs the implementation ----

type synWorker struct {
	cmd *exec.Cmd
	in  io.WriteCloser
	out *bufio.Reader
}

func startSynWorker(bin string) *synWorker {
	cmd := exec.Command(bin, "syntax-worker")
	in, _ := cmd.StdinPipe()
	op, _ := cmd.StdoutPipe()
	cmd.Stderr = io.Discard
	if err := cmd.Start(); err != nil {
		return &synWorker{}
	}
	return &synWorker{cmd, in, bufio.NewReaderSize(op, 1<<20)}
}

func (w *synWorker) stop() {
	if w.cmd == nil {
		return
	}
	w.in.Close()
	w.cmd.Process.Kill()
	w.cmd.Wait()
}

func (w *synWorker) ask(hexInput string) (string, bool) {
	if w.cmd == nil {
		return "", false
	}
	if _, err := fmt.Fprintln(w.in, hexInput); err != nil {
		return "", false
	}
	ch := make(chan string, 1)
	go func() {
		l, err := w.out.ReadString('\n')
		if err != nil {
			ch <- "\x00DEAD"
			return
		}
		ch <- strings.TrimRight(l, "\n")
	}()
	select {
	case r := <-ch:
		if r == "\x00DEAD" {
			return "", false
		}
		return r, true
	case <-time.After(4 * watchdog):
		return "", false
	}
}

func syntaxWorker(args []string) error {
	in := bufio.NewReaderSize(os.Stdin, 1<<20)
	out := bufio.NewWriterSize(os.Stdout, 1<<16)
	for {
		line, err := in.ReadString('\n')
		if err != nil {
			return nil
		}
		b, derr := hex.DecodeString(strings.TrimSpace(line))
		if derr != nil {
			fmt.Fprintln(out, "BADHEX ## - ## - ## -\t\t0,0,0,0,-")
			out.Flush()
			continue
		}
		src := string(b)
		lo := lexAll(src)
		pa := parseOnce(src)
		pb := parseOnce(src)
		var fails []string
		add := func(prop, d string) {
			if d != "" {
				fails = append(fails, prop+"\x1f"+strings.NewReplacer("\n", "\\n", "\t", "\\t", "\x1e", "?", "\x1f", "?").Replace(d))
			}
		}
		add("C16", oracleC16(src, lo))
		add("C08", oracleC08(src, pa, pb))
		c07, c11, c15 := oracleFmt(src, pa)
		add("C07", c07)
		add("C11", c11)
		add("C15", c15)
		lerr, pok, nodes, eline := 0, 0, 0, "-"
		if n := len(lo.toks); n > 0 && lo.toks[n-1].Type == token.ERROR {
			lerr = 1
		}
		if pa.err == nil && !pa.hang && pa.pnc == "" {
			pok, nodes = 1, len(pa.tree.Nodes)
		} else if pa.err != nil {
			if m := parseLineRe.FindStringSubmatch(pa.err.Error()); m != nil {
				eline = m[1]
			}
		}
		fmt.Fprintf(out, "%s ## %s\t%s\t%d,%d,%d,%d,%s\n", projectLex(lo), projectParse(pa), strings.Join(fails, "\x1e"), len(lo.toks), pok, lerr, nodes, eline)
		out.Flush()
	}
}
